import Driver.C03
namespace Driver.C04
open Parsley Parsley.Obj Parsley.Spelling Parsley.DocSpec Driver Driver.C03

/-! C04: histories (a base revision followed by incremental updates chained through /Prev).
    Same line protocol, model and outputs as C03 (see Driver/C03.lean); cases:
      hist <hex> <seed> <variant>
    variant (mod 8) selects the family:
      0-3  well-chained histories with stable generations, object-stream members left alone
      4    generations may change on redefinition / free            (known finding #29 where it bites)
      5    object-stream members may be redefined or freed later     (known finding #30 where it bites)
      6    one /Prev is replaced by: the section itself, a newer section (cycle), an offset >= file size
      7    one /Prev skips over revisions (points at an older section): the skipped revisions do not count
      big  <hex> <seed> <variant>   purpose-built two-revision histories with LARGE object numbers that agree with small
           ones modulo 65536 (5 / 65541, 7 / 196615) or whose generation exceeds 65535 (11 65536 next to 12 0): every
           identifier is its own object - variant%4: 0 the update adds the large ones, 1 both in the base revision and
           the update redefines a small one, 2 generation 65536 in a cross-reference-stream base, 3 large ones in the
           base and the update adds the small ones
      ench <hex> <seed> <variant>   histories of 2-4 revisions (thorough, variant >= 1000: up to 6) in which revisions DECLARE
           ENCRYPTION (`/Encrypt` in a trailer and / or in a cross-reference stream's dictionary; encoder DocSpec.renderHistoryE).
           variant%8: 0 classic tables only, some trailers declare (must load exactly); 1 the NEWEST section is a classic table
           that declares, an older one is / has a cross-reference stream (must be refused); 2 a classic table declares, every
           section below it is classic, above it sections with cross-reference streams and object streams (order rule: loaded,
           members skipped - known finding encrypt-declared-below-streams); 3 every revision declares where its layout allows (the realistic case); 4 only
           cross-reference stream dictionaries declare (never consulted: the history loads exactly, which is acceptable); 5 every choice random; 6 the
           declaring revision is NOT on the /Prev chain (skipped over: loads as a plain history); 7 one hybrid section
           declares in its trailer / its /XRefStm stream's dictionary / both, anywhere in the history.
           Oracle: DocSpec.acceptable (refused, or exactly `resolve` of the chain) - Driver/C03.lean judgeEnc.
      garh <hex of the history> <seed> <variant> <lk> <ll> <gk> <gl> <tk> <tl> [o]   SIZE SWEEP of the bytes around a
           well-chained history (family variant%8 in 0-3, or 7 = one /Prev skipping revisions): filler of kind lk / gk / tk
           and length ll / gl / tl before the header, in the gap before the LAST `startxref`, after the LAST %%EOF
           (format, kinds and expansion: Driver/C03.lean `garbFile`; the lengths: `sweepSizes`).  Every /Prev and every
           offset is relative to the header, so nothing changes: oracle `resolve` of the chain + reported header offset.
      redef <hex> <seed> <variant>   family 5 made systematic: a compressed object is REDEFINED INSIDE A NEW OBJECT STREAM by a
           later revision (see `genRedef`: new container numbered above / below the old one, old container still live /
           fully superseded, position of the redefined member in both streams, a second redefinition, updates in between)
      packh <hex> <seed> <variant>   two revisions, each with a TIGHTLY PACKED object stream (see `genPackH`, Driver/C03.lean `genPack`)
      reth <hex> <seed> <revisions> <index>   identity mismatch by RETARGETING one cross-reference entry across revisions
           (see `genReth` and Driver/C03.lean `RetCase`): must be rejected; shadowed entries are controls
      zero <hex> <seed> <variant>   OBJECT NUMBER 0 AS AN ORDINARY OBJECT (in-use / compressed entry at number 0 in the base or
           added, redefined, freed, re-added by an update; tables, cross-reference streams, hybrids) and the boundary
           object numbers 1, 2^16 +- 1, 2^31 +- 1, 2^32 +- 1 added by an update (see `genZero`)
      emp <hex> <seed> <variant>   EMPTY SUBSECTIONS (`N 0`) inserted into the classic tables of a history at every position
           (see `genEmp`): they contribute no entry, the load is unchanged -/

/-- the revisions of a history, all /Prev automatic -/
def genRevs (seed variant maxRevs : Nat) : List Rev × Bytes × Bool × Rng :=
  let r := Rng.mk' (seed * 104729 + variant)
  let (garbage, r) := rndGarbage r
  let (bin, r) := r.nat 2
  let (k0, r) := r.nat 3
  let (base, g) := rndBase ⟨r, 1, []⟩ k0 65535
  let (nu, r) := g.r.nat maxRevs
  let allowBump := variant % 8 == 4
  let allowMember := variant % 8 == 5
  let (revs, g) := (List.range (nu + 1)).foldl (fun (acc : List Rev × GenSt) _ =>
    let (revs, g) := acc
    let (k, r) := g.r.nat 3
    -- the root may move to another live user object
    let (mv, r) := r.nat 3
    let (ri, r) := r.nat g.known.length
    let rk := g.known[ri]?.getD default
    let prevRoot := (revs.getLast?.map (·.root)).getD base.root
    let root := if mv == 0 && rk.live && !(rk.member && !allowMember) then (rk.num, rk.gen) else prevRoot
    let (u, g) := rndUpdate { g with r } k allowBump allowMember root
    (revs ++ [u], g)) ([base], { g with r })
  (revs, garbage, bin == 1, g.r)

def genHist (seed variant : Nat) (maxRevs : Nat) : Scene :=
  let (revs, garbage, bin, r) := genRevs seed variant maxRevs
  let n := revs.length
  let auto : Scene := ⟨garbage, bin, revs.map fun x => (x, .auto), some (List.range n)⟩
  if variant % 8 == 6 then
    -- aim one /Prev badly.  All /Prev values are written 10 digits wide, so the section offsets
    -- can be learnt from a first rendering with a dummy value in the same place.
    let withAbs (i target : Nat) : Scene :=
      { auto with revs := revs.zipIdx.map fun (x, j) => (x, if j == i then PrevMode.abs target else .auto) }
    let (i, r) := r.nat n
    let (_, xs, viewLen, _) := render (withAbs i 0)
    let (mode, r) := r.nat 3
    let (d, _) := r.pick ([0, 1, 1000] : List Nat)
    let target : Nat :=
      match mode with
      | 0 => xs[i]?.getD 0                              -- itself
      | 1 => xs[Nat.min (n - 1) (i + 1)]?.getD 0        -- a newer section (or itself for the newest)
      | _ => viewLen + d                                -- out of range
    { withAbs i target with chain := none }
  else if variant % 8 == 7 && n ≥ 3 then
    let (_, xs, _, _) := render auto
    -- the newest revision points at section `t` < n-2; chain = 0..t, n-1
    let (t, _) := r.nat (n - 2)
    { auto with
      revs := revs.zipIdx.map fun (x, j) => (x, if j == n - 1 then PrevMode.abs (xs[t]?.getD 0) else .auto),
      chain := some (List.range (t + 1) ++ [n - 1]) }
  else auto

/-- purpose-built histories with identifiers that differ only above bit 16 of the number (or in bit 16 of the
    generation); sections are classic tables or cross-reference streams at random -/
def genBig (seed variant : Nat) : Scene :=
  let r := Rng.mk' (seed * 8191 + variant * 7 + 11)
  let (garbage, r) := rndGarbage r
  let (bin, r) := r.nat 2
  let mk (r : Rng) (nums : List (Nat × Nat)) : List DObj × Rng :=
    nums.foldl (fun (acc : List DObj × Rng) ng => let (o, r) := rndValObj acc.2 ng.1 ng.2; (acc.1 ++ [o], r)) ([], r)
  let fam := variant % 4
  let (baseNums, updNums, root) : List (Nat × Nat) × List (Nat × Nat) × DocSpec.ObjId :=
    match fam with
    | 0 => ([(5, 0), (7, 0), (9, 0)], [(65541, 0), (196615, 0)], (5, 0))
    | 1 => ([(5, 0), (65541, 0), (7, 0), (196615, 0), (9, 0)], [(5, 0)], (9, 0))
    | 2 => ([(5, 0), (11, 65536), (12, 0)], [(65541, 0)], (5, 0))
    | _ => ([(65541, 0), (196615, 0), (3, 0)], [(5, 0), (7, 0)], (3, 0))
  let (k0, r) := if fam == 2 then (1, r) else r.nat 2
  let (k1, r) := r.nat 2
  let (bo, r) := mk r baseNums
  let (bo, r) := shuffleL bo r
  let (uo, r) := mk r updNums
  let (uo, r) := shuffleL uo r
  let (l0, r) := rndLay r k0 20 65535
  let (l1, _) := rndLay r k1 21 65535
  let base : Rev := { objs := bo, members := [], frees := [], zero := true, root, lay := l0 }
  let upd : Rev := { objs := uo, members := [], frees := [], zero := false, root, lay := l1 }
  ⟨garbage, bin == 1, [(base, .auto), (upd, .auto)], some [0, 1]⟩


/-! ### histories that declare encryption -/

/-- a base revision and updates with the given layouts (oldest first); stable generations, members left alone -/
def genRevsK (r : Rng) (kinds : List Nat) : List Rev × GenSt :=
  let (base, g) := rndBase ⟨r, 1, []⟩ (kinds.headD 0) 65535
  (kinds.drop 1).foldl (fun (acc : List Rev × GenSt) k =>
    let (revs, g) := acc
    let (mv, r) := g.r.nat 3
    let (ri, r) := r.nat g.known.length
    let rk := g.known[ri]?.getD default
    let prevRoot := (revs.getLast?.map (·.root)).getD base.root
    let root := if mv == 0 && rk.live && !rk.member then (rk.num, rk.gen) else prevRoot
    let (u, g) := rndUpdate { g with r } k false false root
    (revs ++ [u], g)) ([base], g)

def rndKinds (r : Rng) (n : Nat) : List Nat × Rng :=
  (List.range n).foldl (fun (acc : List Nat × Rng) _ => let (k, r) := acc.2.nat 3; (acc.1 ++ [k], r)) ([], r)

def setAt {α : Type} (l : List α) (i : Nat) (x : α) : List α := l.zipIdx.map fun (y, j) => if j == i then x else y

/-- where a revision of layout `k` declares when it declares "as a writer would": trailer for tables, the stream's
    dictionary for streams, both for hybrids -/
def naturalPlace (k : Nat) : Bool × Bool := (k != 1, k != 0)

def genEncHist (seed variant maxRevs : Nat) : EncScene :=
  let r := Rng.mk' (seed * 49979687 + variant * 31 + 3)
  let fam := variant % 8
  let (garbage, r) := rndGarbage r
  let (bin, r) := r.nat 2
  let (dn, r) := r.nat (maxRevs - 1)
  let n := if fam == 6 then Nat.max 3 (2 + dn) else 2 + dn
  let (kinds, r) := rndKinds r n
  let (sk, r) := r.nat 2          -- a stream layout: 1 or 2
  let sk := sk + 1
  let (j, r) := r.nat (n - 1)     -- an index below the newest
  let (bits, r) := Driver.C02.rndChoices r (3 * n)
  let bit (i : Nat) : Bool := (bits[i]?.getD 0) % 2 == 1
  -- (layouts, (declares?, inTrailer, inStream) per revision), oldest first
  let (kinds, plan) : List Nat × List (Bool × Bool × Bool) :=
    match fam with
    | 0 =>
      let ks := kinds.map fun _ => 0
      (ks, (List.range n).map fun i => (bit i || i == j, true, bit (n + i)))
    | 1 =>
      let ks := setAt (setAt kinds (n - 1) 0) j sk
      (ks, (List.range n).map fun i => if i == n - 1 then (true, true, false) else (bit i && bit (n + i), bit (2 * n + i), true))
    | 2 =>
      let ks := kinds.zipIdx.map fun (k, i) => if i ≤ j then 0 else if i == n - 1 then sk else k
      (ks, (List.range n).map fun i => if i == j then (true, true, false) else if i < j then (bit i, true, false) else (bit i, false, true))
    | 3 => (kinds, kinds.map fun k => (true, (naturalPlace k).1, (naturalPlace k).2))
    | 4 =>
      let ks := setAt kinds j sk
      (ks, ks.zipIdx.map fun (k, i) => (k != 0 && (bit i || i == j), false, true))
    | 5 => (kinds, (List.range n).map fun i => (bit i, bit (n + i), bit (2 * n + i) || !bit (n + i)))
    | 6 => (kinds, kinds.map fun k => (false, (naturalPlace k).1, (naturalPlace k).2))     -- filled in below
    | _ =>
      let ks := setAt kinds j 2
      let pl := (bits[0]?.getD 0) % 3
      (ks, (List.range n).map fun i => (i == j, pl != 1, pl != 0))
  let (revs, g) := genRevsK r kinds
  let r := g.r
  let (decls, r) := plan.foldl (fun (acc : List (Option EncDecl) × Rng) p =>
    let (v, r) := rndEncVal acc.2 g.next
    (acc.1 ++ [if p.1 then some ⟨v, p.2.1, p.2.2⟩ else none], r)) ([], r)
  let mk (ds : List (Option EncDecl)) (pms : List PrevMode) : List (Rev × Option EncDecl × PrevMode) :=
    revs.zipIdx.map fun (x, i) => (x, (ds[i]?).join, pms[i]?.getD .auto)
  let autos := revs.map fun _ => PrevMode.auto
  if fam == 6 then
    -- the newest revision's /Prev skips the revisions t+1 .. n-2; one of those declares
    let (t, r) := r.nat (n - 2)
    let (d, r) := r.nat (n - 2 - t)
    let who := t + 1 + d
    let (v, _) := rndEncVal r g.next
    let k := kinds[who]?.getD 0
    let ds := setAt decls who (some ⟨v, (naturalPlace k).1, (naturalPlace k).2⟩)
    let first : EncScene := ⟨garbage, bin == 1, mk ds autos, List.range n⟩
    let (_, xs, _, _) := renderE first
    ⟨garbage, bin == 1, mk ds (setAt autos (n - 1) (.abs (xs[t]?.getD 0))), List.range (t + 1) ++ [n - 1]⟩
  else ⟨garbage, bin == 1, mk decls autos, List.range n⟩

/-! ### streams and object-stream CONTAINERS taking their /Length from another revision (`lenh`)

    A history of 2-4 revisions of random layouts; every update redefines plain object 2 and adds a plain object.  One
    revision `ci` (cross-reference stream or hybrid) writes an object stream (members 7, 8; family 1: two more
    containers) and an ordinary stream; their /Length holders are written by revision `hi`:
      variant % 3          0 an OLDER revision (later in cross-reference order: second pass), 1 the same revision, 2 a NEWER
                           revision (the holders exist only there)
      (variant / 3) % 2    number order (holder below / above its stream)
      (variant / 6) % 4    family as in C03's `lenc`: 0 one container + one stream, 1 three containers (both number orders
                           and a direct /Length), 2 the ordinary stream's holder is a MEMBER of another object stream,
                           3 the container's holder is
      (variant / 24) % 3   number of revisions - 2
      (variant / 72) % 2   file order inside one revision (holder before / after its stream)
      (variant / 144) % 2  1: the newest revision writes the holders AGAIN, with the same integers
    288 combinations. -/

def genLenH (seed variant : Nat) : Scene :=
  let r := Rng.mk' (seed * 7561 + variant * 41 + 9)
  let rel := variant % 3
  let fwdNum := (variant / 3) % 2 == 1
  let fam := Nat.min 2 ((variant / 6) % 4)
  let sub := if (variant / 6) % 4 == 3 then 1 else 0
  let n := 2 + (variant / 24) % 3
  let after := (variant / 72) % 2 == 1
  let rewrite := (variant / 144) % 2 == 1
  let (garbage, r) := rndGarbage r
  let (bin, r) := r.nat 2
  -- which revisions
  let (a, r) := r.nat n
  let (b, r) := r.nat n
  let (ci, hi) : Nat × Nat :=
    match rel with
    | 0 => let ci := 1 + a % (n - 1); (ci, b % ci)
    | 1 => (a, a)
    | _ => let ci := a % (n - 1); (ci, ci + 1 + b % (n - 1 - ci))
  let (kinds, r) := rndKinds r n
  let (sk, r) := r.nat 2
  let kinds := setAt kinds ci (sk + 1)
  let lp := lenParts r 0 fwdNum fam sub true
  let r := lp.r
  -- the holders are the plain integer objects that are not the target of a prescribed pair's stream ...
  let holderNums := lp.pairs.map (·.2)
  let isHolder (o : DObj) : Bool := holderNums.contains o.num
  let streams := lp.objs.filter fun o => !isHolder o
  let holders := lp.objs.filter isHolder
  let (revs, _) := (List.range n).foldl (fun (acc : List Rev × Rng) i =>
    let (revs, r) := acc
    let k := kinds[i]?.getD 0
    let (plain, r) : List DObj × Rng :=
      if i == 0 then
        let (p1, r) := rndValObj r 1 0
        let (p2, r) := rndValObj r 2 0
        ([p1, p2], r)
      else
        let (p2, r) := rndValObj r 2 0
        let (pn, r) := rndValObj r (30 + i) 0
        ([p2, pn], r)
    let mine := (if i == ci then streams else []) ++ (if i == hi then holders else [])
      ++ (if rewrite && i == n - 1 && i != hi then holders else [])
    let (objs, r) := shuffleL (plain ++ mine) r
    let objs := if ci == hi then lp.pairs.foldl (fun objs p => orderPair objs p.2 p.1 (!after)) objs else objs
    let mems := if i == ci then lp.mems else []
    let (lay, r) := rndLay r k (40 + i) 65535
    let lay := if k == 2 && mems.isEmpty then { lay with up := false } else lay
    (revs ++ [{ objs, members := mems, frees := [], zero := i == 0, root := (1, 0), lay }], r)) ([], r)
  ⟨garbage, bin == 1, revs.map fun x => (x, .auto), some (List.range n)⟩

/-! ### LONG histories (`long`)

    `long <hex> <seed> <sections>`: a base revision (objects 1 = root, 2, 3) and `sections - 1` tiny incremental updates;
    update i redefines object 2 or 3 (value i) and adds object 3 + 2 i; its cross-reference section is a classic table or a
    cross-reference stream (object 4 + 2 i, unfiltered): seed % 4 = 0 all tables, 1 all streams, 2 alternating, 3 random.
    Every threshold on the number of sections / revisions / distinct offsets in the cycle set is crossed by the sweep
    of lengths in `longLengths`.  Oracle: DocSpec.resolve. -/

def tinyObj (num : Nat) (v : Obj) (c : Nat) : DObj :=
  { blankObj with num, body := .val v v, ch := [c % 2, c / 2 % 7, 0, c / 14 % 2, 0, 0, 0] }

def genLong (seed len : Nat) : Scene :=
  let r := Rng.mk' (seed * 2503 + len * 3 + 1)
  let pat := seed % 4
  let (bits, _) := Driver.C02.rndChoices r (len + 1)
  let kindAt (i : Nat) : Nat :=
    match pat with
    | 0 => 0
    | 1 => 1
    | 2 => i % 2
    | _ => (bits[i]?.getD 0) % 2
  let layAt (i : Nat) : RevLay :=
    { kind := kindAt i, ch := [(bits[i]?.getD 0) / 2 % 3], cut := (bits[i]?.getD 0) / 8 % 3, eols := [(bits[i]?.getD 0) / 32 % 3], w0 := 1, x1 := 0, x2 := 0,
      omitIndex := false, flate := false, up := false, xnum := 4 + 2 * i, hiddenGen := 65535, swap := none,
      dictOrder := (bits[i]?.getD 0) / 128 % 4 }
  let base : Rev := { objs := [tinyObj 1 (.name (bs "Root")) 0, tinyObj 2 (.int 0) 1, tinyObj 3 (.int 0) 2],
                      members := [], frees := [], zero := true, root := (1, 0), lay := layAt 0 }
  let upd (i : Nat) : Rev :=
    { objs := [tinyObj (2 + i % 2) (.int (Int.ofNat i)) (bits[i]?.getD 0), tinyObj (3 + 2 * i) (.int (Int.ofNat (1000 + i))) ((bits[i]?.getD 0) / 3)],
      members := [], frees := [], zero := false, root := (1, 0), lay := layAt i }
  ⟨[], false, ((base :: (List.range (len - 1)).map fun i => upd (i + 1)).map fun x => (x, PrevMode.auto)), some (List.range len)⟩

def modelMax (tier : String) : Nat := if tier == "thorough" then 300 else 129

/-- the model's output; `long ... o` cases are judged by the oracle alone -/
def model (line : String) : String :=
  match words line with
  | ["long", _, _, _, "o"] => "nomodel"
  | _ => Driver.C03.model line

/-- chain lengths of the sweep: every length 1..40, then the neighbourhoods of the powers of two and some large ones -/
def longLengths (tier : String) : List Nat :=
  (List.range 40).map (· + 1) ++ [63, 64, 65, 66, 100, 128, 129, 256, 300, 1000] ++ (if tier == "thorough" then [5000] else [])

def encMaxRevs (variant : Nat) : Nat := if variant ≥ 1000 then 5 else 3

def maxRevsOf (variant : Nat) : Nat := if variant ≥ 1000 then 7 else 3

/-- the history of a `garh` case, written without anything around it -/
def garhBase (seed variant : Nat) : Scene :=
  { genHist seed variant (maxRevsOf variant) with garbage := [] }

/-- families of well-chained histories for the sweep -/
def garhVariants : List Nat := [0, 1, 2, 3, 7]


/-! ### what the code AS BUILT makes of object-stream members that are mentioned again (known finding #30)

    The known class `objstm-member-touched-later` is reported only when the case has that shape (`memberTouchedLater`,
    decided on the case) AND the implementation's output is exactly what the following rule says - any other outcome of
    such a case is `wrong-merge`.  The rule is the abstract content of get_xref_info / parse_objects, stated over what the
    encoder wrote (no bytes, no parser, not the loader model): entries are kept newest first, one per (number,
    generation), within a hybrid section the table's before the stream's; every kept in-use entry defines its file-level
    object; every object stream named by a kept type-2 entry and defined as a stream is REPLAYED WHOLE, in ascending
    object-number order: its members are registered one after the other in the stream's order, and a member that is
    already defined OVERWRITES the definition and ends the replay of that stream. -/

inductive EntK where
  | free
  | file (v : Obj)
  | member (container : Nat)

structure AEnt where
  num : Nat
  gen : Nat
  k : EntK
  rev : Nat

/-- the entries of one revision in the order the loader sees them -/
def revEnts (i : Nat) (r : Rev) (s : Said) : List AEnt :=
  let fileVal (id : DocSpec.ObjId) : Obj := ((s.written.find? fun w => w.1 == id).map (·.2)).getD .null
  let uses : List AEnt := r.objs.map fun o => ⟨o.num, o.gen, .file (fileVal (o.num, o.gen)), i⟩
  let frees : List AEnt := (if r.zero then [⟨0, 65535, .free, i⟩] else []) ++ r.frees.map fun f => ⟨f.1, f.2, .free, i⟩
  let self : List AEnt := [⟨r.lay.xnum, 0, .file (fileVal (r.lay.xnum, 0)), i⟩]
  let mems : List AEnt := r.members.map fun m => ⟨m.1, 0, .member m.2.1, i⟩
  match r.lay.kind with
  | 0 => uses ++ frees
  | 1 => uses ++ mems ++ frees ++ self
  | _ => uses ++ frees ++ (r.members.map fun m => (⟨m.1, r.lay.hiddenGen, .free, i⟩ : AEnt)) ++ self ++ mems

def dedupEnts (l : List AEnt) : List AEnt :=
  l.foldl (fun acc e => if acc.any (fun x => x.num == e.num && x.gen == e.gen) then acc else acc ++ [e]) []

def insertNat (n : Nat) : List Nat → List Nat
  | [] => [n]
  | x :: t => if n < x then n :: x :: t else if n == x then x :: t else x :: insertNat n t

/-- replay of one object stream: `(number, value)` in the stream's order -/
def replayStream : List (Nat × Obj) → List (DocSpec.ObjId × Obj) → List (DocSpec.ObjId × Obj)
  | [], defs => defs
  | (n, v) :: t, defs =>
    if defs.any (·.1 == (n, 0)) then defs.map fun d => if d.1 == (n, 0) then ((n, 0), v) else d
    else replayStream t (defs ++ [((n, 0), v)])

def isStreamObj : Obj → Bool
  | .stream _ _ => true
  | _ => false

/-- what the code as built defines for the revisions on the chain (oldest first) -/
def replayDefs (revs : List (Rev × Said)) : List (DocSpec.ObjId × Obj) :=
  let live := dedupEnts (revs.zipIdx.reverse.flatMap fun ((r, s), i) => revEnts i r s)
  let defs0 : List (DocSpec.ObjId × Obj) := live.filterMap fun e => match e.k with | .file v => some ((e.num, e.gen), v) | _ => none
  let conts := live.foldl (fun acc e => match e.k with | .member c => insertNat c acc | _ => acc) []
  conts.foldl (fun defs c =>
    -- (the stream objects are looked up before any object stream is opened)
    match defs0.find? (·.1 == (c, 0)), live.find? (fun e => e.num == c && e.gen == 0) with
    | some (_, v), some e =>
      if isStreamObj v then
        let ms := ((revs[e.rev]?.map (·.1.members)).getD []).filter fun m => m.2.1 == c
        replayStream (ms.map fun m => (m.1, m.2.2.2)) defs
      else defs
    | _, _ => defs) defs0

/-- the output the rule predicts for a scene -/
def replayExpected (sc : Scene) : String :=
  match sc.chain with
  | none => "rejected"
  | some idx =>
    let (_, _, _, saids) := render sc
    let on : List (Rev × Said) := idx.filterMap fun i =>
      match sc.revs[i]?, saids[i]? with
      | some (r, _), some s => some (r, s)
      | _, _ => none
    match on.getLast? with
    | some (_, s) => s!"ok {s.root.1} {s.root.2}" ++ showDefs (sortDefs (replayDefs on))
    | none => "rejected"

/-- the judge of `hist` / `redef`: `resolve`; a failing case is classified on the revisions that count, and the class
    `objstm-member-touched-later` is kept only for exactly the outcome `replayExpected` predicts -/
def judgeMerge (sc : Scene) (hex impl : String) : String :=
  -- a skipped revision is invisible to the classifiers too
  let onChain : Scene := match sc.chain with
    | some idx => { sc with revs := idx.filterMap fun i => sc.revs[i]? }
    | none => sc
  let v := judgeScene sc hex impl
  if v.startsWith "bad " && !(v.startsWith "bad generator" || v.startsWith "bad panic" || v.startsWith "bad accepted") then
    let cls := classOf onChain
    let cls := if cls == "wrong-load" then "wrong-merge" else cls
    let cls := if cls == "objstm-member-touched-later" && impl.trimAscii.toString != replayExpected sc then "wrong-merge" else cls
    s!"bad {cls} " ++ " ".intercalate ((v.splitOn " ").drop 2)
  else v

/-! ### a compressed object REDEFINED INSIDE A NEW OBJECT STREAM (`redef`)

    Base revision (cross-reference stream or hybrid): plain objects 1 (root), 2 and object stream 20 holding 11, 12, 13
    in a random order.  A later revision writes a NEW object stream with new values for some of them:
      variant % 2          the new container is numbered ABOVE (30) / BELOW (10) the old one
      (variant / 2) % 5    redefined: the first / the last / the middle member of the old stream, ALL of them (the old
                           stream is fully superseded: no current entry points into it), the first two
      (variant / 10) % 3   the new stream holds: only the redefined members / a brand-new member 14 BEFORE them / AFTER them
      (variant / 30) % 4   history: base + update / base + update + plain update (redefines 2, adds 50) / base + plain
                           update + update / base + update + a SECOND redefinition of the same members in a third
                           container numbered on the other side (5 / 35)
    120 combinations.  Oracle `resolve`: every member resolves to the value of the newest revision that mentions it.  The
    code replays every live object stream whole, in object-number order, so which definition survives depends on the
    ORDER of that pass: the known class is reported only for the outcome `replayExpected` predicts. -/

def genRedef (seed variant : Nat) : Scene :=
  let r := Rng.mk' (seed * 6151 + variant * 43 + 13)
  let lower := variant % 2 == 1
  let which := (variant / 2) % 5
  let comp := (variant / 10) % 3
  let shape := (variant / 30) % 4
  let (garbage, r) := rndGarbage r
  let (bin, r) := r.nat 2
  let (p1, r) := rndValObj r 1 0
  let (p2, r) := rndValObj r 2 0
  let (m11, r) := memberOf r 11
  let (m12, r) := memberOf r 12
  let (m13, r) := memberOf r 13
  let (ord, r) := shuffleL [m11, m12, m13] r
  let (c1, cm1, r) := lenContainer r 20 0 ord
  let nums := ord.map (·.1)
  let redefNums := match which with
    | 0 => nums.take 1
    | 1 => nums.drop 2
    | 2 => (nums.drop 1).take 1
    | 3 => nums
    | _ => nums.take 2
  let again (r : Rng) (ns : List Nat) : List (Nat × Obj × Obj × Ch × Bytes) × Rng :=
    ns.foldl (fun (acc : List (Nat × Obj × Obj × Ch × Bytes) × Rng) n => let (m, r) := memberOf acc.2 n; (acc.1 ++ [m], r)) ([], r)
  let (new2, r) := again r redefNums
  let (m14, r) := memberOf r 14
  let mems2 := match comp with
    | 0 => new2
    | 1 => [m14] ++ new2
    | _ => new2 ++ [m14]
  let (c2, cm2, r) := lenContainer r (if lower then 10 else 30) 0 mems2
  let (new3, r) := again r redefNums
  let (c3, cm3, r) := lenContainer r (if lower then 35 else 5) 0 new3
  let (p2', r) := rndValObj r 2 0
  let (p50, r) := rndValObj r 50 0
  let (k0, r) := r.nat 2
  let (k1, r) := r.nat 2
  let (k2, r) := r.nat 2
  let (kp, r) := r.nat 3
  let (objs0, r) := shuffleL [p1, p2, c1] r
  let (l0, r) := rndLay r (k0 + 1) 40 65535
  let (l1, r) := rndLay r (k1 + 1) 41 65535
  let (l2, r) := rndLay r (k2 + 1) 42 65535
  let (lp, _) := rndLay r kp 43 65535
  let lp := if kp == 2 then { lp with up := false } else lp
  let base : Rev := { objs := objs0, members := cm1, frees := [], zero := true, root := (1, 0), lay := l0 }
  let upd : Rev := { objs := [c2], members := cm2, frees := [], zero := false, root := (1, 0), lay := l1 }
  let upd2 : Rev := { objs := [c3], members := cm3, frees := [], zero := false, root := (1, 0), lay := l2 }
  let plain : Rev := { objs := [p2', p50], members := [], frees := [], zero := false, root := (1, 0), lay := lp }
  let revs := match shape with
    | 0 => [base, upd]
    | 1 => [base, upd, plain]
    | 2 => [base, plain, upd]
    | _ => [base, upd, upd2]
  ⟨garbage, bin == 1, revs.map fun x => (x, .auto), some (List.range revs.length)⟩

/-! ### identity mismatch by retargeting ACROSS REVISIONS (`reth`)

    A history of `n` revisions (layouts at random): revision 0 writes 1 (root), 2, stream 3, stream 7 with its /Length
    in 8 (forward reference); revision i >= 1 redefines 2 and adds 10i+1, stream 10i+3, stream 10i+7 with holder 10i+8.
    ONE entry - of object B in the section of revision `bRev` - is aimed at an object A of revision `aRev` (or into it,
    at its `endobj`, at a section, at the header; see Driver/C03.lean `Target`); B is an object of that revision or the
    number 10 bRev + 6 that no object carries.  The loader walks the NEWEST section first, so with aRev > bRev object A
    is loaded before B's entry is looked at, with aRev < bRev after it, with aRev = bRev the numbers decide.  An entry of
    object 2 in a revision below the newest is SHADOWED (never looked at): those cases are controls that must load
    exactly; every other case must be REJECTED (decided on the bytes: `retIsMismatch`). -/

def rethNums (i : Nat) : List Nat := if i == 0 then [1, 2, 3, 7, 8] else [2, 10 * i + 1, 10 * i + 3, 10 * i + 7, 10 * i + 8]

def rethRevs (seed n : Nat) : List Rev × Bytes × Bool × Rng :=
  let r := Rng.mk' (seed * 4801 + n * 5 + 2)
  let (garbage, r) := rndGarbage r
  let (bin, r) := r.nat 2
  let (revs, r) := (List.range n).foldl (fun (acc : List Rev × Rng) i =>
    let (revs, r) := acc
    let b := 10 * i
    let (pa, r) := rndValObj r (if i == 0 then 1 else b + 1) 0
    let (p2, r) := rndValObj r 2 0
    let (d, r) := rndStmObj r (b + 3) 0 none
    let (f, r) := rndStmObj r (b + 7) 0 (some (b + 8))
    let (h, r) := holderObj r (b + 8) (dataLen f)
    let (objs, r) := shuffleL [pa, p2, d, f, h] r
    let (k, r) := r.nat 3
    let (lay, r) := rndLay r k (100 + i) 65535
    let lay := if k == 2 then { lay with up := false } else lay
    (revs ++ [{ objs, members := [], frees := [], zero := i == 0, root := (1, 0), lay }], r)) ([], r)
  (revs, garbage, bin == 1, r)

/-- (bRev, B, aRev, target) of every case of an `n`-revision history -/
def rethCombos (n : Nat) : List (Nat × Nat × Nat × Target) :=
  let bEnts : List (Nat × Nat) := (List.range n).flatMap fun i => (rethNums i ++ [10 * i + 6]).map fun b => (i, b)
  let aObjs : List (Nat × Nat) := (List.range n).flatMap fun j => (rethNums j).map fun a => (j, a)
  (bEnts.flatMap fun (i, b) => (aObjs.filter fun (j, a) => !(i == j && a == b)).map fun (j, a) => (i, b, j, Target.own a)) ++
  (bEnts.flatMap fun (i, b) =>
    ([1, 2, 3].map fun t =>
      let j := (i + t) % n
      let a := (rethNums j)[(b + t) % 5]?.getD 2
      (i, b, j, if t == 1 then Target.alt a else if t == 2 then Target.inside a else Target.endobj a)) ++
    ((List.range n).map fun j => (i, b, j, Target.sect)) ++
    [(i, b, (i + 1) % n, Target.stm), (i, b, 0, Target.header)]) ++
  -- SELF ROWS (appended last: the older cases keep their indices): the row the cross-reference stream object 100 + i of
  -- revision i has for itself, aimed at an object of every revision, into one, at an `endobj`, at the header; a
  -- revision written as a classic table has no such object: the entry is then an ordinary added one (rejected)
  ((List.range n).flatMap fun i =>
    ((List.range n).flatMap fun j => [(i, 100 + i, j, Target.own ((rethNums j)[(i + j) % 5]?.getD 2)),
                                      (i, 100 + i, j, Target.own ((rethNums j)[(i + j + 2) % 5]?.getD 2))]) ++
    [(i, 100 + i, (i + 1) % n, Target.inside 2), (i, 100 + i, (i + 1) % n, Target.endobj 2), (i, 100 + i, 0, Target.header)])

def genReth (seed n idx : Nat) : RetCase :=
  let (revs, garbage, bin, r) := rethRevs seed n
  match (rethCombos n)[idx]? with
  | none => default
  | some (i, b, j, target) =>
    let bits := (r.nat 4).1 + idx
    let a := match target with | .own a | .alt a | .inside a | .endobj a => a | _ => 0
    let toStream := revs.zipIdx.map fun (rv, k) =>
      if rv.lay.kind != 2 then [] else
      (if k == i && bits % 2 == 1 then [b] else []) ++ (if k == j && bits / 2 % 2 == 1 && a != 0 then [a] else [])
    ⟨garbage, bin, revs, i, (b, 0), j, target, toStream, b == 2 && i + 1 < n⟩

/-! ### tightly packed object streams in histories (`packh`)

    The base revision holds the packed container 20 (members 11-17) of Driver/C03.lean `genPack`; an incremental update
    (cross-reference stream or hybrid) redefines plain object 2 and adds a SECOND packed container 40 (members 31-37) laid
    out by another variant; optionally a third, plain revision on top.  Oracle `resolve`: all 14 members defined. -/

def genPackH (seed variant : Nat) : Scene :=
  let r := Rng.mk' (seed * 7727 + variant * 23 + 6)
  let (garbage, r) := rndGarbage r
  let (bin, r) := r.nat 2
  let (p1, r) := rndValObj r 1 0
  let (p2, r) := rndValObj r 2 0
  let (c1, ms1, r) := packContainer r 20 [11, 12, 13, 14, 15, 16, 17] (packLayOf variant)
  let (objs0, r) := shuffleL [p1, p2, c1] r
  let (l0, r) := rndLay r (1 + variant % 2) 50 65535
  let (p2', r) := rndValObj r 2 0
  let (c2, ms2, r) := packContainer r 40 [31, 32, 33, 34, 35, 36, 37] (packLayOf (variant * 5 + 77))
  let (objs1, r) := shuffleL [p2', c2] r
  let (l1, r) := rndLay r (1 + (variant / 2) % 2) 51 65535
  let (p3, r) := rndValObj r 60 0
  let (kp, r) := r.nat 3
  let (l2, _) := rndLay r kp 52 65535
  let l2 := if kp == 2 then { l2 with up := false } else l2
  let base : Rev := { objs := objs0, members := ms1, frees := [], zero := true, root := (1, 0), lay := l0 }
  let upd : Rev := { objs := objs1, members := ms2, frees := [], zero := false, root := (1, 0), lay := l1 }
  let top : Rev := { objs := [p3], members := [], frees := [], zero := false, root := (1, 0), lay := l2 }
  let revs := if (variant / 4) % 2 == 1 then [base, upd, top] else [base, upd]
  ⟨garbage, bin == 1, revs.map fun x => (x, .auto), some (List.range revs.length)⟩

/-! ### object number 0 as an ORDINARY object, and boundary object numbers (`zero`)

    Nothing in the loader's contract reserves object number 0: an in-use (`0 g n`, type-1 row at index 0) or compressed
    (type-2 row at index 0) entry for it defines (0, g) like any other entry, and the newest entry wins.  variant decodes as
    where = v % 10, base layout (v / 10) % 3, update layout (v / 30) % 3, flag (v / 90) % 2:
      0 the base defines `0 g obj` (no free-list head is written), the update redefines object 2
      1 the base has the usual free head `0 65535 f`, the update ADDS object 0
      2 the base defines 0, the update REDEFINES it          3 the base defines 0, the update FREES it (`0 g f`)
      4 as 3, and a third revision re-adds 0 as a stream     5 0 is a COMPRESSED member of the base's object stream 20
      6 the update adds 0 as a compressed member of its new object stream 40 (next to member 31)
      7 as 6, 0 being the ONLY member of stream 40           8 the update adds 0, a third revision redefines object 2
      9 BOUNDARY NUMBERS: the update adds objects 1, 65535, 65536, 2^31-1, 2^31, 2^32-1, 2^32 (flag: a third revision
        redefines 65536 and 2^32)
    flag: where 0-4, 8: generation of object 0 is 3 instead of 0; where 5-7: a third, plain revision on top.
    Generations are stable and members are never touched later, so the oracle is plain `resolve`. -/

def zeroVariants : Nat := 180

def genZero (seed variant : Nat) : Scene :=
  let r := Rng.mk' (seed * 6151 + variant * 29 + 3)
  let (garbage, r) := rndGarbage r
  let (bin, r) := r.nat 2
  let w := variant % 10
  let k0 := (variant / 10) % 3
  let k1 := (variant / 30) % 3
  let flag := (variant / 90) % 2 == 1
  let k0 := if w == 5 && k0 == 0 then 1 + (variant / 30) % 2 else k0
  let k1 := if (w == 6 || w == 7) && k1 == 0 then 1 + (variant / 10) % 2 else k1
  let g0 := if flag && (w ≤ 4 || w == 8) then 3 else 0
  let (k2, r) := r.nat 3
  let mkLay (r : Rng) (k x : Nat) (noMembers : Bool) : RevLay × Rng :=
    let (l, r) := rndLay r k x 65535
    (if k == 2 && noMembers then { l with up := false } else l, r)
  let (p1, r) := rndValObj r (if w == 9 then 3 else 1) 0
  let (p2, r) := rndValObj r (if w == 9 then 5 else 2) 0
  let (p2', r) := rndValObj r (if w == 9 then 5 else 2) 0
  let (p4, r) := rndValObj r 4 0
  let (z0, r) := rndValObj r 0 g0
  let (z1, r) := rndValObj r 0 g0
  let (z2, r) := rndStmObj r 0 g0 none
  let (m0, r) := memberOf r 0
  let (m11, r) := memberOf r 11
  let (m12, r) := memberOf r 12
  let (m31, r) := memberOf r 31
  let (at0, r) := r.nat 3
  let (at1, r) := r.nat 2
  -- base revision: objects 1, 2 (+ 0), with a cross-reference stream also object stream 20 (members 11, 12 (+ 0))
  let baseHasZero := w == 0 || w == 2 || w == 3 || w == 4
  let ms0 := if w == 5 then [m11, m12].take at0 ++ [m0] ++ [m11, m12].drop at0 else [m11, m12]
  let (c20, mem20, r) := lenContainer r 20 0 ms0
  let (objs0, r) := shuffleL ([p1, p2] ++ (if baseHasZero then [z0] else []) ++ (if k0 == 0 then [] else [c20])) r
  let mem20 := if k0 == 0 then [] else mem20
  let (l0, r) := mkLay r k0 90 mem20.isEmpty
  let root : DocSpec.ObjId := (p1.num, 0)
  let base : Rev := { objs := objs0, members := mem20, frees := [], zero := !(baseHasZero || w == 5), root, lay := l0 }
  -- first update
  let ms1 := if w == 7 then [m0] else [m31].take at1 ++ [m0] ++ [m31].drop at1
  let (c40, mem40, r) := lenContainer r 40 0 ms1
  let bnd : List Nat := [1, 65535, 65536, 2147483647, 2147483648, 4294967295, 4294967296]
  let (bo, r) := bnd.foldl (fun (acc : List DObj × Rng) n => let (o, r) := rndValObj acc.2 n 0; (acc.1 ++ [o], r)) ([], r)
  let (objs1, frees1, mem1) : List DObj × List (Nat × Nat) × List (Nat × Nat × Nat × Obj) :=
    match w with
    | 0 => ([p2'], [], [])
    | 1 => ([z1, p4], [], [])
    | 2 => ([z1], [], [])
    | 3 => ([p4], [(0, g0)], [])
    | 4 => ([p4], [(0, g0)], [])
    | 5 => ([p2'], [], [])
    | 6 => ([p4, c40], [], mem40)
    | 7 => ([c40], [], mem40)
    | 8 => ([z1, p4], [], [])
    | _ => (bo, [], [])
  let (objs1, r) := shuffleL objs1 r
  let (l1, r) := mkLay r k1 91 mem1.isEmpty
  let upd : Rev := { objs := objs1, members := mem1, frees := frees1, zero := false, root, lay := l1 }
  -- optional third revision
  let (q1, r) := rndValObj r 65536 0
  let (q2, r) := rndValObj r 4294967296 0
  let (p2'', r) := rndValObj r 2 0
  let objs2 : List DObj :=
    match w with
    | 4 => [z2]
    | 8 => [p2']
    | 9 => if flag then [q2, q1] else []
    | 5 | 6 | 7 => if flag then [p2''] else []
    | _ => []
  let (l2, _) := mkLay r k2 92 true
  let top : Rev := { objs := objs2, members := [], frees := [], zero := false, root, lay := l2 }
  let revs := if objs2.isEmpty then [base, upd] else [base, upd, top]
  ⟨garbage, bin == 1, revs.map fun x => (x, .auto), some (List.range revs.length)⟩

/-! ### EMPTY SUBSECTIONS in classic tables (`emp`)

    `emp <hex> <seed> <variant>`: a base revision (objects 1 = root, 2, 3, 5, 6, 8) and one or two incremental updates
    (update 1 redefines 3, frees 5, adds 10; update 2 redefines 2 and 6, adds 12), every revision a classic table or a
    hybrid (seed), so every table has several subsections.  Empty subsections (`N 0`, N = 0 / the next subsection's
    first number / 99; contributing NO entry) are inserted into the tables:
      variant % 8         0 one leading, 1 one after the first subsection, 2 two in a row there, 3 three in a row there,
                          4 one trailing (before `trailer`), 5 one before the LAST subsection, 6 at every position,
                          7 two leading ones
      (variant / 8) % 3   in the base's table only / the newest update's only / every revision's
      (variant / 24) % 2  two / three revisions
    48 combinations.  The encoder (`renderRevEmp`) is Spec/Doc's renderRev with `empSubs` applied to the table's
    subsections; the oracle is `resolve` of what the revisions said: an empty subsection changes nothing. -/

def emptySub (start k : Nat) : XrefSpec.TSub :=
  { start, wStart := (natDigits start).length + k % 2, wCount := 1, lead := (if k % 3 == 1 then [32] else []),
    hdrEol := (if k % 2 == 0 then [10] else [13, 10]), ents := [] }

def empSubs (pat salt : Nat) (subs : List XrefSpec.TSub) : List XrefSpec.TSub :=
  let st (i : Nat) : Nat := match (salt + i) % 3 with | 0 => 0 | 1 => (subs[i]?.map (·.start)).getD 7 | _ => 99
  let e (i k : Nat) : XrefSpec.TSub := emptySub (st i) k
  let n := subs.length
  match pat with
  | 0 => [e 0 0] ++ subs
  | 1 => subs.take 1 ++ [e 1 0] ++ subs.drop 1
  | 2 => subs.take 1 ++ [e 1 0, e 2 1] ++ subs.drop 1
  | 3 => subs.take 1 ++ [e 1 0, e 2 1, e 0 2] ++ subs.drop 1
  | 4 => subs ++ [e n 0]
  | 5 => subs.take (n - 1) ++ [e (n - 1) 1] ++ subs.drop (n - 1)
  | 6 => [e 0 0] ++ subs.zipIdx.flatMap fun (s, i) => [s, e (i + 1) i]
  | _ => [e 0 0, e 1 1] ++ subs

/-- Spec/Doc's `renderRev` with empty subsections inserted into the table (`pat` = none: renderRev itself) -/
def renderRevEmp (r : Rev) (pat : Option Nat) (salt : Nat) (pos : Nat) (prev : Option Nat) : Bytes × Nat × Said :=
  match pat with
  | none => renderRev r pos prev
  | some pat =>
  let lay := r.lay
  let (body, us0, vals) := renderObjs r.objs pos
  let us := relabelUse lay.relabel (swapOfs lay.swap us0)
  let p1 := pos + body.length
  let uses : List XE := us.map fun u => ⟨u.1, 1, u.2.2, u.2.1⟩
  let mems : List XE := r.members.map fun m => ⟨m.1, 2, m.2.1, m.2.2.1⟩
  let frees : List XE := (if r.zero then [⟨0, 0, 0, 65535⟩] else []) ++ r.frees.map fun f => ⟨f.1, 0, 0, f.2⟩
  let memVals : List (DocSpec.ObjId × Obj) := r.members.map fun m => ((m.1, 0), m.2.2.2)
  let maxNum := maxOf ((uses ++ mems ++ frees).map (·.num) ++ [lay.xnum])
  let freed := r.frees.map (·.1)
  match lay.kind with
  | 0 =>
    let es := sortXE (uses ++ frees)
    let table := XrefSpec.encTable (empSubs pat salt (tableSubs lay es))
    let tr : List (Bytes × Bytes) := rotate
      ([(bs "Size", natDigits (maxNum + 1)), (bs "Root", refBytes r.root)] ++
       (match prev with | some p => [(bs "Prev", pad10 p)] | none => [])) lay.dictOrder
    let (w, c) := wsOpt lay.ch
    let (d, c) := spellRaw tr c
    (body ++ table ++ bs "trailer" ++ w ++ bs "<<" ++ d ++ [10] ++ tailBytes p1 c, p1, ⟨vals, freed, r.root⟩)
  | 1 => renderRev r pos prev
  | _ =>
    let (xb, xv) := renderXrefStream { lay with omitIndex := false } p1 (sortXE mems) (maxNum + 1) none none
    let p2 := p1 + xb.length
    let hidden : List XE := r.members.map fun m => ⟨m.1, 0, 0, lay.hiddenGen⟩
    let es := sortXE (uses ++ frees ++ hidden ++ [⟨lay.xnum, 1, p1, 0⟩])
    let table := XrefSpec.encTable (empSubs pat salt (tableSubs lay es))
    let tr : List (Bytes × Bytes) := rotate
      ([(bs "Size", natDigits (maxNum + 1)), (bs "Root", refBytes r.root), (bs "XRefStm", natDigits p1)] ++
       (match prev with | some p => [(bs "Prev", pad10 p)] | none => [])) lay.dictOrder
    let (w, c) := wsOpt lay.ch
    let (d, c) := spellRaw tr c
    (body ++ xb ++ table ++ bs "trailer" ++ w ++ bs "<<" ++ d ++ [10] ++ tailBytes p2 c, p2,
     ⟨vals ++ memVals ++ [((lay.xnum, 0), xv)], freed, r.root⟩)

def renderRevsEmp (salt : Nat) : List (Rev × Option Nat) → Nat → Option Nat → Bytes × List Said
  | [], _, _ => ([], [])
  | (r, pat) :: t, pos, prev =>
    let (b, x, said) := renderRevEmp r pat salt pos prev
    let (bt, saids) := renderRevsEmp (salt + 1) t (pos + b.length) (some x)
    (b ++ bt, said :: saids)

structure EmpCase where
  garbage : Bytes
  binary : Bool
  salt : Nat
  revs : List (Rev × Option Nat)

def renderEmp (c : EmpCase) : Bytes × List Said :=
  let h := header c.binary
  let (b, saids) := renderRevsEmp c.salt c.revs h.length none
  (c.garbage ++ h ++ b, saids)

def empVariants : Nat := 48

def genEmp (seed variant : Nat) : EmpCase :=
  let r := Rng.mk' (seed * 5381 + variant * 37 + 17)
  let pat := variant % 8
  let who := (variant / 8) % 3
  let n := 2 + (variant / 24) % 2
  let (garbage, r) := rndGarbage r
  let (bin, r) := r.nat 2
  let (salt, r) := r.nat 3
  let mk (r : Rng) (nums : List Nat) : List DObj × Rng :=
    nums.foldl (fun (acc : List DObj × Rng) k => let (o, r) := rndValObj acc.2 k 0; (acc.1 ++ [o], r)) ([], r)
  let lay (r : Rng) (i : Nat) : RevLay × Rng :=
    let (k, r) := r.nat 3
    let (l, r) := rndLay r (if k == 2 then 2 else 0) (40 + i) 65535
    ({ l with up := false }, r)
  let (o0, r) := mk r [1, 2, 3, 5, 6, 8]
  let (o0, r) := shuffleL o0 r
  let (o1, r) := mk r [3, 10]
  let (o1, r) := shuffleL o1 r
  let (o2, r) := mk r [2, 6, 12]
  let (o2, r) := shuffleL o2 r
  let (l0, r) := lay r 0
  let (l1, r) := lay r 1
  let (l2, _) := lay r 2
  let base : Rev := { objs := o0, members := [], frees := [], zero := true, root := (1, 0), lay := l0 }
  let u1 : Rev := { objs := o1, members := [], frees := [(5, 0)], zero := false, root := (1, 0), lay := l1 }
  let u2 : Rev := { objs := o2, members := [], frees := [], zero := false, root := (1, 0), lay := l2 }
  let revs := [base, u1, u2].take n
  ⟨garbage, bin == 1, salt,
   revs.zipIdx.map fun (x, i) => (x, if who == 2 || (who == 0 && i == 0) || (who == 1 && i == n - 1) then some pat else none)⟩

def judgeEmp (c : EmpCase) (hex impl : String) : String :=
  let (bytes, saids) := renderEmp c
  if hexOfBytes bytes != hex then "bad generator-mismatch the case does not re-derive from its seed"
  else
    let want := match resolve saids with
      | (defs, some root) => s!"ok {root.1} {root.2}" ++ showDefs defs
      | (_, none) => "rejected"
    let got := impl.trimAscii.toString
    if got == want then "ok"
    else if got.startsWith "panic" || got.startsWith "crash" || got.startsWith "hang" then s!"bad panic-or-crash {got.take 80}"
    else if got == "rejected" then "bad wellformed-rejected rejected"
    else s!"bad wrong-merge want={(want.take 300)}"

def judge (case impl : String) : String :=
  match judgeCommon case impl with
  | some v => v
  | none =>
    match words case with
    | ["hist", hex, seed, variant] => judgeMerge (genHist seed.toNat! variant.toNat! (maxRevsOf variant.toNat!)) hex impl
    | ["redef", hex, seed, variant] => judgeMerge (genRedef seed.toNat! variant.toNat!) hex impl
    | ["packh", hex, seed, variant] =>
      let v := judgeScene (genPackH seed.toNat! variant.toNat!) hex impl
      if v.startsWith "bad wrong-load" then "bad wrong-merge " ++ " ".intercalate ((v.splitOn " ").drop 2) else v
    | ["pack", hex, seed, variant] => judgeScene (genPack seed.toNat! variant.toNat!) hex impl   -- one-revision histories
    | ["reth", hex, seed, n, idx] => judgeRet (genReth seed.toNat! n.toNat! idx.toNat!) hex impl "wrong-merge"
    | ["ret", hex, seed, kind, a, b, tsel, place] =>      -- one-revision histories, see Driver/C03.lean
      judgeRet (genRet seed.toNat! ⟨kind.toNat!, a.toNat!, b.toNat!, tsel.toNat!, place.toNat!⟩) hex impl "wrong-merge"
    | ["w0", hex, seed, variant] => Driver.C03.judgeW0 seed.toNat! variant.toNat! hex impl   -- one-revision histories, see Driver/C03.lean
    | ["ench", hex, seed, variant] => judgeEnc (genEncHist seed.toNat! variant.toNat! (encMaxRevs variant.toNat!)) hex impl
    | ["enc", hex, seed, variant] => judgeEnc (genEncDoc seed.toNat! variant.toNat!) hex impl
    | ["lenc", hex, seed, variant] => Driver.C03.judgeLen (genLenC seed.toNat! variant.toNat!) hex impl   -- one-revision histories
    | ["lenh", hex, seed, variant] =>
      let v := judgeLen (genLenH seed.toNat! variant.toNat!) hex impl
      if v.startsWith "bad wrong-load" then "bad wrong-merge " ++ " ".intercalate ((v.splitOn " ").drop 2) else v
    | "garh" :: hex :: seed :: variant :: lk :: ll :: _ :: _ :: tk :: _ =>
      let v := judgeGarb (garhBase seed.toNat! variant.toNat!) hex lk.toNat! ll.toNat! tk.toNat! impl
      if v.startsWith "bad wrong-load" then "bad wrong-merge " ++ " ".intercalate ((v.splitOn " ").drop 2) else v
    | "long" :: hex :: seed :: len :: _ =>
      if impl.trimAscii.toString == "nomodel" then "skip" else      -- (the model's side of an oracle-only case)
      let v := judgeScene (genLong seed.toNat! len.toNat!) hex impl
      if v.startsWith "bad wrong-load" then "bad wrong-merge " ++ " ".intercalate ((v.splitOn " ").drop 2) else v
    | ["emp", hex, seed, variant] => judgeEmp (genEmp seed.toNat! variant.toNat!) hex impl
    | ["zero", hex, seed, variant] =>
      let v := judgeScene (genZero seed.toNat! variant.toNat!) hex impl
      if v.startsWith "bad wrong-load" then "bad wrong-merge " ++ " ".intercalate ((v.splitOn " ").drop 2) else v
    | ["big", hex, seed, variant] =>
      let v := judgeScene (genBig seed.toNat! variant.toNat!) hex impl
      if v.startsWith "bad wrong-load" then "bad wrong-merge " ++ " ".intercalate ((v.splitOn " ").drop 2) else v
    | _ => "skip"

/-- quick: histories of up to 4 revisions; thorough: variants ≥ 1000 allow up to 8 -/
def gen (seed n : Nat) (tier : String) (emit : String → IO Unit) : IO Unit := do
  -- long histories: the sweep of chain lengths (the same lengths for every seed; the seed picks the section kinds)
  for len in longLengths tier do
    let sc := genLong seed len
    let (bytes, _, _, _) := render sc
    -- the byte-list model needs time quadratic in the file size: above `modelMax` sections the case is oracle-only
    emit s!"long {hexOfBytes bytes} {seed} {len}{if len > modelMax tier then " o" else ""}"
  -- size sweep of leading garbage / gap before the last startxref / tail after the last %%EOF around histories: one
  -- history per size (family rotating with the size index), the three places one at a time and all at once
  for rep in List.range (if tier == "thorough" then 3 else 1) do
    for c in garbSweep (seed + 5 * rep) tier [0] do
      let i := c.seed % 1009
      let v := garhVariants[(i + seed + rep) % garhVariants.length]?.getD 0
      let c := { c with variant := v }
      let (doc, _, _, _) := render (garhBase c.seed c.variant)
      emit (garbLine "garh" doc c)
  -- a compressed object redefined inside a NEW object stream: all 120 combinations (the seed picks values and layouts)
  for rep in List.range (if tier == "thorough" then 5 else 1) do
    for v in List.range 120 do
      let s := (seed + 13 * rep) * 1019 + v
      let (bytes, _, _, _) := render (genRedef s v)
      emit s!"redef {hexOfBytes bytes} {s} {v}"
  -- tightly packed object streams in two revisions: every third variant of C03's sweep
  for rep in List.range (if tier == "thorough" then 3 else 1) do
    for i in List.range 96 do
      let v := 3 * i + (seed + rep) % 3
      let s := (seed + 23 * rep) * 1033 + v
      let (bytes, _, _, _) := render (genPackH s v)
      emit s!"packh {hexOfBytes bytes} {s} {v}"
  -- identity mismatch by retargeting one entry across revisions: every (entry, object) pair of 2- and 3-revision histories
  for rep in List.range (if tier == "thorough" then 3 else 1) do
    for nr in [2, 3] do
      for idx in List.range (rethCombos nr).length do
        let s := (seed + 17 * rep) * 1021 + idx
        match retUsable (genReth s nr idx) with
        | some bytes => emit s!"reth {hexOfBytes bytes} {s} {nr} {idx}"
        | none => pure ()
  -- object number 0 as an ordinary object / boundary object numbers: all 180 combinations (the seed picks values and layouts)
  for rep in List.range (if tier == "thorough" then 5 else 1) do
    for v in List.range zeroVariants do
      let s := (seed + 29 * rep) * 1039 + v
      let (bytes, _, _, _) := render (genZero s v)
      emit s!"zero {hexOfBytes bytes} {s} {v}"
  -- empty subsections (`N 0`) in classic tables at every position: all 48 combinations, three documents each
  for rep in List.range (if tier == "thorough" then 9 else 3) do
    for v in List.range empVariants do
      let s := (seed + 31 * rep) * 1049 + v
      let (bytes, _) := renderEmp (genEmp s v)
      emit s!"emp {hexOfBytes bytes} {s} {v}"
  for k in List.range n do
    let s := seed * 100003 + k
    let v := k % 8 + (if tier == "thorough" && k % 3 == 0 then 1000 else 0)
    let sc := genHist s v (maxRevsOf v)
    let (bytes, _, _, _) := render sc
    emit s!"hist {hexOfBytes bytes} {s} {v}"
    if k % 3 == 0 then
      let (mb, _) := mutate bytes (Rng.mk' (s + 23))
      emit s!"mut {hexOfBytes mb}"
    if k % 8 == 3 then
      let bg := genBig s (k / 8)
      let (bb, _, _, _) := render bg
      emit s!"big {hexOfBytes bb} {s} {k / 8}"
    -- histories that declare encryption: 8 families
    if k % 4 == 1 then
      let ev := (k / 4) % 8 + (if tier == "thorough" && k % 3 == 0 then 1000 else 0)
      let (eb, _, _, _) := renderE (genEncHist s ev (encMaxRevs ev))
      emit s!"ench {hexOfBytes eb} {s} {ev}"
    -- /Length holders and object-stream containers in different revisions: 288 combinations per 864 indices
    if k % 3 == 2 then
      let (lb, _, _, _) := render (genLenH s (k / 3))
      emit s!"lenh {hexOfBytes lb} {s} {k / 3}"
    -- one-revision histories whose cross-reference stream has no type field (/W [0 n m]), plain and hybrid
    if k % 16 == 5 then
      let (wb, _) := Driver.C03.w0Bytes s (k / 16)
      emit s!"w0 {hexOfBytes wb} {s} {k / 16}"

def nontrivial (line : String) : Bool :=
  match words line with
  | "hist" :: hex :: _ => hex.length ≥ 1000
  | "big" :: _ => true
  | "zero" :: _ => true
  | "emp" :: _ => true
  | "redef" :: _ => true
  | "pack" :: _ => true
  | "packh" :: _ => true
  | "reth" :: _ => true
  | "ret" :: _ => true
  | "lenc" :: _ => true
  | "lenh" :: _ => true
  | "long" :: _ => true
  | "garh" :: _ => true
  | "ench" :: _ => true
  | "enc" :: _ => true
  | "decl" :: _ => true
  | "selfrow" :: _ => true
  | "w0" :: _ => true
  | "exp" :: _ => true
  | "mut" :: hex :: _ => hex.length ≥ 400
  | _ => false

def driver : PropDriver := { gen, model, judge, nontrivial }
end Driver.C04
