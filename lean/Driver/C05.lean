import Driver.Common
import Driver.ObjFmt
import Parsley.Model.Indirect
import Parsley.Spec.Framing
import Parsley.Spec.FramingWide
import Parsley.Spec.FramingKinds
namespace Driver.C05
open Parsley Parsley.Prim Parsley.Obj Parsley.Indirect Parsley.Framing Driver

/-!
  case:  `sc  <maxdepth> <bufhex> <offsets> <ids> <description>`   a rendered scene (oracle: `expectScene`)
         `raw <maxdepth> <bufhex> <offsets> <ids>`                 arbitrary bytes (oracle: soundness of what was accepted)
  offsets: comma-separated cursor positions, one `parse_pdf_indirect_obj` call per offset, shared context
  ids:     comma-separated `num:gen`, looked up in the context after the last call
  description: items joined by `;`, each `S|P,<f0>,…,<f18>,<payloadhex>`

  view variant: `vw <steps> <prehex> <sufhex> <sc … | raw …>`   the same case, run on a RESTRICTED VIEW:
    `<prehex> ++ <bufhex> ++ <sufhex>` is one allocation, `<steps>` (comma-separated `R<start>:<size>` =
    RestrictView, `F<start>` = RestrictViewFrom, each applied to the result of the previous one) select
    the window `<bufhex>` in it.  What is expected is what is expected of the window's bytes as a buffer
    of their own: offsets, spans, cursors and `StreamContentT.start` are cursors of the view the parser
    was given (an "absolute" `start` in the sense of C15 = absolute in THAT buffer; nothing is re-based
    to the allocation), and nothing outside the window is read.
-/

def splitNats (s : String) : Option (List Nat) :=
  if s == "-" then some [] else (s.splitOn ",").mapM String.toNat?

def splitIds (s : String) : Option (List (Nat × Nat)) :=
  if s == "-" then some [] else
  (s.splitOn ",").mapM fun t =>
    match t.splitOn ":" with
    | [a, g] => match a.toNat?, g.toNat? with | some a, some g => some (a, g) | _, _ => none
    | _ => none

def showItem (it : Item) : String :=
  (if it.isStream then "S," else "P,") ++ ",".intercalate (it.f.map toString) ++ "," ++ hexOfBytes it.payload

def parseItem (s : String) : Option Item :=
  match s.splitOn "," with
  | tag :: rest =>
    match rest.reverse with
    | hx :: fr =>
      match bytesOfHex hx, fr.reverse.mapM String.toNat? with
      | some p, some f => some ⟨tag == "S", f, p⟩
      | _, _ => none
    | [] => none
  | [] => none

def parseDesc (s : String) : Option (List Item) := (s.splitOn ";").mapM parseItem
def showDesc (l : List Item) : String := ";".intercalate (l.map showItem)

/-! ### restricted views (transforms.rs): window arithmetic -/

inductive VStep where
  | r (start size : Nat)   -- RestrictView::new(start, size)
  | f (start : Nat)        -- RestrictViewFrom::new(start)

def showStep : VStep → String
  | .r a b => s!"R{a}:{b}"
  | .f a => s!"F{a}"

def parseStep (s : String) : Option VStep :=
  match s.toList with
  | 'R' :: t =>
    match (String.ofList t).splitOn ":" with
    | [a, b] => match a.toNat?, b.toNat? with | some a, some b => some (.r a b) | _, _ => none
    | _ => none
  | 'F' :: t => (String.ofList t).toNat?.map .f
  | _ => none

def parseSteps (s : String) : Option (List VStep) := (s.splitOn ",").mapM parseStep
def showSteps (l : List VStep) : String := ",".intercalate (l.map showStep)

/-- the window (start, size) of the allocation that a chain of restrictions selects, `none` when a
    step is refused: RestrictView(a, b) needs `a + b ≤ size`, RestrictViewFrom(a) needs `a < size` -/
def applySteps : List VStep → Nat × Nat → Option (Nat × Nat)
  | [], w => some w
  | .r a b :: t, (st, sz) => if b ≤ sz && a ≤ sz - b then applySteps t (st + a, b) else none
  | .f a :: t, (st, sz) => if a < sz then applySteps t (st + a, sz - a) else none

/-- `none`: the steps select exactly the window `buf` of `pre ++ buf ++ suf` -/
def viewFault (steps : List VStep) (pre buf suf : Bytes) : Option String :=
  match applySteps steps (0, pre.length + buf.length + suf.length) with
  | none => some "view-error"
  | some (st, sz) => if st == pre.length && sz == buf.length then none else some "view-mismatch"

/-! ### model side -/

def showCall (c : Ctx) (s : Bytes) (off : Nat) : String × Ctx :=
  let (r, c') := parseIndirect c s off
  let delta : Int := (c'.cur : Int) - (c.cur : Int)
  match r with
  | (.ok v, k) =>
    (s!"ok {v.val.num} {v.val.gen} {v.start} {v.stop} {k} {v.val.obj.start} {v.val.obj.stop} {delta} {objSexp v.val.obj.val}", c')
  | (.err e, k) => (s!"err {e} {k} {delta}", c')
  | (.panic p, k) => (s!"panic {p} {k}", c')

def modelPlain (ws : List String) : String :=
  match ws with
  | _ :: d :: hex :: offs :: ids :: _ =>
    match d.toNat?, bytesOfHex hex, splitNats offs, splitIds ids with
    | some d, some s, some offs, some ids =>
      if offs.any (· > s.length) then "bad-case" else
      let (segs, c) := offs.foldl (fun (acc : List String × Ctx) off =>
        let (t, c') := showCall acc.2 s off
        (t :: acc.1, c')) ([], Ctx.new d)
      let looks := ids.map fun (a, g) =>
        match defsGet (a, g) c.defs with
        | some o => s!"L {a}:{g} {o.start} {o.stop} {objSexp o.val}"
        | none => s!"L {a}:{g} none"
      " | ".intercalate (segs.reverse ++ looks)
    | _, _, _, _ => "bad-case"
  | _ => "bad-case"

/-- a view is modelled by its window: the case on a view selecting the window `buf` is the case on
    `buf` (that a `ParseBuffer` view behaves like a buffer holding its window is C17's subject) -/
def model (line : String) : String :=
  match words line with
  | "vw" :: steps :: pre :: suf :: rest =>
    match rest with
    | _ :: _ :: hex :: _ :: _ :: _ =>
      match parseSteps steps, bytesOfHex pre, bytesOfHex suf, bytesOfHex hex with
      | some st, some pre, some suf, some buf =>
        match viewFault st pre buf suf with
        | some f => f
        | none => modelPlain rest
      | _, _, _, _ => "bad-case"
    | _ => "bad-case"
  | ws => modelPlain ws

/-! ### oracle -/

def expectStr : Expect → String
  | .accept n g a b os oe v => s!"ok {n} {g} {a} {b} {b} {os} {oe} 0 {objSexp v}"
  | .needContext => "err ctx"
  | .reject => "err <not ctx>"

/-- does the implementation's segment meet the expectation? -/
def meets (e : Expect) (seg : String) : Bool :=
  match e with
  | .accept .. => seg == expectStr e
  | .needContext => match words seg with | ["err", k, _, d] => k == "ctx" && d == "0" | _ => false
  | .reject => match words seg with | ["err", k, _, d] => k != "ctx" && d == "0" | _ => false

/-- every number of the item is written inside the i64 range (object number / generation inside
    0 .. 2^63-1): the domain on which `Framing.expectItem` reads the text correctly -/
def narrowItem (it : Item) : Bool :=
  NumLit.headerOK it.num && NumLit.headerOK it.gen &&
  (if it.isStream then
     match it.g 5 % 4 with
     | 0 => NumLit.isInt (it.g 7 % 4 == 1) (it.g 6)
     | 1 => NumLit.headerOK (it.g 6) && NumLit.headerOK (it.g 7)
     | _ => true
   else
     match it.g 2 with
     | 0 => NumLit.isInt false (it.g 3)
     | 1 => NumLit.isInt true (it.g 3)
     | _ => true)

def showDefs (d : SDefs) : String :=
  " ".intercalate (d.map fun (k, (v, os, oe)) => s!"{k.1}:{k.2}@{os}-{oe}={objSexp v}")

def judgeScene (hex offs ids desc impl : String) : String :=
  match bytesOfHex hex, splitNats offs, splitIds ids, parseDesc desc with
  | some buf, some offs, some ids, some items =>
    let (rb, lays) := renderSceneK items 0
    if rb != buf then "bad desc-mismatch the description does not render to the buffer"
    else if lays.map (·.off) != offs then "bad desc-mismatch offsets"
    else
      -- the oracle for literals of any size (Spec/FramingWide.lean); on scenes written inside the
      -- i64 range it must say what the original oracle `Framing.expectScene` says
      -- (plain objects of the extended kinds, Spec/FramingKinds.lean: `expectSceneK` adds their values, no clause)
      let (exps, d) := expectSceneK buf [] items lays
      let (exps0, d0) := expectScene buf [] items lays
      if items.all (fun it => narrowItem it && !isKind it) && (exps.map expectStr != exps0.map expectStr || showDefs d != showDefs d0) then
        "bad oracle-disagreement expectSceneW differs from expectScene on a scene inside the i64 range"
      else
      let segs := impl.splitOn " | "
      if segs.length != exps.length + ids.length then s!"bad shape expected {exps.length + ids.length} segments"
      else
        let callSegs := segs.take exps.length
        let lookSegs := segs.drop exps.length
        match (exps.zip callSegs).find? fun (e, sg) => !meets e sg with
        | some (e, sg) =>
          let cls := match e, (words sg).head? with
            | .accept _ _ _ _ _ _ (.stream ..), some "ok" => "framing"   -- accepted, but not with the framed data
            | .accept .., some "ok" => "value"            -- a plain object accepted with another value / span
            | .accept .., _ => "valid-rejected"
            | .needContext, _ => "context"
            | .reject, some "ok" => "invalid-accepted"
            | .reject, _ => "error-kind"
          s!"bad {cls} expected=[{expectStr e}] got=[{sg}]"
        | none =>
          let expLooks := ids.map fun (a, g) =>
            match sLookup d (a, g) with
            | some (v, os, oe) => s!"L {a}:{g} {os} {oe} {objSexp v}"
            | none => s!"L {a}:{g} none"
          match (expLooks.zip lookSegs).find? fun (e, sg) => e != sg with
          | some (e, sg) => s!"bad context expected=[{e}] got=[{sg}]"
          | none => "ok"
  | _, _, _, _ => "bad-case"

def hexTok (s : String) : Bytes := (bytesOfHex s).getD []

/-- Soundness of one accepted segment on arbitrary bytes: whatever was accepted as a stream is
    framed in the buffer by its reported `start`/`size`, the content is exactly those bytes, the
    reported size is the length declared in the reported dictionary (direct, or through an object
    accepted earlier in the same case), and `endstream` … `endobj` close it. -/
def soundSeg (buf : Bytes) (earlier : List (Nat × Nat × String)) (sawErr : Bool) (seg : String) : Option String :=
  match words seg with
  | "ok" :: _ :: _ :: start :: stop :: cur :: ostart :: oend :: delta :: sexp =>
    let start := start.toNat!; let stop := stop.toNat!; let cur := cur.toNat!
    let ostart := ostart.toNat!; let oend := oend.toNat!
    if delta != "0" then some "depth" else
    if !(start ≤ ostart && ostart < oend && oend ≤ stop && stop == cur && stop ≤ buf.length) then some "span" else
    if ((buf.drop (stop - 6)).take 6) != Framing.kwEndobj then some "endobj" else
    match sexp with
    | "(stream" :: rest =>
      -- … ) <start> <size> <hex>)
      match rest.reverse with
      | hx :: size :: st :: dictRev =>
        let content := hexTok ((hx.dropEnd 1).toString)
        let size := size.toNat!; let st := st.toNat!
        let dict := dictRev.reverse
        if content.length != size then some "size" else
        if (buf.drop st).take size != content || buf.length < st + size then some "content" else
        -- `stream` EOL immediately before the data
        let okHead := (st ≥ 7 && (buf.drop (st - 7)).take 7 == Framing.kwStream ++ [10]) ||
                      (st ≥ 8 && (buf.drop (st - 8)).take 8 == Framing.kwStream ++ [13, 10])
        if !okHead then some "stream-eol" else
        -- optional EOL, `endstream` ending at the object's end
        let gap := (buf.drop (st + size)).take (oend - 9 - (st + size))
        if oend < st + size + 9 || !(Framing.eolsBeforeEndstream.contains gap) then some "endstream-gap" else
        if (buf.drop (oend - 9)).take 9 != Framing.kwEndstream then some "endstream" else
        -- only white space between `endstream` and `endobj`
        if Framing.skipWs (buf.length + 1) ((buf.drop oend).take (stop - 6 - oend)) != [] then some "after-endstream" else
        -- the declared length (top-level `Length` entry of the reported dictionary: nesting level 2)
        let rec findLen : List String → Nat → Option (List String)
          | [], _ => none
          | t :: r, lvl =>
            if lvl == 1 && t == "(4c656e677468" then some r
            else
              let opens := (t.toList.filter (· == '(')).length
              let closes := (t.toList.filter (· == ')')).length
              findLen r (lvl + opens - closes)
        match findLen dict 0 with
        | some ("(int" :: n :: _) => if (n.dropEndWhile (· == ')')).toString == toString size then none else some "length"
        | some ("(ref" :: a :: g :: _) =>
          let g := (g.dropEndWhile (· == ')')).toString
          -- a rejected duplicate definition replaces the binding without showing its value in the
          -- output: once a call has failed, the referenced value cannot be read off the segments
          if sawErr then none else
          match earlier.find? fun (a', g', _) => toString a' == a && toString g' == g with
          | some (_, _, v) => if v == s!"(int {size})" then none else some "length-ref"
          | none => some "length-ref-undefined"
        | _ => some "length-missing"
      | _ => some "shape"
    | _ => none
  | "err" :: _ :: _ :: [delta] => if delta == "0" then none else some "depth"
  | "L" :: _ => none
  | _ => some "panic-or-crash"

def judgeRaw (hex impl : String) : String :=
  match bytesOfHex hex with
  | some buf =>
    let segs := impl.splitOn " | "
    let rec go : List String → List (Nat × Nat × String) → Bool → String
      | [], _, _ => "ok"
      | sg :: t, earlier, sawErr =>
        match soundSeg buf earlier sawErr sg with
        | some why => s!"bad unsound-{why} got=[{sg}]"
        | none =>
          match words sg with
          | "ok" :: n :: g :: _ :: _ :: _ :: _ :: _ :: _ :: sexp =>
            -- a later definition of the same id replaces the earlier one only on the error path; on
            -- the success path the id was new
            go t ((n.toNat!, g.toNat!, " ".intercalate sexp) :: earlier) sawErr
          | _ => go t earlier (sawErr || sg.startsWith "err")
    go segs [] false
  | none => "bad-case"

def judgePlain (ws : List String) (impl : String) : String :=
  match ws with
  | ["sc", _, hex, offs, ids, desc] =>
    match judgeScene hex offs ids desc impl with
    | "ok" => judgeRaw hex impl          -- the soundness check applies to scenes as well
    | v => v
  | "raw" :: _ :: hex :: _ => judgeRaw hex impl
  | _ => "bad-case"

/-- A case on a restricted view is judged as the case on the window's bytes: the expectation
    (`expectSceneW`, soundness of what was accepted) is computed from `<bufhex>` alone - the bytes in
    front of the window and behind it, and where the window lies in the allocation, do not enter it. -/
def judge (case impl : String) : String :=
  let impl := impl.trimAscii.toString
  match words case with
  | "vw" :: steps :: pre :: suf :: rest =>
    match rest with
    | _ :: _ :: hex :: _ =>
      match parseSteps steps, bytesOfHex pre, bytesOfHex suf, bytesOfHex hex with
      | some st, some pre, some suf, some buf =>
        match viewFault st pre buf suf with
        | some f => s!"bad desc-mismatch the steps do not select the window ({f})"
        | none =>
          if impl == "view-error" || impl == "view-mismatch" then s!"bad view {impl}: the restriction does not show the window's bytes"
          else
            match judgePlain rest impl with
            | "ok" => "ok"
            | v => if v.startsWith "bad " then s!"bad view-{(v.toList.drop 4 |> String.ofList)}" else v
      | _, _, _, _ => "bad-case"
    | _ => "bad-case"
  | ws => judgePlain ws impl

/-! ### generators -/

def mkStream (num gen pre post order lk la lb lkey : Nat) (ws : List Nat) (eol1 eol2 es eo : Nat) (payload : Bytes) : Item :=
  ⟨true, [num, gen, pre, post, order, lk, la, lb, lkey] ++ (ws ++ List.replicate 6 0).take 6 ++ [eol1, eol2, es, eo], payload⟩

def mkPlain (num gen vk va : Nat) (ws : List Nat) (eo : Nat) : Item :=
  ⟨false, [num, gen, vk, va, 0, 0, 0, 0, 0] ++ (ws ++ List.replicate 6 0).take 6 ++ [0, 0, 0, eo], []⟩

def mkPlainK (num gen j a b : Nat) (ws : List Nat) (eo : Nat) : Item :=
  ⟨false, [num, gen, kindBase + j, a, b, 0, 0, 0, 0] ++ (ws ++ List.replicate 6 0).take 6 ++ [0, 0, 0, eo], []⟩

def sceneCase (d : Nat) (items : List Item) (extraIds : List (Nat × Nat)) : String :=
  let (buf, lays) := renderSceneK items 0
  let offs := ",".intercalate (lays.map fun l => toString l.off)
  let ids := (items.map fun it => (it.num, it.gen)) ++ extraIds
  -- identifiers that are not object identifiers (a number above 2^63-1) cannot be looked up
  let ids := ids.eraseDups.filter fun (a, g) => NumLit.headerOK a && NumLit.headerOK g
  let idS := ",".intercalate (ids.map fun (a, g) => s!"{a}:{g}")
  s!"sc {d} {hexOfBytes buf} {offs} {idS} {showDesc items}"

/-! ### every case once more on a restricted view

  Each case line is followed by the same case inside a larger allocation.  Three axes, cycled by the
  running case counter `c` with pairwise coprime periods (16, 7, 5: every combination occurs within
  560 cases):
  * bytes in front of the window: 1, 7, 11, 1000 (and 0, 2, 3, 5, 13, 64) of them - text that is itself
    a header and complete objects, or random bytes;
  * the chain of restrictions: RestrictView; RestrictViewFrom; a view of a view (From then View, View
    then View with junk on both sides of the inner window, View then From, a View starting at 0 then
    From); three deep;
  * bytes behind the window that CONTINUE the scene: what would complete a stream whose declared
    length runs beyond the window (filler up to the declared length, then `endstream endobj`), the
    cut-off rest of a truncated scene, or more `endstream` / `endobj` / whole objects - so that an
    implementation reading beyond the view's end accepts what must be rejected. -/

def hexOrDash (b : Bytes) : String := if b.isEmpty then "-" else hexOfBytes b

def junkText : Bytes :=
  bs "%PDF-1.4 junk\n9 9 obj<</Length 3>>stream\nzzz\nendstream endobj\n8 0 obj 5 endobj\n1 0 obj<</Length 5>>stream\nHELLO\nendstream\nendobj\n"

def prefixJunk (p c : Nat) : Bytes :=
  if c % 2 == 0 then (List.range p).map fun i => junkText[(i + c / 2) % junkText.length]?.getD 37
  else (Rng.bytes p (Rng.mk' (c + 1))).1

def prefLens : List Nat := [1, 7, 11, 2, 7, 11, 1, 0, 13, 1000, 1, 7, 11, 64, 5, 3]

def viewSteps (shape p n s : Nat) : List VStep :=
  let p1 := p / 2
  let s1 := s / 2
  match shape % 7 with
  | 0 => [.r p n]
  | 1 => [.f p]                                              -- (nothing behind the window)
  | 2 => [.f p1, .r (p - p1) n]
  | 3 => [.r p1 ((p - p1) + n + s1), .r (p - p1) n]
  | 4 => [.r p1 ((p - p1) + n), .f (p - p1)]
  | 5 => [.r 0 (p + n), .f p]
  | _ => [.r (p / 3) ((p - p / 3) + n + s1), .f (p / 3), .r (p - 2 * (p / 3)) n]

/-- what would complete the last stream of a scene behind the window: its declared (direct, positive)
    length reaches the end of the window or beyond it -/
def completion (items : List Item) : Option Bytes :=
  let (buf, lays) := renderSceneK items 0
  match items.getLast?, lays.getLast? with
  | some it, some lay =>
    if !it.isStream then none else
    match (lenEntry it).declared with
    | .int z =>
      let e1 := eol1Tab[it.g 15 % eol1Tab.length]?.getD [10]
      let dataStart := lay.kw + 6 + e1.length
      if z > 0 && z < 100000 && (e1 == [10] || e1 == [13, 10]) && dataStart + z.toNat ≥ buf.length then
        some (List.replicate (dataStart + z.toNat - buf.length) 122 ++ bs "\nendstream\nendobj\n")
      else none
    | _ => none
  | _, _ => none

/-- the view variant of a case line; `cont` = a continuation of this particular case, if one is known -/
def viewLine (c : Nat) (line : String) (cont : Option Bytes) : Option String :=
  match words line with
  | tag :: _ :: hex :: _ :: _ :: rest =>
    match bytesOfHex hex with
    | some buf =>
      let cont := match cont with
        | some b => some b
        | none => if tag == "sc" then (rest.head?.bind parseDesc).bind completion else none
      let p := prefLens[c % 16]?.getD 1
      let shape := c % 7
      let more := bs "\r\nendstream\r\nendobj\n1 0 obj<</Length 2>>stream\nxx\nendstream endobj\n"
      let suf : Bytes := if shape == 1 then [] else
        match c % 5 with
        | 0 => cont.getD (bs "\nendstream\nendobj\n")
        | 1 => []
        | 2 => bs " endstream endobj\n"
        | 3 => cont.getD more
        | _ => bs "endstream\nendobj" ++ more
      let pre := prefixJunk p c
      let steps := viewSteps shape p buf.length suf.length
      let steps := if (viewFault steps pre buf suf).isNone then steps else [.r p buf.length]
      some s!"vw {showSteps steps} {hexOrDash pre} {hexOrDash suf} {line}"
    | none => none
  | _ => none

/-- windows that end inside an object: a valid one-stream scene cut at every position, the rest of
    the scene lying behind the window (raw cases: whatever is accepted must lie inside the window) -/
def cutWindows (emit : String → IO Unit) (full : Bool) : IO Unit := do
  let mut k := 0
  for p in [bs "hello", bs "endstream endobj xx", ([] : Bytes), bs "x\n", bs "\nendstream\nendobj\n"] do
    for eol1 in [0, 1] do
      for eol2 in [0, 2, 3] do
        let it := mkStream 1 0 (k % 4) ((k / 4) % 4) (k % 3) 0 p.length 0 0 [k % 9, k % 7, k % 5, k % 4, k % 3, k % 8] eol1 eol2 0 0 p
        let (buf, _) := renderScene [it] 0
        for cut in List.range buf.length do
          k := k + 1
          if full || k % 4 == 0 || cut + 20 ≥ buf.length then
            let line := s!"raw 10 {hexOrDash (buf.take cut)} 0 1:0"
            match viewLine k line (some (buf.drop cut)) with
            | some l => emit l
            | none => pure ()

def payloads : List Bytes := [
  bs "hello",
  bs "endstream endobj xx",
  bs "\nendstream\nendobj\n",
  bs "ab\nendstream endobj\n1 0 obj<</Length 2>>stream\nxx\nendstream endobj",
  [13, 10, 0, 255, 13, 10],
  [],
  bs "\r",
  bs "x\n",
  bs "stream\nendstream",
  bs "ab\r\nendstreamendobj"]

def i64Max : Nat := 2 ^ 63 - 1

/-- declared lengths tried against a payload of length `l`: (value, negative?) -/
def lengthsFor (l : Nat) : List (Nat × Bool) :=
  [(l, false), (l + 1, false), (l + 2, false), (l + 1000, false), (i64Max, false), (1, true), (l, true)] ++
  (if l > 0 then [(l - 1, false)] else []) ++ (if l > 2 then [(2, false), (0, false)] else [])

def systematic (emit : String → IO Unit) (full : Bool) : IO Unit := do
  let mut k := 0
  for p in payloads do
    for (n, neg) in lengthsFor p.length do
      for eol1 in List.range 6 do
        for eol2 in List.range 7 do
          -- quick tier: thin out the grid deterministically, keeping every value of every axis
          k := k + 1
          if full || k % 5 == 0 || (eol1 < 2 && eol2 < 4 && k % 2 == 0) then
            let ws := [k % 9, k % 7, k % 5, k % 4, k % 3, k % 8]
            -- direct
            emit (sceneCase 10 [mkStream 1 0 (k % 4) ((k / 4) % 4) (k % 3) 0 n (if neg then 1 else (k % 3) * ((k / 3) % 2) + (if k % 11 == 0 then 2 else 0)) (k % 3) ws eol1 eol2 0 0 p] [])
            -- backward reference: the length object comes first
            emit (sceneCase 10 [mkPlain 7 0 (if neg then 1 else 0) n [k % 5, k % 3, 0, k % 2, k % 4] 0,
                                 mkStream 1 0 (k % 4) ((k / 4) % 4) (k % 3) 1 7 0 0 ws eol1 eol2 0 0 p] [])
            -- forward reference: the length object comes after; then the stream is parsed again
            if eol1 < 2 && eol2 < 4 then
              let st := mkStream 1 0 (k % 4) ((k / 4) % 4) (k % 3) 1 7 0 0 ws eol1 eol2 0 0 p
              emit (sceneCase 10 [st, mkPlain 7 0 (if neg then 1 else 0) n [k % 5, k % 3, 0, k % 2, k % 4] 0, { st with f := st.f.set 0 2 }] [(7, 0)])

/-- Length references by generation: `/Length 7 g R` with g ∈ {0, 1, 65535} against contexts that hold
    the exact identifier (7,g), only the same number under another generation, both (with different
    values: exactly one of them is the payload length), or neither; the targets defined before the
    stream (already registered when it is parsed) or after it (forward reference, then the stream is
    parsed again under a new number).  The expected outcome is `LenRes` with look-up by the exact
    identifier: another generation of the same number is a different object. -/
def generations (emit : String → IO Unit) : IO Unit := do
  let mut k := 0
  for p in [bs "hello", bs "endstream endobj xx", ([] : Bytes), bs "x\n"] do
    for rg in [0, 1, 65535] do
      for og in (if rg == 0 then [1, 65535] else [0, (if rg == 1 then 65535 else 1)]) do
        for ctxKind in List.range 6 do
          for eol1 in [0, 1] do
            k := k + 1
            let l := p.length
            let ws := [k % 9, k % 7, k % 5, k % 4, k % 3, k % 8]
            let pw := [k % 5, k % 3, 0, k % 2, k % 4]
            -- targets: (generation, value)
            let targets : List (Nat × Nat) := match ctxKind with
              | 0 => []
              | 1 => [(rg, l)]
              | 2 => [(og, l)]
              | 3 => [(rg, l), (og, l + 1)]
              | 4 => [(rg, l + 1), (og, l)]
              | _ => [(og, l), (rg, l)]
            let tItems := targets.map fun (g, v) => mkPlain 7 g 0 v pw 0
            let st (num : Nat) := mkStream num 0 (k % 4) ((k / 4) % 4) (k % 3) 1 7 rg 0 ws eol1 (k % 4) 0 0 p
            -- registered before the stream is parsed
            emit (sceneCase 10 (tItems ++ [st 1]) [(7, rg), (7, og)])
            -- forward: the stream first, then the targets, then the stream again
            emit (sceneCase 10 ([st 1] ++ tItems ++ [st 2]) [(7, rg), (7, og)])
            -- the stream object itself carries a non-zero generation
            if ctxKind == 2 then
              emit (sceneCase 10 (tItems ++ [{ st 1 with f := (st 1).f.set 1 rg }]) [(7, rg), (7, og), (1, 0)])

/-! ### identifier boundaries

  An identifier is a PAIR of naturals (object number, generation), each anywhere in 0 .. 2^63-1
  (`IndirectP` / `ReferenceP` accept any non-negative i64); two identifiers are the same object only
  when both components are equal.  The family puts boundary values into every identifier position
  of a case - the header of the predefined objects, the `/Length n g R` reference, the header of
  the stream object itself - and in particular PAIRS of distinct identifiers that an implementation
  keying its table by something narrower than the pair would confuse: packings `(n << k) | g` and
  `(n << k) + g` into a u64 (k = 16, 32), and truncation of a component to 16 / 32 bits.
  Expected (the spec's look-up by the exact pair): a reference to the colliding-but-undefined
  identifier needs more context; defining the colliding identifier is no duplicate and leaves the
  other one as it was. -/

def bGens : List Nat := [0, 1, 65535, 65536, 65537, 2 ^ 31, 2 ^ 32, 2 ^ 48, 2 ^ 63 - 1]
def bNums : List Nat := [0, 1, 2 ^ 16, 2 ^ 31, 2 ^ 32, 2 ^ 47, 2 ^ 48, 2 ^ 48 + 1, 2 ^ 63 - 1]

/-- narrower keys an implementation might use instead of the pair (each maps an identifier to the
    canonical identifier of its class: two identifiers collide when their images are equal) -/
def narrowKeys : List (Nat × Nat → Nat × Nat) :=
  let pack (k : Nat) (plus : Bool) : Nat × Nat → Nat × Nat := fun (n, g) =>
    let key := (if plus then (n <<< k) + g else (n <<< k) ||| g) % 2 ^ 64
    (key >>> k, key % 2 ^ k)
  [pack 16 false, pack 32 false, pack 16 true, pack 32 true,
   fun (n, g) => (n, g % 2 ^ 16), fun (n, g) => (n, g % 2 ^ 32),
   fun (n, g) => (n % 2 ^ 16, g), fun (n, g) => (n % 2 ^ 32, g),
   fun (n, g) => (n % 2 ^ 32, g % 2 ^ 32), fun (n, g) => (n % 2 ^ 48, g % 2 ^ 16)]

/-- pairs (a, b) of DISTINCT identifiers that collide under one of `narrowKeys`: every boundary
    identifier with the canonical member of its class, and the identifiers built to hit (7,0) / (7,1) -/
def collidingPairs : List ((Nat × Nat) × (Nat × Nat)) :=
  let base : List (Nat × Nat) :=
    (bNums.flatMap fun n => bGens.map fun g => (n, g)) ++
    [(6, 65536), (7, 65536), (6, 65537), (7, 65537), (6, 131072), (5, 131072), (7, 2 ^ 32), (6, 2 ^ 32), (7, 2 ^ 32 + 1),
     (7 + 2 ^ 32, 0), (7 + 2 ^ 48, 0), (7 + 2 ^ 16, 0), (7 + 2 ^ 31, 1), (7, 2 ^ 31), (7, 2 ^ 48), (7, 2 ^ 48 + 65536),
     (2 ^ 48 + 7, 65535), (2 ^ 32 + 7, 2 ^ 32 + 1), (7, 2 ^ 63 - 1), (2 ^ 63 - 1, 0), (2 ^ 63 - 8, 7)]
  let ps := base.flatMap fun a => narrowKeys.filterMap fun f =>
    let b := f a
    if b != a && NumLit.headerOK b.1 && NumLit.headerOK b.2 then some (a, b) else none
  ps.eraseDups

def idBoundaries (emit : String → IO Unit) (full : Bool) : IO Unit := do
  let mut k := 0
  let ps := if full then [bs "abcd", ([] : Bytes), bs "endstream endobj xx"] else [bs "abcd"]
  for p in ps do
    let l := p.length
    let stm (sid : Nat × Nat) (r : Nat × Nat) (k : Nat) : Item :=
      mkStream sid.1 sid.2 (k % 4) ((k / 4) % 4) (k % 3) 1 r.1 r.2 0 [k % 9, k % 7, k % 5, k % 4, k % 3, k % 8] (k % 2) ((k / 2) % 4) 0 0 p
    let int (id : Nat × Nat) (v : Nat) (k : Nat) : Item := mkPlain id.1 id.2 0 v [k % 5, k % 3, 0, k % 2, k % 4] 0
    -- every boundary identifier on its own: referenced while undefined, defined then referenced,
    -- as the stream object's own header
    for n in bNums do
      for g in bGens do
        k := k + 1
        let a := (n, g)
        emit (sceneCase 10 [stm (9, 0) a k, int a l k, stm (10, 0) a k] [a, (7, 0), (n, 0), (0, g)])
        emit (sceneCase 10 [stm a (7, 0) k, int (7, 0) l k, stm (n, g + 1) (7, 0) k, stm a (7, 0) k] [a, (7, 0), (n, 0), (0, g)])
    -- colliding pairs
    for (a, b) in collidingPairs do
      k := k + 1
      let ids := [a, b, (9, 0), (10, 0)]
      -- only `b` is defined: `/Length a R` needs more context (and the other way round)
      emit (sceneCase 10 [int b l k, stm (9, 0) a k] ids)
      emit (sceneCase 10 [int a l k, stm (9, 0) b k] ids)
      -- both defined, with different values, in either order: neither is a duplicate, each keeps its
      -- value (exactly one of them frames the data)
      emit (sceneCase 10 [int b (l + 1) k, int a l k, stm (9, 0) a k, stm (10, 0) b k] ids)
      emit (sceneCase 10 [int a (l + 1) k, int b l k, stm (9, 0) a k, stm (10, 0) b k] ids)
      -- the stream object ITSELF carries `a`, its length is object `b`: no duplicate
      emit (sceneCase 10 [int b l k, stm a b k] ids)
      -- forward: `/Length a R` with only `b` defined, then `a`, then the stream again
      if full || k % 2 == 0 then
        emit (sceneCase 10 [int b (l + 1) k, stm (9, 0) a k, int a l k, stm (10, 0) a k] ids)

/-! ### the object referenced by `/Length n g R`, of every kind

  The stream declares `/Length 7 0 R`; what (7, 0) is varies over every kind of object, each one
  DEFINED (registered in the context) before the stream is parsed: integers (the payload length and
  its neighbours, negative, the boundaries of i64, literals outside i64), reals (`l.0`, `l.5`,
  `-l.0`, `+l.00`), booleans, null, a name `/l`, a literal and a hexadecimal string spelling `l`,
  an array `[l]`, a dictionary `<</Length l>>`, a stream object of length `l`, and a REFERENCE:
  to an integer through a chain of 2..5 references (defined in either order), to a chain that ends
  in an undefined object / a real / a name, to itself, to a 2-cycle, a 3-cycle, a cycle entered
  from outside, to the stream object being parsed, to the same number under another generation.
  Expected (`Framing.resolve`, the executable `LenRes`): accepted only when (7, 0) is a non-negative
  integer that frames the data; `needs more context` only when (7, 0) itself is undefined (the
  forward variants, first parse); rejected with another error in every other case - a reference is
  not an integer and is not followed, so the end of the chain (an integer that WOULD frame the data,
  nothing, a cycle) must not matter.  The framing is valid throughout (the verdict depends on the
  length alone).  An implementation that recurses on a cycle overflows its stack or does not
  terminate: `./check` records `crash:<rc>` / `hang` for the case and carries on. -/

/-- the shapes: (objects defined before the stream, is it cyclic?) for a payload `p` -/
def targetShapes (p : Bytes) (pw : List Nat) (k : Nat) : List (List Item × Bool) :=
  let l := p.length
  let int (n v : Nat) : Item := mkPlain n 0 0 v pw 0
  let neg (n v : Nat) : Item := mkPlain n 0 1 v pw 0
  let ref (n a : Nat) : Item := mkPlainK n 0 10 a 0 pw 0
  let acyclic (xs : List (List Item)) := xs.map fun x => (x, false)
  -- integers
  acyclic [[int 7 l], [int 7 (l + 1)], [int 7 (l + 7)], [neg 7 l], [neg 7 (l + 1)], [int 7 (2 ^ 63 - 1)], [neg 7 (2 ^ 63)],
           [int 7 (2 ^ 63)], [int 7 (2 ^ 64 + l)], [neg 7 (2 ^ 64 - l)], [int 7 (2 ^ 127 + l)]] ++
  -- every other kind of object with the payload length written in it
  acyclic (([0, 1, 2, 3, 4, 5, 6, 7, 8, 9, 11, 12] : List Nat).map fun j => [mkPlainK 7 0 j l 0 pw 0]) ++
  acyclic ((List.range 7).map fun t => [mkPlain 7 0 (t + 2) 0 pw 0]) ++
  -- a stream object
  acyclic [[mkStream 7 0 0 0 0 0 l 0 0 pw (k % 2) (k % 4) 0 0 p]] ++
  -- chains of references: 7 -> 8 -> … -> (7+c-1), whose end is an integer / a real / a name / undefined
  acyclic (([2, 3, 4, 5] : List Nat).flatMap fun c =>
    let refs := (List.range (c - 1)).map fun i => ref (7 + i) (7 + i + 1)
    let e := 7 + c - 1
    ([[int e l], [int e (l + 1)], [], [mkPlainK e 0 0 l 0 pw 0], [mkPlainK e 0 5 l 0 pw 0]] : List (List Item)).flatMap fun endObj =>
      [refs ++ endObj, (refs ++ endObj).reverse]) ++
  -- by generation: 7 0 -> 8 1 (an integer) / -> 8 1 while only 8 0 is defined / -> 7 1 (same number)
  acyclic [[mkPlainK 7 0 10 8 1 pw 0, mkPlain 8 1 0 l pw 0], [mkPlainK 7 0 10 8 1 pw 0, int 8 l],
           [mkPlainK 7 0 10 7 1 pw 0, mkPlain 7 1 0 l pw 0], [mkPlain 7 1 0 l pw 0, mkPlainK 7 0 10 7 1 pw 0],
           -- to the stream object itself (not defined while it is being parsed)
           [ref 7 1], [ref 7 2]] ++
  -- cycles: itself, two, three, a cycle entered from outside
  [([ref 7 7], true), ([ref 7 8, ref 8 7], true), ([ref 8 7, ref 7 8], true), ([ref 7 8, ref 8 9, ref 9 7], true),
   ([ref 7 8, ref 8 9, ref 9 8], true), ([ref 7 8, ref 8 8], true)]

def lengthTargets (emit : String → IO Unit) (full : Bool) : IO Unit := do
  let mut k := 0
  let ps := if full then payloads else [bs "hello", ([] : Bytes), bs "x\n", bs "endstream endobj xx"]
  let mut pi := 0
  for p in ps do
    pi := pi + 1
    let nshapes := (targetShapes p [] 0).length
    for si in List.range nshapes do
      k := k + 1
      let ws := [k % 9, k % 7, k % 5, k % 4, k % 3, k % 8]
      let pw := [k % 5, k % 3, 0, k % 2, k % 4]
      match (targetShapes p pw k)[si]? with
      | none => pure ()
      | some (tgt, cyclic) =>
        -- (quick tier: the cyclic shapes for two payloads only - each costs a restart of the
        -- harness, or the hang watchdog's 30 s, with an implementation that follows references)
        if full || !cyclic || pi ≤ 2 then
          let st (num : Nat) := mkStream num 0 (k % 4) ((k / 4) % 4) (k % 3) 1 7 0 0 ws (k % 2) ((k / 2) % 4) 0 0 p
          let ids : List (Nat × Nat) := [(7, 0), (8, 0), (8, 1), (12, 0)]
          -- everything defined before the stream
          emit (sceneCase 10 (tgt ++ [st 1]) ids)
          -- forward: the stream first (needs more context), then the objects, then the stream again
          emit (sceneCase 10 ([st 1] ++ tgt ++ [st 2]) ids)

/-! ### literals outside the i64 range

  A number token of magnitude >= 2^63 is not an Integer object (Spec/NumLit.lean): as a declared
  length - direct or as the value of the referenced object - it is invalid and the stream is
  rejected.  The literals are chosen so that an implementation that narrows the written value
  (modulo 2^64, 2^32, 2^128; saturating; sign dropped) would read the payload length or a neighbour
  of it. -/

/-- literals (magnitude, negative?) tried against a payload of length `l`: every one is outside the
    i64 range; its low 64 bits, read as an i64, are `l`, `l+1` or `l-1` -/
def wrapLens (l : Nat) : List (Nat × Bool) :=
  ([1, 2, 3, 2 ^ 31, 2 ^ 62, 2 ^ 63 - 1, 2 ^ 64, 2 ^ 64 + 1] : List Nat).flatMap fun k =>
    ([(l : Int), (l : Int) + 1, (l : Int) - 1] : List Int).flatMap fun t =>
      [false, true].map fun neg => let (ng, mag) := NumLit.wideLit neg k t; (mag, ng)

/-- the boundaries of the integer types (some inside the i64 range: those are lengths like any other,
    and `2^32 + l`, `2^63-1` or `-2^63` simply do not frame the payload) -/
def boundaryLens (l : Nat) : List (Nat × Bool) :=
  [(2 ^ 63 - 1, false), (2 ^ 63 - 1, true), (2 ^ 63, false), (2 ^ 63, true), (2 ^ 63 + 1, true), (2 ^ 63 + l, false),
   (2 ^ 63 + l, true), (2 ^ 64 - 1, false), (2 ^ 64 - 1, true), (2 ^ 64, false), (2 ^ 64, true),
   (2 ^ 32 + l, false), (2 ^ 32 + l, true), (2 ^ 32 - l, true), (10 ^ 19, false), (10 ^ 19, true), (10 ^ 30, false), (10 ^ 30, true),
   (2 ^ 127 - 1, false), (2 ^ 127 - 1, true), (2 ^ 127, false), (2 ^ 127, true), (2 ^ 127 + l, false),
   (2 ^ 128 + l, false), (2 ^ 128 - l, true), (10 ^ 39, false), (10 ^ 39 + l, true)]

def wide (emit : String → IO Unit) (full : Bool) : IO Unit := do
  let mut k := 0
  let ps := if full then payloads else [bs "hello", ([] : Bytes), bs "x\n", bs "endstream endobj xx"]
  for p in ps do
    let l := p.length
    for (n, neg) in wrapLens l ++ boundaryLens l do
      k := k + 1
      -- framings that are all valid, so that the verdict depends on the declared length alone
      let eol1 := k % 2
      let eol2 := (k / 2) % 4
      let ws := [k % 9, k % 7, k % 5, k % 4, k % 3, k % 8]
      let pw := [k % 5, k % 3, 0, k % 2, k % 4]
      -- direct: plain digits / `+` / leading zeros; `-` for the negative ones
      let style := if neg then 1 else [0, 2, 3, 0][k % 4]?.getD 0
      emit (sceneCase 10 [mkStream 1 0 (k % 4) ((k / 4) % 4) (k % 3) 0 n style (k % 3) ws eol1 eol2 0 0 p] [])
      if k % 3 == 0 then
        emit (sceneCase 10 [mkStream 1 0 (k % 4) ((k / 4) % 4) (k % 3) 0 n style 0 ws eol1 eol2 0 0 p] [])
      -- backward reference: the length object (an object of its own: `7 0 obj <literal> endobj`) comes first
      let tgt := mkPlain 7 0 (if neg then 1 else 0) n pw 0
      let st := mkStream 1 0 (k % 4) ((k / 4) % 4) (k % 3) 1 7 0 0 ws eol1 eol2 0 0 p
      emit (sceneCase 10 [tgt, st] [])
      -- forward reference, then the stream again under another number
      emit (sceneCase 10 [st, tgt, { st with f := st.f.set 0 2 }] [(7, 0)])
    -- numbers in the integer-only positions: object number / generation of the header and of the
    -- reference.  `w` reduces to 7 (resp. 0) modulo 2^64; object (7,0) holds the payload length.
    for w in ([2 ^ 63, 2 ^ 64, 2 ^ 64 + 7, 2 ^ 127 + 7, 2 ^ 128 + 7] : List Nat) do
      k := k + 1
      let ws := [k % 9, k % 7, k % 5, k % 4, k % 3, k % 8]
      let pw := [k % 5, k % 3, 0, k % 2, k % 4]
      let tgt := mkPlain 7 0 0 l pw 0
      -- `/Length <w> 0 R`, `/Length 7 <w'> R` with w' = w - 7 (reduces to generation 0)
      emit (sceneCase 10 [tgt, mkStream 1 0 (k % 4) ((k / 4) % 4) (k % 3) 1 w 0 0 ws (k % 2) (k % 4) 0 0 p] [])
      emit (sceneCase 10 [tgt, mkStream 1 0 (k % 4) ((k / 4) % 4) (k % 3) 1 7 (w - 7) 0 ws (k % 2) (k % 4) 0 0 p] [])
      -- header of the stream object / of the length object
      emit (sceneCase 10 [mkStream w 0 (k % 4) ((k / 4) % 4) (k % 3) 0 l 0 0 ws (k % 2) (k % 4) 0 0 p] [(7, 0)])
      emit (sceneCase 10 [mkStream 1 (w - 7) (k % 4) ((k / 4) % 4) (k % 3) 0 l 0 0 ws (k % 2) (k % 4) 0 0 p] [(1, 0)])
      emit (sceneCase 10 [mkPlain w 0 0 l pw 0, mkStream 1 0 (k % 4) ((k / 4) % 4) (k % 3) 1 7 0 0 ws (k % 2) (k % 4) 0 0 p] [(7, 0)])

def randPayload (r : Rng) : Bytes × Rng :=
  let (k, r) := r.nat 10
  if k < 4 then
    let (i, r) := r.nat payloads.length
    (payloads[i]?.getD [], r)
  else if k < 6 then
    -- keywords glued together
    let (a, r) := r.nat 5
    let (b, r) := r.nat 5
    let kw : List Bytes := [bs "endstream", bs "endobj", bs "stream", [13, 10], [10]]
    ((kw[a]?.getD []) ++ [32] ++ (kw[b]?.getD []), r)
  else
    let (len, r) := r.nat 40
    Rng.bytes len r

def randItem (r : Rng) (ids : List Nat) : Item × Rng :=
  let (isS, r) := r.nat 4
  let (num, r) := r.pick (if ids.isEmpty then [1] else ids)
  let (gen, r) := r.nat 8
  let gen := if gen == 6 then 1 else if gen == 7 then 65535 else 0
  let (ws, r) := (List.range 6).foldl (fun (acc : List Nat × Rng) _ => let (x, r) := acc.2.nat 9; (x :: acc.1, r)) ([], r)
  let (defect, r) := r.nat 10
  if isS == 0 then
    let (vk, r) := r.nat 9
    let (va, r) := r.nat 30
    let vk := if vk > 8 then 0 else if vk ≥ 4 then vk - 2 else if vk == 3 then 1 else 0
    -- one plain object in five is a REFERENCE to an identifier of the pool (chains and cycles of
    -- references arise among the length targets), one in five another kind of Spec/FramingKinds.lean
    let (x, r) := r.nat 5
    let (tgt, r) := r.pick (if ids.isEmpty then [1] else ids)
    if x == 0 then (mkPlainK num gen 10 tgt (if va % 7 == 0 then 1 else 0) ws (if defect == 0 then 1 else 0), r)
    else if x == 1 then (mkPlainK num gen (va % 13) (va / 13 + 3) 0 ws (if defect == 0 then 1 else 0), r)
    else
    (mkPlain num gen vk va ws (if defect == 0 then 1 else 0), r)
  else
    let (p, r) := randPayload r
    let (pre, r) := r.nat 4
    let (post, r) := r.nat 4
    let (order, r) := r.nat 3
    let (lk, r) := r.nat 10
    let (rel, r) := r.nat 10
    let n := match rel with
      | 0 => p.length + 1 | 1 => p.length - 1 | 2 => p.length + 50 | 3 => i64Max
      | 8 => 2 ^ 64 + p.length                -- outside the i64 range, low 64 bits = the payload length
      | 9 => 2 ^ 126 - p.length               -- the same when written with a minus sign (style 1)
      | _ => p.length
    let (lkey, r) := r.nat 8
    let lkey := if lkey < 5 then 0 else lkey - 4
    let (style, r) := r.nat 8
    let style := if style < 5 then 0 else style - 4
    let (tgt, r) := r.pick (if ids.isEmpty then [1] else ids)
    let (oth, r) := r.nat 9
    let (rgen, r) := r.nat 6
    let (eol1, r) := r.nat 10
    let eol1 := if eol1 < 6 then eol1 % 2 else eol1 - 4
    let (eol2, r) := r.nat 10
    let eol2 := if eol2 < 7 then eol2 % 4 else eol2 - 3
    let (es, eo) := match defect with | 1 => (1, 0) | 2 => (2, 0) | 3 => (0, 1) | 4 => (0, 2) | 5 => (3, 0) | 6 => (0, 3) | _ => (0, 0)
    let (lkK, la, lb) : Nat × Nat × Nat :=
      if lk < 4 then (0, n, style) else if lk < 8 then (1, tgt, if rgen == 4 then 1 else if rgen == 5 then 65535 else 0) else if lk == 8 then (2, 0, 0) else (3, oth, 0)
    (mkStream num gen pre post order lkK la lb lkey ws eol1 eol2 es eo p, r)

def gen (seed n : Nat) (tier : String) (emit0 : String → IO Unit) : IO Unit := do
  -- every case is emitted twice: as it is, and on a restricted view
  let ctr ← IO.mkRef 0
  let emitC (cont : Option Bytes) (line : String) : IO Unit := do
    emit0 line
    let c ← ctr.modifyGet fun c => (c, c + 1)
    match viewLine c line cont with
    | some l => emit0 l
    | none => pure ()
  let emit := emitC none
  cutWindows emit0 (tier == "thorough")
  generations emit
  idBoundaries emit (tier == "thorough")
  lengthTargets emit (tier == "thorough")
  wide emit (tier == "thorough")
  systematic emit (tier == "thorough")
  let mut r := Rng.mk' seed
  for _ in List.range n do
    -- a scene of 1..4 items over a small pool of identifiers (so that references hit and ids collide);
    -- plain integer items carry small values, so that a referenced length often fits a payload
    let (cnt, r1) := r.nat 4
    let (items, r2) := (List.range (cnt + 1)).foldl (fun (acc : List Item × Rng) _ =>
      let (it, r) := randItem acc.2 [1, 2, 3, 4]
      (acc.1 ++ [it], r)) ([], r1)
    -- make referenced lengths meaningful: with probability 1/2 set the value of a plain integer
    -- item to the payload length of some stream item of the scene
    let (fix, r3) := r2.nat 5
    let plen := (items.find? (·.isStream)).map (·.payload.length) |>.getD 3
    -- (one time in five the target is written outside the i64 range, its low 64 bits the payload length)
    let tval := if fix == 4 then 2 ^ 64 + plen else plen
    let items := if fix < 2 then items else items.map fun it =>
      if !it.isStream && it.g 2 == 0 then { it with f := it.f.set 3 tval } else it
    let (d, r4) := r3.nat 6
    emit (sceneCase (if d == 0 then 3 else 10) items [(1, 0), (2, 0), (1, 1), (2, 65535), (9, 9)])
    -- malformed: one byte changed / removed, or a truncation, of the rendered scene
    let (buf, lays) := renderSceneK items 0
    let (pos, r5) := r4.nat (buf.length + 1)
    let (how, r6) := r5.nat 4
    let (b, r7) := r6.byte
    r := r7
    let mb : Bytes := match how with
      | 0 => buf.take pos
      | 1 => buf.take pos ++ buf.drop (pos + 1)
      | 2 => buf.take pos ++ [b] ++ buf.drop (pos + 1)
      | _ => buf.take pos ++ [b] ++ buf.drop pos
    let offs := ",".intercalate ((lays.map (·.off)).filter (· ≤ mb.length) |>.map toString)
    -- (on a view: behind a truncated window lies the rest of the scene)
    emitC (if how == 0 then some (buf.drop pos) else none) s!"raw 10 {hexOfBytes mb} {if offs == "" then "0" else offs} 1:0,2:0"

def containsSub (hay needle : Bytes) : Bool :=
  (List.range (hay.length + 1)).any fun i => needle.isPrefixOf (hay.drop i)

/-- non-trivial: a stream whose payload contains a framing keyword or an end-of-line at its edge,
    or whose declared length is not the payload length, or is declared by reference / invalidly;
    or any object with a number written outside the i64 range;
    raw cases: the mutated text still contains `stream` -/
def nontrivialPlain (ws : List String) : Bool :=
  match ws with
  | ["sc", _, _, _, _, desc] =>
    match parseDesc desc with
    | some items => items.any fun it =>
        !narrowItem it ||
        it.isStream && (containsSub it.payload Framing.kwEndstream || containsSub it.payload Framing.kwEndobj ||
          it.payload.head? == some 13 || it.payload.head? == some 10 ||
          it.payload.getLast? == some 13 || it.payload.getLast? == some 10 ||
          it.g 5 % 4 != 0 || it.g 6 != it.payload.length || it.g 7 % 4 == 1)
    | none => false
  | "raw" :: _ :: hex :: _ => containsSub (hexTok hex) Framing.kwStream
  | _ => false

/-- a case on a view is non-trivial when the case is, and the window lies strictly inside the
    allocation or does not start at its first byte -/
def nontrivial (line : String) : Bool :=
  match words line with
  | "vw" :: _ :: pre :: suf :: rest => nontrivialPlain rest && (pre != "-" || suf != "-")
  | ws => nontrivialPlain ws

def driver : PropDriver := { gen, model, judge, nontrivial }
end Driver.C05
