import Driver.Common
import Driver.Views
import Parsley.Model.Filters
import Parsley.Spec.Filters
import Parsley.Spec.DeflateFixed
import Parsley.Spec.DeflateDyn
import Parsley.Spec.ZlibHdr
import Parsley.Spec.Predictor
import Parsley.Model.Loader
/-!
  C06 driver.

  case line :  <kind> <mta> <dictser> <contenthex>
    kind ∈ rt (round trip) | sh (dictionary shapes) | mal (corrupt encodings)   — built here from a recipe
           rz (payload compressed by the real zlib, native generator of the harness)
           fz (arbitrary bytes: correspondence and no-panic only)
    mta : rt/sh/mal  <shape>;<chain>;<corr>;<eol>;<payloadhex>      rz  <payloadhex>      fz  -
    chain: layers in decoding order joined by `+` (`-` = none); a layer is
           H.<ws>.<case>.<odd>.<pv> | A.<ws>.<z>.<pv> | F.<mode>.<seed>.<pv> | U.<pv>
           | P.<mode>.<seed>.<sel>.<style>   FlateDecode (encoded as F.<mode>.<seed>) over the forward PNG / TIFF
             filter of Spec/Predictor.lean: sel = predictor + 16*geometry choice + 256*row-width choice (resolved
             against the length of the layer's input; row-width choice divisible by 3 = a SINGLE-COLUMN image),
             style = omission mask of the parameter writer `PredSpec.Params.entries` (bit 0 /Predictor, 1 /Colors,
             2 /Columns, 3 /BitsPerComponent: a default-valued entry is left out) + 16*j, j > 0: the entries left
             out are written as NON-INTEGER objects instead (null, real, string, name, boolean, array, reference)
           pv: 0 null, 1 <<>>, 2 <</Predictor 1>>, 3 <</Colors 3 /Columns 5>>, 4 / 5 non-integer values
           F modes: 0 stored blocks (partition by seed), 1 one final fixed-Huffman block of literals
           (FiltersSpec.zlibFixedLiterals), 2 / 3 fixed-Huffman blocks from an LZ77 factorisation chosen by
           the seed (DeflateFixed.factorise: candidate distances, match cap, length-258 spelling, forced
           literals, tokens per block), closed by an empty final block (2) or with the last block final (3),
           4 a stream of DYNAMIC-Huffman, fixed-Huffman and stored blocks written by Spec/DeflateDyn.lean
           (`dynPlan seed`: the same factorisations; per block a header by `DeflateDyn.mkHdr` - balanced /
           longest possible (15- and 7-bit) / irregular codes, HLIT / HDIST / HCLEN minimal or maximal,
           alphabets with every symbol coded, single-code and empty distance alphabets, run-length
           spellings literal / irregular / longest runs - block types in five patterns, empty blocks)
           ZLIB HEADER (RFC 1950 2.2; Spec/ZlibHdr.lean): the mode of an F or P layer is <encoder 0..4> + 8 * h.  h = 0: the
           header `78 01`; h = 1..32: header number h - 1 of `ZlibHdr.headers` (CINFO = (h-1) / 4 = log2(window) - 8 in
           0..7, FLEVEL = (h-1) % 4, FDICT clear, the FCHECK that makes the pair a multiple of 31), the encoder's
           candidate distances restricted to the declared window `2 ^ (CINFO + 8)`; h = 33..64: header number h - 33
           with the candidate distances NOT restricted - where a distance beyond the declared window is used the stream
           is outside RFC 1950 (payload or TransformError, never another value), which the judge decides from the
           tokens (`ZlibHdr.maxDist`).  Corruption `F.6.<arg>` REPLACES the two header bytes by CMF = arg / 256,
           FLG = arg % 256: a legal pair (`ZlibHdr.legal`: CM = 8, CINFO <= 7, FDICT clear, multiple of 31) whose window
           covers the distances used changes nothing; any other pair (CINFO 8..15, CM != 8, FDICT set, wrong FCHECK) must
           be a TransformError.
  Only <dictser> and <contenthex> reach the implementation and the model.  The judge rebuilds
  dictionary and content from the recipe with the *spec-side* encoders, checks that they are
  what the case carries, and derives the expected outcome from the recipe alone.

  view variant :  vw <steps> <prehex> <sufhex> <headhex> <tailhex> <case as above>
    The stream OBJECT written as text - <headhex> = `n g obj <<dictionary>> stream EOL`, then <contenthex>, then
    <tailhex> = `EOL endstream endobj` - is a WINDOW of the one allocation <prehex> ++ window ++ <sufhex>, selected
    by a chain of RestrictView / RestrictViewFrom steps (Driver/Views.lean).  The implementation parses the object on
    that view (parse_pdf_indirect_obj, as the crate does on a file) and decodes the StreamT it obtains: dictionary and
    content come from the view.  Output `<output as above> @ <content start> <content size> <cursor>`; the unchanged
    code reports all three as cursors of the view it was given (start = |head|, size = |content|, cursor = |window|).
    The model parses the WINDOW's bytes alone (the C05 model `parseIndirect`, then `decodeStream`); the oracle checks
    that head and tail are the spec-side rendering of <dictser> (`renderHead` / `renderTail`, one of six styles),
    judges the decoder's output from the recipe exactly as in the plain case and requires the three cursors.  That a view
    behaves like a buffer holding a copy of its window is Parsley.C17.view_refines_copy.  Classes of rejected view
    cases are prefixed `view-`.
    kind `cut` (view cases only, `vw … <cut text> - cut - - -`): the window is a strict prefix of such an object text,
    the rest lying behind it: the object must be rejected (`perr`).
-/
namespace Driver.C06View
open Parsley Parsley.Prim Parsley.Obj Parsley.Indirect

/-- the stream object a window holds, as the C05 model of `parse_pdf_indirect_obj` reads it (fresh context,
    depth bound 50): dictionary, content, content start, content size, cursor afterwards -/
inductive Parsed where
  | stream (kvs : List (Bytes × Obj)) (content : Bytes) (start size cursor : Nat)
  | notStream (cursor : Nat)
  | err (kind : String) (cursor : Nat)
  | panic (site : String)

def parseStreamObj (w : Bytes) : Parsed :=
  match (parseIndirect (Ctx.new 50) w 0).1 with
  | (.ok v, k) =>
    match v.val.obj.val with
    | .stream kvs sc => .stream kvs sc.content sc.start sc.size k
    | _ => .notStream k
  | (.err e, k) => .err s!"{e}" k
  | (.panic p, _) => .panic p

end Driver.C06View

namespace Driver.C06
open Parsley Parsley.Filters Driver

/-! ### object (de)serialisation -/

partial def showObj : Obj → List String
  | .null => ["N"]
  | .bool b => [if b then "B1" else "B0"]
  | .int i => [s!"I{i}"]
  | .name n => ["/" ++ hexOfBytes n]
  | .str s => ["S" ++ hexOfBytes s]
  | .ref n g => [s!"R{n}.{g}"]
  | .arr l => s!"A{l.length}" :: l.flatMap showObj
  | .dict d => s!"D{d.length}" :: d.flatMap fun (k, v) => hexOfBytes k :: showObj v
  | .other => ["X"]

def showDict (d : Dict) : String := ",".intercalate (showObj (.dict d))

def bytesLt : Bytes → Bytes → Bool
  | [], [] => false
  | [], _ :: _ => true
  | _ :: _, [] => false
  | a :: s, b :: t => if a < b then true else if b < a then false else bytesLt s t

/-- `BTreeMap::insert` -/
def insertKey (k : Bytes) (v : Obj) : Dict → Dict
  | [] => [(k, v)]
  | (k', v') :: t =>
    if k' = k then (k, v) :: t
    else if bytesLt k k' then (k, v) :: (k', v') :: t
    else (k', v') :: insertKey k v t

def toInt? (s : String) : Option Int :=
  if s.startsWith "-" then (s.drop 1).toString.toNat?.map fun n => -(n : Int) else s.toNat?.map fun n => (n : Int)

partial def parseObj : List String → Option (Obj × List String)
  | [] => none
  | w :: rest =>
    let r := (w.drop 1).toString
    match w.front with
    | 'N' => some (.null, rest)
    | 'B' => some (.bool (r == "1"), rest)
    | 'I' => (toInt? r).map fun i => (.int i, rest)
    | '/' => (bytesOfHex r).map fun b => (.name b, rest)
    | 'S' => (bytesOfHex r).map fun b => (.str b, rest)
    | 'X' => some (.other, rest)
    | 'R' => match r.splitOn "." with
      | [a, b] => match a.toNat?, b.toNat? with
        | some a, some b => some (.ref a b, rest)
        | _, _ => none
      | _ => none
    | 'A' => r.toNat?.bind fun n =>
      let rec goA (n : Nat) (acc : List Obj) (rest : List String) : Option (Obj × List String) :=
        if n == 0 then some (.arr acc.reverse, rest) else
        match parseObj rest with
        | some (o, rest) => goA (n - 1) (o :: acc) rest
        | none => none
      goA n [] rest
    | 'D' => r.toNat?.bind fun n =>
      let rec goD (n : Nat) (acc : Dict) (rest : List String) : Option (Obj × List String) :=
        if n == 0 then some (.dict acc, rest) else
        match rest with
        | k :: rest =>
          match bytesOfHex k, parseObj rest with
          | some k, some (o, rest) => goD (n - 1) (insertKey k o acc) rest
          | _, _ => none
        | [] => none
      goD n [] rest
    | _ => none

def parseDict (s : String) : Option Dict :=
  match parseObj (s.splitOn ",") with
  | some (.dict d, []) => some d
  | _ => none

/-! ### model side -/

/-- the code C06 leaves as parameters, as the loader model instantiates it: the tail of
    `FlateDecode::transform` for /Predictor ≠ 1 is the C07 model behind the option glue (`Loader.fInt`: an
    absent or non-integer entry is `none`), DCT is never emitted by the generators -/
def ext : Ext := Loader.ext

def showOut : Res (Bytes × Dict) → String
  | .ok (c, d) => s!"ok {hexOfBytes c} {showDict d}"
  | .err k => s!"err {k}"
  | .panic m => s!"panic {m}"

def modelPlain (line : String) : String :=
  match words line with
  | [_, _, ds, hex] =>
    match parseDict ds, bytesOfHex hex with
    | some d, some c => showOut (decodeStream ext d c)
    | _, _ => "bad-case"
  | _ => "bad-case"

/-- the window of a view case: head ++ content ++ tail -/
def winOf : List String → Option Bytes
  | [head, tail, _, _, _, hex] =>
    match bytesOfHex head, bytesOfHex hex, bytesOfHex tail with
    | some h, some c, some t => some (h ++ c ++ t)
    | _, _, _ => none
  | _ => none

/-- a view case: the object is parsed from the window's bytes, what was parsed is decoded -/
def modelView (inner : String) : String :=
  match winOf (words inner) with
  | none => "bad-case"
  | some w =>
    match C06View.parseStreamObj w with
    | .stream kvs content start size k => s!"{showOut (decodeStream ext (Loader.toFKvs kvs) content)} @ {start} {size} {k}"
    | .notStream k => s!"notstream {k}"
    | .err e k => s!"perr {e} {k}"
    | .panic p => s!"panic {p}"

def model (line : String) : String :=
  match Views.split winOf line with
  | .plain l => modelPlain l
  | .view l => modelView l
  | .fault f => f

/-! ### recipes (spec side) -/

def name! (s : String) : Obj := .name (strBytes s)

/-- white space sprinkled by a seed: before each byte, with probability 1/8, 1-3 white-space bytes -/
def sprinkle (seed : Nat) (s : Bytes) : Bytes :=
  if seed == 0 then s else
  let wsb : Array UInt8 := #[0x20, 0x0A, 0x0D, 0x09, 0x0C, 0x00]
  let rec go (s : Bytes) (r : Rng) (acc : Bytes) : Bytes :=
    match s with
    | [] =>
      let (k, r) := r.nat 3
      let (w, _) := r.nat 6
      (List.replicate k (wsb[w]?.getD 0x20) ++ acc).reverse
    | b :: t =>
      let (x, r) := r.nat 8
      if x == 0 then
        let (k, r) := r.nat 3
        let (w, r) := r.nat 6
        go t r (b :: (List.replicate (k + 1) (wsb[w]?.getD 0x20) ++ acc))
      else go t r (b :: acc)
  go s (Rng.mk' seed) []

def parmsOf (pv : Nat) : Obj :=
  match pv with
  | 1 => .dict []
  | 2 => .dict [(strBytes "Predictor", .int 1)]
  | 3 => .dict [(strBytes "Colors", .int 3), (strBytes "Columns", .int 5)]
  -- entries that are not Integer objects (the option glue's `_ => None` arm: read as absent)
  | 4 => .dict [(strBytes "Colors", .null), (strBytes "Columns", .str (strBytes "x")), (strBytes "Predictor", .other)]
  | 5 => .dict [(strBytes "BitsPerComponent", .name (strBytes "8")), (strBytes "Colors", .arr [.int 3]),
                (strBytes "Columns", .other), (strBytes "Predictor", .int 1)]
  | _ => .null

/-! ### predictor layers (spec side: Spec/Predictor.lean) -/

def wholePixels : List (Nat × Nat) := [(1, 8), (2, 8), (3, 8), (4, 8), (1, 16), (2, 16)]
/-- sample layouts of less than a byte (PNG predictors only), all with one byte per pixel -/
def subPixels : List (Nat × Nat) := [(1, 1), (1, 2), (1, 4), (2, 4)]

/-- geometries (colors, bits per component, columns) whose rows have `w` bytes -/
def geometries (tiff : Bool) (w : Nat) : List (Nat × Nat × Nat) :=
  let a := wholePixels.filterMap fun (c, b) => if w % (c * b / 8) == 0 then some (c, b, w / (c * b / 8)) else none
  let sub : List (Nat × Nat × Nat) := if tiff then [] else [(1, 1, 8 * w), (1, 2, 4 * w), (1, 4, 2 * w), (2, 4, w)]
  a ++ sub

/-- single-column geometries (columns = 1, the default of /Columns): a row is one pixel, and the rows
    tile a stream of `len` bytes -/
def singleColumn (tiff : Bool) (len : Nat) : List (Nat × Nat × Nat) :=
  ((wholePixels.filter fun (c, b) => len % (c * b / 8) == 0).map fun (c, b) => (c, b, 1)) ++
  (if tiff then [] else subPixels.map fun (c, b) => (c, b, 1))

/-- the parameters the selector `sel` stands for on an input of `len` bytes -/
def predParams (sel len : Nat) : PredSpec.Params :=
  let pr := if [2, 10, 11, 12, 13, 14].contains (sel % 16) then sel % 16 else 12
  let g := sel / 16 % 16
  let ws := sel / 256
  if ws % 3 == 0 then
    let gs := singleColumn (pr == 2) len
    let (c, b, n) := gs[g % gs.length]?.getD (1, 8, 1)
    ⟨pr, c, n, b⟩
  else
    let ds := (List.range 41).filter fun d => d ≥ 1 && len % d == 0
    let w := if ws % 5 == 0 || ds.isEmpty then len else ds[ws % ds.length]?.getD len
    let gs := geometries (pr == 2) w
    let (c, b, n) := gs[g % gs.length]?.getD (1, 8, w)
    ⟨pr, c, n, b⟩

/-- a value that is not an Integer object, standing where the integer `v` would -/
def junkObj (t v : Nat) : Obj :=
  match t % 7 with
  | 0 => .null | 1 => .other | 2 => .str (strBytes s!"{v}") | 3 => .name (strBytes s!"{v}") | 4 => .bool true
  | 5 => .arr [.int v] | _ => .ref v 0

/-- the /DecodeParms dictionary of `p` written by the spec-side writer with omission mask `style % 16`;
    with `style / 16 = j > 0` the entries left out appear as non-integer objects instead -/
def predParms (p : PredSpec.Params) (style : Nat) : Obj :=
  let (a, b, c, d) := p.entries (style % 16)
  let j := style / 16
  let ent (k : String) (o : Option Nat) (dflt i : Nat) : List (Bytes × Obj) :=
    match o with
    | some v => [(strBytes k, .int v)]
    | none => if j == 0 then [] else [(strBytes k, junkObj (j + i) dflt)]
  .dict (ent "BitsPerComponent" d PredSpec.defaultBpc 3 ++ ent "Colors" b PredSpec.defaultColors 1 ++
         ent "Columns" c PredSpec.defaultColumns 2 ++ ent "Predictor" a PredSpec.defaultPredictor 0)

/-- does a parameter dictionary hold a value that is not an integer?  (No meaning in the standard.) -/
def nonIntParms : Obj → Bool
  | .dict d => d.any fun kv => match kv.2 with | .int _ => false | _ => true
  | _ => false

structure Layer where
  kind : Char
  a : Nat := 0
  b : Nat := 0
  c : Nat := 0
  pv : Nat := 0
deriving Inhabited

def Layer.show (l : Layer) : String :=
  match l.kind with
  | 'H' => s!"H.{l.a}.{l.b}.{l.c}.{l.pv}"
  | 'A' => s!"A.{l.a}.{l.b}.{l.pv}"
  | 'F' => s!"F.{l.a}.{l.b}.{l.pv}"
  | 'P' => s!"P.{l.a}.{l.b}.{l.c}.{l.pv}"
  | 'D' => s!"D.{l.pv}"
  | _ => s!"U.{l.pv}"

def Layer.parse (s : String) : Option Layer :=
  match (s.splitOn ".").map (·.toNat?.getD 0), (s.splitOn ".").head? with
  | [_, a, b, c, pv], some "H" => some ⟨'H', a, b, c, pv⟩
  | [_, a, b, pv], some "A" => some ⟨'A', a, b, 0, pv⟩
  | [_, a, b, pv], some "F" => some ⟨'F', a, b, 0, pv⟩
  | [_, a, b, c, pv], some "P" => some ⟨'P', a, b, c, pv⟩
  | [_, pv], some "U" => some ⟨'U', 0, 0, 0, pv⟩
  | [_, pv], some "D" => some ⟨'D', 0, 0, 0, pv⟩
  | _, _ => none

def showChain (c : List Layer) : String := if c.isEmpty then "-" else "+".intercalate (c.map Layer.show)
def parseChain (s : String) : Option (List Layer) :=
  if s == "-" then some [] else (s.splitOn "+").mapM Layer.parse

def Layer.name (l : Layer) : Obj :=
  match l.kind with
  | 'H' => name! "ASCIIHexDecode" | 'A' => name! "ASCII85Decode" | 'F' => name! "FlateDecode" | 'P' => name! "FlateDecode"
  | 'D' => name! "DCTDecode"
  | _ => name! "LZWDecode"

/-- the predictor parameters of a P layer on an input of `len` bytes (none on empty input: a PNG
    predictor needs at least one row; the layer is then a plain Flate layer with /Predictor 1) -/
def Layer.params (l : Layer) (len : Nat) : Option PredSpec.Params :=
  if l.kind != 'P' || len == 0 then none else some (predParams l.c len)

/-- the layer's entry of /DecodeParms -/
def Layer.parms (l : Layer) (len : Nat) : Obj :=
  if l.kind == 'P' then
    match l.params len with
    | some p => predParms p l.pv
    | none => .dict [(strBytes "Predictor", .int 1)]
  else parmsOf l.pv

/-- what the compressor of the layer is fed: the forward filter of the specification over the rows -/
def Layer.pre (l : Layer) (x : Bytes) : Bytes :=
  match l.params x.length with
  | some p =>
    let w := PredSpec.rowBytes p.columns p.colors p.bpc
    PredSpec.predict p (PredSpec.splitRows w (x.length / w) x)
  | none => x

/-- the Flate layer a P layer compresses with -/
def Layer.flate (l : Layer) : Layer := if l.kind == 'P' then { l with kind := 'F' } else l

/-! ### the zlib header of a Flate layer (spec side: Spec/ZlibHdr.lean) -/

/-- the encoder of an F / P layer: mode % 8 -/
def Layer.fmode (l : Layer) : Nat := l.a % 8
/-- the header selector of an F / P layer: mode / 8 -/
def Layer.hsel (l : Layer) : Nat := l.a / 8
/-- the two header bytes the layer's encoder writes -/
def Layer.hdr (l : Layer) : Bytes :=
  if l.hsel == 0 then [0x78, 0x01] else ZlibHdr.headerNo ((l.hsel - 1) % 32)
/-- the window the header declares -/
def Layer.window (l : Layer) : Nat := ZlibHdr.window (l.hdr.head?.getD 0x78)
/-- the largest candidate distance the layer's factoriser may use: the declared window, or (h = 33..64) any -/
def Layer.maxCand (l : Layer) : Nat := if l.hsel ≥ 33 then 32768 else l.window

/-- the fixed-Huffman factorisation a seed stands for: greedy matches over a list of candidate
    distances (all distance symbols with and without extra bits are reachable), capped match length,
    either spelling of length 258, literals forced at some positions, `k` tokens per block -/
def lzCands (seed : Nat) : List Nat :=
  let pool : List Nat :=
    [6, 8, 9, 12, 13, 16, 17, 24, 25, 32, 33, 49, 64, 65, 96, 97, 100, 128, 129, 192, 193, 255,
     256, 257, 258, 384, 385, 512, 513, 768, 769, 1000, 1024, 1025, 1536, 1537, 2048, 2049, 3072, 3073, 4096, 4097,
     6144, 6145, 8192, 8193, 12288, 12289, 16384, 16385, 24576, 32767]
  -- the periods of the generated payloads always, a rotating quarter of the pool besides
  let cands : List Nat := [1, 2, 3, 4, 5, 7, 48, 300, 5000, 24577, 32768] ++
    ((pool.zip (List.range pool.length)).filter fun (_, i) => (i + seed) % 4 == 0).map (·.1)
  if seed % 4 == 3 then cands.reverse else cands

def lzToks (seed : Nat) (x : Bytes) (maxCand : Nat := 32768) : List DeflateFixed.Tok :=
  let caps : Array Nat := #[258, 3, 4, 10, 11, 12, 257, 258]
  let cands := lzCands seed
  -- a header that declares a smaller window: only distances inside it
  let cands := if maxCand ≥ 32768 then cands else cands.filter (· ≤ maxCand)
  DeflateFixed.factorise cands (caps[seed % 8]?.getD 258) (seed % 2 == 1)
    (fun i => seed % 3 == 0 && (i * 7 + seed) % 5 == 0) x

def fixedBlocks (seed : Nat) (x : Bytes) (maxCand : Nat := 32768) : List (List DeflateFixed.Tok) :=
  let ks : Array Nat := #[1, 2, 3, 7, 50, 1000, 100000]
  DeflateFixed.chunk (ks[seed % 7]?.getD 50) (lzToks seed x maxCand)

/-- the plan of blocks of all three types a seed stands for (F mode 4): the factorisation of `lzToks`, cut into at
    most 40 blocks; the type of block `i` by one of five patterns (all dynamic; dynamic / fixed; stored / dynamic /
    fixed; all dynamic with a different header style per block; stored / dynamic / dynamic / fixed), a stored block
    carrying the bytes its tokens stand for; one seed in six closes the stream with an EMPTY final block of one
    of the three types (a dynamic block with only the end-of-block symbol: a single code of length 1) -/
def dynPlan (seed : Nat) (x : Bytes) (maxCand : Nat := 32768) : List DeflateDyn.Block × DeflateDyn.Block :=
  let style := (seed * 37 + seed / 7) % 108
  let toks := lzToks seed x maxCand
  let ks : Array Nat := #[1, 2, 3, 7, 50, 1000, 100000]
  let k := max (ks[seed % 7]?.getD 50) (toks.length / 40 + 1)
  let chunks := DeflateFixed.chunk k toks
  let pat := seed % 5
  let mk (i off : Nat) (t : List DeflateFixed.Tok) : DeflateDyn.Block :=
    let ty : Nat := match pat with      -- 0 dynamic, 1 fixed, 2 stored
      | 0 => 0 | 1 => i % 2 | 2 => (i + 2) % 3 | 3 => 0 | _ => ([2, 0, 0, 1] : List Nat)[i % 4]?.getD 0
    let n := DeflateDyn.spanLen t
    if ty == 2 && n ≤ 65535 then .stored ((x.drop off).take n)
    else if ty == 1 then .fixed t
    else .dyn (DeflateDyn.mkHdr t (if pat == 3 then style + 5 * i else style)) t
  let blocks := (chunks.foldl (fun (acc : List DeflateDyn.Block × Nat × Nat) t =>
    (mk acc.2.1 acc.2.2 t :: acc.1, acc.2.1 + 1, acc.2.2 + DeflateDyn.spanLen t)) ([], 0, 0)).1.reverse
  let empty : DeflateDyn.Block := match seed / 6 % 3 with
    | 0 => .dyn (DeflateDyn.mkHdr [] style) [] | 1 => .fixed [] | _ => .stored []
  if seed % 6 == 5 || blocks.isEmpty then (blocks, empty) else (blocks.dropLast, blocks.getLast?.getD empty)

/-- spec-side encoding of one layer (H, A, F) -/
def Layer.encodeBase (l : Layer) (x : Bytes) : Bytes :=
  match l.kind with
  | 'H' =>
    let upper : Nat → Bool := match l.b with | 0 => fun _ => false | 1 => fun _ => true | _ => fun i => (i * 7 + l.a) % 3 == 0
    sprinkle l.a (FiltersSpec.encodeHex upper (l.c == 1) x)
  | 'A' =>
    let useZ : Nat → Bool := match l.b with | 0 => fun _ => false | 1 => fun _ => true | _ => fun i => i % 2 == 0
    sprinkle l.a (FiltersSpec.encodeA85 useZ x)
  | 'F' =>
    if l.fmode == 1 then ZlibHdr.zlibFixedLiteralsH l.hdr x
    else if l.fmode == 2 then ZlibHdr.zlibFixedH l.hdr (fixedBlocks l.b x l.maxCand) x
    else if l.fmode == 3 then
      let bs := fixedBlocks l.b x l.maxCand
      ZlibHdr.zlibFixedFH l.hdr bs.dropLast (bs.getLast?.getD []) x
    else if l.fmode == 4 then
      let (bs, last) := dynPlan l.b x l.maxCand
      ZlibHdr.zlibBlocksH l.hdr bs last x
    else
      let sizes : List Nat :=
        if l.b == 0 then [] else
        let rec mk (n : Nat) (r : Rng) : List Nat :=
          match n with
          | 0 => []
          | n + 1 => let (v, r) := r.nat (if l.b % 2 == 0 then 70000 else 300); v :: mk n r
        mk (l.b % 7) (Rng.mk' l.b)
      ZlibHdr.zlibStoredH l.hdr (FiltersSpec.partition (x.length + 1) sizes x)
  | _ => x

/-- spec-side encoding of one layer: predictor (P layers), then the layer's own encoder -/
def Layer.encode (l : Layer) (x : Bytes) : Bytes := l.flate.encodeBase (l.pre x)

/-! ### `z` anywhere in an ASCII85 text (spec side: ISO 32000-1 7.4.3 — `z` stands for a group of four zero
    bytes and is legal only where a group may begin) -/

/-- the insertion points of an ASCII85 text as the standard reads it: before byte `i`, `grp` groups (five
    digits or a `z`) are complete and `pos` digits of the next group have been seen; the last point is at the
    `~` of the EOD marker (or the end of the text) -/
def a85Points (x : Bytes) : List (Nat × Nat × Nat) :=
  let rec go (s : Bytes) (i grp pos : Nat) (acc : List (Nat × Nat × Nat)) : List (Nat × Nat × Nat) :=
    match s with
    | [] => ((i, grp, pos) :: acc).reverse
    | b :: t =>
      let acc := (i, grp, pos) :: acc
      if b == 0x7E then acc.reverse
      else if b == 0x7A then go t (i + 1) (grp + 1) pos acc
      else if b == 0x20 || b == 0x0A || b == 0x0D || b == 0x09 || b == 0x0C || b == 0x00 then go t (i + 1) grp pos acc
      else if pos == 4 then go t (i + 1) (grp + 1) 0 acc else go t (i + 1) grp (pos + 1) acc
  go x 0 0 0 []

/-- where `arg` puts its `z`s: after `k = arg % 5` digits of the first / middle / last group, or directly before
    the EOD marker (`arg / 5 % 4`), 1..3 of them (`arg / 20 % 3`), bare or wrapped in white space
    (`arg / 60 % 3`; with white space the LAST point with that group position is taken, i.e. after the white space
    the encoder put between the digits).  Result: index, groups complete there, digits of the open group there, text -/
def zInsertion (x : Bytes) (arg : Nat) : Nat × Nat × Nat × Bytes :=
  let k := arg % 5
  let gsel := arg / 5 % 4
  let cnt := arg / 20 % 3 + 1
  let wsb := arg / 60 % 3
  let pts := a85Points x
  let endPt := pts.getLast?.getD (0, 0, 0)
  let ngroups := endPt.2.1 + (if endPt.2.2 > 0 then 1 else 0)
  let tg := match gsel with | 0 => 0 | 1 => ngroups / 2 | _ => ngroups - 1
  let cands := if gsel == 3 then [endPt] else pts.filter fun (_, g, p) => g == tg && p == k
  let pt := (if wsb == 0 then cands.head? else cands.getLast?).getD endPt
  let z1 : Bytes := match wsb with | 0 => [0x7A] | 1 => [0x20, 0x7A] | _ => [0x0A, 0x7A, 0x09]
  (pt.1, pt.2.1, pt.2.2, (List.replicate cnt z1).flatten)

/-- corruption `<layer>.<op>.<arg>` applied to the output of layer `layer` (1 = outermost); `0.0.0` = none -/
def corrupt (l : Layer) (op arg : Nat) (x : Bytes) : Bytes :=
  match l.kind, op with
  | 'H', 1 => let k := arg % ((x.takeWhile (· != 0x3E)).length + 1); x.take k ++ [0x47] ++ x.drop k   -- illegal character before EOD
  | 'H', 2 => x.takeWhile (· != 0x3E)                                            -- EOD (and what follows) missing
  | 'H', 3 => let k := arg % ((x.takeWhile (· != 0x3E)).length + 1); x.take k ++ [0x7E] ++ x.drop k
  | 'A', 1 => let k := arg % (x.length - 1); x.take k ++ [0x7B] ++ x.drop k     -- illegal character `{`
  | 'A', 2 => [0x75, 0x75, 0x75, 0x75, 0x75] ++ x                                -- group value ≥ 2^32
  | 'A', 3 => [0x21, 0x7A] ++ x                                                  -- `z` inside a group
  | 'A', 4 => [0x73, 0x38, 0x57, 0x2D, 0x22] ++ x                                -- `s8W-"` = 2^32
  | 'A', 5 => let k := arg % (x.length - 1); x.take k ++ [0x76] ++ x.drop k     -- illegal character `v`
  | 'A', 6 => let (i, _, _, ins) := zInsertion x arg; x.take i ++ ins ++ x.drop i -- `z` after k digits of a group (k = 0: legal)
  | 'A', 7 => x ++ (match arg % 4 with | 0 => [0x7A] | 1 => [0x20, 0x7A] | 2 => [0x0A, 0x7A, 0x7A] | _ => [0x7A, 0x7E, 0x3E])  -- `z` after the EOD
  | 'A', 8 => [0x3C, 0x7E] ++ x                                                  -- Adobe `<~` prefix (then `z` may come first)
  | 'F', 1 => x.take (arg % x.length)                                            -- truncated
  | 'F', 2 => x.dropLast ++ [(x.getLast?.getD 0) ^^^ (UInt8.ofNat (1 <<< (arg % 8)))]   -- Adler-32 wrong
  | 'F', 3 => match x with | a :: b :: t => a :: (b ^^^ 0x04) :: t | _ => x      -- header check fails
  | 'F', 4 => match x with | a :: b :: c :: d :: t => a :: b :: c :: (d ^^^ 0x01) :: t | _ => x   -- stored LEN ≠ ~NLEN / Huffman garbage
  | 'F', 5 => match x with | _ :: b :: t => 0x79 :: b :: t | _ => x              -- compression method ≠ 8 (and check)
  | 'F', 6 => [UInt8.ofNat (arg / 256), UInt8.ofNat arg] ++ x.drop 2               -- the two header bytes replaced: CMF = arg / 256, FLG = arg % 256
  | _, 9 => []                                                                   -- EMPTY INPUT TO THE FILTER: the zero-byte prefix of the encoding
  | _, _ => x

def eolBytes (e : Nat) : Bytes := match e with | 1 => [0x0A] | 2 => [0x0D, 0x0A] | 3 => [0x0D] | _ => []

structure Recipe where
  shape : Nat
  chain : List Layer
  corrL : Nat := 0
  corrOp : Nat := 0
  corrArg : Nat := 0
  eol : Nat := 0
  payload : Bytes
  /-- OTHER KEYS OF THE STREAM DICTIONARY: selector of the entries `otherKeys` adds (0 = none; optional sixth field of <mta>) -/
  keys : Nat := 0

def Recipe.mta (r : Recipe) : String :=
  s!"{r.shape};{showChain r.chain};{r.corrL}.{r.corrOp}.{r.corrArg};{r.eol};{hexOfBytes r.payload}" ++
    (if r.keys == 0 then "" else s!";{r.keys}")

def Recipe.parse (s : String) : Option Recipe :=
  let five (sh ch co eol p : String) (keys : Nat) : Option Recipe :=
    match sh.toNat?, parseChain ch, (co.splitOn ".").map (·.toNat?.getD 0), eol.toNat?, bytesOfHex p with
    | some sh, some ch, [l, o, a], some eol, some p => some ⟨sh, ch, l, o, a, eol, p, keys⟩
    | _, _, _, _, _ => none
  match s.splitOn ";" with
  | [sh, ch, co, eol, p] => five sh ch co eol p 0
  | [sh, ch, co, eol, p, ks] => ks.toNat?.bind fun k => if k == 0 then none else five sh ch co eol p k
  | _ => none

/-- the content (layers applied innermost first; the corruption hits the output of its layer), and
    whether every fixed-Huffman layer of the recipe is written from a VALID factorisation of its
    input (the hypothesis of `inflate_fixed_roundtrip_final`), checked with the specification's
    `resolveBlocksA` (= `resolveBlocks`, theorem `resolveBlocksA_eq`); the /DecodeParms entries; and per layer
    the largest LZ77 distance its tokens use (`ZlibHdr.maxDist`; 0 for the layers without distances) -/
def Recipe.build (r : Recipe) : Bytes × Bool × List Obj × List Nat :=
  let rec go (ls : List Layer) (idx : Nat) : Bytes × Bool × List Obj × List Nat :=
    match ls with
    | [] => (r.payload, true, [], [])
    | l0 :: rest =>
      let (inner0, ok, ps, ds) := go rest (idx + 1)
      -- a P layer: its /DecodeParms entry is fitted to the input, the input goes through the forward filter
      let parm := l0.parms inner0.length
      let inner := l0.pre inner0
      let l := l0.flate
      if l.kind == 'F' && (l.fmode == 2 || l.fmode == 3) then
        let bs := fixedBlocks l.b inner l.maxCand
        let ok := ok && ((DeflateFixed.resolveBlocksA bs #[]).map Array.toList == some inner)
        let e := if l.fmode == 2 then ZlibHdr.zlibFixedH l.hdr bs inner
                 else ZlibHdr.zlibFixedFH l.hdr bs.dropLast (bs.getLast?.getD []) inner
        (if idx == r.corrL then corrupt l r.corrOp r.corrArg e else e, ok, parm :: ps, ZlibHdr.maxDist bs.flatten :: ds)
      else if l.kind == 'F' && l.fmode == 4 then
        -- the hypothesis of `inflate_dynamic_roundtrip`, evaluated (planOkB_sound)
        let (bs, last) := dynPlan l.b inner l.maxCand
        let ok := ok && DeflateDyn.planOkB bs last inner
        let e := ZlibHdr.zlibBlocksH l.hdr bs last inner
        (if idx == r.corrL then corrupt l r.corrOp r.corrArg e else e, ok, parm :: ps,
         ZlibHdr.maxDist ((bs ++ [last]).flatMap DeflateDyn.Block.toks) :: ds)
      else
        let e := l.encodeBase inner
        (if idx == r.corrL then corrupt l r.corrOp r.corrArg e else e, ok, parm :: ps, 0 :: ds)
  let (c, ok, ps, ds) := go r.chain 1
  (c ++ (if r.chain.isEmpty then [] else eolBytes r.eol), ok, ps, ds)

def Recipe.content (r : Recipe) : Bytes := r.build.1
def Recipe.parms (r : Recipe) : List Obj := r.build.2.2.1

/-- a `z` insertion (corruption 6 on an ASCII85 layer): groups complete and digits of the open group at the
    insertion point, number of `z`s, and whether the layer is the innermost one -/
def Recipe.zcase (r : Recipe) : Option (Nat × Nat × Nat × Bool) :=
  if r.corrL == 0 || r.corrOp != 6 then none else
  match r.chain[r.corrL - 1]? with
  | some l =>
    if l.kind != 'A' then none else
    -- the clean encoding the layer wrote: the layers below it, then its own encoder
    let inner := ({ r with chain := r.chain.drop r.corrL, corrL := 0, eol := 0 } : Recipe).build.1
    let (_, grp, pos, _) := zInsertion (l.encode inner) r.corrArg
    some (grp, pos, r.corrArg / 20 % 3 + 1, r.corrL == r.chain.length)
  | none => none

/-- what the decoder must return: the payload; with `z`s inserted at a group boundary of the innermost layer,
    the payload with four zero bytes per `z` at that place -/
def Recipe.wanted (r : Recipe) : Bytes :=
  -- corruption 9: a filter that takes the empty string as an encoding can only mean the empty string by it
  if r.corrL != 0 && r.corrOp == 9 then [] else
  match r.zcase with
  | some (grp, 0, cnt, true) => r.payload.take (4 * grp) ++ List.replicate (4 * cnt) 0 ++ r.payload.drop (4 * grp)
  | _ => r.payload

/-- entries that are not filter-related: what must survive the pruning -/
def Recipe.extrasBase (r : Recipe) (len : Nat) : Dict :=
  match r.shape % 3 with
  | 0 => [(strBytes "Length", .int len)]
  | 1 => [(strBytes "Length", .int len), (strBytes "Subtype", name! "Image"), (strBytes "Type", name! "XObject")]
  | _ => [(strBytes "DL", .int r.payload.length), (strBytes "FilterX", name! "FlateDecode"), (strBytes "Length", .int len),
          (strBytes "Resources", .dict [(strBytes "Filter", name! "Nested")]), (strBytes "W", .arr [.int 1, .int 2, .int 1])]

/-! ### OTHER KEYS OF THE STREAM DICTIONARY (spec side).  ISO 32000-1 7.3.8.2, Table 5: the filter entries of a stream
    dictionary are /Filter and /DecodeParms - nothing else.  /F there is the FILE SPECIFICATION of an external stream
    (with /FFilter, /FDecodeParms for the external file's own filters), /DL the decoded length; the abbreviations F, DP,
    Fl, AHx, A85, ... of Table 93 belong to INLINE IMAGES (8.9.7), which are not stream objects.  So every entry below must
    come out of decode_stream with its value, whatever the filter chain and however /Filter and /DecodeParms are
    spelled. -/

/-- keys near the two filter-entry names -/
def nearKeys : List Bytes :=
  (["F", "DP", "Fl", "AHx", "A85", "D", "FFilter", "FDecodeParms", "Filters", "Filte", "filter", "decodeparms",
    "DecodeParm", "FilterX", "FILTER", "DecodeParams", "DecodeParmsX", "L", "DL", "Type", "Subtype", "Params", "N",
    "First"].map strBytes) ++
  -- the empty name; `Filter` / `DecodeParms` followed by a NUL or a space; a NUL in front
  [[], strBytes "Filter" ++ [0], strBytes "Filter" ++ [32], strBytes "DecodeParms" ++ [0], 0 :: strBytes "Filter"]

/-- values of every kind, among them ones that look like filter names and parameter dictionaries -/
def nearVals : List Obj :=
  [name! "FlateDecode", .int 42, .arr [name! "ASCIIHexDecode", name! "FlateDecode"],
   .dict [(strBytes "Columns", .int 4), (strBytes "Predictor", .int 12)], .str (strBytes "FlateDecode"), .ref 7 0,
   .null, .bool true, .other, .arr [.dict [(strBytes "Predictor", .int 12)], .null],
   .dict [(strBytes "DP", .dict []), (strBytes "F", name! "FlateDecode"), (strBytes "Filter", name! "ASCII85Decode")], name! "Fl"]

def otherKeysCount : Nat := (nearKeys.length + 3) * nearVals.length

/-- the entries selector `ks` stands for: one near key with one value (every pair), or - three more columns - ALL the
    near keys at once, the six inline-image abbreviations, /F and /DP together, the values rotating -/
def otherKeys (ks : Nat) : Dict :=
  if ks == 0 then [] else
  let nK := nearKeys.length
  let nV := nearVals.length
  let k := (ks - 1) % (nK + 3)
  let v := (ks - 1) / (nK + 3)
  let val (i : Nat) : Obj := nearVals[i % nV]?.getD .null
  let keyed (ks : List Bytes) : Dict := (ks.zip (List.range ks.length)).map fun (key, i) => (key, val (i + v))
  if k < nK then [(nearKeys[k]?.getD [], val v)]
  else if k == nK then keyed nearKeys
  else if k == nK + 1 then keyed (nearKeys.take 6)
  else [(strBytes "F", val v), (strBytes "DP", val (v + 3))]

/-- entries that are not filter-related: what must survive the pruning (a key of `otherKeys` that the shape's entries
    also use - Type, Subtype, DL, FilterX - takes the value given here: `insertKey`) -/
def Recipe.extrasL (r : Recipe) (len : Nat) : Dict := r.extrasBase len ++ otherKeys r.keys

/-- can the recipe's dictionary be written as TEXT and read back entry for entry (view twins)?  Not with a key that is
    empty or holds a NUL / space byte (no spelling the object parser takes), nor with a null VALUE (7.3.7: such an entry
    is the same as an absent one, and the object parser drops it) -/
def Recipe.textual (r : Recipe) : Bool :=
  (otherKeys r.keys).all fun (k, v) =>
    !k.isEmpty && k.all (fun b => (48 ≤ b && b ≤ 57) || (65 ≤ b && b ≤ 90) || (97 ≤ b && b ≤ 122)) && !(v matches .null)

/-- how the recipe's shape spells /Filter and /DecodeParms -/
def Recipe.filterEntries (r : Recipe) (parms : List Obj) : Dict :=
  let names := r.chain.map Layer.name
  let F := strBytes "Filter"; let P := strBytes "DecodeParms"
  let s := r.shape / 3
  match s with
  | 0 => match names, parms with                         -- single name, parameters as a dictionary if there are any
    | [n], [.null] => [(F, n)]
    | [n], [p] => [(P, p), (F, n)]
    | _, _ => [(F, .arr names)]
  | 1 => [(F, .arr names)]                                -- array, no parameters (recipes use pv = 0 here)
  | 2 => [(P, .arr parms), (F, .arr names)]               -- parallel arrays
  | 3 => match names with                                 -- single name, /DecodeParms a scalar: ignored
    | [n] => [(P, .int 7), (F, n)]
    | _ => [(P, .arr parms), (F, .arr names)]
  | 4 => []                                               -- no /Filter at all (chain must be empty)
  | 5 => match names with                                 -- ERR: single name with an array of parameters
    | [n] => [(P, .arr [.null]), (F, n)]
    | _ => [(P, .arr (.null :: parms)), (F, .arr names)]
  | 6 => [(P, .arr (parms ++ [.null])), (F, .arr names)]  -- ERR: one parameter entry too many
  | 7 => [(P, .arr parms.dropLast), (F, .arr names)]      -- ERR: one too few (array case; needs ≥ 1 layer)
  | 8 => [(F, .arr (names ++ [.int 3]))]                  -- ERR: non-name in /Filter
  | 9 => [(P, .arr ((parms.drop 1) ++ [.int 0])), (F, .arr names)]        -- ERR: parameter entry neither null nor dictionary
  | 10 => [(P, .arr (parms ++ [.null])), (F, .arr (names ++ [.str [65]]))] -- ERR: non-name in /Filter, equal lengths
  | 11 => [(P, .dict []), (F, .arr names)]                -- LENIENT: array of filters, one dictionary
  | _ => [(F, .arr names)]

def Recipe.dictL (r : Recipe) (parms : List Obj) (len : Nat) : Dict :=
  (r.filterEntries parms ++ r.extrasL len).foldl (fun d (k, v) => insertKey k v d) []

inductive Expect where
  | okPayload | errGuard | errTransform | okOrGuard | okOrTransform | unsupported

/-- a predictor layer needs its parameter dictionary: the shapes that carry one entry per filter -/
def Recipe.parmsReach (r : Recipe) : Bool :=
  let s := r.shape / 3
  (s == 0 && r.chain.length == 1) || s == 2 || (s == 3 && r.chain.length != 1)

def Recipe.supported (r : Recipe) : Bool :=
  let s := r.shape / 3
  !(r.chain.any (·.kind == 'P')) || r.parmsReach || (5 ≤ s && s ≤ 10)

/-- a header replacement (corruption 6 on a Flate layer): the two bytes now in front of the layer's stream -/
def Recipe.hdrSwap (r : Recipe) : Option (UInt8 × UInt8) :=
  if r.corrL == 0 || r.corrOp != 6 then none else
  match r.chain[r.corrL - 1]? with
  | some l => if l.kind == 'F' || l.kind == 'P' then some (UInt8.ofNat (r.corrArg / 256), UInt8.ofNat r.corrArg) else none
  | none => none

/-- RFC 1950: does every Flate layer keep its distances (`dists`, from `Recipe.build`) inside the window its header
    declares?  (The header of the layer hit by corruption 6 is the replacement.) -/
def Recipe.inWindow (r : Recipe) (dists : List Nat) : Bool :=
  ((r.chain.zip dists).zip (List.range r.chain.length)).all fun ((l, d), i) =>
    if l.kind != 'F' && l.kind != 'P' then true else
    let w := match r.hdrSwap with
      | some (cmf, _) => if i + 1 == r.corrL then ZlibHdr.window cmf else l.window
      | none => l.window
    d ≤ w

/-- EMPTY INPUT TO A FILTER (corruption 9: the output of layer `corrL` is the empty string, so the filters outside it
    legitimately decode to no bytes at all and the filter of that layer is handed zero bytes).  The verdict is the
    standard's: zero bytes are no zlib stream (RFC 1950: two header bytes, a block, four check bytes), no ASCIIHex text
    (ISO 32000-1 7.4.2: the EOD marker `>` is required), no JPEG image - TransformError; an ASCII85 text without its EOD
    `~>` is outside 7.4.4 (no bytes or an error), and no bytes then are the input of the next filter.  `none`: not such
    a recipe.  A `D` (DCTDecode) layer has no spec-side encoder: it may only stand where it is handed no bytes. -/
def Recipe.emptyInput (r : Recipe) : Option Expect :=
  let dcts := (r.chain.filter (·.kind == 'D')).length
  if r.corrL != 0 && r.corrOp == 9 then
    let rest := r.chain.drop (r.corrL - 1)
    if rest.isEmpty || rest.any (·.kind == 'U') then some .unsupported
    else if dcts > 1 || (dcts == 1 && (rest.head?.map (·.kind)) != some 'D') then some .unsupported
    else if rest.all (·.kind == 'A') then some .okOrTransform
    else some .errTransform
  else if dcts > 0 then some .unsupported
  else none

def Recipe.expect (r : Recipe) (parms : List Obj) (dists : List Nat := []) : Expect :=
  if !r.supported then .unsupported else
  if r.emptyInput matches some .unsupported then .unsupported else
  let s := r.shape / 3
  let unknown := r.chain.any (·.kind == 'U')
  let single := r.chain.length == 1
  -- a replaced header that is one of the 32 legal ones is no corruption
  let legalSwap := match r.hdrSwap with | some (cmf, flg) => ZlibHdr.legal cmf flg | none => false
  if s == 5 && single then .errGuard
  else if s == 5 || s == 6 || s == 8 || s == 10 then .errGuard
  else if s == 7 then (if r.chain.isEmpty then .okPayload else .errGuard)
  else if s == 9 then (if r.chain.isEmpty then .errGuard else .errGuard)
  else if s == 11 then .okOrGuard
  else if r.corrL != 0 && !legalSwap then
    -- a corrupt layer is reached only if no unknown filter precedes it
    if (r.chain.take (r.corrL - 1)).any (·.kind == 'U') then .errGuard
    else if let some e := r.emptyInput then e
    else match r.zcase with
      | some (_, 0, _, true) => .okPayload          -- `z` at a group boundary is legal: `Recipe.wanted`
      | some (_, 0, _, false) => .unsupported       -- (it alters the input of the layers below)
      | some _ => .errTransform                     -- `z` inside a group
      | none =>
        -- bytes after the EOD marker / an Adobe `<~` prefix: outside ISO 32000-1; the payload or an error
        if ((r.chain[r.corrL - 1]?).map (·.kind)) == some 'A' && (r.corrOp == 7 || r.corrOp == 8) then .okOrTransform
        else .errTransform
  else if unknown then .errGuard
  -- shapes that hand every filter its own parameter entry: an entry that is not an integer has no
  -- meaning in the standard (the decoder may take a default or refuse; never a wrong value, never a panic)
  else if r.parmsReach && parms.any nonIntParms then .okOrTransform
  -- a distance beyond the window the header declares: outside RFC 1950 (zlib's inflate takes it unless built strict)
  else if !r.inWindow dists then .okOrTransform
  else .okPayload

def caseOf (kind : String) (r : Recipe) : String :=
  let (c, _, ps, _) := r.build
  s!"{kind} {r.mta} {showDict (r.dictL ps c.length)} {hexOfBytes c}"

/-! ### the oracle -/

def specPrune (d : Dict) : Dict :=
  d.filter fun kv => kv.1 != strBytes "Filter" && kv.1 != strBytes "DecodeParms"

def judgePlain (case impl : String) : String :=
  let impl := impl.trimAscii.toString
  let iw := words impl
  if iw.head? == some "panic" || (impl.startsWith "crash") then s!"bad panic {impl.take 80}" else
  match words case with
  | [kind, mta, ds, hex] =>
    if kind == "fz" then "skip"
    else if kind == "rz" then
      match bytesOfHex mta, parseDict ds with
      | some p, some d =>
        let want := s!"ok {hexOfBytes p} {showDict (specPrune d)}"
        if impl == want then "ok"
        else if iw.head? == some "ok" then
          match iw with
          | [_, got, gd] =>
            if gd != showDict (specPrune d) then "bad dict pruned dictionary differs"
            else match bytesOfHex got with
              | some g => if g.length < p.length && g == p.take g.length then s!"bad truncated {g.length} of {p.length} bytes reported as success"
                          else s!"bad value decoded {g.length} bytes, expected {p.length}"
              | none => "bad value unreadable"
          | _ => "bad value unreadable"
        else s!"bad rejected valid encoding rejected: {impl}"
      | _, _ => "bad-case"
    else
      match Recipe.parse mta with
      | none => "bad-case"
      | some r =>
        -- the case must carry exactly what the recipe denotes
        let (content, factOk, parms, dists) := r.build
        let extras := r.extrasL content.length
        if showDict (r.dictL parms content.length) != ds || hexOfBytes content != hex then "bad-case recipe and data differ" else
        -- what must survive is the case's dictionary minus exactly the two filter entries (ISO 32000-1 Table 5)
        if extras.any (fun kv => kv.1 == strBytes "Filter" || kv.1 == strBytes "DecodeParms")
           || (parseDict ds).map (fun d => showDict (specPrune d)) != some (showDict (extras.foldl (fun d (k, v) => insertKey k v d) []))
        then "bad-case surviving entries are not the dictionary minus /Filter and /DecodeParms" else
        if !factOk then "bad-case invalid factorisation" else
        let want := r.wanted
        let okLine := s!"ok {hexOfBytes want} {showDict (extras.foldl (fun d (k, v) => insertKey k v d) [])}"
        match r.expect parms dists with
        | .unsupported => "bad-case predictor layer in a shape without its parameters / aligned z above another layer"
        | .okOrTransform =>
          if impl == okLine || impl == "err transform" then "ok" else s!"bad value expected payload or err transform, got {impl.take 60}"
        | .okPayload =>
          if impl == okLine then "ok"
          else if iw.head? == some "ok" then
            match iw with
            | [_, got, gd] =>
              if gd != showDict (extras.foldl (fun d (k, v) => insertKey k v d) []) then "bad dict pruned dictionary differs"
              else match bytesOfHex got with
                | some g => if g.length < want.length && g == want.take g.length
                            then s!"bad truncated {g.length} of {want.length} bytes reported as success"
                            else s!"bad value decoded {g.length} bytes, expected {want.length}"
                | none => "bad value unreadable"
            | _ => "bad value unreadable"
          else s!"bad rejected valid encoding rejected: {impl}"
        | .errGuard => if impl == "err guard" then "ok" else s!"bad shape expected err guard, got {impl.take 60}"
        | .errTransform => if impl == "err transform" then "ok" else s!"bad corrupt expected err transform, got {impl.take 60}"
        | .okOrGuard => if impl == okLine || impl == "err guard" then "ok" else s!"bad shape expected payload or err guard, got {impl.take 60}"
  | _ => "bad-case"

/-! ### the stream object as text (spec side of the view cases) -/

def alnum (b : UInt8) : Bool := (48 ≤ b && b ≤ 57) || (65 ≤ b && b ≤ 90) || (97 ≤ b && b ≤ 122)
def hexLower (n : Nat) : UInt8 := UInt8.ofNat (if n < 10 then 48 + n else 87 + n)
def hex2 (b : UInt8) : Bytes := [hexLower (b.toNat / 16), hexLower (b.toNat % 16)]

/-- `/name`, every byte that is not a letter or digit as `#hh` -/
def renderName (n : Bytes) : Bytes := 47 :: n.flatMap fun b => if alnum b then [b] else 35 :: hex2 b

/-- one spelling per object: numbers in decimal, strings as hex strings, the uninspected object as the real `3.0`,
    one space between the elements of arrays and dictionaries -/
partial def renderObj : Obj → Bytes
  | .null => strBytes "null"
  | .bool b => strBytes (if b then "true" else "false")
  | .int i => strBytes (toString i)
  | .name n => renderName n
  | .str s => [60] ++ s.flatMap hex2 ++ [62]
  | .ref n g => strBytes s!"{n} {g} R"
  | .arr l => [91] ++ ((l.map renderObj).intersperse [32]).flatten ++ [93]
  | .dict d => strBytes "<<" ++ ((d.map fun (k, v) => renderName k ++ [32] ++ renderObj v).intersperse [32]).flatten ++ strBytes ">>"
  | .other => strBytes "3.0"

def viewStyles : Nat := 6

/-- `n g obj <<dictionary>> stream EOL` in one of six styles (object identifier, white space, comment, the two
    legal end-of-line markers after `stream`) -/
def renderHead (style : Nat) (d : Dict) : Bytes :=
  let dict := renderObj (.dict d)
  match style % viewStyles with
  | 0 => strBytes "1 0 obj\n" ++ dict ++ strBytes "\nstream\n"
  | 1 => strBytes "1 0 obj " ++ dict ++ strBytes " stream\r\n"
  | 2 => strBytes "12 0 obj" ++ dict ++ strBytes "stream\n"
  | 3 => strBytes "\n%c\n7 1 obj\n" ++ dict ++ strBytes "\r\nstream\r\n"
  | 4 => strBytes "1 0 obj" ++ dict ++ strBytes "stream\n"
  | _ => strBytes " 3 0 obj " ++ dict ++ strBytes "\n\nstream\n"

/-- `EOL endstream endobj` (style 4: no end-of-line marker in front of `endstream`) -/
def renderTail (style : Nat) : Bytes :=
  match style % viewStyles with
  | 0 => strBytes "\nendstream\nendobj"
  | 1 => strBytes "\r\nendstream endobj"
  | 2 => strBytes "\nendstream\rendobj"
  | 3 => strBytes "\nendstream\n\nendobj"
  | 4 => strBytes "endstream endobj"
  | _ => strBytes "\rendstream\r\nendobj"

def kLength : Bytes := strBytes "Length"

/-- does the dictionary declare, directly, the length `n`? -/
def declares (d : Dict) (n : Nat) : Bool :=
  match lookup kLength d with
  | some (.int i) => i == (n : Int)
  | _ => false

/-- view cases: see the head of the file -/
def judgeView (inner impl : String) : String :=
  let impl := impl.trimAscii.toString
  match words inner with
  | [head, tail, kind, mta, ds, hex] =>
    if kind == "cut" then
      if impl.startsWith "perr " then "ok"
      else if impl.startsWith "panic" || impl.startsWith "crash" then s!"bad panic {impl.take 80}"
      else s!"bad cut-accepted an object whose text ends behind the view was accepted: {impl.take 60}"
    else
    match bytesOfHex head, bytesOfHex tail, parseDict ds, bytesOfHex hex with
    | some h, some t, some d, some c =>
      if !declares d c.length then "bad-case the dictionary does not declare the content's length"
      else if !((List.range viewStyles).any fun st => h == renderHead st d && t == renderTail st) then
        "bad-case head / tail are not the rendering of the dictionary"
      else
        if impl.startsWith "panic" || impl.startsWith "crash" then s!"bad panic {impl.take 80}" else
        match impl.splitOn " @ " with
        | [out, pos] =>
          match judgePlain s!"{kind} {mta} {ds} {hex}" out with
          | "ok" | "skip" =>
            if pos == s!"{h.length} {c.length} {h.length + c.length + t.length}" then "ok"
            else s!"bad cursors content start / size / cursor {pos}, expected {h.length} {c.length} {h.length + c.length + t.length}"
          | v => v
        | _ => s!"bad framing the stream object was not accepted as a stream: {impl.take 60}"
    | _, _, _, _ => "bad-case"
  | _ => "bad-case"

def judge (case impl : String) : String :=
  match Views.split winOf case with
  | .plain l => judgePlain l impl
  | .fault f => if f == "bad-case" then "bad-case" else s!"bad desc-mismatch the steps do not select the window ({f})"
  | .view l =>
    let t := impl.trimAscii.toString
    if t == "view-error" || t == "view-mismatch" then s!"bad view {t}: the restriction does not show the window's bytes"
    else
      match judgeView l impl with
      | "ok" => "ok"
      | v => if v.startsWith "bad " then s!"bad view-{(v.toList.drop 4 |> String.ofList)}" else v

/-! ### every case once more with the stream object inside a restricted view

  Each case line whose dictionary declares the content's length (all recipe cases; not the `fz` cases) is followed by
  its view twin (tier budget: of the cases with more than 2 kB of content every eighth).  Axes, cycled by the running
  case counter `c` with pairwise coprime periods: bytes in front of the window (16: 1, 7, 11, 1000, ... of them - a file
  header, a complete stream object and a plain object, or random bytes), chain of restrictions (7: View, From, view of
  a view in four ways, three deep), bytes behind the window (5), and the six styles of the object text.  What lies
  behind the window CONTINUES the scene: more encoded data of the three filters with their end-of-data markers
  (`~>`, `>`), `endstream endobj` again, a further complete stream object - so that a reader going beyond the view's
  end finds a longer body or a second object. -/

def junkText : Bytes :=
  strBytes "%PDF-1.7\n%\xe2\xe3\n9 0 obj\n<</Length 10 /Filter /ASCIIHexDecode>>\nstream\n48656c6c6f>\nendstream\nendobj\n8 0 obj [1 2 /N (s)] endobj\n"

def sufPool : List Bytes :=
  [strBytes "\nendstream\nendobj\n", strBytes "\n2 0 obj<</Length 2>>stream\nxx\nendstream endobj\n", strBytes "~>\nendstream endobj\n",
   strBytes "4142>\nendstream\nendobj", strBytes "\n", strBytes "zz~>", strBytes " endobj\nxref\n0 1\n", [0x78, 0x9c, 0x03, 0x00, 0x00, 0x00, 0x00, 0x01],
   strBytes "j\n3 0 obj<</Length 0>>stream\nendstream endobj"]

def viewTwin (c : Nat) (line : String) : Option String :=
  match words line with
  | [kind, _, ds, hex] =>
    if kind == "fz" then none else
    match parseDict ds, bytesOfHex hex with
    | some d, some content =>
      if !declares d content.length then none
      else if content.length > 2048 && c % 8 != 0 then none
      else
        let style := c % viewStyles
        let head := renderHead style d
        let tail := renderTail style
        let pool := sufPool[(c / 5) % sufPool.length]?.getD []
        let suf : Bytes := match c % 5 with | 1 => [] | _ => pool
        some (Views.viewLine c s!"{hexOfBytes head} {hexOfBytes tail} {line}" (head.length + content.length + tail.length) junkText suf)
    | _, _ => none
  | _ => none

/-- windows that end inside the stream object: valid objects (every style; empty, short and multi-layer contents) cut
    at every byte, the rest of the object lying behind the window -/
def cutWindows (emit : String → IO Unit) (full : Bool) : IO Unit := do
  let recipes : List Recipe := [
    { shape := 0, chain := [⟨'H', 0, 0, 0, 0⟩], payload := strBytes "Hello" },
    { shape := 7, chain := [⟨'A', 0, 0, 0, 0⟩, ⟨'F', 1, 0, 0, 0⟩], eol := 1, payload := strBytes "abcabcabc" },
    { shape := 12, chain := [], payload := [] },
    { shape := 3, chain := [⟨'F', 0, 0, 0, 0⟩], eol := 2, payload := strBytes "endstream endobj" } ]
  let mut k := 0
  for r in recipes do
    for style in List.range viewStyles do
      let (c, _, ps, _) := r.build
      let d := r.dictL ps c.length
      let text := renderHead style d ++ c ++ renderTail style
      for cut in List.range text.length do
        k := k + 1
        if full || k % 3 == 0 || cut + 12 ≥ text.length then
          emit (Views.viewLine k s!"{hexOfBytes (text.take cut)} - cut - - -" cut junkText (text.drop cut))

/-! ### generators -/

def mkPayload (r : Rng) (n kind : Nat) : Bytes × Rng :=
  match kind % 4 with
  | 0 => Rng.bytes n r
  | 1 => ((List.range n).map fun i => UInt8.ofNat (i % 7 * 31), r)
  | 2 => (List.replicate n 0, r)
  | _ =>
    -- zero groups, near-overflow groups and hex digits ending in 0 mixed in
    let (seed, r) := r.nat 1000
    ((List.range n).map fun i => if (i / 4 + seed) % 3 == 0 then 0 else if (i / 4 + seed) % 3 == 1 then 0xFF else UInt8.ofNat ((i * 16) % 256), r)

def randLayer (r : Rng) (allowU : Bool) : Layer × Rng :=
  let (k, r) := r.nat (if allowU then 10 else 9)
  let (a, r) := r.nat 50
  let (b, r) := r.nat 3
  let (c, r) := r.nat 2
  let (m, r) := r.nat 5
  if k < 3 then (⟨'H', a, b, c, 0⟩, r)
  else if k < 6 then (⟨'A', a, b, 0, 0⟩, r)
  -- every second Flate layer under one of the 32 legal zlib headers (chosen by the draws already made)
  else if k < 9 then (⟨'F', m + (if a % 2 == 1 then 8 * (1 + (a / 2 + 5 * m) % 32) else 0), a, 0, 0⟩, r)
  else (⟨'U', 0, 0, 0, 0⟩, r)

def randChain (r : Rng) (len : Nat) (allowU : Bool) : List Layer × Rng :=
  match len with
  | 0 => ([], r)
  | n + 1 =>
    let (l, r) := randLayer r allowU
    let (ls, r) := randChain r n allowU
    (l :: ls, r)

def gen (seed n : Nat) (tier : String) (emit0 : String → IO Unit) : IO Unit := do
  let thorough := tier == "thorough"
  -- every case is followed by its view twin (see `viewTwin`)
  let ctr ← IO.mkRef 0
  let emit (line : String) : IO Unit := do
    emit0 line
    let c ← ctr.modifyGet fun c => (c, c + 1)
    match viewTwin c line with
    | some l => emit0 l
    | none => pure ()
  cutWindows emit0 thorough
  -- 1. exhaustive small: every chain of length ≤ 2 (3 in thorough) over {H,A,F} x boundary payload lengths x shapes
  let kinds : List Layer := [⟨'H', 3, 2, 1, 0⟩, ⟨'A', 5, 2, 0, 0⟩, ⟨'F', 0, 3, 0, 0⟩, ⟨'F', 1, 0, 0, 0⟩,
                             ⟨'F', 2, 9, 0, 0⟩, ⟨'F', 3, 4, 0, 0⟩, ⟨'F', 4, 16, 0, 0⟩]
  let chains1 := kinds.map fun k => [k]
  let chains2 := kinds.flatMap fun k => kinds.map fun k2 => [k, k2]
  let chains3 := if thorough then chains2.flatMap fun c => kinds.map fun k => k :: c else
    [[kinds[0]!, kinds[1]!, kinds[2]!], [kinds[2]!, kinds[0]!, kinds[1]!], [kinds[1]!, kinds[3]!, kinds[0]!]]
  let mut r := Rng.mk' seed
  for len in [0, 1, 2, 3, 4, 5, 7, 8, 9, 16, 17, 63] do
    for ch in chains1 ++ chains2 ++ chains3 do
      let (p, r1) := mkPayload r len (len + ch.length)
      r := r1
      -- shape: single-name form for one filter, array forms otherwise
      let shapes := if ch.length == 1 then [0, 1, 2] else [1, 2]
      for s in shapes do
        emit (caseOf "rt" { shape := s * 3 + len % 3, chain := ch, eol := len % 4, payload := p })
  -- 2. every shape (accepting, rejecting, lenient) with chains of length 0..3, every parameter variant
  for s in List.range 12 do
    for clen in [0, 1, 2, 3] do
      for pv in [0, 1, 2, 3, 4, 5] do
        let (ch, r1) := randChain r clen false
        let ch := ch.map fun l => { l with pv := if s == 1 then 0 else pv }
        let (p, r2) := mkPayload r1 (10 + clen) pv
        r := r2
        -- shapes that need a given chain length
        let ok := (s != 4 || clen == 0) && (s != 0 || clen == 1) && (s != 3 || clen == 1) && (s != 7 || clen ≥ 1)
                  && (s != 9 || clen ≥ 1)
        if ok then emit (caseOf "sh" { shape := s * 3 + pv % 3, chain := ch, payload := p })
  -- unknown filter names at every position
  for pos in [0, 1, 2] do
    let (ch, r1) := randChain r 2 false
    r := r1
    let ch := ch.take pos ++ [⟨'U', 0, 0, 0, 0⟩] ++ ch.drop pos
    emit (caseOf "sh" { shape := 3, chain := ch, payload := [1, 2, 3, 4, 5] })
  -- 2c. OTHER KEYS OF THE STREAM DICTIONARY (`otherKeys`): every near key x every value kind (one entry), all near keys at
  --     once, the six inline-image abbreviations, /F with /DP - over no filter at all ({no /Filter, empty /Filter array,
  --     empty parallel arrays}), every single layer kind and chains of two and three, under every accepting spelling of
  --     /Filter x /DecodeParms (single name without / with a parameter dictionary, array, parallel arrays, scalar
  --     /DecodeParms, the lenient one-dictionary form), parameter variants null / <<>> / <</Predictor 1>> /
  --     <</Colors 3 /Columns 5>>; the decoded dictionary must be the original one minus exactly /Filter and /DecodeParms
  let kchains : List (List Layer) := [[]] ++ chains1 ++ [[kinds[0]!, kinds[2]!], [kinds[1]!, kinds[3]!], [kinds[5]!, kinds[0]!],
    [kinds[1]!, kinds[0]!, kinds[6]!]]
  for ks in List.range otherKeysCount do
    let k := ks % (nearKeys.length + 3)
    let v := ks / (nearKeys.length + 3)
    let ch := kchains[(v + k) % kchains.length]?.getD []
    let sel := (v + 2 * k) % 5
    let s : Nat := if ch.isEmpty then ([4, 1, 2, 4, 7] : List Nat)[sel]?.getD 4
      else if ch.length == 1 then ([0, 1, 2, 3, 11] : List Nat)[sel]?.getD 0
      else ([1, 2, 11, 3, 2] : List Nat)[sel]?.getD 1
    let ch := ch.map fun l => { l with pv := if s == 1 then 0 else (v + k) % 4 }
    let (p, r1) := mkPayload r (3 + (v + k) % 9) ks
    r := r1
    let rc : Recipe := { shape := s * 3 + ks % 3, chain := ch, eol := ks % 4, payload := p, keys := ks + 1 }
    if rc.textual then emit (caseOf "sh" rc) else emit0 (caseOf "sh" rc)
  -- 2b. FlateDecode layers with a predictor (the /DecodeParms entries FlateDecode::transform reads): predictors
  --     2, 10..14 x {single-column image in three pixel layouts, rows of several pixels, one row} x the writer's
  --     omission choice {every entry written, every default-valued entry left out, /Columns left out, a random
  --     subset of the default-valued entries left out} x input lengths 1..30 x four Flate encoders, alone under a
  --     single name, alone in parallel arrays, and inside chains (the predictor layer outermost / innermost)
  let mut pi := seed % 1000
  for pr in [2, 10, 11, 12, 13, 14] do
    for wsel in [0, 3, 6, 1, 2, 5] do
      for maskSel in [0, 1, 2, 3] do
        for len in [1, 2, 3, 4, 6, 8, 12, 30] do
          pi := pi + 1
          let (rm, r1) := r.nat 16
          let (g, r2) := r1.nat 16
          let (p, r3) := mkPayload r2 len pi
          r := r3
          let mask := match maskSel with | 0 => 0 | 1 => 15 | 2 => 4 | _ => rm
          let l : Layer := ⟨'P', pi % 5, pi % 50, pr + 16 * g + 256 * wsel, mask⟩
          let (ch, shape) : List Layer × Nat := match pi % 4 with
            | 0 => ([l], 0) | 1 => ([l], 2) | 2 => ([kinds[0]!, l], 2) | _ => ([l, kinds[1]!, kinds[2]!], 2)
          emit (caseOf "rt" { shape := shape * 3 + pi % 3, chain := ch, eol := pi % 4, payload := p })
  --     the same dictionaries with the left-out entries written as objects that are not integers (seven types)
  for pr in [2, 10, 11, 12, 13, 14] do
    for j in [1, 2, 3, 4, 5, 6, 7] do
      for len in [3, 8] do
        pi := pi + 1
        let (g, r1) := r.nat 16
        let (p, r2) := mkPayload r1 len 0
        r := r2
        let l : Layer := ⟨'P', pi % 4, pi % 50, pr + 16 * g + 256 * (3 * (pi % 2) + pi % 2), (if pi % 3 == 0 then 4 else 15) + 16 * j⟩
        emit (caseOf "sh" { shape := (if pi % 2 == 0 then 0 else 2) * 3 + pi % 3, chain := [l], eol := pi % 4, payload := p })
  -- 3. every corruption on every layer kind, outermost and inner
  for (k, ops) in [('H', [1, 2, 3]), ('A', [1, 2, 3, 4, 5]), ('F', [1, 2, 3, 4, 5])] do
    for op in ops do
      for variant in List.range (if thorough then 24 else 8) do
        let (a, r1) := r.nat 40
        let (arg, r2) := r1.nat 100000
        let (len, r3) := r2.nat 40
        let (p, r4) := mkPayload r3 (len + 4) variant
        let (outer, r5) := randChain r4 (variant % 3) false
        let (inner, r6) := randChain r5 (variant % 2) false
        r := r6
        -- Flate: every encoder, the odd variants under one of the 32 legal headers
        let fm := variant % 5 + (if variant % 2 == 1 then 8 * (1 + (variant * 5 + op * 3) % 32) else 0)
        let l : Layer := ⟨k, if k == 'F' then fm else a, if k == 'F' then variant else variant % 3, 0, 0⟩
        emit (caseOf "mal" { shape := 3 + variant % 3, chain := outer ++ [l] ++ inner, corrL := outer.length + 1,
                             corrOp := op, corrArg := arg, payload := p })
  -- 3b. `z` everywhere in an ASCII85 text: after k = 0..4 digits of the first / middle / last group and directly
  --     before `~>` x 1..3 consecutive `z` x {bare, after white space, wrapped in white space} x payloads with
  --     complete and partial final groups (4..23 bytes, zero groups spelled `z` or `!!!!!`) x white space
  --     sprinkled between the digits or not; the verdict comes from the standard's reading (a85Points): at a group
  --     boundary the `z`s are four zero bytes each, anywhere else an error.  The layer alone or below another one.
  for gsel in [0, 1, 2, 3] do
    for k in [0, 1, 2, 3, 4] do
      for wsb in [0, 1, 2] do
        for variant in List.range (if thorough then 6 else 3) do
          let vi := variant + 3 * ((gsel + k + wsb) % 2)
          let len := ([8, 11, 18, 4, 23, 13] : List Nat)[vi]?.getD 8
          let (p, r1) := mkPayload r len (if vi % 2 == 0 then 0 else 3)
          r := r1
          let l : Layer := ⟨'A', if vi % 2 == 0 then 0 else 7 + vi + k, vi % 3, 0, 0⟩
          let outer : List Layer := if vi % 3 == 2 then [kinds[(k + gsel) % 3]!] else []
          emit (caseOf "mal" { shape := 3 + vi % 3, chain := outer ++ [l], corrL := outer.length + 1, corrOp := 6,
                               corrArg := k + 5 * gsel + 20 * (vi % 3) + 60 * wsb, payload := p })
  --     `z` after the EOD marker, and the Adobe `<~` prefix before a text that begins with `z` or with digits
  for op in [7, 8] do
    for variant in List.range 8 do
      let (p, r1) := mkPayload r (4 + variant) (if variant % 2 == 0 then 2 else 0)
      r := r1
      let l : Layer := ⟨'A', if variant % 4 < 2 then 0 else 11 + variant, 1 - variant % 2, 0, 0⟩
      emit (caseOf "mal" { shape := 3 + variant % 3, chain := [l], corrL := 1, corrOp := op, corrArg := variant, payload := p })
  -- 3c. EMPTY INPUT TO A FILTER (corruption 9; `Recipe.emptyInput`): every filter - ASCIIHex, ASCII85, Flate under each
  --     of the five encoders and under another legal header, Flate with a predictor, DCT - at every chain position: the
  --     stream content itself empty (or only the end-of-line marker), or the filters outside it (none, each of the seven
  --     layer kinds, two of them; thorough: all 49 pairs) legitimately decoding to the empty string (`>`, `~>`, the zlib
  --     streams of no bytes), with and without further filters inside; every way of spelling /Filter for the chain
  let emptied : List Layer := kinds ++ [⟨'F', 2 + 8 * 13, 5, 0, 0⟩, ⟨'P', 0, 3, 12 + 16 * 3, 15⟩, ⟨'D', 0, 0, 0, 0⟩]
  let outers : List (List Layer) := [[]] ++ chains1 ++
    (if thorough then chains2 else [[kinds[0]!, kinds[1]!], [kinds[1]!, kinds[0]!], [kinds[2]!, kinds[1]!], [kinds[1]!, kinds[6]!]])
  let mut ei := seed % 7
  for l in emptied do
    for outer in outers do
      for withInner in [false, true] do
        ei := ei + 1
        let (p, r1) := mkPayload r (ei % 6) ei
        let (inner, r2) := randChain r1 (if withInner then 1 + ei % 2 else 0) false
        r := r2
        let ch := outer ++ [l] ++ inner
        let pshape := l.kind == 'P' || inner.any (·.kind == 'P')
        let s := if pshape then 2 else if ch.length == 1 then ei % 3 else 1 + ei % 2
        emit (caseOf "mal" { shape := s * 3 + ei % 3, chain := ch, corrL := outer.length + 1, corrOp := 9,
                             eol := if ei % 4 < 2 then 0 else ei % 4 + (ei / 4) % 2 - 1, payload := p })
  --     the same as the zero-byte prefix in the truncation family (F.1.0), and ASCIIHex of no bytes without its EOD
  for m in [0, 1, 2, 3, 4] do
    for outer in [[], [kinds[0]!], [kinds[1]!, kinds[m]!]] do
      emit (caseOf "mal" { shape := 3 + m % 3, chain := outer ++ [⟨'F', m, m + 1, 0, 0⟩], corrL := outer.length + 1,
                           corrOp := 1, corrArg := 0, payload := [1, 2, 3] })
  for outer in [[], [kinds[1]!], [kinds[2]!], [kinds[6]!, kinds[0]!]] do
    emit (caseOf "mal" { shape := 3, chain := outer ++ [⟨'H', 0, 1, 0, 0⟩], corrL := outer.length + 1, corrOp := 2, payload := [] })
  --    corruptions of the zlib stream of a predictor layer
  for op in [1, 2, 3, 4, 5] do
    for variant in List.range 4 do
      let (arg, r1) := r.nat 100000
      let (sel, r2) := r1.nat 4096
      let (p, r3) := mkPayload r2 (12 + variant) variant
      let (outer, r4) := randChain r3 (variant % 2) false
      r := r4
      let l : Layer := ⟨'P', variant, variant + op, [2, 10, 12, 14][variant]! + 16 * sel, 15⟩
      emit (caseOf "mal" { shape := 6 + variant % 3, chain := outer ++ [l], corrL := outer.length + 1,
                           corrOp := op, corrArg := arg, payload := p })
  -- 4. larger payloads (the 32 KiB boundary of the old Flate glue; stored blocks of 65535)
  let big : List Nat := if thorough then [32767, 32768, 32769, 65535, 65536, 100000, 200000, 1048576, 3000000]
                        else [32767, 32768, 32769, 65535, 65536, 100000]
  for sz in big do
    for ch in [[kinds[2]!], [⟨'F', 0, 0, 0, 0⟩], [kinds[3]!], [⟨'F', 2, sz % 50, 0, 0⟩], [⟨'F', 3, sz % 47, 0, 0⟩],
               [⟨'F', 4, sz % 53, 0, 0⟩]] do
      if sz ≤ 200000 || ch.head!.a == 0 then
        let (p, r1) := mkPayload r sz sz
        r := r1
        emit (caseOf "rt" { shape := 3, chain := ch, eol := sz % 4, payload := p })
  for sz in [20000, 40000] do
    for ch in [[kinds[0]!], [kinds[1]!], [kinds[1]!, kinds[2]!], [kinds[2]!, kinds[0]!]] do
      let (p, r1) := mkPayload r sz (sz / 20000 + ch.length)
      r := r1
      emit (caseOf "rt" { shape := 6, chain := ch, eol := 2, payload := p })
  -- 4b. fixed-Huffman factorisations: every seed class x self-similar payloads (a random block of L bytes
  --     written three and a half times: copies at distance L, all distance symbols up to 32768, overlapping copies for
  --     runs, both spellings of length 258, forced literals, 1..100000 tokens per block)
  for fs in List.range (if thorough then 168 else 56) do
    for L in (if thorough then [1, 2, 5, 48, 300, 5000, 24577, 32768] else [1, 5, 48, 300, 5000, 32768]) do
      if L ≤ 5000 || fs % 8 == 0 then
        let (blk, r1) := Rng.bytes L r
        r := r1
        let p := blk ++ blk ++ blk ++ blk.take (L / 2 + 1)
        emit (caseOf "rt" { shape := 3 + fs % 3, chain := [⟨'F', 2 + fs % 2, fs, 0, 0⟩], eol := fs % 4, payload := p })
  -- 4c. dynamic-Huffman / mixed-block plans written by Spec/DeflateDyn.lean: every seed class (108 header styles x
  --     5 block-type patterns x 7 block sizes x the factorisation classes of 4b, scrambled over the seeds) x payloads
  --     {empty, one byte, short text-like, all 256 byte values, self-similar with period L, a run}: every literal
  --     symbol, every length and distance symbol used in some case, one-symbol and empty distance alphabets, codes of
  --     15 and 7 bits, HLIT / HDIST / HCLEN at their minima and maxima, all three run-length symbols
  for ds in List.range (if thorough then 540 else 108) do
    let L := ([1, 2, 5, 48, 300, 1500] : List Nat)[ds % 6]?.getD 5
    let (blk, r1) := Rng.bytes L r
    r := r1
    let p : Bytes := match ds % 9 with
      | 0 => []
      | 1 => [UInt8.ofNat ds]
      | 2 => (List.range 256).map UInt8.ofNat ++ blk
      | 3 => List.replicate (3 * L + 7) (UInt8.ofNat ds)
      | 4 => (List.range (40 + L)).map fun i => UInt8.ofNat (97 + (i * i + ds) % 7)
      | _ => blk ++ blk ++ blk ++ blk.take (L / 2 + 1)
    emit (caseOf "rt" { shape := 3 + ds % 3, chain := [⟨'F', 4, ds, 0, 0⟩], eol := ds % 4, payload := p })
  if thorough then
    for ds in List.range 24 do
      let L := ([5000, 24577, 32768] : List Nat)[ds % 3]?.getD 5000
      let (blk, r1) := Rng.bytes L r
      r := r1
      emit (caseOf "rt" { shape := 3, chain := [⟨'F', 4, 7 * ds + 3, 0, 0⟩], eol := ds % 4,
                          payload := blk ++ blk ++ blk ++ blk.take (L / 2 + 1) })
  -- 4d. the zlib header (RFC 1950 2.2, Spec/ZlibHdr.lean).  Every legal header - CINFO 0..7 (windows of 256 .. 32768
  --     bytes) x FLEVEL 0..3 with its FCHECK, 32 in all - in front of every encoder (stored, literal block, two fixed-Huffman
  --     factorisations, dynamic / mixed plans) over self-similar payloads of period 1 .. 5000 (the factoriser keeps to
  --     distances inside the declared window), alone under each spelling of /Filter
  let periods : List Nat := [1, 5, 48, 200, 300, 1000, 5000]
  for h in List.range 32 do
    for m in [0, 1, 2, 3, 4] do
      let L := periods[(h + 3 * m) % periods.length]?.getD 5
      let (blk, r1) := Rng.bytes L r
      r := r1
      let p := blk ++ blk ++ blk ++ blk.take (L / 2 + 1)
      let fs := 7 * h + m
      emit (caseOf "rt" { shape := 3 * ((h + m) % 3) + fs % 3, chain := [⟨'F', m + 8 * (h + 1), fs, 0, 0⟩], eol := fs % 4, payload := p })
  --     ... in chains: below / above ASCIIHex and ASCII85, two Flate layers with two different headers, under a predictor
  for h in List.range 32 do
    for form in [0, 1, 2, 3] do
      let fs := 11 * h + form
      let (blk, r1) := Rng.bytes (3 + (h + form) % 60) r
      r := r1
      let p := blk ++ blk ++ blk ++ [UInt8.ofNat h]
      let l : Layer := ⟨'F', fs % 5 + 8 * (h + 1), fs, 0, 0⟩
      let h2 := (h * 5 + 3) % 32
      let ch : List Layer := match form with
        | 0 => [kinds[h % 2]!, l]
        | 1 => [l, kinds[1 - h % 2]!]
        | 2 => [l, ⟨'F', (fs + 2) % 5 + 8 * (h2 + 1), fs + 1, 0, 0⟩]
        | _ => [⟨'P', fs % 5 + 8 * (h + 1), fs, [2, 10, 11, 12, 13, 14][h % 6]! + 16 * fs, 15 * (h % 2)⟩]
      emit (caseOf "rt" { shape := 6 + fs % 3, chain := ch, eol := fs % 4, payload := p })
  --     ... the same headers with the factoriser NOT kept inside the window (h = 33..64), periods just beyond the
  --     window: where a distance exceeds it the stream is outside RFC 1950 (payload or TransformError)
  for h in List.range 32 do
    for m in [2, 3, 4] do
      let w := 2 ^ (h / 4 + 8)
      if (w < 8192 || thorough || m == 2 + h % 3) && (h / 4 < 7 || m == 2) then
        -- the period: the window + 1 (the 32K window cannot be exceeded); a seed whose candidate distances hold it
        let L := if h / 4 == 7 then 300 else w + 1
        let fs := ((List.range 16).map (13 * h + m + ·)).find? (fun s => (lzCands s).contains L) |>.getD 0
        let (blk, r1) := Rng.bytes L r
        r := r1
        let p := blk ++ blk ++ blk.take (L / 3 + 5)
        emit (caseOf "rt" { shape := 3 + fs % 3, chain := [⟨'F', m + 8 * (h + 33), fs, 0, 0⟩], eol := fs % 4, payload := p })
  --     ... header REPLACED (corruption 6, CMF = arg / 256, FLG = arg % 256): the 32 legal pairs on streams that the
  --     smallest window covers (no change of outcome), and the illegal neighbours, each with the FCHECK that makes
  --     the pair a multiple of 31 so that only the field in question is at fault: CINFO 8..15 x FLEVEL, every CM != 8
  --     x two CINFO, FDICT set on each of the 32; then the wrong FCHECKs of every legal pair (quick: 3 of the 31 others)
  let fix (cmf base : Nat) : Nat := cmf * 256 + base + (31 - (cmf * 256 + base) % 31) % 31
  let mut swaps : List Nat := []
  for c in List.range 8 do
    for fl in List.range 4 do
      let cmf := 16 * c + 8
      let good := fix cmf (64 * fl)
      swaps := swaps ++ [good, fix (16 * (c + 8) + 8) (64 * fl), fix cmf (64 * fl + 32), fix (16 * (c + 8) + 8) (64 * fl + 32)]
      for k in List.range 31 do
        if thorough || (k + c + fl) % 10 == 0 then
          swaps := swaps ++ [good - good % 32 + (good % 32 + 1 + k) % 32]
  for cm in List.range 16 do
    if cm != 8 then
      for c in [cm % 8, 7] do
        swaps := swaps ++ [fix (16 * c + cm) (64 * (cm % 4)), fix (16 * (c + 8) + cm) (64 * (cm % 4))]
  --     ... and (thorough: all 65536; quick: 160 drawn) arbitrary byte pairs
  if thorough then
    swaps := swaps ++ List.range 65536
  else
    for _ in List.range 160 do
      let (v, r1) := r.nat 65536
      r := r1
      swaps := swaps ++ [v]
  let mut si := 0
  for arg in swaps do
    si := si + 1
    let (blk, r1) := Rng.bytes (2 + si % 9) r
    r := r1
    let p := blk ++ blk ++ blk
    let l : Layer := ⟨'F', si % 5 + (if si % 3 == 0 then 8 * (1 + si % 32) else 0), si, 0, 0⟩
    let ch : List Layer := match si % 7 with | 1 => [kinds[0]!, l] | 2 => [l, kinds[1]!] | _ => [l]
    let rc : Recipe := { shape := 3 + si % 3, chain := ch, corrL := ch.length - (if si % 7 == 2 then 1 else 0), corrOp := 6, corrArg := arg, payload := p }
    -- view twins for the first 300 (the legal pairs and their neighbours)
    if si > 300 then emit0 (caseOf "mal" rc) else emit (caseOf "mal" rc)
  -- 5. random recipes
  for _ in List.range n do
    let (clen, r1) := r.nat 4
    let (ch, r2) := randChain r1 clen false
    let (pvs, r3) := r2.nat 4
    let (sz, r4) := r3.nat 10
    let (len, r5) := r4.nat (if sz == 0 then 3000 else if sz < 4 then 300 else 40)
    let (p, r6) := mkPayload r5 len pvs
    let (eol, r7) := r6.nat 4
    let (sh, r8) := r7.nat 3
    r := r8
    let ch := ch.map fun l => { l with pv := pvs }
    -- one recipe in four: a predictor layer at a random position, any selector, any omission mask
    let (pk, r9) := r.nat 4
    let (pos, r10) := r9.nat (clen + 1)
    let (sel, r11) := r10.nat 4096
    let (pr, r12) := r11.pick ([2, 10, 11, 12, 13, 14] : List Nat)
    let (mask, r13) := r12.nat 16
    let (mode, r14) := r13.nat 5
    r := r14
    let ch := if pk == 0 then ch.take pos ++ [⟨'P', mode, sel % 50, pr + 16 * sel, mask⟩] ++ ch.drop pos else ch
    let shape := if ch.length == 1 && sh == 0 then 0 else if sh == 1 && pvs == 0 && pk != 0 then 1 else 2
    -- one recipe in four with other keys in its dictionary (`otherKeys`; chosen by the draws already made)
    let keys := if (len + sel) % 4 == 1 then 1 + (sel * 31 + len) % otherKeysCount else 0
    let rc : Recipe := { shape := shape * 3 + len % 3, chain := ch, eol := eol, payload := p, keys := keys }
    if rc.textual then emit (caseOf "rt" rc) else emit0 (caseOf "rt" rc)
  -- 6. arbitrary bytes under one filter, and single-byte mutations of valid encodings (correspondence only)
  for i in List.range (n / 2) do
    let (len, r1) := r.nat 60
    let (raw, r2) := Rng.bytes len r1
    let (l, r3) := randLayer r2 false
    let (mode, r4) := r3.nat 3
    let (pos, r5) := r4.nat 100000
    let (bv, r6) := r5.byte
    r := r6
    let l := { l with pv := 0 }
    let content :=
      if mode == 0 then raw
      else
        let e := l.encode raw
        if mode == 1 then e.take (pos % e.length) ++ [bv] ++ e.drop (pos % e.length + 1)
        else e.take (pos % e.length) ++ e.drop (pos % e.length + 1)
    -- for ASCII85 draw raw garbage from the printable range so that the digit loop is reached
    let content := if mode == 0 && l.kind == 'A' then (content.map fun b => UInt8.ofNat (33 + b.toNat % 95)) ++ [0x7E, 0x3E] else content
    let content := if mode == 0 && l.kind == 'H' then (content.map fun b => if b.toNat % 5 == 0 then 0x20 else (FiltersSpec.hexDigitOf (b.toNat % 2 == 0) (b.toNat % 16))) ++ (if i % 4 == 0 then [] else [0x3E]) else content
    let d : Dict := [(strBytes "Filter", l.name)]
    emit s!"fz - {showDict d} {hexOfBytes content}"

/-- non-trivial: a recipe with at least one filter layer and a non-empty payload, a rejecting
    shape, a corruption, or a real-zlib case of at least 16 bytes -/
def nontrivialPlain (line : String) : Bool :=
  match words line with
  | ["rz", p, _, _] => p.length ≥ 32
  | ["fz", _, _, _] => false
  | [_, mta, _, _] =>
    match Recipe.parse mta with
    | some r => (!r.chain.isEmpty && !r.payload.isEmpty) || r.shape / 3 ≥ 5 || r.corrL != 0
    | none => false
  | _ => false

/-- a view case counts when the case does and the window lies inside a larger allocation; a `cut` case always -/
def nontrivial (line : String) : Bool :=
  match words line with
  | "vw" :: _ :: pre :: suf :: _ :: _ :: kind :: rest =>
    (kind == "cut" || nontrivialPlain (" ".intercalate (kind :: rest))) && (pre != "-" || suf != "-")
  | _ => nontrivialPlain line

def driver : PropDriver := { gen, model, judge, nontrivial }
end Driver.C06
