import Driver.Common
import Parsley.Model.Predictor
import Parsley.Spec.Predictor
/-
  C07 line protocol.

  case lines
    flate <P> <C> <N> <B> <enchex> [<rawhex>]   /Predictor /Colors /Columns /BitsPerComponent as decimal
                                                i64, `_` (absent) or a NON-INTEGER object `~<t><k>` (t = n null,
                                                r real k.0, s string (k), m name /k, b boolean, a array [k],
                                                f reference k 0 R); data goes through zlib + FlateDecode
    pred  <P> <C> <N> <B> <enchex> [<rawhex>]   the same four as decimal u64, direct call of the predictor
    paeth <a> <b>                               Paeth for c = 0..255
  <rawhex> (optional, generator's knowledge of the original rows) is used by the oracle only.
  outputs:  ok <hex> | err transform | panic <site>
-/
namespace Driver.C07
open Parsley Driver

def showR : Res Bytes → String
  | .ok v => s!"ok {hexOfBytes v}"
  | .err k => s!"err {k}"
  | .panic s => s!"panic {s}"

/-- an entry of the parameter dictionary as the option glue sees it: `get(key)` + `match Integer`.
    `_` = key absent; `~…` = a value that is not an Integer object (`_ => None` arm): both `none` -/
def optInt (s : String) : Option (Option Int) :=
  if s == "_" || s.startsWith "~" then some none else (s.toInt?).map some

def isJunkTok (s : String) : Bool := s.startsWith "~"

/-! ### the model's side -/

def model (line : String) : String :=
  match words line with
  | "flate" :: p :: c :: n :: b :: hex :: _ =>
    match optInt p, optInt c, optInt n, optInt b, bytesOfHex hex with
    | some p, some c, some n, some b, some d => showR (Pred.transformTail p c n b d)
    | _, _, _, _, _ => "bad-case"
  | "pred" :: p :: c :: n :: b :: hex :: _ =>
    match p.toNat?, c.toNat?, n.toNat?, b.toNat?, bytesOfHex hex with
    | some p, some c, some n, some b, some d => showR (Pred.filter d p c n b)
    | _, _, _, _, _ => "bad-case"
  | ["paeth", a, b] =>
    match a.toNat?, b.toNat? with
    | some a, some b =>
      showR (.ok ((List.range 256).map fun c => Pred.paeth (UInt8.ofNat a) (UInt8.ofNat b) (UInt8.ofNat c)))
    | _, _ => "bad-case"
  | _ => "bad-case"

/-! ### the oracle: computed from Parsley.PredSpec only -/

/-- the integers the /DecodeParms dictionary denotes (PDF defaults for absent keys) -/
structure IParams where
  predictor : Int
  colors : Int
  columns : Int
  bpc : Int

def small (x : Int) : Bool := 1 ≤ x && x ≤ 65536

/-- the parameter sets of the statement's first sentence, restricted to sizes a test can hold -/
def acceptedParams (q : IParams) : Option PredSpec.Params :=
  let p : PredSpec.Params := ⟨q.predictor.toNat, q.colors.toNat, q.columns.toNat, q.bpc.toNat⟩
  if small q.predictor && small q.colors && small q.columns && small q.bpc && decide p.accepted
  then some p else none

def rowTagsOk (tag : UInt8) (rl : Nat) : Nat → Bytes → Bool
  | 0, _ => true
  | f + 1, d => d.head? == some tag && rowTagsOk tag rl f (d.drop rl)

/-- Is `d` the shape an encoder can produce (whole rows, right filter-type bytes)? -/
def validShape (p : PredSpec.Params) (d : Bytes) : Bool :=
  let rb := PredSpec.rowBytes p.columns p.colors p.bpc
  if p.predictor = 2 then d.length % rb == 0
  else d.length > 0 && d.length % (rb + 1) == 0 &&
       rowTagsOk (UInt8.ofNat (p.predictor - 10)) (rb + 1) (d.length / (rb + 1)) d

def nRows (p : PredSpec.Params) (d : Bytes) : Nat :=
  let rb := PredSpec.rowBytes p.columns p.colors p.bpc
  if p.predictor = 2 then d.length / rb else d.length / (rb + 1)

def parseOut (impl : String) : Option (Option Bytes) :=
  match words impl with
  | ["ok", h] => (bytesOfHex h).map some
  | ["err", _] => some none
  | _ => none

def judgeData (q : IParams) (d : Bytes) (raw : Option Bytes) (impl : String) : String :=
  let w := words impl
  if w.head? == some "panic" || (w.head?.getD "").startsWith "crash" then s!"bad panic {impl.take 60}"
  else
  match parseOut impl with
  | none => s!"bad output {impl.take 60}"
  | some out =>
    if q.predictor == 1 then
      if out == some d then "ok" else "bad identity predictor 1 must return the data unchanged"
    else
    match acceptedParams q with
    | none => "ok"                                   -- error or value, not a panic
    | some p =>
      if !validShape p d then "ok"                   -- inconsistent with the data: error or value
      else
        match out with
        | none => "bad rejected an encoder-produced stream"
        | some o =>
          let rb := PredSpec.rowBytes p.columns p.colors p.bpc
          let n := nRows p d
          if o.length != n * rb then s!"bad length got {o.length} want {n * rb}"
          else if PredSpec.predict p (PredSpec.splitRows rb n o) != d then
            "bad roundtrip the forward filter of the output is not the input"
          else match raw with
            | some r => if r == o then "ok" else "bad value output differs from the original rows"
            | none => "ok"

/-- absent entries denote the defaults of ISO 32000-1 Table 8 (`PredSpec.default…`, stated in the spec) -/
def iparamsOfOpt (p c n b : Option Int) : IParams :=
  ⟨p.getD PredSpec.defaultPredictor, c.getD PredSpec.defaultColors, n.getD PredSpec.defaultColumns,
   b.getD PredSpec.defaultBpc⟩

/-- a parameter that is not an integer has no meaning in the specification: the statement's second
    sentence applies (an error or a value, never a panic) -/
def judgeNoPanic (impl : String) : String :=
  let w := words impl
  if w.head? == some "panic" || (w.head?.getD "").startsWith "crash" then s!"bad panic {impl.take 60}"
  else match parseOut impl with
    | none => s!"bad output {impl.take 60}"
    | some _ => "ok"

/-- u64 as the i64 it is the cast of -/
def signed64 (x : Nat) : Int := if x < 9223372036854775808 then x else (x : Int) - 18446744073709551616

def rawOf : List String → Option (Option Bytes)
  | [] => some none
  | [r] => (bytesOfHex r).map some
  | _ => none

def judge (case impl : String) : String :=
  match words case with
  | "flate" :: p :: c :: n :: b :: hex :: rest =>
    -- a non-integer entry: no panic; and with an (integer or absent) /Predictor 1 still the identity
    if isJunkTok p || ((isJunkTok c || isJunkTok n || isJunkTok b) &&
        (optInt p).map (·.getD PredSpec.defaultPredictor) != some 1) then judgeNoPanic impl else
    match optInt p, optInt c, optInt n, optInt b, bytesOfHex hex, rawOf rest with
    | some p, some c, some n, some b, some d, some raw => judgeData (iparamsOfOpt p c n b) d raw impl
    | _, _, _, _, _, _ => "bad-case"
  | "pred" :: p :: c :: n :: b :: hex :: rest =>
    match p.toNat?, c.toNat?, n.toNat?, b.toNat?, bytesOfHex hex, rawOf rest with
    | some p, some c, some n, some b, some d, some raw =>
      judgeData ⟨signed64 p, signed64 c, signed64 n, signed64 b⟩ d raw impl
    | _, _, _, _, _, _ => "bad-case"
  | ["paeth", a, b] =>
    match a.toNat?, b.toNat? with
    | some a, some b =>
      let e := (List.range 256).map fun c => PredSpec.paeth (UInt8.ofNat a) (UInt8.ofNat b) (UInt8.ofNat c)
      if impl.trimAscii.toString == s!"ok {hexOfBytes e}" then "ok" else "bad paeth differs from PNG 9.4"
    | _, _ => "bad-case"
  | _ => "bad-case"

/-! ### generators -/

def interesting : List UInt8 := [0, 1, 2, 127, 128, 129, 254, 255]

/-- a byte: half of the time from the boundary set -/
def genByte (r : Rng) : UInt8 × Rng :=
  let (k, r) := r.nat 2
  if k == 0 then r.pick interesting else r.byte

def genBytes : Nat → Rng → Bytes × Rng
  | 0, r => ([], r)
  | n + 1, r =>
    let (b, r) := genByte r
    let (bs, r) := genBytes n r
    (b :: bs, r)

def genRows : Nat → Nat → Rng → List Bytes × Rng
  | 0, _, r => ([], r)
  | n + 1, len, r =>
    let (row, r) := genBytes len r
    let (rows, r) := genRows n len r
    (row :: rows, r)

def u64 (x : Int) : Nat := (x % 18446744073709551616).toNat

def caseLine (kind : String) (p c n b : Int) (enc : Bytes) (raw : Option Bytes) : String :=
  let ps := if kind == "flate" then s!"{p} {c} {n} {b}" else s!"{u64 p} {u64 c} {u64 n} {u64 b}"
  match raw with
  | some r => s!"{kind} {ps} {hexOfBytes enc} {hexOfBytes r}"
  | none => s!"{kind} {ps} {hexOfBytes enc}"

def entryTok : Option Nat → String
  | some v => s!"{v}"
  | none => "_"

/-- a `flate` line whose dictionary is written by the spec-side writer `PredSpec.Params.entries`:
    bit i of `mask` leaves entry i out if (and only if) its value is the default -/
def flateLine (p : PredSpec.Params) (mask : Nat) (enc : Bytes) (raw : Option Bytes) : String :=
  let (a, b, c, d) := p.entries mask
  let ps := s!"{entryTok a} {entryTok b} {entryTok c} {entryTok d}"
  match raw with
  | some r => s!"flate {ps} {hexOfBytes enc} {hexOfBytes r}"
  | none => s!"flate {ps} {hexOfBytes enc}"

/-- the non-integer objects a parameter entry is replaced by (`k` = the integer it would have held) -/
def junkTok (t : Nat) (k : Nat) : String :=
  match t % 7 with
  | 0 => "~n" | 1 => s!"~r{k}" | 2 => s!"~s{k}" | 3 => s!"~m{k}" | 4 => "~b" | 5 => s!"~a{k}" | _ => s!"~f{k}"

def boundary : List Int :=
  [0, 1, -1, 2, 3, 7, 8, 9, 10, 14, 15, 16, 17, 24, 32, 64, 255, 256, 65535, 65536, 2147483647,
   2147483648, 4294967295, 4294967296, 4294967297, 2305843009213693952, 4611686018427387904,
   9223372036854775807, -9223372036854775808, -2, -8, -4294967296]

def genValid (r : Rng) (big : Bool) : (String → Int → Int → Int → Int → Bytes → Option Bytes → String) →
    (String × PredSpec.Params × Bytes × Bytes × Rng) := fun mk =>
  let (single, r) := r.nat 6
  let (pred, r) := r.pick [2, 10, 11, 12, 13, 14, 11, 13, 14]
  let (bpc, r) := if pred == 2 then r.pick [8, 16] else r.pick [1, 2, 4, 8, 16, 8, 16]
  let (colors, r) := r.pick [1, 2, 3, 4, 5, 1, 3]
  let (wide, r) := r.nat 12
  let (columns, r) := if wide == 0 then r.nat (if big then 300 else 200) else r.nat 12
  -- one image in six has a single column (the default of /Columns)
  let columns := if single == 0 then 1 else columns + 1
  let (nrows, r) := r.nat 5
  let nrows := nrows + 1
  let p : PredSpec.Params := ⟨pred, colors, columns, bpc⟩
  let rb := PredSpec.rowBytes columns colors bpc
  let (rows, r) := genRows nrows rb r
  let enc := PredSpec.predict p rows
  let (k, r) := r.nat 2
  -- keep zlib payloads below 32 KiB (the inflate glue is C06's subject, not this property's)
  let kind := if k == 0 && enc.length < 30000 then "flate" else "pred"
  -- writer's choice for the dictionary: every entry written, every default-valued entry left out, or a
  -- random subset of the default-valued entries left out
  let (om, r) := r.nat 3
  let (mk16, r) := r.nat 16
  let mask := if om == 0 then 0 else if om == 1 then 15 else mk16
  (if kind == "flate" then flateLine p mask enc (some rows.flatten)
   else mk kind pred colors columns bpc enc (some rows.flatten), p, enc, rows.flatten, r)

/-! ### the guard walk: data that passes the early exits one by one

  The decoder looks at the data only behind a chain of guards (predictor known, sizes fit, data at least one
  row long, a whole number of rows, the filter-type byte of each row).  Random data dies at the first of
  them that looks at the data, so the code behind is only reached by data of the right shape.  For a
  geometry given by the WRITTEN integers (any of them zero, negative, huge) the family below builds, from
  the generator's own 64-bit reading of the row size, data that is too short / of every length up to a few
  rows / whole rows with the right filter-type byte on every row / one wrong byte at row i / mixed bytes. -/

/-- the generator's own reading of the row geometry (u64 casts of the written integers, 64-bit products):
    `none` = a sample size PDF does not have, or sizes that do not fit 64 bits; otherwise the bytes of a row
    of samples and of a pixel -/
def geomOf (C N B : Int) : Option (Nat × Nat) :=
  let c := u64 C
  let n := u64 N
  let b := u64 B
  if !([1, 2, 4, 8, 16].contains b) then none
  else if c * b ≥ 18446744073709551616 || n * (c * b) ≥ 18446744073709551616 then none
  else some ((n * c * b + 7) / 8, max 1 ((c * b + 7) / 8))

/-- rows of `rb` sample bytes, row i preceded by the i-th of `tags` -/
def tagRows (rb : Nat) : List UInt8 → Rng → Bytes × Rng
  | [], r => ([], r)
  | t :: ts, r =>
    let (row, r) := genBytes rb r
    let (rest, r) := tagRows rb ts r
    (t :: (row ++ rest), r)

/-- the filter-type bytes a row may carry under /Predictor `P` that pass the row guard (15: any of 0..4) -/
def rightTags (P : Int) : List UInt8 :=
  if 10 ≤ P && P ≤ 14 then [UInt8.ofNat (P - 10).toNat] else if P == 15 then [0, 1, 2, 3, 4] else [0]

def setAt (l : List UInt8) (i : Nat) (v : UInt8) : List UInt8 := l.take i ++ [v] ++ l.drop (i + 1)

/-- Is the geometry degenerate: no sample bytes in a row, a one-byte row, or a row that holds at most
    one pixel (no left neighbour anywhere: pixel as wide as, or wider than, the row)? -/
def degenerate (rb bpp : Nat) : Bool := rb ≤ 1 || rb ≤ bpp

def guardWalk (P C N B : Int) (maxRb : Nat) (r : Rng) (emit : String → IO Unit) : IO Rng := do
  let both (d : Bytes) : IO Unit := do
    emit (caseLine "flate" P C N B d none)
    emit (caseLine "pred" P C N B d none)
  let tags := rightTags P
  let t0 := tags.headD 0
  let mut r := r
  match geomOf C N B with
  | some (rb, bpp) =>
    if (degenerate rb bpp && rb ≤ 8) || rb ≤ maxRb then
      let rl := if P == 2 then rb else rb + 1
      let top := max 8 (3 * rl)
      for t in tags do
        -- right tag on every row, every length 0..top: too short, not a whole number of rows, whole rows
        let (d, r1) := tagRows rb (List.replicate (top + 1) t) r
        r := r1
        for L in List.range (top + 1) do
          if P != 15 || (rl != 0 && L % rl == 0) || rb == 0 then
            if L > 0 || t == t0 then both (d.take L)
        -- whole rows, every byte of the data equal to the tag
        if rb > 0 then
          for k in [1, 2, 3] do both (List.replicate (k * rl) t)
      if P != 2 then
        -- whole rows, one wrong filter-type byte at row i (the rows before it pass the guard)
        for (k, i, w) in [(1, 0, (t0 + 4) % 5), (1, 0, 5), (3, 0, (t0 + 1) % 5), (3, 1, (t0 + 1) % 5),
                          (3, 2, (t0 + 1) % 5), (3, 0, 255), (3, 1, 255), (3, 2, 255), (8, 7, (t0 + 2) % 5)] do
          let (d, r1) := tagRows rb (setAt (List.replicate k t0) i w) r
          r := r1
          both d
        -- mixed filter-type bytes 0..4 (what /Predictor 15 announces)
        for ts in [[t0, t0 + 1, t0 + 2, t0 + 3, t0 + 4], [t0 + 4, t0 + 3, t0 + 2, t0 + 1, t0], [t0, t0, t0 + 3]] do
          let (d, r1) := tagRows rb (ts.map fun x => x % 5) r
          r := r1
          both d
    else
      -- rows no data of a test can fill: the size guard must answer, whatever the first bytes are
      for L in [1, 2, 8] do both (List.replicate L t0)
  | none =>
    for L in [1, 2, 8] do both (List.replicate L t0)
  return r

/-- data shaped after the geometry for the random boundary tuples: `k` whole rows with a right tag -/
def shapedData (P C N B : Int) (r : Rng) : Option (Bytes × Rng) :=
  match geomOf C N B with
  | some (rb, _) =>
    if rb ≤ 40 then
      let (k, r) := r.nat 4
      let (t, r) := r.pick (rightTags P)
      let (cut, r) := r.nat 8
      let (d, r) := if P == 2 then genBytes (rb * (k + 1)) r else tagRows rb (List.replicate (k + 1) t) r
      -- one in eight: a partial last row
      some (if cut == 0 then d.dropLast else d, r)
    else none
  | none => none

def gen (seed n : Nat) (tier : String) (emit : String → IO Unit) : IO Unit := do
  let thorough := tier == "thorough"
  -- (4) exhaustive small: Paeth triples through the real `paeth`
  let sa := if thorough then 1 else 5
  let sb := if thorough then 1 else 7
  let mut a := 0
  while a < 256 do
    let mut b := 0
    while b < 256 do
      emit s!"paeth {a} {b}"
      b := b + sb
    a := a + sa
  for a' in [0, 1, 127, 128, 254, 255] do
    for b' in [0, 1, 127, 128, 254, 255] do
      emit s!"paeth {a'} {b'}"
  -- (4) exhaustive small: Average pairs (a = left, b = above) and Paeth triples through the row loop:
  --     rows [c, b] / [a, x]: position 1 of row 2 sees exactly (a, b, c)
  let s2 := if thorough then 1 else 11
  a := 0
  while a < 256 do
    let mut b := 0
    while b < 256 do
      let c := (a * 7 + b * 13 + 5) % 256
      for pred in [13, 14] do
        let rows : List Bytes := [[UInt8.ofNat c, UInt8.ofNat b], [UInt8.ofNat a, UInt8.ofNat (a + b)]]
        let p : PredSpec.Params := ⟨pred, 1, 2, 8⟩
        emit (caseLine "pred" pred 1 2 8 (PredSpec.predict p rows) (some rows.flatten))
      b := b + s2
    a := a + s2
  -- (2) structured, mostly valid + (3) single-rule mutations of them
  let mut r := Rng.mk' seed
  for _ in List.range n do
    let (line, p, enc, _, r1) := genValid r thorough caseLine
    r := r1
    emit line
    let (m, r2) := r.nat 10
    r := r2
    let (k, r3) := r.nat 2
    r := r3
    let kind := if k == 0 then "flate" else "pred"
    let P : Int := p.predictor; let C : Int := p.colors; let N : Int := p.columns; let B : Int := p.bpc
    match m with
    | 0 => emit (caseLine kind P C N B enc.dropLast none)                       -- truncated
    | 1 => emit (caseLine kind P C N B (enc ++ [7]) none)                       -- one byte too many
    | 2 =>                                                                       -- one byte altered
      let (i, r4) := r.nat enc.length
      r := r4
      emit (caseLine kind P C N B (enc.take i ++ [(enc.getD i 0) + 1] ++ enc.drop (i + 1)) none)
    | 3 => emit (caseLine kind P C (N + 1) B enc none)                          -- wrong /Columns
    | 4 =>                                                                       -- wrong /Predictor
      let (q, r4) := r.pick [1, 2, 10, 11, 12, 13, 14, 15]
      r := r4
      emit (caseLine kind q C N B enc none)
    | 5 =>                                                                       -- wrong /BitsPerComponent
      let (q, r4) := r.pick [1, 2, 4, 8, 16]
      r := r4
      emit (caseLine kind P C N q enc none)
    | 6 => emit (caseLine kind P (C + 1) N B enc none)                          -- wrong /Colors
    | 7 =>                                                                       -- absent keys (defaults)
      emit s!"flate {P} _ {N} _ {hexOfBytes enc}"
    | 8 =>                                                                       -- absent /Columns, whatever its value
      emit s!"flate {P} {C} _ {B} {hexOfBytes enc}"
    | _ =>                                                                       -- one entry not an integer
      let (pos, r4) := r.nat 4
      let (t, r5) := r4.nat 7
      r := r5
      let vals : List Int := [P, C, N, B]
      let toks := (List.range 4).map fun i =>
        if i == pos then junkTok t (vals.getD i 0).toNat else s!"{vals.getD i 0}"
      emit s!"flate {" ".intercalate toks} {hexOfBytes enc}"
  -- (4) exhaustive small: the option glue.  Every predictor (1, 2, 10..15) x colours {1,3} x columns {1,4} x two
  --     sample sizes x EVERY subset of the default-valued entries left out (writer `PredSpec.Params.entries`),
  --     through zlib + FlateDecode::transform; then the same dictionaries with one entry (default-valued or
  --     not) replaced by a non-integer object of each of seven types (the glue's `_ => None` arm)
  let mut jt := seed
  for pred in [1, 2, 10, 11, 12, 13, 14, 15] do
    for colors in [1, 3] do
      for columns in [1, 4] do
        for bpc in (if pred == 2 then [8, 16] else [8, 4]) do
          let p : PredSpec.Params := ⟨pred, colors, columns, bpc⟩
          let (rows, r1) := genRows 3 (PredSpec.rowBytes columns colors bpc) r
          r := r1
          let enc := if pred == 1 then rows.flatten else PredSpec.predict p rows
          for mask in List.range 16 do
            -- one line per distinct dictionary: the bits of `mask` that are honoured
            let eff := (List.range 4).foldl (fun acc bit =>
              if (PredSpec.spellEntry mask bit ([pred, colors, columns, bpc].getD bit 0)
                    ([PredSpec.defaultPredictor, PredSpec.defaultColors, PredSpec.defaultColumns,
                      PredSpec.defaultBpc].getD bit 0)).isNone then acc + 2 ^ bit else acc) 0
            if eff == mask then emit (flateLine p mask enc (some rows.flatten))
          for pos in [0, 1, 2, 3] do
            for rep in [0, 1] do
              jt := jt + 1
              let vals := [pred, colors, columns, bpc]
              let toks := (List.range 4).map fun i =>
                if i == pos then junkTok (jt + 3 * rep) (vals.getD i 0) else s!"{vals.getD i 0}"
              emit s!"flate {" ".intercalate toks} {hexOfBytes enc}"
  -- degenerate parameters: every boundary value in every position, others sane / random boundary
  let datas : List Bytes := [[], [0], [2, 0], [1, 2, 3, 4, 5, 6, 7, 8, 9, 10, 11, 12], [4, 1, 2, 3, 4, 9, 9, 9]]
  for v in boundary do
    for pos in [0, 1, 2, 3] do
      for d in datas do
        let (pr, r1) := r.pick [2, 10, 11, 12, 13, 14, 15]
        let (o1, r2) := r1.pick boundary
        let (sane, r3) := r2.nat 3
        r := r3
        let o : Int := if sane == 0 then o1 else 1
        let (P, C, N, B) : Int × Int × Int × Int := match pos with
          | 0 => (v, o, 1, 8)
          | 1 => (pr, v, o, 8)
          | 2 => (pr, o, v, 8)
          | _ => (pr, 1, o, v)
        emit (caseLine "flate" P C N B d none)
        emit (caseLine "pred" P C N B d none)
  let extra := if thorough then 20000 else 1500
  for _ in List.range extra do
    let (P, r1) := r.pick ([2, 10, 11, 12, 13, 14] ++ boundary)
    let (C, r2) := r1.pick boundary
    let (N, r3) := r2.pick boundary
    let (B, r4) := r3.pick ([1, 2, 4, 8, 16] ++ boundary)
    let (len, r5) := r4.nat 40
    let (d, r6) := genBytes len r5
    let (k, r7) := r6.nat 2
    r := r7
    emit (caseLine (if k == 0 then "flate" else "pred") P C N B d none)
    -- the same tuple with data shaped after its geometry (whole rows, right filter-type bytes), when rows are small
    match shapedData P C N B r with
    | some (d', r8) =>
      r := r8
      emit (caseLine (if k == 0 then "flate" else "pred") P C N B d' none)
    | none => pure ()
  -- the guard walk (see above): every predictor that looks at rows x a grid of written /Colors and /Columns (zero,
  -- small, negative, 2^32, 2^61, i64::MIN/MAX; thorough: the whole boundary set) x every sample size (and three
  -- that PDF does not have), data of the right shape, both entry points
  let cs : List Int := if thorough then boundary else [0, 1, 2, 3, 5, -1, 2305843009213693952, 4294967296, -9223372036854775808]
  let ns : List Int := if thorough then boundary else [0, 1, 2, 3, 9, -1, 2305843009213693952, 4294967296, 9223372036854775807]
  let maxRb := if thorough then 9 else 2
  for C in cs do
    for N in ns do
      for B in [1, 2, 4, 8, 16, 0, 3, -8] do
        for P in [2, 10, 11, 12, 13, 14, 15] do
          r ← guardWalk P C N B maxRb r emit

/-- Non-trivial: accepted parameters with an encoder-shaped stream of at least two rows whose rows are
    longer than a pixel (left, above and upper-left neighbours all occur) and a predictor other than
    None; or parameters outside the accepted set with a predictor other than 1; or a Paeth line. -/
def nontrivial (line : String) : Bool :=
  let go (q : IParams) (d : Bytes) : Bool :=
    if q.predictor == 1 then false else
    match acceptedParams q with
    | none => true
    | some p =>
      validShape p d && nRows p d ≥ 2 && p.predictor != 10 &&
        PredSpec.rowBytes p.columns p.colors p.bpc > PredSpec.bytesPerPixel p.colors p.bpc
  match words line with
  | "flate" :: p :: c :: n :: b :: hex :: _ =>
    match optInt p, optInt c, optInt n, optInt b, bytesOfHex hex with
    | some p, some c, some n, some b, some d => go (iparamsOfOpt p c n b) d
    | _, _, _, _, _ => false
  | "pred" :: p :: c :: n :: b :: hex :: _ =>
    match p.toNat?, c.toNat?, n.toNat?, b.toNat?, bytesOfHex hex with
    | some p, some c, some n, some b, some d => go ⟨signed64 p, signed64 c, signed64 n, signed64 b⟩ d
    | _, _, _, _, _ => false
  | ["paeth", _, _] => true
  | _ => false

def driver : PropDriver := { gen, model, judge, nontrivial }
end Driver.C07
