/-
  C08 driver: gen / model / judge / nontrivial.
  model : the machine of Model/TypeCheck.lean in the tree configuration (`c08o`: original configuration)
  judge : the declarative oracle `Spec.gfp` (never the machine) against the implementation's verdict;
          a disagreement is classified by asking which SINGLE repair flag of the model (a flag that is
          off in the tree) makes the machine agree with the oracle on this case -> `bad <flag> ...`;
          `bad multi` when only all repairs together do, `bad unclassified` otherwise.
          A disagreement of the tree configuration INSIDE a fragment of Spec/TypeCheckFrag.lean is never filed
          under a known finding: `bad f1-theorem-violated` (fragment F1: machine = specification is proved, so
          this means model and real code differ) / `bad f2-theorem-violated` (fragment F2: proved too,
          `machine_eq_conforms_F2`, Props/C08F2.lean).
          A FALSE REJECT (oracle accepts, implementation does not) of the tree configuration on a well-formed
          specification (`Frag.wfSpec`, Spec/TypeCheckWF.lean) contradicts the completeness theorem `machine_complete`
          (all specifications, disjunctions included): `bad completeness-theorem-violated`, never a known finding.
-/
import Driver.Common
import Driver.TypeCheckCodec
import Driver.C08Keys
import Driver.C08Bounds
import Parsley.Spec.TypeCheckFrag
import Parsley.Spec.TypeCheckWF
namespace Driver.C08
open Parsley Parsley.TC Driver Driver.TCCodec

def fuel : Nat := 200000

def cfgOf (tag : String) : Fix := if tag == "c08o" || tag == "c09o" then Fix.orig else Fix.tree

def showOutcome : Outcome → String
  | .accept => "accept"
  | .reject k => s!"reject {k.toString}"
  | .panic _ => "panic internal error: entered unreachable code"
  | .outOfFuel => "out-of-fuel"

def model (line : String) : String :=
  match parseCase line with
  | none => "bad-case"
  | some c => showOutcome (checkTypeFuel (cfgOf c.tag) c.g c.ctx fuel c.obj c.chk).1

mutual
partial def hasEmptyDisj : Chk → Bool
  | .disj _ .nil => true
  | .disj _ os => anyEmpty os.chks
  | .array _ e _ => hasEmptyDisj e
  | .het _ es | .dict _ es | .stream _ es => anyEmpty es.chks
  | .dictStar _ es _ sc => anyEmpty es.chks || hasEmptyDisj sc
  | _ => false
partial def anyEmpty : List Chk → Bool
  | [] => false
  | c :: t => hasEmptyDisj c || anyEmpty t
end

/-- the single-repair variants of a configuration (only flags that are off) -/
def repairs (fx : Fix) : List (String × Fix) :=
  [("memo-ignores-attrs", { fx with memoFull := true }), ("any-entry-skips-predicate", { fx with anyAttrs := true }),
   ("any-entry-skips-indirect", { fx with anyInd := true }),
   ("stale-disjunct-index", { fx with staleIdx := true }), ("stale-error-on-skip", { fx with staleErr := true }),
   ("undefined-ref-required", { fx with undefRef := true }), ("compound-pred-ignored", { fx with compoundPred := true }),
   ("named-disjunct", { fx with namedDisj := true }),
   ("disjunct-attrs-dropped", { fx with disjAttrs := true, namedDisj := true }),
   ("ref-cycle-not-null", { fx with refChain := true }), ("memo-leak", { fx with trail := true })].filter
    fun p => p.2 != fx

def verdictOf (o : Outcome) : String :=
  match o with
  | .accept => "accept" | .reject _ => "reject" | .panic _ => "panic" | .outOfFuel => "out-of-fuel"

def classify (c : Case) (want : String) : String :=
  let fx := cfgOf c.tag
  let hit := (repairs fx).find? fun p =>
    verdictOf (checkTypeFuel p.2 c.g c.ctx fuel c.obj c.chk).1 == want
  match hit with
  | some p => p.1
  | none =>
    if verdictOf (checkTypeFuel Fix.all c.g c.ctx fuel c.obj c.chk).1 == want then "multi" else "unclassified"

def judge (line impl : String) : String :=
  match parseCase line with
  | none => "skip"
  | some c =>
    if hasEmptyDisj c.chk || c.ctx.any (fun e => hasEmptyDisj e.2) then "skip" else
    let want := if Spec.gfp c.g c.ctx c.obj c.chk then "accept" else "reject"
    let got := (words impl).headD "?"
    if got == "hang" then "bad nontermination impl=hang" else
    if got.startsWith "crash:" then s!"bad crash impl={got}" else
    if got == want then "ok"
    else if cfgOf c.tag == Fix.tree && Frag.inF1 c.ctx c.chk then
      s!"bad f1-theorem-violated oracle={want} impl={got}"
    else if cfgOf c.tag == Fix.tree && Frag.inF2 c.ctx c.chk then
      s!"bad f2-theorem-violated oracle={want} impl={got}"
    else if cfgOf c.tag == Fix.tree && want == "accept" && Frag.wfSpec c.ctx c.chk then
      s!"bad completeness-theorem-violated oracle={want} impl={got}"
    else s!"bad {classify c want} oracle={want} impl={got}"

def gen (seed n : Nat) (tier : String) (emit : String → IO Unit) : IO Unit := do
  genSmall "c08" (tier == "thorough") emit
  genUnwindSmall "c08" emit
  genNamedKinds "c08" seed emit
  -- key requirement x entry check kind x key state, dictionaries and streams of 1..3 entries, wildcard entries
  C08Keys.genKeys "c08" (tier == "thorough") emit
  -- boundary values of every numeric parameter (array size 0/1/../large, 0..4 positional checks, 0 entries / only a
  -- wildcard entry, 1..4 options, 0..3 choice values) x objects at and around the boundary x every position
  C08Bounds.genBounds "c08" (tier == "thorough") emit
  let mut r := Rng.mk' seed
  for _ in List.range n do
    let (l, r') := genCase "c08" r
    r := r'
    emit l
  for _ in List.range (n / 10) do
    let (l, r') := genCycDisj "c08" r
    r := r'
    emit l
  for _ in List.range (n / 5) do
    let (l, r') := genUnwindWrapped "c08" r
    r := r'
    emit l
  for _ in List.range (n / 5) do
    let (l, r') := C08Keys.genKeysRandom "c08" r
    r := r'
    emit l
  for _ in List.range (n / 5) do
    let (l, r') := C08Bounds.genBoundsRandom "c08" r
    r := r'
    emit l

/-- non-trivial: the specification has a compound node (array/dictionary/stream/disjunction) or the
    object is compound or a reference -/
def nontrivial (line : String) : Bool :=
  match parseCase line with
  | none => false
  | some c =>
    (match c.chk with | .any _ | .prim _ _ => false | _ => true) ||
    (match c.obj with | .arr _ | .dict _ | .stream _ _ _ | .ref _ _ => true | _ => false)

def driver : PropDriver := { gen, model, judge, nontrivial }
end Driver.C08
