/-
  C08 generator family "boundary values of the numeric parameters of the type language" (strengthening after missed
  seed C08_10: in check_type's homogeneous Array arm `match size { Some(sz) => len != sz .., None => () }` became
  `let sz = size.unwrap_or_default(); if sz != 0 && len != sz`, i.e. `size: Some(0)` - the array must be EMPTY -
  behaves like `size: None`; the older generators only ever emitted `size: Some(2)` or `None`).

  The numeric parameters of a PDFType are: the size of a homogeneous Array, the number of positional checks of a
  HetArray, the number of entries of a Dict / Stream (with or without wildcard entry), the number of options of a
  Disjunct, the number of values of a ChoicePred.  Every one of them is taken through {0, 1, 2, .., large} and
  crossed with objects AT and AROUND the boundary (lengths size-1, size, size+1; 0, 1, 2 keys), with conforming and
  non-conforming members, and every such (type, object) pair is reached from every position a check can occur in
  (`wraps`).  The oracle is the declarative `Spec.gfp` (Driver/C08.lean).
  Used by Driver/C08.lean only (kept out of TypeCheckCodec.lean, which C09 and C10 import too).
-/
import Driver.TypeCheckCodec
namespace Driver.C08Bounds
open Parsley Parsley.TC Driver Driver.TCCodec

def pI : Chk := .prim dA .integer
def pN : Chk := .prim dA .name

/-- 1 integer, 2 name /a, 3 self reference, 4 -> 1 (chain), 5 the empty array, 6 a one-element array; 9 is undefined -/
def bGraph : Graph :=
  [((1, 0), .int 1), ((2, 0), nmA), ((3, 0), .ref 3 0), ((4, 0), .ref 1 0), ((5, 0), mkArr []), ((6, 0), mkArr [.int 1])]

def bCtx : Ctx := [("tk", .prim ⟨some (.choice [nmA]), .allowed⟩ .name), ("ta", .any dA), ("tz", .array dA pI (some 0))]

def large : Nat := 1000000007

/-- a check together with a conforming and a non-conforming value -/
structure Elem where
  chk : Chk
  good : Obj
  bad : Obj
deriving Inhabited

def eAny : Elem := ⟨.any dA, .int 1, strS⟩   -- every value conforms: the Any short-cut of the Array arm
def eInt : Elem := ⟨pI, .int 1, strS⟩
def eTk : Elem := ⟨.named "tk", nmA, nmB⟩
/-- the element type is itself an array fixed to size zero -/
def eZero : Elem := ⟨.array dA pI (some 0), mkArr [], mkArr [.int 1]⟩

def elems : List Elem :=
  [eAny, eInt, eTk, eZero,
   ⟨.any ⟨some (.choice [nmA]), .allowed⟩, nmA, nmB⟩,
   ⟨.prim ⟨none, .required⟩ .integer, .ref 1 0, .int 1⟩,
   ⟨.named "ta", .int 1, .ref 9 0⟩,
   ⟨.named "tz", mkArr [], mkArr [.int 1, .int 2]⟩,
   ⟨.disj dA (mkAlts [.prim dA .string, pN]), nmA, .int 1⟩,
   ⟨.array dA pI (some 1), mkArr [.int 1], mkArr []⟩,
   ⟨.dict dA (chkLOfList [(kA, .required, pI)]), .dict (mkDict [(kA, .int 1)]), .dict (mkDict [])⟩]

def sizes : List (Option Nat) := [none, some 0, some 1, some 2, some 3, some 4, some 5, some large]

/-- arrays of length 0..4 of conforming elements, the same with the first / the last element non-conforming, and
    three non-arrays / references (to the empty array, to a one-element array) -/
def arrObjs (e : Elem) : List Obj :=
  ((List.range 5).flatMap fun L =>
    let good := List.replicate L e.good
    [mkArr good] ++ (if L ≥ 1 then [mkArr (e.bad :: good.drop 1)] else [])
      ++ (if L ≥ 2 then [mkArr (good.drop 1 ++ [e.bad])] else []))
  ++ [.int 1, .ref 5 0, .ref 6 0]

abbrev Quad := Ctx × Graph × Chk × Obj

def kX : Bytes := [0x58]

/-- the positions a check can occur in: top level; element of an outer array (unsized / sized exactly / sized one
    short / fixed to size zero); heterogeneous-array slot; behind a name; through a reference; first / later
    alternative of a disjunction; required / optional entry of a dictionary; wildcard entry; stream entry -/
def wraps : List (Quad → Quad) :=
  [id,
   fun (ctx, g, c, o) => (ctx, g, .array dA c none, mkArr [o]),
   fun (ctx, g, c, o) => (ctx, g, .array dA c (some 2), mkArr [o, o]),
   fun (ctx, g, c, o) => (ctx, g, .array dA c (some 1), mkArr [o, o]),
   fun (ctx, g, c, o) => (ctx, g, .array dA c (some 0), mkArr [o]),
   fun (ctx, g, c, o) => (ctx, g, .het dA (mkAlts [pI, c]), mkArr [.int 1, o]),
   fun (ctx, g, c, o) =>
     match c with
     | .named _ => (ctx, g, c, o)
     | _ => let n := s!"w{ctx.length}"; (ctx ++ [(n, c)], g, .named n, o),
   fun (ctx, g, c, o) => let id := 20 + g.length; (ctx, g ++ [((id, 0), o)], c, .ref id 0),
   fun (ctx, g, c, o) => (ctx, g, .disj dA (mkAlts [c, .prim dA .bool]), o),
   fun (ctx, g, c, o) => (ctx, g, .disj dA (mkAlts [.prim dA .bool, c]), o),
   fun (ctx, g, c, o) => (ctx, g, .dict dA (chkLOfList [(kX, .required, c)]), .dict (mkDict [(kX, o)])),
   fun (ctx, g, c, o) =>
     (ctx, g, .dict dA (chkLOfList [(kA, .optional, pI), (kX, .optional, c)]), .dict (mkDict [(kX, o)])),
   fun (ctx, g, c, o) => (ctx, g, .dictStar dA .nil .optional c, .dict (mkDict [(kX, o)])),
   fun (ctx, g, c, o) => (ctx, g, .stream dA (chkLOfList [(kX, .required, c)]), .stream (mkDict [(kX, o)]) 0 [])]

def lineOf (tag : String) (q : Quad) : String := sCase tag q.1 q.2.1 q.2.2.1 q.2.2.2

def emitAll (tag : String) (ws : List (Quad → Quad)) (c : Chk) (o : Obj) (emit : String → IO Unit) : IO Unit := do
  for w in ws do
    emit (lineOf tag (w (bCtx, bGraph, c, o)))

/-! ### homogeneous arrays: size x length x element kind -/

def genArrays (tag : String) (full : Bool) (emit : String → IO Unit) : IO Unit := do
  for e in elems do
    for s in sizes do
      for o in arrObjs e do
        emit (lineOf tag (bCtx, bGraph, .array dA e.chk s, o))
  for e in (if full then elems else elems.take 4) do
    for s in sizes do
      for o in arrObjs e do
        emitAll tag (wraps.drop 1) (.array dA e.chk s) o emit

/-! ### heterogeneous arrays: 0..4 positional checks x lengths 0..5 -/

def hetMenu : List Elem := [eInt, eTk, eAny, eZero]

def genHets (tag : String) (emit : String → IO Unit) : IO Unit := do
  for n in List.range 5 do
    let es := hetMenu.take n
    let c : Chk := .het dA (mkAlts (es.map (·.chk)))
    for L in List.range 6 do
      let vals : List Obj := (List.range L).map fun i => match es[i]? with | some e => e.good | none => .int 1
      emitAll tag wraps c (mkArr vals) emit
      for i in List.range (min L n) do
        let vals' : List Obj := (List.range L).map fun j =>
          match es[j]? with | some e => if j == i then e.bad else e.good | none => .int 1
        emitAll tag wraps c (mkArr vals') emit
    emitAll tag wraps c (.int 1) emit
    emitAll tag wraps c (.ref 5 0) emit

/-! ### dictionaries / streams with no entry, dictionaries with only a wildcard entry -/

def genEmptyDicts (tag : String) (emit : String → IO Unit) : IO Unit := do
  let cs : List (Chk × Elem) :=
    [(.dict dA .nil, eAny), (.stream dA .nil, eAny)] ++
    ([KeySpec.required, .optional, .forbidden].flatMap fun q =>
      [eInt, eAny, eTk, eZero].map fun e => (Chk.dictStar dA .nil q e.chk, e))
  for (c, e) in cs do
    let kvss : List (List (Bytes × Obj)) :=
      [[], [(kA, e.good)], [(kA, e.bad)], [(kA, e.good), (kB, e.good)], [(kA, e.good), (kB, e.bad)], [(kA, e.bad), (kB, e.good)]]
    for kvs in kvss do
      emitAll tag wraps c (.dict (mkDict kvs)) emit
    for kvs in kvss.take 3 do
      emitAll tag wraps c (.stream (mkDict kvs) 0 []) emit
    emitAll tag wraps c (.int 1) emit
    emitAll tag wraps c (mkArr []) emit

/-! ### disjunctions of 1..4 options; the options are arrays fixed to different sizes (0 included) -/

def genDisjs (tag : String) (emit : String → IO Unit) : IO Unit := do
  let a (s : Option Nat) : Chk := .array dA pI s
  let ds : List (List Chk) :=
    [[a (some 0)], [a (some 1)], [a none], [pI], [a (some 0), a (some 1)], [a (some 1), a (some 0)],
     [a (some 0), a (some 2)], [a (some 2), a (some 0)], [a (some 0), pI], [pI, a (some 0)],
     [a (some 0), a (some 1), a (some 2)], [a (some 2), a (some 1), a (some 0)],
     [a (some 3), a (some 2), a (some 1), a (some 0)], [pN, a (some 0), pI, a (some 2)], [.named "tz", pN], [pN, .named "tz"]]
  let os : List Obj :=
    ((List.range 5).map fun L => mkArr (List.replicate L (.int 1))) ++
    [mkArr [strS], mkArr [.int 1, strS], mkArr [strS, .int 1, .int 1], .int 1, nmA, strS, .ref 5 0, .ref 6 0]
  for d in ds do
    for o in os do
      emitAll tag wraps (.disj dA (mkAlts d)) o emit

/-! ### choice predicates of 0 / 1 / 2 / 3 values -/

def genChoices (tag : String) (emit : String → IO Unit) : IO Unit := do
  let vss : List (List Obj) := [[], [.int 0], [.int 1], [.int 1, .int 2], [.int 0, nmA, .int 2]]
  for vs in vss do
    for c in [Chk.prim ⟨some (.choice vs), .allowed⟩ .integer, .any ⟨some (.choice vs), .allowed⟩] do
      for o in [Obj.int 0, .int 1, .int 2, .int 3, .int (-1), nmA, .null, .ref 1 0, .ref 9 0] do
        emitAll tag wraps c o emit

/-- EXHAUSTIVE part -/
def genBounds (tag : String) (full : Bool) (emit : String → IO Unit) : IO Unit := do
  genArrays tag full emit
  genHets tag emit
  genEmptyDicts tag emit
  genDisjs tag emit
  genChoices tag emit

/-- RANDOM: a sized array (random size, element kind, object) under TWO random positions composed -/
def genBoundsRandom (tag : String) (r : Rng) : String × Rng :=
  let (e, r) := r.pick elems
  let (s, r) := r.pick sizes
  let (o, r) := r.pick (arrObjs e)
  let (w1, r) := r.pick wraps
  let (w2, r) := r.pick wraps
  (lineOf tag (w2 (w1 (bCtx, bGraph, .array dA e.chk s, o))), r)

end Driver.C08Bounds
