/-
  C08 generator family "key requirement x entry check kind x key state" (strengthening after missed seed C08_6:
  the arm `(Some(_), _, Any) if unconstrained => continue` of check_type's dictionary loop moved above the
  `(Some(_), Forbidden, _) => ForbiddenKey` arm; the older generators never PRESENTED a forbidden key - `fit`
  leaves forbidden keys out, the exhaustive menu had no forbidden entry).

  One ENTRY of a dictionary / stream type is a triple
      requirement {required, optional, forbidden}
    x kind of its check (10: Any unconstrained, Any with a predicate, Any with indirect required / forbidden,
                         primitive, array, nested dictionary, disjunction, named type, named type that resolves to
                         an unconstrained Any)
    x state of its key in the object {present with a conforming value, present with a non-conforming value,
                                      present with a reference, absent}
  = 120 entries.  The families below enumerate dictionaries AND streams of 1..3 such entries and dictionaries with
  a wildcard (star) entry of every requirement x kind against 0..2 unspecified keys.  The oracle is the
  declarative `Spec.gfp` (Driver/C08.lean): a present forbidden key never conforms, whatever its check.
  Used by Driver/C08.lean only (kept out of TypeCheckCodec.lean, which C09 and C10 import too).
-/
import Driver.TypeCheckCodec
namespace Driver.C08Keys
open Parsley Parsley.TC Driver Driver.TCCodec

/-- 1 integer, 2 name /a, 3 self reference, 4 -> 1 (chain), 5 array, 6 dictionary, 7 string; 9 is undefined -/
def kGraph : Graph :=
  [((1, 0), .int 1), ((2, 0), nmA), ((3, 0), .ref 3 0), ((4, 0), .ref 1 0), ((5, 0), mkArr [.int 1, .int 2]),
   ((6, 0), .dict (mkDict [(kA, .int 1)])), ((7, 0), strS)]

def kCtx : Ctx := [("tk", .prim ⟨some (.choice [nmA]), .allowed⟩ .name), ("ta", .any dA)]

structure Kind where
  chk : Chk
  good : Obj
  bad : Obj
  refv : Obj
deriving Inhabited

def pI : Chk := .prim dA .integer

def kinds : List Kind :=
  [⟨.any dA, .int 1, .ref 9 0, .ref 1 0⟩,
   ⟨.any ⟨some (.choice [nmA]), .allowed⟩, nmA, nmB, .ref 2 0⟩,
   ⟨.any ⟨none, .required⟩, .ref 1 0, .int 1, .ref 4 0⟩,
   ⟨.any ⟨none, .forbidden⟩, .int 1, .ref 1 0, .ref 3 0⟩,
   ⟨pI, .int 1, strS, .ref 1 0⟩,
   ⟨.array dA pI none, mkArr [.int 1, .int 2], mkArr [.int 1, strS], .ref 5 0⟩,
   ⟨.dict dA (chkLOfList [(kA, .required, pI)]), .dict (mkDict [(kA, .int 1)]), .dict (mkDict [(kA, strS)]), .ref 6 0⟩,
   ⟨.disj dA (mkAlts [.prim dA .string, .prim dA .name]), nmA, .int 1, .ref 2 0⟩,
   ⟨.named "tk", nmA, nmB, .ref 2 0⟩,
   ⟨.named "ta", .int 1, .ref 9 0, .ref 1 0⟩]

def kAnyU : Kind := kinds.getD 0 default
def kAnyP : Kind := kinds.getD 1 default
def kPrim : Kind := kinds.getD 4 default

def reqs : List KeySpec := [.required, .optional, .forbidden]

/-- key state: 0 conforming value, 1 non-conforming value, 2 reference, 3 absent -/
def stateVal (k : Kind) : Nat → Option Obj
  | 0 => some k.good
  | 1 => some k.bad
  | 2 => some k.refv
  | _ => none

structure Ent where
  req : KeySpec
  kind : Kind
  state : Nat
deriving Inhabited

/-- all 120 entries -/
def allEnts : List Ent :=
  reqs.flatMap fun q => kinds.flatMap fun k => [0, 1, 2, 3].map fun s => ⟨q, k, s⟩

def specKeys : List Bytes := [kA, kB, kC, [0x44]]
/-- unspecified keys: one sorting after, one sorting before the specified ones -/
def freeKeys : List Bytes := [[0x5a], [0x30]]

/-- the specification and the object of a dictionary (`strm = false`) / stream type with the entries `es`
    (keys A, B, C in this order) and, for a dictionary, an optional wildcard entry with one unspecified key
    per listed state -/
def build (strm : Bool) (es : List Ent) (star : Option (KeySpec × Kind × List Nat)) : Chk × Obj :=
  let ents : List (Bytes × KeySpec × Chk) := (specKeys.zip es).map fun p => (p.1, p.2.req, p.2.kind.chk)
  let kvs : List (Bytes × Obj) := (specKeys.zip es).filterMap fun p =>
    (stateVal p.2.kind p.2.state).map fun v => (p.1, v)
  if strm then (.stream dA (chkLOfList ents), .stream (mkDict kvs) 0 [])
  else
    match star with
    | none => (.dict dA (chkLOfList ents), .dict (mkDict kvs))
    | some (q, k, sts) =>
      let extra : List (Bytes × Obj) := (freeKeys.zip sts).filterMap fun p => (stateVal k p.2).map fun v => (p.1, v)
      (.dictStar dA (chkLOfList ents) q k.chk, .dict (mkDict (kvs ++ extra)))

def line (tag : String) (strm : Bool) (es : List Ent) (star : Option (KeySpec × Kind × List Nat)) : String :=
  let (c, o) := build strm es star
  sCase tag kCtx kGraph c o

/-- the second entry of the two-entry enumeration in the quick tier -/
def fillers : List Ent :=
  [⟨.required, kPrim, 0⟩, ⟨.required, kPrim, 1⟩, ⟨.required, kPrim, 3⟩, ⟨.forbidden, kPrim, 0⟩,
   ⟨.forbidden, kAnyU, 0⟩, ⟨.forbidden, kAnyU, 3⟩, ⟨.optional, kAnyU, 0⟩, ⟨.optional, kAnyP, 1⟩]

/-- the two other entries of the three-entry enumeration -/
def fillerPairs : List (Ent × Ent) :=
  [(⟨.required, kPrim, 0⟩, ⟨.required, kPrim, 0⟩), (⟨.forbidden, kAnyU, 3⟩, ⟨.optional, kAnyU, 0⟩),
   (⟨.forbidden, kAnyU, 0⟩, ⟨.required, kPrim, 0⟩), (⟨.optional, kPrim, 3⟩, ⟨.required, kPrim, 1⟩)]

/-- the specified entries beside the wildcard entry -/
def starSpecified : List (List Ent) :=
  [[], [⟨.forbidden, kAnyU, 3⟩], [⟨.forbidden, kAnyU, 0⟩], [⟨.required, kPrim, 0⟩], [⟨.optional, kAnyU, 0⟩, ⟨.required, kPrim, 3⟩]]

/-- EXHAUSTIVE: dictionaries and streams of one entry (every entry); of two entries (every entry beside each of 8
    fillers, in both orders; `full`: every entry beside every entry); of three entries (every entry at each of the
    three positions beside 4 filler pairs); dictionaries with a wildcard entry of every requirement x kind x
    (no unspecified key, one unspecified key in each of the three present states, two unspecified keys: a conforming
    one before / after a key in each state) beside 5 lists of specified entries -/
def genKeys (tag : String) (full : Bool) (emit : String → IO Unit) : IO Unit := do
  for strm in [false, true] do
    for e in allEnts do
      emit (line tag strm [e] none)
    for e in allEnts do
      if full then
        for f in allEnts do
          emit (line tag strm [e, f] none)
      else
        for f in fillers do
          emit (line tag strm [e, f] none)
          emit (line tag strm [f, e] none)
    for e in allEnts do
      for p in fillerPairs do
        emit (line tag strm [e, p.1, p.2] none)
        emit (line tag strm [p.1, e, p.2] none)
        emit (line tag strm [p.1, p.2, e] none)
  for q in reqs do
    for k in kinds do
      for sts in [[3], [0], [1], [2], [0, 0], [0, 1], [0, 2], [1, 0], [2, 0]] do
        for sp in starSpecified do
          emit (line tag false sp (some (q, k, sts)))

/-- RANDOM: a dictionary / stream type of 1..3 entries drawn from the 120 (dictionaries: a wildcard entry one time
    in three), reached from every position a check can occur in: top level, entry of an outer dictionary
    (required / optional), array element, heterogeneous-array element, behind a name, alternative of a
    disjunction, through a reference to an indirect object -/
def genKeysRandom (tag : String) (r : Rng) : String × Rng :=
  let (n, r) := r.nat 3
  let (es, r) := (List.range (n + 1)).foldl (fun (acc : List Ent × Rng) _ =>
    let (e, r) := acc.2.pick allEnts; (e :: acc.1, r)) ([], r)
  let (s, r) := r.nat 2
  let strm := s == 1
  let (st, r) := r.nat 3
  let (q, r) := r.pick reqs
  let (k, r) := r.pick kinds
  let (s1, r) := r.nat 4
  let (s2, r) := r.nat 4
  let star := if st == 0 && !strm then some (q, k, [s1, s2]) else none
  let (c, o) := build strm es star
  let (w, r) := r.nat 8
  let kX : Bytes := [0x58]
  let g8 : Graph := kGraph ++ [((8, 0), o)]
  let (ctx, g, c', o') : Ctx × Graph × Chk × Obj :=
    match w with
    | 0 => (kCtx, kGraph, c, o)
    | 1 => (kCtx, kGraph, .dict dA (chkLOfList [(kX, .required, c), (kA, .forbidden, .any dA)]), .dict (mkDict [(kX, o)]))
    | 2 => (kCtx, kGraph, .dict dA (chkLOfList [(kA, .forbidden, .any dA), (kX, .optional, c)]), .dict (mkDict [(kX, o)]))
    | 3 => (kCtx, kGraph, .array dA c none, mkArr [o, o])
    | 4 => (kCtx, kGraph, .het dA (mkAlts [pI, c]), mkArr [.int 1, o])
    | 5 => (kCtx ++ [("kd", c)], kGraph, .named "kd", o)
    | 6 => (kCtx, kGraph, .disj dA (mkAlts [.prim dA .bool, c]), o)
    | _ => (kCtx, g8, c, .ref 8 0)
  (sCase tag ctx g c' o', r)

end Driver.C08Keys
