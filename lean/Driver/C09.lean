/-
  C09 driver.  Output line (model and harness): `<verdict> steps=<work-loop iterations> rerun=same`.
  model : Model/TypeCheck.lean in the tree configuration, with its own iteration counter (the harness
          reports the `verif` hook counter of the real check_type: they must be EQUAL).
  judge : independent of the machine: verdict must be accept/reject (no crash, no panic, no hang marker),
          the second run must repeat the first, and the step count must not exceed the PROVED bound
          `Term.workBound` of Spec/WorkBound.lean (theorem Parsley.C09.machine_work_bound), computed from
          the case alone: costA * |objects| * |queued forms of spec nodes| + Wc + 5.
  `chain n lin|cyc` : n indirect dictionaries linked by /Next (cyc: the last points back to the first)
          against the recursive named type node = dict{Next : optional node}; the harness runs it in a
          256 KiB-stack thread.  `bigchain` (n = 10^5) is too large for the list-based model memo: the model
          prints the closed form 2n+1 (lin) / 2n+3 (cyc) that the `chain` cases confirm for small n.
-/
import Driver.Common
import Driver.TypeCheckCodec
import Driver.C08
import Parsley.Spec.WorkBound
namespace Driver.C09
open Parsley Parsley.TC Driver Driver.TCCodec

def nextK : Bytes := [0x4e, 0x65, 0x78, 0x74]

def chainCase (n : Nat) (cyc : Bool) : Case :=
  let node : Chk := .dict Attr.dflt (.cons nextK .optional (.named "node") .nil)
  let g : Graph := (List.range n).map fun j =>
    let i := j + 1
    ((i, 0), if i < n then Obj.dict (.cons nextK (.ref (i + 1) 0) .nil)
             else if cyc then Obj.dict (.cons nextK (.ref 1 0) .nil) else Obj.dict .nil)
  ⟨"c09", [("node", node)], g, .named "node", .ref 1 0⟩

def parse (line : String) : Option (Case × Option (Nat × Bool)) :=
  match words line with
  | ["chain", n, k] => some (chainCase n.toNat! (k == "cyc"), none)
  | ["bigchain", n, k] => some (chainCase n.toNat! (k == "cyc"), some (n.toNat!, k == "cyc"))
  | _ => (parseCase line).map fun c => (c, none)

def model (line : String) : String :=
  match parse line with
  | none => "bad-case"
  | some (_, some (n, cyc)) => s!"accept steps={2 * n + (if cyc then 3 else 1)} rerun=same"
  | some (c, none) =>
    let r := checkTypeFuel (C08.cfgOf c.tag) c.g c.ctx 4000000 c.obj c.chk
    s!"{C08.showOutcome r.1} steps={r.2} rerun=same"

/-- the proved work bound for the case (Spec/WorkBound.lean) -/
def bound (c : Case) : Nat := Term.workBound (C08.cfgOf c.tag) c.g c.ctx c.obj c.chk

def field (impl : String) (key : String) : Option String :=
  (words impl).findSome? fun w => if w.startsWith key then some ((w.drop key.length).toString) else none

def judge (line impl : String) : String :=
  match parse line with
  | none => "skip"
  | some (c, big) =>
    if C08.hasEmptyDisj c.chk || c.ctx.any (fun e => C08.hasEmptyDisj e.2) then "skip" else
    let v := (words impl).headD "?"
    if v == "hang" then "bad nontermination impl=hang" else
    if v.startsWith "crash:" then s!"bad crash impl={v}" else
    if v != "accept" && v != "reject" then s!"bad no-verdict impl={v}" else
    if field impl "rerun=" != some "same" then "bad nondeterministic" else
    match (field impl "steps=").bind String.toNat? with
    | none => "bad no-step-count"
    | some s =>
      let b := bound c
      if s ≤ b then "ok" else s!"bad work-bound steps={s} bound={b}"

/-- graphs with back edges: a random graph over ids 1..4 where every object may refer to every id -/
def gen (seed n : Nat) (tier : String) (emit : String → IO Unit) : IO Unit := do
  for k in ["lin", "cyc"] do
    for m in [1, 2, 3, 10, 100, 400] do
      emit s!"chain {m} {k}"
    emit s!"bigchain 100000 {k}"
  if tier == "thorough" then
    emit "chain 1500 lin"; emit "chain 1500 cyc"
  genSmall "c09" false emit
  let mut r := Rng.mk' (seed + 77)
  for _ in List.range n do
    let (l, r') := genCase "c09" r
    r := r'
    emit l
  for _ in List.range (n / 5) do
    let (l, r') := genCycDisj "c09" r
    r := r'
    emit l

/-- non-trivial: the graph has a reference cycle or the specification is recursive (uses a name) -/
def nontrivial (line : String) : Bool :=
  match parse line with
  | none => false
  | some (c, big) =>
    big.isSome || !c.ctx.isEmpty ||
      c.g.any (fun d => Spec.value c.g d.2 == .null && d.2.isRef)

def driver : PropDriver := { gen, model, judge, nontrivial }
end Driver.C09
