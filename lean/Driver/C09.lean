/-
  C09 driver.  Output line (model and harness): `<verdict> steps=<work-loop iterations> rerun=same`.
  model : Model/TypeCheck.lean in the tree configuration, with its own iteration counter (the harness
          reports the `verif` hook counter of the real check_type: they must be EQUAL).
  judge : independent of the machine: verdict must be accept/reject (no crash, no panic, no hang marker),
          the second run must repeat the first, and the step count must not exceed the PROVED bound
          `Term.workBound` of Spec/WorkBound.lean (theorem Parsley.C09.machine_work_bound), computed from
          the case alone: costA * |objects| * |queued forms of spec nodes| + Wc + 5.
  `dchain n arr|dict|dis` / `bigdchain` : the same kind of chain (arrays, dictionaries, arrays through a
          disjunctive edge) whose LAST element is ill-typed: the verdict is reject and `unwind` discards all n
          pending sets at once (arr, dict) -- a recursive unwind overflows the small stack.
  `chain n lin|cyc` : n indirect dictionaries linked by /Next (cyc: the last points back to the first)
          against the recursive named type node = dict{Next : optional node}; the harness runs it in a
          256 KiB-stack thread.  `bigchain` (n = 10^5) is too large for the list-based model memo: the model
          prints the closed form 2n+1 (lin) / 2n+3 (cyc) that the `chain` cases confirm for small n.
  `achain n int|cyc|self` / `bigachain` : n alias names a1 = [a2], ..., one-option disjunctions of a name, ending in
          Integer / back at a1 / in a self alias, checked from `n a1` on the integer 1 in the 256 KiB-stack thread
          (call depth must not grow with the number of names followed); closed form n+1 / n+2 / n+1 (n >= 2).
          Plain case lines with such alias definitions (Driver/C09Alias.lean): the verdict is also compared with
          the declarative oracle `Spec.gfp` (greatest fixed point: an alias cycle is satisfied by every object)
          inside the fragments F1/F2 and for completeness, as in Driver/C09Seq.lean.
  Recursive types whose recursion node is a NON-disjunct container carrying a REFINEMENT PREDICATE, on cyclic graphs
          (Driver/C09Pred.lean; plain case lines): terminates within the work bound, same on re-run, verdict also compared
          with `Spec.gfp` as for the alias family.  A `hang` / `timeout` answer of the harness is judged bad.
  `seq ...` : a SEQUENCE of checks on one type-check context and one object context: format, model and judge are in
          Driver/C09Seq.lean ("returns the same verdict every time it is run": no dependence on earlier checks).
-/
import Driver.Common
import Driver.TypeCheckCodec
import Driver.C08
import Driver.C09Seq
import Driver.C09Alias
import Driver.C09Pred
import Parsley.Spec.WorkBound
namespace Driver.C09
open Parsley Parsley.TC Driver Driver.TCCodec

def nextK : Bytes := [0x4e, 0x65, 0x78, 0x74]

def chainCase (n : Nat) (cyc : Bool) : Case :=
  let node : Chk := .dict Attr.dflt (.cons nextK .optional (.named "node") .nil)
  let g : Graph := (List.range n).map fun j =>
    let i := j + 1
    ((i, 0), if i < n then Obj.dict (.cons nextK (.ref (i + 1) 0) .nil)
             else if cyc then Obj.dict (.cons nextK (.ref 1 0) .nil) else Obj.dict .nil)
  ⟨"c09", [("node", node)], g, .named "node", .ref 1 0⟩

/-- deep chains whose LAST element is ill-typed (verdict: reject; every pending set is discarded at once
    by `unwind` when no in-progress disjunct is above the failure).  n indirect containers
      arr : i 0 obj [ (i+1) 0 R ]            against  t = [ t* ]                 last: n 0 obj 7
      dict: i 0 obj << /Next (i+1) 0 R >>    against  node = << /Next node? >>   last: << /Next 7 >>
      dis : i 0 obj [ (i+1) 0 R ]            against  t = [ (leaf | t)* ], leaf = Name   last: n 0 obj 7 -/
def dchainCase (n : Nat) (shape : String) : Case :=
  if shape == "dict" then
    let node : Chk := .dict Attr.dflt (.cons nextK .optional (.named "node") .nil)
    let g : Graph := (List.range n).map fun j =>
      let i := j + 1
      ((i, 0), Obj.dict (.cons nextK (if i < n then .ref (i + 1) 0 else .int 7) .nil))
    ⟨"c09", [("node", node)], g, .named "node", .ref 1 0⟩
  else
    let elem : Chk := if shape == "dis" then .disj Attr.dflt (mkAlts [.named "leaf", .named "t"]) else .named "t"
    let t : Chk := .array Attr.dflt elem none
    let g : Graph := (List.range n).map fun j =>
      let i := j + 1
      ((i, 0), if i < n then mkArr [.ref (i + 1) 0] else Obj.int 7)
    ⟨"c09", [("t", t), ("leaf", .prim Attr.dflt .name)], g, .named "t", .ref 1 0⟩

/-- n alias names a1 = [a2], ..., a(n-1) = [an]; an = [z] with z = Integer (int) | [a1] (cyc) | [an] (self) -/
def achainCase (n : Nat) (k : String) : Case :=
  let link (t : String) : Chk := .disj Attr.dflt (mkAlts [.named t])
  let defs : Ctx := (List.range n).map fun j =>
    let i := j + 1
    (s!"a{i}", link (if i < n then s!"a{i + 1}" else if k == "cyc" then "a1" else if k == "self" then s!"a{n}" else "z"))
  ⟨"c09", defs ++ [("z", .prim Attr.dflt .integer)], [], .named "a1", .int 1⟩

/-- closed forms of the model's output for the 10^5-link cases (the list-based memo of the model is
    quadratic); each is confirmed by the `chain` / `dchain` cases for small n, which the model runs, and
    by the correspondence with the real counter on the big case itself -/
def closedForm (kind : String) (n : Nat) (k : String) : String :=
  if kind == "bigachain" then s!"accept steps={n + (if k == "cyc" || n == 1 then 2 else 1)} rerun=same"
  else if kind == "bigchain" then s!"accept steps={2 * n + (if k == "cyc" then 3 else 1)} rerun=same"
  else if k == "dict" then s!"reject typemismatch steps={2 * n + 2} rerun=same"
  else if k == "arr" then s!"reject typemismatch steps={2 * n + 1} rerun=same"
  else s!"reject typemismatch steps={4 * n - 1} rerun=same"

def parse (line : String) : Option (Case × Option String) :=
  match words line with
  | ["chain", n, k] => some (chainCase n.toNat! (k == "cyc"), none)
  | ["bigchain", n, k] => some (chainCase n.toNat! (k == "cyc"), some (closedForm "bigchain" n.toNat! k))
  | ["dchain", n, k] => some (dchainCase n.toNat! k, none)
  | ["bigdchain", n, k] => some (dchainCase n.toNat! k, some (closedForm "bigdchain" n.toNat! k))
  | ["achain", n, k] => some (achainCase n.toNat! k, none)
  | ["bigachain", n, k] => some (achainCase n.toNat! k, some (closedForm "bigachain" n.toNat! k))
  | _ => (parseCase line).map fun c => (c, none)

def model (line : String) : String :=
  if C09Seq.isSeq line then C09Seq.model line else
  match parse line with
  | none => "bad-case"
  | some (_, some out) => out
  | some (c, none) =>
    let r := checkTypeFuel (C08.cfgOf c.tag) c.g c.ctx 4000000 c.obj c.chk
    s!"{C08.showOutcome r.1} steps={r.2} rerun=same"

/-- the proved work bound for the case (Spec/WorkBound.lean) -/
def bound (c : Case) : Nat := Term.workBound (C08.cfgOf c.tag) c.g c.ctx c.obj c.chk

def field (impl : String) (key : String) : Option String :=
  (words impl).findSome? fun w => if w.startsWith key then some ((w.drop key.length).toString) else none

def judge (line impl : String) : String :=
  if C09Seq.isSeq line then C09Seq.judge line impl else
  match parse line with
  | none => "skip"
  | some (c, big) =>
    if C08.hasEmptyDisj c.chk || c.ctx.any (fun e => C08.hasEmptyDisj e.2) then "skip" else
    let v := (words impl).headD "?"
    if v == "hang" then "bad nontermination impl=hang" else
    if v == "timeout" then "bad timeout impl=timeout" else
    if v.startsWith "crash:" then s!"bad crash impl={v}" else
    if v != "accept" && v != "reject" then s!"bad no-verdict impl={v}" else
    if field impl "rerun=" != some "same" then "bad nondeterministic" else
    match (field impl "steps=").bind String.toNat? with
    | none => "bad no-step-count"
    | some s =>
      let b := bound c
      if s > b then s!"bad work-bound steps={s} bound={b}" else
      -- alias family: the verdict against the declarative oracle, where a theorem of C08 says they agree
      -- (the table oracle is cubic in the number of names: contexts of at most 8 definitions)
      if big.isNone && c.ctx.length ≤ 8 &&
          c.ctx.any (fun e => C09Alias.isAliasDef e.2 || C09Pred.isPredRecDef e.2) then
        let want := if Spec.gfp c.g c.ctx c.obj c.chk then "accept" else "reject"
        if v == want then "ok"
        else if Frag.inF1 c.ctx c.chk then s!"bad alias-verdict theorem=F1 oracle={want} impl={v}"
        else if Frag.inF2 c.ctx c.chk then s!"bad alias-verdict theorem=F2 oracle={want} impl={v}"
        else if want == "accept" && Frag.wfSpec c.ctx c.chk then
          s!"bad alias-verdict theorem=completeness oracle={want} impl={v}"
        else "ok"
      else "ok"

/-- graphs with back edges: a random graph over ids 1..4 where every object may refer to every id -/
def gen (seed n : Nat) (tier : String) (emit : String → IO Unit) : IO Unit := do
  for k in ["lin", "cyc"] do
    for m in [1, 2, 3, 10, 100, 400] do
      emit s!"chain {m} {k}"
    emit s!"bigchain 100000 {k}"
  -- deep chains with an ill-typed last element: reject, and no crash when every pending set is discarded
  for k in ["arr", "dict", "dis"] do
    for m in [1, 2, 3, 10, 100, 400] do
      emit s!"dchain {m} {k}"
    emit s!"bigdchain 100000 {k}"
  if tier == "thorough" then
    emit "chain 1500 lin"; emit "chain 1500 cyc"
  -- alias chains and alias cycles (names and one-option disjunctions only), small stack
  for k in ["int", "cyc", "self"] do
    for m in [1, 2, 3, 10, 50, 400] do
      emit s!"achain {m} {k}"
    emit s!"bigachain 1000 {k}"
    emit s!"bigachain 10000 {k}"
  genSmall "c09" false emit
  -- lasso chains of references: ids 1..t lead into a cycle t+1 -> ... -> t+c -> t+1 of objects whose
  -- values are references; entered at the top, through an array element and through a dictionary entry
  for t in [1, 2, 5] do
    for c in [1, 2, 3] do
      let g : Graph := (List.range (t + c)).map fun j =>
        let i := j + 1
        ((i, 0), Obj.ref (if i < t + c then i + 1 else t + 1) 0)
      for chk in [Chk.prim Attr.dflt .integer, .any Attr.dflt, .prim ⟨none, .required⟩ .name] do
        emit (sCase "c09" [] g chk (.ref 1 0))
        emit (sCase "c09" [] g (.array Attr.dflt chk none) (mkArr [.int 1, .ref 1 0]))
        emit (sCase "c09" [] g (.dict Attr.dflt (chkLOfList [(nextK, .required, chk)])) (.dict (mkDict [(nextK, .ref 1 0)])))
  let mut r := Rng.mk' (seed + 77)
  for _ in List.range n do
    let (l, r') := genCase "c09" r
    r := r'
    emit l
  for _ in List.range (n / 5) do
    let (l, r') := genCycDisj "c09" r
    r := r'
    emit l
  -- alias cycles / chains reached through every position of a Named check (Driver/C09Alias.lean)
  C09Alias.gen seed n tier emit
  -- recursive types whose recursion node carries a refinement predicate, on cyclic graphs (Driver/C09Pred.lean)
  C09Pred.gen seed n tier emit
  -- sequences of 2..4 checks on ONE type-check context and one object context (Driver/C09Seq.lean)
  C09Seq.gen seed n tier emit

/-- non-trivial: the graph has a reference cycle or the specification is recursive (uses a name) -/
def nontrivial (line : String) : Bool :=
  if C09Seq.isSeq line then C09Seq.nontrivial line else
  match parse line with
  | none => false
  | some (c, big) =>
    big.isSome || !c.ctx.isEmpty ||
      c.g.any (fun d => Spec.value c.g d.2 == .null && d.2.isRef)

def driver : PropDriver := { gen, model, judge, nontrivial }
end Driver.C09
