/-
  C09: ALIAS CYCLES AND ALIAS CHAINS (seed C09_10).  Specification cycles made only of NAMES and ONE-OPTION
  DISJUNCTIONS: `a = Disjunct[Named b]`, `b = Disjunct[Named a]`, `a = Disjunct[Named a]`, and long chains
  a0 = [a1], a1 = [a2], ... ending in a real type, a recursive type, a dangling name or a cycle (lasso).
  A one-option disjunction without predicate and with indirect objects allowed is equivalent to its option, so
  an implementation may be tempted to treat it as an alias and follow names outside the examined-set mechanism:
  a cycle of such names then never ends (stack overflow), and a long chain grows the call stack.
  Plain case lines (format of Driver/TypeCheckCodec.lean): the model, the harness and the replay need nothing new.
    shape   : `len` alias names a0..a(len-1); a(i) = link -> a(i+1); the last link goes to
              z = Integer (registered) | an anonymous Integer option | z = << /B a0 ? /A Integer ? >> (recursive through
              the whole chain) | an unregistered name | back to a(len-k) (k = len: a cycle; k = 1: self alias at the end)
    link    : one option (the alias) | two options (other: String) | the same option twice | predicate `always` |
              predicate choice{1, /a} | indirect required | indirect forbidden; applied to all links / the last / the first
    position: the name a0 is reached at the top, as first / second disjunct alternative, array element, het-array
              position, dictionary entry, star entry, stream entry, through another registered type
    object  : scalars, references to scalars, a reference that refers to itself, a lasso of references, an array that
              contains itself, a dictionary whose /B entry is itself, an undefined reference
  Expected (declarative reading = GREATEST fixed point, Spec/Conforms.lean): a cycle of aliases is satisfied by every
  object (no finite unfolding refutes it); the machine accepts at once because the examined set cuts the cycle.
-/
import Driver.Common
import Driver.TypeCheckCodec
namespace Driver.C09Alias
open Parsley Parsley.TC Driver Driver.TCCodec

inductive Link where
  | alias | two | same | predT | predC | req | forb
  deriving BEq, Repr, Inhabited

def mkLink (l : Link) (t : Chk) : Chk :=
  match l with
  | .alias => .disj dA (mkAlts [t])
  | .two => .disj dA (mkAlts [t, uS])
  | .same => .disj dA (mkAlts [t, t])
  | .predT => .disj ⟨some .always, .allowed⟩ (mkAlts [t])
  | .predC => .disj ⟨some (.choice [.int 1, nmA]), .allowed⟩ (mkAlts [t])
  | .req => .disj ⟨none, .required⟩ (mkAlts [t])
  | .forb => .disj ⟨none, .forbidden⟩ (mkAlts [t])

inductive End where
  | named | direct | recur | dangling | back (k : Nat)
  deriving BEq, Repr, Inhabited

def nm (i : Nat) : String := s!"a{i}"

def recT : Chk := .dict dA (chkLOfList [(kB, .optional, .named "a0"), (kA, .optional, uI)])

/-- the context of a shape: `links i` is the link variant of the i-th alias -/
def shapeCtx (len : Nat) (e : End) (links : Nat → Link) : Ctx :=
  let target (i : Nat) : Chk :=
    if i + 1 < len then .named (nm (i + 1)) else
    match e with
    | .named | .recur => .named "z"
    | .direct => uI
    | .dangling => .named "nowhere"
    | .back k => .named (nm (len - k))
  let defs : Ctx := (List.range len).map fun i => (nm i, mkLink (links i) (target i))
  let z : Ctx := match e with
    | .named => [("z", uI)]
    | .recur => [("z", recT)]
    | _ => []
  defs ++ z ++ [("via", .dict dA (chkLOfList [(kC, .required, .named "a0")]))]

/-- positions from which a0 is referenced, each with the object wrapper that reaches it -/
def positions : List (Chk × (Obj → Obj)) :=
  let t : Chk := .named "a0"
  [(t, id),
   (.disj dA (mkAlts [uS, t]), id),
   (.disj dA (mkAlts [t, uS]), id),
   (.array dA t none, fun x => mkArr [x, x]),
   (.het dA (mkAlts [uS, t]), fun x => mkArr [strS, x]),
   (.dict dA (chkLOfList [(kB, .required, t)]), fun x => .dict (mkDict [(kB, x)])),
   (.dictStar dA (chkLOfList [(kA, .optional, uI)]) .optional t, fun x => .dict (mkDict [([0x5a], x)])),
   (.stream dA (chkLOfList [(kA, .required, t)]), fun x => .stream (mkDict [(kA, x)]) 0 []),
   (.named "via", fun x => .dict (mkDict [(kC, x)]))]

/-- 3 -> 3 self reference; 4 = [4 0 R] contains itself; 5 = << /A 1 /B 5 0 R >>; 6 -> 7 -> 6 ; 8 -> 6 lasso -/
def aliasGraph : Graph :=
  [((1, 0), .int 1), ((2, 0), strS), ((3, 0), .ref 3 0), ((4, 0), mkArr [.ref 4 0]),
   ((5, 0), .dict (mkDict [(kA, .int 1), (kB, .ref 5 0)])), ((6, 0), .ref 7 0), ((7, 0), .ref 6 0), ((8, 0), .ref 6 0)]

def objsQuick : List Obj := [.int 1, strS, .ref 1 0, .ref 3 0, .ref 4 0, .ref 5 0]
def objsAll : List Obj :=
  objsQuick ++ [.ref 2 0, .ref 8 0, .ref 9 0, nmA, .dict (mkDict [(kB, .ref 5 0)]), mkArr [.ref 4 0]]

def endsOf (len : Nat) : List End :=
  [.named, .direct, .recur, .dangling] ++ ([1, 2, len].eraseDups.filter (· ≤ len)).map End.back

/-- link assignments: the alias everywhere; every other variant on the last / the first / all links -/
def linkings (len : Nat) (full : Bool) : List (Nat → Link) :=
  let others : List Link := [.two, .same, .predT, .predC, .req, .forb]
  let last (l : Link) : Nat → Link := fun i => if i + 1 == len then l else .alias
  let first (l : Link) : Nat → Link := fun i => if i == 0 then l else .alias
  let all (l : Link) : Nat → Link := fun _ => l
  [all .alias] ++ others.map last
    ++ (if len > 1 then (if full then others else [.two, .predT]).map all else [])
    ++ (if len > 1 && full then others.map first else [])

def genFamily (tier : String) (emit : String → IO Unit) : IO Unit := do
  let full := tier == "thorough"
  let objs := if full then objsAll else objsQuick
  -- short shapes: the whole product
  for len in (if full then [1, 2, 3, 5] else [1, 2, 3]) do
    for e in endsOf len do
      for lk in linkings len full do
        let ctx := shapeCtx len e lk
        for (c, wrap) in positions do
          for o in objs do
            emit (sCase "c09" ctx aliasGraph c (wrap o))
  -- long shapes: chains of 10..50 aliases, fewer variants
  let pos3 := [positions[0]!, positions[3]!, positions[5]!]
  for len in (if full then [10, 20, 50] else [10, 50]) do
    for e in [End.named, .recur, .back 1, .back 2, .back len] do
      for lk in (linkings len false).take 4 do
        let ctx := shapeCtx len e lk
        for (c, wrap) in (if full then positions else pos3) do
          for o in [Obj.int 1, strS, .ref 5 0] do
            emit (sCase "c09" ctx aliasGraph c (wrap o))

/-- random: 1..6 alias names, every link with a random variant (mostly the alias) and a RANDOM target among the
    names, z (= a random functional graph over the names: arbitrary cycles and lassos), a nested position and a
    fitted or pooled object -/
def genRandom (r : Rng) : String × Rng :=
  let (n0, r) := r.nat 6
  let len := n0 + 1
  let names := (List.range len).map nm ++ ["z"]
  let (defs, r) := (List.range len).foldl (fun (acc : Ctx × Rng) i =>
    let (k, r) := acc.2.nat 10
    let l : Link := if k < 6 then .alias else [Link.two, .same, .predT, .predC, .req, .forb].getD (k - 6) .two
    let (t, r) := r.pick names
    (acc.1 ++ [(nm i, mkLink l (.named t))], r)) (([] : Ctx), r)
  let (zk, r) := r.nat 3
  let z : Chk := if zk == 0 then uI else if zk == 1 then recT else .array dA (.named "a0") none
  let (front, r) := r.nat 2
  let via : Ctx := [("via", .dict dA (chkLOfList [(kC, .required, .named "a0")]))]
  let ctx : Ctx := if front == 0 then [("z", z)] ++ defs ++ via else defs.reverse ++ via ++ [("z", z)]
  let (p1, r) := r.pick positions
  let (p2, r) := r.pick positions
  let (nest, r) := r.nat 2
  -- nested: the inner position's check sits where the outer one has the name (array element / entry of a wrapper)
  let (c, wrap) : Chk × (Obj → Obj) :=
    if nest == 0 then p1
    else (.array dA p2.1 none, fun x => mkArr [p2.2 x])
  let (k, r) := r.nat 3
  if k == 0 then
    let (o, (g, r)) := fit ctx 6 c (aliasGraph, r)
    (sCase "c09" ctx g c o, r)
  else
    let (o, r) := r.pick objsAll
    (sCase "c09" ctx aliasGraph c (wrap o), r)

def gen (seed n : Nat) (tier : String) (emit : String → IO Unit) : IO Unit := do
  genFamily tier emit
  let mut r := Rng.mk' (seed + 1010)
  for _ in List.range (n / 4) do
    let (l, r') := genRandom r
    r := r'
    emit l

/-- a registered one-option disjunction whose option is a name: the case belongs to the alias family (the judge
    then also compares the verdict with the declarative oracle) -/
def isAliasDef : Chk → Bool
  | .disj _ os => match os.chks with
    | [.named _] => true
    | _ => false
  | _ => false

end Driver.C09Alias
