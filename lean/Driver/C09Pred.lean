/-
  C09: RECURSIVE TYPES WHOSE RECURSION NODE CARRIES A REFINEMENT PREDICATE, ON CYCLIC GRAPHS (seed C09_11).
  `list = refined(Array{elem: Named list}, pred)` on `1 0 obj [1 0 R]`: the checker dereferences with
  `allow_indirect()`, i.e. it queues a COPY of the predicate-carrying check for the target; the examined set cuts the
  cycle only if that copy compares equal to the copy made on the previous visit (predicate identity = the shared
  predicate object, not the copy), or if the (reference, check) pair itself is remembered.
  Plain case lines (format of Driver/TypeCheckCodec.lean): model, harness and replay need nothing new.
    kind    : the container of the recursion node: Array{t} | HetArray[t, t, Integer] | Dict{A:t? B:t? C:Integer?} |
              Dict{C:Integer?, *: t?} | Stream{A:t? B:t? C:Integer?}         (never a disjunction)
    pred    : none (control) | always | never | ReferencePredicate | choice{every node object} (holds on all nodes) |
              choice{node 1} (holds on the first node only) | choice{1} (holds on no node)
    indirect: allowed | required | forbidden
    graph   : self loop, double self edge, 2-cycle, 3-cycle, lasso into a 2-cycle, lasso into a self loop, diamond with a
              shared node and a back edge, two nodes listing themselves and each other, a shared node without cycle
              (control), a dangling reference; scalar leaf of every node conforming, or wrong in the last / the first node
    entry   : `n t` on `1 0 R` / on the direct value of node 1; through `via = << /C t >>`; an anonymous copy of t's rep
    mutual  : t = K1{u}, u = K2{t} (same container kind, or odd nodes K1 / even nodes K2), predicate on t, on u, on both
  Expected: the check terminates within the proved work bound, the verdict is the model's and (inside F1/F2 and for
  completeness) the declarative oracle's, and the second run repeats the first.
-/
import Driver.Common
import Driver.TypeCheckCodec
namespace Driver.C09Pred
open Parsley Parsley.TC Driver Driver.TCCodec

inductive Kind where
  | arr | het | dict | star | strm
  deriving BEq, Repr, Inhabited

def kinds : List Kind := [.arr, .het, .dict, .star, .strm]

def kX : Bytes := [0x58]
def kY : Bytes := [0x59]

/-- the container type of kind `k` with attributes `a` whose recursion slots are the names n1, n2 -/
def mkType (k : Kind) (a : Attr) (n1 n2 : String) : Chk :=
  match k with
  | .arr => .array a (.named n1) none
  | .het => .het a (mkAlts [.named n1, .named n2, uI])
  | .dict => .dict a (chkLOfList [(kA, .optional, .named n1), (kB, .optional, .named n2), (kC, .optional, uI)])
  | .star => .dictStar a (chkLOfList [(kC, .optional, uI)]) .optional (.named n1)
  | .strm => .stream a (chkLOfList [(kA, .optional, .named n1), (kB, .optional, .named n2), (kC, .optional, uI)])

/-- the object of a node of kind `k` with successors `ss` (references) and a conforming / wrong scalar leaf -/
def mkNode (k : Kind) (ss : List Nat) (bad : Bool) : Obj :=
  let rs : List Obj := ss.map fun i => .ref i 0
  let leaf : Obj := if bad then strS else .int 1
  match k with
  | .arr => mkArr (rs ++ (if bad then [Obj.int 7] else []))
  | .het => mkArr [rs.getD 0 .null, rs.getD 1 (rs.getD 0 .null), leaf]
  | .dict => .dict (mkDict (([kA, kB].zip rs) ++ [(kC, leaf)]))
  | .star => .dict (mkDict (([kX, kY, [0x5a]].zip rs) ++ [(kC, leaf)]))
  | .strm => .stream (mkDict (([kA, kB].zip rs) ++ [(kC, leaf)])) 0 []

/-- successor lists of the nodes 1..n -/
def shapes : List (String × List (List Nat)) :=
  [("self", [[1]]), ("self2", [[1, 1]]), ("cyc2", [[2], [1]]), ("cyc3", [[2], [3], [1]]),
   ("lasso", [[2], [3], [2]]), ("lassoSelf", [[2], [2]]), ("diamond", [[2, 3], [4], [4], [1]]),
   ("twin", [[1, 2], [2, 1]]), ("dag", [[2, 2], []]), ("dangling", [[2], [9]])]

inductive BadAt where
  | nowhere | last | first
  deriving BEq, Repr, Inhabited

/-- the graph of a shape: node i has kind `kindOf i` -/
def mkGraph (sh : List (List Nat)) (kindOf : Nat → Kind) (b : BadAt) : Graph :=
  (List.range sh.length).map fun j =>
    let i := j + 1
    let bad := (b == .last && i == sh.length) || (b == .first && i == 1)
    ((i, 0), mkNode (kindOf i) (sh.getD j []) bad)

inductive PK where
  | none | always | never | refArr | choiceAll | choiceFirst | choiceNo
  deriving BEq, Repr, Inhabited

def allPK : List PK := [.none, .always, .never, .refArr, .choiceAll, .choiceFirst, .choiceNo]

def mkPred (p : PK) (g : Graph) : Option Pred :=
  match p with
  | .none => none
  | .always => some .always
  | .never => some .never
  | .refArr => some .refArray
  | .choiceAll => some (.choice (g.map (·.2)).eraseDups)
  | .choiceFirst => some (.choice ((g.take 1).map (·.2)))
  | .choiceNo => some (.choice [.int 1])

def via : String × Chk := ("via", .dict dA (chkLOfList [(kC, .required, .named "t")]))

/-- entries: (top check, object) for a context whose recursion type is `t` with rep `trep` -/
def entries (trep : Chk) (g : Graph) (full : Bool) : List (Chk × Obj) :=
  let direct : Obj := ((g.head?).map (·.2)).getD .null
  [(.named "t", .ref 1 0), (.named "t", direct), (.named "via", .dict (mkDict [(kC, .ref 1 0)]))]
    ++ (if full then [(trep, .ref 1 0), (trep, direct), (.named "via", .dict (mkDict [(kC, direct)])),
                      (.array dA (.named "t") none, mkArr [.ref 1 0, direct, .ref 1 0])] else [])

def genDirect (tier : String) (emit : String → IO Unit) : IO Unit := do
  let full := tier == "thorough"
  for k in kinds do
    for (_, sh) in shapes do
      for b in (if full then [BadAt.nowhere, .last, .first] else [BadAt.nowhere, .last]) do
        let g := mkGraph sh (fun _ => k) b
        for p in allPK do
          for ind in (if full then [Ind.allowed, .required, .forbidden] else [Ind.allowed, .required]) do
            let trep := mkType k ⟨mkPred p g, ind⟩ "t" "t"
            let ctx : Ctx := [("t", trep), via]
            for (c, o) in entries trep g full do
              emit (sCase "c09" ctx g c o)

/-- t = K1{u}, u = K2{t}: odd nodes are of kind K1, even nodes of kind K2 -/
def genMutual (tier : String) (emit : String → IO Unit) : IO Unit := do
  let full := tier == "thorough"
  let pairs : List (Kind × Kind) := kinds.map (fun k => (k, k)) ++ [(.arr, .dict), (.dict, .strm), (.het, .arr)]
  let shs := if full then shapes else shapes.filter fun s => ["self", "cyc2", "cyc3", "lasso", "diamond"].contains s.1
  for (k1, k2) in pairs do
    for (_, sh) in shs do
      for b in (if full then [BadAt.nowhere, .last] else [BadAt.nowhere]) do
        let g := mkGraph sh (fun i => if i % 2 == 1 then k1 else k2) b
        for p in (if full then allPK.drop 1 else [PK.always, .refArr, .choiceAll]) do
          for where_ in [0, 1, 2] do
            for ind in [Ind.allowed, .required] do
              let at1 : Attr := if where_ != 1 then ⟨mkPred p g, ind⟩ else ⟨none, ind⟩
              let at2 : Attr := if where_ != 0 then ⟨mkPred p g, .allowed⟩ else dA
              let ctx : Ctx := [("t", mkType k1 at1 "u" "u"), ("u", mkType k2 at2 "t" "t"), via]
              emit (sCase "c09" ctx g (.named "t") (.ref 1 0))
              if full then
                emit (sCase "c09" ctx g (.named "u") (.ref 1 0))
                emit (sCase "c09" ctx g (.named "via") (.dict (mkDict [(kC, .ref 1 0)])))

/-- random: 1..3 mutually recursive container types t, t1, t2 (random kinds, mostly one kind; random predicate and
    indirect attribute each; random names in the slots) on a random graph of 1..5 nodes with 1..2 random successors
    each (arbitrary cycles, shared nodes; sometimes an undefined id), some leaves wrong -/
def genRandom (r : Rng) : String × Rng :=
  let (nn, r) := r.nat 3
  let names : List String := ["t", "t1", "t2"].take (nn + 1)
  let (k0, r) := r.pick kinds
  let (mixed, r) := r.nat 3
  let (ng, r) := r.nat 5
  let n := ng + 1
  -- node kinds
  let (nk, r) := (List.range n).foldl (fun (acc : List Kind × Rng) _ =>
    let (k, r) := acc.2.pick kinds
    (acc.1 ++ [if mixed == 0 then k else k0], r)) (([] : List Kind), r)
  let (sh, r) := (List.range n).foldl (fun (acc : List (List Nat) × Rng) _ =>
    let (d, r) := acc.2.nat 4
    let (a, r) := r.nat (n + (if d == 3 then 1 else 0))
    let (b, r) := r.nat n
    (acc.1 ++ [if d == 0 then [a + 1] else if d == 1 then [] else [a + 1, b + 1]], r)) (([] : List (List Nat)), r)
  let (bk, r) := r.nat 4
  let b : BadAt := if bk == 0 then .last else if bk == 1 then .first else .nowhere
  let g := mkGraph sh (fun i => nk.getD (i - 1) k0) b
  let (defs, r) := ((List.range names.length).zip names).foldl (fun (acc : Ctx × Rng) it =>
    let (p, r) := acc.2.pick allPK
    let (j, r) := r.nat 6
    let ind : Ind := if j == 0 then .required else if j == 1 then .forbidden else .allowed
    let (n1, r) := r.pick names
    let (n2, r) := r.pick names
    let (k, r) := r.pick kinds
    let kd := if mixed == 0 then nk.getD it.1 k else k0
    let _ := k
    (acc.1 ++ [(it.2, mkType kd ⟨mkPred p g, ind⟩ n1 n2)], r)) (([] : Ctx), r)
  let ctx := defs ++ [via]
  let (e, r) := r.pick (entries ((defs.head?).map (·.2) |>.getD (.any dA)) g true)
  (sCase "c09" ctx g e.1 e.2, r)

def gen (seed n : Nat) (tier : String) (emit : String → IO Unit) : IO Unit := do
  genDirect tier emit
  genMutual tier emit
  let mut r := Rng.mk' (seed + 1111)
  for _ in List.range (n / 4) do
    let (l, r') := genRandom r
    r := r'
    emit l

mutual
def mentionsName : Chk → Bool
  | .named _ => true
  | .any _ | .prim _ _ => false
  | .array _ e _ => mentionsName e
  | .het _ es | .dict _ es | .stream _ es | .disj _ es => mentionsNameL es
  | .dictStar _ es _ sc => mentionsNameL es || mentionsName sc
def mentionsNameL : ChkL → Bool
  | .nil => false
  | .cons _ _ c t => mentionsName c || mentionsNameL t
end

/-- a registered NON-disjunct container that carries a predicate and refers to names: the case belongs to this
    family (the judge then also compares the verdict with the declarative oracle) -/
def isPredRecDef (c : Chk) : Bool :=
  !c.isDisj && c.attr.pred.isSome && mentionsName c

end Driver.C09Pred
