/-
  C09, SEQUENCES of check_type calls on ONE TypeCheckContext and ONE object context (seed C09_7: a cache of
  normalized checks keyed by the check NAME made the verdict depend on what had been checked before).
  The statement of C09 ends "... and returns the same verdict every time it is run": check_type is a function
  of (context, graph, object, check), whatever was checked earlier with the same context.

  Case line:   seq <ctx> <graph> k (<stepchk> <obj>)*k        (ctx, graph, obj as in TypeCheckCodec.lean)
    stepchk := n name          TypeCheck::Named(name)
             | r pred ind typ  an unregistered representation whose name is "" (built in a scratch context)
             | m name rep      an unregistered representation that carries `name` (built in a scratch context)
             | e i             the representation created for the i-th entry of <ctx> itself (0-based), also when a
                               later entry of the same name shadows it in the context
             | ea i            its `allow_indirect()` variant               (same name, indirect requirement removed)
             | eg i | eb i     the two halves of its `split_disjunct()`     (same name: guard = Any with the
                               predicate and indirect requirement, bare = the type alone)
             | et i rep        `new_replace_typ(type of rep, entry i)`      (same name, predicate and indirect
                               requirement of entry i, another type)
             | g name rep      a representation created with a constructor on the REAL context at this step: it is
                               registered under `name` from this step on (and is the check of this step)
  Output line (model and harness):  <verdict> steps=<n> | <verdict> steps=<n> | ... alone=same
    the harness additionally runs every step ALONE (fresh contexts decoded from the line, the registrations of the
    earlier steps performed, none of the earlier checks run) and prints `alone=DIFF:<step>:<verdict>:<steps>` when
    verdict or work count of a step differ from its run inside the sequence.
  model : the machine is a pure function, so the sequence is the map of `checkTypeFuel` over the steps.
  judge : independent of the machine, per step:
          - `alone=same` (the real code gives the step the same verdict and work count with and without history),
          - two steps with the same (context, check, object) have the same verdict and the same work count,
          - inside the fragments where machine = specification is PROVED (F1, F2) the verdict is the one of the
            declarative `Spec.gfp`; an object that conforms to a well-formed specification is accepted (completeness
            theorem) -- all computed from the step alone, never from the history,
          - the work count of every step is within the proved bound `Term.workBound` of that step.
-/
import Driver.Common
import Driver.TypeCheckCodec
import Driver.C08
import Parsley.Spec.WorkBound
namespace Driver.C09Seq
open Parsley Parsley.TC Driver Driver.TCCodec

structure Step where
  /-- the context in force when the step runs (initial entries + registrations of steps up to this one) -/
  ctx : Ctx
  chk : Chk
  obj : Obj

structure SeqCase where
  ctx : Ctx
  g : Graph
  steps : List Step

def entryAt (ctx : Ctx) (i : String) : Option Chk := (ctx[i.toNat!]?).map (·.2)

def repOnly (x : Option (Chk × Toks)) : Option (Chk × Toks) :=
  match x with
  | some (.named _, _) => none
  | x => x

/-- a step check: (registration performed by the step, the check, remaining tokens) -/
def pStepChk (ctx0 : Ctx) : Toks → Option (Option (String × Chk) × Chk × Toks)
  | "e" :: i :: t => do let c ← entryAt ctx0 i; pure (none, c, t)
  | "ea" :: i :: t => do let c ← entryAt ctx0 i; pure (none, c.allowInd, t)
  | "eg" :: i :: t => do let c ← entryAt ctx0 i; pure (none, .any c.attr, t)
  | "eb" :: i :: t => do let c ← entryAt ctx0 i; pure (none, c.setAttr Attr.dflt, t)
  | "et" :: i :: t => do
    let c ← entryAt ctx0 i
    let (c', t) ← repOnly (pChk t)
    pure (none, c'.setAttr c.attr, t)
  | "m" :: _ :: t => do
    let (c, t) ← repOnly (pChk t)
    pure (none, c, t)
  | "g" :: name :: t => do
    let (c, t) ← repOnly (pChk t)
    pure (some (name, c), c, t)
  | t => do
    let (c, t) ← pChk t
    pure (none, c, t)

partial def pSteps (ctx0 : Ctx) : Nat → Ctx → Toks → Option (List Step × Toks)
  | 0, _, t => some ([], t)
  | n+1, cur, t => do
    let (reg, c, t) ← pStepChk ctx0 t
    let cur := match reg with | some e => cur ++ [e] | none => cur
    let (o, t) ← pObj t
    let (rest, t) ← pSteps ctx0 n cur t
    pure (⟨cur, c, o⟩ :: rest, t)

def parseSeq (line : String) : Option SeqCase :=
  match words line with
  | "seq" :: k :: t => do
    let (ctx, t) ← pCtx k.toNat! t
    match t with
    | k :: t => do
      let (g, t) ← pGraph k.toNat! t []
      match t with
      | k :: t => do
        let (steps, t) ← pSteps ctx k.toNat! ctx t
        if t.isEmpty then pure ⟨ctx, g, steps⟩ else none
      | _ => none
    | _ => none
  | _ => none

def isSeq (line : String) : Bool := (words line).head? == some "seq"

def model (line : String) : String :=
  match parseSeq line with
  | none => "bad-case"
  | some sc =>
    let outs := sc.steps.map fun s =>
      let r := checkTypeFuel Fix.tree sc.g s.ctx 4000000 s.obj s.chk
      s!"{C08.showOutcome r.1} steps={r.2}"
    " | ".intercalate outs ++ " alone=same"

def splitBar : List String → List (List String)
  | [] => [[]]
  | "|" :: t => [] :: splitBar t
  | w :: t =>
    match splitBar t with
    | h :: r => (w :: h) :: r
    | [] => [[w]]

def stepsField (ws : List String) : Option Nat :=
  (ws.findSome? fun w => if w.startsWith "steps=" then some ((w.drop 6).toString) else none).bind String.toNat?

def enum {α : Type} (l : List α) : List (Nat × α) := (List.range l.length).zip l

def judge (line impl : String) : String :=
  match parseSeq line with
  | none => "skip"
  | some sc =>
    if sc.steps.any (fun s => C08.hasEmptyDisj s.chk || s.ctx.any fun e => C08.hasEmptyDisj e.2) then "skip" else
    let ws := words impl
    let v0 := ws.headD "?"
    if v0 == "hang" then "bad nontermination impl=hang" else
    if v0.startsWith "crash:" then s!"bad crash impl={v0}" else
    let alone := ws.getLast?.getD ""
    if !alone.startsWith "alone=" then s!"bad no-verdict impl={v0}" else
    let groups := splitBar ws.dropLast
    if groups.length != sc.steps.length then s!"bad no-verdict steps-reported={groups.length}" else
    let rs : List (String × Option Nat) := groups.map fun gw => (gw.headD "?", stepsField gw)
    let items := enum (sc.steps.zip rs)
    let noVerdict := items.findSome? fun (i, _, r) =>
      if r.1 != "accept" && r.1 != "reject" then some s!"bad no-verdict step={i} impl={r.1}"
      else if r.2.isNone then some s!"bad no-step-count step={i}" else none
    match noVerdict with
    | some b => b
    | none =>
    if alone != "alone=same" then s!"bad history-dependent {alone}" else
    let rep := items.findSome? fun (i, s, r) =>
      items.findSome? fun (j, s', r') =>
        if i < j && s.chk == s'.chk && s.obj == s'.obj && s.ctx == s'.ctx && r != r' then
          some s!"bad repeat-differs steps={i},{j} first={r.1}/{r.2.getD 0} second={r'.1}/{r'.2.getD 0}"
        else none
    match rep with
    | some b => b
    | none =>
    let orc := items.findSome? fun (i, s, r) =>
      let want := if Spec.gfp sc.g s.ctx s.obj s.chk then "accept" else "reject"
      if r.1 == want then none
      else if Frag.inF1 s.ctx s.chk then some s!"bad step-verdict step={i} theorem=F1 oracle={want} impl={r.1}"
      else if Frag.inF2 s.ctx s.chk then some s!"bad step-verdict step={i} theorem=F2 oracle={want} impl={r.1}"
      else if want == "accept" && Frag.wfSpec s.ctx s.chk then
        some s!"bad step-verdict step={i} theorem=completeness oracle={want} impl={r.1}"
      else none
    match orc with
    | some b => b
    | none =>
    let wb := items.findSome? fun (i, s, r) =>
      let b := Term.workBound Fix.tree sc.g s.ctx s.obj s.chk
      if r.2.getD 0 ≤ b then none else some s!"bad work-bound step={i} steps={r.2.getD 0} bound={b}"
    wb.getD "ok"

/-- non-trivial: at least two checks on the one context, and the specification is recursive/named or the graph
    has a reference cycle (the rule of C09) -/
def nontrivial (line : String) : Bool :=
  match parseSeq line with
  | none => false
  | some sc =>
    sc.steps.length ≥ 2 &&
      (!sc.ctx.isEmpty || sc.steps.any (fun s => !s.ctx.isEmpty) ||
        sc.g.any (fun d => Spec.value sc.g d.2 == .null && d.2.isRef))

/-! ### generators -/

def sSeq (ctx : Ctx) (g : Graph) (steps : List (String × Obj)) : String :=
  s!"seq {ctx.length}" ++ String.join (ctx.map fun e => s!" {e.1} {sChk e.2}")
    ++ s!" {g.length}" ++ String.join (g.map fun d => s!" {d.1.1} {d.1.2} {sObj d.2}")
    ++ s!" {steps.length}" ++ String.join (steps.map fun s => s!" {s.1} {sObj s.2}")

/-- a name family: a context in which several DIFFERENT checks carry the same name (registered twice, variants
    derived with allow_indirect / split_disjunct / new_replace_typ, unregistered namesakes, the name itself), a
    graph and a pool of objects on which those checks give different verdicts.  `vars` and `objs` are ordered:
    the quick tier enumerates the pairs over a prefix of each. -/
structure Fam where
  ctx : Ctx
  g : Graph
  vars : List String
  objs : List Obj

instance : Inhabited Fam := ⟨⟨[], [], [], []⟩⟩

def pI : Chk := .prim dA .integer
def pN : Chk := .prim dA .name
def pS : Chk := .prim dA .string
def arrOf (e : Chk) : Chk := .array dA e none
def dictA (c : Chk) : Chk := .dict dA (chkLOfList [(kA, .required, c)])
def nextK : Bytes := [0x4e, 0x65, 0x78, 0x74]

def families : List Fam :=
  [ -- same name, different bodies (arrays of names / of integers, a dictionary), registered one after the other
    { ctx := [("x", arrOf pN), ("x", arrOf pI), ("x", dictA pI)],
      g := [((1, 0), mkArr [.int 1, .int 2])],
      vars := ["e 0", "e 1", "n x", "e 2", s!"m x {sChk (arrOf pS)}", s!"et 0 {sChk (.array dA pI (some 2))}",
               s!"m x {sChk pI}", "ea 1", s!"r - a arr - {sChk pI}", s!"r - a arr - {sChk pN}"],
      objs := [mkArr [.int 1, .int 2, .int 3], mkArr [nmA, nmB], .dict (mkDict [(kA, .int 1)]), .ref 1 0,
               mkArr [], .int 1, mkArr [strS]] },
    -- a type with an indirect requirement and its derived variants
    { ctx := [("x", .array ⟨none, .required⟩ pI none), ("y", .prim ⟨some (.choice [nmA]), .forbidden⟩ .name)],
      g := [((1, 0), mkArr [.int 1, .int 2]), ((2, 0), nmA), ((3, 0), mkArr [nmA])],
      vars := ["e 0", "ea 0", "n x", "eb 0", "eg 0", s!"et 0 {sChk pI}", "e 1", "ea 1", "eg 1", "eb 1",
               s!"m x {sChk (.array ⟨none, .forbidden⟩ pI none)}"],
      objs := [.ref 1 0, mkArr [.int 1, .int 2], nmA, .ref 2 0, .ref 3 0, .int 1, .ref 9 0, nmB] },
    -- predicates: the same name with different predicates, guard and bare halves
    { ctx := [("x", .any ⟨some (.choice [nmA, .int 1]), .allowed⟩), ("x", .prim ⟨some .never, .allowed⟩ .name),
              ("x", .prim ⟨some .always, .required⟩ .integer)],
      g := [((1, 0), .int 1), ((2, 0), nmA), ((3, 0), .int 2)],
      vars := ["e 0", "e 1", "n x", "e 2", "eb 1", "ea 2", "eg 2", "eb 0", "eg 1",
               s!"et 0 {sChk pI}", s!"m x {sChk (.prim ⟨some (.choice [nmB, .int 2]), .allowed⟩ .name)}"],
      objs := [nmA, .int 1, .ref 1 0, nmB, .ref 2 0, .int 2, .ref 3 0, strS] },
    -- disjunctions: plain, with a predicate of its own, with a compound alternative, recursive by name
    { ctx := [("x", .disj dA (mkAlts [pI, pN])),
              ("x", .disj ⟨some (.choice [.int 1, nmA]), .allowed⟩ (mkAlts [pI, pN])),
              ("x", .disj dA (mkAlts [dictA pI, pS]))],
      g := [((1, 0), .int 2)],
      vars := ["e 0", "e 2", "n x", "e 1", "eg 1", "eb 1", s!"et 0 {sChk (.disj dA (mkAlts [pS, .prim dA .null]))}",
               s!"m x {sChk (arrOf (.named "x"))}", s!"r - a dis 2 {sChk pS} n x"],
      objs := [.int 2, strS, .dict (mkDict [(kA, .int 1)]), nmB, .dict (mkDict [(kA, strS)]), .int 1, nmA,
               mkArr [.int 1, strS], .ref 1 0] },
    -- a recursive type that must be an indirect object, on a cyclic graph (an array that lists itself, two arrays
    -- listing each other, a reference to itself)
    { ctx := [("int", pI), ("elem", .disj dA (mkAlts [.named "int", .named "node"])),
              ("node", .array ⟨none, .required⟩ (.named "elem") none)],
      g := [((1, 0), mkArr [.int 7, .ref 1 0]), ((2, 0), mkArr [.ref 1 0, .ref 4 0, nmA]), ((3, 0), .ref 3 0),
            ((4, 0), mkArr [.ref 2 0])],
      vars := ["n node", "ea 2", "e 2", "eb 2", s!"m node {sChk (arrOf (.named "int"))}", "eg 2",
               s!"et 2 {sChk (.het dA (mkAlts [.named "int", .named "node"]))}", "n elem",
               s!"m node {sChk (.array ⟨none, .required⟩ (.any dA) none)}"],
      objs := [.ref 1 0, mkArr [.int 7, .ref 1 0], .ref 2 0, mkArr [.int 7], .int 7, .ref 3 0, .ref 4 0,
               mkArr [.ref 4 0]] },
    -- linked dictionaries against two versions of the recursive node type (Next optional / required)
    { ctx := [("node", .dict dA (chkLOfList [(nextK, .optional, .named "node")])),
              ("node", .dict dA (chkLOfList [(nextK, .required, .named "node")]))],
      g := [((1, 0), .dict (mkDict [(nextK, .ref 2 0)])), ((2, 0), .dict (mkDict [(nextK, .ref 1 0)])),
            ((3, 0), .dict (mkDict [(nextK, .ref 4 0)])), ((4, 0), .dict (mkDict [])),
            ((5, 0), .dict (mkDict [(nextK, .int 7)]))],
      vars := ["e 0", "n node", "e 1", s!"m node {sChk (.dict dA (chkLOfList [(nextK, .optional, pI)]))}",
               s!"m node {sChk (.any dA)}", "ea 0", s!"et 1 {sChk (.dictStar dA .nil .optional (.named "node"))}"],
      objs := [.ref 3 0, .ref 1 0, .ref 5 0, .dict (mkDict []), .dict (mkDict [(nextK, .ref 1 0)]),
               .dict (mkDict [(nextK, .ref 4 0)])] } ]

/-- every ordered PAIR of steps (variant, object) over the pools of each family (prefixes in the quick tier): the same
    step twice, the same check on two objects, two namesakes on the same object, a failing check before a passing
    one and after it -/
def genPairs (full : Bool) (emit : String → IO Unit) : IO Unit := do
  for f in families do
    let vs := if full then f.vars else f.vars.take 6
    let os := if full then f.objs else f.objs.take 4
    let cands : List (String × Obj) := vs.flatMap fun v => os.map fun o => (v, o)
    for s1 in cands do
      for s2 in cands do
        emit (sSeq f.ctx f.g [s1, s2])

/-- a random sequence of 2..4 steps over the full pools of a random family; one time in four a step registers a
    body of the family under the shared name on the real context (`g`), so later `n <name>` steps mean the new one -/
def genFamSeq (r : Rng) : String × Rng :=
  let (f, r) := r.pick families
  let (len, r) := r.nat 3
  let name := (f.ctx.getLast?.map (·.1)).getD "x"
  let (steps, r) := (List.range (len + 2)).foldl (fun (acc : List (String × Obj) × Rng) _ =>
    let (o, r) := acc.2.pick f.objs
    let (k, r) := r.nat 8
    if k == 0 then
      let (e, r) := r.pick f.ctx
      (acc.1 ++ [(s!"g {name} {sChk e.2}", o)], r)
    else if k == 1 && !acc.1.isEmpty then
      -- the previous check again, on this object
      (acc.1 ++ [((acc.1.getLast?.map (·.1)).getD "n x", o)], r)
    else
      let (v, r) := r.pick f.vars
      (acc.1 ++ [(v, o)], r)) ([], r)
  (sSeq f.ctx f.g steps, r)

def repOr (c : Chk) : Chk := match c with | .named _ => .any dA | c => c

/-- a random sequence over a RANDOM context (random recursive specifications, as `genCase`; the third entry
    re-uses the name of the first, so the first is shadowed) and a random graph with back edges: 2..4 steps, each a
    random step-check form, on an object fitted to that check (mostly conforming; the graph receives the indirect
    objects it needs), a random object, or the previous step's object; sometimes the previous check again -/
def genRandSeq (r : Rng) : String × Rng :=
  let (nn, r) := r.nat 3
  let nn := nn + 1
  let refNames := ["t0", "t1"]
  let entryNames := ["t0", "t1", "t0"].take nn
  let (ctx, r) := entryNames.foldl (fun (acc : Ctx × Rng) n =>
    let (c, r) := genChk refNames 2 acc.2
    (acc.1 ++ [(n, repOr c)], r)) (([] : Ctx), r)
  let (ng, r) := r.nat 4
  let (g, r) := (List.range ng).foldl (fun (acc : Graph × Rng) i =>
    let (o, r) := genObj 2 acc.2; (acc.1 ++ [((i + 1, 0), o)], r)) (([] : Graph), r)
  let (len, r) := r.nat 3
  -- state: steps so far (token, object), model check of the last step, current context, graph, rng
  let init : List (String × Obj) × Chk × Ctx × Graph × Rng := ([], .any dA, ctx, g, r)
  let (steps, _, _, g, r) := (List.range (len + 2)).foldl (fun acc _ =>
    let (steps, lastC, cur, g, r) := acc
    let (k, r) := r.nat 10
    -- the check of this step
    let (tok, c, cur, r) : String × Chk × Ctx × Rng :=
      if k < 2 && !steps.isEmpty then ((steps.getLast?.map (·.1)).getD "n t0", lastC, cur, r)
      else
        let (j, r) := r.nat 9
        let (i, r) := r.nat nn
        let e : Chk := (ctx[i]?.map (·.2)).getD (.any dA)
        if j == 0 then let (n, r) := r.pick refNames; (s!"n {n}", .named n, cur, r)
        else if j == 1 then (s!"e {i}", e, cur, r)
        else if j == 2 then (s!"ea {i}", e.allowInd, cur, r)
        else if j == 3 then (s!"eb {i}", e.setAttr Attr.dflt, cur, r)
        else if j == 4 then (s!"eg {i}", .any e.attr, cur, r)
        else
          let (d, r) := r.nat 3
          let (c, r) := genChk refNames d r
          let c := repOr c
          if j == 5 then (s!"et {i} {sChk (c.setAttr dA)}", c.setAttr e.attr, cur, r)
          else if j == 6 then let (n, r) := r.pick refNames; (s!"m {n} {sChk c}", c, cur, r)
          else if j == 7 then let (n, r) := r.pick refNames; (s!"g {n} {sChk c}", c, cur ++ [(n, c)], r)
          else (sChk c, c, cur, r)
    -- the object of this step
    let (m, r) := r.nat 10
    let (o, g, r) : Obj × Graph × Rng :=
      if m < 2 && !steps.isEmpty then ((steps.getLast?.map (·.2)).getD .null, g, r)
      else if m < 8 then let (o, (g, r)) := fit cur 4 c (g, r); (o, g, r)
      else let (o, r) := genObj 2 r; (o, g, r)
    (steps ++ [(tok, o)], c, cur, g, r)) init
  (sSeq ctx g steps, r)

def gen (seed n : Nat) (tier : String) (emit : String → IO Unit) : IO Unit := do
  genPairs (tier == "thorough") emit
  let mut r := Rng.mk' (seed + 9707)
  for _ in List.range (n / 4) do
    let (l, r') := genFamSeq r
    r := r'
    emit l
  for _ in List.range (n / 4) do
    let (l, r') := genRandSeq r
    r := r'
    emit l

end Driver.C09Seq
