/-
  C10 driver: gen / model / judge / nontrivial.

  case line :  c10  <graph> <obj> | <seed> <stream> <idx>      generated: (document, mutation) = `caseOf seed stream idx`
               c10x <graph> <obj> | expect accept|reject        hand-built corpus case (arbitrary graph)
               graph := k (num gen obj)*k ; obj as in Driver/TypeCheckCodec.lean
  model : the C08 machine (Model/TypeCheck.lean, tree configuration `Fix.tree`) on the REGENERATED shipped
          specification `Gen.CatalogSpec.catalog` / `.ctx`.
  gen   : the rules' tables cover EVERY entry of the shipped catalog, page, template, root and node types, of the name
          dictionary and of /Resources (`rules_tables_complete`, Props/C10Keys.lean): rendered documents carry each entry
          well-typed (exhaustively in the third fixed document `exDocFull`, at random in the v/m streams); the exhaustive
          stream replaces the value of each key of each type by one value of every other object type (`basicJunk`) and
          by the near misses of its kind (`junkFor`: rectangles of 3/5 numbers, date strings, tree nodes, each name tree
          of the name dictionary, each /Resources sub-entry, arrays with one element of the wrong type).
          BY-REFERENCE family (streams xr1 xr2 xa1 xa2 mr1 mr2 vr1 vr2): every wrong-type / unlisted-name mutation ALSO with
          the offending value moved into a NEW indirect object (the entry becomes `n 0 R`; `r2`: `n 0 R` -> `n+1 0 R` ->
          value), wherever the regenerated shipped specification declares the entry with IndirectSpec Allowed
          (`indAllowed`: read off `Gen.CatalogSpec`, every occurrence of the dictionary type); expected verdict: rejected
          (a reference denotes its target: dereference, then check).  Twin on the accepting side: a PRESENT well-typed
          entry moved behind one / two references must still be accepted.  These by-reference cases are decided by the
          declarative reading of the regenerated specification (`Spec.conf`, which must agree with the expectation, else
          `spec-gap-...`) -- the proved theorems `mutated_rejected` / `rendered_conforms` speak about the in-place forms.
  judge : the RULES of Spec/CatalogRules.lean: the case is re-derived from (seed, stream, idx), the document
          must be well-formed, the mutation a valid single-rule violation, and the line must be exactly its
          rendering; a rendered document must be accepted, a mutated one rejected.  When the implementation
          disagrees, the class says where the fault lies:
            spec-gap-<mutation class>   the shipped specification does not express the rule even when read
                                        declaratively (`Spec.conf` on the regenerated term disagrees with the rules);
                                        for the specification the crate ships NOW this verdict is unreachable:
                                        Parsley.C10.rendered_conforms / mutated_rejected prove the declarative reading
                                        agrees with the rules on every well-formed document and valid mutation -- it
                                        fires only when the Rust specification is changed (and the proofs stop building)
            <repair flag>               the shipped specification is right, the checking engine is not: the name of
                                        the single model repair that removes the disagreement (C08 classifier)
-/
import Driver.Common
import Driver.TypeCheckCodec
import Parsley.Gen.CatalogSpec
import Parsley.Spec.CatalogRules
namespace Driver.C10
open Parsley Parsley.TC Driver Driver.TCCodec
open Parsley.CatalogRules (Doc Node Nodes PageOpts CatOpts Mutation Where Rect Num Date Offset Tree DictKind ValKind
  GDict GStream Contents Resources PageExtra CatExtra)

def fuel : Nat := 400000

def shippedCtx : Ctx := Parsley.Gen.CatalogSpec.ctx
def shippedCat : Chk := Parsley.Gen.CatalogSpec.catalog

def showOutcome : Outcome → String
  | .accept => "accept"
  | .reject k => s!"reject {k.toString}"
  | .panic _ => "panic internal error: entered unreachable code"
  | .outOfFuel => "out-of-fuel"

structure Case where
  tag : String
  g : Graph
  obj : Obj
  body : String          -- the text before `|`
  extra : List String    -- the tokens after `|`

def parseCase (line : String) : Option Case :=
  match line.splitOn " | " with
  | [body, extra] =>
    match words body with
    | tag :: k :: t => do
      let (g, t) ← pGraph k.toNat! t []
      let (o, t) ← pObj t
      if t.isEmpty then pure ⟨tag, g, o, body.trimAscii.toString, words extra⟩ else none
    | _ => none
  | _ => none

def sBody (tag : String) (g : Graph) (o : Obj) : String :=
  s!"{tag} {g.length}" ++ String.join (g.map fun d => s!" {d.1.1} {d.1.2} {sObj d.2}") ++ " " ++ sObj o

def model (line : String) : String :=
  match parseCase line with
  | none => "bad-case"
  | some c => showOutcome (checkTypeFuel Fix.tree c.g shippedCtx fuel c.obj shippedCat).1

/-! ### generators -/

def asc (s : String) : Bytes := s.toUTF8.toList

def genNum (r : Rng) : Num × Rng :=
  let (k, r) := r.nat 3
  let (v, r) := r.nat 2000
  if k == 0 then (.real (Int.ofNat v - 1000) 10, r) else (.int (Int.ofNat v - 500), r)

def genRect (r : Rng) : Rect × Rng :=
  let (a, r) := genNum r
  let (b, r) := genNum r
  let (c, r) := genNum r
  let (d, r) := genNum r
  (⟨a, b, c, d⟩, r)

def genFin (n : Nat) (h : 0 < n) (r : Rng) : Fin n × Rng :=
  let (v, r) := r.nat n
  (⟨v % n, Nat.mod_lt _ h⟩, r)

def genOpt {α : Type} (num den : Nat) (g : Rng → α × Rng) (r : Rng) : Option α × Rng :=
  let (k, r) := r.nat den
  if k < num then let (v, r) := g r; (some v, r) else (none, r)

def genOffset (r : Rng) : Offset × Rng :=
  let (s, r) := genFin 3 (by decide) r
  let (h, r) := genOpt 2 3 (genFin 24 (by decide)) r
  let (m, r) := genOpt 2 3 (genFin 60 (by decide)) r
  let (a, r) := r.nat 2
  (⟨s, h, m, a == 1⟩, r)

/-- a date with a random number of leading fields present -/
def genDate (r : Rng) : Date × Rng :=
  let (y, r) := genFin 10000 (by decide) r
  let (depth, r) := r.nat 7
  let (mo, r) := genFin 12 (by decide) r
  let (da, r) := genFin 31 (by decide) r
  let (h, r) := genFin 24 (by decide) r
  let (mi, r) := genFin 60 (by decide) r
  let (s, r) := genFin 60 (by decide) r
  let (o, r) := genOffset r
  (⟨y, if depth ≥ 1 then some mo else none, if depth ≥ 2 then some da else none,
    if depth ≥ 3 then some h else none, if depth ≥ 4 then some mi else none,
    if depth ≥ 5 then some s else none, if depth ≥ 6 then some o else none⟩, r)

def genList {α : Type} (maxLen : Nat) (g : Rng → α × Rng) (r : Rng) : List α × Rng :=
  let (n, r) := r.nat (maxLen + 1)
  (List.range n).foldl (fun (acc : List α × Rng) _ => let (x, r) := g acc.2; (x :: acc.1, r)) ([], r)

def genKeyStr (r : Rng) : Bytes × Rng :=
  let (n, r) := r.nat 4
  let (bs, r) := Rng.bytes n r
  (asc "k" ++ bs, r)

def genTree {κ : Type} (gk : Rng → κ × Rng) (r : Rng) : Tree κ × Rng :=
  let (k, r) := r.nat 2
  let (lim, r) := genOpt 1 2 (fun r => let (a, r) := gk r; let (b, r) := gk r; ((a, b), r)) r
  if k == 0 then
    let (ps, r) := genList 3 (fun r => let (a, r) := gk r; let (i, r) := r.nat 50; ((a, 800 + i), r)) r
    (.leaf ps lim, r)
  else
    let (ks, r) := genList 3 (fun r => let (i, r) := r.nat 50; (800 + i, r)) r
    (.inner ks lim, r)

def genInt (r : Rng) : Int × Rng :=
  let (v, r) := r.nat 400
  (Int.ofNat v - 100, r)

/-- an arbitrary small object (element of a generic array, value of a generic dictionary) -/
def genAnyObj (r : Rng) : Obj × Rng :=
  let (k, r) := r.nat 8
  let (v, r) := r.nat 60
  match k with
  | 0 => (.int (Int.ofNat v - 30), r)
  | 1 => (.name (asc s!"N{v}"), r)
  | 2 => (.ref (900 + v) 0, r)
  | 3 => (.dict .nil, r)
  | 4 => (mkArr [.int v, .null], r)
  | 5 => (.str (asc s!"s{v}"), r)
  | 6 => (.bool (v % 2 == 0), r)
  | _ => (.real (Int.ofNat v) 4, r)

def genGDict (r : Rng) : GDict × Rng :=
  let (k, r) := r.nat 3
  if k == 0 then (.empty, r) else
    let (n, r) := r.nat 20
    let (v, r) := genAnyObj r
    (.one (asc s!"K{n}") v, r)

def genStream (r : Rng) : GStream × Rng :=
  let (g, r) := genGDict r
  let (n, r) := r.nat 5
  let (bs, r) := Rng.bytes n r
  (⟨g, bs⟩, r)

def genContents (r : Rng) : Contents × Rng :=
  let (k, r) := r.nat 2
  if k == 0 then let (s, r) := genStream r; (.one s, r)
  else let (l, r) := genList 3 genStream r; (.many l, r)

def genResources (r : Rng) : Resources × Rng :=
  let (a, r) := genOpt 1 2 genGDict r
  let (b, r) := genOpt 1 2 genGDict r
  let (c, r) := genOpt 1 2 genGDict r
  let (d, r) := genOpt 1 2 genGDict r
  let (e, r) := genOpt 1 2 (genList 3 genAnyObj) r
  let (f, r) := genOpt 1 2 genGDict r
  let (g, r) := genOpt 1 2 genGDict r
  let (h, r) := genOpt 1 2 genGDict r
  (⟨a, b, c, d, e, f, g, h⟩, r)

/-- every further entry of the page / template type, each present one time in five -/
def genPageExtra (r : Rng) : PageExtra × Rng :=
  let (aa, r) := genOpt 1 5 genGDict r
  let (af, r) := genOpt 1 5 (genList 3 genGDict) r
  let (artBox, r) := genOpt 1 5 genRect r
  let (b, r) := genOpt 1 3 (genList 3 genAnyObj) r
  let (bleedBox, r) := genOpt 1 5 genRect r
  let (boxColorInfo, r) := genOpt 1 5 genGDict r
  let (contents, r) := genOpt 1 3 genContents r
  let (dPart, r) := genOpt 1 5 genGDict r
  let (dur, r) := genOpt 1 5 genNum r
  let (group, r) := genOpt 1 5 genGDict r
  let (metadata, r) := genOpt 1 5 genStream r
  let (outputIntents, r) := genOpt 1 5 (genList 3 genAnyObj) r
  let (pz, r) := genOpt 1 5 genNum r
  let (pieceInfo, r) := genOpt 1 5 genGDict r
  let (presSteps, r) := genOpt 1 5 genGDict r
  let (resources, r) := genOpt 1 3 genResources r
  let (separationInfo, r) := genOpt 1 5 genGDict r
  let (structParents, r) := genOpt 1 5 genInt r
  let (templateInstantiated, r) := genOpt 1 5 (fun r => let (k, r) := r.nat 9; (asc s!"T{k}", r)) r
  let (thumb, r) := genOpt 1 5 genStream r
  let (trans, r) := genOpt 1 5 genGDict r
  let (trimBox, r) := genOpt 1 5 genRect r
  let (vp, r) := genOpt 1 5 (genList 3 genAnyObj) r
  ({ aa, af, artBox, b, bleedBox, boxColorInfo, contents, dPart, dur, group, metadata, outputIntents, pz, pieceInfo,
     presSteps, resources, separationInfo, structParents, templateInstantiated, thumb, trans, trimBox, vp }, r)

def genPageOpts (r : Rng) : PageOpts × Rng :=
  let (annots, r) := genOpt 1 4 (genList 3 fun r => let (i, r) := r.nat 50; (900 + i, r)) r
  let (crop, r) := genOpt 1 4 genRect r
  let (id, r) := genOpt 1 5 genKeyStr r
  let (lm, r) := genOpt 1 3 genDate r
  let (media, r) := genOpt 1 2 genRect r
  let (rot, r) := genOpt 1 4 (fun r => let (k, r) := r.nat 4; (Int.ofNat (k * 90), r)) r
  let (tabs, r) := genOpt 1 4 (genFin 5 (by decide)) r
  let (uu, r) := genOpt 1 5 genNum r
  -- one page in four carries only the entries of the first menu
  let (k, r) := r.nat 4
  let (x, r) := if k == 0 then (PageExtra.none, r) else genPageExtra r
  (⟨annots, crop, id, lm, media, rot, tabs, uu, x⟩, r)

/-- a random subtree; object numbers are allocated consecutively from `next` -/
partial def genNode (depth fan : Nat) (next : Nat) (r : Rng) : Node × Nat × Rng :=
  let (k, r) := r.nat 10
  if depth == 0 || k < 4 then
    let (o, r) := genPageOpts r
    if k == 0 then (.tmpl next o, next + 1, r) else (.page next o, next + 1, r)
  else
    let (n, r) := r.nat (fan + 1)
    let (c, r) := genInt r
    let (kids, nx, r) := (List.range n).foldl (fun (acc : List Node × Nat × Rng) _ =>
      let (kid, nx, r) := genNode (depth - 1) fan acc.2.1 acc.2.2
      (kid :: acc.1, nx, r)) ([], next + 1, r)
    (.pages next c (Nodes.ofList kids.reverse), nx, r)

/-- every further entry of the catalog type and the other eight name trees, each present one time in five -/
def genCatExtra (next : Nat) (r : Rng) : CatExtra × Rng :=
  let (aa, r) := genOpt 1 5 genGDict r
  let (af, r) := genOpt 1 5 (genList 3 genGDict) r
  let (acroForm, r) := genOpt 1 5 genGDict r
  let (collection, r) := genOpt 1 5 genGDict r
  let (dPartRoot, r) := genOpt 1 5 genGDict r
  let (dss, r) := genOpt 1 5 genGDict r
  let (dests, r) := genOpt 1 4 (fun r => (next + 2, r)) r
  let (extensions, r) := genOpt 1 5 genGDict r
  let (legal, r) := genOpt 1 5 genGDict r
  let (markInfo, r) := genOpt 1 5 genGDict r
  let (ocProperties, r) := genOpt 1 5 genGDict r
  let (outputIntents, r) := genOpt 1 5 (genList 3 genAnyObj) r
  let (perms, r) := genOpt 1 5 genGDict r
  let (pieceInfo, r) := genOpt 1 5 genGDict r
  let (requirements, r) := genOpt 1 5 (genList 3 genAnyObj) r
  let (spiderInfo, r) := genOpt 1 5 genGDict r
  let (structTreeRoot, r) := genOpt 1 5 genGDict r
  let (threads, r) := genOpt 1 5 (genList 3 genAnyObj) r
  let (uri, r) := genOpt 1 5 genGDict r
  let (viewerPreferences, r) := genOpt 1 5 genGDict r
  let (ap, r) := genOpt 1 6 (genTree genKeyStr) r
  let (alternatePresentations, r) := genOpt 1 6 (genTree genKeyStr) r
  let (ids, r) := genOpt 1 6 (genTree genKeyStr) r
  let (javaScript, r) := genOpt 1 6 (genTree genKeyStr) r
  let (pagesTree, r) := genOpt 1 6 (genTree genKeyStr) r
  let (renditions, r) := genOpt 1 6 (genTree genKeyStr) r
  let (templates, r) := genOpt 1 6 (genTree genKeyStr) r
  let (urls, r) := genOpt 1 6 (genTree genKeyStr) r
  ({ aa, af, acroForm, collection, dPartRoot, dss, dests, extensions, legal, markInfo, ocProperties, outputIntents,
     perms, pieceInfo, requirements, spiderInfo, structTreeRoot, threads, uri, viewerPreferences, ap,
     alternatePresentations, ids, javaScript, pagesTree, renditions, templates, urls }, r)

def genCatOpts (next : Nat) (r : Rng) : CatOpts × Rng :=
  let (lang, r) := genOpt 1 4 genKeyStr r
  let (md, r) := genOpt 1 4 (fun r => (next, r)) r
  let (dests, r) := genOpt 1 3 (genTree genKeyStr) r
  let (emb, r) := genOpt 1 4 (genTree genKeyStr) r
  let (nr, r) := genOpt 1 5 (fun r => let (k, r) := r.nat 2; (k == 1, r)) r
  let (oa, r) := genOpt 1 4 (fun r => let (k, r) := r.nat 2; (k == 1, r)) r
  let (ol, r) := genOpt 1 4 (fun r => (next + 1, r)) r
  let (pl, r) := genOpt 1 2 (genTree genInt) r
  let (lay, r) := genOpt 1 3 (genFin 6 (by decide)) r
  let (mode, r) := genOpt 1 3 (genFin 6 (by decide)) r
  let (ver, r) := genOpt 1 4 (fun r => let (k, r) := r.nat 8; (asc s!"1.{k}", r)) r
  let (k, r) := r.nat 4
  let (x, r) := if k == 0 then (CatExtra.none, r) else genCatExtra next r
  (⟨lang, md, dests, emb, nr, oa, ol, pl, lay, mode, ver, x⟩, r)

def genDoc (depth fan : Nat) (r : Rng) : Doc × Rng :=
  let (n, r) := r.nat (fan + 1)
  let (c, r) := genInt r
  let (kids, nx, r) := (List.range n).foldl (fun (acc : List Node × Nat × Rng) _ =>
    let (kid, nx, r) := genNode depth fan acc.2.1 acc.2.2
    (kid :: acc.1, nx, r)) ([], 2, r)
  let (cat, r) := genCatOpts nx r
  (⟨cat, 1, c, Nodes.ofList kids.reverse⟩, r)

/-! ### every single-rule mutation at every position -/

mutual
partial def nodePositions : Node → List Nat
  | .page i _ | .tmpl i _ => [i]
  | .pages i _ kids => i :: nodesPositions kids
partial def nodesPositions : Nodes → List Nat
  | .nil => []
  | .cons n t => nodePositions n ++ nodesPositions t
end

def positions (d : Doc) : List Where :=
  .catalog :: .obj d.rootId :: (nodesPositions d.kids).map Where.obj

def dictOf (kvs : List (Bytes × Obj)) : Obj := .dict (mkDict kvs)

def sO (x : String) : Obj := .str (asc x)
def strm (kvs : List (Bytes × Obj)) : Obj := .stream (mkDict kvs) 0 []

/-- replacement values tried under EVERY key: one of each object type (scalar types, the empty and a non-empty
    array, dictionary, stream); `Mutation.valid` keeps the ill-typed ones for the key -/
def basicJunk : List Obj :=
  [.int 42, .name (asc "Foo"), sO "foo", .bool true, .null, .real 1 2, mkArr [], dictOf [], strm [],
   mkArr [.int 1, .int 2, .int 3], dictOf [(asc "K", .int 1)], strm [(asc "L", .int 2)]]

def rectJunk : List Obj :=
  [mkArr [.int 1, .int 2, .int 3, .name (asc "x")], mkArr [.int 1, .int 2, .int 3, .int 4, .int 5],
   mkArr [.int 0, .int 0, .real 612 1, .int 792], mkArr [.int 0, .int 0, .int 1, dictOf []]]

def dateJunk : List Obj :=
  [sO "D:20201", sO "D:202013", sO "D:2020Z", sO "D:20200231", sO "D:20201231235959+24'00", sO "D:2020123123595",
   sO "D:20201231235959Z00'00''", sO "2020", sO "D:", sO "D:1999",
   -- `\d` of the regex crate is the Unicode class Nd: ARABIC-INDIC digits in the year
   .str ([0x44, 0x3A, 0xD9, 0xA1, 0xD9, 0xA9, 0xD9, 0xA9, 0xD9, 0xA9]),
   .str ([0x44, 0x3A, 0x31, 0x39, 0x39, 0xFF])]

/-- ill-formed (and a few well-formed) number-tree / name-tree nodes -/
def treeJunk : List Obj :=
  let s := sO
  let kNums := CatalogRules.kNums
  let kNames := CatalogRules.kNamesKey
  let kKids := CatalogRules.kKids
  let kLimits := CatalogRules.kLimits
  [dictOf [(kNums, .int 42)], dictOf [(kNums, mkArr [.int 1])], dictOf [(kNums, mkArr [s "a", .ref 5 0])],
   dictOf [(kNums, mkArr [.int 1, .int 2])], dictOf [(kNums, mkArr []), (kKids, mkArr [])],
   dictOf [(kKids, mkArr [.int 1])], dictOf [(kKids, .int 3)], dictOf [(kLimits, mkArr [.int 1]), (kNums, mkArr [])],
   dictOf [(kLimits, mkArr [.int 1, s "z"]), (kNums, mkArr [])],
   dictOf [(kNames, mkArr [.int 1, .ref 5 0])], dictOf [(kNames, mkArr [s "a", .ref 5 0])], dictOf [(kNums, mkArr [.int 1, .ref 5 0])],
   dictOf [(kNames, .int 42)], dictOf [(kNames, mkArr [s "a"])], dictOf [(kNames, mkArr [s "a", .int 1])],
   dictOf [(kNames, mkArr []), (kKids, mkArr [])], dictOf [(kKids, mkArr [.ref 5 0]), (kNames, .null)],
   dictOf [(kNums, mkArr [.int 1, .ref 5 0, .int 2])], dictOf [(kLimits, mkArr [.int 1, .int 2, .int 3]), (kKids, mkArr [])],
   dictOf [(kLimits, mkArr [.int 1, .int 2])], dictOf [(kKids, mkArr [.ref 5 0, .int 1])]]

/-- name dictionaries: EVERY ill-formed name-tree node (and some well-formed ones) below EACH of the ten keys -/
def nameDictJunk : List Obj :=
  let s := sO
  let kNames := CatalogRules.kNamesKey
  let kKids := CatalogRules.kKids
  let kLimits := CatalogRules.kLimits
  [dictOf [(kNames, .int 42)], dictOf [(kNames, mkArr [s "a"])], dictOf [(kNames, mkArr [s "a", .int 1])],
   dictOf [(kNames, mkArr [s "a", .ref 5 0, s "b"])], dictOf [(kNames, mkArr [.int 1, .ref 5 0])],
   dictOf [(kNames, mkArr []), (kKids, mkArr [])], dictOf [], dictOf [(kKids, mkArr [.int 1])], dictOf [(kKids, .int 3)],
   dictOf [(kLimits, mkArr [s "a"]), (kNames, mkArr [])], dictOf [(kLimits, mkArr [s "a", .int 1]), (kNames, mkArr [])],
   dictOf [(kLimits, mkArr [s "a", s "b", s "c"]), (kKids, mkArr [])], dictOf [(kLimits, mkArr [s "a", s "b"])],
   dictOf [(kNames, mkArr [s "a", .ref 5 0])], s "foo", .int 1, mkArr []].flatMap fun t =>
      CatalogRules.nameTreeKeys.map fun k => dictOf [(k, t)]

def arrayOfDictJunk : List Obj :=
  [mkArr [.int 1], mkArr [dictOf [], .name (asc "x")], mkArr [dictOf [], mkArr []], mkArr [dictOf [], strm []],
   mkArr [.ref 5 0], mkArr [dictOf [], dictOf [(asc "K", .int 1)]]]

def contentsJunk : List Obj :=
  [mkArr [.int 1], mkArr [strm [], dictOf []], mkArr [strm [], strm [(asc "L", .int 2)]], mkArr [mkArr [strm []]],
   mkArr [strm [], .null], mkArr [.ref 5 0]]

/-- /Resources with ONE ill-typed sub-entry, for each of its eight keys (a scalar; the wrong container) -/
def resourcesJunk : List Obj :=
  (CatalogRules.resourceKeys.flatMap fun k =>
    [dictOf [(k, .int 3)], dictOf [(k, if k == CatalogRules.kProcSet then dictOf [] else mkArr [])],
     dictOf [(k, strm [])], dictOf [(k, .ref 5 0)]])
  ++ [dictOf [(CatalogRules.kFont, dictOf []), (CatalogRules.kProcSet, mkArr [.name (asc "PDF")])],
      dictOf [(CatalogRules.kFont, dictOf []), (CatalogRules.kProcSet, .name (asc "PDF"))]]

/-- the replacement values tried under a key of value kind `vk` (ill-typed and some well-typed: filtered by
    `Mutation.valid`): the basic menu, plus the near misses of the kind -/
def junkFor : ValKind → List Obj
  | .rect => basicJunk ++ rectJunk
  | .date => basicJunk ++ dateJunk
  | .numTree => basicJunk ++ treeJunk
  | .nameDict => basicJunk ++ treeJunk ++ nameDictJunk
  | .arrayOfDict => basicJunk ++ arrayOfDictJunk
  | .contents => basicJunk ++ contentsJunk
  | .resources => basicJunk ++ resourcesJunk
  | .number | .int => basicJunk ++ [sO "1", mkArr [.int 1]]
  | _ => basicJunk

def otherNames : List Bytes :=
  [asc "Foo", asc "usenone", asc "UseNone", asc "SinglePage", asc "R", asc "Pages", asc "Page", asc "Template",
   asc "Catalog", asc "page", []]

def mutationsAt (d : Doc) (w : Where) : List Mutation :=
  match CatalogRules.locate d w with
  | none => []
  | some (k, _, kids, parent) =>
    let drops := (CatalogRules.requiredKeys k).map fun key => Mutation.dropRequired w key
    let adds := (CatalogRules.forbiddenKeys k).flatMap fun key =>
      [Mutation.addForbidden w key (.ref d.rootId 0), .addForbidden w key (.ref (if parent == 0 then 77 else parent) 0),
       .addForbidden w key (.int 17), .addForbidden w key .null]
    let table := CatalogRules.keyTable k
    let names := table.flatMap fun (key, _) => otherNames.map fun n => Mutation.unlistedName w key n
    let wrong := table.flatMap fun (key, vk) => (junkFor vk).map fun v => Mutation.wrongType w key v
    let dk := (List.range kids.length).map fun i => Mutation.directKid w i
    let dp := [Obj.int 17, mkArr [.ref (if parent == 0 then 1 else parent) 0], dictOf [], .null, .name (asc "Foo"),
               dictOf [(CatalogRules.kType, .name CatalogRules.kPages)]].map fun v => Mutation.directParent w v
    drops ++ adds ++ names ++ wrong ++ dk ++ dp

/-! ### the same violations with the offending value given BY INDIRECT REFERENCE -/

/-- navigation in the regenerated shipped specification (the definitions of Props/C10.lean) -/
def res (c : Chk) : Chk := (resolve shippedCtx c).getD c

def findEnt : ChkL → Bytes → Option (KeySpec × Chk)
  | .nil, _ => none
  | .cons k o c t, key => if k = key then some (o, c) else findEnt t key

def entsOf : Chk → ChkL
  | .dict _ es | .dictStar _ es _ _ | .stream _ es => es
  | _ => .nil

def entChk (c : Chk) (key : Bytes) : Chk :=
  match findEnt (entsOf (res c)) key with
  | some (_, x) => res x
  | none => .named "no such entry"

def elemOf (c : Chk) : Chk :=
  match res c with
  | .array _ e _ => res e
  | _ => .named "not an array"

def altsOf (c : Chk) : List Chk :=
  match res c with
  | .disj _ os => os.chks.map res
  | _ => []

def rootChk : Chk := entChk shippedCat CatalogRules.kPages
def rootKid : Chk := elemOf (entChk rootChk CatalogRules.kKids)
def nodeChk : Chk := (altsOf rootKid).getD 0 (.named "?")
def nodeKid : Chk := elemOf (entChk nodeChk CatalogRules.kKids)

/-- every occurrence of the shipped dictionary type of a position kind (pages, templates and inner nodes occur below
    the root and below an inner node) -/
def typesOf : DictKind → List Chk
  | .catalog => [shippedCat]
  | .root => [rootChk]
  | .node => [nodeChk, (altsOf nodeKid).getD 1 (.named "?")]
  | .page => [(altsOf rootKid).getD 1 (.named "?"), (altsOf nodeKid).getD 0 (.named "?")]
  | .tmpl => [(altsOf rootKid).getD 2 (.named "?"), (altsOf nodeKid).getD 2 (.named "?")]

def indIsAllowed (c : Chk) : Bool :=
  match c.attr.ind with
  | .allowed => true
  | _ => false

/-- IndirectSpec Allowed on the check and, for a disjunction, on each of its alternatives -/
def chkIndAllowed (c : Chk) : Bool :=
  match res c with
  | .named _ => false
  | .disj a os => indIsAllowed (.disj a os) && os.chks.all fun alt => indIsAllowed (res alt)
  | r => indIsAllowed r

/-- does the SHIPPED specification allow the value of entry `key` of a dictionary of kind `k` to be given by indirect
    reference?  Every occurrence of the type must declare the entry, with IndirectSpec Allowed. -/
def indAllowed (k : DictKind) (key : Bytes) : Bool :=
  (typesOf k).all fun c =>
    match findEnt (entsOf (res c)) key with
    | some (_, x) => chkIndAllowed x
    | none => false

mutual
def maxNum : Obj → Nat
  | .arr xs | .dict xs | .stream xs _ _ => maxNumL xs
  | .ref n _ => n
  | _ => 0
def maxNumL : ObjL → Nat
  | .nil => 0
  | .cons _ v t => max (maxNum v) (maxNumL t)
end

/-- an object number above every number defined or mentioned in the document and in the value -/
def freshNum (r : Graph × Obj) (v : Obj) : Nat :=
  1 + r.1.foldl (fun m e => max m (max e.1.1 (maxNum e.2))) (max (maxNum r.2) (maxNum v))

/-- `n 0 obj v` (hops = 1), or `n 0 obj n+1 0 R`, ..., ending in `v` -/
def chainDefs (n : Nat) (v : Obj) : Nat → Graph
  | 0 => []
  | 1 => [((n, 0), v)]
  | h+1 => ((n, 0), .ref (n + 1) 0) :: chainDefs (n + 1) v h

/-- entry `key` at position `w` becomes a reference to a NEW object holding `v` (behind `hops` references) -/
def moveBehind (hops : Nat) (w : Where) (key : Bytes) (v : Obj) (r : Graph × Obj) : Graph × Obj :=
  let n := freshNum r v
  let e := CatalogRules.editAt w (CatalogRules.ObjL.set key (.ref n 0)) r
  (e.1 ++ chainDefs n v hops, e.2)

/-- what a generated case does to its document -/
inductive Variant where
  | plain                                      -- the rendered document
  | mutated (m : Mutation) (hops : Nat)        -- a single-rule mutation; hops > 0: offending value behind references
  | byRef (w : Where) (key : Bytes) (hops : Nat)  -- a present well-typed entry moved behind references (hops > 0)

/-- the key whose value a mutation replaces (mutations without an offending VALUE have no by-reference form) -/
def offending : Mutation → Option (Where × Bytes × Obj)
  | .wrongType w key v => some (w, key, v)
  | .unlistedName w key n => some (w, key, .name n)
  | _ => none

/-- a valid single-rule violation (`Mutation.valid`) whose offending value may be given by reference there -/
def mutValid (d : Doc) (m : Mutation) (hops : Nat) : Bool :=
  m.valid d && (hops == 0 ||
    match offending m with
    | some (w, key, _) =>
      (match CatalogRules.locate d w with
       | some (k, _, _, _) => indAllowed k key
       | none => false)
    | none => false)

/-- the present entries of position `w` that the rules type by VALUE (not structural) and the shipped specification
    allows to be indirect -/
def twinsAt (d : Doc) (w : Where) : List (Where × Bytes) :=
  match CatalogRules.locate d w with
  | some (k, .dict kvs, _, _) =>
    (CatalogRules.keyTable k).filterMap fun (key, vk) =>
      if !CatalogRules.structural vk && (kvs.get key).isSome && indAllowed k key then some (w, key) else none
  | _ => []

def twinValid (d : Doc) (w : Where) (key : Bytes) (hops : Nat) : Bool :=
  hops > 0 && (twinsAt d w).any fun p => decide (p.2 = key)

def applyVariant (d : Doc) : Variant → Graph × Obj
  | .plain => CatalogRules.render d
  | .mutated m 0 => CatalogRules.mutate m d
  | .mutated m hops =>
    match offending m with
    | some (w, key, v) => moveBehind hops w key v (CatalogRules.render d)
    | none => CatalogRules.mutate m d
  | .byRef w key hops =>
    match CatalogRules.locate d w with
    | some (_, .dict kvs, _, _) =>
      match kvs.get key with
      | some v => moveBehind hops w key v (CatalogRules.render d)
      | none => CatalogRules.render d
    | _ => CatalogRules.render d

def variantValid (d : Doc) : Variant → Bool
  | .plain => true
  | .mutated m hops => mutValid d m hops
  | .byRef w key hops => twinValid d w key hops

/-- every candidate mutation at every position (valid or not: `Mutation.valid` filters) -/
def candidates (d : Doc) : Array Mutation := ((positions d).flatMap (mutationsAt d)).toArray

def allMutations (d : Doc) : List Mutation := (candidates d).toList.filter (Mutation.valid d)

/-- every present entry that may be moved behind a reference, at every position -/
def twins (d : Doc) : Array (Where × Bytes) := ((positions d).flatMap (twinsAt d)).toArray

/-- a random valid candidate (a bounded number of draws) -/
def pickValid (d : Doc) (cs : Array Mutation) (hops : Nat) : Nat → Rng → Option Mutation
  | 0, _ => none
  | n+1, r =>
    let (i, r) := r.nat cs.size
    match cs[i]? with
    | some m => if mutValid d m hops then some m else pickValid d cs hops n r
    | none => none

/-- fixed small documents for the exhaustive stream -/
def fixedDocs : List Doc :=
  let p (i : Nat) : Node := .page i PageOpts.none
  [ ⟨CatOpts.none, 1, 0, .nil⟩,
    ⟨CatOpts.none, 1, 1, Nodes.ofList [p 2]⟩,
    -- EVERY entry of the catalog, page and template types (Spec/CatalogRules.lean)
    CatalogRules.exDocFull,
    ⟨CatOpts.none, 1, 4, Nodes.ofList [.pages 2 3 (Nodes.ofList [.pages 3 2 (Nodes.ofList [p 4, .tmpl 5 PageOpts.none]), p 6]), p 7]⟩,
    ⟨{ CatOpts.none with pageLabels := some (.inner [805] none), dests := some (.inner [] none) }, 1, 2,
      Nodes.ofList [.pages 2 0 .nil, .pages 3 2 (Nodes.ofList [p 4, p 5])]⟩ ]

def sizes (tier : String) : Nat × Nat := if tier == "thorough" then (3, 4) else (2, 3)

/-- stream names: `x` exhaustive mutations in place, `xr1` `xr2` the same by reference (one / two hops), `xa1` `xa2`
    exhaustive accepted twins; `v` `m` random conforming / mutated documents, `mr1` `mr2` mutated by reference, `vr1` `vr2`
    conforming with one entry by reference; a final `T` = sizes of the thorough tier -/
def hopsOf (stream : String) : Nat :=
  if (stream.splitOn "1").length > 1 then 1 else if (stream.splitOn "2").length > 1 then 2 else 0

/-- the (document, variant) a generated case stands for -/
def caseOf (seed : Nat) (stream : String) (idx : Nat) : Option (Doc × Variant) :=
  let hops := hopsOf stream
  if stream.startsWith "x" then
    -- exhaustive: document idx / 100000, mutation (accepted twin) idx % 100000 (0 = none)
    match fixedDocs[idx / 100000]? with
    | none => none
    | some d =>
      let mi := idx % 100000
      if mi == 0 then (if stream == "x" then some (d, .plain) else none) else
      if stream.startsWith "xa" then
        match (twins d)[mi - 1]? with
        | some (w, key) => some (d, .byRef w key hops)
        | none => none
      else
        match (candidates d)[mi - 1]? with
        | some m => some (d, .mutated m hops)
        | none => none
  else
    let r := Rng.mk' (seed * 1000003 + idx * 7919 + 13)
    let (depth, fan) := if stream.endsWith "T" then (3, 4) else (2, 3)
    let (d, r) := genDoc depth fan r
    if stream.startsWith "v" then
      if hops == 0 then some (d, .plain) else
        let ts := twins d
        let (i, _) := r.nat ts.size
        match ts[i]? with
        | some (w, key) => some (d, .byRef w key hops)
        | none => some (d, .plain)
    else
      match pickValid d (candidates d) hops 40 r with
      | some m => some (d, .mutated m hops)
      | none => some (d, .plain)

def lineOf (seed : Nat) (stream : String) (idx : Nat) : Option String :=
  match caseOf seed stream idx with
  | none => none
  | some (d, v) =>
    let (g, o) := applyVariant d v
    some (sBody "c10" g o ++ s!" | {seed} {stream} {idx}")

/-- the fixed documents whose by-reference forms are enumerated: all five in the thorough tier; in the quick tier the
    one-page document and the document with EVERY entry (root -> page, template, node -> page) for one hop, the
    document with every entry for two hops -/
def byRefDocs (tier : String) (hops : Nat) : List Nat :=
  if tier == "thorough" then List.range fixedDocs.length else if hops == 1 then [1, 2] else [2]

def gen (seed n : Nat) (tier : String) (emit : String → IO Unit) : IO Unit := do
  -- exhaustive stream: every single-rule mutation at every position of the fixed documents
  for di in List.range fixedDocs.length do
    let d := fixedDocs[di]?.getD ⟨CatOpts.none, 1, 0, .nil⟩
    let cs := candidates d
    let (g0, o0) := CatalogRules.render d
    emit (sBody "c10" g0 o0 ++ s!" | {seed} x {di * 100000}")
    for mi in List.range cs.size do
      match cs[mi]? with
      | some m =>
        if m.valid d then
          let (g, o) := CatalogRules.mutate m d
          emit (sBody "c10" g o ++ s!" | {seed} x {di * 100000 + mi + 1}")
      | none => pure ()
  -- the same violations, and the accepted twins, by indirect reference
  for hops in [1, 2] do
    for di in byRefDocs tier hops do
      let d := fixedDocs[di]?.getD ⟨CatOpts.none, 1, 0, .nil⟩
      let cs := candidates d
      for mi in List.range cs.size do
        match cs[mi]? with
        | some m =>
          if mutValid d m hops then
            let (g, o) := applyVariant d (.mutated m hops)
            emit (sBody "c10" g o ++ s!" | {seed} xr{hops} {di * 100000 + mi + 1}")
        | none => pure ()
      let ts := twins d
      for ti in List.range ts.size do
        match ts[ti]? with
        | some (w, key) =>
          let (g, o) := applyVariant d (.byRef w key hops)
          emit (sBody "c10" g o ++ s!" | {seed} xa{hops} {di * 100000 + ti + 1}")
        | none => pure ()
  let sfx := if tier == "thorough" then "T" else ""
  for i in List.range n do
    match lineOf seed ("v" ++ sfx) i with
    | some l => emit l
    | none => pure ()
  for i in List.range (2 * n) do
    match lineOf seed ("m" ++ sfx) i with
    | some l => emit l
    | none => pure ()
  for hops in [1, 2] do
    for i in List.range n do
      match lineOf seed (s!"mr{hops}" ++ sfx) i with
      | some l => emit l
      | none => pure ()
    for i in List.range (n / 2) do
      match lineOf seed (s!"vr{hops}" ++ sfx) i with
      | some l => emit l
      | none => pure ()

/-! ### judge -/

def mutClass : Mutation → String
  | .dropRequired .. => "drop-required"
  | .addForbidden .. => "add-forbidden"
  | .wrongType .. => "wrong-type"
  | .unlistedName .. => "unlisted-name"
  | .directKid .. => "direct-kid"
  | .directParent .. => "direct-parent"

def variantClass : Variant → String
  | .plain => "conforming"
  | .mutated m 0 => mutClass m
  | .mutated m hops => s!"{mutClass m}-by-ref{hops}"
  | .byRef _ _ hops => s!"conforming-by-ref{hops}"

def variantHops : Variant → Nat
  | .plain => 0
  | .mutated _ hops | .byRef _ _ hops => hops

/-- the declarative reading (`Spec.conf`, Spec/Conforms.lean) of the regenerated shipped specification;
    the unfolding depth exceeds three levels per object of the graph plus the depth of any leaf value -/
def shippedDeclarative (g : Graph) (o : Obj) : Bool :=
  Spec.conf g shippedCtx (3 * g.length + 24) o shippedCat

def verdictOf (o : Outcome) : String :=
  match o with
  | .accept => "accept" | .reject _ => "reject" | .panic _ => "panic" | .outOfFuel => "out-of-fuel"

/-- the single-repair variants of the tree configuration (flags that are off in `Fix.tree`) -/
def repairs : List (String × Fix) :=
  [("any-entry-skips-indirect", { Fix.tree with anyInd := true }), ("memo-leak", { Fix.tree with trail := true })]

def classify (c : Case) (want : String) : String :=
  -- the model of the code AS IT IS already gives the expected verdict: none of the recorded engine findings explains
  -- the implementation's answer
  if verdictOf (checkTypeFuel Fix.tree c.g shippedCtx fuel c.obj shippedCat).1 == want then "impl-differs-from-model" else
  let hit := repairs.find? fun p =>
    verdictOf (checkTypeFuel p.2 c.g shippedCtx fuel c.obj shippedCat).1 == want
  match hit with
  | some p => p.1
  | none =>
    if verdictOf (checkTypeFuel Fix.all c.g shippedCtx fuel c.obj shippedCat).1 == want then "multi" else "unclassified"

def judge (line impl : String) : String :=
  match parseCase line with
  | none => "bad bad-case"
  | some c =>
    let got := (words impl).headD "?"
    if got == "hang" then "bad nontermination impl=hang" else
    if got.startsWith "crash:" then s!"bad crash impl={got}" else
    if got == "panic" then s!"bad panic impl={impl}" else
    let decl := if shippedDeclarative c.g c.obj then "accept" else "reject"
    if c.tag == "c10x" then
      match c.extra with
      | ["expect", e] =>
        if e != decl then s!"bad spec-gap-corpus expected={e} shipped-declarative={decl} impl={got}"
        else if got == e then "ok" else s!"bad {classify c e} oracle={e} impl={got}"
      | _ => "bad bad-case"
    else
      match c.extra with
      | [seed, stream, idx] =>
        match caseOf seed.toNat! stream idx.toNat! with
        | none => "bad stale-case no such case"
        | some (d, v) =>
          let (g, o) := applyVariant d v
          if sBody "c10" g o != c.body then "bad stale-case the line is not the rendering of the case it names" else
          if !d.ok then "skip" else
          if !variantValid d v then "skip" else
          let want := match v with | .mutated .. => "reject" | _ => "accept"
          let cls := variantClass v
          -- the by-reference expectations are not covered by mutated_rejected / rendered_conforms: the declarative
          -- reading of the regenerated specification must confirm each of them, whatever the implementation answers
          if variantHops v > 0 && decl != want then
            s!"bad spec-gap-{cls} oracle={want} shipped-declarative={decl} impl={got}" else
          if got == want then "ok"
          else if decl != want then s!"bad spec-gap-{cls} oracle={want} shipped-declarative={decl} impl={got}"
          else s!"bad {classify c want} oracle={want} impl={got} ({cls})"
      | _ => "bad bad-case"

/-- non-trivial: a mutated document, a document with an entry moved behind references, or a conforming one whose page
    tree has a kid and that carries at least one optional entry (the dictionaries hold more than the required keys) -/
def nontrivial (line : String) : Bool :=
  match parseCase line with
  | none => false
  | some c =>
    match c.extra with
    | [seed, stream, idx] =>
      match caseOf seed.toNat! stream idx.toNat! with
      | some (_, .mutated ..) => true
      | some (_, .byRef ..) => true
      | some (d, .plain) =>
        d.kids.toList.length > 0 &&
          (c.g.any fun e => match e.2 with | .dict kvs => kvs.toList.length > 4 | _ => false) ||
          (match c.obj with | .dict kvs => kvs.toList.length > 2 | _ => false)
      | none => false
    | _ => c.tag == "c10x"

def driver : PropDriver := { gen, model, judge, nontrivial }
end Driver.C10
