/-
  C10 driver: gen / model / judge / nontrivial.

  case line :  c10  <graph> <obj> | <seed> <stream> <idx>      generated: (document, mutation) = `caseOf seed stream idx`
               c10x <graph> <obj> | expect accept|reject        hand-built corpus case (arbitrary graph)
               graph := k (num gen obj)*k ; obj as in Driver/TypeCheckCodec.lean
  model : the C08 machine (Model/TypeCheck.lean, tree configuration `Fix.tree`) on the REGENERATED shipped
          specification `Gen.CatalogSpec.catalog` / `.ctx`.
  judge : the RULES of Spec/CatalogRules.lean: the case is re-derived from (seed, stream, idx), the document
          must be well-formed, the mutation a valid single-rule violation, and the line must be exactly its
          rendering; a rendered document must be accepted, a mutated one rejected.  When the implementation
          disagrees, the class says where the fault lies:
            spec-gap-<mutation class>   the shipped specification does not express the rule even when read
                                        declaratively (`Spec.conf` on the regenerated term disagrees with the rules);
                                        for the specification the crate ships NOW this verdict is unreachable:
                                        Parsley.C10.rendered_conforms / mutated_rejected prove the declarative reading
                                        agrees with the rules on every well-formed document and valid mutation -- it
                                        fires only when the Rust specification is changed (and the proofs stop building)
            <repair flag>               the shipped specification is right, the checking engine is not: the name of
                                        the single model repair that removes the disagreement (C08 classifier)
-/
import Driver.Common
import Driver.TypeCheckCodec
import Parsley.Gen.CatalogSpec
import Parsley.Spec.CatalogRules
namespace Driver.C10
open Parsley Parsley.TC Driver Driver.TCCodec
open Parsley.CatalogRules (Doc Node Nodes PageOpts CatOpts Mutation Where Rect Num Date Offset Tree DictKind ValKind)

def fuel : Nat := 400000

def shippedCtx : Ctx := Parsley.Gen.CatalogSpec.ctx
def shippedCat : Chk := Parsley.Gen.CatalogSpec.catalog

def showOutcome : Outcome → String
  | .accept => "accept"
  | .reject k => s!"reject {k.toString}"
  | .panic _ => "panic internal error: entered unreachable code"
  | .outOfFuel => "out-of-fuel"

structure Case where
  tag : String
  g : Graph
  obj : Obj
  body : String          -- the text before `|`
  extra : List String    -- the tokens after `|`

def parseCase (line : String) : Option Case :=
  match line.splitOn " | " with
  | [body, extra] =>
    match words body with
    | tag :: k :: t => do
      let (g, t) ← pGraph k.toNat! t []
      let (o, t) ← pObj t
      if t.isEmpty then pure ⟨tag, g, o, body.trimAscii.toString, words extra⟩ else none
    | _ => none
  | _ => none

def sBody (tag : String) (g : Graph) (o : Obj) : String :=
  s!"{tag} {g.length}" ++ String.join (g.map fun d => s!" {d.1.1} {d.1.2} {sObj d.2}") ++ " " ++ sObj o

def model (line : String) : String :=
  match parseCase line with
  | none => "bad-case"
  | some c => showOutcome (checkTypeFuel Fix.tree c.g shippedCtx fuel c.obj shippedCat).1

/-! ### generators -/

def asc (s : String) : Bytes := s.toUTF8.toList

def genNum (r : Rng) : Num × Rng :=
  let (k, r) := r.nat 3
  let (v, r) := r.nat 2000
  if k == 0 then (.real (Int.ofNat v - 1000) 10, r) else (.int (Int.ofNat v - 500), r)

def genRect (r : Rng) : Rect × Rng :=
  let (a, r) := genNum r
  let (b, r) := genNum r
  let (c, r) := genNum r
  let (d, r) := genNum r
  (⟨a, b, c, d⟩, r)

def genFin (n : Nat) (h : 0 < n) (r : Rng) : Fin n × Rng :=
  let (v, r) := r.nat n
  (⟨v % n, Nat.mod_lt _ h⟩, r)

def genOpt {α : Type} (num den : Nat) (g : Rng → α × Rng) (r : Rng) : Option α × Rng :=
  let (k, r) := r.nat den
  if k < num then let (v, r) := g r; (some v, r) else (none, r)

def genOffset (r : Rng) : Offset × Rng :=
  let (s, r) := genFin 3 (by decide) r
  let (h, r) := genOpt 2 3 (genFin 24 (by decide)) r
  let (m, r) := genOpt 2 3 (genFin 60 (by decide)) r
  let (a, r) := r.nat 2
  (⟨s, h, m, a == 1⟩, r)

/-- a date with a random number of leading fields present -/
def genDate (r : Rng) : Date × Rng :=
  let (y, r) := genFin 10000 (by decide) r
  let (depth, r) := r.nat 7
  let (mo, r) := genFin 12 (by decide) r
  let (da, r) := genFin 31 (by decide) r
  let (h, r) := genFin 24 (by decide) r
  let (mi, r) := genFin 60 (by decide) r
  let (s, r) := genFin 60 (by decide) r
  let (o, r) := genOffset r
  (⟨y, if depth ≥ 1 then some mo else none, if depth ≥ 2 then some da else none,
    if depth ≥ 3 then some h else none, if depth ≥ 4 then some mi else none,
    if depth ≥ 5 then some s else none, if depth ≥ 6 then some o else none⟩, r)

def genList {α : Type} (maxLen : Nat) (g : Rng → α × Rng) (r : Rng) : List α × Rng :=
  let (n, r) := r.nat (maxLen + 1)
  (List.range n).foldl (fun (acc : List α × Rng) _ => let (x, r) := g acc.2; (x :: acc.1, r)) ([], r)

def genKeyStr (r : Rng) : Bytes × Rng :=
  let (n, r) := r.nat 4
  let (bs, r) := Rng.bytes n r
  (asc "k" ++ bs, r)

def genTree {κ : Type} (gk : Rng → κ × Rng) (r : Rng) : Tree κ × Rng :=
  let (k, r) := r.nat 2
  let (lim, r) := genOpt 1 2 (fun r => let (a, r) := gk r; let (b, r) := gk r; ((a, b), r)) r
  if k == 0 then
    let (ps, r) := genList 3 (fun r => let (a, r) := gk r; let (i, r) := r.nat 50; ((a, 800 + i), r)) r
    (.leaf ps lim, r)
  else
    let (ks, r) := genList 3 (fun r => let (i, r) := r.nat 50; (800 + i, r)) r
    (.inner ks lim, r)

def genInt (r : Rng) : Int × Rng :=
  let (v, r) := r.nat 400
  (Int.ofNat v - 100, r)

def genPageOpts (r : Rng) : PageOpts × Rng :=
  let (annots, r) := genOpt 1 4 (genList 3 fun r => let (i, r) := r.nat 50; (900 + i, r)) r
  let (crop, r) := genOpt 1 4 genRect r
  let (id, r) := genOpt 1 5 genKeyStr r
  let (lm, r) := genOpt 1 3 genDate r
  let (media, r) := genOpt 1 2 genRect r
  let (rot, r) := genOpt 1 4 (fun r => let (k, r) := r.nat 4; (Int.ofNat (k * 90), r)) r
  let (tabs, r) := genOpt 1 4 (genFin 5 (by decide)) r
  let (uu, r) := genOpt 1 5 genNum r
  (⟨annots, crop, id, lm, media, rot, tabs, uu⟩, r)

/-- a random subtree; object numbers are allocated consecutively from `next` -/
partial def genNode (depth fan : Nat) (next : Nat) (r : Rng) : Node × Nat × Rng :=
  let (k, r) := r.nat 10
  if depth == 0 || k < 4 then
    let (o, r) := genPageOpts r
    if k == 0 then (.tmpl next o, next + 1, r) else (.page next o, next + 1, r)
  else
    let (n, r) := r.nat (fan + 1)
    let (c, r) := genInt r
    let (kids, nx, r) := (List.range n).foldl (fun (acc : List Node × Nat × Rng) _ =>
      let (kid, nx, r) := genNode (depth - 1) fan acc.2.1 acc.2.2
      (kid :: acc.1, nx, r)) ([], next + 1, r)
    (.pages next c (Nodes.ofList kids.reverse), nx, r)

def genCatOpts (next : Nat) (r : Rng) : CatOpts × Rng :=
  let (lang, r) := genOpt 1 4 genKeyStr r
  let (md, r) := genOpt 1 4 (fun r => (next, r)) r
  let (dests, r) := genOpt 1 3 (genTree genKeyStr) r
  let (emb, r) := genOpt 1 4 (genTree genKeyStr) r
  let (nr, r) := genOpt 1 5 (fun r => let (k, r) := r.nat 2; (k == 1, r)) r
  let (oa, r) := genOpt 1 4 (fun r => let (k, r) := r.nat 2; (k == 1, r)) r
  let (ol, r) := genOpt 1 4 (fun r => (next + 1, r)) r
  let (pl, r) := genOpt 1 2 (genTree genInt) r
  let (lay, r) := genOpt 1 3 (genFin 6 (by decide)) r
  let (mode, r) := genOpt 1 3 (genFin 6 (by decide)) r
  let (ver, r) := genOpt 1 4 (fun r => let (k, r) := r.nat 8; (asc s!"1.{k}", r)) r
  (⟨lang, md, dests, emb, nr, oa, ol, pl, lay, mode, ver⟩, r)

def genDoc (depth fan : Nat) (r : Rng) : Doc × Rng :=
  let (n, r) := r.nat (fan + 1)
  let (c, r) := genInt r
  let (kids, nx, r) := (List.range n).foldl (fun (acc : List Node × Nat × Rng) _ =>
    let (kid, nx, r) := genNode depth fan acc.2.1 acc.2.2
    (kid :: acc.1, nx, r)) ([], 2, r)
  let (cat, r) := genCatOpts nx r
  (⟨cat, 1, c, Nodes.ofList kids.reverse⟩, r)

/-! ### every single-rule mutation at every position -/

mutual
partial def nodePositions : Node → List Nat
  | .page i _ | .tmpl i _ => [i]
  | .pages i _ kids => i :: nodesPositions kids
partial def nodesPositions : Nodes → List Nat
  | .nil => []
  | .cons n t => nodePositions n ++ nodesPositions t
end

def positions (d : Doc) : List Where :=
  .catalog :: .obj d.rootId :: (nodesPositions d.kids).map Where.obj

def dictOf (kvs : List (Bytes × Obj)) : Obj := .dict (mkDict kvs)

/-- a menu of ill-typed (and some well-typed: filtered by `Mutation.valid`) replacement values -/
def junk : List Obj :=
  let s (x : String) : Obj := .str (asc x)
  let kNums := CatalogRules.kNums
  let kNames := CatalogRules.kNamesKey
  let kKids := CatalogRules.kKids
  let kLimits := CatalogRules.kLimits
  [.int 42, .name (asc "Foo"), s "foo", .bool true, .null, .real 1 2, mkArr [], dictOf [],
   mkArr [.int 1, .int 2, .int 3], mkArr [.int 1, .int 2, .int 3, .name (asc "x")],
   mkArr [.int 1, .int 2, .int 3, .int 4, .int 5], mkArr [.int 0, .int 0, .real 612 1, .int 792],
   s "D:20201", s "D:202013", s "D:2020Z", s "D:20200231", s "D:20201231235959+24'00", s "D:2020123123595",
   s "D:20201231235959Z00'00''", s "2020", s "D:", s "D:1999",
   -- `\d` of the regex crate is the Unicode class Nd: ARABIC-INDIC digits in the year
   .str ([0x44, 0x3A, 0xD9, 0xA1, 0xD9, 0xA9, 0xD9, 0xA9, 0xD9, 0xA9]),
   .str ([0x44, 0x3A, 0x31, 0x39, 0x39, 0xFF]),
   -- trees
   dictOf [(kNums, .int 42)], dictOf [(kNums, mkArr [.int 1])], dictOf [(kNums, mkArr [s "a", .ref 5 0])],
   dictOf [(kNums, mkArr [.int 1, .int 2])], dictOf [(kNums, mkArr []), (kKids, mkArr [])],
   dictOf [(kKids, mkArr [.int 1])], dictOf [(kKids, .int 3)], dictOf [(kLimits, mkArr [.int 1]), (kNums, mkArr [])],
   dictOf [(kLimits, mkArr [.int 1, s "z"]), (kNums, mkArr [])],
   dictOf [(kNames, mkArr [.int 1, .ref 5 0])], dictOf [(kNames, mkArr [s "a", .ref 5 0])], dictOf [(kNums, mkArr [.int 1, .ref 5 0])],
   dictOf [(kNames, .int 42)], dictOf [(kNames, mkArr [s "a"])], dictOf [(kNames, mkArr [s "a", .int 1])],
   dictOf [(kNames, mkArr []), (kKids, mkArr [])], dictOf [(kKids, mkArr [.ref 5 0]), (kNames, .null)],
   -- name dictionaries
   dictOf [(CatalogRules.kDests, s "foo")], dictOf [(CatalogRules.kDests, dictOf [(kNames, mkArr [.int 1, .ref 5 0])])],
   dictOf [(CatalogRules.kEmbeddedFiles, dictOf [(kNames, .int 3)])], dictOf [(CatalogRules.kEmbeddedFiles, dictOf [])],
   dictOf [(CatalogRules.kDests, dictOf [(kNames, mkArr [s "a", .ref 5 0])])]]
  ++ -- every ill-formed name-tree node below /Dests and /EmbeddedFiles, number-tree nodes with odd arrays
  ([dictOf [(kNames, .int 42)], dictOf [(kNames, mkArr [s "a"])], dictOf [(kNames, mkArr [s "a", .int 1])],
    dictOf [(kNames, mkArr [s "a", .ref 5 0, s "b"])], dictOf [(kNames, mkArr [.int 1, .ref 5 0])],
    dictOf [(kNames, mkArr []), (kKids, mkArr [])], dictOf [], dictOf [(kKids, mkArr [.int 1])], dictOf [(kKids, .int 3)],
    dictOf [(kLimits, mkArr [s "a"]), (kNames, mkArr [])], dictOf [(kLimits, mkArr [s "a", .int 1]), (kNames, mkArr [])],
    dictOf [(kLimits, mkArr [s "a", s "b", s "c"]), (kKids, mkArr [])], dictOf [(kLimits, mkArr [s "a", s "b"])],
    s "foo", .int 1, mkArr []].flatMap fun t =>
      [dictOf [(CatalogRules.kDests, t)], dictOf [(CatalogRules.kEmbeddedFiles, t)]])
  ++ [dictOf [(kNums, mkArr [.int 1, .ref 5 0, .int 2])], dictOf [(kLimits, mkArr [.int 1, .int 2, .int 3]), (kKids, mkArr [])],
      dictOf [(kLimits, mkArr [.int 1, .int 2])], dictOf [(kKids, mkArr [.ref 5 0, .int 1])]]

def otherNames : List Bytes :=
  [asc "Foo", asc "usenone", asc "UseNone", asc "SinglePage", asc "R", asc "Pages", asc "Page", asc "Template",
   asc "Catalog", asc "page", []]

def mutationsAt (d : Doc) (w : Where) : List Mutation :=
  match CatalogRules.locate d w with
  | none => []
  | some (k, _, kids, parent) =>
    let drops := (CatalogRules.requiredKeys k).map fun key => Mutation.dropRequired w key
    let adds := (CatalogRules.forbiddenKeys k).flatMap fun key =>
      [Mutation.addForbidden w key (.ref d.rootId 0), .addForbidden w key (.ref (if parent == 0 then 77 else parent) 0),
       .addForbidden w key (.int 17), .addForbidden w key .null]
    let table := CatalogRules.keyTable k
    let names := table.flatMap fun (key, _) => otherNames.map fun n => Mutation.unlistedName w key n
    let wrong := table.flatMap fun (key, _) => junk.map fun v => Mutation.wrongType w key v
    let dk := (List.range kids.length).map fun i => Mutation.directKid w i
    let dp := [Obj.int 17, mkArr [.ref (if parent == 0 then 1 else parent) 0], dictOf [], .null, .name (asc "Foo"),
               dictOf [(CatalogRules.kType, .name CatalogRules.kPages)]].map fun v => Mutation.directParent w v
    drops ++ adds ++ names ++ wrong ++ dk ++ dp

/-- every candidate mutation at every position (valid or not: `Mutation.valid` filters) -/
def candidates (d : Doc) : Array Mutation := ((positions d).flatMap (mutationsAt d)).toArray

def allMutations (d : Doc) : List Mutation := (candidates d).toList.filter (Mutation.valid d)

/-- a random valid candidate (a bounded number of draws) -/
def pickValid (d : Doc) (cs : Array Mutation) : Nat → Rng → Option Mutation
  | 0, _ => none
  | n+1, r =>
    let (i, r) := r.nat cs.size
    match cs[i]? with
    | some m => if m.valid d then some m else pickValid d cs n r
    | none => none

/-- fixed small documents for the exhaustive stream -/
def fixedDocs : List Doc :=
  let p (i : Nat) : Node := .page i PageOpts.none
  let rect : Rect := ⟨.int 0, .int 0, .real 612 1, .int 792⟩
  let date : Date := ⟨⟨2020, by decide⟩, some ⟨11, by decide⟩, some ⟨30, by decide⟩, some ⟨23, by decide⟩,
                      some ⟨59, by decide⟩, some ⟨59, by decide⟩, some ⟨⟨1, by decide⟩, some ⟨8, by decide⟩, some ⟨0, by decide⟩, true⟩⟩
  let po : PageOpts := ⟨some [901], some rect, some (asc "id"), some date, some rect, some 90, some ⟨2, by decide⟩, some (.real 3 2)⟩
  let co : CatOpts := ⟨some (asc "en"), some 20, some (.leaf [(asc "a", 801)] none), some (.inner [802] (some (asc "a", asc "b"))),
                       some true, some true, some 21, some (.leaf [(0, 803), (5, 804)] (some (0, 5))), some ⟨1, by decide⟩,
                       some ⟨3, by decide⟩, some (asc "1.7")⟩
  [ ⟨CatOpts.none, 1, 0, .nil⟩,
    ⟨CatOpts.none, 1, 1, Nodes.ofList [p 2]⟩,
    ⟨co, 1, 3, Nodes.ofList [.page 2 po, .tmpl 3 po, .pages 4 1 (Nodes.ofList [p 5])]⟩,
    ⟨CatOpts.none, 1, 4, Nodes.ofList [.pages 2 3 (Nodes.ofList [.pages 3 2 (Nodes.ofList [p 4, .tmpl 5 PageOpts.none]), p 6]), p 7]⟩,
    ⟨{ CatOpts.none with pageLabels := some (.inner [805] none), dests := some (.inner [] none) }, 1, 2,
      Nodes.ofList [.pages 2 0 .nil, .pages 3 2 (Nodes.ofList [p 4, p 5])]⟩ ]

def sizes (tier : String) : Nat × Nat := if tier == "thorough" then (3, 4) else (2, 3)

/-- the (document, mutation) a generated case stands for -/
def caseOf (seed : Nat) (stream : String) (idx : Nat) : Option (Doc × Option Mutation) :=
  if stream == "x" then
    -- exhaustive: document idx / 100000, mutation idx % 100000 (0 = none)
    match fixedDocs[idx / 100000]? with
    | none => none
    | some d =>
      let mi := idx % 100000
      if mi == 0 then some (d, none) else
        match (candidates d)[mi - 1]? with
        | some m => some (d, some m)
        | none => none
  else
    let r := Rng.mk' (seed * 1000003 + idx * 7919 + 13)
    let (depth, fan) := if stream.endsWith "T" then (3, 4) else (2, 3)
    let (d, r) := genDoc depth fan r
    if stream.startsWith "v" then some (d, none)
    else
      some (d, pickValid d (candidates d) 40 r)

def renderCase (d : Doc) (m : Option Mutation) : Graph × Obj :=
  match m with
  | none => CatalogRules.render d
  | some m => CatalogRules.mutate m d

def lineOf (seed : Nat) (stream : String) (idx : Nat) : Option String :=
  match caseOf seed stream idx with
  | none => none
  | some (d, m) =>
    let (g, o) := renderCase d m
    some (sBody "c10" g o ++ s!" | {seed} {stream} {idx}")

def gen (seed n : Nat) (tier : String) (emit : String → IO Unit) : IO Unit := do
  -- exhaustive stream: every single-rule mutation at every position of the fixed documents
  for di in List.range fixedDocs.length do
    let d := fixedDocs[di]?.getD ⟨CatOpts.none, 1, 0, .nil⟩
    let cs := candidates d
    let (g0, o0) := CatalogRules.render d
    emit (sBody "c10" g0 o0 ++ s!" | {seed} x {di * 100000}")
    for mi in List.range cs.size do
      match cs[mi]? with
      | some m =>
        if m.valid d then
          let (g, o) := CatalogRules.mutate m d
          emit (sBody "c10" g o ++ s!" | {seed} x {di * 100000 + mi + 1}")
      | none => pure ()
  let sfx := if tier == "thorough" then "T" else ""
  for i in List.range n do
    match lineOf seed ("v" ++ sfx) i with
    | some l => emit l
    | none => pure ()
  for i in List.range (2 * n) do
    match lineOf seed ("m" ++ sfx) i with
    | some l => emit l
    | none => pure ()

/-! ### judge -/

def mutClass : Mutation → String
  | .dropRequired .. => "drop-required"
  | .addForbidden .. => "add-forbidden"
  | .wrongType .. => "wrong-type"
  | .unlistedName .. => "unlisted-name"
  | .directKid .. => "direct-kid"
  | .directParent .. => "direct-parent"

/-- the declarative reading (`Spec.conf`, Spec/Conforms.lean) of the regenerated shipped specification;
    the unfolding depth exceeds three levels per object of the graph plus the depth of any leaf value -/
def shippedDeclarative (g : Graph) (o : Obj) : Bool :=
  Spec.conf g shippedCtx (3 * g.length + 24) o shippedCat

def verdictOf (o : Outcome) : String :=
  match o with
  | .accept => "accept" | .reject _ => "reject" | .panic _ => "panic" | .outOfFuel => "out-of-fuel"

/-- the single-repair variants of the tree configuration (flags that are off in `Fix.tree`) -/
def repairs : List (String × Fix) :=
  [("any-entry-skips-indirect", { Fix.tree with anyInd := true }), ("memo-leak", { Fix.tree with trail := true })]

def classify (c : Case) (want : String) : String :=
  let hit := repairs.find? fun p =>
    verdictOf (checkTypeFuel p.2 c.g shippedCtx fuel c.obj shippedCat).1 == want
  match hit with
  | some p => p.1
  | none =>
    if verdictOf (checkTypeFuel Fix.all c.g shippedCtx fuel c.obj shippedCat).1 == want then "multi" else "unclassified"

def judge (line impl : String) : String :=
  match parseCase line with
  | none => "bad bad-case"
  | some c =>
    let got := (words impl).headD "?"
    if got == "hang" then "bad nontermination impl=hang" else
    if got.startsWith "crash:" then s!"bad crash impl={got}" else
    if got == "panic" then s!"bad panic impl={impl}" else
    let decl := if shippedDeclarative c.g c.obj then "accept" else "reject"
    if c.tag == "c10x" then
      match c.extra with
      | ["expect", e] =>
        if e != decl then s!"bad spec-gap-corpus expected={e} shipped-declarative={decl} impl={got}"
        else if got == e then "ok" else s!"bad {classify c e} oracle={e} impl={got}"
      | _ => "bad bad-case"
    else
      match c.extra with
      | [seed, stream, idx] =>
        match caseOf seed.toNat! stream idx.toNat! with
        | none => "bad stale-case no such case"
        | some (d, m) =>
          let (g, o) := renderCase d m
          if sBody "c10" g o != c.body then "bad stale-case the line is not the rendering of the case it names" else
          if !d.ok then "skip" else
          if !(match m with | none => true | some m => m.valid d) then "skip" else
          let want := if m.isNone then "accept" else "reject"
          let cls := match m with | none => "conforming" | some m => mutClass m
          if got == want then "ok"
          else if decl != want then s!"bad spec-gap-{cls} oracle={want} shipped-declarative={decl} impl={got}"
          else s!"bad {classify c want} oracle={want} impl={got} ({cls})"
      | _ => "bad bad-case"

/-- non-trivial: a mutated document, or a conforming one whose page tree has a kid and that carries at least one
    optional entry (the dictionaries hold more than the required keys) -/
def nontrivial (line : String) : Bool :=
  match parseCase line with
  | none => false
  | some c =>
    match c.extra with
    | [seed, stream, idx] =>
      match caseOf seed.toNat! stream idx.toNat! with
      | some (d, some _) => d.kids.toList.length > 0 || true
      | some (d, none) =>
        d.kids.toList.length > 0 &&
          (c.g.any fun e => match e.2 with | .dict kvs => kvs.toList.length > 4 | _ => false) ||
          (match c.obj with | .dict kvs => kvs.toList.length > 2 | _ => false)
      | none => false
    | _ => c.tag == "c10x"

def driver : PropDriver := { gen, model, judge, nontrivial }
end Driver.C10
