import Driver.Common
import Parsley.Model.PageDom
import Parsley.Spec.PageTree
/-
  C11 line protocol.
  case:  <tag> <rootnum> <k> (num gen obj)*k        tag: tc | any
  obj := A k obj*k | D k (keyhex obj)*k | S k (keyhex obj)*k hex | R num gen | B 0|1 | Z hex | N hex | U | I int
  (same grammar as harness/src/bin/c11.rs, which renders the graph as PDF text and parses it with
  the real parser).
-/
namespace Driver.C11
open Parsley Parsley.Obj Parsley.PageDom Driver

/-! ### codec -/

mutual
partial def encObj : Obj → String
  | .null => "U"
  | .bool b => if b then "B 1" else "B 0"
  | .int n => s!"I {n}"
  | .real n _ => s!"I {n}"
  | .str bs => s!"Z {hexOfBytes bs}"
  | .name bs => s!"N {hexOfBytes bs}"
  | .ref n g => s!"R {n} {g}"
  | .comment _ => "U"
  | .arr xs => s!"A {xs.length}" ++ String.join (xs.map fun x => " " ++ encObj x)
  | .dict kvs => s!"D {kvs.length}" ++ encKvs kvs
  | .stream kvs sc => s!"S {kvs.length}" ++ encKvs kvs ++ " " ++ hexOfBytes sc.content
partial def encKvs (kvs : List (Bytes × Obj)) : String :=
  String.join (kvs.map fun (k, v) => " " ++ hexOfBytes k ++ " " ++ encObj v)
end

/-- a case whose objects are defined under full identifiers (number, generation) -/
def encCaseG (tag : String) (root : Nat) (objs : List ((Nat × Nat) × Obj)) : String :=
  s!"{tag} {root} {objs.length}" ++ String.join (objs.map fun ((n, g), o) => s!" {n} {g} " ++ encObj o)

def encCase (tag : String) (root : Nat) (objs : List (Nat × Obj)) : String :=
  encCaseG tag root (objs.map fun (n, o) => ((n, 0), o))

mutual
partial def decObj : List String → Option (Obj × List String)
  | "U" :: t => some (.null, t)
  | "B" :: b :: t => some (.bool (b == "1"), t)
  | "I" :: i :: t => i.toInt?.map fun n => (.int n, t)
  | "Z" :: h :: t => (bytesOfHex h).map fun b => (.str b, t)
  | "N" :: h :: t => (bytesOfHex h).map fun b => (.name b, t)
  | "R" :: n :: g :: t => match n.toNat?, g.toNat? with | some n, some g => some (.ref n g, t) | _, _ => none
  | "A" :: k :: t => k.toNat?.bind fun k => decList k t []
  | "D" :: k :: t => k.toNat?.bind fun k => (decKvs k t []).map fun (kvs, t) => (.dict kvs, t)
  | "S" :: k :: t => k.toNat?.bind fun k =>
      match decKvs k t [] with
      | some (kvs, h :: t) => (bytesOfHex h).map fun b =>
          -- the printer appends /Length <n>
          (.stream (dictInsert (strBytes "Length") (.int b.length) kvs) ⟨0, b.length, b⟩, t)
      | _ => none
  | _ => none
partial def decList : Nat → List String → List Obj → Option (Obj × List String)
  | 0, t, acc => some (.arr acc.reverse, t)
  | k + 1, t, acc => match decObj t with | some (o, t) => decList k t (o :: acc) | none => none
partial def decKvs : Nat → List String → Kvs → Option (Kvs × List String)
  | 0, t, acc => some (acc, t)
  | k + 1, h :: t, acc =>
    match bytesOfHex h, decObj t with
    -- the real dictionary parser drops an entry whose value is `null` (pdf_obj.rs: "Entries with
    -- 'null' values are treated as though the entry does not exist"): the graph the converter sees
    | some _, some (.null, t) => decKvs k t acc
    | some key, some (o, t) => decKvs k t (dictInsert key o acc)
    | _, _ => none
  | _, _, _ => none
end

partial def decDefs : Nat → List String → Defs → Option Defs
  | 0, [], acc => some acc.reverse
  | 0, _, _ => none
  | k + 1, n :: g :: t, acc =>
    match n.toNat?, g.toNat?, decObj t with
    | some n, some g, some (o, t) => decDefs k t (((n, g), o) :: acc)
    | _, _, _ => none
  | _, _, _ => none

structure Case where
  tag : String
  root : Nat
  defs : Defs

def decCase (line : String) : Option Case :=
  match words line with
  | tag :: root :: k :: t =>
    match root.toNat?, k.toNat? with
    | some root, some k => (decDefs k t []).map fun defs => { tag, root, defs }
    | _, _ => none
  | _ => none

/-! ### canonical output of the model (must equal the harness's) -/

def showId (id : ObjId) : String := s!"{id.1}.{id.2}"
def showIds (l : List ObjId) : String := if l.isEmpty then "-" else ",".intercalate (l.map showId)
def showFP : Option Bool → String | some true => "T" | some false => "F" | none => "U"
def showEnc : Option FontEnc → String
  | none => "-" | some .macRoman => "mac" | some .macExpert => "exp" | some .winAnsi => "win"
  | some (.unknown s) => s!"unk.{hexOfBytes s}" | some (.dict _) => "dict"
def showFont (k : Bytes) (f : FontDict) : String :=
  s!"{hexOfBytes k}:{hexOfBytes f.basefont}:{showFP f.isEmbedded}:{showFP f.isSymbolic}:{showEnc f.encoding}"
def showRes (r : Resources) : String := "{" ++ ",".intercalate (r.fonts.map fun (k, f) => showFont k f) ++ "}"
def showORes : Option Resources → String | none => "~" | some r => showRes r
def showSrc : Src → String | .byId id => showId id | .inline => "inline"

def errName (e : DomErr) : String := ((reprStr e).splitOn ".").getLast!

def showDom (root : RootNode) (dom : Dom) : String :=
  let ents := dom.pages.map fun (id, pk) =>
    match pk with
    | .node n => s!" N{showId id}[p={showId n.parent};c={n.count};r={showORes n.resources};k={showIds n.kids}]"
    | .leaf p =>
      let cs := if p.contents.isEmpty then "-" else ",".intercalate (p.contents.map fun c => showSrc c.1)
      s!" P{showId id}[p={showId p.parent};r={showRes p.resources};s={cs}]"
  s!"ok R[c={root.count};r={showORes root.resources};k={showIds root.kids}]" ++ String.join ents ++
    s!" FD[{showIds (dom.fontDicts.map (·.1))}] FS[{showIds (dom.fontDescrs.map (·.1))}]"

def model (line : String) : String :=
  match decCase line with
  | none => "bad-case"
  | some c =>
    match lookup c.defs (c.root, 0) with
    | none => "bad-case noroot"
    | some cat =>
      match toPageDom c.defs cat with
      | .panic p => s!"panic {p}"
      | .err e => s!"err {errName e}"
      | .ok (root, dom) => showDom root dom

/-! ### the oracle: expected DOM from the declarative spec, compared with the implementation's
    output reduced to property-level observables (font resource *names* only) -/

open Parsley.PageTreeSpec in
def showScope : Scope → String
  | none => "~"
  | some ks => "{" ++ ",".intercalate (ks.map hexOfBytes) ++ "}"

def insertSorted (r : PageTreeSpec.Rec) : List PageTreeSpec.Rec → List PageTreeSpec.Rec
  | [] => [r]
  | x :: t => if idLt r.id x.id then r :: x :: t else x :: insertSorted r t

open Parsley.PageTreeSpec in
def showRec : Rec → String
  | .node id p c f kids => s!"N{showId id}[p={showId p};c={c};r={showScope f};k={showIds kids}]"
  | .leaf id p f cs =>
    let s := if cs.isEmpty then "-" else ",".intercalate (cs.map fun | some id => showId id | none => "inline")
    s!"P{showId id}[p={showId p};r={showScope (some f)};s={s}]"

open Parsley.PageTreeSpec in
def expected (c : Case) : Option String :=
  match defOf c.defs (c.root, 0) with
  | none => none
  | some cat =>
    match specDom c.defs cat with
    | none => some "err"
    | some d =>
      let recs := d.recs.foldr insertSorted []
      some (" ".intercalate
        (s!"ok R[c={d.rootCount};r={showScope d.rootFonts};k={showIds d.rootKids}]" :: recs.map showRec))

/-- keep only the resource name of each font tuple inside `r={...}` -/
def reduceToken (tok : String) : String :=
  match tok.splitOn "r={" with
  | [a, rest] =>
    match rest.splitOn "}" with
    | body :: more =>
      let fonts := if body.isEmpty then [] else body.splitOn ","
      let keys := fonts.map fun f => (f.splitOn ":").headD ""
      a ++ "r={" ++ ",".intercalate keys ++ "}" ++ "}".intercalate more
    | [] => tok
  | _ => tok

def reduceImpl (impl : String) : String :=
  match words impl with
  | "err" :: _ => "err"
  | "ok" :: t =>
    " ".intercalate ("ok" :: (t.filter fun w => !(w.startsWith "FD[" || w.startsWith "FS[")).map reduceToken)
  | _ => impl

def judge (case impl : String) : String :=
  match decCase case with
  | none => "skip"
  | some c =>
    -- the theorems of Props/C11Spec are about definition maps whose dictionaries are genuine maps
    -- (keys strictly increasing, `wfDefs`); every case must be inside that domain
    if !PageTreeSpec.wfDefs c.defs then "bad notmap a dictionary of the case is not a sorted map" else
    match expected c with
    | none => "skip"
    | some e =>
      let impl := impl.trimAscii.toString
      if impl.startsWith "TCREJECT" then "bad tcreject generator claims type-correct, real check_type rejects"
      else if impl.startsWith "hang" then s!"bad hang DOM construction does not terminate; expected={e.take 60}"
      else if impl.startsWith "crash" then s!"bad crash {impl} expected={e.take 60}"
      else if impl.startsWith "panic" then s!"bad panic {impl}"
      else if impl.startsWith "err-badloc" then "bad errloc error location outside the document"
      else
        let r := reduceImpl impl
        if r == e then "ok"
        else if e == "err" then s!"bad missed-error got={r.take 200}"
        else if r == "err" then s!"bad spurious-error expected={e.take 200}"
        else s!"bad dom expected={e.take 300} got={r.take 300}"

/-! ### generator -/

structure GS where
  rng : Rng
  next : Nat := 3
  objs : List (Nat × Obj) := []
  feats : Nat := 0     -- number of indirection links generated

abbrev G := StateM GS

def rnd (n : Nat) : G Nat := modifyGet fun s => let (v, r) := s.rng.nat n; (v, { s with rng := r })
def fresh : G Nat := modifyGet fun s => (s.next, { s with next := s.next + 1 })
def define (id : Nat) (o : Obj) : G Unit := modify fun s => { s with objs := s.objs ++ [(id, o)] }
def nm (s : String) : Obj := .name (strBytes s)
def mkDict (l : List (String × Obj)) : Obj := .dict (l.foldl (fun acc (k, v) => dictInsert (strBytes k) v acc) [])
def pickL {α} [Inhabited α] (l : List α) : G α := do let i ← rnd l.length; return l[i]?.getD default

/-- put `o` behind `k` links -/
def chainN (o : Obj) : Nat → G Obj
  | 0 => pure o
  | k + 1 => do
    let id ← fresh
    define id o
    modify fun s => { s with feats := s.feats + 1 }
    chainN (.ref id 0) k

/-- chain length: mostly 0/1, sometimes 2 or 3, one time in 20 long (4..44 links: no hop budget
    smaller than the number of defined objects is correct, see the long-chain family below) -/
def chainLen (min : Nat) : G Nat := do
  let r ← rnd 20
  if r == 19 then
    let l ← rnd 41
    return l + 4
  return Nat.max min (if r < 8 then 0 else if r < 14 then 1 else if r < 18 then 2 else 3)

def mkStream : G Obj := do
  let r ← rnd 3
  let body := if r == 0 then "BT ET" else if r == 1 then "q Q" else ""
  return .stream [] ⟨0, body.length, strBytes body⟩

def mkEncoding (wild : Bool) : G (Option Obj) := do
  let r ← rnd (if wild then 9 else 7)
  match r with
  | 0 | 1 => return none
  | 2 => return some (nm "WinAnsiEncoding")
  | 3 => return some (nm "MacRomanEncoding")
  | 4 => return some (nm "Custom")
  | 5 => do let o ← chainN (nm "MacExpertEncoding") 1; return some o
  | 6 => return some (mkDict [("Type", nm "Encoding")])
  | 7 => return some (.name [0x43, 0xC3, 0xA9])        -- valid UTF-8
  | _ => return some (.name [0x43, 0xED, 0xA0, 0x80])  -- surrogate: invalid UTF-8

def mkDescr (wild : Bool) : G (Option Obj) := do
  let r ← rnd 4
  if r == 0 then return none
  let fl ← pickL [4, 32, 6, 262176, 0]
  let ff ← rnd 2
  let base := [("Type", nm "FontDescriptor"), ("FontName", nm "ABCDEF+Foo"), ("Flags", .int fl)]
  let base ← if ff == 1 then do
      let id ← fresh; define id (.stream [] ⟨0, 2, [48, 49]⟩); pure (base ++ [("FontFile2", .ref id 0)])
    else pure base
  let base := if wild && r == 3 && ff == 0 then base.filter (·.1 != "Flags") else base
  let d := mkDict base
  if r == 1 then return some d
  let o ← chainN d 1
  return some o

def mkFont (wild : Bool) : G Obj := do
  let bf ← pickL ["Helvetica", "Courier-Bold", "ABCDEF+Foo", "Symbol"]
  let st ← pickL ["Type1", "Type1", "TrueType", "Type0"]
  let enc ← mkEncoding wild
  let de ← mkDescr wild
  let l := [("Type", nm "Font"), ("Subtype", nm st), ("BaseFont", nm bf)]
  let l := match enc with | some e => l ++ [("Encoding", e)] | none => l
  let l := match de with | some e => l ++ [("FontDescriptor", e)] | none => l
  return mkDict l

/-- a /Resources value: a dictionary with 0-2 fonts, behind 0-3 links; the /Font value and the
    fonts themselves direct or indirect -/
def mkResources (wild : Bool) (tagc : Nat) : G Obj := do
  let nf ← rnd 3
  let mut fonts : List (String × Obj) := []
  for i in List.range nf do
    let f ← mkFont wild
    let ind ← rnd 2
    let f ← chainN f ind
    fonts := fonts ++ [(s!"F{tagc}x{i}", f)]
  let nofont ← rnd 5
  let fv ← chainN (mkDict fonts) (← chainLen 0)
  let rd := if nofont == 0 && nf == 0 then mkDict [("ProcSet", .arr [nm "PDF"])] else mkDict [("Font", fv), ("ProcSet", .arr [nm "PDF"])]
  chainN rd (← chainLen 0)

def mkContents : G Obj := do
  let r ← rnd 4
  if r < 2 then
    chainN (← mkStream) (← chainLen 1)
  else do
    let n ← rnd 3
    let mut xs : List Obj := []
    for _ in List.range n do
      xs := xs ++ [← chainN (← mkStream) (← chainLen 1)]
    let cl ← chainLen 1
    chainN (.arr xs) (if r == 2 then 0 else cl)

def maybeRes (wild : Bool) (id : Nat) (l : List (String × Obj)) : G (List (String × Obj)) := do
  let r ← rnd 5
  if r < 2 then return l ++ [("Resources", ← mkResources wild id)] else return l

def mkPage (wild : Bool) (parent : Nat) : G Nat := do
  let id ← fresh
  let l := [("Type", nm "Page"), ("Parent", .ref parent 0), ("Contents", ← mkContents),
            ("MediaBox", .arr [.int 0, .int 0, .int 612, .int 792])]
  define id (mkDict (← maybeRes wild id l))
  return id

/-- a page-tree node with random fan-out; `depth` bounds the nesting -/
partial def mkNode (wild : Bool) (depth : Nat) (parent : Option Nat) (id : Nat) : G Unit := do
    let fan ← rnd 4
    let mut kids : List Obj := []
    let mut cnt := 0
    for _ in List.range fan do
      let deeper ← rnd 3
      if depth > 0 && deeper == 0 then
        let kid ← fresh
        mkNode wild (depth - 1) (some id) kid
        kids := kids ++ [.ref kid 0]
      else
        let p ← mkPage wild id
        cnt := cnt + 1
        kids := kids ++ [.ref p 0]
    let kv ← chainN (.arr kids) (← chainLen 0)
    let l := [("Type", nm "Pages"), ("Count", .int cnt), ("Kids", kv)]
    let l := match parent with | some p => l ++ [("Parent", .ref p 0)] | none => l
    define id (mkDict (← maybeRes wild id l))

def setKey (objs : List (Nat × Obj)) (id : Nat) (k : String) (v : Option Obj) : List (Nat × Obj) :=
  objs.map fun (n, o) =>
    if n != id then (n, o) else
    match o with
    | .dict kvs =>
      let kvs := kvs.filter (·.1 != strBytes k)
      (n, .dict (match v with | some v => dictInsert (strBytes k) v kvs | none => kvs))
    | o => (n, o)

def typedIds (objs : List (Nat × Obj)) (t : String) : List Nat :=
  objs.filterMap fun (n, o) =>
    match o with
    | .dict kvs => (match dictGet nType kvs with | some (.name b) => if b == strBytes t then some n else none | _ => none)
    | _ => none

/-- append a kid reference to a node's /Kids when it is a direct array (else replace the value) -/
def addKid (objs : List (Nat × Obj)) (id : Nat) (kid : Obj) : List (Nat × Obj) :=
  objs.map fun (n, o) =>
    if n != id then (n, o) else
    match o with
    | .dict kvs =>
      match dictGet nKids kvs with
      | some (.arr xs) => (n, .dict (dictInsert nKids (.arr (xs ++ [kid])) kvs))
      | _ => (n, .dict (dictInsert nKids (.arr [kid]) kvs))
    | o => (n, o)

/-- structure-preserving variations inside the statement's domain: shared and cyclic kids -/
def shareMut (s : GS) : G (List (Nat × Obj)) := do
  let nodes := typedIds s.objs "Pages"
  let pages := typedIds s.objs "Page"
  let tgt ← pickL nodes
  let r ← rnd 4
  let kid ← if r == 0 then pickL (pages ++ nodes) else if r == 1 then pickL nodes else if r == 2 then pure tgt else pickL pages
  return addKid s.objs tgt (.ref kid 0)

/-- single-rule damage (outside or at the edge of the domain) -/
def wildMut (s : GS) : G (List (Nat × Obj)) := do
  let nodes := typedIds s.objs "Pages"
  let pages := typedIds s.objs "Page"
  let fr := s.next
  let r ← rnd 18
  let node ← pickL nodes
  let page ← pickL (if pages.isEmpty then nodes else pages)
  let anyn ← pickL (nodes ++ pages)
  match r with
  | 0 => return setKey s.objs node "Kids" (some (.ref fr 0)) ++ [(fr, .ref fr 0)]
  | 1 => return setKey s.objs page "Contents" (some (.ref fr 0)) ++ [(fr, .ref fr 0)]
  | 2 => return setKey s.objs anyn "Resources" (some (.ref fr 0)) ++ [(fr, .ref fr 0)]
  | 3 => return setKey s.objs node "Kids" (some (.ref fr 0)) ++ [(fr, .ref (fr + 1) 0), (fr + 1, .ref fr 0)]
  | 4 => return setKey s.objs page "Contents" (some (.arr [.ref fr 0])) ++ [(fr, .ref (fr + 1) 0), (fr + 1, .ref fr 0)]
  | 5 => return setKey s.objs anyn "Resources" (some (.ref (fr + 7) 0))
  | 6 => return addKid s.objs node (.ref (fr + 7) 0)
  | 7 => return addKid s.objs node (.int 7)
  | 8 => return setKey s.objs anyn "Type" none
  | 9 => return setKey s.objs anyn "Type" (some (nm "Foo"))
  | 10 => return setKey s.objs anyn "Parent" none
  | 11 => return setKey s.objs node "Count" (some (.int (-1)))
  | 12 => return setKey s.objs page "Contents" none
  | 13 => return setKey s.objs page "Contents" (some (.int 3))
  | 14 => return setKey s.objs node "Kids" none
  | 15 => return setKey s.objs anyn "Resources" (some (mkDict [("Font", .int 1)]))
  | 16 => return setKey s.objs anyn "Resources" (some (mkDict [("Font", mkDict [("F1", .ref (fr + 7) 0)])]))
  | _ => return addKid s.objs node (.ref 2 0)

/-! ### reference-chain shapes at every position where to_page_dom follows (or could follow) references -/

inductive Shape where
  | direct | chain (n : Nat) | selfLoop | cycle (c : Nat) | lasso (t c : Nat) | dangling (d : Nat)
deriving Inhabited

def Shape.name : Shape → String
  | .direct => "direct" | .chain n => s!"chain{n}" | .selfLoop => "self" | .cycle c => s!"cycle{c}"
  | .lasso t c => s!"lasso{t}+{c}" | .dangling d => s!"dangling{d}"

def allShapes : List Shape :=
  [.direct] ++ [1, 2, 3, 4].map .chain ++ [.selfLoop] ++ [2, 3].map .cycle ++
  ([1, 2, 3].flatMap fun t => [1, 2, 3].map fun c => .lasso t c) ++ [0, 1, 2].map .dangling

/-- the value to put at the position and the link objects (identifiers from `base`):
    chain n: n links then the target; cycle c: c links back to the start; lasso t c: t links into a
    cycle of c links that does not contain the start; dangling d: d links then an undefined object -/
def shapeObjs (base : Nat) (target : Obj) : Shape → Obj × List (Nat × Obj)
  | .direct => (target, [])
  | .chain n => (.ref base 0, (List.range n).map fun i => (base + i, if i + 1 == n then target else .ref (base + i + 1) 0))
  | .selfLoop => (.ref base 0, [(base, .ref base 0)])
  | .cycle c => (.ref base 0, (List.range c).map fun i => (base + i, .ref (base + (i + 1) % c) 0))
  | .lasso t c =>
    (.ref base 0, ((List.range t).map fun i => (base + i, Obj.ref (base + i + 1) 0)) ++
      (List.range c).map fun i => (base + t + i, .ref (base + t + (i + 1) % c) 0))
  | .dangling d => (.ref base 0, (List.range d).map fun i => (base + i, .ref (base + i + 1) 0))

/-- a stream cannot be a direct value -/
def noInline : Shape → Shape
  | .direct => .chain 1
  | s => s

def posNames : List String :=
  ["root-kids", "contents", "contents-elem", "root-resources", "font-value", "font-entry", "encoding",
   "fontdescriptor", "fontfile2", "node-kids", "page-resources", "contents-array", "node-resources", "kid-entry"]

/-- a two-level tree (root 2, page 3, inner node 4, page 5); the value at position `pos` is
    `place target` (value to write at the position, objects it needs), where `target` is the
    well-formed value the converter expects there -/
def posDoc (pos : Nat) (place : Obj → Obj × List (Nat × Obj)) : List (Nat × Obj) :=
  let st : Obj := .stream [] ⟨0, 2, [113, 32]⟩
  let sel (p : Nat) (target dflt : Obj) : Obj × List (Nat × Obj) :=
    if p == pos then place target else (dflt, [])
  let ff := sel 8 st (.ref 9 0)
  let descr := mkDict [("Type", nm "FontDescriptor"), ("FontName", nm "ABCDEF+Foo"), ("Flags", .int 32), ("FontFile2", ff.1)]
  let fdv := sel 7 descr (.ref 8 0)
  let enc := sel 6 (nm "WinAnsiEncoding") (nm "WinAnsiEncoding")
  let font := mkDict [("Type", nm "Font"), ("Subtype", nm "TrueType"), ("BaseFont", nm "ABCDEF+Foo"),
                      ("Encoding", enc.1), ("FontDescriptor", fdv.1)]
  let fe := sel 5 font font
  let fonts := mkDict [("F1", fe.1)]
  let fv := sel 4 fonts fonts
  let rd := mkDict [("Font", fv.1)]
  let rroot := sel 3 rd rd
  let font0 := mkDict [("Type", nm "Font"), ("Subtype", nm "Type1"), ("BaseFont", nm "Helvetica")]
  let pres := sel 10 (mkDict [("Font", mkDict [("F2", font0)])]) .null
  let ce := sel 2 st (.ref 9 0)
  let cont : Obj × List (Nat × Obj) :=
    if pos == 1 then place st
    else if pos == 2 then (.arr [.ref 9 0, ce.1, .ref 9 0], ce.2)
    else if pos == 11 then place (.arr [.ref 9 0, .ref 9 0])
    else (.ref 9 0, [])
  let knode := sel 9 (.arr [.ref 5 0]) (.arr [.ref 5 0])
  -- position 12: the inner node declares its own /Resources (font F3) behind the shape, below a root
  -- that declares F1: page 5 must inherit F3 (a resolver that gives up shows F1 instead)
  let nres := sel 12 (mkDict [("Font", mkDict [("F3", font0)])]) .null
  let node4 := mkDict ([("Type", nm "Pages"), ("Parent", .ref 2 0), ("Count", .int 1), ("Kids", knode.1)] ++
                       (if pos == 12 then [("Resources", nres.1)] else []))
  -- position 13: the second entry of the root's /Kids array is the shape in front of the node
  -- dictionary (kid entries are looked up once, not through chains)
  let kent := sel 13 node4 (.ref 4 0)
  let kroot := sel 0 (.arr [.ref 3 0, .ref 4 0]) (.arr [.ref 3 0, kent.1])
  let page3 := [("Type", nm "Page"), ("Parent", .ref 2 0), ("Contents", cont.1),
                ("MediaBox", .arr [.int 0, .int 0, .int 612, .int 792])] ++
               (if pos == 10 then [("Resources", pres.1)] else [])
  [(1, mkDict [("Type", nm "Catalog"), ("Pages", .ref 2 0)]),
   (2, mkDict [("Type", nm "Pages"), ("Count", .int 2), ("Kids", kroot.1), ("Resources", rroot.1)]),
   (3, mkDict page3),
   (4, node4),
   (5, mkDict [("Type", nm "Page"), ("Parent", .ref 4 0), ("Contents", .ref 9 0),
               ("MediaBox", .arr [.int 0, .int 0, .int 612, .int 792])]),
   (8, descr), (9, st)] ++
  ff.2 ++ fdv.2 ++ enc.2 ++ fe.2 ++ fv.2 ++ rroot.2 ++ pres.2 ++ cont.2 ++ kroot.2 ++ knode.2 ++ nres.2 ++ kent.2

/-- the two-level tree with the reference-chain shape `sh` in front of the value at position `pos` -/
def shapeDoc (pos : Nat) (sh : Shape) : List (Nat × Obj) := posDoc pos fun target => shapeObjs 50 target sh

/-- does the REAL type checker accept the document with this shape at this position?  Observed with
    the harness: it rejects a chain that loops or dangles under /Kids, /Contents (value, array,
    element), a kid entry and a page's /Resources, and constrains nothing under the root's or an inner
    node's /Resources, the /Font value, font entries, /Encoding, /FontDescriptor, /FontFile2; it follows
    chains of any length (observed up to 300 links); a kid entry that is a direct dictionary is
    rejected.  A wrong entry shows up as `bad tcreject`. -/
def shapeTC (pos : Nat) (sh : Shape) : Bool :=
  let ends := match sh with | .direct => pos != 13 | .chain _ => true | _ => false
  ends || !([0, 1, 2, 9, 10, 11, 13].contains pos)

def shapeCases : List (String × String) :=
  (List.range posNames.length).flatMap fun pos =>
    -- a stream cannot be a direct value: no `direct` shape where the target is a stream
    (allShapes.filter fun sh => !([1, 2, 8].contains pos && (match sh with | .direct => true | _ => false))).flatMap fun sh =>
      let doc := shapeDoc pos sh
      let nmv := s!"{posNames[pos]?.getD "?"}-{sh.name}"
      [(nmv, encCase "any" 1 doc)] ++ (if shapeTC pos sh then [(nmv ++ "-tc", encCase "tc" 1 doc)] else [])


/-! ### long reference chains: every length 0..40 and a few long ones at every position

  `resolve_chain` must follow a chain of ANY length (its only legitimate reason to give up is a
  repeated identifier or an undefined one), so the family sweeps the length systematically: a hop
  budget, a recursion limit or a fixed-size visited buffer of any size <= 300 shows up as a page that
  silently inherits its ancestor's resources (positions root/node/page-resources: the root always
  declares F1, the node F3, the page F2) or as a spurious error (/Kids, /Contents, /Font, /Encoding).
  The same lengths are used as the TAIL in front of a cycle (must be an error / absent exactly as a
  short one) and in front of an undefined object. -/

def chainLens : List Nat := List.range 41 ++ [64, 100, 300]

/-- positions whose target is a stream (no direct value) -/
def streamPos (pos : Nat) : Bool := [1, 2, 8].contains pos

/-- `full = false` (quick): one cycle length per tail (1 + tail % 3); `full = true`: cycles 1, 2, 3 -/
def longShapes (full : Bool) : List Shape :=
  chainLens.map .chain ++
  (chainLens.flatMap fun t => if full then [1, 2, 3].map (Shape.lasso t) else [Shape.lasso t (1 + t % 3)]) ++
  chainLens.map .dangling

def longCases (full : Bool) : List (String × String) :=
  (List.range posNames.length).flatMap fun pos =>
    (longShapes full).filterMap fun sh =>
      let sh := match sh with | .chain 0 => Shape.direct | .lasso 0 c => .cycle c | s => s
      if streamPos pos && (match sh with | .direct => true | _ => false) then none else
      let doc := shapeDoc pos sh
      some (s!"{posNames[pos]?.getD "?"}-{sh.name}", encCase (if shapeTC pos sh then "tc" else "any") 1 doc)

/-! ### values of the wrong KIND at every position: other kinds, the container one level up, containers
     nested in containers, and cycles that run THROUGH containers

  `resolve_chain` only guards chains of pure references.  Every converter that looks behind a
  reference chain expects one kind of value there (/Kids: array; kid entry: reference to a dictionary;
  /Contents: stream or array; an ELEMENT of a /Contents array: stream; /Resources, /Font, a font entry,
  /FontDescriptor: dictionary; /Encoding: name or dictionary; /FontFile2: reference) and must report
  a located error for (or, for kid entries, skip) anything else WITHOUT descending into it.  A
  converter that treats "an element is a smaller instance of the same problem" and calls itself on
  what it finds flattens nested containers and never returns on an array (dictionary) object that
  contains a reference back to a container on the same path.  The family therefore puts at each
  of the 14 positions, behind 0-3 links:
    * every other kind: null, boolean, integer, string, name, empty array, empty dictionary, stream;
    * the well-formed value `g` of the position wrapped in arrays 1-3 deep (directly nested, and through
      1, 2, 3, 8, 40 array OBJECTS each holding a reference to the next), mixed with good elements,
      and wrapped in a dictionary that offers it under every key a converter looks for;
    * cycles through containers: an array object that lists itself (alone, after a good element,
      inside a direct array, inside a nested direct array), two and three arrays listing each other,
      a tail of 1-3 acyclic array objects into a cycle of 1-2 arrays, a cycle array -> link -> link
      -> array, and the same with dictionaries (self, pair, dictionary <-> array).
  The oracle needs nothing new: Spec/PageTree never looks inside a value of the wrong kind. -/

structure KV where
  name : String
  val : Obj
  objs : List (Nat × Obj) := []
deriving Inhabited

/-- a (page-tree-node-like) dictionary that offers `g` under every key a converter looks for -/
def dictAround (g : Obj) : Obj :=
  mkDict [("Type", nm "Pages"), ("Parent", .ref 2 0), ("Count", .int 0), ("Kids", g), ("Contents", g),
          ("Resources", g), ("Font", g), ("F1", g), ("Encoding", g), ("FontDescriptor", g), ("FontFile2", g),
          ("BaseFont", nm "Helvetica"), ("Subtype", nm "Type1"), ("FontName", nm "Foo"), ("Flags", .int 4)]

def nestDirect (g : Obj) : Nat → Obj
  | 0 => g
  | n + 1 => .arr [nestDirect g n]

/-- `n` array objects b .. b+n-1, each holding a reference to the next, the last one holding `g` -/
def nestRefObjs (b : Nat) (g : Obj) (n : Nat) : List (Nat × Obj) :=
  (List.range n).map fun i => (b + i, .arr [if i + 1 == n then g else .ref (b + i + 1) 0])

/-- `t` acyclic array objects (each lists the next) into a cycle of `c` array objects -/
def arrLassoObjs (b t c : Nat) : List (Nat × Obj) :=
  ((List.range t).map fun i => (b + i, Obj.arr [.ref (b + i + 1) 0])) ++
  (List.range c).map fun i => (b + t + i, .arr [.ref (b + t + (i + 1) % c) 0])

/-- the wrong-kind values for a position whose well-formed value is `g` (a stream is given as a
    reference to the stream object 9); own objects are numbered from `b` -/
def kindValues (b : Nat) (g : Obj) : List KV :=
  let r (i : Nat) : Obj := .ref (b + i) 0
  [ ⟨"null", .null, []⟩, ⟨"bool", .bool true, []⟩, ⟨"int", .int 7, []⟩, ⟨"string", .str (strBytes "ab"), []⟩,
    ⟨"name", nm "Foo", []⟩, ⟨"emptyarr", .arr [], []⟩, ⟨"emptydict", .dict [], []⟩, ⟨"stream", .ref 9 0, []⟩,
    -- the container one (two, three) level(s) up, acyclic
    ⟨"arr1", nestDirect g 1, []⟩, ⟨"arr2", nestDirect g 2, []⟩, ⟨"arr3", nestDirect g 3, []⟩,
    ⟨"arrmixed", .arr [g, .arr [g], g], []⟩,
    ⟨"arrmixedref", .arr [g, r 0, g], [(b, .arr [g])]⟩,
    ⟨"dictaround", dictAround g, []⟩,
    ⟨"dictaroundref", r 0, [(b, dictAround g)]⟩ ] ++
  ([1, 2, 3, 8, 40].map fun n => ⟨s!"nestref{n}", r 0, nestRefObjs b g n⟩) ++
  [ -- cycles through containers
    ⟨"selfarr", r 0, [(b, .arr [r 0])]⟩,
    ⟨"selfarr-after-good", r 0, [(b, .arr [g, r 0])]⟩,
    ⟨"selfarr-in-direct", .arr [g, r 0], [(b, .arr [r 0])]⟩,
    ⟨"selfarr-nested", r 0, [(b, .arr [.arr [r 0]])]⟩,
    ⟨"arrpair", r 0, [(b, .arr [r 1]), (b + 1, .arr [r 0])]⟩,
    ⟨"arrpair-in-direct", .arr [g, r 0], [(b, .arr [r 1]), (b + 1, .arr [g, r 0])]⟩,
    ⟨"arrtriple", r 0, [(b, .arr [r 1]), (b + 1, .arr [r 2]), (b + 2, .arr [r 0])]⟩,
    ⟨"arr-link-link-arr", r 0, [(b, .arr [r 1]), (b + 1, r 2), (b + 2, r 0)]⟩ ] ++
  ([1, 2, 3].flatMap fun t => [1, 2].map fun c => ⟨s!"arrlasso{t}+{c}", r 0, arrLassoObjs b t c⟩) ++
  [ ⟨"selfdict", r 0, [(b, dictAround (r 0))]⟩,
    ⟨"selfdict-in-arr", .arr [r 0], [(b, dictAround (.arr [r 0]))]⟩,
    ⟨"dictpair", r 0, [(b, dictAround (r 1)), (b + 1, dictAround (r 0))]⟩,
    ⟨"dict-arr", r 0, [(b, dictAround (r 1)), (b + 1, .arr [r 0])]⟩,
    ⟨"arr-dict", r 0, [(b, .arr [r 1]), (b + 1, dictAround (r 0))]⟩ ]

/-- the well-formed value of a position as it can be written inside a container -/
def goodOf : Obj → Obj
  | .stream _ _ => .ref 9 0
  | t => t

def kindNames : List String := (kindValues 70 .null).map (·.name)

/-- the two-level tree with wrong-kind value number `i` behind `k` links at position `pos` -/
def kindDoc (pos i k : Nat) : List (Nat × Obj) :=
  posDoc pos fun target =>
    let kv := (kindValues 70 (goodOf target))[i]?.getD default
    let (v, x) := shapeObjs 50 kv.val (if k == 0 then .direct else .chain k)
    (v, x ++ kv.objs)

def kindCases : List (String × String) :=
  (List.range posNames.length).flatMap fun pos =>
    (List.range kindNames.length).flatMap fun i =>
      [0, 1, 2, 3].map fun k =>
        (s!"{posNames[pos]?.getD "?"}-{kindNames[i]?.getD "?"}-behind{k}", encCase "any" 1 (kindDoc pos i k))

/-- a random long shape (chain / lasso / dangling with 0..47 links, sometimes 64/100/300) -/
def longShapeG : G Shape := do
  let k ← rnd 3
  let r ← rnd 52
  let l := if r < 48 then r else if r < 50 then 64 else if r == 50 then 100 else 300
  let c ← rnd 3
  return match k with
    | 0 => if l == 0 then .direct else .chain l
    | 1 => if l == 0 then .cycle (c + 1) else .lasso l (c + 1)
    | _ => .dangling l

/-- a random chain shape at a random chain position of a random (type-correct) tree; returns the tag -/
def shapeMutG (s : GS) : G (String × List (Nat × Obj)) := do
  let nodes := typedIds s.objs "Pages"
  let pages := typedIds s.objs "Page"
  let node ← pickL nodes
  let page ← pickL (if pages.isEmpty then nodes else pages)
  let anyn ← pickL (nodes ++ pages)
  let sh ← pickL allShapes
  let lsh ← longShapeG
  let long ← rnd 2
  let sh := if long == 0 then lsh else sh
  let r ← rnd 8
  let coin ← rnd 2
  -- the real type checker constrains a page's /Resources but not the root's (observed)
  let rtgt := if coin == 0 then 2 else anyn
  let rfree := rtgt == 2
  let base := s.next + 10
  let st : Obj := .stream [] ⟨0, 2, [113, 32]⟩
  let font0 := mkDict [("Type", nm "Font"), ("Subtype", nm "Type1"), ("BaseFont", nm "Helvetica")]
  let descr := mkDict [("Type", nm "FontDescriptor"), ("FontName", nm "ABCDEF+Foo"), ("Flags", .int 4)]
  let ends := match sh with | .direct | .chain _ => true | _ => false
  let resWith (f : Obj) : Obj := mkDict [("Font", mkDict [("F1", f)])]
  let (objs, free) : List (Nat × Obj) × Bool :=
    match r with
    | 0 => let (v, x) := shapeObjs base (.arr [.ref page 0]) sh; (setKey s.objs node "Kids" (some v) ++ x, false)
    | 1 => let (v, x) := shapeObjs base st (noInline sh); (setKey s.objs page "Contents" (some v) ++ x, false)
    | 2 => let (v, x) := shapeObjs base st (noInline sh); (setKey s.objs page "Contents" (some (.arr [v])) ++ x, false)
    | 3 => let (v, x) := shapeObjs base (resWith font0) sh; (setKey s.objs anyn "Resources" (some v) ++ x, false)
    | 4 => let (v, x) := shapeObjs base (mkDict [("F1", font0)]) sh
           (setKey s.objs rtgt "Resources" (some (mkDict [("Font", v)])) ++ x, rfree)
    | 5 => let (v, x) := shapeObjs base font0 sh; (setKey s.objs rtgt "Resources" (some (resWith v)) ++ x, rfree)
    | 6 => let (v, x) := shapeObjs base (nm "MacRomanEncoding") sh
           (setKey s.objs rtgt "Resources" (some (resWith (mkDict [("Type", nm "Font"), ("Subtype", nm "Type1"),
              ("BaseFont", nm "Helvetica"), ("Encoding", v)]))) ++ x, rfree)
    | _ => let (v, x) := shapeObjs base descr sh
           (setKey s.objs rtgt "Resources" (some (resWith (mkDict [("Type", nm "Font"), ("Subtype", nm "TrueType"),
              ("BaseFont", nm "ABCDEF+Foo"), ("FontDescriptor", v)]))) ++ x, rfree)
  return (if (ends || free) && !(pages.isEmpty && r < 3) then "tc" else "any", objs)

def getKey (objs : List (Nat × Obj)) (id : Nat) (k : String) : Option Obj :=
  match objs.find? (·.1 == id) with
  | some (_, .dict kvs) => dictGet (strBytes k) kvs
  | _ => none

/-- a random wrong-kind value (see `kindValues`) behind 0-3 links at a random position of a random
    (type-correct) tree -/
def kindMutG (s : GS) : G (String × List (Nat × Obj)) := do
  let nodes := typedIds s.objs "Pages"
  let pages := typedIds s.objs "Page"
  let node ← pickL nodes
  let page ← pickL (if pages.isEmpty then nodes else pages)
  let anyn ← pickL (nodes ++ pages)
  let base := s.next + 10
  let sid := s.next + 5
  let st : Obj := .stream [] ⟨0, 2, [113, 32]⟩
  let font0 := mkDict [("Type", nm "Font"), ("Subtype", nm "Type1"), ("BaseFont", nm "Helvetica")]
  let descr := mkDict [("Type", nm "FontDescriptor"), ("FontName", nm "ABCDEF+Foo"), ("Flags", .int 4)]
  let resWith (f : Obj) : Obj := mkDict [("Font", mkDict [("F1", f)])]
  let r ← rnd 9
  let g : Obj := match r with
    | 0 => (getKey s.objs node "Kids").getD (.arr [.ref page 0])
    | 1 | 2 => .ref sid 0
    | 3 => resWith font0
    | 4 => mkDict [("F1", font0)]
    | 5 => font0
    | 6 => nm "MacRomanEncoding"
    | 7 => descr
    | _ => mkDict [("Type", nm "Page"), ("Parent", .ref node 0), ("Contents", .ref sid 0)]
  -- the stream object of the family is `sid`, not 9
  let vals := (kindValues (base + 10) g).map fun kv => if kv.name == "stream" then { kv with val := .ref sid 0 } else kv
  let kv ← pickL vals
  let k ← rnd 4
  let (v, x) := shapeObjs base kv.val (if k == 0 then .direct else .chain k)
  let fontWith (key : String) : Obj :=
    resWith (mkDict [("Type", nm "Font"), ("Subtype", nm "TrueType"), ("BaseFont", nm "ABCDEF+Foo"), (key, v)])
  let objs : List (Nat × Obj) :=
    match r with
    | 0 => setKey s.objs node "Kids" (some v)
    | 1 => setKey s.objs page "Contents" (some v)
    | 2 => setKey s.objs page "Contents" (some (.arr [.ref sid 0, v, .ref sid 0]))
    | 3 => setKey s.objs anyn "Resources" (some v)
    | 4 => setKey s.objs anyn "Resources" (some (mkDict [("Font", v)]))
    | 5 => setKey s.objs anyn "Resources" (some (resWith v))
    | 6 => setKey s.objs anyn "Resources" (some (fontWith "Encoding"))
    | 7 => setKey s.objs anyn "Resources" (some (fontWith "FontDescriptor"))
    | _ => addKid s.objs node v
  return ("any", objs ++ [(sid, st)] ++ x ++ kv.objs)

def genDoc (seed : Nat) (kind : Nat) : String × List (Nat × Obj) :=
  let wild := kind == 2
  let go : G (String × List (Nat × Obj)) := do
    let depth ← rnd 3
    mkNode wild depth none 2
    let s ← get
    let cat := (1, mkDict [("Type", nm "Catalog"), ("Pages", .ref 2 0)])
    let s := { s with objs := cat :: s.objs }
    match kind with
    | 0 => return ("tc", s.objs)
    | 1 => do let o ← shareMut s; return ("any", o)
    | 3 => shapeMutG s
    | 4 => kindMutG s
    | _ => do
      let o ← wildMut s
      let again ← rnd 3
      if again == 0 then do let o2 ← shareMut { s with objs := o }; return ("any", o2)
      return ("any", o)
  (go.run { rng := Rng.mk' seed }).1

def genOne (seed : Nat) (kind : Nat) : String :=
  let (tag, objs) := genDoc seed kind
  encCase tag 1 objs

/-- exhaustive small family: root 2 and node 3 with every kids list of length <= 2 over {2,3,4,5},
    object 4 a page or a node, object 5 a page; resources on root/3/5 in 4 placements -/
def smallDocs (stride : Nat) : List (List (Nat × Obj)) := Id.run do
  let ids := [2, 3, 4, 5]
  let lists : List (List Nat) := [[]] ++ ids.map (fun a => [a]) ++ (ids.flatMap fun a => ids.map fun b => [a, b])
  let st : Obj := .stream [] ⟨0, 2, [113, 32]⟩
  let font := mkDict [("Type", nm "Font"), ("Subtype", nm "Type1"), ("BaseFont", nm "Helvetica")]
  let resOf (name : String) (mode : Nat) (slot : Nat) : List (String × Obj) × List (Nat × Obj) :=
    let rd := mkDict [("Font", mkDict [(name, font)])]
    match mode with
    | 0 => ([], [])
    | 1 => ([("Resources", rd)], [])
    | 2 => ([("Resources", .ref slot 0)], [(slot, rd)])
    | _ => ([("Resources", .ref slot 0)], [(slot, .ref (slot + 1) 0), (slot + 1, rd)])
  let mut out : List (List (Nat × Obj)) := []
  let mut i := 0
  for k2 in lists do
    for k3 in lists do
      for v4 in [0, 1, 2] do
        for rm in [0, 1, 2, 3] do
          i := i + 1
          if i % stride == 0 then
            let refs (l : List Nat) : Obj := .arr (l.map fun n => .ref n 0)
            let (r2, x2) := resOf "FA" rm 20
            let (r3, x3) := resOf "FB" ((rm + v4) % 4) 30
            let (r5, x5) := resOf "FC" ((rm + k3.length) % 4) 40
            let o4 := match v4 with
              | 0 => mkDict [("Type", nm "Page"), ("Parent", .ref 3 0), ("Contents", .ref 9 0)]
              | 1 => mkDict [("Type", nm "Pages"), ("Parent", .ref 3 0), ("Count", .int 1), ("Kids", refs [5])]
              | _ => mkDict [("Type", nm "Pages"), ("Parent", .ref 3 0), ("Count", .int 1), ("Kids", refs [3, 5])]
            let objs : List (Nat × Obj) := [
              (1, mkDict [("Type", nm "Catalog"), ("Pages", .ref 2 0)]),
              (2, mkDict ([("Type", nm "Pages"), ("Count", .int 1), ("Kids", refs k2)] ++ r2)),
              (3, mkDict ([("Type", nm "Pages"), ("Parent", .ref 2 0), ("Count", .int 1), ("Kids", refs k3)] ++ r3)),
              (4, o4),
              (5, mkDict ([("Type", nm "Page"), ("Parent", .ref 4 0), ("Contents", .arr [.ref 9 0, .ref 9 0])] ++ r5)),
              (9, st)] ++ x2 ++ x3 ++ x5
            out := objs :: out
  return out.reverse

def smallCases (stride : Nat) : List String := (smallDocs stride).map (encCase "any" 1)


/-! ### object identifiers with NON-ZERO GENERATIONS

  An object identifier is the pair (number, generation): `PDFObjContext` keys definitions by the
  pair, so `3 0 obj` and `3 1 obj` are two unrelated objects, `3 1 R` denotes the second one only, and
  `3 2 R` denotes nothing when only those two are defined.  Everything `to_page_dom` remembers about
  identifiers - the `examined` set of the conversion queue, the `followed` set of `resolve_chain`, the
  keys of `pages`, `font_dicts`, `font_descrs`, parents and kids lists - must therefore use the PAIR.
  A converter that keeps only the object number merges distinct objects: of two kids `3 0 R 3 1 R` only
  the first is converted (the other one and its subtree are silently absent), a chain whose links share
  a number looks like a loop, a descriptor cache hands out the wrong descriptor.

  The family is built by RENAMING: a document over object numbers (generation 0, as all the other
  families produce them) is mapped through an injective `ren : number -> (number, generation)`
  applied to the definitions and to every reference inside every value (undefined targets
  included), so the renamed document is isomorphic to the original one and its expected DOM is the
  renamed DOM - while the numbers collide as the scheme says.  The catalog stays `1 0 obj` (the case
  format names it by number); every scheme gives generation >= 1 to all other objects or keeps
  their numbers apart from 1, so it collides with nothing unless the scheme wants it to.
  The oracle needs nothing new: Spec/PageTree keys `seen`, `defOf` and the records by the pair. -/

abbrev IdDoc := List (ObjId × Obj)

partial def renObj (ren : Nat → ObjId) : Obj → Obj
  | .ref n _ => .ref (ren n).1 (ren n).2
  | .arr xs => .arr (xs.map (renObj ren))
  | .dict kvs => .dict (kvs.map fun kv => (kv.1, renObj ren kv.2))
  | .stream kvs sc => .stream (kvs.map fun kv => (kv.1, renObj ren kv.2)) sc
  | o => o

/-- rename definitions and references; object 1 (the catalog) stays `1 0` -/
def renDoc (ren : Nat → ObjId) (objs : List (Nat × Obj)) : IdDoc :=
  let r : Nat → ObjId := fun n => if n == 1 then (1, 0) else ren n
  objs.map fun (n, o) => (r n, renObj r o)

/-- renaming schemes, all injective on the numbers >= 2 and never producing `1 0`:
    gens/maxgen: numbers stay distinct, every generation non-zero (maxgen: 65535, the largest legal one);
    onenum: EVERY object (root, nodes, pages, streams, resources, fonts, descriptors, chain links,
      undefined targets) shares number 1 with the catalog and differs in generation only;
    onenum-desc: all share number 7, generations 65535-n: map order is the reverse of the definition order;
    pairs-a/b, mod2, mod3: neighbouring numbers / residue classes share a number (root+page, page+node,
      node+page, page+stream, root+page+descriptor ... depending on the document);
    links: only the objects of the family under test (numbers >= 50: chain links, wrong-kind containers,
      undefined targets) share number 50;  onpage: the same objects share the number of page `3 0`. -/
def schemes : List (String × (Nat → ObjId)) :=
  [ ("gens", fun n => (n, n)),
    ("maxgen", fun n => (n, 65535)),
    ("onenum", fun n => (1, n)),
    ("onenum-desc", fun n => (7, 65535 - n)),
    ("pairs-a", fun n => (n / 2 + 1, n % 2 + 1)),
    ("pairs-b", fun n => ((n + 1) / 2 + 1, (n + 1) % 2 + 1)),
    ("mod2", fun n => (n % 2 + 2, n / 2 + 1)),
    ("mod3", fun n => (n % 3 + 2, n / 3 + 1)),
    ("links", fun n => if n < 50 then (n, 0) else (50, n - 50)),
    ("onpage", fun n => if n < 50 then (n, 0) else (3, n - 49)) ]

/-- the schemes under which objects of the page tree proper collide -/
def collideSchemes : List (String × (Nat → ObjId)) :=
  schemes.filter fun s => ["onenum", "onenum-desc", "pairs-a", "pairs-b", "mod2", "mod3"].contains s.1

def schemeAt (l : List (String × (Nat → ObjId))) (i : Nat) : String × (Nat → ObjId) :=
  l[i % l.length]?.getD ("gens", fun n => (n, n))

/-- every reference-chain shape at every position (the 277 graphs of the chain family), under every
    scheme; the type checker's verdict does not depend on the names of the objects -/
def genShapeCases : List (String × String) :=
  schemes.flatMap fun (sn, ren) =>
    (List.range posNames.length).flatMap fun pos =>
      (allShapes.filter fun sh => !(streamPos pos && (match sh with | .direct => true | _ => false))).map fun sh =>
        (s!"gen-{sn}-{posNames[pos]?.getD "?"}-{sh.name}",
         encCaseG (if shapeTC pos sh then "tc" else "any") 1 (renDoc ren (shapeDoc pos sh)))

/-- the small family (every kids list of length <= 2 over {root, node, 4, 5}: shared kids, cycles, the
    root as a kid) under the colliding schemes: `per` schemes per graph, rotating -/
def genSmallCases (stride per : Nat) : List String :=
  ((smallDocs stride).zipIdx).flatMap fun (doc, i) =>
    (List.range per).map fun j => encCaseG "any" 1 (renDoc (schemeAt collideSchemes (i + j)).2 doc)

/-- wrong-kind values (every `stride`-th graph of the family) under `per` colliding-or-links schemes -/
def genKindCases (stride per : Nat) : List String :=
  let ss := collideSchemes ++ schemes.filter fun s => s.1 == "links" || s.1 == "onpage"
  let docs := (List.range posNames.length).flatMap fun pos =>
    (List.range kindNames.length).flatMap fun i => [0, 1, 2, 3].map fun k => kindDoc pos i k
  (docs.zipIdx.filter fun (_, i) => i % stride == 0).flatMap fun (doc, i) =>
    (List.range per).map fun j => encCaseG "any" 1 (renDoc (schemeAt ss (i / stride + j)).2 doc)

/-- long chains / tails / dangling chains whose links ALL share one object number (links: number 50;
    onenum: number 1, with everything else) -/
def genLongCases (full : Bool) : List String :=
  let ss := schemes.filter fun s => s.1 == "links" || s.1 == "onenum"
  let docs : List (String × List (Nat × Obj)) := (List.range posNames.length).flatMap fun pos =>
    (longShapes full).filterMap fun sh =>
      let sh := match sh with | .chain 0 => Shape.direct | .lasso 0 c => .cycle c | s => s
      if streamPos pos && (match sh with | .direct => true | _ => false) then none else
      some (if shapeTC pos sh then "tc" else "any", shapeDoc pos sh)
  if full then docs.flatMap fun (tag, doc) => ss.map fun (_, ren) => encCaseG tag 1 (renDoc ren doc)
  else (docs.zipIdx.filter fun (_, i) => i % 5 == 0).map fun ((tag, doc), i) =>
    encCaseG tag 1 (renDoc (schemeAt ss (i / 5)).2 doc)

/-- a reference whose GENERATION is wrong or must be told apart from a sibling, at each position;
    object numbers 50/51/52 stand for generations 0/1/2 of ONE object number (scheme below).
    `resolves`: the value denotes the position's well-formed value `t` -/
structure GenVariant where
  name : String
  resolves : Bool
  dangles : Bool
  place : Obj → Obj × List (Nat × Obj)

def genVariants : List GenVariant :=
  [ ⟨"undef-above", false, true, fun t => (.ref 51 0, [(50, t)])⟩,          -- n 1 R, only n 0 obj defined
    ⟨"undef-below", false, true, fun t => (.ref 50 0, [(51, t)])⟩,          -- n 0 R, only n 1 obj defined
    ⟨"decoy-first", true, false, fun t => (.ref 51 0, [(50, .int 7), (51, t)])⟩,
    ⟨"decoy-last", true, false, fun t => (.ref 51 0, [(51, t), (50, .int 7)])⟩,
    ⟨"decoy-picked", false, false, fun t => (.ref 51 0, [(50, t), (51, .int 7)])⟩,
    ⟨"twin-high", true, false, fun t => (.ref 52 0, [(50, t), (52, t)])⟩,   -- provenance must be n 2
    ⟨"twin-low", true, false, fun t => (.ref 50 0, [(50, t), (52, t)])⟩,
    ⟨"chain-in-number", true, false, fun t => (.ref 52 0, [(52, .ref 51 0), (51, .ref 50 0), (50, t)])⟩,
    ⟨"chain-to-undef-gen", false, true, fun _ => (.ref 50 0, [(50, .ref 51 0)])⟩ ]

/-- where the generations of the wrong-generation family live: a number of their own; the number of
    page `3 0`; a number of their own while every other object has generation 2 -/
def genVariantSchemes : List (String × (Nat → ObjId)) :=
  [ ("own", fun n => if n < 50 then (n, 0) else (50, n - 50)),
    ("onpage", fun n => if n < 50 then (n, 0) else (3, n - 49)),
    ("allgen2", fun n => if n < 50 then (n, 2) else (50, n - 47)) ]

def genVariantCases : List (String × String) :=
  genVariantSchemes.flatMap fun (sn, ren) =>
    (List.range posNames.length).flatMap fun pos =>
      genVariants.map fun v =>
        let tag := if v.resolves then "tc" else if v.dangles && shapeTC pos (.dangling 0) then "tc" else "any"
        (s!"gen-{sn}-{posNames[pos]?.getD "?"}-{v.name}", encCaseG tag 1 (renDoc ren (posDoc pos v.place)))

/-- hand-built minimal instances (corpus/C11/generations.case): a root `2 0` (or as said) over
    pages / nodes whose identifiers differ in the generation only -/
def genMiniCases : List (String × String) :=
  let st : Obj := .stream [] ⟨0, 2, [113, 32]⟩
  let r (n g : Nat) : Obj := .ref n g
  let cat (n g : Nat) : ObjId × Obj := ((1, 0), mkDict [("Type", nm "Catalog"), ("Pages", r n g)])
  let page (p : Obj) (c : Obj) : Obj := mkDict [("Type", nm "Page"), ("Parent", p), ("Contents", c)]
  let pageR (p : Obj) (c res : Obj) : Obj := mkDict [("Type", nm "Page"), ("Parent", p), ("Contents", c), ("Resources", res)]
  let node (p : Option Obj) (cnt : Int) (kids : List Obj) : Obj :=
    mkDict ([("Type", nm "Pages"), ("Count", .int cnt), ("Kids", .arr kids)] ++ (match p with | some p => [("Parent", p)] | none => []))
  let font (bf : String) (extra : List (String × Obj)) : Obj :=
    mkDict ([("Type", nm "Font"), ("Subtype", nm "TrueType"), ("BaseFont", nm bf)] ++ extra)
  let descr (fl : Int) (extra : List (String × Obj)) : Obj :=
    mkDict ([("Type", nm "FontDescriptor"), ("FontName", nm "ABCDEF+Foo"), ("Flags", .int fl)] ++ extra)
  let s9 : ObjId × Obj := ((9, 0), st)
  [ ("two-pages-one-number", "tc", [cat 2 0, ((2, 0), node none 2 [r 3 0, r 3 1]), ((3, 0), page (r 2 0) (r 9 0)), ((3, 1), page (r 2 0) (r 9 0)), s9]),
    ("three-pages-one-number-desc", "tc", [cat 2 0, ((2, 0), node none 3 [r 3 7, r 3 2, r 3 65535]), ((3, 7), page (r 2 0) (r 9 0)),
        ((3, 2), page (r 2 0) (r 9 0)), ((3, 65535), page (r 2 0) (r 9 0)), s9]),
    ("page-then-node-one-number", "tc", [cat 2 0, ((2, 0), node none 2 [r 3 0, r 3 1]), ((3, 0), page (r 2 0) (r 9 0)),
        ((3, 1), node (some (r 2 0)) 1 [r 3 2]), ((3, 2), page (r 3 1) (r 9 0)), s9]),
    ("node-then-page-one-number", "tc", [cat 2 0, ((2, 0), node none 2 [r 3 1, r 3 0]), ((3, 0), page (r 2 0) (r 9 0)),
        ((3, 1), node (some (r 2 0)) 1 [r 4 0]), ((4, 0), page (r 3 1) (r 9 0)), s9]),
    ("two-nodes-one-number", "tc", [cat 2 0, ((2, 0), node none 2 [r 3 0, r 3 1]), ((3, 0), node (some (r 2 0)) 1 [r 4 0]),
        ((3, 1), node (some (r 2 0)) 1 [r 4 1]), ((4, 0), page (r 3 0) (r 9 0)), ((4, 1), page (r 3 1) (r 9 0)), s9]),
    ("root-shares-number-with-kids", "tc", [cat 3 0, ((3, 0), node none 2 [r 3 1, r 3 2]), ((3, 1), page (r 3 0) (r 9 0)),
        ((3, 2), node (some (r 3 0)) 1 [r 3 3]), ((3, 3), page (r 3 2) (r 9 0)), s9]),
    ("everything-number-1", "tc", [cat 1 1, ((1, 1), node none 1 [r 1 2]), ((1, 2), page (r 1 1) (r 1 3)), ((1, 3), st)]),
    ("root-generation-5", "tc", [cat 2 5, ((2, 5), node none 1 [r 3 4]), ((3, 4), page (r 2 5) (r 9 3)), ((9, 3), st)]),
    ("kid-undefined-generation-after", "any", [cat 2 0, ((2, 0), node none 1 [r 3 0, r 3 1]), ((3, 0), page (r 2 0) (r 9 0)), s9]),
    ("kid-undefined-generation-before", "any", [cat 2 0, ((2, 0), node none 1 [r 3 1, r 3 0]), ((3, 0), page (r 2 0) (r 9 0)), s9]),
    ("kid-undefined-generation-between", "any", [cat 2 0, ((2, 0), node none 2 [r 3 0, r 3 1, r 3 2]), ((3, 0), page (r 2 0) (r 9 0)),
        ((3, 2), page (r 2 0) (r 9 0)), s9]),
    ("pages-root-wrong-generation", "any", [cat 2 1, ((2, 0), node none 0 [])]),
    ("same-kid-twice-and-sibling-generation", "any", [cat 2 0, ((2, 0), node none 2 [r 3 1, r 3 0, r 3 1, r 3 0]),
        ((3, 0), page (r 2 0) (r 9 0)), ((3, 1), page (r 2 0) (r 9 0)), s9]),
    ("cycle-through-generations", "any", [cat 2 0, ((2, 0), node none 1 [r 3 0]), ((3, 0), node (some (r 2 0)) 1 [r 3 1]),
        ((3, 1), node (some (r 3 0)) 1 [r 3 0, r 3 2, r 3 1]), ((3, 2), page (r 3 1) (r 9 0)), s9]),
    ("contents-shares-page-number", "tc", [cat 2 0, ((2, 0), node none 1 [r 3 0]), ((3, 0), page (r 2 0) (r 3 1)), ((3, 1), st)]),
    ("contents-array-generations", "tc", [cat 2 0, ((2, 0), node none 1 [r 3 0]), ((3, 0), page (r 2 0) (.arr [r 3 2, r 3 1, r 3 2])),
        ((3, 1), st), ((3, 2), st)]),
    ("contents-undefined-generation", "any", [cat 2 0, ((2, 0), node none 1 [r 3 0]), ((3, 0), page (r 2 0) (r 9 1)), s9]),
    ("contents-chain-in-one-number", "tc", [cat 2 0, ((2, 0), node none 1 [r 3 0]), ((3, 0), page (r 2 0) (r 3 3)),
        ((3, 3), r 3 2), ((3, 2), r 3 1), ((3, 1), st)]),
    ("resources-share-page-number", "tc", [cat 2 0, ((2, 0), node none 1 [r 3 0]),
        ((3, 0), pageR (r 2 0) (r 9 0) (r 3 1)), ((3, 1), mkDict [("Font", r 3 2)]), ((3, 2), mkDict [("F1", r 3 3)]),
        ((3, 3), font "ABCDEF+Foo" [("FontDescriptor", r 3 4)]), ((3, 4), descr 32 [("FontFile2", r 3 5)]), ((3, 5), st), s9]),
    ("resources-undefined-generation-inherits", "any", [cat 2 0,
        ((2, 0), mkDict [("Type", nm "Pages"), ("Count", .int 1), ("Kids", .arr [r 3 0]), ("Resources", mkDict [("Font", mkDict [("F1", font "Helvetica" [])])])]),
        ((3, 0), pageR (r 2 0) (r 9 0) (r 3 1)), ((3, 2), mkDict [("Font", mkDict [("F2", font "Courier" [])])]), s9]),
    ("two-fonts-one-number", "tc", [cat 2 0, ((2, 0), node none 1 [r 3 0]),
        ((3, 0), pageR (r 2 0) (r 9 0) (mkDict [("Font", mkDict [("F1", r 5 0), ("F2", r 5 1), ("F3", r 5 0)])])),
        ((5, 0), font "Helvetica" []), ((5, 1), font "ABCDEF+Foo" [("Encoding", nm "WinAnsiEncoding")]), s9]),
    ("two-descriptors-one-number", "tc", [cat 2 0, ((2, 0), node none 1 [r 3 0]),
        ((3, 0), pageR (r 2 0) (r 9 0) (mkDict [("Font", mkDict [("F1", r 5 0), ("F2", r 5 1)])])),
        ((5, 0), font "ABCDEF+Foo" [("FontDescriptor", r 6 0)]), ((5, 1), font "ABCDEF+Bar" [("FontDescriptor", r 6 1)]),
        ((6, 0), descr 4 []), ((6, 1), descr 32 [("FontFile2", r 9 0)]), s9]),
    ("font-undefined-generation", "any", [cat 2 0, ((2, 0), node none 1 [r 3 0]),
        ((3, 0), pageR (r 2 0) (r 9 0) (mkDict [("Font", mkDict [("F1", r 5 1)])])), ((5, 0), font "Helvetica" []), s9]),
    ("descriptor-undefined-generation", "any", [cat 2 0, ((2, 0), node none 1 [r 3 0]),
        ((3, 0), pageR (r 2 0) (r 9 0) (mkDict [("Font", mkDict [("F1", r 5 0)])])),
        ((5, 0), font "ABCDEF+Foo" [("FontDescriptor", r 6 1)]), ((6, 0), descr 4 []), s9]) ].map
    fun (n, tag, doc) => ("mini-" ++ n, encCaseG tag 1 doc)

/-- a random tree of any of the five kinds under a random renaming `n -> (n mod m + a, n div m + b)`
    (m = 1..4 object numbers in all) or `n -> (n div m + a, n mod m + b)` (m generations per number) -/
def genOneG (seed kind : Nat) : String :=
  let (tag, objs) := genDoc seed kind
  let (m, r) := (Rng.mk' (seed * 31 + 7)).nat 4
  let m := m + 1
  let (a, r) := r.nat 3
  let (b, r) := r.pick [1, 1, 2, 7, 65000]
  let (sw, _) := r.nat 4
  let ren : Nat → ObjId := fun n => if sw == 0 then (n / m + a + 1, n % m + b) else (n % m + a + 1, n / m + b)
  encCaseG tag 1 (renDoc ren objs)

def gen (seed n : Nat) (tier : String) (emit : String → IO Unit) : IO Unit := do
  for c in smallCases (if tier == "thorough" then 1 else 7) do emit c
  for (_, c) in shapeCases do emit c
  for (_, c) in longCases (tier == "thorough") do emit c
  for (_, c) in kindCases do emit c
  for i in List.range n do
    emit (genOne (seed * 1000003 + i) (if i % 6 < 2 then 0 else if i % 6 < 3 then 1 else if i % 6 < 5 then 2 else 3))
  -- wrong-kind values at random positions of random trees: n/5 further cases (own seeds)
  for i in List.range (n / 5) do
    emit (genOne (seed * 1000003 + n + i) 4)
  -- identifiers with non-zero generations (all earlier cases have generation 0 throughout)
  let full := tier == "thorough"
  for (_, c) in genMiniCases do emit c
  for (_, c) in genVariantCases do emit c
  for (_, c) in genShapeCases do emit c
  for c in genSmallCases (if full then 1 else 7) (if full then 3 else 1) do emit c
  for c in genKindCases (if full then 1 else 7) (if full then 2 else 1) do emit c
  for c in genLongCases full do emit c
  for i in List.range (n / 5) do
    emit (genOneG (seed * 1000003 + 2 * n + i) (if i % 10 < 3 then 0 else if i % 10 < 5 then 1 else if i % 10 < 7 then 2 else if i % 10 < 9 then 3 else 4))

mutual
/-- does some array inside the value list an array, directly or as a reference to a defined array
    object (a container where an element is expected)? -/
partial def arrInArr (defs : Defs) : Obj → Bool
  | .arr xs =>
    xs.any fun x =>
      (match x with
       | .arr _ => true
       | .ref a g => (match PageTreeSpec.defOf defs (a, g) with | some (.arr _) => true | _ => false)
       | _ => false) || arrInArr defs x
  | .dict kvs => kvs.any fun kv => arrInArr defs kv.2
  | .stream kvs _ => kvs.any fun kv => arrInArr defs kv.2
  | _ => false
end

partial def refsIn : Obj → List ObjId
  | .ref a g => [(a, g)]
  | .arr xs => xs.flatMap refsIn
  | .dict kvs => kvs.flatMap fun kv => refsIn kv.2
  | .stream kvs _ => kvs.flatMap fun kv => refsIn kv.2
  | _ => []

/-- two identifiers of the graph (defined or referenced) share the object number and differ in the
    generation -/
def sharesNumber (defs : Defs) : Bool :=
  let ids := defs.flatMap fun (id, o) => id :: refsIn o
  ids.any fun a => ids.any fun b => a.1 == b.1 && a.2 != b.2

/-- non-trivial: the expected DOM has >= 3 records including an inner node, or the graph contains
    a top-level reference object (a link of a reference chain or a loop), or an array that lists an
    array (directly or through a reference to an array object), or two identifiers that differ in the
    generation only -/
def nontrivial (line : String) : Bool :=
  match decCase line with
  | none => false
  | some c =>
    let hasLink := c.defs.any fun (_, o) => match o with | .ref _ _ => true | _ => false
    let big := match PageTreeSpec.defOf c.defs (c.root, 0) with
      | none => false
      | some cat =>
        match PageTreeSpec.specDom c.defs cat with
        | none => false
        | some d => d.recs.length ≥ 3 && d.recs.any fun | .node .. => true | _ => false
    hasLink || big || (c.defs.any fun (_, o) => arrInArr c.defs o) || sharesNumber c.defs

def driver : PropDriver := { gen, model, judge, nontrivial }
end Driver.C11
