import Driver.Common
import Driver.Views
import Parsley.Model.Content
import Parsley.Spec.Fig9
/-
  C12 line protocol.

  case   :  <kind> <maxDepth> <hex stream> [<enc>]
            kind ∈ table | walk | dev | raw ;  <enc> = the syntax tree of the stream (Fig9.Prog)
            as a comma-separated token list (absent for `raw`):
              s<hex> separator   n<hex> number   /<hex> name   (<hex> literal string   h<hex> hex string
              t f z  true false null   [ ]  array   { }  dictionary   k<hex> key   o<hex> operator
            grammar  stream := s inst* ; inst := (operand s)* o s ;
                     operand := atom | [ s (atom s)* ] | { s (k s atom s)* }
  output :  ok <tok>*  (S | T<hex>)   |  err   |  panic <site>
  judge  :  decodes <enc>, checks it is well-formed and renders to exactly <hex stream>, and compares
            the implementation's output with `Fig9.expected` (never calls the model).

  opv case :  opv <maxDepth> <hex stream> <enc>     OPERAND-VALUE sweep: same format and same oracle as `walk`; the
            numeric operands written directly in front of an operator may be spelled `[-] d* [. d*]` WITHOUT the 18+18
            digit limit of `Fig9.numOK` (`numWide`).  `Fig9.expected` never looks at the value of a number, so the expected
            token list is that of the tree - compared EXACTLY, separator tokens included.  Only when some number has more
            than 38 digits (beyond what every implementation must represent: 10^38 - 1 < 2^127) the extractor may instead
            reject the stream (`err`): an implementation limit; any `ok` answer must still be the exact list.

  cut case :  cut <maxDepth> <hex stream> <enc>     <hex stream> is a strict PREFIX of the rendering of the
            well-formed program <enc> (known operators only), the rest lying behind the window of a view case:
            the extractor must answer `err`, or the tokens it returns must be a prefix of `Fig9.expected <enc>`.
  view variant :  vw <steps> <prehex> <sufhex> <any case above>     the same case with <hex stream> as a window of
            the larger allocation <prehex> ++ <hex stream> ++ <sufhex>, selected by a chain of RestrictView /
            RestrictViewFrom steps (Driver/Views.lean).  The extractor's output carries no offsets, so the
            unchanged code answers exactly what it answers on the window's bytes in a buffer of their own; model and
            oracle see the window alone (justification: Parsley.C17.view_refines_copy).  Classes of rejected view
            cases are prefixed `view-`.
-/
namespace Driver.C12
open Parsley Parsley.Fig9 Driver
open Parsley.Content (Tok)

/-! ### output format -/
def showToks (ts : List Tok) : String :=
  ts.foldl (fun acc t => acc ++ (match t with | .space => " S" | .raw b => " T" ++ hexOfBytes b)) "ok"

def showModel : Res (List Tok) → String
  | .ok ts => showToks ts
  | .err _ => "err"
  | .panic p => s!"panic {p}"

def showExpected : Option (List Tok) → String
  | some ts => showToks ts
  | none => "err"

/-! ### syntax-tree codec -/
def encAtom : Atom → String
  | .num sp => "n" ++ hexOfBytes sp
  | .name b => "/" ++ hexOfBytes b
  | .lit c => "(" ++ hexOfBytes c
  | .hex sp => "h" ++ hexOfBytes sp
  | .bool true => "t"
  | .bool false => "f"
  | .null => "z"

def encSep (s : Bytes) : String := "s" ++ hexOfBytes s

def encOperand : Operand → List String
  | .atom a => [encAtom a]
  | .arr s0 els => ["[", encSep s0] ++ els.flatMap (fun e => [encAtom e.1, encSep e.2]) ++ ["]"]
  | .dict s0 ents =>
    ["{", encSep s0] ++ ents.flatMap (fun e => ["k" ++ hexOfBytes e.1, encSep e.2.1, encAtom e.2.2.1, encSep e.2.2.2])
      ++ ["}"]

def encInst (i : Inst) : List String :=
  i.args.flatMap (fun a => encOperand a.1 ++ [encSep a.2]) ++ ["o" ++ hexOfBytes i.op, encSep i.after]

def encProg (p : Prog) : String :=
  ",".intercalate (encSep p.lead :: p.insts.flatMap encInst)

def tagged (c : Char) (t : String) : Option Bytes :=
  match t.toList with
  | c' :: rest => if c == c' then bytesOfHex (String.ofList rest) else none
  | [] => none

def decAtom (t : String) : Option Atom :=
  if t == "t" then some (.bool true) else if t == "f" then some (.bool false)
  else if t == "z" then some .null
  else match t.toList with
    | 'n' :: r => (bytesOfHex (String.ofList r)).map Atom.num
    | '/' :: r => (bytesOfHex (String.ofList r)).map Atom.name
    | '(' :: r => (bytesOfHex (String.ofList r)).map Atom.lit
    | 'h' :: r => (bytesOfHex (String.ofList r)).map Atom.hex
    | _ => none

/-- `(atom s)* ]` -/
def decEls : List String → Option (List (Atom × Bytes) × List String)
  | "]" :: rest => some ([], rest)
  | a :: s :: rest =>
    match decAtom a, tagged 's' s, decEls rest with
    | some a, some s, some (l, r) => some ((a, s) :: l, r)
    | _, _, _ => none
  | _ => none

/-- `(k s atom s)* }` -/
def decEnts : List String → Option (List (Bytes × Bytes × Atom × Bytes) × List String)
  | "}" :: rest => some ([], rest)
  | k :: s :: a :: t :: rest =>
    match tagged 'k' k, tagged 's' s, decAtom a, tagged 's' t, decEnts rest with
    | some k, some s, some a, some t, some (l, r) => some ((k, s, a, t) :: l, r)
    | _, _, _, _, _ => none
  | _ => none

/-- `(operand s)* o s` then further instances -/
partial def decInsts (toks : List String) (args : List (Operand × Bytes)) (acc : List Inst) :
    Option (List Inst) :=
  match toks with
  | [] => if args.isEmpty then some acc.reverse else none
  | "[" :: s0 :: rest =>
    match tagged 's' s0, decEls rest with
    | some s0, some (els, s :: rest') =>
      (tagged 's' s).bind fun s => decInsts rest' (args ++ [(.arr s0 els, s)]) acc
    | _, _ => none
  | "{" :: s0 :: rest =>
    match tagged 's' s0, decEnts rest with
    | some s0, some (ents, s :: rest') =>
      (tagged 's' s).bind fun s => decInsts rest' (args ++ [(.dict s0 ents, s)]) acc
    | _, _ => none
  | t :: s :: rest =>
    match tagged 's' s with
    | none => none
    | some s =>
      match tagged 'o' t with
      | some op => decInsts rest [] ({ args := args, op := op, after := s } :: acc)
      | none => (decAtom t).bind fun a => decInsts rest (args ++ [(.atom a, s)]) acc
  | _ => none

def decProg (enc : String) : Option Prog :=
  match enc.splitOn "," with
  | l :: rest => (tagged 's' l).bind fun lead => (decInsts rest [] []).map fun is => { lead := lead, insts := is }
  | [] => none

/-! ### model / judge -/
def modelPlain (line : String) : String :=
  match words line with
  | _ :: d :: hex :: _ =>
    match d.toNat?, bytesOfHex hex with
    | some d, some s => showModel (Content.extract d s)
    | _, _ => "bad-case"
  | _ => "bad-case"

/-- the window of a case: its third word -/
def winOf : List String → Option Bytes
  | _ :: _ :: hex :: _ => bytesOfHex hex
  | _ => none

def model (line : String) : String := Views.model winOf modelPlain line

/-! ### numbers beyond `Fig9.numOK` (spec side, written from ISO 32000-1 7.3.3; never calls the model)

  `numWide` is `Fig9.numOK` without its length limit: optional `-`, digits, optionally a dot and digits, at least one
  digit or the dot.  The judge admits such spellings for the operands written directly in front of an operator
  (not inside arrays / dictionaries, whose numbers the object parser reads with a 64-bit accumulator). -/
def numWide (sp : Bytes) : Bool :=
  let body := match sp with | 45 :: t => t | _ => sp
  let ip := body.takeWhile Fig9.isDigit
  let rest := body.dropWhile Fig9.isDigit
  match rest with
  | [] => !ip.isEmpty
  | 46 :: fp => fp.all Fig9.isDigit
  | _ => false

def numDigits (sp : Bytes) : Nat := (sp.filter Fig9.isDigit).length

def narrowArg (a : Operand × Bytes) : Operand × Bytes :=
  match a.1 with
  | .atom (.num sp) => if numWide sp then (.atom (.num [48]), a.2) else a
  | _ => a

/-- the tree with every wide top-level number replaced by `0`: well-formedness of everything else is `Fig9.Prog.ok` -/
def narrow (p : Prog) : Prog :=
  { p with insts := p.insts.map fun i => { i with args := i.args.map narrowArg } }

def okWide (p : Prog) : Bool := (narrow p).ok

/-- some top-level number has more than 38 digits: the stream may be rejected for an implementation limit -/
def overLimit (p : Prog) : Bool :=
  p.insts.any fun i => i.args.any fun a =>
    match a.1 with
    | .atom (.num sp) => decide (numDigits sp > 38)
    | _ => false

def judgePlain (case impl : String) : String :=
  match words case with
  | ["cut", _, hex, enc] =>
    match bytesOfHex hex, decProg enc with
    | some s, some p =>
      if !p.ok then "bad ill-formed-case tree is outside the spec's domain"
      else if !(s.length < p.render.length && s == p.render.take s.length) then "bad case-mismatch not a strict prefix of the rendering"
      else
        match expected p with
        | none => "bad ill-formed-case the full program is not valid"
        | some full =>
          let i := impl.trimAscii.toString
          if i == "err" then "ok"
          else if i == "hang" then "bad nontermination cut stream"
          else if i.startsWith "ok" then
            let got := (words i).drop 1
            let want := (words (showToks full)).drop 1
            if got.length ≤ want.length && got == want.take got.length then "ok"
            else s!"bad cut-unsound tokens that the whole stream does not yield; whole={showToks full}"
          else "bad panic cut stream"
    | _, _ => "bad undecodable-case -"
  | [_, _, _] =>
    -- raw bytes: no syntax tree, so no expected tokens - but the extractor must still END (value or error)
    let i := impl.trimAscii.toString
    if i == "hang" then "bad nontermination raw stream"
    else if i.startsWith "panic" || i.startsWith "crash" then "bad panic raw stream"
    else "skip"
  | [_, d, hex, enc] =>
    match d.toNat?, bytesOfHex hex, decProg enc with
    | some d, some s, some p =>
      if !(okWide p && d ≥ 1) then "bad ill-formed-case tree is outside the spec's domain"
      else if p.render != s then "bad case-mismatch tree does not render to the stream"
      else
        -- EXACT comparison of the token list (separator tokens are never collapsed)
        let e := showExpected (expected p)
        let i := impl.trimAscii.toString
        if e == i then "ok"
        else if i == "err" && overLimit p then "ok"
        else if i == "hang" then s!"bad nontermination expected={e}"
        else if i.startsWith "panic" || i.startsWith "crash" then s!"bad panic expected={e}"
        else if e == "err" then s!"bad accepts-invalid expected=err"
        else if i == "err" then s!"bad rejects-valid expected={e}"
        else s!"bad wrong-tokens expected={e}"
    | _, _, _ => "bad undecodable-case -"
  | _ => "bad undecodable-case -"

def judge (case impl : String) : String := Views.judge winOf judgePlain case impl

/-! ### generators -/
abbrev G := StateM Rng

def gnat (n : Nat) : G Nat := fun r => r.nat n
def gpick [Inhabited α] (l : List α) : G α := fun r => r.pick l
def gbool : G Bool := do return (← gnat 2) == 1
def grep (n : Nat) (g : G α) : G (List α) := (List.range n).mapM fun _ => g

def b (s : String) : Bytes := strBytes s

def sepsNE : List Bytes :=
  [b " ", b " ", b " ", b "\n", b "  ", b "\r\n", b "\t", b " %c\n", b "%x (y\n ", [0], [12, 32], b "\n%\n", b " % BT ET\r\n\n"]

def gsepNE : G Bytes := gpick sepsNE
def gsep : G Bytes := do if (← gnat 3) == 0 then return [] else gsepNE

def digits (n : Nat) : G Bytes := grep n (do return UInt8.ofNat (48 + (← gnat 10)))

/-- boundary spellings inside `Fig9.numOK` (zeros in every spelling, small values, i32 boundaries, longest spellings);
    the operand-value sweep below (`opvSweep`) has the full set -/
def numPool : List Bytes :=
  (["0", "0", "0", "-0", "0.0", ".0", "0.", "00", "-0.00", "-.0", ".", "-.", "1", "-1", "0.5", "1.0", "-1.0", "1.", "2147483647",
    "2147483648", "-2147483648", "-2147483649", "4294967296", "999999999999999999", "-999999999999999999",
    "999999999999999999.999999999999999999", "0.000000000000000000", "000000000000000000"].map strBytes).filter numOK

def gnum : G Atom := do
  if (← gnat 4) == 0 then return .num (← gpick numPool)
  let neg ← gnat 4
  let ni ← gpick [0, 1, 1, 2, 3, 5, 9, 18]
  let ip ← digits ni
  let k ← gnat 3
  let fp ← if k == 0 || ni == 0 then (do let nf ← gpick [0, 1, 2, 4, 18]; return [46] ++ (← digits nf)) else pure []
  return .num ((if neg == 0 then [45] else []) ++ ip ++ fp)

def regularPool : Bytes := b "ABCDEFGHIJKLMNOPQRSTUVWXYZabcdefghijklmnopqrstuvwxyz0123456789_-.*'\"!@$^&=+|~,:;?`\\"

def gname : G Atom := do
  let n ← gnat 6
  return .name (← grep n (gpick regularPool.toArray.toList))

/-- balanced literal-string body (escapes, nesting, arbitrary bytes) -/
def glitBody : Nat → G Bytes
  | 0 => pure []
  | fuel + 1 => do
    let n ← gnat 5
    let parts ← grep n (do
      match ← gnat 8 with
      | 0 => do let x ← gpick [40, 41, 92, 110, 65, 10]; return [92, x]
      | 1 => do let inner ← glitBody fuel; return [40] ++ inner ++ [41]
      | 2 => do let x ← gnat 256; let x := UInt8.ofNat x
                return (if x == 40 || x == 41 || x == 92 then [32] else [x])
      | _ => do let x ← gpick (b "abc XYZ012%/<>[]#\n").toArray.toList; return [x])
    return parts.flatten

def ghexBody : G Bytes := do
  let n ← gnat 7
  let ds ← grep n (gpick (b "0123456789abcdefABCDEF").toArray.toList)
  if (← gnat 4) == 0 then return ds.flatMap (fun d => [d, 32]) else return ds

def gstr : G Atom := do
  if (← gnat 3) == 0 then return .hex (← ghexBody) else return .lit (← glitBody 2)

def gatom : G Atom := do
  match ← gnat 9 with
  | 0 | 1 | 2 => gnum
  | 3 | 4 => gname
  | 5 | 6 => gstr
  | 7 => return .bool (← gbool)
  | _ => return .null

def gkeys : List Bytes := [b "A", b "Type", b "MCID", b "W", b "H", b "BPC", b "x.y"]

def goperand : G Operand := do
  match ← gnat 8 with
  | 0 => do
    let n ← gnat 4
    return .arr (← gsep) (← grep n (do return (← gatom, ← gsepNE)))
  | 1 => do
    let n ← gnat 3
    let ks := gkeys.take n
    let ents ← ks.mapM (fun k => do return (k, ← gsepNE, ← gatom, ← gsepNE))
    return .dict (← gsep) ents
  | _ => return .atom (← gatom)

def gtjArr : G Operand := do
  let n ← gnat 5
  return .arr (← gsep) (← grep n (do
    let a ← if (← gnat 3) == 0 then gnum else gstr
    return (a, ← gsepNE)))

/-- well-formed operands of a text-showing operator -/
def gshowArgs (op : Bytes) : G (List (Operand × Bytes)) := do
  if op == Fig9.TJ then return [(← gtjArr, ← gsepNE)]
  else if op == Fig9.dquote then
    return [(.atom (← gnum), ← gsepNE), (.atom (← gnum), ← gsepNE), (.atom (← gstr), ← gsepNE)]
  else return [(.atom (← gstr), ← gsepNE)]

def gargsAny : G (List (Operand × Bytes)) := do
  let n ← gpick [0, 0, 1, 1, 2, 3, 6]
  grep n (do return (← goperand, ← gsepNE))

def unknownOps : List Bytes := [b "foo", b "XYZ", b "q1", b "T", b "Tjj", b "b**", b "R", b "true1", b "nul", b "Q.", b "BTET"]

def permitted (n : Node) : List Bytes := (catTable.map (·.1)).filter (fun op => (step n op).isSome)

/-- number of numeric operands of the text-state / text-positioning operators (ISO 32000-1 Tables 105, 108) -/
def numArity (op : Bytes) : Option Nat :=
  if op == Fig9.Td || op == Fig9.TD then some 2
  else if op == b "Tm" then some 6
  else if op == b "Tc" || op == b "Tw" || op == b "Tz" || op == b "TL" || op == b "Ts" || op == b "Tr" then some 1
  else none

def mkInst (op : Bytes) : G Inst := do
  let args ← if catOf op == some .textShowing then gshowArgs op
    else match numArity op with
      | some k =>
        -- every other time the operands the standard prescribes (numbers, boundary spellings included)
        if (← gnat 2) == 0 then gargsAny else grep k (do return (.atom (← gnum), ← gsepNE))
      | none => gargsAny
  return { args := args, op := op, after := ← gsepNE }

/-- a random walk over Figure 9 (state tracked with the spec automaton) -/
def gwalk : Nat → Node → Nat → G (List Inst)
  | 0, _, _ => pure []
  | len + 1, n, compat => do
    let k ← gnat 12
    if k == 0 && compat > 0 then
      let op ← gpick unknownOps
      let i : Inst := { args := ← gargsAny, op := op, after := ← gsepNE }
      return i :: (← gwalk len n compat)
    else
      -- bias towards entering / staying in text objects
      let ops := permitted n
      let favour : List Bytes :=
        match n with
        | .page => [Fig9.BT, Fig9.BT, Fig9.BX, b "q", b "cm", b "re"]
        | .text => [Fig9.Tj, Fig9.TJ, Fig9.quote, Fig9.dquote, Fig9.Td, Fig9.Tstar, Fig9.ET, b "Tf", Fig9.BX, Fig9.EX]
        | .path => [b "l", b "W", b "f", b "n"]
        | .clip => [b "n"]
        | .image => [Fig9.EI, Fig9.ID]
      let op ← if (← gnat 2) == 0 then gpick favour else gpick ops
      let i ← mkInst op
      let n' := (step n op).getD n
      let compat' := if op == Fig9.BX then compat + 1 else if op == Fig9.EX then compat - 1 else compat
      return i :: (← gwalk len n' compat')

def fixLast (insts : List Inst) (lastAfter : Bytes) : List Inst :=
  match insts.reverse with
  | [] => []
  | l :: r => ({ l with after := lastAfter } :: r).reverse

def gprog : G Prog := do
  let len ← gpick [0, 1, 2, 3, 4, 6, 8, 12, 20]
  let insts ← gwalk len .page 0
  return { lead := ← gsep, insts := fixLast insts (← gsep) }

def setAt (l : List α) (i : Nat) (f : α → List α) : List α :=
  (l.take i) ++ (match l[i]? with | some x => f x | none => []) ++ l.drop (i + 1)

/-- one structural deviation of a walk -/
def gdeviate (p : Prog) : G Prog := do
  let n := p.insts.length
  let i ← gnat (max n 1)
  let insts ← match ← gnat 9 with
    | 0 => do  -- another table operator in this position
      let op ← gpick (catTable.map (·.1))
      pure (setAt p.insts i fun x => [{ x with op := op }])
    | 1 => do  -- unknown operator inserted
      let op ← gpick unknownOps
      let ins : Inst := { args := ← gargsAny, op := op, after := ← gsepNE }
      pure (setAt p.insts i fun x => [ins, x])
    | 2 => pure (setAt p.insts i fun x => [{ x with args := x.args.drop 1 }])          -- operand dropped
    | 3 => do  -- extra operand in front
      let a ← goperand; let s ← gsepNE
      pure (setAt p.insts i fun x => [{ x with args := (a, s) :: x.args }])
    | 4 => do  -- extra operand at the end
      let a ← goperand; let s ← gsepNE
      pure (setAt p.insts i fun x => [{ x with args := x.args ++ [(a, s)] }])
    | 5 => do  -- one operand replaced by an operand of arbitrary kind
      let a ← goperand
      let j ← gnat 3
      pure (setAt p.insts i fun x => [{ x with args := setAt x.args j fun y => [(a, y.2)] }])
    | 6 => pure (setAt p.insts i fun _ => [])                                           -- operator dropped
    | 7 => do  -- operands rotated
      pure (setAt p.insts i fun x => [{ x with args := x.args.drop 1 ++ x.args.take 1 }])
    | _ => do  -- a text-showing operator with arbitrary operands inserted
      let op ← gpick [Fig9.Tj, Fig9.TJ, Fig9.quote, Fig9.dquote]
      let ins : Inst := { args := ← gargsAny, op := op, after := ← gsepNE }
      pure (setAt p.insts i fun x => [x, ins])
  -- keep the spelling well-formed: every operator but the last needs a separator
  let insts := insts.map fun x => if x.after.isEmpty then { x with after := [32] } else x
  return { p with insts := insts }

def caseLine (kind : String) (d : Nat) (p : Prog) : String :=
  s!"{kind} {d} {hexOfBytes p.render} {encProg p}"

def num0 : Operand × Bytes := (.atom (.num (b "0")), b " ")

/-- shortest prefix reaching each node -/
def prefixOf : Node → List Inst
  | .page => []
  | .text => [{ args := [], op := Fig9.BT, after := b " " }]
  | .path => [{ args := [num0, num0], op := Fig9.opm, after := b " " }]
  | .clip => [{ args := [num0, num0], op := Fig9.opm, after := b " " }, { args := [], op := b "W", after := b " " }]
  | .image => [{ args := [], op := Fig9.BI, after := b " " }]

/-- canonical well-formed operands for the table cases -/
def tableArgs (op : Bytes) : List (Operand × Bytes) :=
  if op == Fig9.TJ then [(.arr [] [(.lit (b "a"), b " "), (.num (b "-5"), b " "), (.hex (b "62"), b " ")], b " ")]
  else if op == Fig9.dquote then [num0, num0, (.atom (.lit (b "q")), b " ")]
  else if op == Fig9.Tj || op == Fig9.quote then [(.atom (.lit (b "s")), b " ")]
  else []

/-- probes whose acceptance pattern identifies the node: cm (page only), T* (text only),
    h (path only), n (path and clip), ID (image only) -/
def probes : List Bytes := [b "cm", Fig9.Tstar, b "h", b "n", Fig9.ID]

/-! ### every case once more on a restricted view (Driver/Views.lean)

  Each case line is followed by its view twin.  Axes, cycled by the running case counter `c` with pairwise coprime
  periods: bytes in front of the window (16: 1, 7, 11, 1000, ... of them - a file header with a stream object and
  content-stream text, or random bytes), chain of restrictions (7: View, From, view of a view in four ways, three
  deep), bytes behind the window (5).  What lies behind the window CONTINUES the stream: behind a truncated stream
  (`raw` truncations, `cut`) the rest of it; behind a structured case more operands and text-showing operators, the
  closing of a string / array / text object - so that an extractor reading beyond the view's end returns more tokens,
  completes a construct, or fails.  One random structured case in five gets a second twin whose window ENDS AFTER AN
  EARLIER INSTRUCTION of the program (expected: what the spec says of that shorter program), the remaining
  instructions lying behind it. -/

def junkText : Bytes :=
  b "%PDF-1.7\n4 0 obj<</Length 44>>stream\nBT /F1 12 Tf 72 712 Td (junk) Tj ET\nendstream endobj\nBT (before) Tj [(a) -5 <62>] TJ ET q 1 0 0 1 0 0 cm Q\n"

def sufPool : List Bytes :=
  [b " (more) Tj", b ") Tj ET", b " Tj\n", b "j", b " ET\nBT (x) Tj ET", b "> Tj", b "] TJ", b " 0 0 Td (z) '", b "*", b "\n(behind) Tj\n",
   b "(s) Tj", b " BT (t) Tj ET"]

def viewTwin (c : Nat) (line : String) (cont : Option Bytes) : Option String :=
  match words line with
  | _ :: _ :: hex :: _ =>
    match bytesOfHex hex with
    | none => none
    | some buf =>
      let pool := sufPool[(c / 5) % sufPool.length]?.getD []
      let suf : Bytes := match c % 5 with
        | 1 => []
        | 3 => pool
        | _ => cont.getD pool
      some (Views.viewLine c line buf.length junkText suf)
  | _ => none

/-- the program cut after an earlier instruction, and what then lies behind the window -/
def trimProg (c : Nat) (p : Prog) : Option (Prog × Bytes) :=
  let n := p.insts.length
  if n < 2 then none else
  let j := 1 + c % (n - 1)
  let p' : Prog := { p with insts := p.insts.take j }
  let s := p.render
  let s' := p'.render
  if p'.ok && s'.length < s.length && s.take s'.length == s' then some (p', s.drop s'.length) else none

def knownOps (p : Prog) : Bool := p.insts.all fun i => (catOf i.op).isSome

/-- windows that end inside a stream: valid programs cut at every byte, the rest lying behind the window -/
def cutWindows (emit : String → IO Unit) (seed nprogs : Nat) : IO Unit := do
  let str (s : String) : Operand × Bytes := (.atom (.lit (b s)), b " ")
  let fixed : Prog := { lead := b " ", insts := [
    { args := [], op := Fig9.BT, after := b "\n" },
    { args := [(.atom (.name (b "F1")), b " "), (.atom (.num (b "12")), b " ")], op := b "Tf", after := b " " },
    { args := [str "he(l)lo"], op := Fig9.Tj, after := b " " },
    { args := [num0, (.atom (.num (b "-14.5")), b " ")], op := Fig9.Td, after := b "\n" },
    { args := tableArgs Fig9.TJ, op := Fig9.TJ, after := b " " },
    { args := [], op := Fig9.Tstar, after := b " " },
    { args := [str "q"], op := Fig9.quote, after := b " " },
    { args := [num0, num0, str "dq"], op := Fig9.dquote, after := b "\r\n" },
    { args := [], op := Fig9.ET, after := b "\n" }] }
  let mut r := Rng.mk' (seed + 12)
  let mut k := 0
  let mut done := 0
  for i in List.range (40 * nprogs) do
    if done < nprogs then
      let (p, r1) := if i == 0 then (fixed, r) else gprog r
      r := r1
      let s := p.render
      if p.ok && knownOps p && p.insts.length ≥ 2 && s.length ≤ 160 && (expected p).isSome then
        done := done + 1
        for cut in List.range s.length do
          k := k + 1
          let line := s!"cut 4 {Views.hexOrDash (s.take cut)} {encProg p}"
          match viewTwin k line (some (s.drop cut)) with
          | some l => emit l
          | none => pure ()

/-! ### operand-value sweep (kind `opv`)

  Every operator of Table 51 that takes numeric operands and has a documented effect on the token list (or none):
  the text-positioning operators `Td TD Tm T*`, the text-state operators `Tc Tw Tz TL Tf Tr Ts`, and `'` `"`
  (ISO 32000-1 Tables 105, 108, 109: operand lists written from the standard, not from the Rust table).
  The numeric operands run over a boundary set of SPELLINGS - zeros (`0 -0 0.0 .0 0. 00 . -. -0.00` ...: some lex to
  the integer 0, some to a real 0), small values, integer-valued reals (`1.0`), the i32 / u32 / i64 / u64 / i128
  boundaries and their neighbours, 38- / 39- / 40-digit numbers - in every position, as all-equal tuples, and (two
  operands) as pairs; the instance is placed between two shown strings, at the start / end of a text object, alone,
  twice in a row, inside a compatibility section, and (text state) at page level.  The separator token of
  `Td TD T*` does not depend on the operands: `Fig9.expected` says so and the judge compares exactly. -/

structure NumOp where
  op : Bytes
  pre : List Operand     -- operands in front of the numbers
  k : Nat                -- number of numeric operands
  post : List Operand    -- operands behind the numbers

def numOps : List NumOp := [
  ⟨Fig9.Td, [], 2, []⟩, ⟨Fig9.TD, [], 2, []⟩, ⟨Fig9.Tstar, [], 0, []⟩, ⟨b "Tm", [], 6, []⟩,
  ⟨b "TL", [], 1, []⟩, ⟨b "Tc", [], 1, []⟩, ⟨b "Tw", [], 1, []⟩, ⟨b "Tz", [], 1, []⟩, ⟨b "Ts", [], 1, []⟩,
  ⟨b "Tr", [], 1, []⟩, ⟨b "Tf", [.atom (.name (b "F1"))], 1, []⟩,
  ⟨Fig9.quote, [], 0, [.atom (.lit (b "q"))]⟩, ⟨Fig9.dquote, [], 2, [.atom (.lit (b "dq"))]⟩]

def nines (n : Nat) : String := String.ofList (List.replicate n '9')
def zeros (n : Nat) : String := String.ofList (List.replicate n '0')

/-- spellings of zero -/
def zeroVals : List String :=
  ["0", "-0", "0.0", ".0", "0.", "00", "-0.00", "-.0", ".", "-.", "-0.", "000.000", "0." ++ zeros 18, zeros 18]

def smallVals : List String :=
  ["1", "-1", "0.5", "-0.5", ".5", "1.0", "-1.0", "1.", "01", "1.50", "10", "0.1", "-0.0001", "12", "-14.5", "1000", "-1000"]

/-- i32 / u32 / i64 / u64 / i128 boundaries with neighbours, integer-valued reals at the boundaries, long spellings -/
def boundVals : List String :=
  ["2147483647", "2147483648", "-2147483648", "-2147483649", "4294967295", "4294967296", "2147483647.0",
   nines 18, "-" ++ nines 18, nines 18 ++ "." ++ nines 18,
   "9223372036854775807", "9223372036854775808", "-9223372036854775808", "-9223372036854775809",
   "9223372036854775807.", "9223372036854775807.0", "9223372036854775808.", "-9223372036854775808.",
   "18446744073709551615", "18446744073709551616",
   nines 38, "-" ++ nines 38, nines 19 ++ "." ++ nines 19, "." ++ nines 38, "0." ++ zeros 37,
   "170141183460469231731687303715884105727", "170141183460469231731687303715884105728",
   "-170141183460469231731687303715884105727", "-170141183460469231731687303715884105728",
   "17014118346046923173168730371588410572.7", "17014118346046923173168730371588410572.8",
   nines 39, "1" ++ zeros 38, "1" ++ zeros 39, "0." ++ zeros 38, "0." ++ zeros 39, "1." ++ zeros 38,
   zeros 40, zeros 39 ++ "1", "-" ++ nines 40]

def allVals : List String := zeroVals ++ smallVals ++ boundVals
/-- the values for pairs -/
def coreVals : List String := zeroVals.take 11 ++ ["1", "-1", "0.5", "1.0"]

def numO (s : String) : Operand := .atom (.num (b s))
def sp1 (o : Operand) : Operand × Bytes := (o, b " ")

def opvInst (o : NumOp) (vals : List Operand) : Inst :=
  { args := (o.pre ++ vals ++ o.post).map sp1, op := o.op, after := b " " }

def tjInst (s : String) : Inst := { args := [sp1 (.atom (.lit (b s)))], op := Fig9.Tj, after := b " " }
def op0 (op : Bytes) : Inst := { args := [], op := op, after := b " " }

def nPlacements : Nat := 7

/-- where the instances under test stand; `none` = placement not applicable -/
def place (pl : Nat) (pageOK : Bool) (xs : List Inst) : Option Prog :=
  let bt := op0 Fig9.BT
  let et := op0 Fig9.ET
  let insts : Option (List Inst) :=
    match pl with
    | 0 => some ([bt, tjInst "a"] ++ xs ++ [tjInst "b", et])            -- between two shown strings
    | 1 => some ([bt] ++ xs ++ [tjInst "b", et])                         -- start of the text object
    | 2 => some ([bt, tjInst "a"] ++ xs ++ [et])                         -- end of the text object
    | 3 => some ([bt] ++ xs ++ [et])                                     -- alone
    | 4 => some ([bt, tjInst "a"] ++ xs ++ xs ++ [tjInst "b", et])       -- twice in a row
    | 5 => some ([op0 Fig9.BX, bt, tjInst "a"] ++ xs ++ [tjInst "b", et, op0 Fig9.EX])  -- compatibility section
    | _ => if pageOK then some (xs ++ [bt, tjInst "a", et]) else none    -- page level (text state only)
  insts.map fun is => { lead := [], insts := fixLast is [] }

def setNth (l : List α) (i : Nat) (x : α) : List α := l.take i ++ [x] ++ l.drop (i + 1)

/-- operands that are not numbers -/
def otherKinds : List Operand :=
  [.atom (.name (b "N")), .atom (.lit (b "s")), .atom (.hex (b "41")), .atom (.bool true), .atom .null,
   .arr [] [(.num (b "0"), b " ")], .dict [] [(b "A", b " ", .num (b "0"), b " ")]]

def opvSweep (emitP : String → Nat → Prog → IO Unit) (thorough : Bool) : IO Unit := do
  let out (pls : List Nat) (o : NumOp) (xs : List Inst) : IO Unit := do
    let pageOK := (step .page o.op).isSome
    for pl in pls do
      match place pl pageOK xs with
      | some p => emitP "opv" 4 p
      | none => pure ()
  let allPl := List.range nPlacements
  let mut c := 0
  for o in numOps do
    let k := o.k
    let tup (vs : List String) : List Inst := [opvInst o (vs.map numO)]
    -- A: all-equal tuples (k = 0: the bare operator)
    if k == 0 then out allPl o (tup [])
    else
      for v in allVals do out allPl o (tup (List.replicate k v))
    if k ≥ 2 then
      -- B: every value in every position, the other positions 0 resp. 1
      for base in ["0", "1"] do
        for i in List.range k do
          for v in allVals do
            c := c + 1
            let pls := if thorough then allPl else [0, 1 + c % 5]
            out pls o (tup (setNth (List.replicate k base) i v))
      -- D: a different spelling of zero in every position
      for r in List.range zeroVals.length do
        out allPl o (tup ((List.range k).map fun i => zeroVals[(r + i) % zeroVals.length]?.getD "0"))
    if k == 2 then
      -- C: pairs
      for v in coreVals do
        for w in coreVals do
          c := c + 1
          let pls := if thorough then allPl else [0, 2, 4]
          out pls o (tup [v, w])
    -- E: operand count off (zeros): the separator of a line move does not depend on it; `'` `"` must be rejected
    for n in [0, k - 1, k + 1, 2 * k + 1].eraseDups do
      if n != k then out [0, 3, 5] o (tup (List.replicate n "0"))
    -- F: another kind of operand in one numeric position
    for i in List.range k do
      for x in otherKinds do
        out [0, 3] o [opvInst o (setNth ((List.replicate k "0").map numO) i x)]
    -- G: a `+` makes the token an (unknown) operator, which takes the operands in front of it: error outside a
    --    compatibility section, ignored inside (the operator under test then sees the remaining operands)
    for i in List.range k do
      for pz in ["+0", "+1", "+.5", "+0.0"] do
        let front := (o.pre ++ (List.replicate i "0").map numO).map sp1
        let back := ((List.replicate (k - 1 - i) "0").map numO ++ o.post).map sp1
        let xs : List Inst := [{ args := front, op := b pz, after := b " " }, { args := back, op := o.op, after := b " " }]
        out [0, 5] o xs

def gen (seed n : Nat) (tier : String) (emit0 : String → IO Unit) : IO Unit := do
  -- every case is emitted twice: as it is, and on a restricted view
  let ctr ← IO.mkRef 0
  let emitC (cont : Option Bytes) (line : String) : IO Unit := do
    emit0 line
    let c ← ctr.modifyGet fun c => (c, c + 1)
    match viewTwin c line cont with
    | some l => emit0 l
    | none => pure ()
  let emit := emitC none
  -- a structured case; one in five is followed by a view whose window ends after an earlier instruction
  -- (counter divisible by 5: the suffix rule of `viewTwin` then puts the remaining instructions behind the window)
  let emitP (kind : String) (d : Nat) (p : Prog) : IO Unit := do
    emit (caseLine kind d p)
    let c ← ctr.get
    if c % 5 == 0 then
      match trimProg c p with
      | some (p', rest) =>
        ctr.set (c + 1)
        match viewTwin c (caseLine kind d p') (some rest) with
        | some l => emit0 l
        | none => pure ()
      | none => pure ()
  cutWindows emit0 seed (if tier == "thorough" then 60 else 8)
  -- stream 5: operand-value sweep of the operators with numeric operands
  opvSweep emitP (tier == "thorough")
  -- stream 4: exhaustive (node, operator) table, each pair followed by every probe and by nothing
  let allOps := catTable.map (·.1) ++ [b "foo"]
  for nd in allNodes do
    for op in allOps do
      for inBX in [false, true] do
        let pre := (if inBX then [({ args := [], op := Fig9.BX, after := b " " } : Inst)] else []) ++ prefixOf nd
        -- BX is only legal at page level / in text: open the section first, then walk to the node
        let it : Inst := { args := tableArgs op, op := op, after := [] }
        emit (caseLine "table" 4 { lead := [], insts := pre ++ [it] })
        for pr in probes do
          let it : Inst := { args := tableArgs op, op := op, after := b "\n" }
          let p : Inst := { args := [], op := pr, after := [] }
          emit (caseLine "table" 4 { lead := [], insts := pre ++ [it, p] })
  -- streams 2 and 3: random walks, their single-step deviations, and raw byte damage
  let mut r := Rng.mk' seed
  for _ in List.range n do
    let (p, r1) := gprog r
    let (d, r2) := r1.pick [1, 1, 2, 4, 8]
    emitP "walk" d p
    let (q, r3) := gdeviate p r2
    emitP "dev" d q
    -- raw: truncate or damage one byte of the rendered stream (no '+': spelled numbers never carry it)
    let s := q.render
    let (k, r4) := r3.nat 3
    let (pos, r5) := r4.nat (s.length + 1)
    let (x, r6) := r5.pick (b " ()<>[]/%\\#0.-RTjJ'\"\nEBX").toArray.toList
    r := r6
    let s' := if k == 0 then s.take pos else if k == 1 then s.take pos ++ [x] ++ s.drop (pos + 1)
              else s.take pos ++ [x] ++ s.drop pos
    -- (on a view: behind a truncated window lies the rest of the stream)
    emitC (if k == 0 then some (s.drop pos) else none) s!"raw {d} {hexOfBytes s'}"

/-- non-trivial: a structured case (syntax tree present) with at least two operator instances -/
def nontrivialPlain (line : String) : Bool :=
  match words line with
  | [_, _, _, enc] => ((enc.splitOn ",").filter (fun t => t.startsWith "o")).length ≥ 2
  | _ => false

/-- a case on a view counts when the case does and the window lies inside a larger allocation -/
def nontrivial (line : String) : Bool := Views.nontrivial nontrivialPlain line

def driver : PropDriver := { gen, model, judge, nontrivial }
end Driver.C12
