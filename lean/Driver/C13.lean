import Driver.Common
import Driver.ViewTwin
import Parsley.Model.Xref
import Parsley.Spec.Xref
/-!
  Line protocol for C13.

  tab <hex> <pos> [L S<start>:<wStart>:<wCount>:<leadhex>:<hdrEolhex> E<info>:<gen>:<n|f>:<a|b|c> ... R<resthex>
                   [M<k>:<chunkhex>] [X]]
        the bytes of a classic table; the optional description says how they were produced: by the
        spec encoder from subsections/entries (L …), with entry number k (counted over the whole
        table) replaced by the chunk (M), and everything after that chunk cut off (X).
  xs <enc> <dictspec> <contenthex> <pos>      cross-reference stream, unfiltered content
  xz <mode> <dictspec> <rowshex>              the harness compresses the rows (zlib, optional PNG Up)
        mode = <p><l>: p in {0 no /DecodeParms, 1 /Predictor 1, u PNG Up}; l in {0 stored, 6 default compression,
        a..g default compression with the encoder's window set to 2^9..2^15 bytes (zlib header 18 xx .. 78 xx, RFC 1950
        CINFO 1..7), h the smallest window's header 08 99 on a payload of at most 256 bytes}: every legal window size

  vw <steps> <prehex> <sufhex> <tab … | xs … | xz …>
        the same case on a RESTRICTED VIEW (Driver/ViewTwin.lean): the bytes the parser is to see (tab: <hex>,
        xs: <contenthex>, xz: the compressed content) are the window of the allocation pre ++ window ++ suf
        that the chain of RestrictView / RestrictViewFrom steps selects.  <pos>, spans, cursors and entry
        offsets are cursors of the view.  Model and oracle are those of the case on the window's bytes alone
        (C17 `view_refines_copy`: a view behaves like a copy of its window); oracle classes are prefixed `view-`.

  The oracle (`judge`) is computed from `Parsley.XrefSpec` only.
-/
namespace Driver.C13
open Parsley Parsley.Xref Driver

/-! ### dictspec -/

structure Cur where
  cs : List Char
deriving Inhabited

def takeWhileC (p : Char → Bool) : List Char → List Char × List Char
  | [] => ([], [])
  | c :: t => if p c then let (a, b) := takeWhileC p t; (c :: a, b) else ([], c :: t)

def parseIntC (cs : List Char) : Option (Int × List Char) :=
  let (neg, cs) := match cs with
    | '-' :: t => (true, t)
    | _ => (false, cs)
  let (ds, rest) := takeWhileC Char.isDigit cs
  if ds.isEmpty then none
  else
    let n := (String.ofList ds).toNat!
    some (if neg then -(n : Int) else (n : Int), rest)

def parseAtom : List Char → Option (Atom × List Char)
  | 'i' :: t => (parseIntC t).map fun (v, r) => (.int v, r)
  | 'n' :: t =>
    let (id, r) := takeWhileC Char.isAlphanum t
    some (.name (String.ofList id).toUTF8.toList, r)
  | 'd' :: t => (parseIntC t).map fun (v, r) => (.dict v.toNat, r)
  | 'z' :: t => some (.null, t)
  | 'o' :: t => some (.other, t)
  | _ => none

partial def parseAtoms (cs : List Char) (acc : List Atom) : Option (List Atom × List Char) :=
  match parseAtom cs with
  | none => none
  | some (a, ')' :: r) => some ((a :: acc).reverse, r)
  | some (a, ',' :: r) => parseAtoms r (a :: acc)
  | _ => none

def parseVal : List Char → Option (Val × List Char)
  | 'A' :: '(' :: ')' :: r => some (.arr [], r)
  | 'A' :: '(' :: t => (parseAtoms t []).map fun (l, r) => (.arr l, r)
  | cs => (parseAtom cs).map fun (a, r) => (.atom a, r)

partial def parseEntries (cs : List Char) (acc : Dict) : Option Dict :=
  let (k, r) := takeWhileC Char.isAlphanum cs
  if k.isEmpty then none else
  match r with
  | '=' :: r =>
    match parseVal r with
    | some (v, [')']) => some ((((String.ofList k).toUTF8.toList, v) :: acc).reverse)
    | some (v, ',' :: r) => parseEntries r (((String.ofList k).toUTF8.toList, v) :: acc)
    | _ => none
  | _ => none

def parseDict (s : String) : Option Dict :=
  match s.toList with
  | ['D', '(', ')'] => some []
  | 'D' :: '(' :: t =>
    match parseEntries t [] with
    | some d => if (d.map (·.1)).eraseDups.length == d.length then some d else none
    | none => none
  | _ => none

/-! ### canonical output (same shape as harness/src/bin/c13.rs) -/

def showEnt (e : Ent) : String :=
  match e.st with
  | .free n => s!"{e.obj}:{e.gen}:f:{n}"
  | .inUse o => s!"{e.obj}:{e.gen}:n:{o}"
  | .inStream a b => s!"{e.obj}:{e.gen}:s:{a}:{b}"

def showEnts (es : List Ent) : String :=
  if es.isEmpty then "-" else ",".intercalate (es.map showEnt)

def showSubs (l : List (Nat × Nat)) : String :=
  if l.isEmpty then "-" else ",".intercalate (l.map fun p => s!"{p.1}+{p.2}")

/-- the stand-in for the external filter transforms in `xs` cases: the generator only pairs known
    filter names with content zlib refuses (`ff…`) -/
def xfFail : Filter → Bytes → Res Bytes := fun _ _ => .err .transform

def withFlate (d : Dict) (mode : String) (rw : Nat) : Dict :=
  let d := d ++ [("Filter".toUTF8.toList, Val.atom (.name "FlateDecode".toUTF8.toList))]
  match mode.toList.head? with
  | some 'u' => d ++ [("DecodeParms".toUTF8.toList, Val.atom (.dict (1000 + rw)))]
  | some '1' => d ++ [("DecodeParms".toUTF8.toList, Val.atom (.dict 1))]
  | _ => d

def rowWidthOf (d : Dict) : Nat :=
  match dget d kW with
  | some (.arr l) => (l.map fun a => match a with | .int v => v.toNat | _ => 0).foldl (· + ·) 0
  | _ => 0

/-- `fault`: given the window, what the harness answers when the steps of a `vw` case do not select it -/
def modelPlain (ws : List String) (fault : Bytes → Option String) : String :=
  match ws with
  | "tab" :: hex :: pos :: _ =>
    match bytesOfHex hex, pos.toNat? with
    | some s, some i =>
      if let some f := fault s then f else
      if i > s.length then "bad-case" else
      match xrefSectP s i with
      | (.ok v, c) =>
        let pos := v.val.flatMap fun ss => ss.val.ents.map (·.start)
        s!"ok {v.start} {v.stop} {c} subs={showSubs (v.val.map fun ss => (ss.val.start, ss.val.count))} ents={showEnts (sectEnts v.val)} pos={if pos.isEmpty then "-" else ",".intercalate (pos.map toString)}"
      | (.err k, c) => s!"err {k} {c}"
      | (.panic p, _) => s!"panic {p}"
    | _, _ => "bad-case"
  | "xs" :: enc :: ds :: hex :: pos :: _ =>
    match parseDict ds, bytesOfHex hex, pos.toNat? with
    | some d, some s, some i =>
      if let some f := fault s then f else
      if i > s.length then "bad-case" else
      match xrefStreamP (enc == "1") d xfFail s i with
      | (.ok es, c) => s!"ok {c} ents={showEnts (es.map (·.val))}"
      | (.err k, _) => s!"err {k}"
      | (.panic p, _) => s!"panic {p}"
    | _, _, _ => "bad-case"
  | "xz" :: mode :: ds :: hex :: _ =>
    match parseDict ds, bytesOfHex hex with
    | some d, some rows =>
      let rw := rowWidthOf d
      if mode.length != 2 || (dget d kFilter).isSome || (dget d kDecodeParms).isSome then "bad-case"
      else if mode.toList.head? == some 'u' && (rw == 0 || rows.length % rw != 0 || rows.isEmpty) then "bad-case"
      else
      -- the compressed bytes are produced by the harness; the transform is external to the
      -- model (C06/C07): it is taken to return the rows
      match xrefStreamP false (withFlate d mode rw) (fun _ _ => .ok rows) [] 0 with
      | (.ok es, c) => s!"ok {c} ents={showEnts (es.map (·.val))}"
      | (.err k, _) => s!"err {k}"
      | (.panic p, _) => s!"panic {p}"
    | _, _ => "bad-case"
  | _ => "bad-case"

/-- A case on a restricted view is modelled by the case on its window (C17 `view_refines_copy`), after
    checking by the bounds rules of transforms.rs that the steps select exactly that window.  For `xz`
    the window (the compressed rows) is known to the harness only: the sizes are written relative to
    its length and the harness's own check (`view-error` / `view-mismatch`) stands. -/
def model (line : String) : String :=
  match words line with
  | "vw" :: steps :: pre :: suf :: rest =>
    match ViewTwin.parseSteps steps, bytesOfHex pre, bytesOfHex suf with
    | some st, some pre, some suf =>
      modelPlain rest fun win => if rest.head? == some "xz" then none else ViewTwin.viewFault st pre win suf
    | _, _, _ => "bad-case"
  | ws => modelPlain ws fun _ => none

/-! ### the oracle -/

def eolOf : String → Option XrefSpec.Eol
  | "a" => some .spCr | "b" => some .spLf | "c" => some .crLf | _ => none

def eolName : XrefSpec.Eol → String
  | .spCr => "a" | .spLf => "b" | .crLf => "c"

structure Desc where
  subs : List XrefSpec.TSub := []
  rest : Bytes := []
  mutn : Option (Nat × Bytes) := none
  cut : Bool := false
deriving Inhabited

def parseDesc (toks : List String) : Option Desc := Id.run do
  let mut d : Desc := {}
  let mut cur : Option XrefSpec.TSub := none
  let mut subs : List XrefSpec.TSub := []
  for t in toks do
    let body := (t.drop 1).toString
    let f := body.splitOn ":"
    match t.toList.head?, f with
    | some 'S', [st, ws, wc, lead, he] =>
      if let some c := cur then subs := subs ++ [c]
      match st.toNat?, ws.toNat?, wc.toNat?, bytesOfHex lead, bytesOfHex he with
      | some st, some ws, some wc, some lead, some he =>
        cur := some { start := st, wStart := ws, wCount := wc, lead := lead, hdrEol := he, ents := [] }
      | _, _, _, _, _ => return none
    | some 'E', [info, gen, fl, eol] =>
      match cur, info.toNat?, gen.toNat?, eolOf eol with
      | some c, some info, some gen, some eol =>
        cur := some { c with ents := c.ents ++ [{ info := info, gen := gen, inuse := fl == "n", eol := eol }] }
      | _, _, _, _ => return none
    | some 'R', [h] =>
      match bytesOfHex h with
      | some r => d := { d with rest := r }
      | none => return none
    | some 'M', [k, h] =>
      match k.toNat?, bytesOfHex h with
      | some k, some ch => d := { d with mutn := some (k, ch) }
      | _, _ => return none
    | some 'X', _ => d := { d with cut := true }
    | _, _ => return none
  if let some c := cur then subs := subs ++ [c]
  return some { d with subs := subs }

/-- is entry `k` (global count) the first entry of its subsection? -/
def firstOfSub (subs : List XrefSpec.TSub) (k : Nat) : Bool := Id.run do
  let mut n := 0
  for t in subs do
    if k == n && !t.ents.isEmpty then return true
    n := n + t.ents.length
  return false

/-- the table's bytes with entry `k` (global count) replaced by `chunk`; returns the bytes before
    the chunk and after it -/
def encMutated (subs : List XrefSpec.TSub) (k : Nat) (chunk : Bytes) : Option (Bytes × Bytes) := Id.run do
  let mut pre : Bytes := XrefSpec.kwXref ++ [10]
  let mut post : Bytes := []
  let mut n := 0
  let mut found := false
  for t in subs do
    let hdr := t.lead ++ XrefSpec.padDec t.wStart t.start ++ [32] ++ XrefSpec.padDec t.wCount t.ents.length ++ t.hdrEol
    if found then post := post ++ hdr else pre := pre ++ hdr
    for e in t.ents do
      if n == k then found := true
      else if found then post := post ++ XrefSpec.encEntry e
      else pre := pre ++ XrefSpec.encEntry e
      n := n + 1
  if found then some (pre, post) else none

def parseEntStr (t : String) : Option Ent :=
  match t.splitOn ":" with
  | [o, g, "f", x] => match o.toNat?, g.toNat?, x.toNat? with
    | some o, some g, some x => some ⟨o, g, .free x⟩
    | _, _, _ => none
  | [o, g, "n", x] => match o.toNat?, g.toNat?, x.toNat? with
    | some o, some g, some x => some ⟨o, g, .inUse x⟩
    | _, _, _ => none
  | _ => none

def parseList {α : Type} (f : String → Option α) (body : String) : Option (List α) :=
  if body == "-" then some [] else (body.splitOn ",").mapM f

def parseSubStr (t : String) : Option (Nat × Nat) :=
  match t.splitOn "+" with
  | [a, b] => match a.toNat?, b.toNat? with
    | some a, some b => some (a, b)
    | _, _ => none
  | _ => none

/-- Whatever the case is: an implementation that ACCEPTS a table must have consumed only what the
    spec reads back from the bytes - `xref`, the claimed headers, and at each claimed entry offset
    the fixed 20-byte form denoting exactly the claimed entry (generation ≤ 65535, type f|n, one of
    the three terminators, consecutive numbering).  Computed from `XrefSpec` alone. -/
def judgeAccepted (hex : String) (impl : String) : String :=
  match words impl, bytesOfHex hex with
  | ["ok", st, _, _, subs, ents, pos], some s =>
    match st.toNat?, parseList parseSubStr ((subs.drop 5).toString), parseList parseEntStr ((ents.drop 5).toString),
          parseList String.toNat? ((pos.drop 4).toString) with
    | some st, some subs, some ents, some pos =>
      if ents.length != pos.length then "bad accepts-malformed-entry entry/offset lists differ in length"
      else match XrefSpec.checkAccepted s st subs (ents.zip pos) with
        | none => "ok"
        | some msg => s!"bad accepts-malformed-entry {msg}"
    | _, _, _, _ => "bad output unparsable ok-line"
  | "ok" :: _, _ => "bad output unparsable ok-line"
  | _, _ => "skip"

def judgeTabDesc (hex pos : String) (toks : List String) (impl : String) : String :=
  match toks with
  | "L" :: toks =>
    match parseDesc toks, bytesOfHex hex with
    | some d, some s =>
      if pos != "0" then "skip" else
      if !(d.subs.all fun t => decide t.wf) || d.subs.isEmpty then "skip" else
      let iw := words impl
      match d.mutn with
      | none =>
        let tb := XrefSpec.encTable d.subs
        if tb ++ d.rest != s || !XrefSpec.endsSection d.rest then "skip" else
        let exp := showEnts (XrefSpec.tableEnts d.subs)
        let expSubs := showSubs (d.subs.map fun t => (t.start, t.ents.length))
        match iw with
        | ["ok", st, en, cu, subs, ents, _] =>
          if st != "0" then s!"bad value start={st}"
          else if subs != s!"subs={expSubs}" then s!"bad value expected subs={expSubs}"
          else if ents != s!"ents={exp}" then s!"bad value expected ents={exp}"
          else if en != cu || en.toNat! < tb.length || en.toNat! > s.length then s!"bad cursor end={en} cursor={cu} table={tb.length}"
          else "ok"
        | _ => s!"bad reject-legal expected ents={exp}"
      | some (k, chunk) =>
        match encMutated d.subs k chunk with
        | none => "skip"
        | some (pre, post) =>
          let bytes := if d.cut then pre ++ chunk else pre ++ chunk ++ post ++ d.rest
          if bytes != s then "skip" else
          -- white space at the start of a subsection's first entry belongs to the header line's
          -- trailing white space (and a `%` there opens a comment): the entry then starts later
          let lead := if firstOfSub d.subs k then (chunk.takeWhile XrefSpec.isWs).length else 0
          if firstOfSub d.subs k && (bytes.drop (pre.length + lead)).head? == some 37 then "skip" else
          match XrefSpec.entryAt bytes (pre.length + lead) with
          | some _ => "skip"        -- the mutation produced another legal entry
          | none =>
            match iw with
            | "err" :: _ => "ok"
            | _ => s!"bad accept-malformed entry {k} at offset {pre.length} is not in the 20-byte form"
    | _, _ => "skip"
  | _ => "skip"

/-- description-based verdict first (it also knows what SHOULD have been accepted); an accepted
    table is in every case additionally re-read from the bytes -/
def judgeTab (hex pos : String) (toks : List String) (impl : String) : String :=
  let v := judgeTabDesc hex pos toks impl
  if v.startsWith "bad" then v
  else
    let a := judgeAccepted hex impl
    if a.startsWith "bad" then a
    else if v == "skip" then a else v

def judgeStream (d : Dict) (content : Bytes) (base : Nat) (impl : String) : String :=
  match XrefSpec.streamMeaning d content with
  | some (es, used) =>
    let e := s!"ok {base + used} ents={showEnts es}"
    if impl.trimAscii.toString == e then "ok"
    else if (words impl).head? == some "ok" then s!"bad value expected={e}"
    else s!"bad reject-legal expected={e}"
  | none =>
    match words impl with
    | "err" :: _ => "ok"
    | _ => "bad accept-malformed the dictionary or the rows are malformed"

def judgePlain (ws : List String) (impl : String) : String :=
  match ws with
  | "tab" :: hex :: pos :: toks => judgeTab hex pos toks impl
  | "xs" :: enc :: ds :: hex :: pos :: _ =>
    match parseDict ds, bytesOfHex hex, pos.toNat? with
    | some d, some s, some i =>
      if enc == "1" then (if (words impl).head? == some "err" then "ok" else "bad accept-malformed encrypted")
      else if (XrefSpec.lookup d XrefSpec.sFilter).isSome || (XrefSpec.lookup d XrefSpec.sDecodeParms).isSome then "skip"
      else judgeStream d (s.drop i) i impl
    | _, _, _ => "skip"
  | "xz" :: _ :: ds :: hex :: _ =>
    match parseDict ds, bytesOfHex hex with
    | some d, some rows => judgeStream d rows 0 impl
    | _, _ => "skip"
  | _ => "skip"

/-- the window of a case: the bytes the parser is given (`none`: known to the harness only) -/
def windowOf : List String → Option Bytes
  | "tab" :: hex :: _ => bytesOfHex hex
  | "xs" :: _ :: _ :: hex :: _ => bytesOfHex hex
  | _ => none

/-- A case on a restricted view is judged as the case on the window's bytes: the expectation is computed
    from the case's own fields alone - what lies in front of the window and behind it, and where the window
    lies in the allocation, does not enter it. -/
def judge (case impl : String) : String :=
  if impl.trimAscii.toString == "bad-case" then "skip" else
  match words case with
  | "vw" :: steps :: pre :: suf :: rest =>
    match ViewTwin.parseSteps steps, bytesOfHex pre, bytesOfHex suf with
    | some st, some pre, some suf =>
      let fault := match windowOf rest with
        | some win => ViewTwin.viewFault st pre win suf
        | none => none
      match fault with
      | some f => s!"bad desc-mismatch the steps do not select the window ({f})"
      | none =>
        let t := impl.trimAscii.toString
        if t == "view-error" || t == "view-mismatch" then s!"bad view {t}: the restriction does not show the window's bytes"
        else ViewTwin.viewVerdict (judgePlain rest impl)
    | _, _, _ => "skip"
  | ws => judgePlain ws impl

/-! ### generators -/

def numDigits (n : Nat) : Nat := (toString n).length

def descOfSub (t : XrefSpec.TSub) : String :=
  let es := t.ents.map fun e => s!"E{e.info}:{e.gen}:{if e.inuse then "n" else "f"}:{eolName e.eol}"
  " ".intercalate (s!"S{t.start}:{t.wStart}:{t.wCount}:{hexOfBytes t.lead}:{hexOfBytes t.hdrEol}" :: es)

def legalLine (subs : List XrefSpec.TSub) (rest : Bytes) : String :=
  let bytes := XrefSpec.encTable subs ++ rest
  s!"tab {hexOfBytes bytes} 0 L {" ".intercalate (subs.map descOfSub)} R{hexOfBytes rest}"

def mutLine (subs : List XrefSpec.TSub) (rest : Bytes) (k : Nat) (chunk : Bytes) (cut : Bool) : Option String :=
  match encMutated subs k chunk with
  | none => none
  | some (pre, post) =>
    let bytes := if cut then pre ++ chunk else pre ++ chunk ++ post ++ rest
    some s!"tab {hexOfBytes bytes} 0 L {" ".intercalate (subs.map descOfSub)} R{hexOfBytes rest} M{k}:{hexOfBytes chunk}{if cut then " X" else ""}"

def hdrEols : List Bytes := [[10], [13, 10], [13], [32, 10], [10, 10], [32, 13, 10], [10], [10]]
def leads : List Bytes := [[], [], [], [32], [9], [0, 32], [12]]
def rests : List Bytes :=
  [strBytes "trailer\n", [], strBytes "\ntrailer", strBytes "  trailer", strBytes "\r\ntrailer", strBytes "t",
   strBytes "%c\n", strBytes "trailer\n<< /Size 3 >>\nstartxref\n0\n%%EOF", strBytes " \r", strBytes "x 1\n"]

def genEnt (r : Rng) : XrefSpec.TEnt × Rng :=
  let (sel, r) := r.nat 6
  let (info, r) := if sel == 0 then (0, r) else if sel == 1 then (9999999999, r) else r.nat 10000000000
  let (g, r) := r.nat 5
  let (gen, r) := if g == 0 then (65535, r) else if g == 1 then (0, r) else r.nat 65536
  let (u, r) := r.nat 2
  let (e, r) := r.pick [XrefSpec.Eol.spCr, .spLf, .crLf]
  ({ info := info, gen := gen, inuse := u == 1, eol := e }, r)

def genEnts : Nat → Rng → List XrefSpec.TEnt × Rng
  | 0, r => ([], r)
  | n + 1, r => let (e, r) := genEnt r; let (es, r) := genEnts n r; (e :: es, r)

def genSub (first : Bool) (r : Rng) : XrefSpec.TSub × Rng :=
  let (sel, r) := r.nat 8
  let (start, r) := if sel == 0 then (0, r) else if sel == 1 then (2 ^ 63 - 1000, r) else if sel == 2 then r.nat 4000000000 else r.nat 200
  let (z1, r) := r.nat 3
  let (z2, r) := r.nat 3
  let (n, r) := r.nat 6
  let (n, r) := if first && n == 0 then r.nat 4 else (n, r)
  let (ents, r) := genEnts n r
  let (lead, r) := r.pick leads
  let (he, r) := r.pick hdrEols
  ({ start := start, wStart := numDigits start + (if z1 == 0 then 2 else 0),
     wCount := numDigits n + (if z2 == 0 then 1 else 0), lead := lead, hdrEol := he, ents := ents }, r)

def genSubs : Nat → Bool → Rng → List XrefSpec.TSub × Rng
  | 0, _, r => ([], r)
  | n + 1, first, r => let (s, r) := genSub first r; let (ss, r) := genSubs n false r; (s :: ss, r)

def totalEnts (subs : List XrefSpec.TSub) : Nat := (subs.map (·.ents.length)).foldl (· + ·) 0

def nthEnt (subs : List XrefSpec.TSub) (k : Nat) : Option XrefSpec.TEnt :=
  (subs.flatMap (·.ents))[k]?

/-- single-field corruptions of entry `e` -/
def corruptions (e : XrefSpec.TEnt) (r : Rng) : List (Bytes × Bool) × Rng :=
  let b := XrefSpec.encEntry e
  let (p, r) := r.nat 20
  let (x, r) := r.byte
  let (g, r) := r.nat 34464
  let (cutAt, r) := r.nat 20
  ([ (b.eraseIdx p, false),                                           -- one byte missing
     (b.take p ++ [x] ++ b.drop p, false),                            -- one byte too many
     (b.set p x, false),                                              -- one byte altered
     (XrefSpec.encEntry { e with gen := 65536 + g }, false),          -- generation above 65535
     (XrefSpec.encEntry { e with gen := 65536 }, false), (XrefSpec.encEntry { e with gen := 99999 }, false),
     (b.set 17 (if x == 110 || x == 102 then 120 else x), false),     -- entry type
     (b.take 18 ++ [10, 10], false), (b.take 18 ++ [32, 32], false), (b.take 18 ++ [13, 13], false),
     (b.take 18 ++ [10, 13], false), (b.take 18 ++ [10], false), (b.take 19, false),
     (b.set 10 9, false), (b.set 16 0, false),
     (b.set 11 43, false), (b.set 11 45, false), (b.set 11 32, false),   -- generation field +dddd / -dddd / SP dddd
     (b.set 0 43, false), (b.set 0 45, false), (b.set 0 32, false),      -- offset field with a sign / blank
     (b.set 15 32, false), (b.set 9 32, false),                           -- trailing blank in a number field
     (XrefSpec.padDec 9 (e.info % 10 ^ 9) ++ b.drop 10, false),       -- 9-digit offset
     (XrefSpec.padDec 11 e.info ++ b.drop 10, false),                 -- 11-digit offset
     (b.take cutAt, true) ], r)                                       -- table truncated inside the entry

def allTriples : List (Nat × Nat × Nat) :=
  (List.range 5).flatMap fun a => (List.range 5).flatMap fun b => (List.range 5).map fun c => (a, b, c)

def genSEnt (w0 w1 w2 : Nat) (r : Rng) : XrefSpec.SEnt × Rng :=
  let (t, r) := if w0 == 0 then (1, r) else r.nat 3
  let (sel, r) := r.nat 4
  let (f2, r) := if sel == 0 then (256 ^ w1 - 1, r) else r.nat (256 ^ w1)
  let (f3, r) := if sel == 1 then (256 ^ w2 - 1, r) else r.nat (256 ^ w2)
  ({ typ := t, f2 := f2, f3 := f3 }, r)

def genSEnts (w0 w1 w2 : Nat) : Nat → Rng → List XrefSpec.SEnt × Rng
  | 0, r => ([], r)
  | n + 1, r => let (e, r) := genSEnt w0 w1 w2 r; let (es, r) := genSEnts w0 w1 w2 n r; (e :: es, r)

def dictStr (entries : List (String × String)) : String :=
  "D(" ++ ",".intercalate (entries.map fun (k, v) => s!"{k}={v}") ++ ")"

/-- random partition of `n` rows into `/Index` subsections -/
def genIndex : Nat → Nat → Rng → List (Nat × Nat) × Rng
  | 0, _, r => ([], r)
  | fuel + 1, n, r =>
    if n == 0 then
      let (z, r) := r.nat 4
      if z == 0 then let (s, r) := r.nat 1000; ([(s, 0)], r) else ([], r)
    else
      let (c, r) := r.nat (n + 1)
      let (sel, r) := r.nat 5
      let (s, r) := if sel == 0 then (2 ^ 63 - 1 - c, r) else r.nat 100000
      let (rest, r) := genIndex fuel (n - c) r
      ((s, c) :: rest, r)

def indexStr (idx : List (Nat × Nat)) : String :=
  "A(" ++ ",".intercalate (idx.map fun (s, c) => s!"i{s},i{c}") ++ ")"

def streamCase (w0 w1 w2 : Nat) (useIndex : Bool) (n : Nat) (r : Rng) :
    (List (String × String) × Bytes) × Rng :=
  let (es, r) := genSEnts w0 w1 w2 n r
  let rows := XrefSpec.encRows w0 w1 w2 es
  let (idx, r) := if useIndex then genIndex 8 n r else ([], r)
  let (extra, r) := r.nat 1000
  let base := [("Type", "nXRef"), ("Size", s!"i{if useIndex then n + extra else n}"), ("W", s!"A(i{w0},i{w1},i{w2})")]
  let (pv, r) := r.nat 3
  let base := if pv == 0 then base ++ [("Prev", "i1234")] else base
  ((if useIndex then base ++ [("Index", indexStr idx)] else base, rows), r)

/-- single-field corruptions of a dictionary -/
def dictCorruptions (d : List (String × String)) (x : Nat) : List (List (String × String)) :=
  let without (k : String) := d.filter (·.1 != k)
  let withv (k v : String) := (without k) ++ [(k, v)]
  [ without "Type", withv "Type" "nXref", withv "Type" "nObjStm", withv "Type" "i5", withv "Type" "A(nXRef)",
    without "Size", withv "Size" "i-1", withv "Size" "nFive", withv "Size" "A(i3)", withv "Size" "o",
    withv "Index" "A(i0)", withv "Index" "A(i0,i1,i7)", withv "Index" "A(i0,n1)", withv "Index" "A(o,i1)",
    withv "Index" "A(i-1,i1)", withv "Index" "A(i0,i-1)", withv "Index" "A()", withv "Index" "i0",
    without "W", withv "W" "A(i1,i2)", withv "W" "A(i1,i2,i1,i0)", withv "W" "A()", withv "W" "i3",
    withv "W" "A(i5,i2,i1)", withv "W" "A(i1,i5,i1)", withv "W" "A(i1,i2,i5)", withv "W" s!"A(i1,i{5 + x},i1)",
    withv "W" "A(i1,i0,i1)", withv "W" "A(i-1,i2,i1)", withv "W" "A(n1,i2,i1)", withv "W" "A(i1,i2,o)",
    withv "W" "A(i1,z,i1)", withv "Size" "i9223372036854775807",
    withv "Filter" "nFoo", withv "Filter" "A(nFoo)", withv "Filter" "A(i1)", withv "Filter" "A()",
    withv "Filter" "i7", withv "DecodeParms" "A(d0)", withv "DecodeParms" "d0",
    (withv "Filter" "nFlateDecode") ++ [("DecodeParms", "A(d0)")],
    (withv "Filter" "A(nFoo)") ++ [("DecodeParms", "A(d0,d0)")],
    (withv "Filter" "A(nFoo)") ++ [("DecodeParms", "A(o)")],
    (withv "Filter" "A(nFoo,i3)") ++ [("DecodeParms", "A(z,d0)")],
    (withv "Filter" "A()") ++ [("DecodeParms", "A(d0)")],
    (withv "Filter" "A()") ++ [("DecodeParms", "A()")] ]

/-! ### every case once more on a restricted view

  Each case line is followed by the same case inside a larger allocation (Driver/ViewTwin.lean).  Three axes,
  cycled by the running case counter `c` with pairwise coprime periods (16, 7, 5: every combination occurs
  within 560 cases):
  * bytes in front of the window: 1, 7, 11, 1000 (and 0, 2, 3, 5, 13, 64) of them - a rotation of a text that
    is itself a header, a complete cross-reference stream object, a complete table, trailer and startxref; or
    random bytes;
  * the chain of restrictions: RestrictView; RestrictViewFrom; From then View; View then View with junk on both
    sides of the inner window; View then From; a View starting at 0 then From; three deep;
  * bytes behind the window that CONTINUE the construct: a further subsection (with and without leading blanks),
    further entries and then a subsection, the cut-off rest of a truncated table / of truncated rows, further
    rows, a trailer; nothing - so that an implementation reading beyond the view's end returns more entries
    or accepts what must be rejected. -/

def junkText : Bytes :=
  strBytes "%PDF-1.4\n1 0 obj<</Type/XRef/W[1 2 1]/Size 2>>stream\n" ++ [1, 0, 16, 0, 0, 0, 0, 255] ++
  strBytes "\nendstream endobj\nxref\n0 2\n0000000000 65535 f \n0000000017 00000 n \ntrailer\n<</Size 2>>\nstartxref\n99\n%%EOF\n"

def moreSub : Bytes := strBytes "3 2\n0000000017 00000 n \n0000000081 00007 n\r\n"
def moreEnts : Bytes := strBytes "0000000099 00000 n \n0000000000 65535 f\r\n"
def moreRows : Bytes := (List.range 40).map fun i => ([1, 0, 0, 9, 0, 2, 0, 1] : List UInt8)[i % 8]?.getD 1

/-- the view twin of a case line; `cont` = what continues THIS case behind its window, if known;
    `noFrom`: avoid the chain that cannot have anything behind the window -/
def viewLine (c : Nat) (line : String) (cont : Option Bytes) (noFrom : Bool := false) : Option String :=
  let c := if noFrom && ViewTwin.shapeNoSuffix c then c + 1 else c
  -- (cut family: what lies behind the window is always the rest of the construct)
  let cont := if noFrom then some (cont.getD []) else cont
  let always := noFrom
  match words line with
  | "tab" :: hex :: _ =>
    (bytesOfHex hex).map fun buf =>
      let suf : Bytes := match c % 5 with
        | 0 => cont.getD moreSub
        | 1 => if always then cont.getD [] else []
        | 2 => cont.getD (moreEnts ++ moreSub)
        | 3 => cont.getD ([32] ++ moreSub)
        | _ => if always then cont.getD [] else strBytes "trailer\n<< /Size 3 >>\nstartxref\n0\n%%EOF"
      ViewTwin.wrap c junkText buf suf line
  | "xs" :: _ :: _ :: hex :: _ =>
    (bytesOfHex hex).map fun buf =>
      let suf : Bytes := match c % 5 with
        | 1 => if always then cont.getD [] else []
        | 4 => if always then cont.getD [] else strBytes "\nendstream\nendobj\n"
        | _ => cont.getD moreRows
      ViewTwin.wrap c junkText buf suf line
  | "xz" :: _ =>
    -- (the window is the zlib stream the harness produces; behind it: an empty zlib stream, stream text)
    let suf : Bytes := match c % 5 with
      | 1 => []
      | 2 => [0x78, 0x9c, 0x03, 0x00, 0x00, 0x00, 0x00, 0x01]
      | _ => strBytes "\nendstream\nendobj\n"
    some (ViewTwin.wrapRel c junkText suf line)
  | _ => none

/-- CUT family: valid constructs with the view ending at every byte inside them, the rest lying behind the
    view.  Tables: where the cut leaves complete subsections (and nothing else) the case is a described legal
    table (exactly those subsections are expected); elsewhere a raw case (correspondence with the model; an
    accepted table is re-read from the window's bytes).  Streams: the rows cut at every byte (the oracle
    expects a rejection unless every row is complete). -/
def cutFamily (emit : String → IO Unit) (full : Bool) : IO Unit := do
  let e0 : XrefSpec.TEnt := { info := 0, gen := 65535, inuse := false, eol := .spLf }
  let e1 : XrefSpec.TEnt := { info := 17, gen := 0, inuse := true, eol := .crLf }
  let e2 : XrefSpec.TEnt := { info := 9999999999, gen := 7, inuse := true, eol := .spCr }
  let mut k := 0
  for (he, lead) in [(([10] : Bytes), ([] : Bytes)), ([13, 10], [32]), ([32, 13], [])] do
    let subs : List XrefSpec.TSub :=
      [{ start := 0, wStart := 1, wCount := 1, lead := [], hdrEol := he, ents := [e0, e1] },
       { start := 5, wStart := 1, wCount := 2, lead := lead, hdrEol := [10], ents := [e2] },
       { start := 70, wStart := 3, wCount := 1, lead := lead, hdrEol := he, ents := [e1, e0] }]
    let tb := XrefSpec.encTable subs
    let tail := strBytes "trailer\n"
    let ends := (List.range 4).map fun j => (XrefSpec.encTable (subs.take j)).length
    for cut in List.range (tb.length + 1) do
      k := k + 1
      if full || k % 3 == 0 || ends.contains cut then
        let j := ends.idxOf cut
        let line := if 1 ≤ j && j < 4 then legalLine (subs.take j) [] else s!"tab {hexOfBytes (tb.take cut)} 0"
        if let some l := viewLine k line (some (tb.drop cut ++ tail)) true then emit l
  for (w0, w1, w2) in [(1, 2, 1), (0, 1, 0), (2, 4, 3)] do
    let es : List XrefSpec.SEnt := [⟨1, 17, 0⟩, ⟨if w0 == 0 then 1 else 2, 5, 3⟩, ⟨if w0 == 0 then 1 else 0, 0, 255⟩, ⟨1, 255, 1⟩]
    let rows := XrefSpec.encRows w0 w1 w2 es
    let d := dictStr [("Type", "nXRef"), ("Size", "i4"), ("W", s!"A(i{w0},i{w1},i{w2})")]
    for cut in List.range (rows.length + 1) do
      k := k + 1
      if let some l := viewLine k s!"xs 0 {d} {hexOfBytes (rows.take cut)} 0" (some (rows.drop cut)) true then emit l

def gen (seed n : Nat) (tier : String) (emit0 : String → IO Unit) : IO Unit := do
  -- every case is emitted twice: as it is, and on a restricted view
  let ctr ← IO.mkRef 0
  let emitC (cont : Option Bytes) (line : String) : IO Unit := do
    emit0 line
    let c ← ctr.modifyGet fun c => (c, c + 1)
    match viewLine c line cont with
    | some l => emit0 l
    | none => pure ()
  let emit := emitC none
  let mut r := Rng.mk' seed
  let thorough := tier == "thorough"
  cutFamily emit0 thorough
  -- (4) exhaustive small: every 2-byte terminator over {SP, CR, LF, NUL, 'x'} in the first and in a
  -- later subsection, both entry types
  let e0 : XrefSpec.TEnt := { info := 0, gen := 65535, inuse := false, eol := .spLf }
  let e1 : XrefSpec.TEnt := { info := 17, gen := 0, inuse := true, eol := .crLf }
  let s0 : XrefSpec.TSub := { start := 0, wStart := 1, wCount := 1, lead := [], hdrEol := [10], ents := [e0] }
  let s1 : XrefSpec.TSub := { start := 5, wStart := 1, wCount := 1, lead := [], hdrEol := [10], ents := [e1, e0] }
  for a in [32, 13, 10, 0, 120] do
    for b in [32, 13, 10, 0, 120] do
      for k in [0, 1, 2] do
        for fl in [102, 110, 70, 32] do
          let base := XrefSpec.encEntry e1
          let chunk := base.take 17 ++ [UInt8.ofNat fl, UInt8.ofNat a, UInt8.ofNat b]
          if let some l := mutLine [s0, s1] (strBytes "trailer\n") k chunk false then emit l
  for eol in [XrefSpec.Eol.spCr, .spLf, .crLf] do
    for rest in rests do
      emit (legalLine [{ s0 with ents := [{ e0 with eol := eol }] }, { s1 with ents := [{ e1 with eol := eol }] }] rest)
  -- (2) structured legal tables and (3) their single-field corruptions
  let nt := n
  for _ in List.range nt do
    let (ns, r1) := r.nat 4
    let (subs, r2) := genSubs (ns + 1) true r1
    let (rest, r3) := r2.pick rests
    r := r3
    emit (legalLine subs rest)
    let tot := totalEnts subs
    if tot > 0 then
      let (k, r4) := r.nat tot
      r := r4
      if let some e := nthEnt subs k then
        let (cs, r5) := corruptions e r
        r := r5
        let (pick, r6) := r.nat cs.length
        r := r6
        let chosen := if thorough then cs else [cs[pick]?.getD ([], false), cs[(pick + 5) % cs.length]?.getD ([], false)]
        for (chunk, cut) in chosen do
          if let some l := mutLine subs rest k chunk cut then
            -- (on a view: behind a table truncated inside an entry lies the rest of the entry and of the table)
            let cont := if cut then (encMutated subs k chunk).map fun (_, post) => (XrefSpec.encEntry e).drop chunk.length ++ post ++ rest else none
            emitC cont l
    -- raw: one random byte of the table altered anywhere / truncation anywhere / start inside
    let bytes := XrefSpec.encTable subs ++ rest
    let (p, r7) := r.nat bytes.length
    let (x, r8) := r7.pick ([32, 10, 13, 48, 57, 43, 45, 46, 37, 110, 102, 0, 255] : List UInt8)
    let (cutp, r9) := r8.nat (bytes.length + 1)
    r := r9
    emit s!"tab {hexOfBytes (bytes.set p x)} 0"
    emitC (some (bytes.drop cutp)) s!"tab {hexOfBytes (bytes.take cutp)} 0"
    emit s!"tab {hexOfBytes ([37, 120, 10, 32] ++ bytes)} {p % 5}"
  -- header-level oddities (correspondence only)
  for h in ["xref\n0 1\n", "xref\n", "xref", "xre", "", "xref\n-0 1\n", "xref\n+0 1\n", "xref\n0  1\n", "xref\n0 -1\n",
            "xref\n0 1", "xref\n0 1 ", "xref\n. 1\n", "xref\n0 .\n", "xref\n9223372036854775808 1\n",
            "xref\n9223372036854775807 2\n", "xref\n0 9223372036854775807\n", "xref 0 1\n", "xref%c\n0 1\n",
            "  %c\n xref\n0 1 %c\n", "xref\n0 0\ntrailer", "xref\n0 0\n5 0\n7 1\n", "xref\n0 1\r"] do
    for tail in ["0000000000 65535 f \n", "0000000000 65535 f \ntrailer", "0000000000 65535 f \n3 1\n0000000009 00000 n \n",
                 "0000000000 65535 f \n+3 1\n000000009 00000 n \n", "0000000000 65535 f \n \t3 1\n0000000009 00000 n\n",
                 "0000000000 65535 f \n\n3 1\n0000000009 00000 n \n", "0000000000 65535 f \n-", "0000000000 65535 f \r\r\n3 1\n"] do
      emit s!"tab {hexOfBytes (strBytes (h ++ tail))} 0"
  -- streams: every width triple, with and without /Index
  let reps := if thorough then 12 else 2
  for (w0, w1, w2) in allTriples do
    for useIndex in [false, true] do
      for _ in List.range reps do
        let (nrows, r1) := r.nat 7
        let ((d, rows), r2) := streamCase w0 w1 w2 useIndex nrows r1
        let (pre, r3) := r2.nat 3
        let (post, r4) := r3.nat 3
        r := r4
        let content := (List.replicate pre (0xEE : UInt8)) ++ rows ++ (List.replicate post (0x01 : UInt8))
        emit s!"xs 0 {dictStr d} {hexOfBytes content} {pre}"
        if w1 != 0 then
          -- truncated rows; a type above 2
          let (cutp, r5) := r.nat (rows.length + 1)
          r := r5
          if !useIndex then
            emitC (some (rows.drop cutp)) s!"xs 0 {dictStr d} {hexOfBytes (rows.take cutp)} 0"
          if w0 != 0 && nrows > 0 then
            let (rowi, r6) := r.nat nrows
            let (bad, r7) := r6.nat 253
            r := r7
            emit s!"xs 0 {dictStr d} {hexOfBytes (rows.set (rowi * (w0 + w1 + w2) + w0 - 1) (UInt8.ofNat (3 + bad)))} 0"
            -- a wide type field whose HIGH bytes are non-zero while the low byte stays legal
            -- (0x0101, 0xff00, ...): above 2 all the same (seed C13_3 truncated the field to u8)
            if w0 ≥ 2 then
              let (hb, r8) := r.nat (w0 - 1)
              let (hv, r9) := r8.pick ([1, 2, 0xff, 0x80] : List UInt8)
              r := r9
              emit s!"xs 0 {dictStr d} {hexOfBytes (rows.set (rowi * (w0 + w1 + w2) + hb) hv)} 0"
          -- filters
          if !rows.isEmpty then
            let (m, r8) := r.pick ["00", "06", "10", "16", "u0", "u6"]
            r := r8
            emit s!"xz {m} {dictStr d} {hexOfBytes rows}"
  -- malformed dictionaries
  let drounds := if thorough then 40 else 4
  for i in List.range drounds do
    let (nrows, r1) := r.nat 5
    let (ui, r2) := r1.nat 2
    let ((d, rows), r3) := streamCase 1 2 1 (ui == 1) nrows r2
    r := r3
    for d' in dictCorruptions d i do
      let hasFlate := d'.any fun p => p.2 == "nFlateDecode"
      emit s!"xs 0 {dictStr d'} {if hasFlate then "ffff0102" else hexOfBytes rows} 0"
    emit s!"xs 1 {dictStr d} {hexOfBytes rows} 0"
  -- larger tables and streams
  let big := if thorough then 3000 else 300
  let (bents, r1) := genEnts big r
  r := r1
  emit (legalLine [{ start := 0, wStart := 1, wCount := numDigits big, lead := [], hdrEol := [10], ents := bents }] (strBytes "trailer"))
  let (bs, r2) := genSEnts 1 3 2 big r
  r := r2
  emit s!"xs 0 {dictStr [("Type", "nXRef"), ("Size", s!"i{big}"), ("W", "A(i1,i3,i2)")]} {hexOfBytes (XrefSpec.encRows 1 3 2 bs)} 0"
  emit s!"xz u6 {dictStr [("Type", "nXRef"), ("Size", s!"i{big}"), ("W", "A(i1,i3,i2)")]} {hexOfBytes (XrefSpec.encRows 1 3 2 bs)}"
  -- the encoder's WINDOW varied: a conformant zlib stream may declare any window 2^8 .. 2^15 (RFC 1950 CINFO 0..7; first
  -- byte 08, 18, .. 78).  Every window x {no parameters, /Predictor 1, PNG Up} x {plain, /Index}, and the large table
  let mut wi := 0
  for wc in ["a", "b", "c", "d", "e", "f", "g", "h"] do
    for p in ["0", "1", "u"] do
      wi := wi + 1
      let (nrows, r1) := r.nat 6
      let ((d, rows), r2) := streamCase 1 2 1 (wi % 2 == 1) (nrows + 1) r1
      r := r2
      if !rows.isEmpty then
        emit s!"xz {p}{wc} {dictStr d} {hexOfBytes rows}"
    emit s!"xz u{wc} {dictStr [("Type", "nXRef"), ("Size", s!"i{big}"), ("W", "A(i1,i3,i2)")]} {hexOfBytes (XrefSpec.encRows 1 3 2 bs)}"

/-- non-trivial: a described table with at least two subsections or a corruption; a stream case
    with at least two rows' worth of content or a dictionary lacking/with altered standard keys -/
def nontrivialPlain (ws : List String) : Bool :=
  match ws with
  | "tab" :: _ :: _ :: "L" :: toks =>
    (toks.filter (·.startsWith "S")).length ≥ 2 || toks.any (·.startsWith "M")
  | "xs" :: _ :: ds :: hex :: _ => hex.length ≥ 8 || !(ds.startsWith "D(Type=nXRef,Size=i")
  | "xz" :: _ :: _ :: hex :: _ => hex.length ≥ 8
  | _ => false

/-- a case on a view is non-trivial when the case is (a raw table: at least 20 bytes), and the window is a
    proper part of the allocation -/
def nontrivial (line : String) : Bool :=
  match words line with
  | "vw" :: _ :: pre :: suf :: rest =>
    (pre != "-" || suf != "-") &&
    (nontrivialPlain rest || match rest with | ["tab", hex, _] => hex.length ≥ 40 | _ => false)
  | ws => nontrivialPlain ws

def driver : PropDriver := { gen, model, judge, nontrivial }
end Driver.C13
