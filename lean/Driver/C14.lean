import Driver.Common
import Driver.ViewTwin
import Driver.ObjFmt
import Driver.C02
import Driver.C06
import Parsley.Model.ObjStm
import Parsley.Model.Loader
import Parsley.Spec.ObjStm
import Parsley.Spec.Predictor
namespace Driver.C14
open Parsley Parsley.Prim Parsley.Obj Parsley.ObjStm Parsley.ObjStmSpec Parsley.Spelling Driver

/-!
 Case lines (fields separated by one blank):

   <kind> <class> <maxdepth> <cur> <predef> <dicthex> <viewhex> <dechex> [=> <expected output line>]

   kind   rt    a well-formed object stream laid out by the spec-side encoder: the implementation's
                output must be exactly the expected line (ids, generation 0, spans, values, header
                order, context lookups)
          rej   a stream the statement says must be rejected (class = which rule): output must be `err`
          ex    exhaustive small space: 2-pair header with offsets (o0,o1) over a content on the
                alphabets {1,2,blank,x} and {1,blank,%,LF}; the oracle is a small reader written here
          mut   arbitrary corruption: correspondence and no-panic only
   predef `-` or comma-separated `id.gen` already defined in the context (bound to the integer 7*(id%1000)+gen%7)
   dechex `=`  no filter is involved (or decoding is expected to fail);
          else the decoded data the spec-side encoders started from (information only: since C14c the
          model runs the decoders the loader plugs in, `Loader.objDec` = C06/C07 models, on the view)
   classes of filtered streams:  flate (one stored block, as before)
          chain<k>   the data through k layers of the C06 generator (ASCIIHex / ASCII85 / Flate stored,
                     fixed-Huffman ...), optionally with FlateDecode + TIFF/PNG predictor layers
          filter     (kind rej) one layer of such a chain corrupted by a C06 corruption: must be `err`
          filt       (kind mut) a byte of the encoded content altered: correspondence and no panic
          parm       (kind mut) a predictor layer whose default-valued /DecodeParms entries are written as objects
                     that are not integers (`/Columns (1)`, `1.0`, `null`, `/1`, `true`, `[1]`, `1 0 R`):
                     correspondence and no panic
   The /DecodeParms dictionary of a predictor layer is written by the spec-side writer PredSpec.Params.entries:
   an omission mask leaves out any subset of the entries whose value is the default of ISO 32000-1 Table 8.

   View variant (Driver/ViewTwin.lean):   vw <steps> <prehex> <sufhex> <case line as above>
   the same case with ObjStreamP running on a RESTRICTED VIEW: <prehex> ++ <viewhex> ++ <sufhex> is one allocation,
   the chain of RestrictView / RestrictViewFrom <steps> selects the window <viewhex> in it (this is how the crate
   reaches an object stream: the stream's content inside the file's buffer).  <cur> and the reported cursor are
   cursors of that view; member spans stay relative to the content part of the (decoded) data.  Model and oracle
   are those of the case on the window's bytes alone (C17 `view_refines_copy`: a view behaves like a copy of its
   window) - the expected line after `=>` is unchanged; oracle classes are prefixed `view-`.
   Additional classes: cut (a stream whose view ends inside it: kind rej where a member is damaged or missing,
   rt where only trailing junk is cut), cutflate (the zlib stream of a Flate'd object stream cut: rej).
-/

def sexpOpt : Option Obj → String
  | some v => objSexp v
  | none => "none"

def dedup (l : List ObjId) : List ObjId :=
  l.foldl (fun acc k => if acc.contains k then acc else acc ++ [k]) []

def preVal (k : ObjId) : Obj := .int (7 * (k.1 % 1000) + k.2 % 7 : Nat)

/-- the canonical output line of a successful extraction -/
def okLine (ms : List (Nat × Nat × Nat × Nat × String)) (lookups : List (ObjId × String)) (cur depth : Nat) : String :=
  let mstr := ms.map fun (id, g, st, en, sx) => s!"[{id} {g} {st} {en} {sx}]"
  let lstr := lookups.map fun (k, sx) => s!"{k.1}.{k.2}={sx}"
  "ok " ++ " ".intercalate mstr ++ " defs " ++ " ".intercalate lstr ++ s!" cur {cur} depth {depth}"

def parsePredef (s : String) : List ObjId :=
  if s == "-" then [] else
  (s.splitOn ",").filterMap fun t =>
    match t.splitOn "." with
    | [a, b] => match a.toNat?, b.toNat? with | some a, some b => some (a, b) | _, _ => none
    | _ => none

structure Case where
  kind : String
  cls : String
  maxd : Nat
  cur : Nat
  predef : List ObjId
  dict : Bytes
  view : Bytes
  dec : Option Bytes
  want : String

def parseCase (line : String) : Option Case :=
  let (l, want) := match line.splitOn " => " with
    | [a, b] => (a, b)
    | _ => (line, "")
  match words l with
  | [kind, cls, maxd, cur, predef, dict, view, dec] =>
    match maxd.toNat?, cur.toNat?, bytesOfHex dict, bytesOfHex view with
    | some maxd, some cur, some dict, some view =>
      some ⟨kind, cls, maxd, cur, parsePredef predef, dict, view,
            (if dec == "=" then none else bytesOfHex dec), want⟩
    | _, _, _, _ => none
  | _ => none

/-- `fault`: given the window, what the harness answers when the steps of a `vw` case do not select it -/
def modelPlain (line : String) (fault : Bytes → Option String) : String :=
  match parseCase line with
  | none => "bad-case"
  | some c =>
    -- the dictionary is given as text and read by the (shared) object parser on both sides
    match (parseObj ⟨0, 64⟩ c.dict 0).1 with
    | (.ok ⟨.dict kvs, _, _⟩, _) =>
      if let some f := fault c.view then f else
      let defs : Defs := c.predef.foldl (fun d k => (defsInsert k (preVal k) d).2) []
      let ctx : Ctx := ⟨defs, ⟨0, c.maxd⟩, false⟩
      -- the decoders are the ones the loader instantiates the parser with (C06 filters, C07 predictor tail)
      match objStmParse Loader.objDec 0 ctx kvs c.view c.cur with
      | (.ok ms, ctx') =>
        let keys := dedup (ms.map (fun m => (m.num, m.gen)) ++ c.predef)
        okLine (ms.map fun m => (m.num, m.gen, m.obj.start, m.obj.stop, objSexp m.obj.val))
          (keys.map fun k => (k, sexpOpt (defsGet k ctx'.defs))) c.cur ctx'.depth.cur
      | (.err _, _) => "err"
      | (.panic p, _) => s!"panic {p}"
    | _ => "bad-dict"

/-- A case on a restricted view is modelled by the case on its window (C17 `view_refines_copy`), after checking by
    the bounds rules of transforms.rs that the steps select exactly that window. -/
def model (line : String) : String :=
  match ViewTwin.splitVw line with
  | some (steps, pre, suf, rest) =>
    match ViewTwin.parseSteps steps, bytesOfHex pre, bytesOfHex suf with
    | some st, some pre, some suf => modelPlain rest fun win => ViewTwin.viewFault st pre win suf
    | _, _, _ => "bad-case"
  | none => modelPlain line fun _ => none

/-! ### the oracle of the exhaustive stream: a reader for the alphabet {digits, blank, x} -/

/-- white space of the small alphabet: blank, LF, and a comment = `%` up to and including the next
    LF (or the end of the data); `fuel` ≥ remaining bytes -/
def skipWsC : Nat → Bytes → Nat → Nat
  | 0, _, i => i
  | f + 1, s, i =>
    match s[i]? with
    | some 32 => skipWsC f s (i + 1)
    | some 10 => skipWsC f s (i + 1)
    | some 37 =>
      let c := (s.drop i).takeWhile (· != 10)
      skipWsC f s (i + c.length + 1)
    | _ => i

/-- value located at offset `o`: skip white space and comments, then a maximal non-empty digit run.
    Depends on `o` and the bytes from `o` on only. -/
def digReader (s : Bytes) (o : Nat) : Option (Nat × Nat × Nat) :=
  if o > s.length then none else
  let st := Nat.min (skipWsC (s.length + 1) s o) s.length
  let ds := (s.drop st).takeWhile isDigit
  if ds.isEmpty then none
  else some (ds.foldl (fun a c => a * 10 + (c.toNat - 48)) 0, st, st + ds.length)

/-- expected line for `7 o0 9 o1` over `content` (spec: Extracts with `digReader`) -/
def exWant (content : Bytes) (o0 o1 : Nat) : String :=
  if o1 ≤ o0 then "err" else
  match digReader content o0 with
  | none => "err"
  | some (v0, s0, e0) =>
    if e0 > o1 then "err" else
    match digReader content o1 with
    | none => "err"
    | some (v1, s1, e1) =>
      okLine [(7, 0, s0, e0, s!"(int {v0})"), (9, 0, s1, e1, s!"(int {v1})")]
        [((7, 0), s!"(int {v0})"), ((9, 0), s!"(int {v1})")] 0 0

def exParts (c : Case) : Option (Bytes × Nat × Nat) :=
  -- class = "<first>.<o0>.<o1>"
  match c.cls.splitOn "." with
  | [f, a, b] =>
    match f.toNat?, a.toNat?, b.toNat? with
    | some f, some a, some b => some (c.view.drop f, a, b)
    | _, _, _ => none
  | _ => none

def judgePlain (case impl : String) : String :=
  let impl := impl.trimAscii.toString
  if impl.startsWith "panic" || impl.startsWith "crash" then "bad panic-or-crash " ++ impl else
  match parseCase case with
  | none => "skip"
  | some c =>
    match c.kind with
    | "rt" =>
      if impl == c.want then "ok"
      else if impl == "err" then s!"bad wellformed-rejected[{c.cls}] want={c.want}"
      else s!"bad wrong-members[{c.cls}] want={c.want}"
    | "rej" =>
      if impl == "err" then "ok" else s!"bad accepted-{c.cls} got={impl}"
    | "ex" =>
      match exParts c with
      | some (content, o0, o1) =>
        let w := exWant content o0 o1
        if impl == w then "ok"
        else if w == "err" then s!"bad accepted-malformed-small got={impl}"
        else if impl == "err" then s!"bad wellformed-rejected[small] want={w}"
        else s!"bad wrong-members[small] want={w}"
      | none => "skip"
    | _ => "ok"

/-- A case on a restricted view is judged as the case on the window's bytes: the expectation (the line after `=>`,
    the rejection rule, the small reader) is that of the case itself - what lies in front of the window and behind
    it, and where the window lies in the allocation, does not enter it. -/
def judge (case impl : String) : String :=
  match ViewTwin.splitVw case with
  | some (steps, pre, suf, rest) =>
    match ViewTwin.parseSteps steps, bytesOfHex pre, bytesOfHex suf, parseCase rest with
    | some st, some pre, some suf, some c =>
      match ViewTwin.viewFault st pre c.view suf with
      | some f => s!"bad desc-mismatch the steps do not select the window ({f})"
      | none =>
        let t := impl.trimAscii.toString
        if t == "view-error" || t == "view-mismatch" then s!"bad view {t}: the restriction does not show the window's bytes"
        else ViewTwin.viewVerdict (judgePlain rest impl)
    | _, _, _, _ => "skip"
  | none => judgePlain case impl

/-! ### generators -/

def bs (s : String) : Bytes := s.toUTF8.toList

def adler32 (data : Bytes) : Nat :=
  let (a, b) := data.foldl (fun (ab : Nat × Nat) x =>
    let a := (ab.1 + x.toNat) % 65521; (a, (ab.2 + a) % 65521)) (1, 0)
  b * 65536 + a

/-- zlib stream with one stored block (payload < 65536 bytes) -/
def zlibStored (d : Bytes) : Bytes :=
  let n := d.length
  [0x78, 0x01, 0x01, UInt8.ofNat (n % 256), UInt8.ofNat (n / 256),
   UInt8.ofNat (255 - n % 256), UInt8.ofNat (255 - n / 256)] ++ d ++
  (let a := adler32 d
   [UInt8.ofNat (a / 16777216), UInt8.ofNat (a / 65536 % 256), UInt8.ofNat (a / 256 % 256), UInt8.ofNat (a % 256)])

def wsBytes : List UInt8 := [32, 10, 13, 9, 0, 12]

def rndWs (r : Rng) (minLen maxLen : Nat) : Bytes × Rng :=
  let (n, r) := r.nat (maxLen - minLen + 1)
  (List.range (minLen + n)).foldl (fun (acc : Bytes × Rng) _ =>
    let (b, r) := acc.2.pick wsBytes; (b :: acc.1, r)) ([], r)

/-- junk: bytes that belong to no object.  Starts with a blank (so that the preceding token
    ends) and then a byte that cannot continue a number or start a reference. -/
def rndJunk (r : Rng) : Bytes × Rng :=
  let (k, r) := r.nat 12
  match k with
  | 0 => ([], r)
  | 1 => let (w, r) := rndWs r 1 3; (w, r)
  | 2 => (bs " %junk (\n", r)
  | 3 => (bs " x", r)
  | 4 => (bs "\n)>> ]", r)
  | 5 => (bs " endobj ((( <<", r)
  | 6 =>
    let (n, r) := r.nat 6
    let (b, r) := r.bytes n
    ([32, 120] ++ b, r)
  -- comments that are NOT terminated before the next declared offset: a reader that scans on from
  -- the previous object swallows the next member(s) up to the next LF (or the end of the data)
  | 7 => (bs " %x", r)
  | 8 => (bs "%(a) [1] <</K 1>> 7 0 R", r)
  | 9 => (bs "\r%%EOF\r", r)
  | 10 => (bs " %c\n %d", r)
  | _ => (bs " x 99 88 (unbalanced", r)

def idPool : List Nat := [1, 2, 3, 5, 8, 10, 11, 12, 20, 30, 73, 100, 255, 1000, 65535, 65536, 4294967295, 4294967296,
  9223372036854775807]

def pickIds (r : Rng) (n : Nat) : List Nat × Rng :=
  (List.range n).foldl (fun (acc : List Nat × Rng) _ =>
    let (c, r) := acc.2.nat 3
    let (x, r) := if c == 0 then r.pick idPool else r.nat 400
    if acc.1.contains x then (acc.1 ++ [200000 + acc.1.length * 1001 + x % 1000], r) else (acc.1 ++ [x], r)) ([], r)

structure Built where
  entries : List Entry
  leads : List Nat            -- leading white space inside each body
  vals : List Obj
  maxd : Nat

/-- random members: values from C02's generator spelled by the C02 encoder -/
def rndMembers (r : Rng) (n : Nat) (gapStyle : Nat) : Built × Rng :=
  let (ids, r) := pickIds r n
  let (b, r) := ids.foldl (fun (acc : Built × Rng) id =>
    let (v, r) := C02.rndObj 3 acc.2
    -- a comment is not a value of the statement's domain; null is fine at top level
    let (sv, r) := C02.shuffleObj v r
    let (ch, r) := C02.rndChoices r 300
    let (sp, _) := spell sv ch
    let (lead, r) := if gapStyle == 0 then (([] : Bytes), r) else
      (let (k, r) := r.nat 3; if k == 0 then (let (w, r) := rndWs r 1 2; (w, r)) else ([], r))
    let first := acc.1.entries.isEmpty
    let (gap, r) :=
      match gapStyle with
      | 0 => ((if first then [] else [32]), r)                                   -- contiguous, as the unit tests
      | 1 => if first then (let (w, r) := rndWs r 0 2; (w, r)) else (let (w, r) := rndWs r 1 3; (w, r))
      | _ => if first then (let (k, r) := r.nat 4; if k == 0 then ([], r) else if k == 1 then (bs "x ", r)
                            else if k == 2 then (bs "%c ", r) else (bs "%(a) 1 0 R\r", r))
             else (let (j, r) := rndJunk r
                   -- `12 %… <LF> 0 R` IS the reference 12 0 R (comments are white space): after an
                   -- integer member the junk starts with a token that cannot continue a reference
                   let guard : Bytes := match acc.1.vals.getLast? with | some (.int _) => bs " x" | _ => []
                   ((if j.isEmpty then guard ++ [10] else guard ++ j ++ [32]), r))
    ({ entries := acc.1.entries ++ [⟨id, gap, lead ++ sp⟩], leads := acc.1.leads ++ [lead.length],
       vals := acc.1.vals ++ [v], maxd := Nat.max acc.1.maxd (depth v) }, r)) (⟨[], [], [], 1⟩, r)
  (b, r)

def rndLayout (r : Rng) (n : Nat) (plain : Bool) : List (Bytes × Bytes) × Rng :=
  (List.range n).foldl (fun (acc : List (Bytes × Bytes) × Rng) _ =>
    if plain then (acc.1 ++ [([32], [32])], acc.2) else
    let (a, r) := rndWs acc.2 0 2
    let (b, r) := rndWs r 1 2
    let (c, r) := r.nat 8
    let a := if c == 0 then a ++ bs "%c\n" else a
    (acc.1 ++ [(a, b)], r)) ([], r)

def dictFor (r : Rng) (n first : Nat) (filter : String) : Bytes × Rng :=
  let (k, r) := r.nat 5
  let core := s!"/N {n} /First {first}"
  let d := match k with
    | 0 => s!"<</Type /ObjStm {core}{filter}>>"
    | 1 => s!"<< {core} /Type/ObjStm{filter} >>"
    | 2 => s!"<</Length 99/Type /ObjStm /First {first} /N {n}{filter}>>"
    | 3 => s!"<</Type /ObjStm /Extends 4 0 R {core}{filter}>>"
    | _ => s!"<</Type /Obj#53tm\n/N +{n}/First 0{first}{filter}>>"
  (bs d, r)

def predefStr (l : List ObjId) : String :=
  if l.isEmpty then "-" else ",".intercalate (l.map fun k => s!"{k.1}.{k.2}")

def memberWant (b : Built) (ps : List (Nat × Nat)) (predef : List ObjId) (cur : Nat) : String :=
  let rows := (List.zip (List.zip b.entries b.leads) (List.zip b.vals ps)).map fun ((e, lead), (v, p)) =>
    (e.id, 0, p.2 + lead, p.2 + e.body.length, objSexp v)
  let keys := dedup (rows.map (fun (id, _, _, _, _) => (id, 0)) ++ predef)
  let lookups := keys.map fun k =>
    match rows.find? (fun (id, _, _, _, _) => (id, 0) == k) with
    | some (_, _, _, _, sx) => (k, sx)
    | none => (k, objSexp (preVal k))
  okLine rows lookups cur 0


/-! ### filter chains: the layers of the C06 generator, plus FlateDecode with a predictor -/

/-- a layer still to be fitted to its input: a C06 generator layer; with `predSel` a FlateDecode layer
    (encoded as the C06 layer `base`, kind F) whose /DecodeParms name a predictor: (predictor, geometry
    choice, row-width choice), resolved against the length of the layer's input.  `parmStyle` is the
    writer's choice for the dictionary: omission mask (`% 16`) + 16 * junk type -/
structure FTemplate where
  base : C06.Layer
  predSel : Option (Nat × Nat × Nat) := none
  parmStyle : Nat := 0

structure FLayer where
  base : C06.Layer
  pred : Option PredSpec.Params := none
  parmStyle : Nat := 0

/-- geometry for rows of `w` bytes: (colors, bits per component, columns) with rowBytes = w -/
def geometries (tiff : Bool) (w : Nat) : List (Nat × Nat × Nat) :=
  let whole : List (Nat × Nat) := [(1, 8), (2, 8), (3, 8), (4, 8), (1, 16), (2, 16)]
  let a := whole.filterMap fun (c, b) => if w % (c * b / 8) == 0 then some (c, b, w / (c * b / 8)) else none
  let sub : List (Nat × Nat × Nat) := if tiff then [] else [(1, 1, 8 * w), (1, 2, 4 * w), (1, 4, 2 * w), (2, 4, w)]
  a ++ sub

def FTemplate.resolve (t : FTemplate) (len : Nat) : FLayer :=
  match t.predSel with
  | none => ⟨t.base, none, t.parmStyle⟩
  | some (pr, g, ws) =>
    -- one time in three a SINGLE-COLUMN image (columns = 1, the default of /Columns): a row is one pixel
    if ws % 3 == 1 then
      let gs := C06.singleColumn (pr == 2) len
      let (c, b, cols) := gs[g % gs.length]?.getD (1, 8, 1)
      ⟨{ t.base with kind := 'F' }, some ⟨pr, c, cols, b⟩, t.parmStyle⟩
    else
    let ds := (List.range 41).filter fun d => d ≥ 1 && len % d == 0
    let w := if ws % 5 == 0 || ds.isEmpty then len else ds[ws % ds.length]?.getD len
    let gs := geometries (pr == 2) w
    let (c, b, cols) := gs[g % gs.length]?.getD (1, 8, w)
    ⟨{ t.base with kind := 'F' }, some ⟨pr, c, cols, b⟩, t.parmStyle⟩

def FLayer.encode (l : FLayer) (x : Bytes) : Bytes :=
  match l.pred with
  | some p =>
    let w := PredSpec.rowBytes p.columns p.colors p.bpc
    l.base.encode (PredSpec.predict p (PredSpec.splitRows w (x.length / w) x))
  | none => l.base.encode x

def FLayer.nameText (l : FLayer) : String :=
  match l.base.kind with | 'H' => "/ASCIIHexDecode" | 'A' => "/ASCII85Decode" | _ => "/FlateDecode"

/-- an object that is not an integer, where the integer `v` would stand -/
def junkText (t v : Nat) : String :=
  match t % 7 with
  | 0 => "null" | 1 => s!"{v}.0" | 2 => s!"({v})" | 3 => s!"/{v}" | 4 => "true" | 5 => s!"[{v}]" | _ => s!"{v} 0 R"

/-- the /DecodeParms entry of a layer.  A predictor layer: the dictionary written by the spec-side writer
    `PredSpec.Params.entries` with omission mask `parmStyle % 16` (a default-valued entry may be left out,
    ISO 32000-1 Table 8); with `parmStyle / 16 = j > 0` the entries left out are written as non-integers -/
def FLayer.parmText (l : FLayer) : String :=
  match l.pred with
  | some p =>
    let (a, b, c, d) := p.entries (l.parmStyle % 16)
    let j := l.parmStyle / 16
    let ent (k : String) (o : Option Nat) (dflt i : Nat) : String :=
      match o with
      | some v => s!"/{k} {v} "
      | none => if j == 0 then "" else s!"/{k} {junkText (j + i) dflt} "
    "<<" ++ ent "Predictor" a PredSpec.defaultPredictor 0 ++ ent "Columns" c PredSpec.defaultColumns 2 ++
      ent "Colors" b PredSpec.defaultColors 1 ++ ent "BitsPerComponent" d PredSpec.defaultBpc 3 ++ ">>"
  | none => match l.base.pv with | 1 => "<<>>" | 2 => "<</Predictor 1>>" | 3 => "<</Colors 3 /Columns 5>>" | _ => "null"

/-- the encoded content (layers applied innermost first) and the resolved layers; the C06 corruption
    `op`/`arg` hits the output of layer `corrL` (1 = outermost; 0 = none) -/
def encodeChain (corrL op arg : Nat) : List FTemplate → Nat → Bytes → Bytes × List FLayer
  | [], _, x => (x, [])
  | t :: rest, idx, x =>
    let (inner, ls) := encodeChain corrL op arg rest (idx + 1) x
    let l := t.resolve inner.length
    let e := l.encode inner
    ((if idx == corrL then C06.corrupt l.base op arg e else e), l :: ls)

/-- how the dictionary spells the chain: a single name (+ parameter dictionary), an array of names,
    parallel arrays -/
def filterText (ls : List FLayer) (shapeSel : Nat) : String :=
  let names := ls.map FLayer.nameText
  let parms := ls.map FLayer.parmText
  let allNull := parms.all (· == "null")
  match ls with
  | [l] =>
    if shapeSel % 3 == 0 then
      s!" /Filter {l.nameText}" ++ (if l.parmText == "null" then "" else s!" /DecodeParms {l.parmText}")
    else if allNull && shapeSel % 3 == 1 then s!" /Filter [{l.nameText}]"
    else s!" /Filter [{l.nameText}] /DecodeParms [{l.parmText}]"
  | _ =>
    if allNull && shapeSel % 2 == 0 then " /Filter [" ++ " ".intercalate names ++ "]"
    else " /Filter [" ++ " ".intercalate names ++ "] /DecodeParms [" ++ " ".intercalate parms ++ "]"

/-- the layer kinds of C06's exhaustive stream (ASCIIHex mixed case + white space + odd digit,
    ASCII85 with `z`, stored blocks, one fixed-Huffman literal block, fixed-Huffman LZ77 blocks) -/
def c06Kinds : List C06.Layer := [⟨'H', 3, 2, 1, 0⟩, ⟨'A', 5, 2, 0, 0⟩, ⟨'F', 0, 3, 0, 0⟩, ⟨'F', 1, 0, 0, 0⟩,
                                  ⟨'F', 2, 9, 0, 0⟩, ⟨'F', 3, 4, 0, 0⟩]

/-- chain number `i` of the systematic enumeration: every chain of length 1 and 2 over `c06Kinds` -/
def sysChain (i : Nat) : List C06.Layer :=
  let k := c06Kinds.length
  let j := i % (k + k * k)
  if j < k then [c06Kinds[j]?.getD default]
  else [c06Kinds[(j - k) / k]?.getD default, c06Kinds[(j - k) % k]?.getD default]

/-- a chain for case number `i`: systematic (even `i`) or drawn by C06's `randChain` (length 1..3, every
    /DecodeParms variant of C06: null, `<<>>`, /Predictor 1, unrelated keys); then, one time in three, one
    layer is given a TIFF (2) or PNG (10..14) predictor -/
def rndTemplates (r : Rng) (i : Nat) : List FTemplate × Rng :=
  let (base, r) :=
    if i % 2 == 0 then (sysChain (i / 2), r)
    else
      let (clen, r) := r.nat 3
      let (ch, r) := C06.randChain r (clen + 1) false
      let (pv, r) := r.nat 4
      (ch.map fun l => { l with pv := pv }, r)
  let (pk, r) := r.nat 3
  -- the writer's omission choice: every default-valued entry left out (9/24), or any mask
  let (ps, r) := r.nat 24
  let ps := if ps ≥ 16 then 15 else ps
  let ts : List FTemplate := base.map fun l => ⟨l, none, ps⟩
  if pk != 0 then (ts, r) else
    let (pos, r) := r.nat (ts.length + 1)
    let (pr, r) := r.pick ([2, 10, 11, 12, 13, 14, 12, 2] : List Nat)
    let (g, r) := r.nat 10
    let (ws, r) := r.nat 50
    let (mode, r) := r.nat 4
    let (sd, r) := r.nat 50
    let pl : FTemplate := ⟨⟨'F', mode, sd, 0, 0⟩, some (pr, g, ws), ps⟩
    -- inserted, or (when the position holds a Flate layer already) replacing it
    (ts.take pos ++ [pl] ++ ts.drop pos, r)

def setNth {α : Type} (l : List α) (i : Nat) (x : α) : List α := l.take i ++ [x] ++ l.drop (i + 1)

/-! ### minimal-layout headers

 The header of N pairs packed as tightly as the syntax allows: no white space before the first identifier, every
 separator exactly ONE white-space byte, identifiers and offsets with the fewest digits, nothing between the last
 offset digit and the first object (/First = length of the header).  With single-digit identifiers and offsets that is
 /First = 4N - 1 (N pairs need only 2N - 1 separators); offsets stay single digits only when the members are spelled in
 1..4 bytes and touch each other where the syntax allows it (`[]()`, `<<>>/A`, `1[]`).  Class words:

   tight      /First = 4N - 1                       (rt)
   tight2     minimal layout, but some identifier or offset needs two digits   (rt)
   tightpad   the same stream with ONE white-space byte between the header and the first object, /First one more (rt)
   tightcut   /First one less than the header: the last offset loses its last digit - with a single-digit last offset
              the header holds fewer than /N pairs and the stream must be rejected (rej); with a two-digit one the
              case is correspondence only (mut)
   tightshift /First one more than the header over the SAME data: every member is read one byte late (mut)
   tight-flate / tight-chain<k>   the tight stream behind the filter options of the generator (rt)
-/

/-- the shortest spellings of each syntactic class (1..4 bytes) -/
def tightPool : List (Bytes × Obj) :=
  [(bs "1", .int 1), (bs "[]", .arr []), (bs "()", .str []), (bs "<<>>", .dict []), (bs "/A", .name (bs "A")),
   (bs "null", .null), (bs "7", .int 7), (bs "<>", .str []), (bs "true", .bool true)]

def isDelimOrWs (b : UInt8) : Bool :=
  ([32, 10, 13, 9, 0, 12, 40, 41, 60, 62, 91, 93, 123, 125, 47, 37] : List UInt8).contains b

/-- two spellings may not touch when the first ends and the second starts with a regular character -/
def needSep (a b : Bytes) : Bool :=
  match a.getLast?, b.head? with
  | some x, some y => !isDelimOrWs x && !isDelimOrWs y
  | _, _ => false

/-- sequence number `idx` over `pool`, `n` members (mixed radix) -/
def seqOf (pool : List (Bytes × Obj)) (n idx : Nat) : List (Bytes × Obj) :=
  ((List.range n).foldl (fun (acc : List (Bytes × Obj) × Nat) _ =>
    (acc.1 ++ [pool[acc.2 % pool.length]?.getD (bs "1", .int 1)], acc.2 / pool.length)) ([], idx)).1

/-- `n` distinct identifiers with the fewest digits: a rotation of 1..9 (reversed every other time), then 10, 11, .. -/
def tightIds (n sel : Nat) : List Nat :=
  let base := (List.range 9).map fun k => (k + sel) % 9 + 1
  let base := if sel / 9 % 2 == 1 then base.reverse else base
  (base ++ (List.range (n - 9)).map (· + 10)).take n

structure Tight where
  b : Built
  ps : List (Nat × Nat)
  hdr : Bytes
  content : Bytes
  lay : List (Bytes × Bytes) := []      -- the white-space runs of the header (for re-encoding it with other numbers)

/-- members laid out touching each other where the syntax allows it (`sepAlways`: one white-space byte between any two),
    under the minimal header; `wsSel` < 6: every separator is that white-space byte, else they vary with the position -/
def mkTight (ms : List (Bytes × Obj)) (ids : List Nat) (sepAlways : Bool) (wsSel : Nat) : Tight :=
  let wsAt (j : Nat) : UInt8 := if wsSel < 6 then wsBytes[wsSel]?.getD 32 else wsBytes[(j + wsSel) % 6]?.getD 32
  let es := ((List.zip ms ids).foldl (fun (acc : List Entry × Option Bytes × Nat) (m, id) =>
      let gap : Bytes := match acc.2.1 with
        | none => []
        | some prev => if sepAlways || needSep prev m.1 then [wsAt (acc.2.2 + 3)] else []
      (acc.1 ++ [⟨id, gap, m.1⟩], some m.1, acc.2.2 + 1)) ([], none, 0)).1
  let (content, ps) := layoutContent es 0
  let lay : List (Bytes × Bytes) := (List.range ms.length).map fun k =>
    ((if k == 0 then [] else [wsAt (2 * k - 1)]), [wsAt (2 * k)])
  let hdr := encodeHeader (mkHeader ps lay)
  ⟨⟨es, ms.map (fun _ => 0), ms.map (·.2), ms.foldl (fun a m => Nat.max a (depth m.2)) 1⟩, ps, hdr, content, lay⟩

/-- the case lines of one minimal-layout stream.  `nbr`: which neighbours go with it (bit 0: /First one less, bit 1: one
    white-space byte of padding and /First one more, bit 2: /First one more over the same data); `filt`: also behind a
    filter option (flate stored block / random chain / systematic chain / Flate + predictor, by `idx / 2 % 4`) -/
def tightLines (seed idx : Nat) (t : Tight) (nbr : Nat) (filt : Bool) : List String :=
  let n := t.ps.length
  let r := Rng.mk' (seed * 1000003 + idx)
  let trail : Bytes := match idx % 3 with | 0 => [] | 1 => [10] | _ => bs " x"
  let content := t.content ++ trail
  let data := t.hdr ++ content
  let first := t.hdr.length
  let maxd := t.b.maxd + idx % 3
  let pre : List ObjId := if idx % 5 == 0 then [(5000 + idx % 50, 0), ((t.ps.head?.map (·.1)).getD 1, 1)] else []
  let cls := if first + 1 == 4 * n then "tight" else "tight2"
  let (dict, r) := dictFor r n first ""
  let want := memberWant t.b t.ps pre 0
  let l0 := s!"rt {cls} {maxd} 0 {predefStr pre} {hexOfBytes dict} {hexOfBytes data} = => {want}"
  let lastOfs := (t.ps.getLast?.map (·.2)).getD 0
  let l1 := if nbr % 2 == 1 then
      [s!"{if lastOfs < 10 then "rej" else "mut"} tightcut {maxd} 0 {predefStr pre} {hexOfBytes (bs s!"<</Type /ObjStm /N {n} /First {first - 1}>>")} {hexOfBytes data} ="]
    else []
  let l2 := if nbr / 2 % 2 == 1 then
      let w := wsBytes[idx % 6]?.getD 32
      [s!"rt tightpad {maxd} 0 {predefStr pre} {hexOfBytes (bs s!"<</Type /ObjStm /N {n} /First {first + 1}>>")} {hexOfBytes (t.hdr ++ [w] ++ content)} = => {want}"]
    else []
  let l3 := if nbr / 4 % 2 == 1 then
      [s!"mut tightshift {maxd} 0 {predefStr pre} {hexOfBytes (bs s!"<</N {n} /Type /ObjStm /First {first + 1}>>")} {hexOfBytes data} ="]
    else []
  let l4 := if !filt then [] else
    let junk : Bytes := match idx / 4 % 3 with | 0 => [] | 1 => bs "JUNK" | _ => bs "<</N 1>>stream\n"
    let wantJ := memberWant t.b t.ps pre junk.length
    match idx / 2 % 4 with
    | 0 =>
      let filtT := match idx / 12 % 3 with | 0 => " /Filter /FlateDecode" | 1 => " /Filter [/FlateDecode]" | _ => " /Filter [/FlateDecode] /DecodeParms [null]"
      let (dictF, _) := dictFor r n first filtT
      [s!"rt tight-flate {maxd} {junk.length} {predefStr pre} {hexOfBytes dictF} {hexOfBytes (junk ++ zlibStored data)} {hexOfBytes data} => {wantJ}"]
    | 3 =>
      let pr := ([2, 10, 11, 12, 13, 14] : List Nat)[idx / 4 % 6]?.getD 12
      let wsel := ([1, 4, 2, 1, 0, 3] : List Nat)[idx / 24 % 6]?.getD 1
      let (mask, r) := r.nat 16
      let (mode, r) := r.nat 4
      let tp : FTemplate := ⟨⟨'F', mode, idx % 50, 0, 0⟩, some (pr, idx / 144 + idx % 7, wsel), mask⟩
      let (enc, ls) := encodeChain 0 0 0 [tp] 1 data
      let (dictP, _) := dictFor r n first (filterText ls idx)
      [s!"rt tight-chain1 {maxd} {junk.length} {predefStr pre} {hexOfBytes dictP} {hexOfBytes (junk ++ enc)} {hexOfBytes data} => {wantJ}"]
    | _ =>
      -- 2: chain number idx / 8 of the systematic enumeration; 1: drawn by C06's randChain (+ predictor layers)
      let (ts, r) := rndTemplates r (if idx / 2 % 4 == 2 then 2 * (idx / 8) else 2 * idx + 1)
      let (shapeSel, r) := r.nat 6
      let (eol, r) := r.nat 4
      let (enc, ls) := encodeChain 0 0 0 ts 1 data
      let (dictC, _) := dictFor r n first (filterText ls shapeSel)
      [s!"rt tight-chain{ls.length} {maxd} {junk.length} {predefStr pre} {hexOfBytes dictC} {hexOfBytes (junk ++ enc ++ C06.eolBytes eol)} {hexOfBytes data} => {wantJ}"]
  [l0] ++ l1 ++ l2 ++ l3 ++ l4

/-- the neighbour that goes with case number `idx` when not all of them do -/
def nbrOf (idx : Nat) : Nat := ([1, 2, 1, 2, 1, 4, 2] : List Nat)[idx % 7]?.getD 1

/-- the systematic family: (N, pool, stride) - sequence number i of pool^N is taken when i = off (mod stride) -/
def genTight (seed : Nat) (tier : String) (emit : String → IO Unit) : IO Unit := do
  let thorough := tier == "thorough"
  let short := tightPool.filter (·.1.length ≤ 2)
  let plan : List (Nat × List (Bytes × Obj) × Nat) :=
    if thorough then [(1, tightPool, 1), (2, tightPool, 1), (3, tightPool, 1), (4, tightPool, 1), (5, tightPool, 7), (5, short, 1), (6, short, 3)]
    else [(1, tightPool, 1), (2, tightPool, 1), (3, tightPool, 1), (4, tightPool, 11), (5, short, 13), (6, short, 79)]
  let mut idx := seed % 1009
  for (n, pool, stride) in plan do
    let total := pool.length ^ n
    let off := seed % stride
    for j in List.range ((total + stride - 1 - off) / stride) do
      let ms := seqOf pool n (off + j * stride)
      -- N <= 2: every white-space byte (and a mixture) as the separator, with and without a byte between the members;
      -- larger N: the choices rotate with the case number
      let wsSels : List Nat := if n ≤ 2 then [0, 1, 2, 3, 4, 5, 7] else [idx % 8]
      for wsSel in wsSels do
        idx := idx + 1
        let t := mkTight ms (tightIds n idx) false wsSel
        for l in tightLines seed idx t (if n ≤ 2 then 7 else if n == 3 then 3 else nbrOf idx) (n ≤ 2 || idx % 2 == 0) do emit l
        if n ≤ 2 || idx % 4 == 1 then
          let t' := mkTight ms (tightIds n (idx + 4)) true wsSel
          if t'.content != t.content then
            for l in tightLines seed (idx + 1) t' (nbrOf idx) false do emit l
  -- N = 7 is the largest N whose offsets can all be single digits: 1-byte integers alternating with 2-byte delimited
  -- objects (`1[]7()1<>7`, `[]1()7<>1[]`)
  let ints : List (Bytes × Obj) := [(bs "1", .int 1), (bs "7", .int 7)]
  let twos : List (Bytes × Obj) := [(bs "[]", .arr []), (bs "()", .str []), (bs "<>", .str []), (bs "/A", .name (bs "A"))]
  let stride7 := if thorough then 1 else 16
  for i in List.range (3072 / stride7) do
    let k := i * stride7 + seed % stride7
    idx := idx + 1
    let intFirst := k < 1024
    let k' := if intFirst then k else k - 1024
    let ms := ((List.range 7).foldl (fun (acc : List (Bytes × Obj) × Nat) p =>
      if (p % 2 == 0) == intFirst then (acc.1 ++ [ints[acc.2 % 2]?.getD (bs "1", .int 1)], acc.2 / 2)
      else (acc.1 ++ [twos[acc.2 % 4]?.getD (bs "[]", .arr [])], acc.2 / 4)) ([], k')).1
    for l in tightLines seed idx (mkTight ms (tightIds 7 idx) false (idx % 8)) (nbrOf idx) (idx % 2 == 0) do emit l
  -- a few larger N: two-digit offsets (and identifiers from N = 10 on) with the fewest digits
  let mut r := Rng.mk' (seed + 7777)
  for n in [8, 9, 10, 11, 12, 16] do
    for _ in List.range (if thorough then 300 else 30) do
      idx := idx + 1
      let (k, r1) := r.nat (short.length ^ 8)
      let (k2, r2) := r1.nat (short.length ^ 8)
      r := r2
      let ms := seqOf short 8 k ++ seqOf short (n - 8) k2
      for l in tightLines seed idx (mkTight ms (tightIds n idx) false (idx % 8)) (nbrOf idx) (idx % 2 == 0) do emit l

/-! ### boundary values of the four kinds of numbers an object stream declares  (after missed seed C14_8)

 /N, /First, a header identifier, a header offset - each replaced, on an otherwise well-formed stream, by every value
 of ONE boundary set around its exact value `e`:

   0  1  e-1  e  e+1  2e  255  256  65535  65536  2^31-1  2^31  2^32-1  2^32  2^32+1  2^53  2^59-1  2^59  10^18  2^62
   2^63-1 (the largest integer the syntax of the crate holds)  |  2^63, 2^64 (overflowing)  |  -1  -e  -(2^63-1)
   |  an object that is not an integer: null  e.0  (e)  /e  true  [e]  e 0 R  |  absent

 What the statement says about each (decided here, on the spec side, from the layout the encoder produced):
   /N      e: the members.  1 <= v < e: the first v members (the rest of the header is padding before /First).
           0, v > e (the header holds fewer than /N pairs; no padding of the generator holds a number), negative,
           overflowing, not an integer, absent: rejected.
   /First  e: the members.  v >= |data|: rejected.  v not beyond the first digit of the last offset (the header view then
           holds fewer than 2N integers; v = 0), negative, overflowing, not an integer, absent: rejected.  Otherwise (the
           content starts somewhere else) correspondence only.
   id      any v <= 2^63-1 that is fresh: the same members under the new identifier (the header is laid out again, /First
           follows).  One that repeats another member's / a predefined identifier, negative, overflowing, not an integer,
           absent (the header then holds 2N-1 integers): rejected.
   offset  v not above the previous offset, not below the next one, at or beyond the end of the content, negative,
           overflowing, not an integer, absent: rejected; another position inside the content: correspondence only.
   (`e 0 R` / `e.0` in the LAST pair leave a complete header followed by junk: correspondence only.)
 Never a panic, never an abort (the judge calls `panic ...` / `crash:<rc>` bad for every kind of case): in particular no
 allocation may be sized by /N before the pairs have been read.
 Class words: bnd-N, bnd-First, bnd-id, bnd-ofs (+ -flate / -chain<k> when the stream lies behind a filter option).
 Bases: minimal-layout ("tight") headers and random ("slack") layouts with padding before /First; each base plain and
 behind one filter option in rotation (Flate stored block / systematic chain / chain of C06's randChain / Flate + predictor).

 ZLIB HEADERS (after missed seed C06_8, which let FlateDecode accept only CMF = 0x78): RFC 1950 allows CM = 8 with
 CINFO = 0..7 (window 256 bytes .. 32 KiB), any FLEVEL 0..3, FDICT = 0, FCHECK making CMF*256 + FLG a multiple of 31.
 The two header bytes of a zlib stream written by the spec-side encoders are replaced by each of these 32 pairs (the
 DEFLATE data and the Adler-32 trailer do not depend on the header; a stream with matches keeps its header unless the
 window covers the whole input of the layer): class zhdr, expected: the same members.  CINFO = 8, 15 and FDICT = 1
 with a correct FCHECK: rejected. -/

inductive BTok where
  | nat (v : Nat)
  | neg (v : Nat)
  | junk (t v : Nat)
  | over (v : Nat)
  | absent

def BTok.text : BTok → String
  | .nat v => toString v
  | .neg v => s!"-{v}"
  | .junk t v => junkText t v
  | .over v => toString v
  | .absent => ""

def bndNats (e : Nat) : List Nat :=
  ([0, 1, e - 1, e, e + 1, 2 * e, 255, 256, 65535, 65536, 2 ^ 31 - 1, 2 ^ 31, 2 ^ 32 - 1, 2 ^ 32, 2 ^ 32 + 1, 2 ^ 53,
    2 ^ 59 - 1, 2 ^ 59, 10 ^ 18, 2 ^ 62, 2 ^ 63 - 1] : List Nat).eraseDups

def bndToks (e : Nat) : List BTok :=
  -- (around an identifier 2^63-1 the neighbours e+1, 2e overflow as well)
  (bndNats e).map (fun v => if v < 2 ^ 63 then .nat v else .over v) ++ [.over (2 ^ 63), .over (2 ^ 64), .neg 1] ++ (if e > 1 then [.neg e] else []) ++ [.neg (2 ^ 63 - 1)] ++
  (List.range 7).map (fun t => .junk t e) ++ [.absent]

inductive BExp where
  | rt (want : String)
  | rej
  | mut

/-- a well-formed stream in the generator's terms -/
structure BBase where
  b : Built
  ps : List (Nat × Nat)
  lay : List (Bytes × Bytes)
  pad : Bytes
  content : Bytes          -- with the junk after the last member
  pre : List ObjId
  maxd : Nat

def BBase.hdr (s : BBase) : Bytes := encodeHeader (mkHeader s.ps s.lay) ++ s.pad
def BBase.data (s : BBase) : Bytes := s.hdr ++ s.content

/-- the header with the identifier / the offset of pair `k` written as the given token -/
def hdrWith (s : BBase) (k : Nat) (idT ofsT : Option Bytes) : Bytes :=
  (((mkHeader s.ps s.lay).zipIdx).map fun (e, j) =>
    e.pre ++ (if j == k then idT.getD (natDigits e.id) else natDigits e.id) ++ e.mid ++
      (if j == k then ofsT.getD (natDigits e.ofs) else natDigits e.ofs)).flatten ++ s.pad

def Built.first (b : Built) (k : Nat) : Built :=
  { b with entries := b.entries.take k, leads := b.leads.take k, vals := b.vals.take k }

/-- how the data reach the parser: as they are, or behind a filter option: data ↦ (/Filter text, view, dechex) -/
structure BWrap where
  tag : String
  cur : Nat
  run : Bytes → String × Bytes × String

def wrapPlain : BWrap := ⟨"", 0, fun d => ("", d, "=")⟩

def bndDict (sel : Nat) (nT fT filt : String) : Bytes :=
  let n := if nT.isEmpty then "" else s!" /N {nT}"
  let f := if fT.isEmpty then "" else s!" /First {fT}"
  bs (match sel % 3 with
    | 0 => s!"<</Type /ObjStm{n}{f}{filt}>>"
    | 1 => s!"<<{f}{n} /Type/ObjStm{filt} >>"
    | _ => s!"<</Length 99/Type /ObjStm{f}{n}{filt}>>")

def bndLine (w : BWrap) (sel : Nat) (cls : String) (s : BBase) (nT fT : String) (data : Bytes) (e : BExp) : String :=
  let (filt, view, dech) := w.run data
  let (kind, want) := match e with
    | .rt wt => ("rt", " => " ++ wt)
    | .rej => ("rej", "")
    | .mut => ("mut", "")
  s!"{kind} {cls}{w.tag} {s.maxd} {w.cur} {predefStr s.pre} {hexOfBytes (bndDict sel nT fT filt)} {hexOfBytes view} {dech}{want}"

/-- /N over the boundary set -/
def bndN (s : BBase) (w : BWrap) (sel : Nat) : List String :=
  let n := s.ps.length
  (bndToks n).map fun t =>
    let e : BExp := match t with
      | .nat v => if v == 0 || v > n then .rej else .rt (memberWant (s.b.first v) s.ps s.pre w.cur)
      | _ => .rej
    bndLine w sel "bnd-N" s t.text (toString s.hdr.length) s.data e

/-- /First over the boundary set -/
def bndFirst (s : BBase) (w : BWrap) (sel : Nat) : List String :=
  let first := s.hdr.length
  let data := s.data
  let pairs := encodeHeader (mkHeader s.ps s.lay)
  -- where the digits of the last offset begin
  let p := pairs.length - (natDigits ((s.ps.getLast?.map (·.2)).getD 0)).length
  (bndToks first).map fun t =>
    let e : BExp := match t with
      | .nat v => if v == first then .rt (memberWant s.b s.ps s.pre w.cur)
                  else if v ≥ data.length || v ≤ p then .rej else .mut
      | _ => .rej
    bndLine w sel "bnd-First" s (toString s.ps.length) t.text data e

/-- the identifier of pair `k` over the boundary set -/
def bndId (s : BBase) (w : BWrap) (sel k : Nat) : List String :=
  let n := s.ps.length
  let es := s.b.entries
  let idk := (es[k]?.map (·.id)).getD 0
  let others := ((es.zipIdx).filter fun (_, j) => j != k).map fun (e, _) => e.id
  (bndToks idk).filterMap fun t =>
    let e : Option BExp := match t with
      | .nat v =>
        if v == idk then none
        else if others.contains v || s.pre.contains (v, 0) then some .rej
        else
          let es' := setNth es k { (es[k]?.getD ⟨0, [], []⟩) with id := v }
          let ps' := setNth s.ps k (v, (s.ps[k]?.map (·.2)).getD 0)
          some (.rt (memberWant { s.b with entries := es' } ps' s.pre w.cur))
      | .junk jt _ => some (if jt % 7 == 6 && n == 1 then .mut else .rej)
      | _ => some .rej
    e.map fun e =>
      let h := hdrWith s k (some (bs t.text)) none
      bndLine w sel "bnd-id" s (toString n) (toString h.length) (h ++ s.content) e

/-- the offset of pair `k` over the boundary set -/
def bndOfs (s : BBase) (w : BWrap) (sel k : Nat) : List String :=
  let n := s.ps.length
  let ofk := (s.ps[k]?.map (·.2)).getD 0
  let prev := (s.ps[k - 1]?.map (·.2)).getD 0
  let next := (s.ps[k + 1]?.map (·.2)).getD 0
  (bndToks ofk).filterMap fun t =>
    let e : Option BExp := match t with
      | .nat v =>
        if v == ofk then none
        else if (k > 0 && v ≤ prev) || (k + 1 < n && v ≥ next) || v ≥ s.content.length then some .rej
        else some .mut
      | .junk jt _ => some (if k + 1 == n && (jt % 7 == 1 || jt % 7 == 6) then .mut else .rej)
      | _ => some .rej
    e.map fun e =>
      let h := hdrWith s k none (some (bs t.text))
      bndLine w sel "bnd-ofs" s (toString n) (toString h.length) (h ++ s.content) e

/-- a legal zlib header: CM = 8, the given CINFO and FLEVEL, FDICT = 0, FCHECK as RFC 1950 2.2 wants it -/
def zhdrPair (cinfo flevel : Nat) (fdict : Nat := 0) : UInt8 × UInt8 :=
  let cmf := cinfo * 16 + 8
  let flg0 := flevel * 64 + fdict * 32
  let rem := (cmf * 256 + flg0) % 31
  (UInt8.ofNat cmf, UInt8.ofNat (flg0 + (if rem == 0 then 0 else 31 - rem)))

def reheader (h : UInt8 × UInt8) (z : Bytes) : Bytes :=
  match z with
  | _ :: _ :: t => h.1 :: h.2 :: t
  | _ => z

/-- `encodeChain` with the header of every Flate layer replaced by `h`; a layer whose DEFLATE data hold matches (encoder
    modes 2, 3) keeps its header unless a window of `win` bytes covers the layer's whole input -/
def encodeChainZ (h : UInt8 × UInt8) (win : Nat) : List FTemplate → Bytes → Bytes × List FLayer
  | [], x => (x, [])
  | t :: rest, x =>
    let (inner, ls) := encodeChainZ h win rest x
    let l := t.resolve inner.length
    let e := l.encode inner
    let fits := l.base.a ≤ 1 || win ≥ (if l.pred.isSome then 2 * inner.length + 1 else inner.length)
    ((if l.base.kind == 'F' && fits then reheader h e else e), l :: ls)

def zhdrLines (s : BBase) (idx : Nat) : List String :=
  let n := s.ps.length
  let data := s.data
  let junk : Bytes := match idx % 3 with | 0 => [] | 1 => bs "JUNK" | _ => bs "<</N 1>>stream\n"
  let want := memberWant s.b s.ps s.pre junk.length
  let fl (a : Nat) : FTemplate := ⟨⟨'F', a, idx % 50, 0, 0⟩, none, 15⟩
  let line (kind : String) (ts : List FTemplate) (h : UInt8 × UInt8) (win sel : Nat) : String :=
    let (enc, ls) := encodeChainZ h win ts data
    let d := bndDict sel (toString n) (toString s.hdr.length) (filterText ls sel)
    s!"{kind} zhdr {s.maxd} {junk.length} {predefStr s.pre} {hexOfBytes d} {hexOfBytes (junk ++ enc)} {hexOfBytes data}" ++
      (if kind == "rt" then s!" => {want}" else "")
  -- one Flate layer (stored / fixed-Huffman literals / fixed-Huffman with matches, by the case number): all 32 headers
  let one := (List.range 32).map fun i => line "rt" [fl (idx % 4)] (zhdrPair (i / 4) (i % 4)) (2 ^ (i / 4 + 8)) (idx + i)
  -- the Flate layer inside a chain / with a predictor: every window size, FLEVEL in rotation
  let hex : FTemplate := ⟨⟨'H', 3, 2, 1, 0⟩, none, 15⟩
  let a85 : FTemplate := ⟨⟨'A', 5, 2, 0, 0⟩, none, 15⟩
  let pr := ([2, 10, 11, 12, 13, 14] : List Nat)[idx / 4 % 6]?.getD 12
  let ts : List FTemplate := match idx % 5 with
    | 0 => [hex, fl 0]
    | 1 => [a85, fl 1]
    | 2 => [fl 1, fl 0]
    | 3 => [fl (idx / 5 % 2), hex]
    | _ => [⟨⟨'F', idx / 5 % 2, idx % 50, 0, 0⟩, some (pr, idx / 7, idx / 3), idx % 16⟩]
  let more := (List.range 8).map fun c => line "rt" ts (zhdrPair c ((c + idx) % 4)) (2 ^ (c + 8)) (idx + c)
  -- not zlib headers, although the check value is right
  let bad := [zhdrPair 8 (idx % 4), zhdrPair 15 (idx % 4), zhdrPair (idx % 8) (idx % 4) 1].map fun h => line "rej" [fl (idx % 2)] h 0 idx
  one ++ more ++ bad

/-- the bases of the two families: minimal-layout streams and random layouts with padding before /First -/
def bndBases (seed : Nat) (thorough : Bool) : List BBase := Id.run do
  let mut out : List BBase := []
  -- tight: N = 1, 2, 3, 7 with single digits, 12 with two-digit numbers
  let short := tightPool.filter (·.1.length ≤ 2)
  let reps := if thorough then 12 else 2
  let mut r := Rng.mk' (seed * 7919 + 14008)
  for rep in List.range reps do
    for n in [1, 2, 3, 7, 12] do
      let (k, r1) := r.nat (tightPool.length ^ 3)
      let (k2, r2) := r1.nat (short.length ^ 9)
      r := r2
      let ms := if n ≤ 3 then seqOf tightPool n k
                else if n == 7 then (List.range 7).map fun p => if p % 2 == 0 then (bs "1", Obj.int 1) else short[(k2 / 4 ^ p) % short.length]?.getD (bs "[]", .arr [])
                else seqOf short n k2
      let t := mkTight ms (tightIds n (k + rep)) (n == 12 && rep % 2 == 1) ((k + rep) % 8)
      let trail : Bytes := match (k + rep) % 3 with | 0 => [] | 1 => [10] | _ => bs " x"
      let pre : List ObjId := if rep % 2 == 1 then [(5000 + k % 50, 0), ((t.ps.head?.map (·.1)).getD 1, 1)] else []
      out := out ++ [⟨t.b, t.ps, t.lay, [], t.content ++ trail, pre, t.b.maxd + rep % 2⟩]
  -- slack: the random streams of the main generator
  for i in List.range (if thorough then 150 else 14) do
    let (nobj, r1) := r.nat 6
    let nobj := nobj + 1
    let (gapStyle, r2) := r1.nat 4
    let (b, r3) := rndMembers r2 nobj gapStyle
    let (plain, r4) := r3.nat 3
    let (ws, r5) := rndLayout r4 nobj (plain == 0)
    let pad : Bytes := match i % 5 with | 0 => [32] | 1 => [10] | 2 => bs " x y\n" | 3 => bs "\n%pad\n " | _ => List.replicate 9 0
    let (trail, r6) := rndJunk r5
    let (x, r7) := r6.nat 50
    r := r7
    let (content, ps) := layoutContent b.entries 0
    let pre : List ObjId := match i % 3 with
      | 0 => []
      | 1 => [(5000 + x, 0)]
      | _ => [((b.entries[x % nobj]?.map (·.id)).getD 1, 1), (5000 + x, 0)]
    out := out ++ [⟨b, ps, ws, pad, content ++ trail, pre, b.maxd + i % 3⟩]
  return out

/-- filter option number `j` -/
def bndWrap (r : Rng) (j : Nat) : BWrap :=
  let junk : Bytes := match j % 3 with | 0 => [] | 1 => bs "JUNK" | _ => bs "<</N 1>>stream\n"
  let chain (ts : List FTemplate) (sel eol : Nat) : BWrap :=
    ⟨s!"-chain{ts.length}", junk.length, fun d =>
      let (enc, ls) := encodeChain 0 0 0 ts 1 d
      (filterText ls sel, junk ++ enc ++ C06.eolBytes eol, hexOfBytes d)⟩
  match j % 4 with
  | 0 =>
    let filt := match j / 4 % 3 with | 0 => " /Filter /FlateDecode" | 1 => " /Filter [/FlateDecode]" | _ => " /Filter [/FlateDecode] /DecodeParms [null]"
    ⟨"-flate", junk.length, fun d => (filt, junk ++ zlibStored d, hexOfBytes d)⟩
  | 1 => let (ts, r) := rndTemplates r (2 * (j / 4)); let (sel, _) := r.nat 6; chain ts sel (j / 4 % 4)
  | 2 => let (ts, r) := rndTemplates r (2 * j + 1); let (sel, _) := r.nat 6; chain ts sel (j / 4 % 4)
  | _ =>
    let pr := ([2, 10, 11, 12, 13, 14] : List Nat)[j / 4 % 6]?.getD 12
    let (mask, r) := r.nat 16
    let (mode, _) := r.nat 4
    chain [⟨⟨'F', mode, j % 50, 0, 0⟩, some (pr, j / 24 + j % 7, ([1, 4, 2, 1, 0, 3] : List Nat)[j / 4 % 6]?.getD 1), mask⟩] j 0

def genBnd (seed : Nat) (tier : String) (emit : String → IO Unit) : IO Unit := do
  let thorough := tier == "thorough"
  let mut j := seed % 1013
  for s in bndBases seed thorough do
    j := j + 1
    let n := s.ps.length
    -- as it is: all four kinds of numbers, the first and the last pair
    for l in bndN s wrapPlain j ++ bndFirst s wrapPlain (j + 1) do emit l
    for k in (if n == 1 then [0] else [0, n - 1]) do
      for l in bndId s wrapPlain (j + k) k ++ bndOfs s wrapPlain (j + k + 1) k do emit l
    -- behind a filter option: /N and /First (the decoded data decide), the last pair
    let w := bndWrap (Rng.mk' (seed * 31337 + j)) j
    for l in bndN s w (j + 2) ++ bndFirst s w j ++ bndId s w (j + 1) (n - 1) ++ bndOfs s w j (n - 1) do emit l
    -- Flate layers under every legal zlib header
    for l in zhdrLines s j do emit l

/-! ### every case once more on a restricted view

  A case line is followed by the same case inside a larger allocation (Driver/ViewTwin.lean).  Three axes, cycled
  by the running counter `c` with pairwise coprime periods (16, 7, 5: every combination occurs within 560 twins):
  * bytes in front of the window: 1, 7, 11, 1000 (and 0, 2, 3, 5, 13, 64) of them - a rotation of a text holding a
    header line, a complete object stream object and a complete plain object; or random bytes;
  * the chain of restrictions: RestrictView; RestrictViewFrom; From then View; View then View with junk on both
    sides of the inner window; View then From; a View starting at 0 then From; three deep;
  * bytes behind the window that CONTINUE or COMPLETE the stream: ` 0 R …` and digits (an integer member ending at the
    window's end would become a reference / a longer number), more objects, the content again behind a /First that
    points to the window's end or beyond it, integers at every position an offset beyond the window could point to,
    the cut-off rest of a truncated stream / of a truncated encoded layer, `endstream endobj` text; nothing - so that
    an implementation reading beyond the view's end returns other members or accepts what must be rejected. -/

def viewJunk : Bytes :=
  bs "%PDF-1.5\n5 0 obj<</Type/ObjStm/N 2/First 8>>stream\n1 0 2 2 7 [8]\nendstream endobj\n3 0 obj (x) endobj\n"

/-- the view twin of a case line; `cont` = what continues THIS case behind its window, if known; `force`: the
    suffix is `cont` whatever the counter says (and the chain is one that can have something behind the window) -/
def viewLine (c : Nat) (line : String) (cont : Option Bytes) (force : Bool := false) : Option String :=
  (parseCase line).map fun cs =>
    let c := if force && ViewTwin.shapeNoSuffix c then c + 1 else c
    -- exhaustive small space: digits where an offset at / one beyond the end of the content points to
    let cont := if cs.kind == "ex" then some (bs "1 2 1 2 ") else cont
    let suf : Bytes := if force then cont.getD [] else
      match c % 5 with
      | 0 => cont.getD (bs " 0 R ]) >> endobj")
      | 1 => []
      | 2 => cont.getD (bs "7 0 R 8 9 10 ")
      | 3 => cont.getD (bs "\n7 7 7 7 7 7 7 7 7 7 7 7 7 7 7 7 7 7 7 7 7 7 ")
      | _ => bs "\nendstream\nendobj\n9 0 obj [1 2] endobj\n"
    ViewTwin.wrap c viewJunk cs.view suf line

/-- CUT family: well-formed streams (minimal header; members whose spelling is DELIMITED - strings, arrays,
    dictionaries, hex strings - so that every proper prefix of a member is not an object) with the view ending at
    every byte, the rest of the stream lying behind the view.  A view that ends before the end of the last member
    damages a member or leaves one out: rej; one that only loses trailing junk: the same members (rt).  Each cut
    also as a plain buffer.  Then one such stream FlateDecode'd (stored block), the zlib stream cut at every byte. -/
def cutFamily (emit : String → IO Unit) (full : Bool) : IO Unit := do
  let pool : List (Bytes × Obj) :=
    [(bs "(ab)", .str (bs "ab")), (bs "[1 2]", .arr [.int 1, .int 2]), (bs "<</K 1>>", .dict [(bs "K", .int 1)]),
     (bs "<41>", .str [65]), (bs "[(x)]", .arr [.str (bs "x")])]
  let seqs : List (List Nat) := [[0], [1], [2], [3, 0], [1, 4], [2, 1, 0], [4, 3, 2, 1]]
  let mut k := 0
  let mut sel := 0
  for sq in seqs do
    sel := sel + 1
    let ms := sq.filterMap fun i => pool[i]?
    let n := ms.length
    let t := mkTight ms (tightIds n sel) (sel % 2 == 0) (sel % 8)
    let trail : Bytes := if sel % 3 == 0 then [] else bs " x"
    let data := t.hdr ++ t.content ++ trail
    let first := t.hdr.length
    let endLast := first + t.content.length
    let dict := bs s!"<</Type /ObjStm /N {n} /First {first}>>"
    let want := memberWant t.b t.ps [] 0
    for cut in List.range (data.length + 1) do
      k := k + 1
      if full || k % 2 == 0 || cut + 1 ≥ endLast then
        let line := if cut ≥ endLast then s!"rt cut {t.b.maxd} 0 - {hexOfBytes dict} {hexOfBytes (data.take cut)} = => {want}"
                    else s!"rej cut {t.b.maxd} 0 - {hexOfBytes dict} {hexOfBytes (data.take cut)} ="
        if cut < data.length then emit line
        if let some l := viewLine k line (some (data.drop cut)) true then emit l
  -- behind FlateDecode: every cut of the zlib stream before its end is rejected (C14.objstm_truncated_flate_rejects)
  let ms := [0, 1].filterMap fun i => pool[i]?
  let t := mkTight ms [3, 8] false 0
  let data := t.hdr ++ t.content
  let z := zlibStored data
  let dictF := bs s!"<</Type /ObjStm /N 2 /First {t.hdr.length} /Filter /FlateDecode>>"
  for cut in List.range z.length do
    k := k + 1
    let line := s!"rej cutflate {t.b.maxd} 0 - {hexOfBytes dictF} {hexOfBytes (z.take cut)} ="
    if full || k % 2 == 0 then emit line
    if let some l := viewLine k line (some (z.drop cut)) true then emit l

def gen (seed n : Nat) (tier : String) (emit0 : String → IO Unit) : IO Unit := do
  -- every case is emitted twice: as it is, and on a restricted view (quick tier: of the two big systematic
  -- enumerations - the exhaustive small space `ex` and the minimal-layout classes `tight…` - every second case)
  let ctr ← IO.mkRef 0
  let all ← IO.mkRef 0
  let emitC (cont : Option Bytes) (line : String) : IO Unit := do
    emit0 line
    let a ← all.modifyGet fun a => (a, a + 1)
    let big := line.startsWith "ex " || ((line.splitOn " ")[1]?.getD "").startsWith "tight"
    if tier == "thorough" || !big || a % 2 == 0 then
      let c ← ctr.modifyGet fun c => (c, c + 1)
      match viewLine c line cont with
      | some l => emit0 l
      | none => pure ()
  let emit := emitC none
  cutFamily emit0 (tier == "thorough")
  genTight seed tier emit
  -- exhaustive small space: contents over {1,2,blank,x} × all offset pairs
  let alphabet : List UInt8 := [49, 50, 32, 120]
  let maxLen := if tier == "thorough" then 5 else 4
  let mut contents : List Bytes := [[]]
  let mut level : List Bytes := [[]]
  for _ in List.range maxLen do
    level := level.flatMap fun c => alphabet.map fun a => c ++ [a]
    contents := contents ++ level
  -- the same space over {1, blank, %, LF}: comments with and without a terminating LF before an offset
  let alphabetC : List UInt8 := [49, 32, 37, 10]
  let mut levelC : List Bytes := [[]]
  for _ in List.range maxLen do
    levelC := levelC.flatMap fun c => alphabetC.map fun a => c ++ [a]
    contents := contents ++ levelC.filter (fun c => c.contains 37 || c.contains 10)
  let mut idx := 0
  for c in contents do
    if !c.isEmpty then
      for o0 in List.range (c.length + 2) do
        for o1 in List.range (c.length + 2) do
          idx := idx + 1
          if tier == "thorough" || idx % 3 == seed % 3 then
            let hdr := bs s!"7 {o0} 9 {o1} "
            let d := bs s!"<</Type /ObjStm /N 2 /First {hdr.length}>>"
            emit s!"ex {hdr.length}.{o0}.{o1} 4 0 - {hexOfBytes d} {hexOfBytes (hdr ++ c)} ="
  -- random structured cases and their single-rule corruptions
  let mut r := Rng.mk' seed
  let mut chainIdx := seed % 97
  let mut predIdx := seed % 89
  for _ in List.range n do
    let (nobj, r1) := r.nat 6
    let nobj := nobj + 1
    let (gapStyle, r2) := r1.nat 4
    let (b, r3) := rndMembers r2 nobj gapStyle
    let (plain, r4) := r3.nat 3
    let (ws, r5) := rndLayout r4 nobj (plain == 0)
    let (padK, r6) := r5.nat 5
    -- (variant 4: nine NUL bytes - white space to the parser, an all-zero group (`z`) to an ASCII85 layer)
    let pad : Bytes := match padK with | 0 => [32] | 1 => [10] | 2 => bs " x y\n" | 3 => bs "\n%pad\n "
                                       | _ => List.replicate 9 0
    let (trail, r7) := rndJunk r6
    let trail := if trail.isEmpty then [] else trail
    let es := b.entries
    let (content, ps) := layoutContent es 0
    let content := content ++ trail
    let hdr := encodeHeader (mkHeader ps ws) ++ pad
    let first := hdr.length
    let data := hdr ++ content
    let (slack, r8) := r7.nat 3
    let maxd := b.maxd + slack
    let (npre, r9) := r8.nat 3
    let (pre, r10) := (List.range npre).foldl (fun (acc : List ObjId × Rng) _ =>
      let (c, r) := acc.2.nat 2
      -- an unrelated id, or a member's id under generation 1 (a different object)
      let (x, r) := r.nat 50
      let k : ObjId := if c == 0 then (5000 + x, 0) else ((es[x % es.length]?.map (·.id)).getD 1, 1)
      (if acc.1.contains k then acc.1 else acc.1 ++ [k], r)) ([], r9)
    let (dict, r11) := dictFor r10 nobj first ""
    let (curK, r12) := r11.nat 4
    let cur := if curK == 0 then (data.length / 2) else 0
    r := r12
    let cls := match gapStyle with | 0 => "contig" | 1 => "ws" | _ => "junk"
    emit s!"rt {cls} {maxd} {cur} {predefStr pre} {hexOfBytes dict} {hexOfBytes data} = => {memberWant b ps pre cur}"
    -- the same stream through FlateDecode (real decoder in the harness only)
    let (fl, r13) := r.nat 6
    r := r13
    if fl == 0 then
      let (fk, r14) := r.nat 3
      r := r14
      let filt := match fk with | 0 => " /Filter /FlateDecode" | 1 => " /Filter [/FlateDecode]" | _ => " /Filter [/FlateDecode] /DecodeParms [null]"
      let (dictF, r15) := dictFor r nobj first filt
      r := r15
      let z := zlibStored data
      -- the decoder reads from the cursor: put junk before it
      let junk := bs "JUNK"
      emit s!"rt flate {maxd} {junk.length} {predefStr pre} {hexOfBytes dictF} {hexOfBytes (junk ++ z)} {hexOfBytes data} => {memberWant b ps pre junk.length}"
      -- the filter announced, the data NOT encoded: a failing layer must fail the extraction (the undecoded data are a
      -- well-formed plain object stream; a parser that carried on after a decoder error would accept them)
      emit s!"rej filter {maxd} 0 {predefStr pre} {hexOfBytes dictF} {hexOfBytes data} ="
    -- the same stream through a filter chain of the C06 generator (+ predictor layers); the model runs the
    -- loader's decoders, the harness the real ones; then one layer corrupted, one encoded byte altered
    let (ck, r21) := r.nat 3
    r := r21
    if ck == 0 then
      chainIdx := chainIdx + 1
      let (ts, r22) := rndTemplates r chainIdx
      let (shapeSel, r23) := r22.nat 6
      let (jk, r24) := r23.nat 3
      let (eol, r25) := r24.nat 4
      r := r25
      let junk : Bytes := match jk with | 0 => [] | 1 => bs "JUNK" | _ => bs "<</N 1>>stream\n"
      let (enc, ls) := encodeChain 0 0 0 ts 1 data
      let (dictC, r26) := dictFor r nobj first (filterText ls shapeSel)
      r := r26
      let viewC := junk ++ enc ++ C06.eolBytes eol
      emit s!"rt chain{ls.length} {maxd} {junk.length} {predefStr pre} {hexOfBytes dictC} {hexOfBytes viewC} {hexOfBytes data} => {memberWant b ps pre junk.length}"
      -- one layer too many announced: the well-formed plain stream hex-encoded under [/ASCIIHexDecode /FlateDecode] - the
      -- second layer fails on data that ARE a plain object stream (every eighth chain case)
      if chainIdx % 8 == 0 then
        let (dictX, r26x) := dictFor r nobj first " /Filter [/ASCIIHexDecode /FlateDecode]"
        r := r26x
        emit s!"rej filter {maxd} 0 {predefStr pre} {hexOfBytes dictX} {hexOfBytes (FiltersSpec.encodeHexDigits (fun _ => true) 0 data ++ [0x3E])} ="
      let (what, r27) := r.nat 4
      let (lay, r28) := r27.nat ls.length
      let (arg, r29) := r28.nat 100000
      let (opSel, r30) := r29.nat 5
      r := r30
      if what == 0 then
        let kind := (ls[lay]?.map (·.base.kind)).getD 'F'
        let op := if kind == 'H' then 1 + opSel % 3 else 1 + opSel
        let (encBad, _) := encodeChain (lay + 1) op arg ts 1 data
        if encBad != enc then
          emit s!"rej filter {maxd} {junk.length} {predefStr pre} {hexOfBytes dictC} {hexOfBytes (junk ++ encBad ++ C06.eolBytes eol)} ="
      else if what == 1 then
        let (nb, r31) := r.byte
        r := r31
        let k := arg % enc.length
        let encMut := if opSel == 0 then enc.take k else setNth enc k nb
        -- (on a view: behind a truncated layer lies its rest)
        emitC (if opSel == 0 then some (enc.drop k ++ C06.eolBytes eol) else none)
          s!"mut filt {maxd} {junk.length} {predefStr pre} {hexOfBytes dictC} {hexOfBytes (junk ++ encMut)} ="
    -- the same stream through ONE FlateDecode layer with a predictor, enumerated systematically: predictor
    -- 2, 10..14 x {single-column image, rows of several pixels, one row} x geometry choice x the writer's
    -- omission choice {all default-valued entries left out, /Columns left out, all written, a random mask};
    -- every fourth one again with the left-out entries written as non-integer objects (kind mut)
    let (pk2, r32) := r.nat 3
    r := r32
    if pk2 == 0 then
      predIdx := predIdx + 1
      let pr := ([2, 10, 11, 12, 13, 14] : List Nat)[predIdx % 6]?.getD 12
      let wsel := ([1, 4, 2, 1, 0, 3] : List Nat)[predIdx / 6 % 6]?.getD 1
      let g := predIdx / 36 + predIdx % 7
      let (rm, r33) := r.nat 16
      let (mode, r34) := r33.nat 4
      let (jk, r35) := r34.nat 3
      r := r35
      let mask := match predIdx / 6 % 4 with | 0 => 15 | 1 => 4 | 2 => 0 | _ => rm
      let junk : Bytes := match jk with | 0 => [] | 1 => bs "JUNK" | _ => bs "<</N 1>>stream\n"
      let t : FTemplate := ⟨⟨'F', mode, predIdx % 50, 0, 0⟩, some (pr, g, wsel), mask⟩
      let (enc, ls) := encodeChain 0 0 0 [t] 1 data
      let (dictP, r36) := dictFor r nobj first (filterText ls predIdx)
      r := r36
      emit s!"rt chain1 {maxd} {junk.length} {predefStr pre} {hexOfBytes dictP} {hexOfBytes (junk ++ enc)} {hexOfBytes data} => {memberWant b ps pre junk.length}"
      if predIdx % 4 == 0 then
        let tj : FTemplate := { t with parmStyle := (if mask % 16 == 0 then 15 else mask) + 16 * (1 + predIdx / 4 % 7) }
        let (encJ, lsJ) := encodeChain 0 0 0 [tj] 1 data
        let (dictJ, r37) := dictFor r nobj first (filterText lsJ predIdx)
        r := r37
        emit s!"mut parm {maxd} {junk.length} {predefStr pre} {hexOfBytes dictJ} {hexOfBytes (junk ++ encJ)} ="
    -- single-rule corruptions
    let (mk, r16) := r.nat 13
    let (pos, r17) := r16.nat nobj
    let (x, r18) := r17.nat 1000
    r := r18
    let line (kind cls : String) (maxd : Nat) (pre : List ObjId) (dict data : Bytes) (want : String) : String :=
      s!"{kind} {cls} {maxd} 0 {predefStr pre} {hexOfBytes dict} {hexOfBytes data} =" ++ (if want.isEmpty then "" else " => " ++ want)
    let rehdr (ps' : List (Nat × Nat)) : Bytes := encodeHeader (mkHeader ps' ws) ++ pad
    let withHdr (ps' : List (Nat × Nat)) (n' : Nat) : Bytes × Bytes :=
      let h := rehdr ps'
      (bs s!"<</Type /ObjStm /N {n'} /First {h.length}>>", h ++ content)
    let ends := (List.zip es ps).map fun (e, p) => p.2 + e.body.length
    match mk with
    | 0 =>
      -- non-increasing offsets: offset pos+1 := something ≤ offset pos
      if pos + 1 < nobj then
        let o := (ps[pos]?.map (·.2)).getD 0
        let o' := if x % 2 == 0 then o else o - (x % (o + 1))
        let ps' := setNth ps (pos + 1) ((ps[pos + 1]?.map (·.1)).getD 0, o')
        let (d, dat) := withHdr ps' nobj
        emit (line "rej" "order" maxd pre d dat "")
    | 1 =>
      -- fewer than /N pairs (the padding of this class holds no number)
      let h := encodeHeader (mkHeader ps ws) ++ (if x % 2 == 0 then [32] else bs "\n x ")
      let d := bs s!"<</Type /ObjStm /N {nobj + 1 + x % 3} /First {h.length}>>"
      emit (line "rej" "short" maxd pre d (h ++ content) "")
    | 2 =>
      -- /First at or beyond the end of the data
      let f' := data.length + (if x % 3 == 0 then 0 else if x % 3 == 1 then 1 else x)
      -- (on a view: behind the window lies the content once more, where /First points to)
      emitC (some (List.replicate (f' - data.length) 32 ++ content))
        (line "rej" "first" maxd pre (bs s!"<</Type /ObjStm /N {nobj} /First {f'}>>") data "")
    | 3 =>
      -- object data runs past the next declared offset
      if pos + 1 < nobj then
        let o := (ps[pos]?.map (·.2)).getD 0
        let lead := b.leads[pos]?.getD 0
        let e := ends[pos]?.getD 0
        if o + lead + 1 < e then
          let o' := o + lead + 1 + x % (e - (o + lead + 1))
          let ps' := setNth ps (pos + 1) ((ps[pos + 1]?.map (·.1)).getD 0, o')
          let (d, dat) := withHdr ps' nobj
          emit (line "rej" "overrun" maxd pre d dat "")
    | 4 =>
      -- identifier already defined in the context
      let id := (es[pos]?.map (·.id)).getD 1
      emit (line "rej" "defined" maxd (pre ++ [(id, 0)]) dict data "")
    | 5 =>
      -- identifier repeated inside the stream
      if pos + 1 < nobj then
        let ps' := setNth ps (pos + 1) ((ps[pos]?.map (·.1)).getD 0, (ps[pos + 1]?.map (·.2)).getD 0)
        let (d, dat) := withHdr ps' nobj
        emit (line "rej" "repeated" maxd pre d dat "")
    | 6 =>
      -- dictionary checks
      let ds : List String := [s!"<</N {nobj} /First {first}>>", s!"<</Type /XRef /N {nobj} /First {first}>>",
        s!"<</Type /ObjStm /First {first}>>", s!"<</Type /ObjStm /N {nobj}>>", s!"<</Type /ObjStm /N -{nobj} /First {first}>>",
        s!"<</Type /ObjStm /N {nobj}.0 /First {first}>>", s!"<</Type /ObjStm /N {nobj} /First -1>>",
        s!"<</Type (ObjStm) /N {nobj} /First {first}>>", s!"<</Type /ObjStm /N 0 /First {first}>>",
        s!"<</Type /ObjStm /N {nobj} /First {first} /Filter /NoSuchDecode>>",
        s!"<</Type /ObjStm /N {nobj} /First {first} /Filter [/FlateDecode] /DecodeParms [1]>>",
        s!"<</Type /ObjStm /N {nobj} /First {first} /Filter [/FlateDecode] /DecodeParms [null null]>>",
        s!"<</Type /ObjStm /N {nobj} /First {first} /Filter [7]>>",
        s!"<</Type /ObjStm /N {nobj} /First {first} /Filter /FlateDecode /DecodeParms []>>"]
      emit (line "rej" "dict" maxd pre (bs (ds[x % ds.length]?.getD "<<>>")) data "")
    | 7 =>
      -- an offset beyond the content, huge header numbers
      let big : List Nat := [content.length + 1, content.length + 1 + x, 4294967296, 9223372036854775807, 9223372036854775808,
        18446744073709551615, 18446744073709551616, 10 ^ 30]
      let v := big[x % big.length]?.getD 0
      let ps' := setNth ps (nobj - 1) ((ps[nobj - 1]?.map (·.1)).getD 0, v)
      let (d, dat) := withHdr ps' nobj
      -- (on a view: behind the window an integer can be read at every position up to 1000 bytes beyond it)
      emitC (some ((List.range 1040).map fun i => if i % 2 == 0 then 32 else 55))
        (line "rej" "beyond" maxd pre d dat "")
    | 8 =>
      -- identifier corrupted to another fresh one: same members under the new identifier
      let newId := 700000 + x
      let es' := setNth es pos { (es[pos]?.getD ⟨0, [], []⟩) with id := newId }
      let b' := { b with entries := es' }
      let (c', ps') := layoutContent es' 0
      let h := rehdr ps'
      let d := bs s!"<</Type /ObjStm /N {nobj} /First {h.length}>>"
      emit (line "rt" "idmut" maxd pre d (h ++ c' ++ trail) (memberWant b' ps' pre 0))
    | 9 =>
      -- nesting bound too small for the deepest member
      if b.maxd ≥ 2 then emit (line "rej" "depth" (b.maxd - 1) pre dict data "")
    | 10 =>
      -- truncation / one byte altered: correspondence and no panic
      let (p, r19) := r.nat (data.length + 1)
      let (nb, r20) := r19.pick ([32, 48, 57, 45, 43, 37, 40, 60, 91, 82, 120, 0] : List UInt8)
      r := r20
      let dat := if x % 2 == 0 then data.take p else setNth data p nb
      -- (on a view: behind a truncated stream lies its rest)
      emitC (if x % 2 == 0 then some (data.drop p) else none) (line "mut" "bytes" maxd pre dict dat "")
    | 11 =>
      -- a negative header number (`is_usize` guards `usize_val().unwrap()`); `-0` is zero and legal
      let hs := mkHeader ps ws
      match hs[pos]? with
      | some e =>
        let onId := x % 2 == 0
        if (if onId then e.id else e.ofs) != 0 then
          let mid := if onId then e.pre ++ [45] ++ natDigits e.id ++ e.mid ++ natDigits e.ofs
                     else e.pre ++ natDigits e.id ++ e.mid ++ [45] ++ natDigits e.ofs
          let h := encodeHeader (hs.take pos) ++ mid ++ encodeHeader (hs.drop (pos + 1)) ++ pad
          emit (line "rej" "negative" maxd pre (bs s!"<</Type /ObjStm /N {nobj} /First {h.length}>>") (h ++ content) "")
      | none => pure ()
    | _ =>
      -- one header number replaced by an arbitrary one: correspondence and no panic
      let v := if x % 4 == 0 then x else if x % 4 == 1 then content.length - x % (content.length + 1) else x % 7
      let ps' := if x % 2 == 0 then setNth ps pos ((ps[pos]?.map (·.1)).getD 0, v) else setNth ps pos (v, (ps[pos]?.map (·.2)).getD 0)
      let (d, dat) := withHdr ps' nobj
      emit (line "mut" "hdr" maxd pre d dat "")
  -- boundary values of /N, /First, identifiers, offsets; zlib headers (last: on a tree that aborts on them the harness is
  -- restarted behind each such case)
  genBnd seed tier emit

/-- non-trivial: at least two members, or a corruption/flate/filter-chain/minimal-layout case; exhaustive cases count when both
    offsets lie inside the content -/
def nontrivialPlain (line : String) : Bool :=
  match parseCase line with
  | none => false
  | some c =>
    match c.kind with
    | "rt" => (c.want.splitOn "] [").length ≥ 2 || c.cls == "flate" || c.cls.startsWith "chain" || c.cls.startsWith "tight" ||
              c.cls.startsWith "bnd" || c.cls.startsWith "zhdr"
    | "ex" => match exParts c with | some (ct, a, b) => a < ct.length && b < ct.length && a != b | none => false
    | _ => c.view.length ≥ 12 || c.cls.startsWith "bnd" || c.cls.startsWith "zhdr"

/-- a case on a view is non-trivial when the case is and the window is a proper part of the allocation -/
def nontrivial (line : String) : Bool :=
  match ViewTwin.splitVw line with
  | some (_, pre, suf, rest) => (pre != "-" || suf != "-") && nontrivialPlain rest
  | none => nontrivialPlain line

def driver : PropDriver := { gen, model, judge, nontrivial }
end Driver.C14
