import Driver.Common
import Driver.ObjFmt
import Parsley.Model.Obj
import Parsley.Model.Bin
import Parsley.Model.CombP
import Driver.C15File
namespace Driver.C15
open Parsley Parsley.Prim Parsley.Obj Parsley.CombP Driver

/-- result of running one named parser: canonical value string, span, cursor -/
abbrev Out := Res (Located String) × Nat

def conv {α : Type} (f : α → String) (r : Res (Located α) × Nat) : Out :=
  match r with
  | (.ok v, c) => (.ok ⟨f v.val, v.start, v.stop⟩, c)
  | (.err k, c) => (.err k, c)
  | (.panic p, c) => (.panic p, c)

/-- canonical text of a combinator value: the nested located values with their spans RELATIVE to the
    start of the outer value (so a faithful re-parse of the span prints the same text) -/
class Rel (α : Type) where
  rel : Nat → α → String

instance : Rel UInt8 := ⟨fun _ v => toString v.toNat⟩
instance : Rel UInt16 := ⟨fun _ v => toString v.toNat⟩
instance : Rel Int := ⟨fun _ v => toString v⟩
instance : Rel Unit := ⟨fun _ _ => "u"⟩
instance : Rel Bool := ⟨fun _ v => if v then "true" else "false"⟩
instance {α : Type} [Rel α] : Rel (Located α) :=
  ⟨fun b v => s!"{Rel.rel b v.val}@{(v.start : Int) - b}-{(v.stop : Int) - b}"⟩
instance {α β : Type} [Rel α] [Rel β] : Rel (α × β) := ⟨fun b v => s!"({Rel.rel b v.1},{Rel.rel b v.2})"⟩
instance {α β : Type} [Rel α] [Rel β] : Rel (Alt α β) :=
  ⟨fun b v => match v with | .left x => s!"L{Rel.rel b x}" | .right y => s!"R{Rel.rel b y}"⟩
instance {α : Type} [Rel α] : Rel (List α) := ⟨fun b l => "[" ++ ";".intercalate (l.map (Rel.rel b)) ++ "]"⟩

def convRel {α : Type} [Rel α] (r : Res (Located α) × Nat) : Out :=
  match r with
  | (.ok v, c) => (.ok ⟨Rel.rel v.start v.val, v.start, v.stop⟩, c)
  | (.err k, c) => (.err k, c)
  | (.panic p, c) => (.panic p, c)

/-- `AsciiChar::new_guarded(|c| *c == 'A')`, `… == 'B'`, `AsciiChar::new()` -/
def cA : P UInt8 := chrP (some (· == 65))
def cB : P UInt8 := chrP (some (· == 66))
def cAny : P UInt8 := chrP none

instance : Rel Obj := ⟨fun _ o => objSexp o⟩

/-- `parse_pdf_obj` with a fresh context of depth bound 3 as a component parser: a hand-written parser
    of the crate that does NOT put the cursor back when it fails (and whose span starts after the
    leading whitespace) - it makes the restores done by the combinators themselves observable -/
def objP : P Obj := fun s i => (parseObj ⟨0, 3⟩ s i).1

/-- `BinaryMatcher` over `ParseBuffer::exact` -/
def matchP (tag : Bytes) : P Bool := fun s i =>
  match exact tag s i with
  | (true, j) => (.ok ⟨true, i, j⟩, j)
  | (false, _) => (.err .guard, i)

def mAB : P Bool := matchP [65, 66]
def mBA : P Bool := matchP [66, 65]

/-- the composites of `prim_combinators.rs::test_combined` / `test_not` (generic model Model/CombP.lean),
    two mixed ones over binary and token parsers, and two look-ahead ones (`lk…`) -/
def runCmb (name : String) (s : Bytes) (i : Nat) : Option Out :=
  match name with
  | "seqAB" => some (convRel (seqP cA cB s i))
  | "altAB" => some (convRel (altP cA cB s i))
  | "starA" => some (convRel (starP cA s i))
  | "starAny" => some (convRel (starP cAny s i))
  | "notAltAB" => some (convRel (notP (altP cA cB) s i))
  | "starSeqAB" => some (convRel (starP (seqP cA cB) s i))
  | "starAltAB" => some (convRel (starP (altP cA cB) s i))
  | "seqStarAStarB" => some (convRel (seqP (starP cA) (starP cB) s i))
  | "altStarAStarB" => some (convRel (altP (starP cA) (starP cB) s i))
  | "altSeqABSeqBA" => some (convRel (altP (seqP cA cB) (seqP cB cA) s i))
  | "seqAltABAltBA" => some (convRel (seqP (altP cA cB) (altP cB cA) s i))
  | "starU16Bv2" => some (convRel (starP (seqP (Bin.uint16P .big) (Bin.byteVecP 2)) s i))
  | "seqIntWsn1" => some (convRel (seqP integerP (wsNoEOL true) s i))
  | "lkAltObjAny" => some (convRel (altP objP cAny s i))
  | "seqObjA" => some (convRel (seqP objP cA s i))
  | "seqAObj" => some (convRel (seqP cA objP s i))
  | "notObj" => some (convRel (notP objP s i))
  | "starObj" => some (convRel (starP objP s i))
  | "lkNotNotB" => some (convRel (notP (notP cB) s i))
  | "lkAltSeqANotBA" => some (convRel (altP (seqP cA (notP cB)) cA s i))
  -- composites over the tag matcher and the keyword parsers (all built on `ParseBuffer::exact`)
  | "altMabMba" => some (convRel (altP mAB mBA s i))
  | "seqMabMba" => some (convRel (seqP mAB mBA s i))
  | "notMab" => some (convRel (notP mAB s i))
  | "starMab" => some (convRel (starP mAB s i))
  | "altBoolNull" => some (convRel (altP boolean null s i))
  | "seqBoolNull" => some (convRel (seqP boolean null s i))
  | "notBool" => some (convRel (notP boolean s i))
  | "starAltBoolNull" => some (convRel (starP (altP boolean null) s i))
  | _ => none

def endian (s : String) : Bin.Endian := if s.endsWith "le" then .little else .big

/-! ### frames: where the implementation runs the parser

  `<parser>`: on `ParseBuffer::new(buf)`.  `@<parser>`: on a restricted view whose window is exactly `buf`, inside a
  larger allocation with fixed surroundings.  `v<a>-<b>[,<a2>-<b2>…]@<parser>`: CUT WINDOW - `buf` is the whole
  underlying storage, the parser runs on `RestrictView(a, b-a)` of it (then on `RestrictView(a2, b2-a2)` of that
  view, …) and `pos` is relative to the innermost window.  The specification sees the bytes of the innermost
  window only (a view is a buffer: C17): model and oracle are applied to `window`. -/

/-- `(frame, bare parser name)`; frame `none` = whole buffer -/
def splitFrame (p0 : String) : Option String × String :=
  match p0.splitOn "@" with
  | [f, p] => (some f, p)
  | _ => (none, p0)

def bare (p0 : String) : String := (splitFrame p0).2

/-- the windows `(start, end)` of a frame, outermost first -/
def parseWins (f : String) : Option (List (Nat × Nat)) :=
  if f.isEmpty then some []
  else if f.startsWith "v" then
    ((f.drop 1).toString.splitOn ",").mapM fun w =>
      match w.splitOn "-" with
      | [a, b] => match a.toNat?, b.toNat? with
        | some a, some b => some (a, b)
        | _, _ => none
      | _ => none
  else none

/-- the bytes of the innermost window -/
def window (s : Bytes) : List (Nat × Nat) → Option Bytes
  | [] => some s
  | (a, b) :: ws => if a ≤ b && b ≤ s.length then window ((s.drop a).take (b - a)) ws else none

/-- the buffer the specification sees in a case -/
def caseBuf (p0 : String) (s : Bytes) : Option Bytes :=
  match (splitFrame p0).1 with
  | none => some s
  | some f => (parseWins f).bind (window s)

/-- is this parser one of the token-level ones (failure must not move the cursor)? -/
def tokenLevel (p0 : String) : Bool := !((bare p0).startsWith "obj:" || C15File.isFile (bare p0))

/-- is the cursor after a failure part of the printed outcome? (`parse_pdf_obj`, `ObjStreamP`, `TextExtractor`: no) -/
def errCursorShown (p0 : String) : Bool := !((bare p0).startsWith "obj:") && C15File.errCursorShown (bare p0)

/-- does the re-parse clause apply?  Scanners return a skip count whose span is the skipped
    text (not a spelling of the value), so the clause is not applicable to them.  Neither is it to the
    two look-ahead composites `cmb:lk…` (positive look-ahead `Not(Not('B'))`, ordered choice whose first
    branch looks ahead): for these the clause is FALSE by the semantics of PEG look-ahead, see
    `Parsley.C15.reparse_fails_for_positive_lookahead`, `alt_reparse_needs_failTrunc`; all other clauses apply. -/
def reparseApplies (p0 : String) : Bool :=
  let p := bare p0
  !(p.startsWith "scan:" || p.startsWith "cmb:lk") && C15File.outerReparse p

/-- `BinaryScanner` over `ParseBuffer::scan` (empty tag: `windows(0)` panics) -/
def scanP (tag : Bytes) : P Nat := fun s i =>
  if tag.isEmpty then (.panic "windows(0)", i)
  else
    let rec go : Nat → Nat → Option Nat
      | 0, _ => none
      | f + 1, k => if startsWith tag s (i + k) && i + k + tag.length ≤ s.length then some k else go f (k + 1)
    match go (s.length + 1 - i) 0 with
    | some k => (.ok ⟨k, i, i + k⟩, i + k)
    | none => (.err .eob, i)

def runParser (p0 : String) (s : Bytes) (i : Nat) : Option Out :=
  let u := fun (_ : Unit) => "unit"
  -- frame prefix: the implementation runs on a restricted view; by C17 the model is the same
  let p := bare p0
  if C15File.isFile p then C15File.runFile p s i else
  match p.splitOn ":" with
  | ["wsn0"] => some (conv u (wsNoEOL false s i))
  | ["wsn1"] => some (conv u (wsNoEOL true s i))
  | ["wse0"] => some (conv u (wsEOL false s i))
  | ["wse1"] => some (conv u (wsEOL true s i))
  | ["comment"] => some (conv hexOfBytes (comment s i))
  | ["bool"] => some (conv (fun b => if b then "true" else "false") (boolean s i))
  | ["null"] => some (conv u (null s i))
  | ["int"] => some (conv (fun (n : Int) => toString n) (integerP s i))
  | ["real"] => some (conv (fun (r : Int × Nat) => s!"{r.1}/{r.2}") (realP s i))
  | ["hex"] => some (conv hexOfBytes (hexString s i))
  | ["lit"] => some (conv hexOfBytes (rawLitString s i))
  | ["name"] => some (conv hexOfBytes (nameP s i))
  | ["op"] => some (conv hexOfBytes (operatorP s i))
  | ["sc", len, eol] =>
    match len.toNat? with
    | some len => some (conv (fun (c : StreamContent) => s!"{c.start} {c.size} {hexOfBytes c.content}")
                          (streamContentP len (eol == "1") s i))
    | none => none
  | ["obj", d] =>
    match d.toNat? with
    | some d => some (conv objSexp (parseObj ⟨0, d⟩ s i).1)
    | none => none
  | ["u8"] => some (conv (fun v => toString v.toNat) (Bin.uint8P s i))
  | ["u16be"] | ["u16le"] => some (conv (fun v => toString v.toNat) (Bin.uint16P (endian p) s i))
  | ["u32be"] | ["u32le"] => some (conv (fun v => toString v.toNat) (Bin.uint32P (endian p) s i))
  | ["u64be"] | ["u64le"] => some (conv (fun v => toString v.toNat) (Bin.uint64P (endian p) s i))
  | ["i8"] => some (conv (fun v => toString v.toInt) (Bin.int8P s i))
  | ["i32be"] | ["i32le"] => some (conv (fun v => toString v.toInt) (Bin.int32P (endian p) s i))
  | ["chr", "A"] => some (convRel (cA s i))
  | ["chr", "any"] => some (convRel (cAny s i))
  | ["cmb", name] => runCmb name s i
  | ["i16be"] | ["i16le"] => some (conv (fun v => toString v.toInt) (Bin.int16P (endian p) s i))
  | ["i64be"] | ["i64le"] => some (conv (fun v => toString v.toInt) (Bin.int64P (endian p) s i))
  | ["bv", n] =>
    match n.toNat? with
    | some n => some (conv hexOfBytes (Bin.byteVecP n s i))
    | none => none
  | ["match", t] => (bytesOfHex t).map fun t => conv (fun b => if b then "true" else "false") (matchP t s i)
  | ["scan", t] => (bytesOfHex t).map fun t => conv (fun (n : Nat) => toString n) (scanP t s i)
  | _ => none

def showOut (p : String) : Out → String
  | (.ok v, c) => s!"ok {v.start} {v.stop} {c} {v.val}"
  | (.err k, c) => if errCursorShown p then s!"err {k} {c}" else s!"err {k}"
  | (.panic st, _) => s!"panic {st}"

/-- case: `<parser> <hexbuf> <pos>`; output: first parse, and on success the re-parse of the span -/
def model (line : String) : String :=
  match words line with
  | [p, hex, pos] =>
    match (bytesOfHex hex).bind (caseBuf p), pos.toNat? with
    | some s, some i =>
      if i > s.length then "bad-case" else
      if C15File.oracleOnly (bare p) then "nomodel" else
      match runParser p s i with
      | none => "bad-case"
      | some r =>
        match r with
        | (.ok v, _) =>
          -- (a reported location that is not a range of the buffer cannot be re-parsed: the harness does not either)
          if !(v.start ≤ v.stop && v.stop ≤ s.length) then showOut p r else
          let span := (s.drop v.start).take (v.stop - v.start)
          match runParser p span 0 with
          | some r2 => showOut p r ++ " | re " ++ showOut p r2
          | none => "bad-case"
        | _ => showOut p r
    | _, _ => "bad-case"
  | _ => "bad-case"

/-- shift the `start` field of a stream-content value (location metadata inside the value) -/
def normVal (p : String) (start : Nat) (val : List String) : List String :=
  if (bare p).startsWith "sc:" then
    match val with
    | st :: rest => toString (st.toNat! - start) :: rest
    | [] => []
  else val

/-! #### the text of a name / operator (oracle side; independent of `Prim.nameDec`, which mirrors the
     `windows(3)` loop): every `#` followed by two hex digits stands for the coded byte, read left to
     right; code 0 is not allowed -/

def hexDigitVal (b : UInt8) : Option Nat :=
  let n := b.toNat
  if 48 ≤ n && n ≤ 57 then some (n - 48)
  else if 97 ≤ n && n ≤ 102 then some (n - 87)
  else if 65 ≤ n && n ≤ 70 then some (n - 55)
  else none

def codeDecode : Nat → Bytes → Option Bytes
  | 0, _ => none
  | _ + 1, [] => some []
  | f + 1, a :: t =>
    match a == 35, t with
    | true, b :: c :: t' =>
      match hexDigitVal b, hexDigitVal c with
      | some h, some l => if 16 * h + l == 0 then none else (codeDecode f t').map (UInt8.ofNat (16 * h + l) :: ·)
      | _, _ => (codeDecode f t).map (a :: ·)
    | _, _ => (codeDecode f t).map (a :: ·)

/-- the value clause for names and operators: the reported value is the decoding of the reported span
    (`/` excluded for names).  `none` = clause not applicable to this parser. -/
def valueOfSpan (p : String) (s : Bytes) (st en : Nat) (val : List String) : Option Bool :=
  let p := bare p
  let text := (s.drop st).take (en - st)
  let body : Option Bytes :=
    if p == "op" then some text
    else if p == "name" then (match text with | 47 :: t => some t | _ => none)
    else none
  if p == "op" || p == "name" then
    match body with
    | none => some false
    | some b => some ((codeDecode (b.length + 1) b).map hexOfBytes == some (String.join val) && (p == "name" || !b.isEmpty))
  else none

/-- The oracle: the clauses of C15 applied to the implementation's output.  For a cut window the buffer is
    the window (`end ≤ size` means: inside the window; the span is text of the window). -/
def judgeRaw (case impl : String) : String :=
  match words case with
  | [p, hex, pos] =>
    match (bytesOfHex hex).bind (caseBuf p), pos.toNat? with
    | some s, some i =>
      if impl == "nomodel" then "skip" else
      let parts := impl.splitOn " | re "
      match parts with
      | first :: rest =>
        match words first with
        | "ok" :: st :: en :: cu :: val =>
          match st.toNat?, en.toNat?, cu.toNat? with
          | some st, some en, some cu =>
            -- (for the two stream parsers this clause comes after the clauses about the located parts: known finding)
            if cu != en && !(C15File.streamLocFinding (bare p)) then s!"bad cursor-ne-end cursor={cu} end={en}"
            else if !(st ≤ en && en ≤ s.length) then s!"bad span-range {st} {en} size={s.length}"
            else if (tokenLevel p || C15File.startsAtCursor (bare p)) && st != i then s!"bad start-ne-cursor start={st} pos={i}"
            else if !(i ≤ st) then s!"bad start-before-cursor"
            -- the located parts of a composite value lie inside the reported span (object-stream members: inside
            -- the content view, whose coordinates they are in)
            else if C15File.isFile (bare p) && !(C15File.nestedInside val (C15File.partsBound (bare p) s.length st en)) then
              "bad nested-span-outside"
            else if !(C15File.partsOk val) then "bad member-reparse"
            else if bare p == "xsect" && !(C15File.xsectOk val (en - st)) then "bad xref-entries-not-20-byte-tiles"
            else if C15File.tilingApplies (bare p) && !(C15File.tiles val (C15File.partsBound (bare p) s.length st en)) then
              "bad parts-do-not-tile-span"
            else if cu != en then s!"bad cursor-ne-end cursor={cu} end={en}"
            else if valueOfSpan p s st en val == some false then "bad value-not-text-of-span"
            else if !reparseApplies p then "ok"
            else
              match rest with
              | [re] =>
                match words re with
                | "ok" :: st2 :: en2 :: _ :: val2 =>
                  if st2 != "0" then s!"bad reparse-start {st2}"
                  else if en2.toNat? != some (en - st) then s!"bad reparse-partial consumed={en2} span={en - st}"
                  else if normVal p st val != normVal p 0 val2 then "bad reparse-value-differs"
                  else "ok"
                | _ => s!"bad reparse-fails {re}"
              | _ => "bad no-reparse-output"
          | _, _, _ => "bad malformed-output"
        | ["err", _, cu] =>
          if tokenLevel p && cu.toNat? != some i then s!"bad failure-moved-cursor cursor={cu} pos={i}" else "ok"
        | ["err", _] => "ok"
        | "panic" :: _ => "bad panic"
        | t :: _ => if t.startsWith "crash" then "bad crash" else "bad malformed-output"
        | [] => "bad malformed-output"
      | [] => "bad malformed-output"
    | _, _ => "skip"
  | _ => "skip"

/-- the clauses of the outer location that the known finding C15-stream-parser-location is about -/
def outerLocClass (p cls : String) : Bool :=
  cls == "cursor-ne-end" || cls.startsWith "reparse-" || cls == "no-reparse-output" ||
  (p.startsWith "xsh:" && cls == "span-range")     -- start (encoded buffer) may lie beyond end (decoded buffer)

/-- The oracle.  For the two stream parsers a violation of the outer-location clauses is the known finding
    (class `stream-location-not-a-span`); all other classes are passed through. -/
def judge (case impl : String) : String :=
  let v := judgeRaw case impl
  match words case, words v with
  | p :: _, "bad" :: cls :: rest =>
    if C15File.streamLocFinding (bare p) && outerLocClass (bare p) cls then
      "bad stream-location-not-a-span " ++ " ".intercalate (cls :: rest)
    else v
  | _, _ => v

/-! ### generators -/

def alphabet : List UInt8 :=
  [32, 10, 13, 0, 37, 40, 41, 60, 62, 91, 93, 47, 35, 92, 43, 45, 46, 48, 49, 57,
   97, 102, 65, 82, 116, 110, 101, 0x80, 0xFF, 122]

def parsers : List String :=
  ["wsn0", "wsn1", "wse0", "wse1", "comment", "bool", "null", "int", "real", "hex", "lit", "name",
   "op", "sc:0:0", "sc:1:1", "sc:2:0", "obj:3", "obj:1", "u8", "u16be", "u32le", "i64be", "bv:2",
   "match:2525", "scan:25", "scan:3e3e",
   -- combinators over a component that does not restore the cursor itself
   "cmb:lkAltObjAny", "cmb:seqObjA", "cmb:seqAObj", "cmb:notObj", "cmb:starObj"]

/-- every binary parser (all widths, byte orders, signedness) and the byte vector -/
def binParsers : List String :=
  ["u8", "u16be", "u16le", "u32be", "u32le", "u64be", "u64le", "i8", "i16be", "i16le", "i32be", "i32le",
   "i64be", "i64le", "bv:0", "bv:1", "bv:3"]

/-- `AsciiChar` and the combinator composites -/
def cmbParsers : List String :=
  ["chr:A", "chr:any", "cmb:seqAB", "cmb:altAB", "cmb:starA", "cmb:starAny", "cmb:notAltAB", "cmb:starSeqAB",
   "cmb:starAltAB", "cmb:seqStarAStarB", "cmb:altStarAStarB", "cmb:altSeqABSeqBA", "cmb:seqAltABAltBA",
   "cmb:starU16Bv2", "cmb:seqIntWsn1", "cmb:lkNotNotB", "cmb:lkAltSeqANotBA"]

/-- alphabet of the combinator cases: the two guarded letters, another letter, a non-ASCII byte,
    a digit and a blank -/
def cmbAlphabet : List UInt8 := [65, 66, 67, 0x80, 49, 32]

def allStringsOver (al : List UInt8) : Nat → List Bytes
  | 0 => [[]]
  | n + 1 => (allStringsOver al n).flatMap fun t => al.map fun a => a :: t

def tokens : List String :=
  ["true", "false", "null", "stream\n", "stream\r\n", "endstream", "endobj", "obj", "12", "-3", "+.5", "0.",
   ".", "007", "9223372036854775807", "9223372036854775808", "170141183460469231731687303715884105727",
   "/Na#41me", "/A#00", "/#4", "/", "(a(b)\\)c)", "(\\\\)", "(", "<4a 4>", "<4g>", "<", "<<", ">>", "[", "]",
   "%c\n", "%", "1 0 R", "1 0 RG", " ", "\r\n", "\r", "\n", "#00", "#", "\\", "R", "x", "\x00", "%%", "%%EOF",
   "<</A 1/B[2 3]>>", "[1 2 R]", "<</A null>>", "<</A 1/A 2>>"]

def bytesOfString (s : String) : Bytes := s.toUTF8.toList

/-- enumerate all strings of length `n` over `alphabet` -/
def allStrings : Nat → List Bytes
  | 0 => [[]]
  | n + 1 => (allStrings n).flatMap fun t => alphabet.map fun a => a :: t

def emitAll (emit : String → IO Unit) (s : Bytes) (ps : List String) : IO Unit := do
  for p in ps do
    for i in List.range (s.length + 1) do
      emit s!"{p} {hexOfBytes s} {i}"

/-! ### number tokens at the overflow exits of `IntegerP` / `RealP`

  Both parsers read the whole digit run first and only then accumulate it with `checked_mul(num, 10)` /
  `checked_add(num, digit)` (RealP: integer part, then for every fraction digit numerator MUL, numerator ADD,
  denominator MUL) - seven "numerical overflow" exits in all, each with the cursor far away from where the
  parser started.  They are reached only by tokens of 19+ (i64) / 39+ (i128) digits, which no enumeration of
  small buffers contains.  The family is built from the limits themselves, not from literal inputs:
  magnitudes around a limit `L` (last digit decides the ADD, the digit before the MUL), every split of
  the digit string into integer and fraction part, fractions of 36..40 digits after a small numerator
  (denominator exit), signs, leading zeros, followers, cursor inside the token. -/

def digitsOf (n : Nat) : Bytes := (toString n).toUTF8.toList

/-- magnitudes around the limit `L` of a checked accumulation -/
def edgeMags (L : Nat) : List Nat :=
  let q := L / 10
  let nd := (digitsOf L).length
  [L - 1, L, L + 1, L + 2, L + 10, 2 * L + 1, 2 * L + 2, L * 10, L * 10 + 7, L * 100 + 1] ++
  (List.range 10).map (q * 10 + ·) ++                   -- same prefix as L: the last digit decides (checked_add)
  ([0, 5, 9] : List Nat).map ((q + 1) * 10 + ·) ++       -- as long as L: checked_mul overflows at the last digit
  ([0, 1, 2] : List Nat).map (fun k => 10 ^ (nd - 1 + k)) ++
  [q, q + 1, L / 100]                                    -- one / two digits shorter: fits, room for fraction digits

def splitPoints (n : Nat) (full : Bool) : List Nat :=
  if full then List.range (n + 1) else ([0, 1, 2, n / 2, n - 2, n - 1, n].filter (· ≤ n)).eraseDups

/-- unsigned number tokens (digit runs with at most one point) -/
def numTokens (full : Bool) : List Bytes := Id.run do
  let mut out : List Bytes := []
  let mut k := 0
  for L in [2 ^ 63 - 1, 2 ^ 127 - 1] do
    for m in edgeMags L do
      k := k + 1
      for z in [k % 3] do
        let t := List.replicate z 48 ++ digitsOf m
        out := t :: out
        for p in splitPoints t.length full do
          out := (t.take p ++ [46] ++ t.drop p) :: out
  -- the unsigned limits (a parser accumulating in u64 / u128 would stop here)
  for L in [2 ^ 64 - 1, 2 ^ 128 - 1] do
    for m in [L - 1, L, L + 1, L * 10] do
      let t := digitsOf m
      out := t :: (t.take 1 ++ [46] ++ t.drop 1) :: (t ++ [46]) :: out
  -- denominator: 10^38 fits an i128, 10^39 does not, whatever the numerator
  for ds in [[], [48], [55], [49, 55]] do
    for z in [17, 18, 19, 36, 37, 38, 39, 40] do
      for tail in [[], [49], [57, 57]] do
        out := (ds ++ [46] ++ List.replicate z 48 ++ tail) :: out
  return out.reverse

def numParsers (full : Bool) : List String :=
  if full then ["int", "real", "obj:3", "@int", "@real", "@obj:3", "cmb:seqIntWsn1", "cmb:notObj", "cmb:starObj",
                "cmb:lkAltObjAny", "cmb:seqAObj"]
  else ["int", "real", "obj:3", "@int", "@real", "cmb:seqIntWsn1"]

def numFollowers : List Bytes := [[], [32], [120], [46], [47], [101, 53], [45], [13, 10]]
def numLeads : List Bytes := [[], [32], [40], [57], [37, 10]]

/-- one number token under every parser of `numParsers`: after a lead, before a follower, cursor at the
    token, one byte into it (sign or first digit skipped) and - thorough - two and half a token into it -/
def emitNum (emit : String → IO Unit) (full : Bool) (k : Nat) (tok : Bytes) : IO Unit := do
  let signs : List Bytes := [[], [43], [45]]
  for sg in signs do
    let leads := [numLeads[k % numLeads.length]?.getD []] ++ (if full then [numLeads[(k / 5 + 1) % numLeads.length]?.getD []] else [])
    let fols := [numFollowers[k % numFollowers.length]?.getD [], numFollowers[(k / 3 + 3) % numFollowers.length]?.getD []] ++
                (if full then [numFollowers[(k / 7 + 5) % numFollowers.length]?.getD []] else [])
    for lead in leads.eraseDups do
      for fol in fols.eraseDups do
        let s := lead ++ sg ++ tok ++ fol
        let inside := if full then [lead.length + 2, lead.length + tok.length / 2] else []
        for i in ([lead.length, lead.length + 1] ++ inside).eraseDups do
          if i ≤ s.length then
            for p in numParsers full do
              emit s!"{p} {hexOfBytes s} {i}"

/-- a random number token: lengths of the two digit runs drawn around the 19 / 39 digit boundaries -/
def rndNumTok (r : Rng) : Bytes × Rng :=
  let digits (len : Nat) (r : Rng) : Bytes × Rng :=
    (List.range len).foldl (fun (acc : Bytes × Rng) j =>
      let (d, r') := if j + 1 == len then acc.2.pick ([49, 49, 49, 50, 57, 48] : List UInt8)   -- leading digit (built back to front)
                     else let (v, r'') := acc.2.nat 10; (UInt8.ofNat (48 + v), r'')
      (d :: acc.1, r')) ([], r)
  let (il, r) := r.pick ([0, 1, 2, 18, 19, 20, 37, 38, 39, 40, 41] : List Nat)
  let (fl, r) := r.pick ([none, some 0, some 1, some 2, some 19, some 37, some 38, some 39, some 40] : List (Option Nat))
  let (ds, r) := digits il r
  match fl with
  | none => (ds, r)
  | some fl => let (fs, r) := digits fl r; (ds ++ [46] ++ fs, r)

/-! ### `#xx` codes in operator and name tokens

  `OperatorP` and `NameP` normalise `#` + two hex digits with a hand-written loop over `windows(3)` that
  skips two windows after a code and treats 0, 1 and 2 trailing bytes separately; tokens shorter than three
  bytes bypass it.  The family puts codes at every position relative to the token end: all sequences of
  up to 3 (thorough: 4) pieces (plain bytes incl. a lone `#`, a hex digit and a non-hex letter, a raw lead
  byte of a 2-byte UTF-8 character; codes in both hex cases, `#00`, a code decoding to `#`, codes decoding
  to non-UTF-8 / to a UTF-8 continuation byte), one code after 0..5 and before 0..5 plain bytes, two codes
  separated by 0..3 plain bytes. -/

def hexPieces : List Bytes :=
  [[97], [103], [52], [49], [35], [0xC3],
   [35, 52, 49], [35, 52, 65], [35, 52, 97], [35, 48, 48], [35, 101, 57], [35, 97, 57], [35, 50, 51]]

def seqsOver (ps : List Bytes) : Nat → List Bytes
  | 0 => [[]]
  | n + 1 => (seqsOver ps n).flatMap fun t => ps.map (· ++ t)

def plainRun (k : Nat) : Bytes := ([98, 120, 100, 121, 102, 122, 99, 119, 101, 118] : Bytes).take k

/-- every code `#hh` (all 256 values; hex digits in lower and upper case): alone, after a plain byte, before a plain byte -
    a sweep over the VALUE of the code (a decoder that special-cases a digit, e.g. tests the high or low nibble for zero
    instead of the whole byte, is only visible on codes such as #0A, #20, #A0) -/
def allCodes : List Bytes :=
  let hexLo : Nat → UInt8 := fun d => if d < 10 then (48 + d).toUInt8 else (87 + d).toUInt8
  let hexUp : Nat → UInt8 := fun d => if d < 10 then (48 + d).toUInt8 else (55 + d).toUInt8
  (List.range 256).flatMap fun n =>
    let c : Bytes := [35, hexLo (n / 16), hexLo (n % 16)]
    let C : Bytes := [35, hexUp (n / 16), hexUp (n % 16)]
    [c, [97] ++ c, c ++ [98], C]

def codeTokens (full : Bool) : List Bytes :=
  let codes : List Bytes := [[35, 52, 49], [35, 52, 97], [35, 48, 48], [35, 101, 57], [35, 55, 69]]
  let lens := if full then [1, 2, 3, 4] else [1, 2, 3]
  allCodes ++ lens.flatMap (seqsOver hexPieces) ++
  (codes.flatMap fun c => (List.range 6).flatMap fun i => (List.range 6).map fun j => plainRun i ++ c ++ plainRun j) ++
  (([[35, 52, 49], [35, 67, 51], [35, 97, 57]] : List Bytes).flatMap fun c1 =>
    ([[35, 52, 49], [35, 97, 57], [35, 48, 48]] : List Bytes).flatMap fun c2 =>
      (List.range 4).flatMap fun i => (List.range 4).flatMap fun j => (List.range 4).map fun l =>
        plainRun i ++ c1 ++ (plainRun (i + j)).drop i ++ c2 ++ (plainRun (i + j + l)).drop (i + j))

def codeTerms : List Bytes := [[], [32], [47], [40], [13, 10], [62]]

def emitCode (emit : String → IO Unit) (full : Bool) (k : Nat) (tok : Bytes) : IO Unit := do
  let terms := [codeTerms[k % codeTerms.length]?.getD [], codeTerms[(k / 6 + 1) % codeTerms.length]?.getD []] ++
               (if full then [codeTerms[(k / 36 + 2) % codeTerms.length]?.getD []] else [])
  for t in terms.eraseDups do
    let s := tok ++ t
    emit s!"op {hexOfBytes s} 0"
    emit s!"@op {hexOfBytes s} 0"
    emit s!"op {hexOfBytes ([32] ++ s)} 1"
    emit s!"name {hexOfBytes ([47] ++ s)} 0"
    emit s!"obj:3 {hexOfBytes ([47] ++ s)} 0"
    if full then
      emit s!"@name {hexOfBytes ([47] ++ s)} 0"
      emit s!"name {hexOfBytes ([91, 47] ++ s)} 1"
      -- cursor inside the token: a code cut in two
      if 1 ≤ s.length then emit s!"op {hexOfBytes s} 1"
      if 2 ≤ s.length then emit s!"op {hexOfBytes s} 2"

/-! ### cut windows

  A restricted view shares the storage of its parent: the bytes behind the view's end are still there, and a
  primitive that bounds itself by the storage instead of the view reads them.  The plain `@` frame cannot see
  that (its surroundings never complete a token).  The family: a storage `S` on which something parses at the
  cursor `c`, and EVERY window `[a, b)` of it with `a ∈ {0, c}` and `c ≤ b ≤ |S|` - so for a token with span
  `[c, e)` the view ends before it (`b = c`: empty rest), inside it at every byte (`c < b < e`: the completing
  bytes lie just behind the view), exactly at its end (`b = e`), inside and after its look-ahead / EOL /
  closing keyword (`b > e`); the same windows again as views of a wider view (nested).  Expected = the
  specification on the window's bytes alone. -/

/-- composites over the keyword parsers (for PDF token storages) -/
def kwCmbParsers : List String :=
  ["cmb:altBoolNull", "cmb:seqBoolNull", "cmb:notBool", "cmb:starAltBoolNull"]

/-- composites over the tag matcher (for storages over `cmbAlphabet`) -/
def tagCmbParsers : List String :=
  ["match:4142", "match:41", "cmb:altMabMba", "cmb:seqMabMba", "cmb:notMab", "cmb:starMab"]

/-- tag matchers for the keywords / delimiters of pdf_obj.rs and pdf_prim.rs -/
def kwMatchers : List String :=
  ["match:74727565", "match:6e756c6c", "match:3c3c", "match:3e3e", "match:656e6473747265616d", "match:52"]

def cutParsers : List String := parsers ++ kwCmbParsers ++ kwMatchers ++ ["scan:52", "scan:656e64", "bv:3", "u16le", "i32be"]

/-- all windows `[a, b)`, `a ∈ {0, c}`, `c ≤ b ≤ |S|`, of the storage `S` around the cursor `c` (absolute);
    `nested`: also as a view of a view (outer window one byte wider on each side where there is one) -/
def emitCuts (emit : String → IO Unit) (S : Bytes) (c : Nat) (ps : List String) (nested : Bool) : IO Unit := do
  let hx := hexOfBytes S
  for a in [0, c].eraseDups do
    for b in List.range' c (S.length + 1 - c) do
      let a0 := a - 1
      let b0 := min S.length (b + 1)
      for p in ps do
        emit s!"v{a}-{b}@{p} {hx} {c - a}"
        if nested then emit s!"v{a0}-{b0},{a - a0}-{b - a0}@{p} {hx} {c - a}"

/-- every window `[a, b)` with `a ≤ c ≤ b` of `S`, for every cursor; `proper`: only windows that end before
    the end of the storage -/
def emitAllWindows (emit : String → IO Unit) (S : Bytes) (ps : List String) (proper : Bool) : IO Unit := do
  let hx := hexOfBytes S
  let top := if proper then S.length else S.length + 1
  for b in List.range top do
    for c in List.range (b + 1) do
      for a in List.range (c + 1) do
        if !(a == 0 && b == S.length) then
          for p in ps do
            emit s!"v{a}-{b}@{p} {hx} {c - a}"

/-- storages for the cut windows: the token list plus tokens whose END is interesting - the look-ahead after
    an integer (` 0 R`), the EOL of a comment, the `endstream` keyword after stream data, closing delimiters -/
def cutTokens : List String :=
  tokens ++
  ["12 0 R", "1 0 R ", "1 23 R/", "1 0 obj", "[1 0 R]", "[true false null]", "[ true ]", "<</K true>>", "<</K/V>>",
   "<<>>", "[[]]", "[null]", "%c\r\n", "%comment\nx", "%\r", "stream\nendstream", "stream\r\nx\r\nendstream",
   "stream\nab\nendstream", "stream\nabendstream", "stream\r\nab\rendstream ", "(a\\)b)", "(a(b)c)", "<4a4b>",
   "-12.50", "12.5.", "+7", "/Name", "/A#42C", "BT", "T*", "trueR", "nullx", "falsetrue", "truenull", "%%%%", "RR",
   "  \r\n", " \r", "\x00\x01\x02\x03", "\x80\xff\x00\x01\x02\x03\x04\x05"]

def cutLeads : List Bytes := [[], [32], [91], [37, 10], [49, 32]]
def cutFollowers : List Bytes := [[], [32], [93], [10], [116, 114], [82]]

def emitCutToken (emit : String → IO Unit) (full : Bool) (k : Nat) (tok : Bytes) : IO Unit := do
  let leads := if full then cutLeads else [cutLeads[k % cutLeads.length]?.getD []]
  let fols := ((if full then [0, 2, 4] else [0]).map fun d => cutFollowers[(k / 2 + d) % cutFollowers.length]?.getD []).eraseDups
  for lead in leads do
    for fol in fols do
      emitCuts emit (lead ++ tok ++ fol) lead.length cutParsers true

/-- a window chosen with the model's help (generator side only): if the parser succeeds on the storage with
    span `[s, e)`, the view ends inside the span, at its end or one byte after; otherwise anywhere after the cursor -/
def rndCut (p : String) (S : Bytes) (c : Nat) (r : Rng) : (Nat × Nat) × Rng :=
  let (a, r) := r.nat (c + 1)
  match runParser p S c with
  | some (.ok v, _) =>
    let hi := min S.length (v.stop + 1)
    let lo := min hi (max c v.start + 1)
    let (d, r) := r.nat (hi - lo + 1)
    ((a, lo + d), r)
  | _ =>
    let (d, r) := r.nat (S.length - c + 1)
    ((a, c + d), r)

/-! ### byte-class sweeps

  Every token parser decides by a hand-written SET of bytes somewhere: the white space skipped inside a hex string, the
  sets of WhitespaceEOL / WhitespaceNoEOL, the terminator / delimiter sets of names, operators and numbers, the comment
  terminator, the bytes with a meaning after a backslash or as a parenthesis in a literal string, the EOL after `stream`.
  The family puts EVERY byte value 0..255 at each such position, so that each of the 256 values is classified by the real
  code and compared with the model and the oracle (a set written differently - `is_ascii_whitespace()` has no NUL,
  `is_ascii_punctuation()` is not the delimiter set, a forgotten FF - differs on a byte value that no
  alphabet of "typical" symbols contains).  A panic of the real parser is a `panic …` outcome: `bad panic`. -/

/-- `(parsers, prefix, suffix, cursors)`: the swept byte goes between prefix and suffix -/
def sweepSites : List (List String × String × String × List Nat) :=
  [-- inside a hex string: between digits, alone, after an odd digit, before the closing `>`
   (["hex", "obj:3", "cs:3", "@hex"], "<41", "42>", [0]),
   (["hex", "obj:3", "cs:3"], "<", ">", [0]),
   (["hex", "obj:3"], "<4", "1>", [0]),
   (["hex", "obj:3"], "<4142", ">", [0]),
   (["hex", "obj:3"], "<4142", "", [0]),
   -- the single separator between two tokens
   (["int", "real", "obj:3", "cs:3", "cmb:seqIntWsn1", "wsn0", "wsn1", "wse0", "wse1"], "12", "34", [0, 2]),
   (["obj:3", "cs:3"], "[1", "2]", [0]),
   (["obj:3", "name", "cs:3"], "/A", "/B", [0]),
   (["obj:3", "bool", "cmb:seqBoolNull", "cmb:starAltBoolNull"], "true", "null", [0]),
   (["obj:3", "trailer:3"], "<</K", "1>>", [0]),
   (["obj:3"], "1 0", "R", [0]),
   (["obj:3"], "1", "0 R", [0]),
   (["ind:3"], "1 0 obj", "5 endobj", [0]),
   (["ind:3"], "1 0 obj 5", "endobj", [0]),
   (["sxref"], "startxref", "7", [0]),
   (["xsect"], "xref", "0 0\n", [0]),
   -- the byte after a name / operator / number / keyword
   (["name", "obj:3", "cs:3"], "/Name", "x", [0]),
   (["name", "obj:3"], "/Name", "", [0]),
   (["op", "cs:3"], "BT", "x", [0]),
   (["op"], "T", "", [0]),
   (["int", "real", "obj:3", "cs:3"], "12", "", [0]),
   (["int", "real", "obj:3", "cs:3"], "-1.5", "7", [0]),
   (["bool", "null", "obj:3", "cs:3"], "null", "", [0]),
   (["obj:3", "cs:3"], "true", "x", [0]),
   -- the first byte: what every dispatcher (parse_pdf_obj, CSObjP, the token parsers) does with each value
   (["obj:3", "cs:3", "int", "real", "name", "op", "hex", "lit", "comment", "bool", "null", "wse0", "wsn0", "te:3"], "", "1 ", [0]),
   -- literal strings: after a backslash, as a plain byte, after an open parenthesis
   (["lit", "obj:3", "cs:3"], "(a\\", "c)", [0]),
   (["lit", "obj:3"], "(a\\", ")", [0]),
   (["lit", "obj:3"], "(a", "b)", [0]),
   (["lit", "obj:3"], "((", ")", [0]),
   -- comments: the terminator; white space parsers on every byte, alone, after a blank, after CR (the CR LF give-back)
   (["comment", "wse0", "wse1", "obj:3", "fhdr"], "%c", "x", [0]),
   (["comment", "fhdr"], "%", "", [0]),
   (["wsn0", "wsn1", "wse0", "wse1"], "", "", [0]),
   (["wsn0", "wsn1", "wse0", "wse1"], " ", " ", [0, 1]),
   (["wsn0", "wsn1", "wse0", "wse1", "cmb:seqIntWsn1"], "7\r", "\n", [0, 1]),
   (["wsn0", "wsn1", "wse0", "wse1"], "\r", "", [0]),
   -- stream data: the EOL after the keyword, the byte before `endstream`
   (["sc:2:0", "sc:2:1"], "stream", "ab\nendstream", [0]),
   (["sc:2:0", "sc:2:1"], "stream\r", "ab\nendstream", [0]),
   (["sc:2:0", "sc:2:1"], "stream\nab", "endstream", [0]),
   (["ind:3"], "1 0 obj<</Length 1>>stream\n", "\nendstream endobj", [0]),
   -- `#` codes in names / operators: the byte after `#`, the second digit
   (["name", "op", "obj:3"], "/A#", "1", [0]),
   (["name", "op", "obj:3"], "/A#4", "", [0])]

/-- text with `\n`, `\r`, `\\` escapes -/
def unesc (t : String) : Bytes :=
  let rec go : List Char → Bytes
    | '\\' :: 'n' :: r => 10 :: go r
    | '\\' :: 'r' :: r => 13 :: go r
    | '\\' :: '\\' :: r => 92 :: go r
    | c :: r => (String.singleton c).toUTF8.toList ++ go r
    | [] => []
  go t.toList

def emitSweep (emit : String → IO Unit) (full : Bool) : IO Unit := do
  for (ps, pre, suf, cursors) in sweepSites do
    let pre := unesc pre
    let suf := unesc suf
    for b in List.range 256 do
      let s := pre ++ [UInt8.ofNat b] ++ suf
      let hx := hexOfBytes s
      for p in ps do
        for c in cursors do
          emit s!"{p} {hx} {c}"
        if full && !(p.contains '@') then     -- a site that is already framed is not framed twice (the harness has no `@@`)
          emit s!"@{p} {hx} 0"
          -- the view ends right after the swept byte; the rest of the token lies behind it
          emit s!"v0-{pre.length + 1}@{p} {hx} 0"

def gen (seed n : Nat) (tier : String) (emit : String → IO Unit) : IO Unit := do
  let full := tier == "thorough"
  emitSweep emit full
  -- the remaining ParsleyParser implementors (Driver/C15File.lean)
  C15File.gen seed full emit
  -- cut windows: token storages, every window around the token; exhaustive small storages, every window
  let mut ci := 0
  for tok in cutTokens do
    ci := ci + 1
    emitCutToken emit full ci (bytesOfString tok)
  for len in List.range 3 do
    for s in allStrings len do
      emitAllWindows emit s parsers (!full)
  if full then
    let mut k := 0
    for s in allStrings 3 do
      k := k + 1
      if k % 5 == seed % 5 then emitAllWindows emit s parsers true
  for len in List.range (if full then 5 else 4) do
    for s in allStringsOver cmbAlphabet len do
      emitAllWindows emit s (cmbParsers ++ tagCmbParsers) (!full || len == 4)
  -- number tokens at the overflow exits; `#xx` codes at every distance from the token end
  let mut idx := 0
  for tok in numTokens full do
    idx := idx + 1
    emitNum emit full idx tok
  let mut rn := Rng.mk' (seed + 15)
  for _ in List.range (if full then 4000 else 250) do
    let (tok, r') := rndNumTok rn
    rn := r'
    idx := idx + 1
    emitNum emit false idx tok
  idx := 0
  for tok in codeTokens full do
    idx := idx + 1
    emitCode emit full idx tok
  -- exhaustive small buffers
  let maxLen := if tier == "thorough" then 3 else 2
  for len in List.range (maxLen + 1) do
    for s in allStrings len do
      emitAll emit s parsers
  -- combinator composites and AsciiChar: exhaustive over their own alphabet, whole buffer and restricted view
  let cmbLen := if tier == "thorough" then 5 else 4
  for len in List.range (cmbLen + 1) do
    for s in allStringsOver cmbAlphabet len do
      emitAll emit s cmbParsers
      if len ≥ 2 then emitAll emit s (cmbParsers.map ("@" ++ ·))
  -- sub-sampled next length
  let mut r := Rng.mk' seed
  -- binary parsers, every width / byte order / signedness: random buffers of 0..9 bytes, every cursor,
  -- whole buffer and restricted view
  let nbin := if tier == "thorough" then 2000 else 150
  for _ in List.range nbin do
    let (len, r1) := r.nat 10
    let (s, r2) := (List.range len).foldl (fun (acc : Bytes × Rng) _ =>
      let (b, r') := acc.2.nat 256; (UInt8.ofNat b :: acc.1, r')) ([], r1)
    r := r2
    emitAll emit s binParsers
    emitAll emit s (binParsers.map ("@" ++ ·))
  -- binary parsers on cut windows: the missing bytes of the integer lie behind the view
  for _ in List.range (if full then 300 else 30) do
    let (len, r1) := r.nat 10
    let (s, r2) := (List.range len).foldl (fun (acc : Bytes × Rng) _ =>
      let (b, r') := acc.2.nat 256; (UInt8.ofNat b :: acc.1, r')) ([], r1)
    r := r2
    for c in List.range (s.length + 1) do
      emitCuts emit s c binParsers false
  let extra := if tier == "thorough" then 60000 else 3000
  for _ in List.range extra do
    let (s, r1) := (List.range (maxLen + 1)).foldl (fun (acc : Bytes × Rng) _ =>
      let (b, r') := acc.2.pick alphabet; (b :: acc.1, r')) ([], r)
    let (p, r2) := r1.pick parsers
    let (i, r3) := r2.nat (s.length + 1)
    r := r3
    emit s!"{p} {hexOfBytes s} {i}"
  -- structured: random concatenations of tokens with stray bytes
  for _ in List.range n do
    let (k, r1) := r.nat 6
    let (s, r2) := (List.range (k + 1)).foldl (fun (acc : Bytes × Rng) _ =>
      let (c, r') := acc.2.nat 8
      if c == 0 then let (b, r'') := r'.pick alphabet; (acc.1 ++ [b], r'')
      else let (t, r'') := r'.pick tokens; (acc.1 ++ bytesOfString t, r'')) ([], r1)
    let (p, r3) := r2.pick parsers
    let (c, r4) := r3.nat 3
    let (i, r5) := if c == 0 then r4.nat (s.length + 1) else (0, r4)
    r := r5
    emit s!"{p} {hexOfBytes s} {i}"
    emit s!"@{p} {hexOfBytes s} {i}"
    -- a cut window of the same storage, and the same window inside a wider one
    let ((a, b), r6) := rndCut p s i r
    r := r6
    emit s!"v{a}-{b}@{p} {hexOfBytes s} {i - a}"
    let a0 := a / 2
    let b0 := min s.length (b + 2)
    emit s!"v{a0}-{b0},{a - a0}-{b - a0}@{p} {hexOfBytes s} {i - a}"

/-- non-trivial: buffer of at least two bytes, or a non-zero cursor -/
def nontrivial (line : String) : Bool :=
  match words line with
  | [_, hex, pos] => hex.length ≥ 4 || pos != "0"
  | _ => false

def driver : PropDriver := { gen, model, judge, nontrivial }
end Driver.C15
