import Driver.Common
import Driver.ObjFmt
import Parsley.Model.Obj
import Parsley.Model.Bin
import Parsley.Model.CombP
namespace Driver.C15
open Parsley Parsley.Prim Parsley.Obj Parsley.CombP Driver

/-- result of running one named parser: canonical value string, span, cursor -/
abbrev Out := Res (Located String) × Nat

def conv {α : Type} (f : α → String) (r : Res (Located α) × Nat) : Out :=
  match r with
  | (.ok v, c) => (.ok ⟨f v.val, v.start, v.stop⟩, c)
  | (.err k, c) => (.err k, c)
  | (.panic p, c) => (.panic p, c)

/-- canonical text of a combinator value: the nested located values with their spans RELATIVE to the
    start of the outer value (so a faithful re-parse of the span prints the same text) -/
class Rel (α : Type) where
  rel : Nat → α → String

instance : Rel UInt8 := ⟨fun _ v => toString v.toNat⟩
instance : Rel UInt16 := ⟨fun _ v => toString v.toNat⟩
instance : Rel Int := ⟨fun _ v => toString v⟩
instance : Rel Unit := ⟨fun _ _ => "u"⟩
instance {α : Type} [Rel α] : Rel (Located α) :=
  ⟨fun b v => s!"{Rel.rel b v.val}@{(v.start : Int) - b}-{(v.stop : Int) - b}"⟩
instance {α β : Type} [Rel α] [Rel β] : Rel (α × β) := ⟨fun b v => s!"({Rel.rel b v.1},{Rel.rel b v.2})"⟩
instance {α β : Type} [Rel α] [Rel β] : Rel (Alt α β) :=
  ⟨fun b v => match v with | .left x => s!"L{Rel.rel b x}" | .right y => s!"R{Rel.rel b y}"⟩
instance {α : Type} [Rel α] : Rel (List α) := ⟨fun b l => "[" ++ ";".intercalate (l.map (Rel.rel b)) ++ "]"⟩

def convRel {α : Type} [Rel α] (r : Res (Located α) × Nat) : Out :=
  match r with
  | (.ok v, c) => (.ok ⟨Rel.rel v.start v.val, v.start, v.stop⟩, c)
  | (.err k, c) => (.err k, c)
  | (.panic p, c) => (.panic p, c)

/-- `AsciiChar::new_guarded(|c| *c == 'A')`, `… == 'B'`, `AsciiChar::new()` -/
def cA : P UInt8 := chrP (some (· == 65))
def cB : P UInt8 := chrP (some (· == 66))
def cAny : P UInt8 := chrP none

instance : Rel Obj := ⟨fun _ o => objSexp o⟩

/-- `parse_pdf_obj` with a fresh context of depth bound 3 as a component parser: a hand-written parser
    of the crate that does NOT put the cursor back when it fails (and whose span starts after the
    leading whitespace) - it makes the restores done by the combinators themselves observable -/
def objP : P Obj := fun s i => (parseObj ⟨0, 3⟩ s i).1

/-- the composites of `prim_combinators.rs::test_combined` / `test_not` (generic model Model/CombP.lean),
    two mixed ones over binary and token parsers, and two look-ahead ones (`lk…`) -/
def runCmb (name : String) (s : Bytes) (i : Nat) : Option Out :=
  match name with
  | "seqAB" => some (convRel (seqP cA cB s i))
  | "altAB" => some (convRel (altP cA cB s i))
  | "starA" => some (convRel (starP cA s i))
  | "starAny" => some (convRel (starP cAny s i))
  | "notAltAB" => some (convRel (notP (altP cA cB) s i))
  | "starSeqAB" => some (convRel (starP (seqP cA cB) s i))
  | "starAltAB" => some (convRel (starP (altP cA cB) s i))
  | "seqStarAStarB" => some (convRel (seqP (starP cA) (starP cB) s i))
  | "altStarAStarB" => some (convRel (altP (starP cA) (starP cB) s i))
  | "altSeqABSeqBA" => some (convRel (altP (seqP cA cB) (seqP cB cA) s i))
  | "seqAltABAltBA" => some (convRel (seqP (altP cA cB) (altP cB cA) s i))
  | "starU16Bv2" => some (convRel (starP (seqP (Bin.uint16P .big) (Bin.byteVecP 2)) s i))
  | "seqIntWsn1" => some (convRel (seqP integerP (wsNoEOL true) s i))
  | "lkAltObjAny" => some (convRel (altP objP cAny s i))
  | "seqObjA" => some (convRel (seqP objP cA s i))
  | "seqAObj" => some (convRel (seqP cA objP s i))
  | "notObj" => some (convRel (notP objP s i))
  | "starObj" => some (convRel (starP objP s i))
  | "lkNotNotB" => some (convRel (notP (notP cB) s i))
  | "lkAltSeqANotBA" => some (convRel (altP (seqP cA (notP cB)) cA s i))
  | _ => none

def endian (s : String) : Bin.Endian := if s.endsWith "le" then .little else .big

/-- is this parser one of the token-level ones (failure must not move the cursor)? -/
def tokenLevel (p : String) : Bool := !(p.startsWith "obj:" || p.startsWith "@obj:")

/-- does the re-parse clause apply?  Scanners return a skip count whose span is the skipped
    text (not a spelling of the value), so the clause is not applicable to them.  Neither is it to the
    two look-ahead composites `cmb:lk…` (positive look-ahead `Not(Not('B'))`, ordered choice whose first
    branch looks ahead): for these the clause is FALSE by the semantics of PEG look-ahead, see
    `Parsley.C15.reparse_fails_for_positive_lookahead`, `alt_reparse_needs_failTrunc`; all other clauses apply. -/
def reparseApplies (p : String) : Bool :=
  !(p.startsWith "scan:" || p.startsWith "@scan:" || p.startsWith "cmb:lk" || p.startsWith "@cmb:lk")

/-- `BinaryScanner` over `ParseBuffer::scan` (empty tag: `windows(0)` panics) -/
def scanP (tag : Bytes) : P Nat := fun s i =>
  if tag.isEmpty then (.panic "windows(0)", i)
  else
    let rec go : Nat → Nat → Option Nat
      | 0, _ => none
      | f + 1, k => if startsWith tag s (i + k) && i + k + tag.length ≤ s.length then some k else go f (k + 1)
    match go (s.length + 1 - i) 0 with
    | some k => (.ok ⟨k, i, i + k⟩, i + k)
    | none => (.err .eob, i)

def matchP (tag : Bytes) : P Bool := fun s i =>
  match exact tag s i with
  | (true, j) => (.ok ⟨true, i, j⟩, j)
  | (false, _) => (.err .guard, i)

def runParser (p0 : String) (s : Bytes) (i : Nat) : Option Out :=
  let u := fun (_ : Unit) => "unit"
  -- '@' prefix: the implementation runs on a restricted view; by C17 the model is the same
  let p := if p0.startsWith "@" then (p0.drop 1).toString else p0
  match p.splitOn ":" with
  | ["wsn0"] => some (conv u (wsNoEOL false s i))
  | ["wsn1"] => some (conv u (wsNoEOL true s i))
  | ["wse0"] => some (conv u (wsEOL false s i))
  | ["wse1"] => some (conv u (wsEOL true s i))
  | ["comment"] => some (conv hexOfBytes (comment s i))
  | ["bool"] => some (conv (fun b => if b then "true" else "false") (boolean s i))
  | ["null"] => some (conv u (null s i))
  | ["int"] => some (conv (fun (n : Int) => toString n) (integerP s i))
  | ["real"] => some (conv (fun (r : Int × Nat) => s!"{r.1}/{r.2}") (realP s i))
  | ["hex"] => some (conv hexOfBytes (hexString s i))
  | ["lit"] => some (conv hexOfBytes (rawLitString s i))
  | ["name"] => some (conv hexOfBytes (nameP s i))
  | ["op"] => some (conv hexOfBytes (operatorP s i))
  | ["sc", len, eol] =>
    match len.toNat? with
    | some len => some (conv (fun (c : StreamContent) => s!"{c.start} {c.size} {hexOfBytes c.content}")
                          (streamContentP len (eol == "1") s i))
    | none => none
  | ["obj", d] =>
    match d.toNat? with
    | some d => some (conv objSexp (parseObj ⟨0, d⟩ s i).1)
    | none => none
  | ["u8"] => some (conv (fun v => toString v.toNat) (Bin.uint8P s i))
  | ["u16be"] | ["u16le"] => some (conv (fun v => toString v.toNat) (Bin.uint16P (endian p) s i))
  | ["u32be"] | ["u32le"] => some (conv (fun v => toString v.toNat) (Bin.uint32P (endian p) s i))
  | ["u64be"] | ["u64le"] => some (conv (fun v => toString v.toNat) (Bin.uint64P (endian p) s i))
  | ["i8"] => some (conv (fun v => toString v.toInt) (Bin.int8P s i))
  | ["i32be"] | ["i32le"] => some (conv (fun v => toString v.toInt) (Bin.int32P (endian p) s i))
  | ["chr", "A"] => some (convRel (cA s i))
  | ["chr", "any"] => some (convRel (cAny s i))
  | ["cmb", name] => runCmb name s i
  | ["i16be"] | ["i16le"] => some (conv (fun v => toString v.toInt) (Bin.int16P (endian p) s i))
  | ["i64be"] | ["i64le"] => some (conv (fun v => toString v.toInt) (Bin.int64P (endian p) s i))
  | ["bv", n] =>
    match n.toNat? with
    | some n => some (conv hexOfBytes (Bin.byteVecP n s i))
    | none => none
  | ["match", t] => (bytesOfHex t).map fun t => conv (fun b => if b then "true" else "false") (matchP t s i)
  | ["scan", t] => (bytesOfHex t).map fun t => conv (fun (n : Nat) => toString n) (scanP t s i)
  | _ => none

def showOut (p : String) : Out → String
  | (.ok v, c) => s!"ok {v.start} {v.stop} {c} {v.val}"
  | (.err k, c) => if tokenLevel p then s!"err {k} {c}" else s!"err {k}"
  | (.panic st, _) => s!"panic {st}"

/-- case: `<parser> <hexbuf> <pos>`; output: first parse, and on success the re-parse of the span -/
def model (line : String) : String :=
  match words line with
  | [p, hex, pos] =>
    match bytesOfHex hex, pos.toNat? with
    | some s, some i =>
      if i > s.length then "bad-case" else
      match runParser p s i with
      | none => "bad-case"
      | some r =>
        match r with
        | (.ok v, _) =>
          let span := (s.drop v.start).take (v.stop - v.start)
          match runParser p span 0 with
          | some r2 => showOut p r ++ " | re " ++ showOut p r2
          | none => "bad-case"
        | _ => showOut p r
    | _, _ => "bad-case"
  | _ => "bad-case"

/-- shift the `start` field of a stream-content value (location metadata inside the value) -/
def normVal (p : String) (start : Nat) (val : List String) : List String :=
  if p.startsWith "sc:" || p.startsWith "@sc:" then
    match val with
    | st :: rest => toString (st.toNat! - start) :: rest
    | [] => []
  else val

/-- The oracle: the clauses of C15 applied to the implementation's output. -/
def judge (case impl : String) : String :=
  match words case with
  | [p, hex, pos] =>
    match bytesOfHex hex, pos.toNat? with
    | some s, some i =>
      let parts := impl.splitOn " | re "
      match parts with
      | first :: rest =>
        match words first with
        | "ok" :: st :: en :: cu :: val =>
          match st.toNat?, en.toNat?, cu.toNat? with
          | some st, some en, some cu =>
            if cu != en then s!"bad cursor-ne-end cursor={cu} end={en}"
            else if !(st ≤ en && en ≤ s.length) then s!"bad span-range {st} {en} size={s.length}"
            else if tokenLevel p && st != i then s!"bad start-ne-cursor start={st} pos={i}"
            else if !(i ≤ st) then s!"bad start-before-cursor"
            else if !reparseApplies p then "ok"
            else
              match rest with
              | [re] =>
                match words re with
                | "ok" :: st2 :: en2 :: _ :: val2 =>
                  if st2 != "0" then s!"bad reparse-start {st2}"
                  else if en2.toNat? != some (en - st) then s!"bad reparse-partial consumed={en2} span={en - st}"
                  else if normVal p st val != normVal p 0 val2 then "bad reparse-value-differs"
                  else "ok"
                | _ => s!"bad reparse-fails {re}"
              | _ => "bad no-reparse-output"
          | _, _, _ => "bad malformed-output"
        | ["err", _, cu] =>
          if tokenLevel p && cu.toNat? != some i then s!"bad failure-moved-cursor cursor={cu} pos={i}" else "ok"
        | ["err", _] => "ok"
        | "panic" :: _ => "bad panic"
        | t :: _ => if t.startsWith "crash" then "bad crash" else "bad malformed-output"
        | [] => "bad malformed-output"
      | [] => "bad malformed-output"
    | _, _ => "skip"
  | _ => "skip"

/-! ### generators -/

def alphabet : List UInt8 :=
  [32, 10, 13, 0, 37, 40, 41, 60, 62, 91, 93, 47, 35, 92, 43, 45, 46, 48, 49, 57,
   97, 102, 65, 82, 116, 110, 101, 0x80, 0xFF, 122]

def parsers : List String :=
  ["wsn0", "wsn1", "wse0", "wse1", "comment", "bool", "null", "int", "real", "hex", "lit", "name",
   "op", "sc:0:0", "sc:1:1", "sc:2:0", "obj:3", "obj:1", "u8", "u16be", "u32le", "i64be", "bv:2",
   "match:2525", "scan:25", "scan:3e3e",
   -- combinators over a component that does not restore the cursor itself
   "cmb:lkAltObjAny", "cmb:seqObjA", "cmb:seqAObj", "cmb:notObj", "cmb:starObj"]

/-- every binary parser (all widths, byte orders, signedness) and the byte vector -/
def binParsers : List String :=
  ["u8", "u16be", "u16le", "u32be", "u32le", "u64be", "u64le", "i8", "i16be", "i16le", "i32be", "i32le",
   "i64be", "i64le", "bv:0", "bv:1", "bv:3"]

/-- `AsciiChar` and the combinator composites -/
def cmbParsers : List String :=
  ["chr:A", "chr:any", "cmb:seqAB", "cmb:altAB", "cmb:starA", "cmb:starAny", "cmb:notAltAB", "cmb:starSeqAB",
   "cmb:starAltAB", "cmb:seqStarAStarB", "cmb:altStarAStarB", "cmb:altSeqABSeqBA", "cmb:seqAltABAltBA",
   "cmb:starU16Bv2", "cmb:seqIntWsn1", "cmb:lkNotNotB", "cmb:lkAltSeqANotBA"]

/-- alphabet of the combinator cases: the two guarded letters, another letter, a non-ASCII byte,
    a digit and a blank -/
def cmbAlphabet : List UInt8 := [65, 66, 67, 0x80, 49, 32]

def allStringsOver (al : List UInt8) : Nat → List Bytes
  | 0 => [[]]
  | n + 1 => (allStringsOver al n).flatMap fun t => al.map fun a => a :: t

def tokens : List String :=
  ["true", "false", "null", "stream\n", "stream\r\n", "endstream", "endobj", "obj", "12", "-3", "+.5", "0.",
   ".", "007", "9223372036854775807", "9223372036854775808", "170141183460469231731687303715884105727",
   "/Na#41me", "/A#00", "/#4", "/", "(a(b)\\)c)", "(\\\\)", "(", "<4a 4>", "<4g>", "<", "<<", ">>", "[", "]",
   "%c\n", "%", "1 0 R", "1 0 RG", " ", "\r\n", "\r", "\n", "#00", "#", "\\", "R", "x", "\x00", "%%", "%%EOF",
   "<</A 1/B[2 3]>>", "[1 2 R]", "<</A null>>", "<</A 1/A 2>>"]

def bytesOfString (s : String) : Bytes := s.toUTF8.toList

/-- enumerate all strings of length `n` over `alphabet` -/
def allStrings : Nat → List Bytes
  | 0 => [[]]
  | n + 1 => (allStrings n).flatMap fun t => alphabet.map fun a => a :: t

def emitAll (emit : String → IO Unit) (s : Bytes) (ps : List String) : IO Unit := do
  for p in ps do
    for i in List.range (s.length + 1) do
      emit s!"{p} {hexOfBytes s} {i}"

def gen (seed n : Nat) (tier : String) (emit : String → IO Unit) : IO Unit := do
  -- exhaustive small buffers
  let maxLen := if tier == "thorough" then 3 else 2
  for len in List.range (maxLen + 1) do
    for s in allStrings len do
      emitAll emit s parsers
  -- combinator composites and AsciiChar: exhaustive over their own alphabet, whole buffer and restricted view
  let cmbLen := if tier == "thorough" then 5 else 4
  for len in List.range (cmbLen + 1) do
    for s in allStringsOver cmbAlphabet len do
      emitAll emit s cmbParsers
      if len ≥ 2 then emitAll emit s (cmbParsers.map ("@" ++ ·))
  -- sub-sampled next length
  let mut r := Rng.mk' seed
  -- binary parsers, every width / byte order / signedness: random buffers of 0..9 bytes, every cursor,
  -- whole buffer and restricted view
  let nbin := if tier == "thorough" then 2000 else 150
  for _ in List.range nbin do
    let (len, r1) := r.nat 10
    let (s, r2) := (List.range len).foldl (fun (acc : Bytes × Rng) _ =>
      let (b, r') := acc.2.nat 256; (UInt8.ofNat b :: acc.1, r')) ([], r1)
    r := r2
    emitAll emit s binParsers
    emitAll emit s (binParsers.map ("@" ++ ·))
  let extra := if tier == "thorough" then 60000 else 3000
  for _ in List.range extra do
    let (s, r1) := (List.range (maxLen + 1)).foldl (fun (acc : Bytes × Rng) _ =>
      let (b, r') := acc.2.pick alphabet; (b :: acc.1, r')) ([], r)
    let (p, r2) := r1.pick parsers
    let (i, r3) := r2.nat (s.length + 1)
    r := r3
    emit s!"{p} {hexOfBytes s} {i}"
  -- structured: random concatenations of tokens with stray bytes
  for _ in List.range n do
    let (k, r1) := r.nat 6
    let (s, r2) := (List.range (k + 1)).foldl (fun (acc : Bytes × Rng) _ =>
      let (c, r') := acc.2.nat 8
      if c == 0 then let (b, r'') := r'.pick alphabet; (acc.1 ++ [b], r'')
      else let (t, r'') := r'.pick tokens; (acc.1 ++ bytesOfString t, r'')) ([], r1)
    let (p, r3) := r2.pick parsers
    let (c, r4) := r3.nat 3
    let (i, r5) := if c == 0 then r4.nat (s.length + 1) else (0, r4)
    r := r5
    emit s!"{p} {hexOfBytes s} {i}"
    emit s!"@{p} {hexOfBytes s} {i}"

/-- non-trivial: buffer of at least two bytes, or a non-zero cursor -/
def nontrivial (line : String) : Bool :=
  match words line with
  | [_, hex, pos] => hex.length ≥ 4 || pos != "0"
  | _ => false

def driver : PropDriver := { gen, model, judge, nontrivial }
end Driver.C15
