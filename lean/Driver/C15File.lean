import Driver.Common
import Driver.ObjFmt
import Parsley.Model.Obj
import Parsley.Model.Indirect
import Parsley.Model.ObjStm
import Parsley.Model.Xref
import Parsley.Model.Rtps
import Parsley.Model.FileParts
import Parsley.Model.StreamLoc
import Parsley.Spec.Xref
import Parsley.Spec.Rtps
import Parsley.Spec.ObjStm
/-!
  C15, fourth follow-up: the remaining `ParsleyParser` implementors of the crate -

    pdf_file.rs             HeaderP `fhdr`, StartXrefP `sxref`, TrailerP `trailer:<depth>`, XrefSectP `xsect`
                            (XrefSubSectP / XrefEntP are private: observed as the located parts of a section),
                            BodyP `body:<depth>`
    pdf_obj.rs              IndirectP `ind:<depth>`
    pdf_streams.rs          ObjStreamP `os:<depth>:<N>:<First>`, XrefStreamP `xs:<w0>:<w1>:<w2>:<Size>[:I<a.b.c.d…>]`
                            (the buffer is the decoded stream content; no /Filter)
    pdf_content_streams.rs  CSObjP `cs:<depth>`, TextExtractor `te:<depth>` (oracle-only: `nomodel`)
    rtps_lib                ProtocolVersionP `rpv`, VendorIdP `rvid`, GuidPrefixP `rgp`, HeaderP `rhdr`,
                            SubMessageHeaderP `rsmh`, SubMessageP `rsm`, PacketP `rpkt`

  This file holds the model side (the models of the owning properties: Model/Xref.lean (C13), Model/Indirect.lean
  (C05), Model/ObjStm.lean (C14), Model/Rtps.lean (C20), and Model/FileParts.lean for the parsers that had none),
  the canonical printing of their values (nested located parts RE-BASED to the start of the outer value), and the
  generator families.  The oracle is in Driver/C15.lean (`judge`); it needs none of the models.
-/
namespace Driver.C15File
open Parsley Driver

abbrev Out := Res (Located String) × Nat

def fileHeads : List String :=
  ["fhdr", "sxref", "trailer", "xsect", "ind", "body", "os", "xs", "xsh", "cs", "te", "rpv", "rvid", "rgp", "rhdr", "rsmh",
   "rsm", "rpkt"]

/-- is `p` (bare name) one of the parsers of this file? -/
def isFile (p : String) : Bool := fileHeads.contains ((p.splitOn ":").headD "")

def relS (x b : Nat) : String := toString ((x : Int) - (b : Int))

def convL {α : Type} (f : Located α → String) (r : Res (Located α) × Nat) : Out :=
  match r with
  | (.ok v, c) => (.ok ⟨f v, v.start, v.stop⟩, c)
  | (.err k, c) => (.err k, c)
  | (.panic p, c) => (.panic p, c)

/-! ### canonical printing (must equal harness/src/bin/c15.rs) -/

def showXEnt (e : Xref.Ent) : String :=
  match e.st with
  | .free n => s!"{e.obj}:{e.gen}:f:{n}"
  | .inUse o => s!"{e.obj}:{e.gen}:n:{o}"
  | .inStream a b => s!"{e.obj}:{e.gen}:s:{a}:{b}"

def showXEnts (es : List (Located Xref.Ent)) (b : Nat) : String :=
  if es.isEmpty then "-"
  else ",".intercalate (es.map fun e => s!"{showXEnt e.val}@{relS e.start b}-{relS e.stop b}")

/-- an object whose stream content carries an absolute offset: printed relative to `b` -/
def relObj (o : Obj.Obj) (b : Nat) : String :=
  match o with
  | .stream kvs sc => "(stream (dict" ++ kvsSexp kvs ++ s!") {relS sc.start b} {sc.size} {hexOfBytes sc.content})"
  | o => objSexp o

def showInd (v : Located Indirect.Indirect) (b : Nat) : String :=
  s!"{v.val.num} {v.val.gen} {relObj v.val.obj.val b}@{relS v.val.obj.start b}-{relS v.val.obj.stop b}"

def byteList (bs : Bytes) : String := "[," ++ String.join (bs.map fun b => s!"{b.toNat},") ++ "]"

def showRHdr (h : Rtps.Header) : String := s!"{h.version.toNat},{h.vendor.toNat},{byteList h.guidPrefix}"
def showSubHdr (h : Rtps.SubHdr) : String := s!"{h.id.toNat},{h.flags.toNat},{h.length.toNat}"
def showSubMsg (m : Rtps.SubMsg) : String := s!"{showSubHdr m.hdr},{byteList m.payload}"
def showPacket (p : Rtps.Packet) : String :=
  s!"{showRHdr p.hdr},[," ++ String.join (p.msgs.map fun m => showSubMsg m ++ ",") ++ "]"

def showCS : FileParts.CSObj → String
  | .op n => s!"(op {hexOfBytes n})"
  | .arr xs => objSexp (.arr xs)
  | .dict kvs => objSexp (.dict kvs)
  | .bool b => objSexp (.bool b)
  | .str v => objSexp (.str v)
  | .name v => objSexp (.name v)
  | .null => "null"
  | .comment v => objSexp (.comment v)
  | .int n => objSexp (.int n)
  | .real n d => objSexp (.real n d)

/-- one member of an object stream re-parsed alone (span of the content view): k = equal value consuming the
    span, d = differs, p = partial, f = fails, r = span outside the content -/
def memberFlag (content : Bytes) (d : Nat) (m : ObjStm.Member) : Char :=
  let st := m.obj.start
  let en := m.obj.stop
  if !(st ≤ en && en ≤ content.length) then 'r'
  else
    let span := (content.drop st).take (en - st)
    match (Obj.parseObj ⟨0, d⟩ span 0).1 with
    | (.ok v, c) =>
      if v.start != 0 || v.stop != en - st || c != en - st then 'p'
      else if objSexp v.val != objSexp m.obj.val then 'd' else 'k'
    | _ => 'f'

def xrefDict (w0 w1 w2 size : Nat) (index : Option (List Nat)) : Xref.Dict :=
  [(Xref.kType, .atom (.name Xref.nXRef)), (Xref.kSize, .atom (.int size)),
   (Xref.kW, .arr [.int w0, .int w1, .int w2])] ++
  (match index with
   | some l => [(Xref.kIndex, .arr (l.map fun (n : Nat) => Xref.Atom.int (n : Int)))]
   | none => [])

def parseIndex (t : String) : Option (List Nat) :=
  if t.startsWith "I" then ((t.drop 1).toString.splitOn ".").mapM (·.toNat?) else none

/-- the model side: `none` = not a case of this family / malformed -/
def runFile (p : String) (s : Bytes) (i : Nat) : Option Out :=
  match p.splitOn ":" with
  | ["fhdr"] =>
    some (convL (fun v =>
      let b := v.start
      let ver := v.val.version
      let bin := match v.val.binary with
        | some x => s!"{hexOfBytes x.val}@{relS x.start b}-{relS x.stop b}"
        | none => "none"
      s!"{hexOfBytes ver.val}@{relS ver.start b}-{relS ver.stop b} {bin}") (FileParts.headerP s i))
  | ["sxref"] => some (convL (fun v => toString v.val) (FileParts.startXrefP s i))
  | ["trailer", d] => d.toNat?.map fun d => convL (fun v => objSexp (.dict v.val)) (FileParts.trailerP d s i)
  | ["xsect"] =>
    some (convL (fun v =>
      let b := v.start
      if v.val.isEmpty then "-"
      else ";".intercalate (v.val.map fun ss =>
        s!"{ss.val.start}+{ss.val.count}@{relS ss.start b}-{relS ss.stop b}[{showXEnts ss.val.ents b}]"))
      (Xref.xrefSectP s i))
  | ["ind", d] => d.toNat?.map fun d => convL (fun v => showInd v v.start) (Indirect.parseIndirect (Indirect.Ctx.new d) s i).1
  | ["body", d] =>
    d.toNat?.map fun d => convL (fun v =>
      let b := v.start
      if v.val.isEmpty then "-"
      else " ".intercalate (v.val.map fun o => "{" ++ showInd o b ++ "}" ++ s!"@{relS o.start b}-{relS o.stop b}"))
      (FileParts.bodyP d s i)
  | ["os", d, n, first] =>
    match d.toNat?, n.toNat?, first.toNat? with
    | some d, some n, some first =>
      -- `ObjStreamP::parse` never moves the cursor of the buffer it is given; the location it reports is
      -- (cursor, cursor) - the located parts are the members, in the coordinates of the content view
      some (convL (fun v =>
        let ms := v.val
        let content := s.drop first
        let flags := String.ofList (ms.map (memberFlag content d))
        let txt := if ms.isEmpty then "-"
          else " ".intercalate (ms.map fun m => "{" ++ s!"{m.num} {objSexp m.obj.val}" ++ "}" ++ s!"@{m.obj.start}-{m.obj.stop}")
        s!"{txt} parts={if flags.isEmpty then "-" else flags}") (StreamLoc.objStreamP d n first s i))
    | _, _, _ => none
  | hd :: w0 :: w1 :: w2 :: size :: rest =>
    if hd != "xs" && hd != "xsh" then none else
    match w0.toNat?, w1.toNat?, w2.toNat?, size.toNat? with
    | some w0, some w1, some w2, some size =>
      let index : Option (Option (List Nat)) :=
        match rest with
        | [] => some none
        | [t] => (parseIndex t).map some
        | _ => none
      index.map fun index =>
        -- `xsh`: behind /Filter /ASCIIHexDecode; the entries are located in the decoded buffer (base 0)
        let dict := xrefDict w0 w1 w2 size index ++
          (if hd == "xsh" then [(Xref.kFilter, .atom (.name StreamLoc.asciiHexName))] else [])
        convL (fun v => showXEnts v.val (if hd == "xsh" then 0 else v.start)) (StreamLoc.xrefStreamLocP dict s i)
    | _, _, _, _ => none
  | ["cs", d] => d.toNat?.map fun d => convL (fun v => showCS v.val) (FileParts.csObjP d s i)
  | ["rpv"] => some (convL (fun v => toString v.val.toNat) (Rtps.protocolVersionP s i))
  | ["rvid"] => some (convL (fun v => toString v.val.toNat) (Rtps.vendorIdP s i))
  | ["rgp"] => some (convL (fun v => byteList v.val) (Rtps.guidPrefixP s i))
  | ["rhdr"] => some (convL (fun v => showRHdr v.val) (Rtps.headerP s i))
  | ["rsmh"] => some (convL (fun v => showSubHdr v.val) (Rtps.subHdrP s i))
  | ["rsm"] => some (convL (fun v => showSubMsg v.val) (Rtps.subMsgP s i))
  | ["rpkt"] => some (convL (fun v => showPacket v.val) (Rtps.packetP s i))
  | _ => none

/-- no model of this parser in the driver: the case is oracle-only (`nomodel`) -/
def oracleOnly (p : String) : Bool := p.startsWith "te:"

/-- the parsers whose failure cursor is part of the printed outcome -/
def errCursorShown (p : String) : Bool := !(p.startsWith "os:" || p.startsWith "te:" || p.startsWith "xsh:")

/-! ### oracle helpers (no model involved) -/

/-- the parsers that report `start` = the cursor they were called at (the others skip white space first) -/
def startsAtCursor (p : String) : Bool :=
  ["fhdr", "sxref", "trailer", "xsect", "body", "os", "xs", "xsh", "rpv", "rvid", "rgp", "rhdr", "rsmh", "rsm", "rpkt"].contains
    ((p.splitOn ":").headD "")

/-- does the re-parse clause apply to the OUTER value?  Not to ObjStreamP: the location it reports is not a span of
    the buffer it parsed (see the assumptions of C15); its members are re-parsed one by one instead (`parts=`). -/
def outerReparse (_p : String) : Bool := true

/-- KNOWN FINDING C15-stream-parser-location: the location reported by the two stream parsers is not a span of the
    buffer they are given - `ObjStreamP` reports (cursor, cursor) whatever it parsed, `XrefStreamP` behind a filter
    takes `start` from the encoded and `end` from the decoded buffer and leaves the cursor.  For these parsers the
    violations of the outer clauses `cursor = end` and `re-parse` are reported under the class of the finding; every
    other clause (range, start, located parts, member re-parse) keeps its own class. -/
def streamLocFinding (p : String) : Bool := p.startsWith "os:" || p.startsWith "xsh:"

/-- the nested spans `@a-b` printed in a value (relative to the outer start), in order of appearance -/
def nestedSpans (val : List String) : List (Int × Int) :=
  val.flatMap fun w =>
    (w.splitOn "@").drop 1 |>.filterMap fun t =>
      -- `<a>-<b>` possibly followed by `[`, `,`, `;`, `}` …; a and b may be negative
      let cs := t.toList
      let num (cs : List Char) : Option (Int × List Char) :=
        let (neg, cs) := match cs with | '-' :: r => (true, r) | _ => (false, cs)
        let ds := cs.takeWhile Char.isDigit
        if ds.isEmpty then none
        else
          let n : Int := (String.ofList ds).toNat!
          some (if neg then -n else n, cs.drop ds.length)
      match num cs with
      | some (a, '-' :: r) => (num r).map fun (b, _) => (a, b)
      | _ => none

/-- every nested span is well-formed and inside `[0, len)` -/
def nestedInside (val : List String) (len : Nat) : Bool :=
  (nestedSpans val).all fun (a, b) => 0 ≤ a && a ≤ b && b ≤ (len : Int)

/-- the located parts of these parsers' values TILE the reported span: the first starts at its start, each starts
    where the previous one ended, the last ends at its end (XrefStreamP: the entries; HeaderP: the one or two comments) -/
def tilingApplies (p : String) : Bool := p.startsWith "xs:" || p.startsWith "xsh:" || p == "fhdr"

/-- the interval `[0, bound]` the printed spans of the located parts must lie in: relative to the outer start for most;
    object-stream members are in the coordinates of the content view, the entries of a filtered cross-reference stream
    in those of the decoded buffer (whose cursor is the reported `end`) -/
def partsBound (p : String) (size st en : Nat) : Nat :=
  if p.startsWith "os:" then size else if p.startsWith "xsh:" then en else en - st

def tiles (val : List String) (len : Nat) : Bool :=
  let rec go : List (Int × Int) → Int → Bool
    | [], at_ => at_ == (len : Int)
    | (a, b) :: t, at_ => a == at_ && a ≤ b && go t b
  go (nestedSpans val) 0

/-- XrefSectP (PDF 7.5.4: an entry is exactly 20 bytes): in every subsection the entries are consecutive 20-byte
    spans, the first one after the subsection's start, the last one ending where the subsection ends; the
    subsections follow each other inside the section, the last one ending where the section ends or before -/
def xsectOk (val : List String) (len : Nat) : Bool :=
  match val with
  | [w] =>
    if w == "-" then true
    else
      let subs := (w.splitOn ";").map fun t => nestedSpans [t]
      let rec ents : List (Int × Int) → Int → Int → Bool
        | [], at_, b => at_ == b
        | (x, y) :: t, at_, b => x == at_ && y == x + 20 && ents t y b
      let rec go : List (List (Int × Int)) → Int → Bool
        | [], at_ => at_ ≤ (len : Int)
        | [] :: _, _ => false
        | ((a, b) :: es) :: t, at_ =>
          at_ ≤ a && a ≤ b &&
          (match es with
           | [] => true
           | (x, _) :: _ => a ≤ x && ents es x b) && go t b
      go subs 0
  | _ => false

/-- the `parts=` word of a value: all members re-parse (`k`) -/
def partsOk (val : List String) : Bool :=
  val.all fun w => if w.startsWith "parts=" then (w.drop 6).toString.all (fun c => c == 'k' || c == '-') else true

/-! ### generators

  Inputs come from the spec-side encoders of the owning properties (Spec/Xref.lean: entries, subsections,
  tables, stream rows; Spec/Rtps.lean: packets; Spec/ObjStm.lean: object streams) and from token text for
  the PDF constructs, plus malformed variants (truncation at every byte, one byte changed), at cursors before /
  at / inside the construct, whole and in cut windows. -/

def bs (t : String) : Bytes := t.toUTF8.toList

def leads : List Bytes := [[], [32], [10], [37, 120, 10], [0, 13, 10]]
def tails : List Bytes := [[], [32], [10], [120], [37, 37, 69, 79, 70], [49, 32, 48, 32, 111, 98, 106]]

/-- `(parser, construct)` pairs written as text -/
def textCases : List (String × String) :=
  [("fhdr", "%PDF-1.4\n"), ("fhdr", "%PDF-1.7\r\n%âãÏÓ\n"), ("fhdr", "%PDF-1.0 \r\n%binary_bytes\n"), ("fhdr", "%"),
   ("fhdr", "%PDF-2.0"), ("fhdr", "%a\n%b\n%c\n"), ("fhdr", "%\n%"), ("fhdr", "%PDF-1.4\n1 0 obj"),
   ("sxref", "startxref\n42"), ("sxref", "startxref\r\n0\r\n%%EOF"), ("sxref", "startxref 12345678901234567890"),
   ("sxref", "startxref\n-4"), ("sxref", "startxref\n+17\n"), ("sxref", "startxref%c\n9"), ("sxref", "startxref7"),
   ("sxref", "startxref\n"), ("sxref", "startxre"), ("sxref", "startxref\n9223372036854775807"),
   ("sxref", "startxref\n9223372036854775808"), ("sxref", "startxref\n12.5"),
   ("trailer:5", "trailer\n<</Size 3/Root 1 0 R>>"), ("trailer:5", "trailer<<>>"), ("trailer:5", "trailer << /A [1 2] /B null >>\nstartxref"),
   ("trailer:5", "trailer\n<</Size 3"), ("trailer:5", "trailer\n[1]"), ("trailer:1", "trailer<</A<<>>>>"), ("trailer:2", "trailer<</A<<>>>>"),
   ("trailer:5", "trailer %c\n <</A/B>>"), ("trailer:5", "trailer<</A 1/A 2>>"), ("trailer:5", "trailer<</A 1 0 R>>x"),
   ("ind:5", "1 0 obj 5 endobj"), ("ind:5", "7 2 obj [1 2 R] endobj"), ("ind:5", "1 0 obj<</A 1>>endobj"),
   ("ind:5", "1 0 obj <</Length 3>> stream\nabc\nendstream endobj"), ("ind:5", "1 0 obj <</Length 3>>stream\r\nabc\r\nendstream\nendobj"),
   ("ind:5", "1 0 obj <</Length 0>> stream\nendstream endobj"), ("ind:5", "1 0 obj <</Length 2 0 R>> stream\nabc\nendstream endobj"),
   ("ind:5", "1 0 obj <</Length 9>> stream\nabc\nendstream endobj"), ("ind:5", "%c\n 12 0 obj null endobj"), ("ind:5", "1 0 obj 5"),
   ("ind:5", "1 -2 obj 5 endobj"), ("ind:5", "-1 0 obj 5 endobj"), ("ind:5", "1 0 obj (a) endobj"), ("ind:1", "1 0 obj [[]] endobj"),
   ("ind:2", "1 0 obj [[]] endobj"), ("ind:5", "1 0 obj 1 2 R endobj"), ("ind:5", "1 0 obj 1 2 endobj"), ("ind:5", "1 0 obj true%c\nendobj"),
   ("body:5", "1 0 obj 5 endobj 2 0 obj (a) endobj"), ("body:5", "1 0 obj 5 endobj\n2 0 obj (a) endobj\n3 0 obj"),
   ("body:5", "1 0 obj 5 endobj 1 0 obj 6 endobj"), ("body:5", "x"), ("body:5", ""), ("body:5", "1 0 obj 5 endobj xref"),
   ("body:5", "1 0 obj 3 endobj 2 0 obj <</Length 1 0 R>> stream\nabc\nendstream endobj"), ("body:5", "1 0 obj 5 endobj 2 0 obj (a"),
   ("body:5", "1 0 obj 5 endobj 2 0 obj 1 2 Rx endobj"), ("body:5", "1 0 obj 5 endobj 2 0 obj [1 %c\n"), ("body:5", "1 0 obj 5 endobj  \n 2 0"),
   ("body:1", "1 0 obj [] endobj 2 0 obj [[]] endobj"),
   ("cs:5", "BT"), ("cs:5", " /F1 12 Tf"), ("cs:5", "12 Tf"), ("cs:5", "12.50 0 Td"), ("cs:5", "-.5"), ("cs:5", "+5"), ("cs:5", "(ab) Tj"),
   ("cs:5", "[(a) -20 (b)] TJ"), ("cs:5", "<</MCID 0>> BDC"), ("cs:5", "<4142> Tj"), ("cs:5", "true"), ("cs:5", "null"), ("cs:5", "false x"),
   ("cs:5", "%c\nBT"), ("cs:5", " %c\n"), ("cs:5", "T*"), ("cs:5", "'"), ("cs:5", "\""), ("cs:5", "b*"), ("cs:5", "[1 0 R]"), ("cs:5", "[(a"),
   ("cs:5", "9223372036854775807"), ("cs:5", "9223372036854775808"), ("cs:5", "12.0"), ("cs:5", "/A#42"), ("cs:5", "Do#20x"), ("cs:1", "[[]]"),
   ("cs:5", "<</A"), ("cs:5", "<4g>"), ("cs:5", "trueR"), ("cs:5", "nullx"), ("cs:5", "é"),
   ("te:5", "BT (ab) Tj ET"), ("te:5", " BT /F1 12 Tf (a) Tj [(b) -20 (c)] TJ ET "), ("te:5", ""), ("te:5", " %c\n"), ("te:5", "BT ET"),
   ("te:5", "BT (a) Tj"), ("te:5", "q 1 0 0 1 0 0 cm Q"), ("te:5", "BT (a) ' ET\n"), ("te:5", "BX foo EX"), ("te:5", "BT (a) Tj ET x"),
   ("te:5", "1 2"), ("te:5", "BT 1 Tj ET"), ("te:5", "BT (a)Tj T* (b)Tj ET")]

/-- every window `[a, b)`, `a ∈ {0, c}`, `c ≤ b ≤ |S|`, of the storage `S` around the cursor `c` -/
def emitCuts (emit : String → IO Unit) (p : String) (S : Bytes) (c : Nat) (nested : Bool) : IO Unit := do
  let hx := hexOfBytes S
  for a in [0, c].eraseDups do
    for b in List.range' c (S.length + 1 - c) do
      emit s!"v{a}-{b}@{p} {hx} {c - a}"
      if nested then
        let a0 := a - 1
        let b0 := min S.length (b + 1)
        emit s!"v{a0}-{b0},{a - a0}-{b - a0}@{p} {hx} {c - a}"

/-- one construct under its parser: after a lead, before a tail, cursor before / at / inside the construct,
    whole buffer, fixed-surroundings view, cut windows; truncated at every byte; one byte changed -/
def emitConstruct (emit : String → IO Unit) (full : Bool) (k : Nat) (p : String) (body : Bytes) : IO Unit := do
  let ls := if full then leads else [leads[k % leads.length]?.getD [], []].eraseDups
  let ts := if full then tails else [tails[k % tails.length]?.getD [], tails[(k / 2 + 1) % tails.length]?.getD []].eraseDups
  for lead in ls do
    for tl in ts do
      let s := lead ++ body ++ tl
      let hx := hexOfBytes s
      let inside := [lead.length + 1, lead.length + body.length / 2, lead.length + body.length]
      for i in ([0, lead.length] ++ inside).eraseDups do
        if i ≤ s.length then
          emit s!"{p} {hx} {i}"
          emit s!"@{p} {hx} {i}"
      emitCuts emit p s lead.length full
  -- truncations and single-byte changes of the bare construct
  let hx := hexOfBytes body
  emit s!"{p} {hx} 0"
  for n in List.range body.length do
    emit s!"{p} {hexOfBytes (body.take n)} 0"
  let step := if full then 1 else 3
  for n in List.range body.length do
    if n % step == k % step then
      for c in ([32, 48, 120] : List UInt8) do
        emit s!"{p} {hexOfBytes (body.take n ++ [c] ++ body.drop (n + 1))} 0"

def rndEnt (r : Rng) : XrefSpec.TEnt × Rng :=
  let (info, r) := r.pick ([0, 17, 9999999999, 123456, 1] : List Nat)
  let (gen, r) := r.pick ([0, 65535, 1, 7] : List Nat)
  let (u, r) := r.nat 2
  let (e, r) := r.pick ([XrefSpec.Eol.spCr, .spLf, .crLf] : List XrefSpec.Eol)
  (⟨info, gen, u == 1, e⟩, r)

def rndEnts : Nat → Rng → List XrefSpec.TEnt × Rng
  | 0, r => ([], r)
  | n + 1, r => let (e, r) := rndEnt r; let (es, r) := rndEnts n r; (e :: es, r)

def rndSub (r : Rng) : XrefSpec.TSub × Rng :=
  let (start, r) := r.pick ([0, 1, 3, 10, 4294967295] : List Nat)
  let (n, r) := r.nat 4
  let (es, r) := rndEnts n r
  let (lead, r) := r.pick ([[], [], [32], [9, 32]] : List Bytes)
  let (eol, r) := r.pick ([[10], [13, 10], [32, 10], [13], [10, 10]] : List Bytes)
  let (ws, r) := r.pick ([1, 1, 2, 10] : List Nat)
  (⟨start, max ws (toString start).length, max 1 (toString n).length, lead, eol, es⟩, r)

def rndSubs : Nat → Rng → List XrefSpec.TSub × Rng
  | 0, r => ([], r)
  | n + 1, r => let (e, r) := rndSub r; let (es, r) := rndSubs n r; (e :: es, r)

def rndRows (w0 w1 w2 : Nat) : Nat → Rng → Bytes × Rng
  | 0, r => ([], r)
  | n + 1, r =>
    let (t, r) := r.pick ([0, 1, 2, 1, 2, 3] : List Nat)
    let (f2, r) := r.nat (256 ^ w1)
    let (f3, r) := r.nat (256 ^ w2)
    let (rest, r) := rndRows w0 w1 w2 n r
    (XrefSpec.encRow w0 w1 w2 ⟨t, f2, f3⟩ ++ rest, r)

def rndSubMsg (r : Rng) : Rtps.SubMsg × Rng :=
  let (id, r) := r.pick ([0x01, 0x06, 0x07, 0x09, 0x15, 0x80, 0xff] : List UInt8)
  let (fl, r) := r.pick ([0, 1, 2, 3, 0xff] : List UInt8)
  let (n, r) := r.pick ([0, 1, 2, 4, 8, 255, 256, 257] : List Nat)
  let (pl, r) := Rng.bytes n r
  (⟨⟨id, fl, UInt16.ofNat n⟩, pl⟩, r)

def rndSubMsgs : Nat → Rng → List Rtps.SubMsg × Rng
  | 0, r => ([], r)
  | n + 1, r => let (e, r) := rndSubMsg r; let (es, r) := rndSubMsgs n r; (e :: es, r)

/-- a binary construct: every cursor of a short one / cursor 0, the boundaries and a few inside for a long one;
    truncations; cut windows at the construct -/
def emitBinary (emit : String → IO Unit) (full : Bool) (ps : List String) (lead body tl : Bytes) : IO Unit := do
  let s := lead ++ body ++ tl
  let hx := hexOfBytes s
  let cursors := if s.length ≤ 12 then List.range (s.length + 1)
                 else ([0, lead.length, lead.length + 1, lead.length + 4, lead.length + body.length, s.length - 1, s.length].filter (· ≤ s.length)).eraseDups
  for p in ps do
    for i in cursors do
      emit s!"{p} {hx} {i}"
      if full || i == lead.length then emit s!"@{p} {hx} {i}"
    -- windows: the construct cut at each of its first 24 bytes, at its end, one byte after
    let ends := ((List.range (min body.length 24)).map (lead.length + ·)) ++ [lead.length + body.length, lead.length + body.length + 1, s.length]
    for b in ends.eraseDups do
      if lead.length ≤ b && b ≤ s.length then
        emit s!"v{lead.length}-{b}@{p} {hx} 0"
        emit s!"v0-{b}@{p} {hx} {lead.length}"
        if full && 0 < lead.length then emit s!"v{lead.length - 1}-{min s.length (b + 1)},1-{b - lead.length + 1}@{p} {hx} 0"

def gen (seed : Nat) (full : Bool) (emit : String → IO Unit) : IO Unit := do
  -- PDF constructs written as text
  let mut k := 0
  for (p, t) in textCases do
    k := k + 1
    emitConstruct emit full k p (bs t)
  let mut r := Rng.mk' (seed + 1515)
  -- classic cross-reference tables from C13's writers: sections of 1..3 subsections (XrefSubSectP and XrefEntP are
  -- the located parts), each followed by `trailer` / another number / nothing
  for _ in List.range (if full then 400 else 40) do
    let (n, r1) := r.nat 3
    let (subs, r2) := rndSubs (n + 1) r1
    let (tl, r3) := r2.pick ([bs "trailer", [], bs "\n", bs "7 ", bs "startxref", bs " \n5 1\n"] : List Bytes)
    let (lead, r4) := r3.pick ([[], [], bs "\n", bs " %c\n", bs "  "] : List Bytes)
    r := r4
    k := k + 1
    let body := XrefSpec.encTable subs
    if full then emitConstruct emit false k "xsect" body
    else
      let s := lead ++ body ++ tl
      for i in [0, lead.length].eraseDups do
        emit s!"xsect {hexOfBytes s} {i}"
        emit s!"@xsect {hexOfBytes s} {i}"
      -- the view ends inside the last entry / exactly at the end of the table / inside the tail
      for b in [lead.length + body.length - 1, lead.length + body.length, s.length].eraseDups do
        emit s!"v{lead.length}-{b}@xsect {hexOfBytes s} 0"
        emit s!"v0-{b}@xsect {hexOfBytes s} {lead.length}"
      -- one byte of one entry changed; the table cut inside an entry
      let (pos, r5) := r.nat body.length
      let (c, r6) := r5.pick ([32, 48, 120, 10] : List UInt8)
      r := r6
      emit s!"xsect {hexOfBytes (body.take pos ++ [c] ++ body.drop (pos + 1) ++ tl)} 0"
      emit s!"xsect {hexOfBytes (body.take pos)} 0"
  -- one table exhaustively: every cursor, every truncation
  let tab := XrefSpec.encTable [⟨0, 1, 1, [], [10], [⟨0, 65535, false, .spLf⟩, ⟨17, 0, true, .crLf⟩]⟩, ⟨3, 1, 1, [32], [13, 10], [⟨99, 1, true, .spCr⟩]⟩]
  for i in List.range (tab.length + 1) do
    emit s!"xsect {hexOfBytes tab} {i}"
    emit s!"xsect {hexOfBytes (tab.take i)} 0"
    emit s!"v0-{i}@xsect {hexOfBytes tab} 0"
  -- cross-reference stream rows (C13's row writer) under every width triple with w1 > 0, w <= 2 (thorough <= 3), with and
  -- without /Index; the buffer is the decoded content; junk before (cursor inside) and after; too few rows (EndOfBuffer)
  let wmax := if full then 4 else 3
  for w0 in List.range wmax do
    for w1 in List.range' 1 (wmax - 1) do
      for w2 in List.range wmax do
        for rep in List.range (if full then 6 else 2) do
          let (n, r1) := r.nat 4
          let (rows, r2) := rndRows w0 w1 w2 n r1
          let (lead, r3) := r2.pick ([[], [], [0xff], [0, 1]] : List Bytes)
          let (tl, r4) := r3.pick ([[], [], [0], [1, 2, 3]] : List Bytes)
          r := r4
          let s := lead ++ rows ++ tl
          let hx := hexOfBytes s
          let p := s!"xs:{w0}:{w1}:{w2}:{n}"
          emit s!"{p} {hx} {lead.length}"
          emit s!"@{p} {hx} {lead.length}"
          emit s!"{p} {hx} 0"
          emit s!"xs:{w0}:{w1}:{w2}:{n + 1} {hx} {lead.length}"
          -- the same rows behind /Filter /ASCIIHexDecode (hex text, white space inside, `>`; cursor after junk)
          let enc := String.join (rows.map fun b => String.ofList [hexDigit (b.toNat / 16), hexDigit (b.toNat % 16)] ++ (if b.toNat % 5 == 0 then " " else ""))
          let encB := (enc ++ ">").toUTF8.toList
          emit s!"xsh:{w0}:{w1}:{w2}:{n} {hexOfBytes encB} 0"
          emit s!"xsh:{w0}:{w1}:{w2}:{n} {hexOfBytes (lead ++ lead ++ encB ++ tl)} {2 * lead.length}"
          emit s!"@xsh:{w0}:{w1}:{w2}:{n} {hexOfBytes encB} 0"
          emit s!"xsh:{w0}:{w1}:{w2}:{n + 1} {hexOfBytes encB} 0"
          emit s!"xsh:{w0}:{w1}:{w2}:{n} {hexOfBytes (encB.dropLast)} 0"
          if 2 ≤ n then
            emit s!"xs:{w0}:{w1}:{w2}:{n}:I5.1.9.{n - 1} {hx} {lead.length}"
            emit s!"xs:{w0}:{w1}:{w2}:1:I0.{n - 1}.7.1.9.0 {hx} {lead.length}"
          if rep == 0 then
            for b in List.range' lead.length (s.length + 1 - lead.length) do
              emit s!"v{lead.length}-{b}@{p} {hx} 0"
              emit s!"v0-{b}@{p} {hx} {lead.length}"
  -- object streams from C14's writer: members with gaps, comments and white space before them
  let members : List (List ObjStmSpec.Entry) :=
    [[⟨1, [], bs "5"⟩], [⟨1, [], bs "5 "⟩, ⟨2, [], bs "(ab)"⟩], [⟨3, [32], bs "<</A 1>>"⟩, ⟨4, [120, 32], bs " [1 2 R]"⟩, ⟨9, [], bs "%c\n true"⟩],
     [⟨1, [], bs "1 "⟩, ⟨1, [], bs "2"⟩], [⟨7, [], bs "null "⟩, ⟨8, [10], bs "/N#41 "⟩, ⟨5, [], bs "12.5"⟩], [⟨2, [], bs "[[]]"⟩], [⟨2, [], bs "1 0 R"⟩, ⟨3, [], bs " 7"⟩],
     [⟨6, [], bs "(a"⟩], []]
  for ms in members do
    for ws in ([[([], [32])], [([10], [32, 32]), ([32], [9])]] : List (List (Bytes × Bytes))) do
      for pad in ([[], [32], [37, 10]] : List Bytes) do
        let (data, first, _) := ObjStmSpec.encodeObjStm ms ws pad
        for d in [5, 1] do
          let p := s!"os:{d}:{ms.length}:{first}"
          emit s!"{p} {hexOfBytes data} 0"
          emit s!"@{p} {hexOfBytes data} 0"
          emit s!"{p} {hexOfBytes (data ++ [32, 120])} 0"
          emit s!"{p} {hexOfBytes data} {min 1 data.length}"
          emit s!"os:{d}:{ms.length}:{first + 1} {hexOfBytes data} 0"
          emit s!"os:{d}:{ms.length + 1}:{first} {hexOfBytes data} 0"
          if d == 5 && pad.isEmpty then
            for b in List.range (data.length + 1) do
              emit s!"v0-{b}@{p} {hexOfBytes (data ++ [32, 53])} 0"
  -- RTPS packets from C20's encoder: each parser at the start of its part of the packet, every cursor of short ones
  for rep in List.range (if full then 300 else 40) do
    let (n, r1) := r.nat 4
    let (msgs, r2) := rndSubMsgs n r1
    let (gp, r3) := Rng.bytes 12 r2
    let (ver, r4) := r3.nat 65536
    let (ven, r5) := r4.nat 65536
    let (lead, r6) := r5.pick ([[], [], [0], [0x52, 0x54]] : List Bytes)
    let (tl, r7) := r6.pick ([[], [], [0], [9, 1, 4, 0]] : List Bytes)
    r := r7
    let hdr : Rtps.Header := ⟨UInt16.ofNat ver, UInt16.ofNat ven, gp⟩
    let pkt := RtpsSpec.encode ⟨hdr, msgs⟩
    emitBinary emit full ["rpkt"] lead pkt tl
    emitBinary emit full ["rhdr"] lead (RtpsSpec.encodeHdr hdr) tl
    if rep % 4 == 0 then
      emitBinary emit full ["rpv", "rvid", "rgp"] lead (RtpsSpec.encodeHdr hdr |>.drop 4) tl
    for m in msgs do
      emitBinary emit full ["rsm", "rsmh"] lead (RtpsSpec.encodeSub m) tl
    -- a wrong magic, a length field that disagrees with the payload
    emit s!"rpkt {hexOfBytes ([0x52, 0x54, 0x50, 0x58] ++ pkt.drop 4)} 0"
    emit s!"rhdr {hexOfBytes ([0x72] ++ pkt.drop 1)} 0"
  -- the binary parsers exhaustively on short buffers
  for len in List.range 6 do
    for b in ([0, 1, 0xff] : List UInt8) do
      let s := (List.range len).map fun j => b + UInt8.ofNat j
      for i in List.range (len + 1) do
        for p in ["rpv", "rvid", "rsmh", "rsm", "rgp", "rhdr", "rpkt"] do
          emit s!"{p} {hexOfBytes s} {i}"

end Driver.C15File
