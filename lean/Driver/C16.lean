import Driver.Common
import Driver.ObjFmt
import Parsley.Model.Obj
import Parsley.Model.Indirect
namespace Driver.C16
open Parsley Parsley.Prim Parsley.Obj Driver

/-! cases:
    `nest <d> <hex> <k>`   a syntactically valid object of known nesting depth k (by construction)
    `cut  <d> <hex>`       a prefix / mutation of such an object (failure point inside a nested object)
    `deep <d> <n> arr|dict` n unclosed openers (n up to 10^6): must be rejected, without a crash
    `wide <d> <N> arr|dict <elem> <p> a|d|m -|deep`
                           WIDTH profile: one container with N elements / entries (`/K0000000 <elem>` ...) of kind <elem>
                           at one level, inside p wrappers (arrays, dictionary values, mixed with siblings); `deep`: one
                           extra last element `[7]`, one level deeper than the others
    `run  <d> <N> <kind> <p> a|d|m`
                           LENGTH profile: one scalar / white-space / comment run of N units (see `runLeaf`) inside p wrappers
    `at <k0> <case>`       any of the above on a context whose depth is ALREADY k0 <= d (the harness: k0 calls of the public
                           `enter_obj()` before `parse_pdf_obj`; the model: `parseObj ⟨k0, d⟩`); the depth delta is depth after
                           the parse - k0; afterwards the harness leaves min(k0, depth) times (never trips `leave_obj`'s assert)
    `seq <d> <k0> ; <step> ; <step> [; <step>]`
                           several parses on ONE context of bound d and starting depth k0, a fresh buffer each; a step is a
                           case without its bound word (`nest <hex> <k>`, `cut <hex>`, `deep <n> arr`, ...); output: the steps'
                           lines joined by ` ; `, each with the delta depth after the step - depth before the step
    `ind <d> <form> <num> <case without its bound word>`
                           the case's input as the BODY of an indirect object `<num> 0 obj <body> endobj`, parsed by
                           `parse_pdf_indirect_obj` (the model: `Indirect.parseIndirect`); also under `at` and as a `seq` step
                           (`ind <form> <num> <case>`; the definitions of the context are shared by the steps: a second accepted
                           object of the same number is a duplicate).  Forms: `p` plain; `s` the body as a value of a stream
                           dictionary (`<</Length 3/K <body>>>` stream abc endstream: one level more); failures past `obj`:
                           `e` `endobj` misspelt, `l` stream without /Length, `t` stream content shorter than /Length;
                           `k` the keyword `obj` misspelt (failure before the body).
                           Output: `ok <start> <end> <cursor> <depth delta> <num> <gen> <objstart> <objend> <value>` or
                           `err <kind> <depth delta> <cursor>`; the value of a stream: its dictionary's (digest + ` st <content start>
                           <size>` for `wide` / `run` bodies).
    `ctx <dA> <jA> keep|drop|leave|thread <case>` / `cseq <n> <d_0> <k_0> ... ; <i> <step> ; ...`
                           SEVERAL CONTEXTS on one thread (see the section before `model`): another context A entered jA times
                           (kept, dropped as it is, left again, or alive on another thread) while `<case>` runs on its own new
                           context; interleaved steps on n contexts, with the client's own enter / leave / drop.
    Output for `wide` / `run` (harness and model): `ok <start> <stop> <cursor> <depth delta> dg n=<nodes> k=<depth>
    w=<largest number of children> h=<order-sensitive checksum>` or `err <kind> <delta>`: a digest instead of the value, to keep
    the lines short.  The harness runs EVERY C16 case on a thread with a fixed 1 MiB stack. -/

/-! ### digest of a value (definition shared by the harness, the model printer and the oracle) -/

def dgM : Nat := 1000000007

/-- polynomial hash of a byte string, seeded with its length -/
def kh (bs : Bytes) : Nat := bs.foldl (fun h b => (h * 31 + b.toNat) % dgM) (bs.length % dgM)

structure Dg where
  nodes : Nat
  depth : Nat
  width : Nat
  chk : Nat
deriving Inhabited

def Dg.show (g : Dg) : String := s!"dg n={g.nodes} k={g.depth} w={g.width} h={g.chk}"
def Dg.scalar (c : Nat) : Dg := ⟨1, 1, 0, c % dgM⟩
def Dg.null : Dg := .scalar 1
def Dg.bool (b : Bool) : Dg := .scalar (if b then 3 else 2)
def Dg.int (n : Int) : Dg := .scalar (5 + n.natAbs % dgM)
def Dg.real (n : Int) (d : Nat) : Dg := .scalar (7 + n.natAbs % dgM + 3 * (d % dgM))
def Dg.str (bs : Bytes) : Dg := .scalar (11 + kh bs)
def Dg.name (bs : Bytes) : Dg := .scalar (13 + kh bs)
def Dg.ref (n g : Nat) : Dg := .scalar (17 + n % dgM + 3 * (g % dgM))
def Dg.comment (bs : Bytes) : Dg := .scalar (19 + kh bs)

/-- an array from the digests of its elements, in order -/
def Dg.arr (xs : List Dg) : Dg :=
  let (n, k, w, h, c) := xs.foldl (fun (acc : Nat × Nat × Nat × Nat × Nat) x =>
    let (n, k, w, h, c) := acc
    (n + x.nodes, Nat.max k x.depth, Nat.max w x.width, (h * 31 + x.chk) % dgM, c + 1)) (0, 0, 0, 23, 0)
  ⟨1 + n, 1 + k, Nat.max w c, h⟩

/-- a dictionary from its entries in key order -/
def Dg.dict (kvs : List (Bytes × Dg)) : Dg :=
  let (n, k, w, h, c) := kvs.foldl (fun (acc : Nat × Nat × Nat × Nat × Nat) kv =>
    let (n, k, w, h, c) := acc
    (n + kv.2.nodes, Nat.max k kv.2.depth, Nat.max w kv.2.width, (((h * 31 + kh kv.1) % dgM) * 31 + kv.2.chk) % dgM, c + 1))
    (0, 0, 0, 29, 0)
  ⟨1 + n, 1 + k, Nat.max w c, h⟩

mutual
/-- digest of a value of the model -/
def dgObj : Obj → Dg
  | .null => .null
  | .bool b => .bool b
  | .int n => .int n
  | .real n d => .real n d
  | .str bs => .str bs
  | .name bs => .name bs
  | .ref n g => .ref n g
  | .comment bs => .comment bs
  | .arr xs => .arr (dgList xs)
  | .dict kvs => .dict (dgKvs kvs)
  | .stream _ _ => .scalar 31
def dgList : List Obj → List Dg
  | [] => []
  | x :: t => dgObj x :: dgList t
def dgKvs : List (Bytes × Obj) → List (Bytes × Dg)
  | [] => []
  | (k, v) :: t => (k, dgObj v) :: dgKvs t
end

/-! ### width and length profiles: text, and (spec side, from the description alone) the denoted value's digest -/

/-- a leaf of a profile: its spelling (built on demand), length, leading white space, the digest of the value it denotes
    (`none`: not an object, must be rejected), the nesting depth of the INPUT (a null-valued entry counts), and an estimate of
    the list-based model's work on it (list cells walked) -/
structure Leaf where
  text : Unit → Bytes
  len : Nat
  lead : Nat
  dg : Option Dg
  depth : Nat
  cost : Nat

def rep (n : Nat) (u : Bytes) : Bytes := (List.replicate n u).flatten

/-- element kinds of the width profiles: spelling, digest (`none` = null), depth -/
def elemOf (e : String) : Option (Bytes × Option Dg × Nat) :=
  match e with
  | "int" => some (strBytes "7", some (.int 7), 1)
  | "null" => some (strBytes "null", none, 1)
  | "bool" => some (strBytes "true", some (.bool true), 1)
  | "real" => some (strBytes "1.5", some (.real 15 10), 1)
  | "name" => some (strBytes "/N", some (.name [78]), 1)
  | "str" => some (strBytes "(a)", some (.str [97]), 1)
  | "hex" => some (strBytes "<41>", some (.str [65]), 1)
  | "ref" => some (strBytes "1 0 R", some (.ref 1 0), 1)
  | "earr" => some (strBytes "[]", some (.arr []), 1)
  | "edict" => some (strBytes "<<>>", some (.dict []), 1)
  | "arr1" => some (strBytes "[7]", some (.arr [.int 7]), 2)
  | "dict1" => some (strBytes "<</K 7>>", some (.dict [([75], .int 7)]), 2)
  | _ => none

/-- the j-th key: `K` and seven decimal digits (byte order = numeric order) -/
def keyOf (j : Nat) : Bytes := 75 :: (List.range 7).map fun i => UInt8.ofNat (48 + (j / 10 ^ (6 - i)) % 10)

def wideLeaf (n : Nat) (shape elem tail : String) : Option Leaf :=
  match elemOf elem with
  | none => none
  | some (et, eg, ed) =>
    let hasTail := tail == "deep"
    let depth := 1 + Nat.max (if n > 0 then ed else 0) (if hasTail then 2 else 0)
    let tailDg : Dg := .arr [.int 7]
    if shape == "arr" then
      let tailT : Bytes := if hasTail then strBytes "[7] " else []
      let len := 2 + n * (et.length + 1) + tailT.length
      some { text := fun _ => [91] ++ rep n (et ++ [32]) ++ tailT ++ [93]
             len := len, lead := 0, depth := depth, cost := (n + 1) * len
             dg := some (.arr (List.replicate n (eg.getD .null) ++ (if hasTail then [tailDg] else []))) }
    else if shape == "dict" then
      let tailT : Bytes := if hasTail then strBytes "/Z [7] " else []
      let len := 4 + n * (10 + et.length + 1) + tailT.length
      some { text := fun _ => [60, 60] ++ ((List.range n).flatMap fun j => [47] ++ keyOf j ++ [32] ++ et ++ [32]) ++ tailT ++ [62, 62]
             len := len, lead := 0, depth := depth, cost := (n + 1) * len
             dg := some (.dict ((match eg with
                                 | none => []
                                 | some g => (List.range n).map fun j => (keyOf j, g))
                                ++ (if hasTail then [([90], tailDg)] else []))) }
    else none

/-- length profiles: n units of one scalar kind / of white space / of comments -/
def runLeaf (n : Nat) (kind : String) : Option Leaf :=
  let a : Bytes := List.replicate n 65
  let mk (text : Unit → Bytes) (len lead : Nat) (dg : Option Dg) (depth : Nat) (quad : Bool) : Option Leaf :=
    some { text, len, lead, dg, depth, cost := if quad then (n + 1) * len else 8 * len }
  match kind with
  -- literal strings: plain, balanced parentheses n deep, n escaped parentheses (the raw bytes are the value)
  | "str" => mk (fun _ => [40] ++ a ++ [41]) (n + 2) 0 (some (.str a)) 1 false
  | "strp" => mk (fun _ => [40] ++ List.replicate n 40 ++ List.replicate n 41 ++ [41]) (2 * n + 2) 0
                (some (.str (List.replicate n 40 ++ List.replicate n 41))) 1 false
  | "stre" => mk (fun _ => [40] ++ rep n [92, 41] ++ [41]) (2 * n + 2) 0 (some (.str (rep n [92, 41]))) 1 false
  -- names: plain, n `#41` escapes
  | "name" => mk (fun _ => [47] ++ a) (n + 1) 0 (some (.name a)) 1 false
  | "namex" => mk (fun _ => [47] ++ rep n [35, 52, 49]) (3 * n + 1) 0 (some (.name a)) 1 false
  -- hex strings: plain, with white space inside
  | "hex" => mk (fun _ => [60] ++ rep n [52, 49] ++ [62]) (2 * n + 2) 0 (some (.str a)) 1 false
  | "hexws" => mk (fun _ => [60] ++ rep n [52, 32, 49, 10] ++ [62]) (4 * n + 2) 0 (some (.str a)) 1 false
  -- numbers: n leading zeros (value 7); n nines and n fraction digits (beyond i128 for n >= 40: not an object)
  | "zeros" => mk (fun _ => List.replicate n 48 ++ [55]) (n + 1) 0 (some (.int 7)) 1 false
  | "nines" => if n < 40 then none else mk (fun _ => List.replicate n 57) n 0 none 1 false
  | "frac" => if n < 40 then none else mk (fun _ => [49, 46] ++ List.replicate n 48 ++ [53]) (n + 3) 0 none 1 false
  -- white space and comments before a token
  | "ws" => mk (fun _ => List.replicate n 32 ++ [55]) (n + 1) n (some (.int 7)) 1 false
  | "crlf" => mk (fun _ => rep n [13, 10] ++ [55]) (2 * n + 1) (2 * n) (some (.int 7)) 1 false
  | "cmt" => mk (fun _ => rep n [37, 99, 10] ++ [55]) (3 * n + 1) (3 * n) (some (.int 7)) 1 true
  | "cmt1" => mk (fun _ => [37] ++ List.replicate n 99 ++ [10, 55]) (n + 3) (n + 2) (some (.int 7)) 1 false
  -- white space and comments inside containers and references
  | "arrws" => mk (fun _ => [91] ++ List.replicate n 32 ++ [93]) (n + 2) 0 (some (.arr [])) 1 false
  | "arrcmt" => mk (fun _ => [91] ++ rep n [37, 10] ++ [93]) (2 * n + 2) 0 (some (.arr [])) 1 true
  | "dictws" => mk (fun _ => [60, 60] ++ List.replicate n 10 ++ [62, 62]) (n + 4) 0 (some (.dict [])) 1 false
  | "kvws" => if n == 0 then none else mk (fun _ => strBytes "<</K" ++ List.replicate n 32 ++ [55] ++ List.replicate n 32 ++ [62, 62]) (2 * n + 7) 0
                (some (.dict [([75], .int 7)])) 2 false
  | "refws" => if n == 0 then none else mk (fun _ => [49] ++ List.replicate n 32 ++ [48] ++ List.replicate n 10 ++ [82]) (2 * n + 3) 0 (some (.ref 1 0)) 1 false
  | "bigkey" => mk (fun _ => [60, 60, 47] ++ a ++ [32, 55, 62, 62]) (n + 7) 0 (some (.dict [(a, .int 7)])) 2 false
  | _ => none

/-- wrappers: 0 = array, 1 = dictionary value, 2 = array with siblings (same as `render`, outermost first) -/
def wrapProf (p : Nat) (wrap : String) : List Nat :=
  (List.range p).map fun j => if wrap == "a" then 0 else if wrap == "d" then 1 else j % 3
def opener (o : Nat) : Bytes := if o == 0 then [91] else if o == 1 then [60, 60, 47, 75, 32] else [91, 49, 32]
def closer (o : Nat) : Bytes := if o == 0 then [93] else if o == 1 then [62, 62] else [32, 47, 78, 93]
def wrapDg (prof : List Nat) (g : Dg) : Dg :=
  prof.foldr (fun o inner =>
    if o == 0 then Dg.arr [inner] else if o == 1 then Dg.dict [([75], inner)] else Dg.arr [.int 1, inner, .name [78]]) g

/-- a `wide` / `run` case: bound, wrappers, leaf -/
structure Big where
  d : Nat
  prof : List Nat
  leaf : Leaf

def bigOf (w : List String) : Option Big :=
  match w with
  | ["wide", d, n, shape, elem, p, wrap, tail] =>
    match d.toNat?, n.toNat?, p.toNat? with
    | some d, some n, some p => (wideLeaf n shape elem tail).map fun l => ⟨d, wrapProf p wrap, l⟩
    | _, _, _ => none
  | ["run", d, n, kind, p, wrap] =>
    match d.toNat?, n.toNat?, p.toNat? with
    | some d, some n, some p => (runLeaf n kind).map fun l => ⟨d, wrapProf p wrap, l⟩
    | _, _, _ => none
  | _ => none

def Big.bytes (b : Big) : Bytes :=
  b.prof.flatMap opener ++ b.leaf.text () ++ b.prof.reverse.flatMap closer

/-- nesting depth of the input -/
def Big.depth (b : Big) : Nat := b.prof.length + b.leaf.depth

/-- what the description denotes (spec side; the parser model is not consulted): the output line of an accepted case,
    `none` when the input is not an object or nests deeper than the bound -/
def Big.expected (b : Big) (k0 : Nat := 0) : Option String :=
  match b.leaf.dg with
  | none => none
  | some g =>
    if k0 + b.depth > b.d then none   -- k0: the depth the context already has before the call
    else
      let pre := (b.prof.flatMap opener).length
      let stop := pre + b.leaf.len + (b.prof.flatMap closer).length
      let start := if b.prof.isEmpty then b.leaf.lead else 0
      some s!"ok {start} {stop} {stop} 0 {(wrapDg b.prof g).show}"

/-- the list-based model walks the input from its head at every primitive call: it runs the profiles whose estimated work
    is below this many list cells (about a second); on the larger ones of the same families the model's line is the closed
    form `Big.expected` / `err guard 0`, which the smaller ones confirm (stated in the rule text) -/
def modelBudget : Nat := 600000000
def Big.modelRuns (b : Big) : Bool := 24 * b.leaf.cost ≤ modelBudget

/-- the input of a `nest` / `cut` / `deep` case -/
def inputOf (w : List String) : Option (Nat × Bytes) :=
  match w with
  | "deep" :: d :: n :: kind :: _ =>
    match d.toNat?, n.toNat? with
    | some d, some n =>
      let opener : Bytes := if kind == "dict" then [60, 60, 47, 75, 32] else [91]
      some (d, (List.replicate n opener).flatten)
    | _, _ => none
  | kind :: d :: hex :: _ =>
    if kind == "nest" || kind == "cut" then
      match d.toNat?, bytesOfHex hex with
      | some d, some s => some (d, s)
      | _, _ => none
    else none
  | _ => none

/-- one parse of the case `w` (with its bound word) by the model on a context of current depth `cur`: the output line
    and the depth afterwards (the model threads it: `parseObj` returns the context) -/
def modelStep (cur : Nat) (w : List String) : String × Nat :=
  match bigOf w with
  | some b =>
    if cur > b.d then ("bad-case", cur)
    else if b.modelRuns then
      let (r, c) := parseObj ⟨cur, b.d⟩ b.bytes 0
      let delta : Int := (c.cur : Int) - cur
      match r with
      | (.ok v, k) => (s!"ok {v.start} {v.stop} {k} {delta} {(dgObj v.val).show}", c.cur)
      | (.err e, _) => (s!"err {e} {delta}", c.cur)
      | (.panic p, _) => (s!"panic {p}", c.cur)
    else ((b.expected cur).getD "err guard 0", cur)
  | none =>
  match inputOf w with
  | some (d, s) =>
    if cur > d then ("bad-case", cur)
    else
    let (r, c) := parseObj ⟨cur, d⟩ s 0
    let delta : Int := (c.cur : Int) - cur
    match r with
    | (.ok v, k) => (s!"ok {v.start} {v.stop} {k} {delta} {objSexp v.val}", c.cur)
    | (.err e, _) => (s!"err {e} {delta}", c.cur)
    | (.panic p, _) => (s!"panic {p}", c.cur)
  | none => ("bad-case", cur)

/-! ### indirect objects around the bodies (after missed seed C16_8: `parse_pdf_indirect_obj` from a non-zero depth) -/

/-- an `ind` case -/
structure Ind where
  d : Nat
  form : String
  num : Nat
  /-- the body's case, WITH its bound word -/
  inner : List String

def indForms : List String := ["p", "s", "e", "l", "t", "k"]

def indOf (w : List String) : Option Ind :=
  match w with
  | "ind" :: d :: form :: num :: kind :: args =>
    match d.toNat?, num.toNat? with
    | some dn, some nn => if indForms.contains form then some ⟨dn, form, nn, kind :: d :: args⟩ else none
    | _, _ => none
  | _ => none

/-- the text around the body (must equal `ind_bytes` of harness/src/bin/c16.rs) -/
def indHead (form : String) (num : Nat) : Bytes :=
  strBytes (toString num) ++ strBytes (if form == "k" then " 0 ob " else " 0 obj ")
def indOpen (form : String) : Bytes :=
  if form == "s" then strBytes "<</Length 3/K " else if form == "t" then strBytes "<</Length 30/K "
  else if form == "l" then strBytes "<</K " else []
def indClose (form : String) : Bytes :=
  if form == "s" || form == "t" || form == "l" then strBytes ">>\nstream\nabc\nendstream\nendobj"
  else if form == "e" then strBytes " endobx" else strBytes " endobj"
/-- levels the form adds around the body (the stream dictionary) -/
def indExtra (form : String) : Nat := if form == "s" || form == "t" || form == "l" then 1 else 0
/-- forms that are not indirect objects, whatever the body -/
def indFails (form : String) : Bool := form == "e" || form == "l" || form == "t" || form == "k"

/-- spec side: the output line of an accepted `ind` case over a width / length profile, from the description and the layout
    of the text alone; `none`: must be rejected -/
def Big.expectedInd (b : Big) (form : String) (num k0 : Nat) : Option String :=
  match b.leaf.dg with
  | none => none
  | some g =>
    if indFails form || k0 + b.depth + indExtra form > b.d then none
    else
      let hl := (indHead form num).length
      let bodyLen := (b.prof.flatMap opener).length + b.leaf.len + (b.prof.flatMap closer).length
      let vg := wrapDg b.prof g
      if form == "s" then
        let dictEnd := hl + (indOpen form).length + bodyLen + 2
        let cs := dictEnd + 8                 -- `\nstream\n`
        let oe := cs + 3 + 10                 -- `abc`, `\nendstream`
        let e := oe + 7                       -- `\nendobj`
        some s!"ok 0 {e} {e} 0 {num} 0 {hl} {oe} {(Dg.dict [([75], vg), (strBytes "Length", .int 3)]).show} st {cs} 3"
      else
        let os := hl + (if b.prof.isEmpty then b.leaf.lead else 0)
        let oe := hl + bodyLen
        some s!"ok 0 {oe + 7} {oe + 7} 0 {num} 0 {os} {oe} {vg.show}"

/-- the model on an `ind` case: `Indirect.parseIndirect` on the context as it is (depth AND definitions) -/
def runInd (c : Indirect.Ctx) (x : Ind) (body : Bytes) (big : Bool) : String × Indirect.Ctx :=
  let s := indHead x.form x.num ++ indOpen x.form ++ body ++ indClose x.form
  let (r, c') := Indirect.parseIndirect { c with max := x.d } s 0
  let delta : Int := (c'.cur : Int) - c.cur
  match r with
  | (.ok v, k) =>
    let o := v.val.obj
    let shown :=
      if big then
        match o.val with
        | .stream kvs sc => s!"{(dgObj (.dict kvs)).show} st {sc.start} {sc.size}"
        | ov => (dgObj ov).show
      else objSexp o.val
    (s!"ok {v.start} {v.stop} {k} {delta} {v.val.num} {v.val.gen} {o.start} {o.stop} {shown}", c')
  | (.err e, k) => (s!"err {e} {delta} {k}", c')
  | (.panic p, _) => (s!"panic {p}", c')

/-- one step on a context with definitions: `ind` steps by `parseIndirect`, the others by `modelStep` (the `ind` families stay
    below the model's work budget: the model always runs) -/
def modelStepC (c : Indirect.Ctx) (w : List String) : String × Indirect.Ctx :=
  match indOf w with
  | none => let (o, cur') := modelStep c.cur w; (o, { c with cur := cur' })
  | some x =>
    if c.cur > x.d then ("bad-case", c)
    else
      match bigOf x.inner with
      | some b => runInd c x b.bytes true
      | none =>
        match inputOf x.inner with
        | some (_, body) => runInd c x body false
        | none => ("bad-case", c)

/-- split a word list at the `;` words -/
def splitSemi (ws : List String) : List (List String) :=
  let (cur, acc) := ws.foldl (fun (st : List String × List (List String)) x =>
    if x == ";" then ([], st.1.reverse :: st.2) else (x :: st.1, st.2)) ([], [])
  (cur.reverse :: acc).reverse

/-- the steps of a `seq` case, each completed with the bound word -/
def stepsOf (d : String) (rest : List String) : List (List String) :=
  ((splitSemi rest).filter (· ≠ [])).map fun st =>
    match st with
    | kind :: args => kind :: d :: args
    | [] => []

/-- a case on ONE context of its own (`seq`, `at`, or a plain case): the context is a fresh value `Ctx.new d` entered k0 times -/
def modelW (ws : List String) : String :=
  match ws with
  | "seq" :: d :: k0 :: rest =>
    match d.toNat?, k0.toNat? with
    | some dn, some k0 =>
      if k0 > dn then "bad-case"
      else
        let (outs, _) := (stepsOf d rest).foldl (fun (acc : List String × Indirect.Ctx) st =>
          let (o, c') := modelStepC acc.2 st
          (o :: acc.1, c')) ([], { Indirect.Ctx.new dn with cur := k0 })
        " ; ".intercalate outs.reverse
    | _, _ => "bad-case"
  | "at" :: k0 :: rest =>
    match k0.toNat?, rest with
    | some k0, _ :: d :: _ => (modelStepC { Indirect.Ctx.new (d.toNat?.getD 0) with cur := k0 } rest).1
    | _, _ => "bad-case"
  | w => (modelStepC (Indirect.Ctx.new (((w.drop 1).headD "0").toNat?.getD 0)) w).1

/-! ### several contexts (after missed seed C16_9: the depth in a thread-local shared by all contexts of a thread)

    `ctx <dA> <jA> keep|drop|leave|thread <case>`: context A = new(dA) entered jA times, then kept / dropped as it is / left jA
    times (`thread`: made and kept on another thread); then `<case>` (plain, `at`, `seq`) on its own new context B.
    Output `ctx <B's depth right after new> <A's depth after B's case | -> <the case's line>`.
    `cseq <n> <d_0> <k_0> ... ; <i> <step> ; ...`: n contexts made in order (bound d_i, entered k_i times), then steps on the
    context of their index: the parse steps of `seq`, the client's own `enter` / `leave`, `drop`.  Output `new <depths right after
    new>` ; per step `<depth of ITS context before> <line | entered | refused | left | left-at-zero | dropped>` ; `end <final depths>`.
    In the model a context is a VALUE (`Indirect.Ctx`): a parse on one is a function of that value alone. -/

def ctxModes : List String := ["keep", "drop", "leave", "thread"]

/-- `enter_obj()`: `if cur_depth == max_depth { false } else { cur_depth += 1; true }` -/
def enterObj (c : Indirect.Ctx) : Bool × Indirect.Ctx :=
  if c.cur == c.max then (false, c) else (true, { c with cur := c.cur + 1 })

/-- the harness's guarded `leave_obj()`: not called at depth 0 (there the real one asserts) -/
def leaveGuarded (c : Indirect.Ctx) : Bool × Indirect.Ctx :=
  if c.cur == 0 then (false, c) else (true, { c with cur := c.cur - 1 })

/-- `new(d)` then k `enter_obj()` calls; `none`: one of them refused -/
def ctxAt (d k : Nat) : Option Indirect.Ctx :=
  (List.range k).foldl (fun (c : Option Indirect.Ctx) _ =>
    match c with
    | none => none
    | some c => let (ok, c') := enterObj c; if ok then some c' else none) (some (Indirect.Ctx.new d))

def showDepth : Option Indirect.Ctx → String
  | some c => toString c.cur
  | none => "-"

/-- header of a `cseq` case: the (bound, entered) pairs and the steps (each: context index :: step words) -/
def cseqOf (ws : List String) : Option (List (Nat × Nat) × List (List String)) :=
  match ws with
  | "cseq" :: n :: rest =>
    match n.toNat? with
    | some n =>
      if n < 1 || n > 8 || rest.length < 2 * n + 1 || (rest.drop (2 * n)).head? != some ";" then none
      else
        let nums := (rest.take (2 * n)).map String.toNat?
        if nums.any Option.isNone then none
        else
          let v := nums.map (·.getD 0)
          let dk := (List.range n).map fun i => (v.getD (2 * i) 0, v.getD (2 * i + 1) 0)
          if dk.any (fun p => p.2 > p.1) then none
          else some (dk, (splitSemi (rest.drop (2 * n + 1))).filter (· ≠ []))
    | none => none
  | _ => none

def setAt {α : Type} (l : List α) (i : Nat) (x : α) : List α := l.set i x

def modelCseq (ws : List String) : String :=
  match cseqOf ws with
  | none => "bad-case"
  | some (dk, steps) =>
    -- make the contexts in order; every one is a fresh value
    let made := dk.foldl (fun (acc : List String × List (Option Indirect.Ctx) × Option Nat) p =>
      let (news, cs, failed) := acc
      match failed with
      | some _ => acc
      | none =>
        let fresh := Indirect.Ctx.new p.1
        match ctxAt p.1 p.2 with
        | some c => (news ++ [toString fresh.cur], cs ++ [some c], none)
        | none => (news ++ [toString fresh.cur], cs, some cs.length)) ([], [], none)
    let (news, cs0, failed) := made
    match failed with
    | some i => s!"new {" ".intercalate news} ; enter-refused {i}"
    | none =>
      let (outs, cs) := steps.foldl (fun (acc : List String × List (Option Indirect.Ctx)) st =>
        let (outs, cs) := acc
        match st with
        | i :: kind :: args =>
          match i.toNat? with
          | some i =>
            match cs.getD i none, dk[i]? with
            | some c, some (d, _) =>
              let before := c.cur
              if kind == "enter" then
                let (ok, c') := enterObj c
                (s!"{before} {if ok then "entered" else "refused"}" :: outs, setAt cs i (some c'))
              else if kind == "leave" then
                let (ok, c') := leaveGuarded c
                (s!"{before} {if ok then "left" else "left-at-zero"}" :: outs, setAt cs i (some c'))
              else if kind == "drop" then (s!"{before} dropped" :: outs, setAt cs i none)
              else
                let (o, c') := modelStepC c (kind :: toString d :: args)
                (s!"{before} {o}" :: outs, setAt cs i (some c'))
            | _, _ => ("bad-step" :: outs, cs)
          | none => ("bad-step" :: outs, cs)
        | _ => ("bad-step" :: outs, cs)) ([], cs0)
      " ; ".intercalate ([s!"new {" ".intercalate news}"] ++ outs.reverse ++ [s!"end {" ".intercalate (cs.map showDepth)}"])

def model (line : String) : String :=
  match words line with
  | "ctx" :: dA :: jA :: mode :: inner =>
    match dA.toNat?, jA.toNat? with
    | some dA, some jA =>
      if inner.length < 3 || inner.head? == some "ctx" || inner.head? == some "cseq" || !ctxModes.contains mode then "bad-case"
      else
        match ctxAt dA jA with
        | none => "enter-refused A"
        | some a =>
          let a' : Option Indirect.Ctx :=
            if mode == "drop" then none
            else if mode == "leave" then some ((List.range jA).foldl (fun c _ => (leaveGuarded c).2) a)
            else some a
          -- B is made by `modelW` from the inner case alone: A is not an argument of anything B does
          s!"ctx {(Indirect.Ctx.new 0).cur} {showDepth a'} {modelW inner}"
    | _, _ => "bad-case"
  | "cseq" :: rest => modelCseq ("cseq" :: rest)
  | w => modelW w

/-- oracle for the width / length profiles, from the description alone -/
def judgeBig (b : Big) (impl : String) (k0 : Nat := 0) : String :=
  let iw := words impl
  let v := iw.headD "?"
  if v.startsWith "crash" || v == "hang" || v == "panic" then
    s!"bad crash-on-wide-input impl={v} leaf-bytes={b.leaf.len} nesting={b.depth} d={b.d}"
  else
    match b.expected k0, iw with
    | some want, "ok" :: _ :: _ :: _ :: delta :: _ =>
      if delta != "0" then "bad depth-not-restored"
      else if impl.trimAscii.toString == want then "ok"
      else s!"bad wide-wrong-value want={want}"
    | some _, ["err", _, delta] =>
      if delta != "0" then "bad depth-not-restored"
      else s!"bad valid-within-bound-rejected k={b.depth} d={b.d} from={k0}"
    | none, ["err", _, delta] => if delta != "0" then "bad depth-not-restored" else "ok"
    | none, "ok" :: _ =>
      if b.leaf.dg.isSome then s!"bad deeper-than-bound-accepted k={b.depth} d={b.d} from={k0}" else "bad non-object-accepted"
    | _, _ => "bad panic-or-crash"

/-- oracle for ONE parse (case words `w`, with the bound word) on a context whose depth before the call is `k0` (by the
    property itself: the starting depth of the case, since every earlier step left the depth as it was).  From the spec
    side: the depth after = the depth before for EVERY outcome; an object is accepted iff k0 + its nesting <= d. -/
def judgeStep (k0 : Nat) (w : List String) (impl : String) : String :=
  let iw := words impl
  match bigOf w with
  | some b => judgeBig b impl k0
  | none =>
  match w, iw with
  | "nest" :: d :: _ :: k :: _, "ok" :: _ :: _ :: _ :: delta :: sexp =>
    if delta != "0" then s!"bad depth-not-restored delta={delta} from={k0}"
    else if k0 + k.toNat! > d.toNat! then s!"bad deeper-than-bound-accepted k={k} d={d} from={k0}"
    else if sexpDepth (" ".intercalate sexp) > k.toNat! then s!"bad value-deeper-than-input"
    else "ok"
  | "nest" :: d :: _ :: k :: _, ["err", _, delta] =>
    if delta != "0" then s!"bad depth-not-restored delta={delta} from={k0}"
    else if k0 + k.toNat! ≤ d.toNat! then s!"bad valid-within-bound-rejected k={k} d={d} from={k0}"
    else "ok"
  | _ :: d :: _, "ok" :: _ :: _ :: _ :: delta :: sexp =>
    if delta != "0" then s!"bad depth-not-restored delta={delta} from={k0}"
    else if k0 + sexpDepth (" ".intercalate sexp) > d.toNat! then s!"bad deeper-than-bound-accepted from={k0}"
    else if w.head? == some "deep" then "bad unclosed-accepted"
    else "ok"
  | _, ["err", _, delta] => if delta != "0" then s!"bad depth-not-restored delta={delta} from={k0}" else "ok"
  | _, _ => "bad panic-or-crash"

/-- oracle for ONE `parse_pdf_indirect_obj` on a context of depth `k0` in which the objects `defined` (numbers, generation
    0) are already registered.  From the spec side: depth after = depth before for EVERY outcome (also every failure past the
    `obj` keyword); accepted iff the text is an indirect object (form `p` / `s`, a valid body), the number is new, and
    k0 + nesting(body) + the form's own levels <= d. -/
def judgeInd (k0 : Nat) (x : Ind) (defined : List Nat) (impl : String) : String :=
  let iw := words impl
  let v := iw.headD "?"
  let extra := indExtra x.form
  let dup := defined.contains x.num
  let mustFail := indFails x.form || dup
  let big := bigOf x.inner
  if v.startsWith "crash" || v == "hang" || v == "panic" then s!"bad panic-or-crash impl={v} ind={x.form}"
  else
    match iw with
    | ["err", _, delta, _] =>
      if delta != "0" then s!"bad depth-not-restored delta={delta} from={k0} ind={x.form}"
      else if mustFail then "ok"
      else
        match big, x.inner with
        | some b, _ =>
          if (b.expectedInd x.form x.num k0).isSome then s!"bad valid-within-bound-rejected k={b.depth + extra} d={b.d} from={k0} ind={x.form}"
          else "ok"
        | none, "nest" :: _ :: _ :: k :: _ =>
          if k0 + k.toNat! + extra ≤ x.d then s!"bad valid-within-bound-rejected k={k.toNat! + extra} d={x.d} from={k0} ind={x.form}"
          else "ok"
        | _, _ => "ok"
    | "ok" :: _ :: _ :: _ :: delta :: num :: gen :: _ :: _ :: shown =>
      if delta != "0" then s!"bad depth-not-restored delta={delta} from={k0} ind={x.form}"
      else if mustFail then s!"bad malformed-indirect-accepted form={x.form} dup={dup}"
      else if num != toString x.num || gen != "0" then "bad wrong-id"
      else
        match big, x.inner with
        | some b, _ =>
          match b.expectedInd x.form x.num k0 with
          | some want => if impl.trimAscii.toString == want then "ok" else s!"bad wide-wrong-value want={want}"
          | none =>
            if b.leaf.dg.isSome then s!"bad deeper-than-bound-accepted k={b.depth + extra} d={b.d} from={k0} ind={x.form}"
            else "bad non-object-accepted"
        | none, "nest" :: _ :: _ :: k :: _ =>
          if k0 + k.toNat! + extra > x.d then s!"bad deeper-than-bound-accepted k={k.toNat! + extra} d={x.d} from={k0} ind={x.form}"
          else if sexpDepth (" ".intercalate shown) > k.toNat! + extra then "bad value-deeper-than-input"
          else "ok"
        | none, kind :: _ =>
          if k0 + sexpDepth (" ".intercalate shown) > x.d then s!"bad deeper-than-bound-accepted from={k0} ind={x.form}"
          else if kind == "deep" then "bad unclosed-accepted"
          else "ok"
        | _, _ => "bad panic-or-crash"
    | _ => "bad panic-or-crash"

/-- one step: `ind` steps by `judgeInd`, the others by `judgeStep` -/
def judgeStepC (k0 : Nat) (defined : List Nat) (w : List String) (impl : String) : String :=
  match indOf w with
  | some x => judgeInd k0 x defined impl
  | none => if w.head? == some "ind" then "bad panic-or-crash" else judgeStep k0 w impl

/-- the definitions after a step: an accepted `ind` step registers its number -/
def definedAfter (defined : List Nat) (w : List String) (impl : String) : List Nat :=
  match indOf w with
  | some x => if (words impl).head? == some "ok" then x.num :: defined else defined
  | none => defined

/-- a case on ONE context of its own -/
def judgeW (cw : List String) (impl : String) : String :=
  if (words impl).head? == some "enter-refused" then "bad enter-refused-within-bound"
  else
  match cw with
  | "seq" :: d :: k0 :: rest =>
    let steps := stepsOf d rest
    let outs := impl.splitOn " ; "
    let v := (words impl).headD "?"
    if v.startsWith "crash" || v == "hang" || v == "panic" then s!"bad panic-or-crash impl={v}"
    else if steps.length != outs.length || steps.isEmpty then "bad panic-or-crash"
    else
      -- the first step whose verdict is not `ok`, with its index
      let rec go (i : Nat) (defined : List Nat) : List (List String) → List String → String
        | st :: ss, o :: os =>
          let j := judgeStepC k0.toNat! defined st o
          if j == "ok" then go (i + 1) (definedAfter defined st o) ss os
          else
            match words j with
            | "bad" :: cls :: more => s!"bad {cls} step={i + 1} {" ".intercalate more}"
            | _ => j
        | _, _ => "ok"
      go 0 [] steps outs
  | "at" :: k0 :: rest => judgeStepC k0.toNat! [] rest impl
  | w => judgeStepC 0 [] w impl

def isCrash (impl : String) : Bool :=
  let v := (words impl).headD "?"
  v.startsWith "crash" || v == "hang" || v == "panic"

/-- oracle for `ctx`: contexts are independent - B's fresh depth is 0, A's depth is what A's own enter / leave calls made it,
    and the inner case is judged exactly as if it ran alone -/
def judgeCtx (dA jA : Nat) (mode : String) (inner : List String) (impl : String) : String :=
  if isCrash impl then s!"bad panic-or-crash impl={(words impl).headD "?"} other-context-entered={jA} mode={mode}"
  else
    match words impl with
    | ["enter-refused", "A"] => if jA ≤ dA then "bad enter-refused-within-bound ctx=A" else "ok"
    | "ctx" :: b0 :: a :: rest =>
      let verdict := judgeW inner (" ".intercalate rest)
      let wantA := if mode == "drop" then "-" else if mode == "leave" then "0" else toString jA
      if b0 != "0" && b0 != "-" then
        s!"bad context-depth-shared new-context-depth={b0} other-context-entered={jA} mode={mode} inner-verdict=[{verdict}]"
      else if a != wantA then s!"bad context-depth-shared other-context-depth-after={a} want={wantA} mode={mode}"
      else verdict
    | _ => "bad panic-or-crash"

/-- oracle for `cseq`, from the description alone: the depth of context i is k_i plus ITS OWN enter / leave steps (parses
    leave it as it is, steps on other contexts do not touch it); a parse step is judged as a `seq` step from that depth with
    the definitions of ITS context -/
def judgeCseq (cw : List String) (impl : String) : String :=
  if isCrash impl then s!"bad panic-or-crash impl={(words impl).headD "?"}"
  else
  match cseqOf cw with
  | none => "skip"
  | some (dk, steps) =>
    let segs := impl.splitOn " ; "
    let n := dk.length
    match segs with
    | [] => "bad panic-or-crash"
    | s0 :: more =>
      match words s0 with
      | "new" :: b0s =>
        if b0s.any (· != "0") then s!"bad context-depth-shared new-context-depth={" ".intercalate b0s}"
        else if (more.head?.map fun x => (words x).head? == some "enter-refused") == some true then "bad enter-refused-within-bound"
        else if b0s.length != n || more.length != steps.length + 1 then "bad panic-or-crash"
        else
          -- state: per context (expected depth, alive, numbers defined)
          let rec go (j : Nat) (st : List (Nat × Bool × List Nat)) : List (List String) → List String → String
            | step :: ss, o :: os =>
              match step with
              | i :: kind :: args =>
                match i.toNat?.bind (fun i => (st[i]?).bind fun e => (dk[i]?).map fun p => (i, e, p.1)), words o with
                | some (i, (e, alive, defined), d), before :: line =>
                  if !alive then "skip"
                  else if before != toString e then
                    s!"bad context-depth-shared step={j + 1} ctx={i} depth-before={before} want={e}"
                  else if kind == "enter" then
                    let want := if e < d then "entered" else "refused"
                    if line != [want] then s!"bad enter-obj-wrong step={j + 1} ctx={i} got={" ".intercalate line} want={want}"
                    else go (j + 1) (st.set i (if e < d then e + 1 else e, alive, defined)) ss os
                  else if kind == "leave" then
                    let want := if e ≥ 1 then "left" else "left-at-zero"
                    if line != [want] then s!"bad leave-obj-wrong step={j + 1} ctx={i}"
                    else go (j + 1) (st.set i (e - 1, alive, defined)) ss os
                  else if kind == "drop" then
                    if line != ["dropped"] then "bad panic-or-crash" else go (j + 1) (st.set i (e, false, defined)) ss os
                  else
                    let w := kind :: toString d :: args
                    let lineS := " ".intercalate line
                    let v := judgeStepC e defined w lineS
                    if v == "ok" then go (j + 1) (st.set i (e, alive, definedAfter defined w lineS)) ss os
                    else
                      match words v with
                      | "bad" :: cls :: rest => s!"bad {cls} step={j + 1} ctx={i} {" ".intercalate rest}"
                      | _ => v
                | _, _ => "skip"
              | _ => "skip"
            | [], [o] =>
              let want := st.map fun (e, alive, _) => if alive then toString e else "-"
              if words o == "end" :: want then "ok"
              else s!"bad context-depth-shared final-depths=[{o}] want=[{" ".intercalate want}]"
            | _, _ => "bad panic-or-crash"
          go 0 (dk.map fun p => (p.2, true, [])) steps more
      | _ => "bad panic-or-crash"

def judge (case impl : String) : String :=
  match words case with
  | "ctx" :: dA :: jA :: mode :: inner =>
    match dA.toNat?, jA.toNat? with
    | some dA, some jA => if inner.length < 3 || !ctxModes.contains mode then "skip" else judgeCtx dA jA mode inner impl
    | _, _ => "skip"
  | "cseq" :: rest => judgeCseq ("cseq" :: rest) impl
  | w => judgeW w impl

/-- a nesting profile: openers (0 = array, 1 = dictionary value, 2 = array with a leading sibling) -/
def render (profile : List Nat) (leaf : Bytes) : Bytes :=
  profile.foldr (fun o inner =>
    match o with
    | 0 => [91] ++ inner ++ [93]
    | 1 => [60, 60, 47, 75, 32] ++ inner ++ [62, 62]
    | _ => [91, 49, 32] ++ inner ++ [32, 47, 78, 93]) leaf

def leaves : List Bytes := [[55], [110, 117, 108, 108], [40, 97, 41], [47, 78], [91, 93], [60, 60, 62, 62], [49, 32, 48, 32, 82]]

def elemKinds : List String := ["int", "name", "str", "earr", "arr1", "null", "ref", "dict1", "hex", "real", "bool", "edict"]
def runKinds : List String := ["str", "strp", "stre", "name", "namex", "hex", "hexws", "zeros", "nines", "frac", "ws", "crlf", "cmt", "cmt1",
  "arrws", "arrcmt", "dictws", "kvws", "refws", "bigkey"]

/-! ### starting depth > 0 and several parses on one context (after missed seed C16_6) -/

/-- starting depths of the context for a bound d: 1, 2, d/2, d-1, d -/
def startDepths (d : Nat) : List Nat := ([1, 2, d / 2, d - 1, d].filter fun k => 1 ≤ k && k ≤ d).eraseDups

def profOf (kind openers : Nat) : List Nat := (List.range openers).map fun j => if kind == 2 then j % 3 else kind

/-- a step (a case without its bound word): a valid object of nesting depth t >= 1 -/
def nestStep (kind t : Nat) : String := s!"nest {hexOfBytes (render (profOf kind (t - 1)) [55])} {t}"

/-- a step: a syntax error AT DEPTH - an object of nesting depth t cut after its openers (0: the leaf is missing), after the
    leaf (1: no closer at all), before its last closing byte (2) -/
def cutStep (kind t pos : Nat) : String :=
  let prof := profOf kind (t - 1)
  let s := render prof [55]
  let pre := (prof.flatMap opener).length
  let cut := if pos == 0 then pre else if pos == 1 then pre + 1 else s.length - 1
  s!"cut {hexOfBytes (s.take cut)}"

/-- a step completed with its bound word -/
def withD (d : Nat) (step : String) : String :=
  match words step with
  | kind :: args => " ".intercalate (kind :: toString d :: args)
  | [] => ""

/-- a step: the step `step` as the body of indirect object `num` in form `form` -/
def indStep (form : String) (num : Nat) (step : String) : String := s!"ind {form} {num} {step}"

def seqCase (d k0 : Nat) (steps : List String) : String := s!"seq {d} {k0} ; " ++ " ; ".intercalate steps

/-! ### several contexts (after missed seed C16_9) -/

def ctxCase (dA jA : Nat) (mode c : String) : String := s!"ctx {dA} {jA} {mode} {c}"

/-- how often context A is entered before B parses: 0, 1, 2, dA-1, dA -/
def enteredOf (dA : Nat) : List Nat := ([0, 1, 2, dA - 1, dA].filter (· ≤ dA)).eraseDups

def cseqCase (dk : List (Nat × Nat)) (steps : List (Nat × String)) : String :=
  s!"cseq {dk.length} " ++ " ".intercalate (dk.map fun p => s!"{p.1} {p.2}") ++ " ; " ++
    " ; ".intercalate (steps.map fun p => s!"{p.1} {p.2}")

def gen (seed n : Nat) (tier : String) (emit : String → IO Unit) : IO Unit := do
  let mut r := Rng.mk' seed
  -- all depths d ∈ 1..64 against profiles just below, at, and above the bound
  for d in List.range 65 do
    for kind in [0, 1, 2] do
      for off in [0, 1, 2, 3] do
        -- value depth k = (#openers) + 1 for a scalar leaf
        let openers := d + off - 2
        if d + off ≥ 2 then
          let prof := (List.range openers).map fun j => if kind == 2 then j % 3 else kind
          let leaf : Bytes := [55]
          emit s!"nest {d} {hexOfBytes (render prof leaf)} {openers + 1}"
  -- random profiles and leaves; cuts at random points
  for _ in List.range n do
    let (d, r1) := r.nat 12
    let (len, r2) := r1.nat 14
    let (prof, r3) := (List.range len).foldl (fun (acc : List Nat × Rng) _ =>
      let (o, r) := acc.2.nat 3; (o :: acc.1, r)) ([], r2)
    let (leaf, r4) := r3.pick leaves
    let leafDepth := if leaf == [91, 93] || leaf == [60, 60, 62, 62] then 1 else 1
    let s := render prof leaf
    emit s!"nest {d} {hexOfBytes s} {len + leafDepth}"
    let (cut, r5) := r4.nat (s.length + 1)
    r := r5
    emit s!"cut {d} {hexOfBytes (s.take cut)}"
  -- very deep unclosed nesting: rejected at depth d, stack use independent of the input length
  let deeps := if tier == "thorough" then [1000, 100000, 1000000] else [1000, 100000]
  for nn in deeps do
    for d in [1, 50, 64] do
      emit s!"deep {d} {nn} arr"
      emit s!"deep {d} {nn} dict"

  -- WIDTH profiles: one level with n elements / entries, at nesting positions 1, d/2, d-1 (elements exactly at the bound)
  -- and d (elements one beyond the bound: rejected), inside arrays / dictionaries / mixed wrappers, every element kind
  let thorough := tier == "thorough"
  let mut i := 0
  for d in [2, 3, 50, 64] do
    for shape in ["arr", "dict"] do
      for q in [1, d / 2, d - 1, d].eraseDups do
        -- (width, number of element kinds): the list model runs the widths 300 / 1000 (arrays: 3000), the wider ones are judged
        -- by the oracle alone
        let sizes : List (Nat × Nat) :=
          if thorough then [(300, 12), (1000, 12), (3000, 4), (10000, 12), (100000, 2)]
          else [(300, 4), (1000, if shape == "arr" then 2 else if i % 20 == 0 then 1 else 0), (10000, 2)]
        for (nn, cnt) in sizes do
          for j in List.range cnt do
            let e := elemKinds[(i + j) % elemKinds.length]?.getD "int"
            let wrap := ["a", "d", "m"][(i + j) % 3]?.getD "a"
            emit s!"wide {d} {nn} {shape} {e} {q - 1} {wrap} -"
          i := i + 5
        -- a last element one level deeper than its siblings (at q = d-1: rejected after the whole width is parsed)
        emit s!"wide {d} 300 {shape} {elemKinds[i % 10]?.getD "int"} {q - 1} m deep"
        emit s!"wide {d} 10000 {shape} {elemKinds[(i + 3) % 10]?.getD "int"} {q - 1} a deep"
  -- every element kind once more at 10^4, a handful at 10^5 (thorough: 10^6)
  for e in elemKinds do
    emit s!"wide 3 10000 arr {e} 0 a -"
    emit s!"wide 50 10000 dict {e} 24 m -"
  for nn in (if thorough then [100000, 1000000] else [100000]) do
    emit s!"wide 2 {nn} arr int 0 a -"
    emit s!"wide 2 {nn} dict name 0 a -"
    emit s!"wide 3 {nn} arr earr 1 d -"
    emit s!"wide 64 {nn} arr str 62 m -"
    emit s!"wide 64 {nn} dict dict1 31 a -"
    emit s!"wide 50 {nn} arr arr1 24 d -"
    emit s!"wide 50 {nn} dict null 48 m -"
    emit s!"wide 50 {nn} arr ref 48 a deep"
    emit s!"wide 64 {nn} dict real 0 a deep"
  -- LENGTH profiles: long runs of every scalar kind, of white space and of comments; top level, at the bound inside mixed
  -- wrappers, half way inside dictionaries (quick: the 10^5 runs at one of the three places each)
  let mut jj := 0
  for kind in runKinds do
    let scalar := !(kind == "kvws" || kind == "bigkey")
    for nn in (if thorough then [1000, 10000, 100000, 1000000] else [1000, 10000, 100000]) do
      let places := [s!"run {if scalar then 1 else 2} {nn} {kind} 0 a", s!"run 64 {nn} {kind} {if scalar then 63 else 62} m",
                     s!"run 50 {nn} {kind} 24 d"]
      if thorough || nn < 100000 then
        for c in places do emit c
      else emit (places[jj % 3]?.getD "")
      if nn == 1000 then emit s!"run 3 {nn} {kind} 2 a"        -- one beyond the bound (kvws / bigkey: two)
    jj := jj + 1


  -- ===== every case kind from a context whose depth is ALREADY k0 in {1, 2, d/2, d-1, d} (`at`), and sequences of two and
  -- three parses on ONE context (`seq`); rem = d - k0 levels remain
  -- nesting profiles just below, at, and above what remains: every bound x every starting depth x 3 opener kinds
  for d in List.range 65 do
    for k0 in startDepths d do
      for kind in [0, 1, 2] do
        for off in [0, 1, 2, 3] do
          -- nesting depth t = rem - 1 + off
          if d - k0 + off ≥ 2 then
            let t := d - k0 + off - 1
            if kind == 0 || t ≥ 2 then emit s!"at {k0} {withD d (nestStep kind t)}"
  -- sequences: a bound rejection followed by what must still be accepted / rejected, acceptance then rejection, two
  -- rejections in a row, bound rejections interleaved with syntax errors at depth; the starting depth 0 too
  for d in List.range 65 do
    for k0 in (0 :: startDepths d) do
      let rem := d - k0
      for kind in (if thorough then [0, 1, 2] else [(d + k0) % 3]) do
        let acc := if rem ≥ 1 then [nestStep kind rem] else []        -- exactly at the bound: accepted
        let rej := nestStep kind (rem + 1)                               -- one beyond: rejected by the bound
        let rej2 := nestStep kind (rem + 2)
        let syn (pos : Nat) := cutStep kind (Nat.max rem 1) pos         -- a syntax error as deep as allowed
        emit (seqCase d k0 ([rej] ++ acc ++ [rej]))                     -- reject, accept at the bound, reject again
        emit (seqCase d k0 (acc ++ [rej] ++ acc))                       -- accept, reject, accept
        emit (seqCase d k0 [rej, rej, rej2])                            -- two rejections must not add up to one more level
        emit (seqCase d k0 [rej, rej])
        emit (seqCase d k0 ([syn 0, rej] ++ acc))                       -- syntax error at depth, bound rejection, accept
        emit (seqCase d k0 [rej, syn 2, rej])                           -- bound rejection, syntax error, same rejection again
        emit (seqCase d k0 ([rej2, syn 1] ++ acc))
        if rem ≥ 2 then
          emit (seqCase d k0 [nestStep kind (rem - 1), rej, rej2])
          emit (seqCase d k0 [s!"deep {1000 + d} {if kind == 1 then "dict" else "arr"}", rej, nestStep kind rem])
  -- random profiles, leaves and truncations from a random starting depth, and random sequences of them
  let mut r2 := Rng.mk' (seed + 7919)
  let mut recent : List String := []
  for it in List.range (if thorough then n / 3 else n / 2) do
    let (d0, ra) := r2.nat 12
    let d := d0 + 1
    let (kc, rb) := ra.nat 3
    let (kr, rc) := rb.nat d
    let k0 := if kc == 0 then kr + 1 else (startDepths d)[kr % (startDepths d).length]?.getD 1
    let (len, rd) := rc.nat 14
    let (prof, re) := (List.range len).foldl (fun (acc : List Nat × Rng) _ =>
      let (o, r) := acc.2.nat 3; (o :: acc.1, r)) ([], rd)
    let (leaf, rf) := re.pick leaves
    let s := render prof leaf
    let (cut, rg) := rf.nat (s.length + 1)
    let st1 := s!"nest {hexOfBytes s} {len + 1}"
    let st2 := s!"cut {hexOfBytes (s.take cut)}"
    emit s!"at {k0} {withD d st1}"
    emit s!"at {k0} {withD d st2}"
    recent := (st1 :: st2 :: recent).take 8
    r2 := rg
    if it % 2 == 1 then
      let (sd, rh) := r2.nat 12
      let (sk, ri) := rh.nat (sd + 1)
      let (a, rj) := ri.pick recent
      let (b, rk) := rj.pick recent
      let (c, rl) := rk.pick recent
      let (three, rm) := rl.nat 2
      r2 := rm
      emit (seqCase sd sk (if three == 1 then [a, b, c] else [a, b]))
  -- unclosed nesting from a starting depth
  for nn in deeps do
    for d in [1, 50, 64] do
      for k0 in startDepths d do
        emit s!"at {k0} deep {d} {nn} {if (d + k0) % 2 == 0 then "arr" else "dict"}"
  -- WIDTH profiles from a starting depth: the wide level at position 1, rem/2, rem-1 (elements exactly at the bound) and
  -- rem (one beyond: rejected); k0 = d: everything is rejected
  let mut wi := 0
  for d in [2, 3, 50, 64] do
    for k0 in startDepths d do
      let rem := d - k0
      for shape in ["arr", "dict"] do
        for q in ([1, rem / 2, rem - 1, rem].filter (· ≥ 1)).eraseDups do
          let e := elemKinds[wi % elemKinds.length]?.getD "int"
          let wrap := ["a", "d", "m"][wi % 3]?.getD "a"
          emit s!"at {k0} wide {d} 300 {shape} {e} {q - 1} {wrap} -"
          if thorough || wi % 4 == 0 then emit s!"at {k0} wide {d} 1000 {shape} {elemKinds[(wi + 5) % elemKinds.length]?.getD "int"} {q - 1} {wrap} -"
          if thorough || wi % 4 == 2 then emit s!"at {k0} wide {d} 10000 {shape} {elemKinds[(wi + 7) % elemKinds.length]?.getD "int"} {q - 1} {wrap} -"
          if wi % 2 == 0 then emit s!"at {k0} wide {d} 300 {shape} {elemKinds[wi % 10]?.getD "int"} {q - 1} m deep"
          wi := wi + 1
  emit "at 1 wide 2 100000 arr int 0 a -"
  emit "at 32 wide 64 100000 dict name 30 m -"
  emit "at 63 wide 64 100000 arr int 0 a -"
  emit (seqCase 3 1 ["wide 100000 arr int 1 a -", "wide 10000 arr int 0 a -", "wide 10000 arr earr 1 d -"])
  emit (seqCase 64 32 ["wide 1000 dict arr1 30 m -", "wide 1000 dict int 30 m -", "wide 1000 dict arr1 30 m -"])
  -- LENGTH profiles from a starting depth: at the bound and one beyond
  let mut rj2 := 0
  for kind in runKinds do
    let ld := if kind == "kvws" || kind == "bigkey" then 2 else 1
    for (d, k0) in [(2, 1), (3, 1), (64, 32), (64, 62), (50, 2), (3, 3)] do
      if d - k0 ≥ ld || d == k0 then
        let p := d - k0 - ld
        let wrap := ["a", "d", "m"][rj2 % 3]?.getD "a"
        emit s!"at {k0} run {d} 1000 {kind} {p} {wrap}"
        if d != k0 then emit s!"at {k0} run {d} 1000 {kind} {p + 1} {wrap}"
        if thorough || rj2 % 6 == 0 then emit s!"at {k0} run {d} 10000 {kind} {p} {wrap}"
        if thorough then emit s!"at {k0} run {d} 100000 {kind} {p} {wrap}"
        rj2 := rj2 + 1
    emit (seqCase 3 1 [s!"run 1000 {kind} 2 a", s!"run 1000 {kind} {2 - ld} a", s!"run 1000 {kind} 2 m"])

  -- ===== INDIRECT OBJECTS (`ind`): `parse_pdf_indirect_obj` on `<num> 0 obj <body> endobj` from a context whose depth is k0 in
  -- {0, 1, 2, d/2, d-1, d}; rem = d - k0 levels remain; a stream dictionary around the body takes one of them
  let atK (k0 : Nat) (c : String) : String := if k0 == 0 then c else s!"at {k0} {c}"
  for d in List.range 65 do
    for k0 in (0 :: startDepths d) do
      let rem := d - k0
      for kind in [0, 1, 2] do
        let one := thorough || kind == (d + k0) % 3
        for off in [0, 1, 2, 3] do
          -- plain objects: body nesting t in {rem-1, rem, rem+1, rem+2}
          if rem + off ≥ 2 then
            let t := rem + off - 1
            if kind == 0 || t ≥ 2 then emit (atK k0 (withD d (indStep "p" 1 (nestStep kind t))))
          -- stream objects: dictionary + body nesting in {rem-1, rem, rem+1, rem+2}
          if one && rem + off ≥ 3 then
            let t := rem + off - 2
            emit (atK k0 (withD d (indStep "s" (1 + off) (nestStep kind t))))
        -- every failure past the `obj` keyword (and one before it) with a body that fits / that exceeds the bound, and with a
        -- syntax error at depth in the body
        if one then
          for form in ["e", "l", "t", "k"] do
            let ex := indExtra form
            if rem ≥ 1 + ex then emit (atK k0 (withD d (indStep form 7 (nestStep kind (rem - ex)))))
            emit (atK k0 (withD d (indStep form 7 (nestStep kind (rem + 1 - ex)))))
          for form in ["p", "s"] do
            let t := Nat.max (rem - indExtra form) 1
            emit (atK k0 (withD d (indStep form 2 (cutStep kind t ((d + k0 + t) % 3)))))
  -- sequences mixing indirect and plain parses on ONE context (depth AND definitions shared)
  for d in List.range 65 do
    for k0 in (0 :: startDepths d) do
      let rem := d - k0
      for kind in (if thorough then [0, 1, 2] else [(d + k0) % 3]) do
        let accP := if rem ≥ 1 then [nestStep kind rem] else []                       -- plain, exactly at the bound
        let rejP := nestStep kind (rem + 1)
        let accI (num : Nat) := if rem ≥ 1 then [indStep "p" num (nestStep kind rem)] else []
        let rejI (num : Nat) := indStep "p" num (nestStep kind (rem + 1))
        let accS (num : Nat) := if rem ≥ 2 then [indStep "s" num (nestStep kind (rem - 1))] else []
        let rejS (num : Nat) := indStep "s" num (nestStep kind rem)
        let syn (pos : Nat) := cutStep kind (Nat.max rem 1) pos
        emit (seqCase d k0 (accI 1 ++ [rejP] ++ accI 2))                              -- indirect, plain rejection, indirect
        emit (seqCase d k0 ([rejI 1] ++ accP ++ accI 1))                              -- a rejected object is not registered
        emit (seqCase d k0 (accI 1 ++ accI 1 ++ accP ++ [rejP]))                      -- duplicate: rejected AFTER the body
        emit (seqCase d k0 ([rejP] ++ accS 1 ++ [indStep "e" 2 (nestStep kind (Nat.max rem 1))] ++ accP))
        emit (seqCase d k0 ([indStep "t" 1 (nestStep kind (Nat.max (rem - 1) 1)), indStep "l" 2 (nestStep kind (Nat.max (rem - 1) 1)), rejS 3] ++ accP))
        emit (seqCase d k0 ([indStep "p" 1 (syn 0), rejP] ++ accI 1))                 -- syntax error at depth inside an object
        emit (seqCase d k0 ([rejS 1, rejI 1, rejP] ++ accS 1))
        emit (seqCase d k0 (accP ++ [indStep "k" 1 (nestStep kind (Nat.max rem 1))] ++ accI 1 ++ [rejI 2]))
        if rem ≥ 2 then
          emit (seqCase d k0 [indStep "p" 1 s!"deep {1000 + d} {if kind == 1 then "dict" else "arr"}", rejI 1, indStep "p" 1 (nestStep kind rem), nestStep kind rem])
          emit (seqCase d k0 [indStep "s" 1 (nestStep kind (rem - 1)), indStep "p" 2 (nestStep kind (rem - 1)), indStep "s" 2 (nestStep kind (rem - 1)), rejP])
  -- random bodies (profiles, leaves, truncations) in random forms from random starting depths, and random sequences mixing
  -- them with plain steps
  let mut r3 := Rng.mk' (seed + 104729)
  let mut recentI : List String := []
  for it in List.range (if thorough then n / 3 else n / 2) do
    let (d0, ra) := r3.nat 12
    let d := d0 + 1
    let (kc, rb) := ra.nat 3
    let (kr, rc) := rb.nat (d + 1)
    let k0 := if kc == 0 then kr else (startDepths d)[kr % (startDepths d).length]?.getD 1
    let (len, rd) := rc.nat 14
    let (prof, re) := (List.range len).foldl (fun (acc : List Nat × Rng) _ =>
      let (o, r) := acc.2.nat 3; (o :: acc.1, r)) ([], rd)
    let (leaf, rf) := re.pick leaves
    let sb := render prof leaf
    let (cut, rg) := rf.nat (sb.length + 1)
    let (f1, rh) := rg.pick ["p", "p", "p", "s", "s", "e", "l", "t", "k"]
    let (f2, ri) := rh.pick ["p", "p", "s"]
    let (num, rj) := ri.nat 4
    let p1 := s!"nest {hexOfBytes sb} {len + 1}"
    let st1 := indStep f1 num p1
    let st2 := indStep f2 (num + 1) s!"cut {hexOfBytes (sb.take cut)}"
    emit (atK k0 (withD d st1))
    emit (atK k0 (withD d st2))
    recentI := (st1 :: p1 :: st2 :: recentI).take 9
    r3 := rj
    if it % 2 == 1 then
      let (sd, rk) := r3.nat 12
      let (sk, rl) := rk.nat (sd + 1)
      let (a, rm) := rl.pick recentI
      let (b, rn) := rm.pick recentI
      let (c, ro) := rn.pick recentI
      let (three, rp) := ro.nat 2
      r3 := rp
      emit (seqCase sd sk (if three == 1 then [a, b, c] else [a, b]))
  -- unclosed nesting inside an indirect object
  for nn in deeps do
    for d in [1, 50, 64] do
      for k0 in (0 :: startDepths d) do
        emit (atK k0 s!"ind {d} {if (d + k0) % 3 == 0 then "s" else "p"} 1 deep {nn} {if (d + k0) % 2 == 0 then "arr" else "dict"}")
  -- width profiles as bodies (widths 300 / 1000: below the model's work budget): the wide level at position 1, rem'/2,
  -- rem'-1 (elements exactly at the bound) and rem' (one beyond), rem' = what remains inside the form
  let mut wj := 0
  for d in [2, 3, 50, 64] do
    for k0 in (0 :: startDepths d) do
      for form in ["p", "s"] do
        let rem := d - k0 - indExtra form
        let shape := if wj % 2 == 0 then "arr" else "dict"
        for q in ([1, rem / 2, rem - 1, rem].filter (· ≥ 1)).eraseDups do
          let e := elemKinds[wj % elemKinds.length]?.getD "int"
          let wrap := ["a", "d", "m"][wj % 3]?.getD "a"
          emit (atK k0 s!"ind {d} {form} 1 wide 300 {shape} {e} {q - 1} {wrap} -")
          if thorough || wj % 12 == 0 then emit (atK k0 s!"ind {d} {form} 1 wide 1000 {shape} {elemKinds[(wj + 5) % elemKinds.length]?.getD "int"} {q - 1} {wrap} -")
          if wj % 2 == 0 then emit (atK k0 s!"ind {d} {form} 1 wide 300 {shape} {elemKinds[wj % 10]?.getD "int"} {q - 1} m deep")
          wj := wj + 1
  emit (seqCase 64 32 ["ind p 1 wide 1000 dict arr1 30 m -", "wide 1000 dict int 30 m -", "ind s 2 wide 1000 dict arr1 29 m -", "ind p 1 wide 300 arr int 0 a -"])
  -- length profiles as bodies: at the bound and one beyond, plain and as a stream-dictionary value
  let mut rj3 := 0
  for kind in runKinds do
    let ld := if kind == "kvws" || kind == "bigkey" then 2 else 1
    for (d, k0) in [(2, 0), (3, 1), (64, 32), (64, 61), (3, 3)] do
      let form := if rj3 % 3 == 2 then "s" else "p"
      let ex := indExtra form
      if d - k0 ≥ ld + ex then
        let p := d - k0 - ld - ex
        let wrap := ["a", "d", "m"][rj3 % 3]?.getD "a"
        emit (atK k0 s!"ind {d} {form} 1 run 1000 {kind} {p} {wrap}")
        emit (atK k0 s!"ind {d} {form} 1 run 1000 {kind} {p + 1} {wrap}")
      else if d == k0 then emit (atK k0 s!"ind {d} {form} 1 run 1000 {kind} 0 a")
      rj3 := rj3 + 1
    emit (seqCase 3 1 [s!"ind p 1 run 1000 {kind} {2 - ld} a", s!"run 1000 {kind} 2 a", s!"ind p 1 run 1000 {kind} {2 - ld} m", s!"ind s 2 run 1000 {kind} 0 a"])

  -- ===== SEVERAL CONTEXTS (`ctx`): context A = new(dA) entered jA in {0, 1, 2, dA-1, dA} times and then kept / dropped as it
  -- is / left again, BEFORE the case runs on its own new context B of bound dB in {1, 2, 3, jA-1, jA, jA+1, dA, 64}: what A
  -- holds is below, at and above B's bound.  Inner cases: nesting exactly at B's bound / one beyond (fresh, from k0, as a
  -- sequence, as an indirect object), a syntax error at depth, unclosed nesting
  let mut ci := 0
  for dA in [1, 2, 3, 4, 8, 64] do
    for jA in enteredOf dA do
      for mode in (if jA == 0 then ["keep", "drop"] else ["keep", "drop", "leave"]) do
        let dBs := ([1, 2, 3, jA - 1, jA, jA + 1, dA, 64] ++ (if thorough then [4, 5, 8, 2 * jA, 32, 63] else [])).filter (· ≥ 1)
        for dB in dBs.eraseDups do
          for kind in (if thorough then [0, 1, 2] else [ci % 3]) do
            let w (c : String) : IO Unit := emit (ctxCase dA jA mode c)
            for t in (if thorough then [dB - 1, dB, dB + 1, dB + 2] else [dB, dB + 1]) do
              if t ≥ 1 && (kind == 0 || t ≥ 2) then w (withD dB (nestStep kind t))
            for k0 in ([1, dB - 1, dB].filter fun k => 1 ≤ k && k ≤ dB).eraseDups do
              let rem := dB - k0
              if rem ≥ 1 then w s!"at {k0} {withD dB (nestStep kind rem)}"
              w s!"at {k0} {withD dB (nestStep kind (rem + 1))}"
            for k0 in [0, 1] do
              if k0 ≤ dB then
                let rem := dB - k0
                let acc := if rem ≥ 1 then [nestStep kind rem] else []
                w (seqCase dB k0 ([nestStep kind (rem + 1)] ++ acc ++ [nestStep kind (rem + 1)]))
                if k0 == ci % 2 then w (seqCase dB k0 (acc ++ [cutStep kind (Nat.max rem 1) (ci % 3), indStep "p" 1 (nestStep kind (Nat.max rem 1))] ++ acc))
            w (withD dB (indStep "p" 1 (nestStep kind dB)))
            w (withD dB (indStep "p" 1 (nestStep kind (dB + 1))))
            if dB ≥ 2 then w (withD dB (indStep "s" 2 (nestStep kind (dB - 1))))
            w (withD dB (cutStep kind dB (ci % 3)))
            w s!"deep {dB} {1000 + dA} {if kind == 1 then "dict" else "arr"}"
          ci := ci + 1
  -- A on ANOTHER thread, alive while B parses on the case's thread
  for dA in [2, 8, 64] do
    for jA in enteredOf dA do
      for dB in ([1, jA, jA + 1, 64].filter (· ≥ 1)).eraseDups do
        let kind := (dA + jA + dB) % 3
        emit (ctxCase dA jA "thread" (withD dB (nestStep kind dB)))
        emit (ctxCase dA jA "thread" (withD dB (nestStep kind (dB + 1))))
        emit (ctxCase dA jA "thread" s!"at 1 {withD dB (nestStep kind dB)}")
        emit (ctxCase dA jA "thread" (seqCase dB 0 [nestStep kind (dB + 1), nestStep kind dB]))
  -- very deep unclosed nesting, width and length profiles on B while A holds levels (A above B's bound: nothing of B's
  -- bound may leak away; on a 1 MiB stack unbounded recursion is a crash)
  for (dA, jA, mode) in [(8, 8, "drop"), (4, 2, "keep"), (64, 63, "keep"), (2, 2, "thread")] ++
      (if thorough then [(8, 8, "keep"), (64, 64, "drop"), (3, 1, "leave")] else []) do
    let w (c : String) : IO Unit := emit (ctxCase dA jA mode c)
    w "deep 3 100000 arr"
    w "deep 1 100000 dict"
    w "at 1 deep 3 100000 arr"
    w "ind 3 p 1 deep 100000 arr"
    w "wide 3 300 arr int 1 a -"
    w "wide 3 300 dict arr1 0 d -"
    w "wide 3 1000 arr earr 2 m -"
    w "wide 64 300 dict name 62 m -"
    w "wide 3 10000 arr int 1 a -"
    w "at 1 wide 3 300 arr int 0 a deep"
    w "run 2 1000 str 1 a"
    w "run 2 1000 bigkey 0 a"
    w "run 3 1000 arrcmt 3 m"
    w "at 1 run 3 10000 hexws 1 d"
    w (seqCase 3 1 ["wide 300 arr int 1 a -", "run 1000 name 1 a", "ind p 1 wide 300 dict int 0 a -"])
  -- random: contexts A around random profiles / truncations / sequences on B
  let mut r4 := Rng.mk' (seed + 15485863)
  let mut recentC : List String := []
  for it in List.range (if thorough then n / 6 else n / 3) do
    let (dA0, ra) := r4.nat 12
    let dA := dA0 + 1
    let (jc, rb) := ra.nat 3
    let (jr, rc) := rb.nat (dA + 1)
    let jA := if jc == 0 then jr else (enteredOf dA)[jr % (enteredOf dA).length]?.getD 1
    let (mode, rd) := rc.pick ["keep", "keep", "drop", "drop", "leave"]
    let (d, re) := rd.nat 13
    let (k0, rf) := re.nat (d + 1)
    let (len, rg) := rf.nat 14
    let (prof, rh) := (List.range len).foldl (fun (acc : List Nat × Rng) _ =>
      let (o, r) := acc.2.nat 3; (o :: acc.1, r)) ([], rg)
    let (leaf, ri) := rh.pick leaves
    let sb := render prof leaf
    let (cut, rj) := ri.nat (sb.length + 1)
    let (form, rk) := rj.pick ["p", "s", "e"]
    let st1 := s!"nest {hexOfBytes sb} {len + 1}"
    let st2 := s!"cut {hexOfBytes (sb.take cut)}"
    let st3 := indStep form 1 st1
    recentC := (st1 :: st2 :: st3 :: recentC).take 9
    r4 := rk
    let inner :=
      if it % 4 == 0 then withD d st1
      else if it % 4 == 1 then s!"at {k0} {withD d (if it % 8 == 1 then st2 else st3)}"
      else if it % 4 == 2 then s!"at {k0} {withD d st1}"
      else
        let (a, rl) := r4.pick recentC
        let (b, rm) := rl.pick recentC
        let (c, _) := rm.pick recentC
        seqCase d k0 (if it % 8 == 3 then [a, b, c] else [a, b])
    emit (ctxCase dA jA mode inner)

  -- ===== INTERLEAVINGS (`cseq`): two and three contexts alive on one thread, parses alternating between them, the client's
  -- own enter_obj / leave_obj on one context between the parses on another, a context dropped while entered; the expected
  -- depth of context i is tracked from ITS steps alone
  let mut qi := 0
  for dA in [1, 2, 3, 4, 8, 64] do
    for dB in [1, 2, 3, 4, 8, 64] do
      for kA in ([0, 1, dA - 1, dA].filter (· ≤ dA)).eraseDups do
        for kB in ([0, dB - 1, dB].filter (· ≤ dB)).eraseDups do
          let kind := qi % 3
          let acc (d e : Nat) : List String := if d - e ≥ 1 && e ≤ d then [nestStep kind (d - e)] else []
          let rej (d e : Nat) : String := nestStep kind (d - e + 1)
          let on (i : Nat) (l : List String) : List (Nat × String) := l.map fun x => (i, x)
          let two := [(dA, kA), (dB, kB)]
          let pats : List (List (Nat × Nat) × List (Nat × String)) := [
            -- alternate: at the bound on A, at the bound on B, A again, then the rejections
            (two, on 0 (acc dA kA) ++ on 1 (acc dB kB) ++ on 0 (acc dA kA) ++ [(1, rej dB kB), (0, rej dA kA)] ++ on 1 (acc dB kB)),
            (two, [(0, rej dA kA), (1, rej dB kB)] ++ on 0 (acc dA kA) ++ on 1 (acc dB kB) ++ [(0, rej dA kA)]),
            -- A enters one more level (refused at its bound) while B parses, leaves again
            (two, [(0, "enter")] ++ on 1 (acc dB kB) ++ [(1, rej dB kB)] ++ on 0 (acc dA (Nat.min (kA + 1) dA)) ++ [(0, "leave")] ++
                  on 1 (acc dB kB) ++ on 0 (acc dA (Nat.min (kA + 1) dA - 1)) ++ [(0, rej dA (Nat.min (kA + 1) dA - 1))]),
            -- A dropped while entered
            (two, [(0, "enter"), (0, "drop")] ++ on 1 (acc dB kB) ++ [(1, rej dB kB)] ++ on 1 (acc dB kB)),
            -- definitions are per context too: number 1 on A, number 1 on B (not a duplicate), number 1 on A again (duplicate)
            (two, on 0 ((acc dA kA).map (indStep "p" 1)) ++ on 1 ((acc dB kB).map (indStep "p" 1)) ++ on 0 ((acc dA kA).map (indStep "p" 1)) ++
                  [(1, indStep "p" 2 (rej dB kB))] ++ on 1 ((acc dB kB).map (indStep "p" 2)) ++ on 0 (acc dA kA)),
            -- syntax errors at depth and unclosed nesting on A between B's parses
            (two, [(0, cutStep kind (Nat.max (dA - kA) 1) (qi % 3))] ++ on 1 (acc dB kB) ++ [(0, s!"deep {1000 + dB} arr"), (1, rej dB kB)] ++ on 0 (acc dA kA)),
            -- three contexts
            ([(dA, kA), (dB, kB), (dB, 0)], on 0 (acc dA kA) ++ on 2 (acc dB 0) ++ on 1 (acc dB kB) ++ [(2, rej dB 0), (1, "leave"), (0, rej dA kA)] ++
                  on 1 (acc dB (kB - 1)) ++ on 2 (acc dB 0))]
          for (p, j) in pats.zipIdx do
            if (thorough || (qi + j) % 2 == 0 || dA ≤ 4 && dB ≤ 4) && p.2.length ≥ 2 then emit (cseqCase p.1 p.2)
          qi := qi + 1
  -- random interleavings: 2-3 contexts, 3-6 steps (random profiles / truncations / indirect objects; enter, leave, drop)
  let mut r5 := Rng.mk' (seed + 32452843)
  for _ in List.range (if thorough then n / 6 else n / 3) do
    let (nc0, ra) := r5.nat 2
    let nc := nc0 + 2
    let (dk, rb) := (List.range nc).foldl (fun (acc : List (Nat × Nat) × Rng) _ =>
      let (d, r) := acc.2.nat 10
      let (k, r') := r.nat (d + 1)
      (acc.1 ++ [(d, k)], r')) ([], ra)
    let (ns0, rc) := rb.nat 4
    -- (steps, expected depth per context, alive)
    let (steps, _, _, rd) := (List.range (ns0 + 3)).foldl (fun (acc : List (Nat × String) × List Nat × List Bool × Rng) _ =>
      let (steps, es, alive, r) := acc
      let (i, r1) := r.nat nc
      if !(alive.getD i true) then (steps, es, alive, r1)
      else
        let d := (dk.getD i (0, 0)).1
        let e := es.getD i 0
        let (what, r2) := r1.nat 10
        if what == 0 then (steps ++ [(i, "enter")], es.set i (if e < d then e + 1 else e), alive, r2)
        else if what == 1 && e ≥ 1 then (steps ++ [(i, "leave")], es.set i (e - 1), alive, r2)
        else if what == 2 && steps.length ≥ 2 then (steps ++ [(i, "drop")], es, alive.set i false, r2)
        else
          let (len, r3) := r2.nat (d + 3)
          let (prof, r4) := (List.range len).foldl (fun (acc : List Nat × Rng) _ =>
            let (o, r) := acc.2.nat 3; (o :: acc.1, r)) ([], r3)
          let (leaf, r5) := r4.pick leaves
          let sb := render prof leaf
          let (cut, r6) := r5.nat (sb.length + 1)
          let (sel, r7) := r6.nat 4
          let st := if sel == 0 then s!"cut {hexOfBytes (sb.take cut)}" else if sel == 1 then indStep "p" (1 + cut % 3) s!"nest {hexOfBytes sb} {len + 1}"
                    else s!"nest {hexOfBytes sb} {len + 1}"
          (steps ++ [(i, st)], es, alive, r7)) ([], dk.map (·.2), dk.map (fun _ => true), rc)
    r5 := rd
    if steps.length ≥ 2 then emit (cseqCase dk steps)

/-- non-trivial: at least two levels of nesting in the input; width / length profiles: at least 1000 units; `ind`: the body's
    case non-trivial; `at`: starting depth >= 1 and the inner case non-trivial; `seq`: at least two steps, one of them non-trivial -/
def nontrivialW0 : List String → Bool
  | "nest" :: _ :: _ :: k :: _ => k.toNat! ≥ 2
  | "cut" :: _ :: hex :: _ => hex.length ≥ 6
  | "deep" :: _ => true
  | "wide" :: _ :: n :: _ => n.toNat! ≥ 1000
  | "run" :: _ :: n :: _ => n.toNat! ≥ 1000
  | _ => false

def nontrivialW (w : List String) : Bool :=
  match indOf w with
  | some x => nontrivialW0 x.inner
  | none => nontrivialW0 w

def nontrivialWords : List String → Bool
  | "at" :: k0 :: rest => k0.toNat! ≥ 1 && nontrivialW rest
  | "seq" :: d :: _ :: rest => let st := stepsOf d rest; st.length ≥ 2 && st.any nontrivialW
  | w => nontrivialW w

/-- `ctx`: the other context entered at least once and the inner case non-trivial; `cseq`: parse steps on at least two
    different contexts, one of them non-trivial -/
def nontrivial (line : String) : Bool :=
  match words line with
  | "ctx" :: _ :: jA :: _ :: inner => jA.toNat! ≥ 1 && nontrivialWords inner
  | "cseq" :: rest =>
    match cseqOf ("cseq" :: rest) with
    | some (_, steps) =>
      let parses := steps.filter fun st => !(["enter", "leave", "drop"].contains ((st.drop 1).headD ""))
      (parses.map (·.headD "")).eraseDups.length ≥ 2 &&
        parses.any fun st => match st with
          | _ :: kind :: args => nontrivialW (kind :: "0" :: args)
          | _ => false
    | none => false
  | w => nontrivialWords w

def driver : PropDriver := { gen, model, judge, nontrivial }
end Driver.C16
