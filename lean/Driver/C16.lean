import Driver.Common
import Driver.ObjFmt
import Parsley.Model.Obj
namespace Driver.C16
open Parsley Parsley.Prim Parsley.Obj Driver

/-- cases:
    `nest <d> <hex> <k>`   a syntactically valid object of known nesting depth k (by construction)
    `cut  <d> <hex>`       a prefix / mutation of such an object (failure point inside a nested object)
    `deep <d> <n> arr|dict` n unclosed openers (n up to 10^6): must be rejected, without a crash -/
def inputOf (w : List String) : Option (Nat × Bytes) :=
  match w with
  | "deep" :: d :: n :: kind :: _ =>
    match d.toNat?, n.toNat? with
    | some d, some n =>
      let opener : Bytes := if kind == "dict" then [60, 60, 47, 75, 32] else [91]
      some (d, (List.replicate n opener).flatten)
    | _, _ => none
  | _ :: d :: hex :: _ =>
    match d.toNat?, bytesOfHex hex with
    | some d, some s => some (d, s)
    | _, _ => none
  | _ => none

def model (line : String) : String :=
  match inputOf (words line) with
  | some (d, s) =>
    let (r, c) := parseObj ⟨0, d⟩ s 0
    let delta : Int := (c.cur : Int) - 0
    match r with
    | (.ok v, k) => s!"ok {v.start} {v.stop} {k} {delta} {objSexp v.val}"
    | (.err e, _) => s!"err {e} {delta}"
    | (.panic p, _) => s!"panic {p}"
  | none => "bad-case"

def judge (case impl : String) : String :=
  let w := words case
  let iw := words impl
  match w, iw with
  | "nest" :: d :: _ :: k :: _, "ok" :: _ :: _ :: _ :: delta :: sexp =>
    if delta != "0" then "bad depth-not-restored"
    else if k.toNat! > d.toNat! then s!"bad deeper-than-bound-accepted k={k} d={d}"
    else if sexpDepth (" ".intercalate sexp) > k.toNat! then s!"bad value-deeper-than-input"
    else "ok"
  | "nest" :: d :: _ :: k :: _, ["err", _, delta] =>
    if delta != "0" then "bad depth-not-restored"
    else if k.toNat! ≤ d.toNat! then s!"bad valid-within-bound-rejected k={k} d={d}"
    else "ok"
  | _ :: d :: _, "ok" :: _ :: _ :: _ :: delta :: sexp =>
    if delta != "0" then "bad depth-not-restored"
    else if sexpDepth (" ".intercalate sexp) > d.toNat! then "bad deeper-than-bound-accepted"
    else if w.head? == some "deep" then "bad unclosed-accepted"
    else "ok"
  | _, ["err", _, delta] => if delta != "0" then "bad depth-not-restored" else "ok"
  | _, _ => "bad panic-or-crash"

/-- a nesting profile: openers (0 = array, 1 = dictionary value, 2 = array with a leading sibling) -/
def render (profile : List Nat) (leaf : Bytes) : Bytes :=
  profile.foldr (fun o inner =>
    match o with
    | 0 => [91] ++ inner ++ [93]
    | 1 => [60, 60, 47, 75, 32] ++ inner ++ [62, 62]
    | _ => [91, 49, 32] ++ inner ++ [32, 47, 78, 93]) leaf

def leaves : List Bytes := [[55], [110, 117, 108, 108], [40, 97, 41], [47, 78], [91, 93], [60, 60, 62, 62], [49, 32, 48, 32, 82]]

def gen (seed n : Nat) (tier : String) (emit : String → IO Unit) : IO Unit := do
  let mut r := Rng.mk' seed
  -- all depths d ∈ 1..64 against profiles just below, at, and above the bound
  for d in List.range 65 do
    for kind in [0, 1, 2] do
      for off in [0, 1, 2, 3] do
        -- value depth k = (#openers) + 1 for a scalar leaf
        let openers := d + off - 2
        if d + off ≥ 2 then
          let prof := (List.range openers).map fun j => if kind == 2 then j % 3 else kind
          let leaf : Bytes := [55]
          emit s!"nest {d} {hexOfBytes (render prof leaf)} {openers + 1}"
  -- random profiles and leaves; cuts at random points
  for _ in List.range n do
    let (d, r1) := r.nat 12
    let (len, r2) := r1.nat 14
    let (prof, r3) := (List.range len).foldl (fun (acc : List Nat × Rng) _ =>
      let (o, r) := acc.2.nat 3; (o :: acc.1, r)) ([], r2)
    let (leaf, r4) := r3.pick leaves
    let leafDepth := if leaf == [91, 93] || leaf == [60, 60, 62, 62] then 1 else 1
    let s := render prof leaf
    emit s!"nest {d} {hexOfBytes s} {len + leafDepth}"
    let (cut, r5) := r4.nat (s.length + 1)
    r := r5
    emit s!"cut {d} {hexOfBytes (s.take cut)}"
  -- very deep unclosed nesting: rejected at depth d, stack use independent of the input length
  let deeps := if tier == "thorough" then [1000, 100000, 1000000] else [1000, 100000]
  for nn in deeps do
    for d in [1, 50, 64] do
      emit s!"deep {d} {nn} arr"
      emit s!"deep {d} {nn} dict"

/-- non-trivial: at least two levels of nesting in the input -/
def nontrivial (line : String) : Bool :=
  match words line with
  | "nest" :: _ :: _ :: k :: _ => k.toNat! ≥ 2
  | "cut" :: _ :: hex :: _ => hex.length ≥ 6
  | "deep" :: _ => true
  | _ => false

def driver : PropDriver := { gen, model, judge, nontrivial }
end Driver.C16
