import Driver.Common
import Parsley.Model.Buffer
import Parsley.Spec.Buffer
namespace Driver.C17
open Parsley Parsley.Buffer Parsley.BufferSpec Driver

/-! ## line protocol: parsing operations, printing results -/

def parseOp (tok : String) : Option Op :=
  match tok.splitOn "." with
  | ["new", h] => (bytesOfHex h).map .new
  | ["v", i, s, n] => do some (.view (← i.toNat?) (← s.toNat?) (← n.toNat?))
  | ["vf", i, s] => do some (.viewFrom (← i.toNat?) (← s.toNat?))
  | ["rel", i] => do some (.release (← i.toNat?))
  | ["dr", i, n] => do some (.drop (← i.toNat?) (← n.toNat?))
  | ["ap", i, h] => do some (.append (← i.toNat?) (← bytesOfHex h))
  | ["sz", i] => do some (.meth (← i.toNat?) .size)
  | ["rem", i] => do some (.meth (← i.toNat?) .remaining)
  | ["cur", i] => do some (.meth (← i.toNat?) .getCursor)
  | ["pk", i] => do some (.meth (← i.toNat?) .peek)
  | ["buf", i] => do some (.meth (← i.toNat?) .buf)
  | ["sc", i, k] => do some (.meth (← i.toNat?) (.setCursor (← k.toNat?)))
  | ["inc", i] => do some (.meth (← i.toNat?) .incr)
  | ["dec", i] => do some (.meth (← i.toNat?) .decr)
  | ["cc", i, k] => do some (.meth (← i.toNat?) (.checkCursor (← k.toNat?)))
  | ["scu", i, k] => do some (.meth (← i.toNat?) (.setCursorU (← k.toNat?)))
  | ["incu", i] => do some (.meth (← i.toNat?) .incrU)
  | ["decu", i] => do some (.meth (← i.toNat?) .decrU)
  | ["cp", i, h] => do some (.meth (← i.toNat?) (.checkPrefix (← bytesOfHex h)))
  | ["al", i, h] => do some (.meth (← i.toNat?) (.allowed (← bytesOfHex h)))
  | ["un", i, h] => do some (.meth (← i.toNat?) (.until_ (← bytesOfHex h)))
  | ["scan", i, h] => do some (.meth (← i.toNat?) (.scan (← bytesOfHex h)))
  | ["bscan", i, h] => do some (.meth (← i.toNat?) (.bscan (← bytesOfHex h)))
  | ["ex", i, h] => do some (.meth (← i.toNat?) (.exact (← bytesOfHex h)))
  | ["xt", i, n] => do some (.meth (← i.toNat?) (.extract (← n.toNat?)))
  | _ => none

def showMeth (i : Nat) : Meth → String
  | .size => s!"sz.{i}" | .remaining => s!"rem.{i}" | .getCursor => s!"cur.{i}"
  | .peek => s!"pk.{i}" | .buf => s!"buf.{i}"
  | .setCursor k => s!"sc.{i}.{k}" | .incr => s!"inc.{i}" | .decr => s!"dec.{i}"
  | .checkCursor k => s!"cc.{i}.{k}" | .setCursorU k => s!"scu.{i}.{k}"
  | .incrU => s!"incu.{i}" | .decrU => s!"decu.{i}"
  | .checkPrefix t => s!"cp.{i}.{hexOfBytes t}" | .allowed t => s!"al.{i}.{hexOfBytes t}"
  | .until_ t => s!"un.{i}.{hexOfBytes t}" | .scan t => s!"scan.{i}.{hexOfBytes t}"
  | .bscan t => s!"bscan.{i}.{hexOfBytes t}" | .exact t => s!"ex.{i}.{hexOfBytes t}"
  | .extract n => s!"xt.{i}.{n}"

def showOp : Op → String
  | .new bs => s!"new.{hexOfBytes bs}"
  | .view i s n => s!"v.{i}.{s}.{n}"
  | .viewFrom i s => s!"vf.{i}.{s}"
  | .release i => s!"rel.{i}"
  | .meth i m => showMeth i m
  | .drop i n => s!"dr.{i}.{n}"
  | .append i bs => s!"ap.{i}.{hexOfBytes bs}"

def opName (o : Op) : String := ((showOp o).splitOn ".").headD "?"

def hex2 (b : UInt8) : String := String.ofList [hexDigit (b.toNat / 16), hexDigit (b.toNat % 16)]

def showOut : Res Out → String
  | .ok .unit => "u"
  | .ok (.nat n) => s!"n:{n}"
  | .ok (.bool true) => "t"
  | .ok (.bool false) => "f"
  | .ok (.obyte (some b)) => s!"some:{hex2 b}"
  | .ok (.obyte none) => "none"
  | .ok (.bytes bs) => s!"b:{hexOfBytes bs}"
  | .ok .created => "new"
  | .ok .noslot => "noslot"
  | .err k => s!"e:{k}"
  | .panic _ => "panic"

/-- A machine the line protocol can drive: the model (`Sys`) or the copy machine (`ASys`). -/
structure Machine (σ : Type) where
  step : σ → Op → Res Out × σ
  nslots : σ → Nat
  live : σ → Nat → Bool

def modelM : Machine Sys :=
  { step := step, nslots := fun s => s.views.length, live := fun s j => (s.get j).isSome }
def modelOrigM : Machine Sys := { modelM with step := stepOrig }
def specM : Machine ASys :=
  { step := astep, nslots := fun s => s.views.length, live := fun s j => (s.get j).isSome }

/-- which slot is probed after an operation -/
def probeSlot {σ : Type} (M : Machine σ) (op : Op) (r : Res Out) (s' : σ) : Option Nat :=
  match r with
  | .ok .noslot => none
  | .ok .created => some (M.nslots s' - 1)
  | .err _ => match op with | .meth i _ => some i | _ => none
  | _ => match op with
    | .meth i _ => some i | .drop i _ => some i | .append i _ => some i | _ => none

/-- probe = get_cursor, size, buf() on slot j, through the machine's own step -/
def probe {σ : Type} (M : Machine σ) (s : σ) (j : Nat) : Option String × σ :=
  let (r1, s1) := M.step s (.meth j .getCursor)
  let (r2, s2) := M.step s1 (.meth j .size)
  let (r3, s3) := M.step s2 (.meth j .buf)
  match r1, r2, r3 with
  | .ok (.nat c), .ok (.nat z), .ok (.bytes b) => (some s!"{c},{z},{hexOfBytes b}", s3)
  | _, _, _ => (none, s3)

def finalDump {σ : Type} (M : Machine σ) (s : σ) : List String :=
  let rec go (fuel j : Nat) (s : σ) (acc : List String) : List String :=
    match fuel with
    | 0 => acc.reverse
    | fuel + 1 =>
      if M.live s j then
        let (r1, s1) := M.step s (.meth j .getCursor)
        let (r2, s2) := M.step s1 (.meth j (.setCursor 0))
        let (r3, s3) := M.step s2 (.meth j .buf)
        match r1, r3 with
        | .ok (.nat c), .ok (.bytes b) =>
          if r2.isPanic then ("panic" :: acc).reverse
          else go fuel (j + 1) s3 (s!"F{j}:{c},{showOut r2},{hexOfBytes b}" :: acc)
        | _, _ => ("panic" :: acc).reverse
      else go fuel (j + 1) s acc
  go (M.nslots s) 0 s []

def runLine {σ : Type} (M : Machine σ) (s0 : σ) (ops : List Op) : String :=
  let rec go (s : σ) (ops : List Op) (acc : List String) : List String :=
    match ops with
    | [] => acc.reverse ++ finalDump M s
    | op :: rest =>
      let (r, s') := M.step s op
      if r.isPanic then ("panic" :: acc).reverse
      else
        match probeSlot M op r s' with
        | none => go s' rest (showOut r :: acc)
        | some j =>
          match probe M s' j with
          | (some p, s'') => go s'' rest ((showOut r ++ "|" ++ p) :: acc)
          | (none, _) => ("panic" :: showOut r :: acc).reverse
  let toks := go s0 ops []
  -- first token: outcome summary  clean:0 | errs:<number of Err results> | panic:<index of the panicking op>
  let summary :=
    if toks.getLast? == some "panic" then s!"panic:{toks.length - 1}"
    else
      let n := (toks.filter (fun t => t.startsWith "e:")).length
      if n == 0 then "clean:0" else s!"errs:{n}"
  " ".intercalate (summary :: toks)

def parseCase (line : String) : Option (String × Bytes × List Op) :=
  match words line with
  | tag :: h :: ops =>
    if tag != "ops" && tag != "oops" then none else
    match bytesOfHex h, ops.mapM parseOp with
    | some b, some os => some (tag, b, os)
    | _, _ => none
  | _ => none

def model (line : String) : String :=
  match parseCase line with
  | some (tag, b, ops) =>
    if tag == "oops" then runLine modelOrigM (Sys.init b) ops else runLine modelM (Sys.init b) ops
  | none => "bad-case"

/-- the oracle: the copy machine of Spec/Buffer.lean (never calls the model) -/
def expected (line : String) : String :=
  match parseCase line with
  | some (_, b, ops) => runLine specM (ASys.init b) ops
  | none => "bad-case"

/-- class of a rejection = name of the first operation whose token differs (`final` for the dump) -/
def judge (case impl : String) : String :=
  let e := expected case
  let got := impl.trimAscii.toString
  if e == got then "ok" else
  let et := (e.splitOn " ").drop 1; let gt := (got.splitOn " ").drop 1   -- (summary token dropped)
  let opsToks := (words case).drop 2
  let rec firstDiff (k : Nat) : List String → List String → Nat
    | a :: as, b :: bs => if a == b then firstDiff (k + 1) as bs else k
    | _, _ => k
  let k := firstDiff 0 et gt
  let cls := match opsToks[k]? with
    | some t => (t.splitOn ".").headD "?"
    | none => "final"
  s!"bad {cls} step={k} expected={et[k]?.getD "<end>"} got={gt[k]?.getD "<end>"}"

/-! ## generators -/

def huge : Nat := 18446744073709551615

def tagsAB : List Bytes := [[], [0x61], [0x62], [0x61, 0x62], [0x62, 0x61], [0x61, 0x61]]
def setsAB : List Bytes := [[], [0x61], [0x62], [0x61, 0x62]]

/-- every operation with every small argument, on slot `i` whose view has `n` bytes
    (`nslots` slots exist) -/
def alphabet (i n : Nat) (withViews : Bool) : List Op :=
  let ks := List.range (n + 2) ++ [huge]
  let ms : List Meth :=
    [.size, .remaining, .getCursor, .peek, .buf, .incr, .decr, .incrU, .decrU]
    ++ ks.map .setCursor ++ ks.map .checkCursor ++ ks.map .setCursorU ++ ks.map .extract
    ++ tagsAB.map .checkPrefix ++ tagsAB.map .exact ++ tagsAB.map .scan ++ tagsAB.map .bscan
    ++ setsAB.map .allowed ++ setsAB.map .until_
  let base := ms.map (.meth i) ++ ks.map (.drop i) ++ [[], [0x61], [0x62, 0x61]].map (.append i)
  if withViews then
    base ++ [.release i, .viewFrom i 0, .viewFrom i 1, .viewFrom i n, .viewFrom i huge,
             .view i 0 n, .view i 1 (n - 1), .view i 0 (n + 1), .view i 1 n, .view i huge 1, .view i 1 huge,
             .view i huge huge]
  else base

def allBufs : Nat → List Bytes
  | 0 => [[]]
  | n + 1 => (allBufs n).flatMap fun b => [0x61 :: b, 0x62 :: b]

def bufsUpTo (n : Nat) : List Bytes := (List.range (n + 1)).flatMap allBufs

/-- all (start,size) windows of a buffer of length n -/
def windows (n : Nat) : List (Nat × Nat) :=
  (List.range (n + 1)).flatMap fun s => (List.range (n - s + 1)).map fun k => (s, k)

def seqs (alpha : List Op) : Nat → List (List Op)
  | 0 => [[]]
  | k + 1 => [] :: alpha.flatMap fun o => (seqs alpha k).map (o :: ·)

def emitCase (emit : String → IO Unit) (b : Bytes) (ops : List Op) : IO Unit :=
  emit s!"ops {hexOfBytes b} {" ".intercalate (ops.map showOp)}"

/-- Exhaustive stream: buffer × window × nested window × sharing pattern × cursor × op sequences ≤ k.
    `nest = false` operates on the first-level view (slot 1), `true` on a view of the view (slot 2). -/
def genExhaustive (emit : String → IO Unit) (maxLen k : Nat) (nest : Bool) : IO Unit := do
  for b in bufsUpTo maxLen do
    for (s1, n1) in windows b.length do
      let inner : List (List Op × Nat × Nat) :=
        if nest then (windows n1).map fun (s2, n2) => ([Op.view 0 s1 n1, Op.view 1 s2 n2], 2, n2)
        else [([Op.view 0 s1 n1], 1, n1)]
      for (setup, slot, n) in inner do
        for unshared in [false, true] do
          let rel := if unshared then (List.range slot).map Op.release else []
          for c in List.range (n + 1) do
            let pre := setup ++ rel ++ (if c == 0 then [] else [Op.meth slot (.setCursor c)])
            for sq in seqs (alphabet slot n (k ≤ 1)) k do
              if sq.length == k then emitCase emit b (pre ++ sq)

/-- one random operation on the copy machine's current state (mostly in range) -/
def randOp (r : Rng) (st : ASys) (alphaBytes : Bytes) : Op × Rng :=
  let nsl := st.views.length
  -- slot: mostly the newest live buffer, sometimes any slot, occasionally a dead / non-existent one
  let liveSlots := (List.range nsl).filter fun j => (st.get j).isSome
  let (c0, r) := r.nat 10
  let (i, r) :=
    if c0 < 6 && !liveSlots.isEmpty then (liveSlots.getLast?.getD 0, r)
    else if c0 < 9 && !liveSlots.isEmpty then r.pick liveSlots
    else if c0 == 9 && !liveSlots.isEmpty then
      let (c1, r) := r.nat 4
      if c1 == 0 then r.nat (nsl + 1) else r.pick liveSlots
    else r.nat (nsl + 1)
  let n := match st.get i with | some a => a.win.length | none => 3
  let cur := match st.get i with | some a => a.cur | none => 0
  let win := match st.get i with | some a => a.win | none => []
  let (kind, r) := r.nat 100
  let num (r : Rng) : Nat × Rng :=
    let (c, r) := r.nat 20
    if c == 0 then (huge, r) else if c == 1 then (huge - 1, r) else if c < 5 then
      let (d, r) := r.nat 3; (n + d, r)
    else r.nat (n + 1)
  -- a tag: usually a substring of the window (so scans succeed), sometimes random
  let tag (r : Rng) : Bytes × Rng :=
    let (c, r) := r.nat 10
    if c < 6 && n > 0 then
      let (s, r) := r.nat n
      let (l, r) := r.nat 4
      ((win.drop s).take (l + 1), r)
    else if c == 6 then ([], r)
    else
      let (l, r) := r.nat 3
      let rec mk (l : Nat) (r : Rng) (acc : Bytes) : Bytes × Rng :=
        match l with
        | 0 => (acc, r)
        | l + 1 => let (x, r) := r.pick alphaBytes.toArray.toList; mk l r (x :: acc)
      mk (l + 1) r []
  if kind < 8 then
    let (s, r) := num r; let (k, r) := num r
    let (c, r) := r.nat 3
    (.view i s (if c == 0 then k else if s ≤ n then (n - s) - (k % (n - s + 1)) else k), r)
  else if kind < 12 then let (s, r) := num r; (.viewFrom i s, r)
  else if kind < 16 then
    let (c, r) := r.nat 10
    if liveSlots.length > 1 || c == 0 then (.release i, r) else (.meth i .peek, r)
  else if kind < 19 then let (l, r) := r.nat 6; let (bs, r) := Rng.bytes l r; (.new (bs.map fun x => 0x61 + x % 3), r)
  else if kind < 27 then
    let (c, r) := r.nat 4
    if c == 0 then let (k, r) := num r; (.drop i k, r) else let (k, r) := r.nat (cur + 2); (.drop i k, r)
  else if kind < 33 then let (t, r) := tag r; (.append i t, r)
  else if kind < 40 then let (k, r) := num r; (.meth i (.setCursor k), r)
  else if kind < 44 then (.meth i .incr, r)
  else if kind < 48 then (.meth i .decr, r)
  else if kind < 50 then let (k, r) := num r; (.meth i (.checkCursor k), r)
  else if kind < 52 then
    let (c, r) := r.nat 12
    if c == 0 then let (k, r) := num r; (.meth i (.setCursorU k), r)
    else let (k, r) := r.nat (n + 1); (.meth i (.setCursorU k), r)
  else if kind < 53 then
    let (c, r) := r.nat 8
    if cur < n || c == 0 then (.meth i .incrU, r) else (.meth i .decr, r)
  else if kind < 54 then
    let (c, r) := r.nat 8
    if cur > 0 || c == 0 then (.meth i .decrU, r) else (.meth i .incr, r)
  else if kind < 58 then let (t, r) := tag r; (.meth i (.checkPrefix t), r)
  else if kind < 63 then let (t, r) := tag r; (.meth i (.allowed t), r)
  else if kind < 68 then let (t, r) := tag r; (.meth i (.until_ t), r)
  else if kind < 76 then
    let (t, r) := tag r
    let (c, r) := r.nat 8
    if t.isEmpty && c != 0 then (.meth i (.scan (win.take 1)), r) else (.meth i (.scan t), r)
  else if kind < 84 then
    let (t, r) := tag r
    let (c, r) := r.nat 8
    if t.isEmpty && c != 0 then (.meth i (.bscan (win.take 1)), r) else (.meth i (.bscan t), r)
  else if kind < 89 then let (t, r) := tag r; (.meth i (.exact t), r)
  else if kind < 95 then let (k, r) := num r; (.meth i (.extract k), r)
  else if kind < 96 then (.meth i .peek, r)
  else if kind < 97 then (.meth i .size, r)
  else if kind < 98 then (.meth i .remaining, r)
  else if kind < 99 then (.meth i .getCursor, r)
  else (.meth i .buf, r)

def genRandom (emit : String → IO Unit) (seed n : Nat) : IO Unit := do
  let mut r := Rng.mk' seed
  for _ in List.range n do
    let (lenClass, r1) := r.nat 10
    let (len, r2) := if lenClass < 6 then r1.nat 9 else if lenClass < 9 then r1.nat 25 else r1.nat 65
    let (asz, r3) := r2.nat 3
    let alpha : Bytes := [[0x61, 0x62], [0x61, 0x62, 0x63], [0x30, 0x31, 0x32, 0x33, 0x34, 0x35, 0x36, 0x37, 0x38, 0x39]][asz]!
    let (raw, r4) := Rng.bytes len r3
    let b : Bytes := raw.map fun x => alpha[x.toNat % alpha.length]!
    let (nops, r5) := r4.nat 40
    r := r5
    let mut st := ASys.init b
    let mut ops : List Op := []
    -- prologue: a chain of 0..3 nested views (often with start > 0), parents released half of the time
    let (depth, r6) := r.nat 4
    r := r6
    for d in List.range depth do
      let n := match st.get d with | some a => a.win.length | none => 0
      let (s0, r') := r.nat (n / 3 + 1)
      let (cut, r'') := r'.nat (n / 4 + 1)
      r := r''
      let op := Op.view d s0 (n - s0 - cut)
      ops := op :: ops
      st := (astep st op).2
    let (relc, r7) := r.nat 2
    r := r7
    if relc == 1 then
      for d in List.range depth do
        let op := Op.release d
        ops := op :: ops
        st := (astep st op).2
    for _ in List.range (nops + 1) do
      let (op, r') := randOp r st alpha
      r := r'
      let (res, st') := astep st op
      -- do not generate past a panic (the run stops there anyway)
      ops := op :: ops
      st := st'
      if res.isPanic then break
    emitCase emit b ops.reverse

def gen (seed n : Nat) (tier : String) (emit : String → IO Unit) : IO Unit := do
  if tier == "thorough" then
    genExhaustive emit 4 1 false
    genExhaustive emit 3 1 true
    genExhaustive emit 2 2 false
    genExhaustive emit 2 2 true
  else
    genExhaustive emit 3 1 false
    genExhaustive emit 2 1 true
    genExhaustive emit 1 2 false
  genRandom emit seed n

/-- non-trivial: the sequence operates on a *restricted* view (a `v.`/`vf.` op succeeded with a proper
    sub-window, or a nested one) and contains at least one cursor-moving / scanning / mutating op on a
    slot other than 0.  Decided on the copy machine. -/
def nontrivial (line : String) : Bool :=
  match parseCase line with
  | some (_, _, ops) =>
    let onView := ops.any fun o => match o with
      | .meth i m => i > 0 && (match m with
          | .size | .remaining | .getCursor | .peek | .buf => false | _ => true)
      | .drop i _ => i > 0 | .append i _ => i > 0 | _ => false
    let restricted := ops.any fun o => match o with
      | .view _ s _ => s > 0 | .viewFrom _ s => s > 0 | _ => false
    let restricted2 := ops.any fun o => match o with
      | .view i _ _ => i > 0 | .viewFrom i _ => i > 0 | _ => false
    onView && (restricted || restricted2)
  | none => false

def driver : PropDriver := { gen, model, judge, nontrivial }
end Driver.C17
