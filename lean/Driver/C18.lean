import Driver.Common
import Parsley.Model.Comb
import Parsley.Spec.Peg
/-
  Line protocol for C18.

  case   : `<tag> <expr> <hexbuf> <pos>`
           expr (prefix, no blanks):  `.`XY seq   `|`XY alt   `*`X star   `!`X not
                                       `U` any-ascii   `=hh` byte == hh   `~hh` byte != hh   `[llhh` ll <= byte <= hh
                                       `^`G  raw operand with guard G (consumes the byte even when the guard rejects it)
  output : `ok <tree> <cursor>` | `err <kind> <cursor>` | `panic <site> <cursor>` | `hang <cursor>` | `skip`
           tree: `(c hh s e)` `(p A B s e)` `(l A s e)` `(r A s e)` `(s A1 … An s e)` `(u s e)`
-/
namespace Driver.C18
open Parsley Parsley.Peg Parsley.Comb Driver

/-! ### expression syntax -/

def hex2 (b : UInt8) : String := String.ofList [hexDigit (b.toNat / 16), hexDigit (b.toNat % 16)]

def showGuard : Guard → String
  | .any => "U"
  | .eq b => "=" ++ hex2 b
  | .ne b => "~" ++ hex2 b
  | .range lo hi => "[" ++ hex2 lo ++ hex2 hi

def showE : E → String
  | .chr g false => showGuard g
  | .chr g true => "^" ++ showGuard g
  | .seq a b => "." ++ showE a ++ showE b
  | .alt a b => "|" ++ showE a ++ showE b
  | .star a => "*" ++ showE a
  | .not a => "!" ++ showE a

def byteOf (a b : Char) : Option UInt8 :=
  match hexVal a, hexVal b with
  | some x, some y => some (UInt8.ofNat (x * 16 + y))
  | _, _ => none

def parseE : Nat → List Char → Option (E × List Char)
  | 0, _ => none
  | k + 1, '^' :: t =>
    match parseE k t with
    | some (.chr g false, t) => some (.chr g true, t)
    | _ => none
  | _ + 1, 'U' :: t => some (.chr .any, t)
  | _ + 1, '=' :: a :: b :: t => (byteOf a b).map fun x => (.chr (.eq x), t)
  | _ + 1, '~' :: a :: b :: t => (byteOf a b).map fun x => (.chr (.ne x), t)
  | _ + 1, '[' :: a :: b :: c :: d :: t =>
    match byteOf a b, byteOf c d with
    | some x, some y => some (.chr (.range x y), t)
    | _, _ => none
  | k + 1, '.' :: t =>
    match parseE k t with
    | some (a, t) => match parseE k t with
      | some (b, t) => some (.seq a b, t)
      | none => none
    | none => none
  | k + 1, '|' :: t =>
    match parseE k t with
    | some (a, t) => match parseE k t with
      | some (b, t) => some (.alt a b, t)
      | none => none
    | none => none
  | k + 1, '*' :: t => (parseE k t).map fun (a, t) => (.star a, t)
  | k + 1, '!' :: t => (parseE k t).map fun (a, t) => (.not a, t)
  | _ + 1, _ => none

def readE (w : String) : Option E :=
  match parseE (w.length + 1) w.toList with
  | some (e, []) => some e
  | _ => none

structure Case where
  e : E
  s : Bytes
  i : Nat

def readCase (line : String) : Option Case :=
  match words line with
  | [_, ex, hex, pos] =>
    match readE ex, bytesOfHex hex, pos.toNat? with
    | some e, some s, some i => if i ≤ s.length then some ⟨e, s, i⟩ else none
    | _, _, _ => none
  | _ => none

/-! ### value trees -/

partial def showT : T → String
  | .ch c s e => s!"(c {hex2 c} {s} {e})"
  | .pair a b s e => s!"(p {showT a} {showT b} {s} {e})"
  | .left a s e => s!"(l {showT a} {s} {e})"
  | .right a s e => s!"(r {showT a} {s} {e})"
  | .list l s e => "(s " ++ String.join (l.map fun t => showT t ++ " ") ++ s!"{s} {e})"
  | .unit s e => s!"(u {s} {e})"

partial def showShape : Shape → String
  | .ch c => s!"(c {hex2 c})"
  | .pair a b => s!"(p {showShape a} {showShape b})"
  | .left a => s!"(l {showShape a})"
  | .right a => s!"(r {showShape a})"
  | .list l => "(s" ++ String.join (l.map fun t => " " ++ showShape t) ++ ")"
  | .unit => "(u)"

def showOut : Out × Nat → String
  | (.ok t, c) => s!"ok {showT t} {c}"
  | (.err k, c) => s!"err {k} {c}"
  | (.panic st, c) => s!"panic {st} {c}"
  | (.hang, c) => s!"hang {c}"

def tokens (s : String) : List String :=
  words ((s.replace "(" " ( ").replace ")" " ) ")

/-- `(c hh s e)` carries a hex byte, which `toNat?` would reject or misread: rewrite
    the token stream so that the byte becomes a decimal number first. -/
def fixCh : List String → List String
  | "(" :: "c" :: h :: rest =>
    let v := match h.toList with
      | [a, b] => (byteOf a b).map UInt8.toNat
      | _ => none
    "(" :: "c" :: (match v with | some n => toString n | none => "x") :: fixCh rest
  | w :: rest => w :: fixCh rest
  | [] => []

/-- parse a sequence of trees / numbers up to the closing parenthesis of the enclosing node;
    returns the children, the trailing numbers and the rest -/
partial def parseItems : List String → List T → List Nat → Option (List T × List Nat × List String)
  | ")" :: rest, ts, ns => some (ts.reverse, ns.reverse, rest)
  | "(" :: tag :: rest, ts, ns =>
    if !ns.isEmpty then none else
    match parseItems rest [] [] with
    | some (cs, nums, rest') =>
      let node : Option T :=
        match tag, cs, nums with
        | "c", [], [b, s, e] => if b < 256 then some (.ch (UInt8.ofNat b) s e) else none
        | "p", [a, b], [s, e] => some (.pair a b s e)
        | "l", [a], [s, e] => some (.left a s e)
        | "r", [a], [s, e] => some (.right a s e)
        | "s", l, [s, e] => some (.list l s e)
        | "u", [], [s, e] => some (.unit s e)
        | _, _, _ => none
      match node with
      | some n => parseItems rest' (n :: ts) ns
      | none => none
    | none => none
  | w :: rest, ts, ns =>
    match w.toNat? with
    | some n => parseItems rest ts (n :: ns)
    | none => none
  | [], _, _ => none

/-- `ok <tree> <cursor>` ↦ tree, cursor -/
def readOk (out : String) : Option (T × Nat) :=
  match tokens out with
  | "ok" :: rest =>
    match parseItems (fixCh rest ++ [")"]) [] [] with
    | some ([t], [c], []) => some (t, c)
    | _ => none
  | _ => none

/-! ### model, oracle -/

def model (line : String) : String :=
  match readCase line with
  | none => "bad-case"
  | some c =>
    if !StarBodiesConsume c.e then "skip" else
    showOut (run c.e (fuelFor c.s c.i) c.s c.i)

/-- The oracle: the textbook outcome of `e` on the remaining input (computed by
    `pegEval`, no cursor, no spans), compared with what the implementation
    reported; spans are checked with the nesting discipline `T.nest`. -/
def judge (case impl : String) : String :=
  match readCase case with
  | none => "skip"
  | some c =>
    if !StarBodiesConsume c.e then "skip" else
    let impl := impl.trimAscii.toString
    match pegEval c.e (c.s.drop c.i) with
    | none => "bad oracle-undefined the relation assigns no outcome although star bodies consume"
    | some none =>
      match words impl with
      | ["err", _, cur] =>
        -- a bare raw operand is no combinator: it may leave the cursor moved
        if cur == toString c.i || c.e.isRaw then "ok"
        else s!"bad cursor-after-failure expected={c.i} got={cur}"
      | "ok" :: _ => "bad accept-should-fail expected=failure"
      | "panic" :: _ => "bad panic expected=failure"
      | _ => s!"bad malformed-output {impl}"
    | some (some (sh, n)) =>
      match words impl with
      | "err" :: _ => s!"bad reject-should-succeed expected={showShape sh} consumed={n}"
      | "panic" :: _ => s!"bad panic expected={showShape sh} consumed={n}"
      | "ok" :: _ =>
        match readOk impl with
        | none => s!"bad malformed-output {impl}"
        | some (t, cur) =>
          if showShape t.shape != showShape sh then s!"bad value expected={showShape sh} consumed={n}"
          else if t.start != c.i || t.stop != c.i + n then
            s!"bad consumed expected-span={c.i}..{c.i + n} got={t.start}..{t.stop}"
          else if cur != c.i + n then s!"bad cursor expected={c.i + n} got={cur}"
          else if !t.nest then "bad span-nesting child spans do not tile the parent span in order"
          else "ok"
      | _ => s!"bad malformed-output {impl}"

/-! ### generators -/

def leavesABC : List E := [.chr (.eq 97), .chr (.eq 98), .chr (.eq 99)]

/-- all expressions of depth ≤ d over the given leaves -/
def exprsUpTo (leaves : List E) : Nat → List E
  | 0 => leaves
  | d + 1 =>
    let sub := exprsUpTo leaves d
    leaves
      ++ (sub.flatMap fun a => sub.map fun b => E.seq a b)
      ++ (sub.flatMap fun a => sub.map fun b => E.alt a b)
      ++ sub.map E.star ++ sub.map E.not

/-- all strings of length exactly n over the alphabet -/
def stringsOfLen (al : List UInt8) : Nat → List Bytes
  | 0 => [[]]
  | n + 1 => (stringsOfLen al n).flatMap fun w => al.map fun c => c :: w

def stringsUpTo (al : List UInt8) (n : Nat) : List Bytes :=
  (List.range (n + 1)).flatMap (stringsOfLen al)

def abc : List UInt8 := [97, 98, 99]

def leavesRaw : List E := [.chr (.eq 97) true, .chr (.eq 98) true, .chr (.eq 99)]

def randLeaf (r : Rng) (rich : Bool) : E × Rng :=
  let (k, r) := r.nat (if rich then 13 else 3)
  match k with
  | 10 => (.chr (.eq 97) true, r) | 11 => (.chr (.ne 98) true, r) | 12 => (.chr (.range 97 98) true, r)
  | 0 => (.chr (.eq 97), r) | 1 => (.chr (.eq 98), r) | 2 => (.chr (.eq 99), r)
  | 3 => (.chr .any, r) | 4 => (.chr (.ne 97), r) | 5 => (.chr (.range 97 98), r)
  | 6 => (.chr (.ne 99), r) | 7 => (.chr (.range 98 200), r)
  | 8 => (.chr (.eq 0), r)
  | _ => (.chr (.eq 98), r)

/-- a random expression of depth ≤ d whose star bodies consume (rejection on the body) -/
def randE : Nat → Rng → Bool → E × Rng
  | 0, r, rich => randLeaf r rich
  | d + 1, r, rich =>
    let (k, r) := r.nat 9
    match k with
    | 0 => randLeaf r rich
    | 1 | 2 =>
      let (a, r) := randE d r rich
      let (b, r) := randE d r rich
      (.seq a b, r)
    | 3 | 4 =>
      let (a, r) := randE d r rich
      let (b, r) := randE d r rich
      (.alt a b, r)
    | 5 | 6 =>
      let (a, r) := randE d r rich
      if consumes a then (.star a, r)
      else
        -- make the body consume by prefixing a byte parser: (x a)*
        let (l, r) := randLeaf r rich
        (.star (.seq l a), r)
    | 7 =>
      let (a, r) := randE d r rich
      (.not a, r)
    | _ =>
      let (a, r) := randE d r rich
      let (b, r) := randE d r rich
      (.seq (.not a) b, r)

def randBytes (r : Rng) (maxLen : Nat) (rich : Bool) : Bytes × Rng := Id.run do
  let (len, r0) := r.nat (maxLen + 1)
  let mut r := r0
  let mut out : Bytes := []
  for _ in List.range len do
    let (k, r1) := r.nat (if rich then 16 else 3)
    r := r1
    let b : UInt8 :=
      match k with
      | 0 => 97 | 1 => 98 | 2 => 99
      | 3 => 0 | 4 => 127 | 5 => 128 | 6 => 255 | 7 => 100
      | _ => UInt8.ofNat (97 + k % 3)
    out := b :: out
  return (out, r)

def emitCase (emit : String → IO Unit) (tag : String) (e : E) (s : Bytes) (i : Nat) : IO Unit :=
  emit s!"{tag} {showE e} {hexOfBytes s} {i}"

def gen (seed n : Nat) (tier : String) (emit : String → IO Unit) : IO Unit := do
  let thorough := tier == "thorough"
  -- (1) exhaustive: every expression of depth ≤ d over the three guarded byte parsers
  --     × every string of length ≤ L over {a,b,c}
  let d := if thorough then 2 else 1
  let L := if thorough then 6 else 5
  let strs := stringsUpTo abc L
  for e in exprsUpTo leavesABC d do
    if StarBodiesConsume e then
      let tag := if thorough then "x2" else "x1"
      for s in strs do
        emitCase emit tag e s 0
  -- the same at a non-zero cursor (spans must be reported relative to the buffer, not the call)
  for e in exprsUpTo leavesABC 1 do
    if StarBodiesConsume e then
      for s in stringsUpTo abc 3 do
        emitCase emit "xo" e ([99, 97] ++ s) 2
  -- raw operands (they do not restore the cursor when their guard rejects): every restore the
  -- combinators perform themselves becomes observable
  let dr := if thorough then 2 else 1
  let Lr := if thorough then 4 else 4
  for e in exprsUpTo leavesRaw dr do
    if StarBodiesConsume e && !e.isRaw then
      for s in stringsUpTo abc Lr do
        emitCase emit "xr" e s 0
  -- (2) sampled: depth-2 (quick) and depth-3 expressions over a,b,c × strings ≤ 6
  let mut r := Rng.mk' seed
  let d2 := (exprsUpTo leavesABC 2).filter StarBodiesConsume
  let d2a := d2.toArray
  let strs6 := (stringsUpTo abc 6).toArray
  let nS := if thorough then n else n
  for _ in List.range nS do
    -- a depth-3 expression: a random top combinator over random depth-≤2 operands
    let (k, r1) := r.nat 5
    let (ia, r2) := r1.nat d2a.size
    let (ib, r3) := r2.nat d2a.size
    let (is, r4) := r3.nat strs6.size
    r := r4
    let a := d2a[ia]!
    let b := d2a[ib]!
    let s := strs6[is]!
    let e : E := match k with
      | 0 => .seq a b | 1 => .alt a b
      | 2 => if consumes a then .star a else .seq a b
      | 3 => .not a
      | _ => a
    emitCase emit (if k == 4 then "s2" else "s3") e s 0
  -- (3) random beyond: deeper expressions, richer guards (unguarded, !=, ranges), bytes outside
  --     the alphabet incl. NUL and non-ASCII, random cursor
  for j in List.range n do
    let rich := j % 2 == 1
    let (dd, r1) := r.nat 4
    let (e, r2) := randE (dd + 2) r1 rich
    let (s, r3) := randBytes r2 (if thorough then 14 else 10) rich
    let (i, r4) := r3.nat (s.length + 1)
    r := r4
    emitCase emit (if rich then "rr" else "ra") e s (if j % 3 == 0 then i else 0)

/-! ### non-triviality -/

def nodes : E → Nat
  | .chr _ _ => 0
  | .seq a b | .alt a b => nodes a + nodes b + 1
  | .star a | .not a => nodes a + 1

/-- non-trivial: at least two combinators and at least two bytes of remaining input -/
def nontrivial (line : String) : Bool :=
  match readCase line with
  | some c => decide (nodes c.e ≥ 2) && decide (c.s.length - c.i ≥ 2) && StarBodiesConsume c.e
  | none => false

def driver : PropDriver := { gen, model, judge, nontrivial }
end Driver.C18
