import Driver.Common
import Parsley.Model.Comb
import Parsley.Spec.Peg
/-
  Line protocol for C18.

  case   : `<tag> <expr> <hexbuf> <pos>`   or, several steps on ONE parser object (reuse):
           `<tag> <expr> <hexbuf> <pos> <hexbuf> <pos> …`  (outputs of the steps joined by ` ; `)
           hexbuf: `<hex>` | `-` | segments joined by `+`, a segment `<hex>` or `<n>*<hex>` (long runs)
           expr (prefix, no blanks):  `.`XY seq   `|`XY alt   `*`X star   `!`X not
                                       `U` any-ascii   `=hh` byte == hh   `~hh` byte != hh   `[llhh` ll <= byte <= hh
                                       `^`G  raw operand with guard G (consumes the byte even when the guard rejects it)
  output : `ok <tree> <cursor>` | `err <kind> <cursor>` | `panic <site> <cursor>` | `hang <cursor>` | `skip`
           tree: `(c hh s e)` `(p A B s e)` `(l A s e)` `(r A s e)` `(s A1 … An s e)` `(u s e)`
-/
namespace Driver.C18
open Parsley Parsley.Peg Parsley.Comb Driver

/-! ### expression syntax -/

def hex2 (b : UInt8) : String := String.ofList [hexDigit (b.toNat / 16), hexDigit (b.toNat % 16)]

def showGuard : Guard → String
  | .any => "U"
  | .eq b => "=" ++ hex2 b
  | .ne b => "~" ++ hex2 b
  | .range lo hi => "[" ++ hex2 lo ++ hex2 hi

def showE : E → String
  | .chr g false => showGuard g
  | .chr g true => "^" ++ showGuard g
  | .seq a b => "." ++ showE a ++ showE b
  | .alt a b => "|" ++ showE a ++ showE b
  | .star a => "*" ++ showE a
  | .not a => "!" ++ showE a

def byteOf (a b : Char) : Option UInt8 :=
  match hexVal a, hexVal b with
  | some x, some y => some (UInt8.ofNat (x * 16 + y))
  | _, _ => none

def parseE : Nat → List Char → Option (E × List Char)
  | 0, _ => none
  | k + 1, '^' :: t =>
    match parseE k t with
    | some (.chr g false, t) => some (.chr g true, t)
    | _ => none
  | _ + 1, 'U' :: t => some (.chr .any, t)
  | _ + 1, '=' :: a :: b :: t => (byteOf a b).map fun x => (.chr (.eq x), t)
  | _ + 1, '~' :: a :: b :: t => (byteOf a b).map fun x => (.chr (.ne x), t)
  | _ + 1, '[' :: a :: b :: c :: d :: t =>
    match byteOf a b, byteOf c d with
    | some x, some y => some (.chr (.range x y), t)
    | _, _ => none
  | k + 1, '.' :: t =>
    match parseE k t with
    | some (a, t) => match parseE k t with
      | some (b, t) => some (.seq a b, t)
      | none => none
    | none => none
  | k + 1, '|' :: t =>
    match parseE k t with
    | some (a, t) => match parseE k t with
      | some (b, t) => some (.alt a b, t)
      | none => none
    | none => none
  | k + 1, '*' :: t => (parseE k t).map fun (a, t) => (.star a, t)
  | k + 1, '!' :: t => (parseE k t).map fun (a, t) => (.not a, t)
  | _ + 1, _ => none

def readE (w : String) : Option E :=
  match parseE (w.length + 1) w.toList with
  | some (e, []) => some e
  | _ => none

/-- buffer word: `<hex>` | `-` | segments joined by `+`, a segment being `<hex>` or `<n>*<hex>`
    (the hex string repeated n times) - long runs without long case lines -/
def segBytes (w : String) : Option Bytes :=
  match w.splitOn "*" with
  | [h] => bytesOfHex h
  | [n, h] =>
    match n.toNat?, bytesOfHex h with
    | some k, some b => some (List.replicate k b).flatten
    | _, _ => none
  | _ => none

def bytesOfDesc (w : String) : Option Bytes :=
  if w == "-" then some [] else
  (w.splitOn "+").foldr (fun seg acc =>
    match segBytes seg, acc with
    | some b, some a => some (b ++ a)
    | _, _ => none) (some [])

structure Case where
  e : E
  s : Bytes
  i : Nat

def readCase (line : String) : Option Case :=
  match words line with
  | [_, ex, hex, pos] =>
    match readE ex, bytesOfDesc hex, pos.toNat? with
    | some e, some s, some i => if i ≤ s.length then some ⟨e, s, i⟩ else none
    | _, _, _ => none
  | _ => none

/-- steps of a reuse case: `<hexbuf> <pos>` pairs -/
def readSteps : List String → Option (List (Bytes × Nat))
  | [] => some []
  | hex :: pos :: rest =>
    match bytesOfDesc hex, pos.toNat?, readSteps rest with
    | some s, some i, some l => if i ≤ s.length then some ((s, i) :: l) else none
    | _, _, _ => none
  | [_] => none

/-- `<tag> <expr> (<hexbuf> <pos>)+` : one parser object applied to every step in turn.
    A single-step line is an ordinary case. -/
def readSeq (line : String) : Option (E × List (Bytes × Nat)) :=
  match words line with
  | _ :: ex :: rest =>
    match readE ex, readSteps rest with
    | some e, some (st :: l) => some (e, st :: l)
    | _, _ => none
  | _ => none

/-! ### value trees -/

partial def showT : T → String
  | .ch c s e => s!"(c {hex2 c} {s} {e})"
  | .pair a b s e => s!"(p {showT a} {showT b} {s} {e})"
  | .left a s e => s!"(l {showT a} {s} {e})"
  | .right a s e => s!"(r {showT a} {s} {e})"
  | .list l s e => "(s " ++ String.join (l.map fun t => showT t ++ " ") ++ s!"{s} {e})"
  | .unit s e => s!"(u {s} {e})"

partial def showShape : Shape → String
  | .ch c => s!"(c {hex2 c})"
  | .pair a b => s!"(p {showShape a} {showShape b})"
  | .left a => s!"(l {showShape a})"
  | .right a => s!"(r {showShape a})"
  | .list l => "(s" ++ String.join (l.map fun t => " " ++ showShape t) ++ ")"
  | .unit => "(u)"

def showOut : Out × Nat → String
  | (.ok t, c) => s!"ok {showT t} {c}"
  | (.err k, c) => s!"err {k} {c}"
  | (.panic st, c) => s!"panic {st} {c}"
  | (.hang, c) => s!"hang {c}"

def tokens (s : String) : List String :=
  words ((s.replace "(" " ( ").replace ")" " ) ")

/-- `(c hh s e)` carries a hex byte, which `toNat?` would reject or misread: rewrite
    the token stream so that the byte becomes a decimal number first. -/
def fixChAux : List String → List String → List String
  | "(" :: "c" :: h :: rest, acc =>
    let v := match h.toList with
      | [a, b] => (byteOf a b).map UInt8.toNat
      | _ => none
    fixChAux rest ((match v with | some n => toString n | none => "x") :: "c" :: "(" :: acc)
  | w :: rest, acc => fixChAux rest (w :: acc)
  | [], acc => acc.reverse

/-- (tail recursive: the output of a long run has several 100000 tokens) -/
def fixCh (l : List String) : List String := fixChAux l []

/-- parse a sequence of trees / numbers up to the closing parenthesis of the enclosing node;
    returns the children, the trailing numbers and the rest -/
partial def parseItems : List String → List T → List Nat → Option (List T × List Nat × List String)
  | ")" :: rest, ts, ns => some (ts.reverse, ns.reverse, rest)
  | "(" :: tag :: rest, ts, ns =>
    if !ns.isEmpty then none else
    match parseItems rest [] [] with
    | some (cs, nums, rest') =>
      let node : Option T :=
        match tag, cs, nums with
        | "c", [], [b, s, e] => if b < 256 then some (.ch (UInt8.ofNat b) s e) else none
        | "p", [a, b], [s, e] => some (.pair a b s e)
        | "l", [a], [s, e] => some (.left a s e)
        | "r", [a], [s, e] => some (.right a s e)
        | "s", l, [s, e] => some (.list l s e)
        | "u", [], [s, e] => some (.unit s e)
        | _, _, _ => none
      match node with
      | some n => parseItems rest' (n :: ts) ns
      | none => none
    | none => none
  | w :: rest, ts, ns =>
    match w.toNat? with
    | some n => parseItems rest ts (n :: ns)
    | none => none
  | [], _, _ => none

/-- `ok <tree> <cursor>` ↦ tree, cursor -/
def readOk (out : String) : Option (T × Nat) :=
  match tokens out with
  | "ok" :: rest =>
    match parseItems (fixCh rest ++ [")"]) [] [] with
    | some ([t], [c], []) => some (t, c)
    | _ => none
  | _ => none

/-! ### model, oracle -/

def model (line : String) : String :=
  match readSeq line with
  | none => "bad-case"
  | some (e, steps) =>
    if !StarBodiesConsume e then "skip" else
    -- the combinators are stateless: a reuse sequence is the map of the single applications
    " ; ".intercalate (steps.map fun (s, i) => showOut (run e (fuelFor s i) s i))

/-- The oracle: the textbook outcome of `e` on the remaining input (computed by
    `pegEval`, no cursor, no spans), compared with what the implementation
    reported; spans are checked with the nesting discipline `T.nest`. -/
def judgeStep (c : Case) (impl : String) : String :=
    let impl := impl.trimAscii.toString
    match pegEval c.e (c.s.drop c.i) with
    | none => "bad oracle-undefined the relation assigns no outcome although star bodies consume"
    | some none =>
      match words impl with
      | ["err", _, cur] =>
        -- a bare raw operand is no combinator: it may leave the cursor moved
        if cur == toString c.i || c.e.isRaw then "ok"
        else s!"bad cursor-after-failure expected={c.i} got={cur}"
      | "ok" :: _ => "bad accept-should-fail expected=failure"
      | "panic" :: _ => "bad panic expected=failure"
      | _ => s!"bad malformed-output {impl}"
    | some (some (sh, n)) =>
      match words impl with
      | "err" :: _ => s!"bad reject-should-succeed expected={showShape sh} consumed={n}"
      | "panic" :: _ => s!"bad panic expected={showShape sh} consumed={n}"
      | "ok" :: _ =>
        match readOk impl with
        | none => s!"bad malformed-output {impl}"
        | some (t, cur) =>
          if showShape t.shape != showShape sh then s!"bad value expected={showShape sh} consumed={n}"
          else if t.start != c.i || t.stop != c.i + n then
            s!"bad consumed expected-span={c.i}..{c.i + n} got={t.start}..{t.stop}"
          else if cur != c.i + n then s!"bad cursor expected={c.i + n} got={cur}"
          else if !t.nest then "bad span-nesting child spans do not tile the parent span in order"
          else "ok"
      | _ => s!"bad malformed-output {impl}"

/-- first non-`ok` verdict of the steps of a reuse case.  The denotation of an expression does
    not depend on what the parser object was applied to before: every step is judged on its own
    against `pegEval`.  A wrong step after the first one is reported with the class
    `state-carried-across-applications` (the first step is a fresh object: ordinary classes). -/
def judgeSteps (e : E) : Nat → List (Bytes × Nat) → List String → String
  | _, [], [] => "ok"
  | k, (s, i) :: steps, o :: outs =>
    match judgeStep ⟨e, s, i⟩ o with
    | "ok" => judgeSteps e (k + 1) steps outs
    | v =>
      if k == 0 then v
      else
        -- the same expression on the same input has exactly one denotation; an application that
        -- is wrong only after earlier applications of the same object means the object carried
        -- state over from them
        s!"bad state-carried-across-applications step={k} buf={hexOfBytes s} pos={i}: {(v.drop 4).toString}"
  | _, _, _ => "bad malformed-output number of step outputs differs from the number of steps"

/-- The oracle: the textbook outcome of `e` on the remaining input (computed by
    `pegEval`, no cursor, no spans), compared with what the implementation
    reported; spans are checked with the nesting discipline `T.nest`.
    Reuse cases: every step judged independently (the semantics has no state). -/
def judge (case impl : String) : String :=
  match readSeq case with
  | none => "skip"
  | some (e, steps) =>
    if !StarBodiesConsume e then "skip" else
    match steps with
    | [(s, i)] => judgeStep ⟨e, s, i⟩ impl
    | _ => judgeSteps e 0 steps ((impl.splitOn " ; ").map fun o => o.trimAscii.toString)

/-! ### generators -/

def leavesABC : List E := [.chr (.eq 97), .chr (.eq 98), .chr (.eq 99)]

/-- all expressions of depth ≤ d over the given leaves -/
def exprsUpTo (leaves : List E) : Nat → List E
  | 0 => leaves
  | d + 1 =>
    let sub := exprsUpTo leaves d
    leaves
      ++ (sub.flatMap fun a => sub.map fun b => E.seq a b)
      ++ (sub.flatMap fun a => sub.map fun b => E.alt a b)
      ++ sub.map E.star ++ sub.map E.not

/-- all strings of length exactly n over the alphabet -/
def stringsOfLen (al : List UInt8) : Nat → List Bytes
  | 0 => [[]]
  | n + 1 => (stringsOfLen al n).flatMap fun w => al.map fun c => c :: w

def stringsUpTo (al : List UInt8) (n : Nat) : List Bytes :=
  (List.range (n + 1)).flatMap (stringsOfLen al)

def abc : List UInt8 := [97, 98, 99]

def leavesRaw : List E := [.chr (.eq 97) true, .chr (.eq 98) true, .chr (.eq 99)]

def randLeaf (r : Rng) (rich : Bool) : E × Rng :=
  let (k, r) := r.nat (if rich then 13 else 3)
  match k with
  | 10 => (.chr (.eq 97) true, r) | 11 => (.chr (.ne 98) true, r) | 12 => (.chr (.range 97 98) true, r)
  | 0 => (.chr (.eq 97), r) | 1 => (.chr (.eq 98), r) | 2 => (.chr (.eq 99), r)
  | 3 => (.chr .any, r) | 4 => (.chr (.ne 97), r) | 5 => (.chr (.range 97 98), r)
  | 6 => (.chr (.ne 99), r) | 7 => (.chr (.range 98 200), r)
  | 8 => (.chr (.eq 0), r)
  | _ => (.chr (.eq 98), r)

/-- a random expression of depth ≤ d whose star bodies consume (rejection on the body) -/
def randE : Nat → Rng → Bool → E × Rng
  | 0, r, rich => randLeaf r rich
  | d + 1, r, rich =>
    let (k, r) := r.nat 9
    match k with
    | 0 => randLeaf r rich
    | 1 | 2 =>
      let (a, r) := randE d r rich
      let (b, r) := randE d r rich
      (.seq a b, r)
    | 3 | 4 =>
      let (a, r) := randE d r rich
      let (b, r) := randE d r rich
      (.alt a b, r)
    | 5 | 6 =>
      let (a, r) := randE d r rich
      if consumes a then (.star a, r)
      else
        -- make the body consume by prefixing a byte parser: (x a)*
        let (l, r) := randLeaf r rich
        (.star (.seq l a), r)
    | 7 =>
      let (a, r) := randE d r rich
      (.not a, r)
    | _ =>
      let (a, r) := randE d r rich
      let (b, r) := randE d r rich
      (.seq (.not a) b, r)

def randBytes (r : Rng) (maxLen : Nat) (rich : Bool) : Bytes × Rng := Id.run do
  let (len, r0) := r.nat (maxLen + 1)
  let mut r := r0
  let mut out : Bytes := []
  for _ in List.range len do
    let (k, r1) := r.nat (if rich then 16 else 3)
    r := r1
    let b : UInt8 :=
      match k with
      | 0 => 97 | 1 => 98 | 2 => 99
      | 3 => 0 | 4 => 127 | 5 => 128 | 6 => 255 | 7 => 100
      | _ => UInt8.ofNat (97 + k % 3)
    out := b :: out
  return (out, r)

def emitCase (emit : String → IO Unit) (tag : String) (e : E) (s : Bytes) (i : Nat) : IO Unit :=
  emit s!"{tag} {showE e} {hexOfBytes s} {i}"

/-! ### overlapping alternatives, one parser object applied repeatedly -/

def ca : E := .chr (.eq 97)
def cb : E := .chr (.eq 98)
def cc : E := .chr (.eq 99)

/-- consuming operands that overlap pairwise in every way: identical, same first byte, one a
    prefix of the other, one matching whatever the other matches (`U`), a loop / a lookahead
    behind a shared first byte -/
def ovOperands : List E :=
  [ca, cb, .chr .any, .seq ca cb, .seq ca ca, .seq cb ca, .seq ca (.star cb), .seq ca (.not cb)]

/-- nullable operands (they always / sometimes succeed without consuming) -/
def ovNullable : List E := [.star ca, .not cb, .star (.seq ca cb)]

/-- every ordered pair of consuming operands as an alternative: 64 (8 of them identical pairs) -/
def ovAlts : List E := ovOperands.flatMap fun x => ovOperands.map fun y => E.alt x y

/-- alternatives with one nullable side: 48 -/
def ovAltsNullable : List E :=
  ovOperands.flatMap fun x => ovNullable.flatMap fun n => [E.alt x n, E.alt n x]

/-- alternatives nested in alternatives (both associations) over a small operand set: 128 -/
def ovAltsNested : List E :=
  let o : List E := [ca, cb, .seq ca cb, .seq ca ca]
  o.flatMap fun x => o.flatMap fun y => o.flatMap fun z => [E.alt (.alt x y) z, E.alt x (.alt y z)]

def ab : List UInt8 := [97, 98]

def randPick (r : Rng) (a : Array E) : E × Rng :=
  let (k, r) := r.nat a.size
  (a[k]!, r)

/-- a random grammar of the family: an overlapping alternative under a star, possibly inside a
    sequence and a second star -/
def randOv (r : Rng) (alts : Array E) : E × Rng :=
  let (alt, r) := randPick r alts
  let (k, r) := r.nat 6
  let body := if consumes alt then alt else .seq alt cc
  match k with
  | 0 => (alt, r)
  | 1 => (.star body, r)
  | 2 => (.star (.seq alt cc), r)
  | 3 => (.star (.seq cc alt), r)
  | 4 => (.star (.seq (.star body) cc), r)
  | _ => (.seq (.star body) alt, r)

def emitSteps (emit : String → IO Unit) (tag : String) (e : E) (steps : List (Bytes × Nat)) : IO Unit :=
  emit (s!"{tag} {showE e}" ++ String.join (steps.map fun (s, i) => s!" {hexOfBytes s} {i}"))

/-- the overlap / reuse families (see `CFG["rule"]` of C18) -/
def genOverlap (seed n : Nat) (thorough : Bool) (emit : String → IO Unit) : IO Unit := do
  -- (a) one Alternate object applied in every iteration of a Star
  let sAB := stringsUpTo ab (if thorough then 7 else 5)
  let sABC := stringsUpTo abc (if thorough then 6 else 4)
  for alt in ovAlts do
    -- (x|y)*
    for s in sAB do emitCase emit "o1" (.star alt) s 0
    -- ((x|y) c)*   (c (x|y))*   ((x|y)* c)*  : sequence of alternate / nested stars
    for s in sABC do
      emitCase emit "o2" (.star (.seq alt cc)) s 0
      emitCase emit "o3" (.star (.seq cc alt)) s 0
      emitCase emit "o4" (.star (.seq (.star alt) cc)) s 0
  for alt in ovAltsNullable do
    for s in sABC do emitCase emit "o5" (.star (.seq alt cc)) s 0
  for alt in ovAltsNested do
    for s in sAB do emitCase emit "o6" (.star alt) s 0
  -- (b) reuse: the same parser object applied to several inputs / at several cursors in a row
  let alts1 := ovAlts ++ ovAltsNullable
  let short := stringsUpTo ab 2
  for e in alts1 do
    for s1 in short do
      for s2 in short do
        emitSteps emit "r2" e [(s1, 0), (s2, 0)]
        if thorough then
          for s3 in short do emitSteps emit "r3" e [(s1, 0), (s2, 0), (s3, 0)]
  -- every cursor of one buffer, ascending and descending
  let bufs := (stringsUpTo ab (if thorough then 5 else 4)).filter fun s => s.length ≥ 3
  for e in alts1 ++ ovAlts.map E.star do
    for s in bufs do
      let cur := List.range (s.length + 1)
      emitSteps emit "rc" e (cur.map fun i => (s, i))
      emitSteps emit "rd" e (cur.reverse.map fun i => (s, i))
  -- random: a grammar of the family / any random expression, 2-4 random steps
  let mut r := Rng.mk' (seed + 18)
  let altsA := (ovAlts ++ ovAltsNullable ++ ovAltsNested).toArray
  for j in List.range (min (n / 2) 200000) do
    let (e, r1) := if j % 4 == 3 then randE 3 r false else randOv r altsA
    let (k, r2) := r1.nat 3
    r := r2
    let mut steps : List (Bytes × Nat) := []
    for _ in List.range (k + 2) do
      let (s, r3) := randBytes r 5 false
      let (i, r4) := r3.nat (s.length + 1)
      let (z, r5) := r4.nat 3
      r := r5
      steps := (s, if z == 0 then i else 0) :: steps
    emitSteps emit (if j % 4 == 3 then "rx" else "rr2") e steps

/-! ### long runs: a Star whose operand matches hundreds / thousands of times in a row -/

/-- consuming operand, and the bytes of a run of `n` elements of it (as descriptor segments) -/
def lrOperands : List (E × (Nat → List String)) :=
  [ (ca, fun n => [s!"{n}*61"]),                                         -- a
    (.chr .any, fun n => [s!"{n}*61"]),                                  -- unguarded byte
    (.seq ca cb, fun n => [s!"{n}*6162"]),                               -- ab
    (.alt ca cb, fun n => [s!"{n / 2}*6162"] ++ (if n % 2 == 1 then ["61"] else [])),  -- a|b, both sides
    (.seq (.star ca) cb, fun n => [s!"{n}*616162"]) ]                    -- a* b   (nested star)

/-- contexts around the long-running `x*` (`y` = c): alone, `x* y`, `(x* !x)|y`, `(x* y)*`, `!(x* y)` -/
def lrContexts : List (E → E) :=
  [ fun x => .star x,
    fun x => .seq (.star x) cc,
    fun x => .alt (.seq (.star x) (.not x)) cc,
    fun x => .star (.seq (.star x) cc),
    fun x => .not (.seq (.star x) cc) ]

def lrLens : List Nat := [100, 127, 128, 129, 130, 255, 256, 257]
def lrLensBig : List Nat := [1000, 4095, 4096, 4097]

/-- run of n elements, then nothing / the terminator c / the byte d that nothing matches;
    at cursor 0, or at cursor 3 behind the prefix `dca` -/
def emitLong (emit : String → IO Unit) (tag : String) (e : E) (run : List String) (tail : String)
    (pre : Bool) : IO Unit :=
  let segs := (if pre then ["646361"] else []) ++ run ++ (if tail == "" then [] else [tail])
  emit s!"{tag} {showE e} {"+".intercalate segs} {if pre then 3 else 0}"

def genLong (thorough : Bool) (emit : String → IO Unit) : IO Unit := do
  let lens := if thorough then lrLens ++ lrLensBig else lrLens
  for (x, runOf) in lrOperands do
    for ctx in lrContexts do
      for n in lens do
        for tail in ["", "63", "64"] do
          emitLong emit "lr" (ctx x) (runOf n) tail false
        emitLong emit "lp" (ctx x) (runOf n) "63" true
  if !thorough then
    -- quick tier: the big lengths only for a and ab, alone and before y
    for (x, runOf) in [lrOperands[0]!, lrOperands[2]!] do
      for ctx in lrContexts.take 2 do
        for n in lrLensBig do emitLong emit "lb" (ctx x) (runOf n) "63" false
  else
    -- the 64 Ki boundary (the line-by-line model is quadratic in the run length: `v ++ [o]` and
    -- `s.drop i` per round, about 40 s per case here - three cases only)
    emitLong emit "lh" (.star ca) ["65536*61"] "63" false
    emitLong emit "lh" (.seq (.star ca) cc) ["65535*61"] "63" false
    emitLong emit "lh" (.seq (.star ca) cc) ["65537*61"] "63" false

def gen (seed n : Nat) (tier : String) (emit : String → IO Unit) : IO Unit := do
  let thorough := tier == "thorough"
  genLong thorough emit
  genOverlap seed n thorough emit
  -- (1) exhaustive: every expression of depth ≤ d over the three guarded byte parsers
  --     × every string of length ≤ L over {a,b,c}
  let d := if thorough then 2 else 1
  let L := if thorough then 6 else 5
  let strs := stringsUpTo abc L
  for e in exprsUpTo leavesABC d do
    if StarBodiesConsume e then
      let tag := if thorough then "x2" else "x1"
      for s in strs do
        emitCase emit tag e s 0
  -- the same at a non-zero cursor (spans must be reported relative to the buffer, not the call)
  for e in exprsUpTo leavesABC 1 do
    if StarBodiesConsume e then
      for s in stringsUpTo abc 3 do
        emitCase emit "xo" e ([99, 97] ++ s) 2
  -- raw operands (they do not restore the cursor when their guard rejects): every restore the
  -- combinators perform themselves becomes observable
  let dr := if thorough then 2 else 1
  let Lr := if thorough then 4 else 4
  for e in exprsUpTo leavesRaw dr do
    if StarBodiesConsume e && !e.isRaw then
      for s in stringsUpTo abc Lr do
        emitCase emit "xr" e s 0
  -- (2) sampled: depth-2 (quick) and depth-3 expressions over a,b,c × strings ≤ 6
  let mut r := Rng.mk' seed
  let d2 := (exprsUpTo leavesABC 2).filter StarBodiesConsume
  let d2a := d2.toArray
  let strs6 := (stringsUpTo abc 6).toArray
  let nS := if thorough then n else n
  for _ in List.range nS do
    -- a depth-3 expression: a random top combinator over random depth-≤2 operands
    let (k, r1) := r.nat 5
    let (ia, r2) := r1.nat d2a.size
    let (ib, r3) := r2.nat d2a.size
    let (is, r4) := r3.nat strs6.size
    r := r4
    let a := d2a[ia]!
    let b := d2a[ib]!
    let s := strs6[is]!
    let e : E := match k with
      | 0 => .seq a b | 1 => .alt a b
      | 2 => if consumes a then .star a else .seq a b
      | 3 => .not a
      | _ => a
    emitCase emit (if k == 4 then "s2" else "s3") e s 0
  -- (3) random beyond: deeper expressions, richer guards (unguarded, !=, ranges), bytes outside
  --     the alphabet incl. NUL and non-ASCII, random cursor
  for j in List.range n do
    let rich := j % 2 == 1
    let (dd, r1) := r.nat 4
    let (e, r2) := randE (dd + 2) r1 rich
    let (s, r3) := randBytes r2 (if thorough then 14 else 10) rich
    let (i, r4) := r3.nat (s.length + 1)
    r := r4
    emitCase emit (if rich then "rr" else "ra") e s (if j % 3 == 0 then i else 0)

/-! ### non-triviality -/

def nodes : E → Nat
  | .chr _ _ => 0
  | .seq a b | .alt a b => nodes a + nodes b + 1
  | .star a | .not a => nodes a + 1

/-- non-trivial: at least two combinators and at least two bytes of remaining input;
    a reuse case: at least one combinator and at least two steps with input remaining -/
def nontrivial (line : String) : Bool :=
  match readSeq line with
  | some (e, [(s, i)]) => decide (nodes e ≥ 2) && decide (s.length - i ≥ 2) && StarBodiesConsume e
  | some (e, steps) =>
    decide (nodes e ≥ 1) && decide ((steps.filter fun (s, i) => s.length - i ≥ 1).length ≥ 2)
      && StarBodiesConsume e
  | none => false

def driver : PropDriver := { gen, model, judge, nontrivial }
end Driver.C18
