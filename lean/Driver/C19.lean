import Driver.Common
import Parsley.Model.Bin
import Parsley.Spec.Bin
namespace Driver.C19
open Parsley Parsley.Bin Driver

def endianOf : String → Option Endian
  | "be" => some .big | "le" => some .little | _ => none

/-- case: `<kind> <be|le> <hexbuf> <pos>` with kind ∈ u8 u16 u32 u64 i8 i16 i32 i64,
    or `bv <len> <hexbuf> <pos>` (`len` decimal, the whole usize range 0 … 2^64-1).
    or `seq <kind> <be|le|len> <buf>[,<buf>…] <step>[,<step>…]` (one parser object reused, see `seqOut` below).
    A kind prefixed with `v` runs on a restricted view (3 bytes before, 2 after); an optional fifth word
    `@l.t` or `@l₁.t₁/l₂.t₂/…` (outermost first) runs on a chain of nested RestrictViews whose innermost window is
    exactly `hexbuf`, view j cutting `l_j` bytes before and `t_j` bytes after its window. -/
/-
    The buffer word `<hexbuf>` (of a single case and of every `<buf>` of a `seq` case) is lower-case hex (`-` = empty)
    or the descriptor `#N` = the N-byte PATTERN buffer (`patBytes`), N ≤ 2^25: the remaining-length sweep needs
    buffers of 2^16 and 2^24 bytes. -/
def patMax : Nat := 2 ^ 25

/-- byte number `i` of the pattern buffer: positions next to each other differ, and so do positions 256 apart,
    so a window read at a wrong offset shows in the value -/
def patByte (i : Nat) : UInt8 := UInt8.ofNat (7 * i + 3 + i / 256)

def patAux : Nat → Bytes → Bytes
  | 0, acc => acc
  | k + 1, acc => patAux k (patByte k :: acc)

def patBytes (n : Nat) : Bytes := patAux n []

def bufOf (w : String) : Option Bytes :=
  if w.startsWith "#" then
    let d := (w.drop 1).toString
    if !d.isEmpty && d.all Char.isDigit then
      match d.toNat? with
      | some n => if n ≤ patMax then some (patBytes n) else none
      | none => none
    else none
  else bytesOfHex w

def stripV (ws : List String) : List String :=
  match ws with
  | k :: rest => (if k.startsWith "v" then (k.drop 1).toString else k) :: rest
  | [] => []

def usizeMax : Nat := 2 ^ 64 - 1

/-- the fifth word: a non-empty chain of `lead.trail` pairs -/
def viewSpec (w : String) : Option (List (Nat × Nat)) :=
  if w.startsWith "@" then
    ((w.drop 1).toString.splitOn "/").mapM fun p =>
      match p.splitOn "." with
      | [a, b] => match a.toNat?, b.toNat? with
        | some a, some b => some (a, b)
        | _, _ => none
      | _ => none
  else none

/-- The property-level content of a case: where the buffer of the case sits inside a larger allocation is not an
    observable (C17: a view behaves like a copy of its window), so model and oracle read the first four words
    only, after checking that the view word is well formed. -/
def core (line : String) : List String :=
  match stripV (words line) with
  | [a, b, c, d, v] => if (viewSpec v).isSome then [a, b, c, d] else []
  | ws => ws

def lenOf (w : String) : Option Nat :=
  match w.toNat? with
  | some n => if n ≤ usizeMax then some n else none
  | none => none

/-- one application of the (stateless) model parser `kind`/`arg` at cursor `i` of `s`:
    the canonical output and the cursor afterwards -/
def modelStep (kind arg : String) (s : Bytes) (i : Nat) : Option (String × Nat) :=
  if kind == "bv" then
    match lenOf arg with
    | some len => let r := byteVecP len s i; some (showRes hexOfBytes r, r.2)
    | none => none
  else
    match endianOf arg with
    | some e =>
      match kind with
      | "u8" => let r := uint8P s i; some (showRes (fun v => toString v.toNat) r, r.2)
      | "u16" => let r := uint16P e s i; some (showRes (fun v => toString v.toNat) r, r.2)
      | "u32" => let r := uint32P e s i; some (showRes (fun v => toString v.toNat) r, r.2)
      | "u64" => let r := uint64P e s i; some (showRes (fun v => toString v.toNat) r, r.2)
      | "i8" => let r := int8P s i; some (showRes (fun v => toString v.toInt) r, r.2)
      | "i16" => let r := int16P e s i; some (showRes (fun v => toString v.toInt) r, r.2)
      | "i32" => let r := int32P e s i; some (showRes (fun v => toString v.toInt) r, r.2)
      | "i64" => let r := int64P e s i; some (showRes (fun v => toString v.toInt) r, r.2)
      | _ => none
    | none => none

/-- the oracle for one application: the spec's denotation of the window under the cursor, independent of the
    model; the cursor afterwards is `i + w` on success and `i` on end-of-buffer -/
def expectStep (kind arg : String) (s : Bytes) (i : Nat) : Option (String × Nat) :=
  if kind == "bv" then
    match lenOf arg with
    | some len =>
      match BinSpec.window s i len with
      | some bs => some (s!"ok {hexOfBytes bs} {i} {i+len} {i+len}", i + len)
      | none => some (s!"err eob {i}", i)
    | none => none
  else
    match endianOf arg with
    | some e =>
      let ws : Option (Nat × Bool) := match kind with
        | "u8" => some (1, false) | "u16" => some (2, false) | "u32" => some (4, false) | "u64" => some (8, false)
        | "i8" => some (1, true) | "i16" => some (2, true) | "i32" => some (4, true) | "i64" => some (8, true)
        | _ => none
      match ws with
      | some (w, sgn) =>
        match BinSpec.window s i w with
        | some bs =>
          let n := match e with | .big => BinSpec.beVal bs | .little => BinSpec.leVal bs
          let v := if sgn then toString (BinSpec.signed (8*w) n) else toString n
          some (s!"ok {v} {i} {i+w} {i+w}", i + w)
        | none => some (s!"err eob {i}", i)
      | none => none
    | none => none

/-! ### REUSE sequences: `seq <kind> <be|le|len> <buf>[,<buf>…] <step>[,<step>…]`

One parser OBJECT is applied to a list of steps.  `<buf>` = `hex` or `hex@l₁.t₁/l₂.t₂/…` (window of a chain of nested
views, dropped after validation like the fifth word of a single case); every buffer is created once and keeps its
cursor between steps.  `<step>` = `b:p`: apply the parser to buffer number `b`, after `set_cursor p` if `p` is a
number (`p ≤ length`), at the cursor the buffer has if `p` is `=`.  Output: the step outputs joined by `;`.
A parser has no state (the spec is a function of buffer and cursor), so the expected output of a sequence is
the map of the single-step oracle over the steps, the cursor of each buffer being threaded by the spec. -/

def seqBuf (w : String) : Option Bytes :=
  match w.splitOn "@" with
  | [h] => bufOf h
  | [h, v] => if (viewSpec ("@" ++ v)).isSome then bufOf h else none
  | _ => none

/-- (buffer number, explicit cursor or none for "where the buffer is") -/
def seqStep (w : String) : Option (Nat × Option Nat) :=
  match w.splitOn ":" with
  | [b, p] =>
    match b.toNat? with
    | some b => if p == "=" then some (b, none) else (p.toNat?).map fun p => (b, some p)
    | none => none
  | _ => none

/-- run the steps with the single-step function `f`, threading the cursor of every buffer -/
def runSeq (f : Bytes → Nat → Option (String × Nat)) (bufs : List Bytes) :
    List (Nat × Option Nat) → List Nat → List String → Option (List String)
  | [], _, acc => some acc.reverse
  | (b, p) :: rest, curs, acc =>
    match bufs[b]?, curs[b]? with
    | some s, some c =>
      let i := p.getD c
      if i ≤ s.length then
        match f s i with
        | some (out, c') => runSeq f bufs rest (curs.set b c') (out :: acc)
        | none => none
      else none
    | _, _ => none

def seqOut (step : String → String → Bytes → Nat → Option (String × Nat)) (ws : List String) : String :=
  match ws with
  | [kind, arg, bufs, steps] =>
    match (bufs.splitOn ",").mapM seqBuf, (steps.splitOn ",").mapM seqStep with
    | some bufs, some steps =>
      match runSeq (step kind arg) bufs steps (bufs.map fun _ => 0) [] with
      | some outs => if outs.isEmpty then "bad-case" else ";".intercalate outs
      | none => "bad-case"
    | _, _ => "bad-case"
  | _ => "bad-case"

def model (line : String) : String :=
  match words line with
  | "seq" :: ws => seqOut modelStep ws
  | _ =>
    match core line with
    | [kind, arg, hex, pos] =>
      match bufOf hex, pos.toNat? with
      | some s, some i => match modelStep kind arg s i with
        | some (out, _) => out
        | none => "bad-case"
      | _, _ => "bad-case"
    | _ => "bad-case"

/-- the oracle: the spec's denotation of the window(s), independent of the model -/
def expected (line : String) : String :=
  match words line with
  | "seq" :: ws => seqOut expectStep ws
  | _ =>
    match core line with
    | [kind, arg, hex, pos] =>
      match bufOf hex, pos.toNat? with
      | some s, some i => match expectStep kind arg s i with
        | some (out, _) => out
        | none => "bad-case"
      | _, _ => "bad-case"
    | _ => "bad-case"

/-- number of the first step whose output differs (sequence outputs are `;`-joined) -/
def firstDiff : List String → List String → Nat → Nat
  | a :: as, b :: bs, k => if a == b then firstDiff as bs (k + 1) else k
  | _, _, k => k

def judge (case impl : String) : String :=
  let e := expected case
  let got := impl.trimAscii.toString
  if e == got then "ok"
  else if got.startsWith "panic" || got.startsWith "crash" || got.startsWith "hang" then
    s!"bad panic expected={e}"      -- C19 promises a value or end-of-buffer, never a panic
  else
    let k := firstDiff (e.splitOn ";") (got.splitOn ";") 0
    -- a wrong answer of a parser object that has been used before (the first use was right): state carried
    -- from one parse() to the next
    if k > 0 then s!"bad reuse step={k} expected={e}"
    else s!"bad value expected={e}"

def kinds : List (String × Nat) :=
  [("u8",1),("u16",2),("u32",4),("u64",8),("i8",1),("i16",2),("i32",4),("i64",8)]

/-- the view word of a case (with its leading blank); `[]` = the plain buffer -/
def showView (v : List (Nat × Nat)) : String :=
  if v.isEmpty then "" else " @" ++ "/".intercalate (v.map fun (l, t) => s!"{l}.{t}")

/-- absolute offset of cursor 0 of the innermost window inside the allocation -/
def leadSum (v : List (Nat × Nat)) : Nat := (v.map (·.1)).foldl (· + ·) 0

/-- plain buffer, windows with start 0 / start > 0 / at the very end of the allocation, nested views -/
def views : List (List (Nat × Nat)) :=
  [[], [(1, 0)], [(3, 2)], [(0, 4)], [(7, 0)], [(0, 0)], [(2, 1), (1, 1)], [(0, 0), (5, 3)], [(1, 2), (2, 0), (3, 1)]]

/-- cursor 0, 1, mid, end-1, end of a buffer of `l` bytes -/
def positions (l : Nat) : List Nat := ([0, 1, l / 2, l - 1, l].filter (· ≤ l)).eraseDups

def patBuf (l : Nat) : Bytes := (List.range l).map fun j => UInt8.ofNat (0x81 + 17 * j)

def around (c : Nat) : List Nat := ([c - 2, c - 1, c, c + 1, c + 2].filter (· ≤ usizeMax)).eraseDups

/-- byte-vector lengths from the whole usize range, seen from absolute offset `abs` with `rem` bytes left:
    usize::MAX - k for k = 0..16 and k = abs ± 2 (abs + len wraps iff k < abs), 2^63 ± 2, 2^32 ± 2, 2^31 ± 2,
    rem - 1 … rem + 2, 0 -/
def hugeLens (abs rem : Nat) : List Nat :=
  ((List.range 17).map (usizeMax - ·) ++ (around abs).map (usizeMax - ·)
    ++ around (2 ^ 63) ++ around (2 ^ 32) ++ around (2 ^ 31)
    ++ [0, rem - 1, rem, rem + 1, rem + 2]).eraseDups

/-- buffer number `k` of a reuse case: no two buffers of a case look alike -/
def patBufK (k l : Nat) : Bytes := (List.range l).map fun j => UInt8.ofNat (0x81 + 17 * j + 59 * k)

/-- the parser objects of the reuse families (kind, argument, width): ByteVecP of 0,1,2,3,5,8 bytes and every
    fixed-width parser in both byte orders -/
def reuseParsers : List (String × String × Nat) :=
  ([0, 1, 2, 3, 5, 8].map fun n => ("bv", toString n, n))
  ++ [("u8", "be", 1), ("i8", "le", 1)]
  ++ (kinds.filter (·.2 > 1)).flatMap fun (k, w) => [(k, "be", w), (k, "le", w)]

/-- all words of length `n` over an alphabet -/
def wordsOver {α : Type} (alphabet : List α) : Nat → List (List α)
  | 0 => [[]]
  | n + 1 => (wordsOver alphabet n).flatMap fun w => alphabet.map (· :: w)

/-- `hex` or `hex@view` -/
def showBuf (s : Bytes) (v : List (Nat × Nat)) : String :=
  hexOfBytes s ++ (if v.isEmpty then "" else "@" ++ "/".intercalate (v.map fun (l, t) => s!"{l}.{t}"))

/-! ### REMAINING-LENGTH sweep (seed C19_9: `buf.remaining() as u8` compared with the width)

What a parser does must depend on the bytes under the cursor and on whether `width` of them remain, not on HOW MANY
remain nor on how far the cursor is from the start.  The sweep drives the remaining length (of the buffer, or of the
window of a restricted view with more bytes behind it) and the cursor through every residue around the multiples of
256 and around 2^16, 2^16 + 2^8 and 2^24, on pattern buffers (`#N`); the oracle is `BinSpec.window` as everywhere. -/

/-- the fixed-width parsers of the sweep: (kind, byte order, width) -/
def sweepInts : List (String × String × Nat) :=
  [("u8", "be", 1), ("i8", "le", 1)] ++ (kinds.filter (·.2 > 1)).flatMap fun (k, w) => [(k, "be", w), (k, "le", w)]

def sweepBvLens : List Nat := [0, 1, 2, 8, 255, 256, 257, 65535, 65536]

/-- every parser of the sweep that is of interest with `rem` bytes left: all fixed-width parsers, and ByteVecP of
    every listed length up to rem + 2 (successes, the exact fit, the two smallest failures) -/
def sweepParsers (rem : Nat) : List (String × String × Nat) :=
  sweepInts ++ (sweepBvLens.filter (· ≤ rem + 2)).map fun n => ("bv", toString n, n)

/-- c - 8 … c + 8 -/
def band (c : Nat) : List Nat := (List.range 17).filterMap fun d => if c + d ≥ 8 then some (c + d - 8) else none

def nearMult256 (r : Nat) : Bool := r % 256 ≤ 8 || r % 256 ≥ 248

/-- parser (k, a) with `rem` bytes left under cursor `c` of the pattern window `#(c + rem)` inside the view chain `v` -/
def sweepCase (k a : String) (c rem : Nat) (v : List (Nat × Nat)) : String :=
  s!"{k} {a} #{c + rem} {c}{showView v}"

/-- (cursor, views): plain buffer at cursor 0 and 3; windows with 300 / 1 / 1+255 bytes BEHIND them in the allocation
    (so the remaining length of the allocation has another residue than the remaining length of the window) -/
def sweepCfgs : List (Nat × List (Nat × Nat)) :=
  [(0, []), (3, []), (0, [(5, 300)]), (1, [(0, 1)]), (2, [(2, 1), (1, 255)])]

def sweepCfgsFew : List (Nat × List (Nat × Nat)) := [(1, []), (0, [(5, 300)])]

/-- the multiples of 256 whose neighbourhoods are swept beyond 0 … 600: 2^16 = 256·256, 2^16 + 2^8 = 257·256 -/
def highKs : List Nat := [3, 4, 16, 255, 256, 257]

def gen (seed n : Nat) (tier : String) (emit : String → IO Unit) : IO Unit := do
  -- ByteVecP: lengths from the whole usize range at every cursor position, on plain buffers and inside
  -- (nested) restricted views with zero and non-zero start
  for v in views do
    for l in [0, 1, 2, 3, 8, 20] do
      for pos in positions l do
        for len in hugeLens (leadSum v + pos) (l - pos) do
          emit s!"bv {len} {hexOfBytes (patBuf l)} {pos}{showView v}"
  -- the fixed-width parsers at the same cursor positions inside the same windows
  for v in views do
    for (k, w) in kinds do
      for e in ["be", "le"] do
        for l in [0, 1, w - 1, w, w + 1, 2 * w + 1].eraseDups do
          for pos in positions l do
            emit s!"{k} {e} {hexOfBytes (patBuf l)} {pos}{showView v}"
  -- REUSE of one parser object (seed C19_8: a buffer kept inside ByteVecP across parse() calls).
  let lens := if tier == "thorough" then [2, 3, 4] else [2, 3]
  for (k, a, w) in reuseParsers do
    -- (A) successive cursors of one buffer: cnt successes back to back, then the end of the buffer; inside every view
    for v in views do
      for cnt in [2, 3, 4] do
        for r in [0, 1, w - 1].eraseDups do
          for st in [0, r].eraseDups do
            let l := st + cnt * w + (if w == 0 then 0 else r % w)
            let steps := s!"0:{st}" :: List.replicate cnt "0:="
            emit s!"seq {k} {a} {showBuf (patBuf l) v} {",".intercalate steps}"
    -- (B) one buffer of 2w+1 bytes, every word of 2-3 (thorough: 4) steps over {stay, rewind to 0, cursor w, the last
    --     full window, one byte past it (fails), the end (fails)}: successes and failures in every order
    let l := 2 * w + 1
    let alpha := ((["=", "0"] ++ ([w, l - w, l - w + 1, l].filter (· ≤ l)).map toString).eraseDups).map ("0:" ++ ·)
    for v in [[], [(3, 2)]] do
      for n in lens do
        for ws in wordsOver alpha n do
          emit s!"seq {k} {a} {showBuf (patBuf l) v} {",".intercalate ws}"
    -- (C) three different buffers (plain; window of nested views; a window one byte too short = always a failure),
    --     every word of 2-3 (thorough: 4) steps over {next of buffer 0/1/2, rewind buffer 0, buffer 1 at cursor w}
    let bufs := ",".intercalate [showBuf (patBufK 0 (2 * w + 1)) [], showBuf (patBufK 1 (3 * w)) [(2, 1), (1, 1)],
      showBuf (patBufK 2 (w - 1)) [(0, 4)]]
    for n in lens do
      for ws in wordsOver ["0:=", "1:=", "2:=", "0:0", s!"1:{w}"] n do
        emit s!"seq {k} {a} {bufs} {",".intercalate ws}"
  -- REMAINING-LENGTH sweep: every remaining length 0 … 600 (quick: the bands k·256 ± 8 and every 7th length outside
  -- them) x every parser x {plain at cursor 0 / 3, three windows with bytes behind them}
  let thorough := tier == "thorough"
  for rem in (List.range 601).filter fun r => thorough || nearMult256 r || r % 7 == 0 || r == 600 do
    for (k, a, _) in sweepParsers rem do
      for (c, v) in sweepCfgs do
        emit (sweepCase k a c rem v)
  -- … and the bands k·256 - 8 … k·256 + 8 for k = 3, 4, 16, 255, 256 (2^16), 257 (2^16 + 2^8)
  --   (quick: two of the five positions; from 255·256 on - buffers of 64 KiB - alternating between the two)
  for kk in highKs do
    for rem in band (kk * 256) do
      for (k, a, _) in sweepParsers rem do
        for (c, v) in (if thorough then sweepCfgs else if kk < 255 then sweepCfgsFew
                       else (if rem % 2 == 0 then sweepCfgsFew.take 1 else sweepCfgsFew.drop 1)) do
          emit (sweepCase k a c rem v)
  -- LARGE CURSOR, short remaining: the cursor in the same bands, 0 / w-1 / w / w+1 (thorough also 1, w+8) bytes left
  -- (quick: offsets 0, ±1, ±2, ±4, ±8, from 255·256 on 0, ±1 only and plain / window alternating)
  for kk in [1, 2] ++ highKs do
    for d in (if thorough then List.range 17 else if kk < 255 then [0, 4, 6, 7, 8, 9, 10, 12, 16] else [7, 8, 9]) do
      let cur := kk * 256 + d - 8
      for (k, a, w) in sweepInts ++ [0, 1, 2, 8].map (fun n => ("bv", toString n, n)) do
        for rem in (if thorough then [0, 1, w - 1, w, w + 1, w + 8] else [0, w - 1, w, w + 1]).eraseDups do
          for v in (if thorough then [[], [(5, 300)], [(2, 1), (1, 255)]] else if kk < 255 then [[], [(5, 300)]]
                    else (if (d + rem) % 2 == 0 then [[]] else [[(5, 300)]])) do
            emit (sweepCase k a cur rem v)
  -- 2^24 (16 MiB buffers: 26 cases in thorough, one in quick)
  let big := 2 ^ 24
  if thorough then
    for rem in [big - 1, big, big + 1, big + 7] do
      for (k, a) in [("u16", "be"), ("i32", "le"), ("u64", "be"), ("bv", "65536")] do
        emit (sweepCase k a 1 rem [])
    emit (sweepCase "u16" "le" 0 big [(5, 300)])
    emit (sweepCase "u64" "le" 0 (big + 5) [(5, 300)])
    for cur in [big, big + 1] do
      for (k, a, w) in [("u16", "be", 2), ("u64", "le", 8)] do
        for rem in [w - 1, w] do
          emit (sweepCase k a cur rem [])
  else
    emit (sweepCase "u16" "be" 1 big [])
  -- exhaustive 8-bit patterns, every remaining-length 0..1, both kinds
  for b in List.range 256 do
    for k in ["u8", "i8"] do
      emit s!"{k} be {hexOfBytes [0x55, UInt8.ofNat b]} 1"
  emit "u8 be - 0"; emit "i8 le 41 1"
  -- 16-bit patterns: exhaustive in thorough, stride in quick (boundaries always)
  let stride := if tier == "thorough" then 1 else 13
  let mut v := 0
  while v < 65536 do
    let hi := UInt8.ofNat (v / 256); let lo := UInt8.ofNat (v % 256)
    for k in ["u16", "i16"] do
      for e in ["be", "le"] do
        emit s!"{k} {e} {hexOfBytes [hi, lo]} 0"
    v := v + stride
  for bv in [0, 1, 0x7f, 0x80, 0xff, 0x100, 0x7fff, 0x8000, 0xffff, 0xff00, 0x00ff] do
    for k in ["u16", "i16"] do
      for e in ["be", "le"] do
        emit s!"{k} {e} {hexOfBytes [0xAA, UInt8.ofNat (bv / 256), UInt8.ofNat (bv % 256), 0xBB]} 1"
  -- every remaining-length from 0 to width (and one beyond) for every kind
  for (k, w) in kinds do
    for e in ["be", "le"] do
      for rem in List.range (w + 2) do
        for lead in [0, 3] do
          let s : Bytes := (List.range (lead + rem)).map fun j => UInt8.ofNat (0x81 + 17 * j)
          emit s!"{k} {e} {hexOfBytes s} {lead}"
          emit s!"v{k} {e} {hexOfBytes s} {lead}"
  -- boundary 32/64-bit patterns
  let pats : List Bytes := [
    [0,0,0,0,0,0,0,0], [0xff,0xff,0xff,0xff,0xff,0xff,0xff,0xff], [0x80,0,0,0,0,0,0,0],
    [0,0,0,0,0,0,0,0x80], [0x7f,0xff,0xff,0xff,0xff,0xff,0xff,0xff], [0xff,0xff,0xff,0x7f,0,0,0,0x80],
    [1,2,3,4,5,6,7,8], [0,0,0,0x80,0,0,0,0], [0x80,0,0,0,0x80,0,0,0]]
  for p in pats do
    for (k, _) in kinds do
      for e in ["be", "le"] do
        emit s!"{k} {e} {hexOfBytes p} 0"
  -- random
  let mut r := Rng.mk' seed
  for it in List.range n do
    let (len, r1) := r.nat 12
    let (s, r2) := Rng.bytes len r1
    let (pos, r3) := r2.nat (len + 1)
    let ((k, _), r4) := r3.pick kinds
    let (e, r5) := r4.pick ["be", "le"]
    r := r5
    emit s!"{k} {e} {hexOfBytes s} {pos}"
    emit s!"v{k} {e} {hexOfBytes s} {pos}"
    let (bl, r6) := r.nat 14
    r := r6
    emit s!"bv {bl} {hexOfBytes s} {pos}"
    emit s!"vbv {bl} {hexOfBytes s} {pos}"
    -- a random chain of views, a random length from the far end of the usize range (around the wrap point
    -- usize::MAX - absolute offset), around a power of two, around `remaining`, or anywhere in 0 … 2^64-1
    let (depth, r7) := r.nat 4
    let mut vw : List (Nat × Nat) := []
    r := r7
    for _ in List.range depth do
      let (l, ra) := r.nat 6
      let (t, rb) := ra.nat 4
      r := rb
      vw := vw ++ [(l, t)]
    let abs := leadSum vw + pos
    let (cls, r8) := r.nat 5
    let (d, r9) := r8.nat 5
    let (x, r10) := r9.next
    let (pw, r11) := r10.pick [31, 32, 63, 64, 16, 8]
    r := r11
    let hl := match cls with
      | 0 => usizeMax - (abs + d - 2)
      | 1 => min usizeMax (2 ^ pw + d - 2)
      | 2 => len - pos + d - 1
      | 3 => usizeMax - x.toNat % 64
      | _ => x.toNat
    emit s!"bv {hl} {hexOfBytes s} {pos}{showView vw}"
    emit s!"{k} {e} {hexOfBytes s} {pos}{showView vw}"
    -- one parser object reused 2-4 times on 1-3 random buffers (each inside a random chain of 0-2 views),
    -- each step on a random buffer, at the cursor the buffer has or at a random one
    let (isBv, r12) := r.nat 2
    let (bn, r13) := r12.nat 5
    let (nb, r14) := r13.nat 3
    r := r14
    let mut bufs : List (Bytes × List (Nat × Nat)) := []
    for _ in List.range (nb + 1) do
      let (bl, ra) := r.nat 13
      let (bs, rb) := Rng.bytes bl ra
      let (dp, rc) := rb.nat 3
      r := rc
      let mut bvw : List (Nat × Nat) := []
      for _ in List.range dp do
        let (l, rd) := r.nat 6
        let (t, re) := rd.nat 4
        r := re
        bvw := bvw ++ [(l, t)]
      bufs := bufs ++ [(bs, bvw)]
    let (ns, r15) := r.nat 3
    r := r15
    let mut steps : List String := []
    for _ in List.range (ns + 2) do
      let (b, ra) := r.nat (nb + 1)
      let (stay, rb) := ra.nat 2
      let (p, rc) := rb.nat ((bufs[b]?.map (·.1.length)).getD 0 + 1)
      r := rc
      steps := steps ++ [if stay == 0 then s!"{b}:=" else s!"{b}:{p}"]
    let (pk, pa) := if isBv == 0 then ("bv", toString bn) else (k, e)
    emit s!"seq {pk} {pa} {",".intercalate (bufs.map fun (bs, v) => showBuf bs v)} {",".intercalate steps}"
    -- remaining-length sweep, random: remaining = k·256 - 8 … k·256 + 8 (k = 0 … 8; every 32nd case k = 16, 255, 256,
    -- 257), random cursor < 700, random parser, plain or inside a window with random lead < 6 and 0 … 399 bytes behind it
    let (kSmall, r16) := r.nat 9
    let (d, r17) := r16.nat 17
    let (cur, r18) := r17.nat 700
    let ((sk, sa, _), r19) := r18.pick sweepInts
    let (bvSel, r20) := r19.nat 3
    let (lead, r21) := r20.nat 6
    let (trail, r22) := r21.nat 400
    let (kBig, r23) := r22.pick [16, 255, 256, 257]
    let (x2, r24) := r23.next
    r := r24
    let rem := (if it % 32 == 0 then kBig else kSmall) * 256 + d - 8
    let lens := sweepBvLens.filter (· ≤ rem + 2)
    let (pk2, pa2) := if bvSel == 0 then ("bv", toString (lens.getD (x2.toNat % lens.length) 0)) else (sk, sa)
    emit (sweepCase pk2 pa2 cur rem (if x2.toNat / 1024 % 2 == 0 then [] else [(lead, trail)]))

/-- non-trivial: a successful multi-byte decode or a short-buffer failure at a non-zero cursor; a reuse
    sequence: at least two uses of a parser other than UInt8P -/
def twoBytes (hex : String) : Bool :=
  if hex.startsWith "#" then ((hex.drop 1).toString.toNat?).getD 0 ≥ 2 else hex.length ≥ 4

def nontrivial (line : String) : Bool :=
  match words line with
  | [k, _, hex, pos] => k != "u8" && (twoBytes hex || pos != "0")
  | ["seq", k, _, _, steps] => k != "u8" && (steps.splitOn ",").length ≥ 2
  | [k, _, hex, pos, _] => k != "u8" && (twoBytes hex || pos != "0")
  | _ => false

def driver : PropDriver := { gen, model, judge, nontrivial }
end Driver.C19
