import Driver.Common
import Parsley.Model.Bin
import Parsley.Spec.Bin
namespace Driver.C19
open Parsley Parsley.Bin Driver

def endianOf : String → Option Endian
  | "be" => some .big | "le" => some .little | _ => none

/-- case: `<kind> <be|le> <hexbuf> <pos>` with kind ∈ u8 u16 u32 u64 i8 i16 i32 i64,
    or `bv <len> <hexbuf> <pos>` -/
def stripV (ws : List String) : List String :=
  match ws with
  | k :: rest => (if k.startsWith "v" then (k.drop 1).toString else k) :: rest
  | [] => []

def model (line : String) : String :=
  match stripV (words line) with
  | ["bv", len, hex, pos] =>
    match len.toNat?, bytesOfHex hex, pos.toNat? with
    | some len, some s, some i => showRes hexOfBytes (byteVecP len s i)
    | _, _, _ => "bad-case"
  | [kind, e, hex, pos] =>
    match endianOf e, bytesOfHex hex, pos.toNat? with
    | some e, some s, some i =>
      match kind with
      | "u8" => showRes (fun v => toString v.toNat) (uint8P s i)
      | "u16" => showRes (fun v => toString v.toNat) (uint16P e s i)
      | "u32" => showRes (fun v => toString v.toNat) (uint32P e s i)
      | "u64" => showRes (fun v => toString v.toNat) (uint64P e s i)
      | "i8" => showRes (fun v => toString v.toInt) (int8P s i)
      | "i16" => showRes (fun v => toString v.toInt) (int16P e s i)
      | "i32" => showRes (fun v => toString v.toInt) (int32P e s i)
      | "i64" => showRes (fun v => toString v.toInt) (int64P e s i)
      | _ => "bad-case"
    | _, _, _ => "bad-case"
  | _ => "bad-case"

/-- the oracle: the spec's denotation of the window, independent of the model -/
def expected (line : String) : String :=
  match stripV (words line) with
  | ["bv", len, hex, pos] =>
    match len.toNat?, bytesOfHex hex, pos.toNat? with
    | some len, some s, some i =>
      match BinSpec.window s i len with
      | some bs => s!"ok {hexOfBytes bs} {i} {i+len} {i+len}"
      | none => s!"err eob {i}"
    | _, _, _ => "bad-case"
  | [kind, e, hex, pos] =>
    match endianOf e, bytesOfHex hex, pos.toNat? with
    | some e, some s, some i =>
      let (w, sgn) := match kind with
        | "u8" => (1, false) | "u16" => (2, false) | "u32" => (4, false) | "u64" => (8, false)
        | "i8" => (1, true) | "i16" => (2, true) | "i32" => (4, true) | _ => (8, true)
      match BinSpec.window s i w with
      | some bs =>
        let n := match e with | .big => BinSpec.beVal bs | .little => BinSpec.leVal bs
        let v := if sgn then toString (BinSpec.signed (8*w) n) else toString n
        s!"ok {v} {i} {i+w} {i+w}"
      | none => s!"err eob {i}"
    | _, _, _ => "bad-case"
  | _ => "bad-case"

def judge (case impl : String) : String :=
  let e := expected case
  if e == impl.trimAscii.toString then "ok" else s!"bad value expected={e}"

def kinds : List (String × Nat) :=
  [("u8",1),("u16",2),("u32",4),("u64",8),("i8",1),("i16",2),("i32",4),("i64",8)]

def gen (seed n : Nat) (tier : String) (emit : String → IO Unit) : IO Unit := do
  -- exhaustive 8-bit patterns, every remaining-length 0..1, both kinds
  for b in List.range 256 do
    for k in ["u8", "i8"] do
      emit s!"{k} be {hexOfBytes [0x55, UInt8.ofNat b]} 1"
  emit "u8 be - 0"; emit "i8 le 41 1"
  -- 16-bit patterns: exhaustive in thorough, stride in quick (boundaries always)
  let stride := if tier == "thorough" then 1 else 13
  let mut v := 0
  while v < 65536 do
    let hi := UInt8.ofNat (v / 256); let lo := UInt8.ofNat (v % 256)
    for k in ["u16", "i16"] do
      for e in ["be", "le"] do
        emit s!"{k} {e} {hexOfBytes [hi, lo]} 0"
    v := v + stride
  for bv in [0, 1, 0x7f, 0x80, 0xff, 0x100, 0x7fff, 0x8000, 0xffff, 0xff00, 0x00ff] do
    for k in ["u16", "i16"] do
      for e in ["be", "le"] do
        emit s!"{k} {e} {hexOfBytes [0xAA, UInt8.ofNat (bv / 256), UInt8.ofNat (bv % 256), 0xBB]} 1"
  -- every remaining-length from 0 to width (and one beyond) for every kind
  for (k, w) in kinds do
    for e in ["be", "le"] do
      for rem in List.range (w + 2) do
        for lead in [0, 3] do
          let s : Bytes := (List.range (lead + rem)).map fun j => UInt8.ofNat (0x81 + 17 * j)
          emit s!"{k} {e} {hexOfBytes s} {lead}"
          emit s!"v{k} {e} {hexOfBytes s} {lead}"
  -- boundary 32/64-bit patterns
  let pats : List Bytes := [
    [0,0,0,0,0,0,0,0], [0xff,0xff,0xff,0xff,0xff,0xff,0xff,0xff], [0x80,0,0,0,0,0,0,0],
    [0,0,0,0,0,0,0,0x80], [0x7f,0xff,0xff,0xff,0xff,0xff,0xff,0xff], [0xff,0xff,0xff,0x7f,0,0,0,0x80],
    [1,2,3,4,5,6,7,8], [0,0,0,0x80,0,0,0,0], [0x80,0,0,0,0x80,0,0,0]]
  for p in pats do
    for (k, _) in kinds do
      for e in ["be", "le"] do
        emit s!"{k} {e} {hexOfBytes p} 0"
  -- random
  let mut r := Rng.mk' seed
  for _ in List.range n do
    let (len, r1) := r.nat 12
    let (s, r2) := Rng.bytes len r1
    let (pos, r3) := r2.nat (len + 1)
    let ((k, _), r4) := r3.pick kinds
    let (e, r5) := r4.pick ["be", "le"]
    r := r5
    emit s!"{k} {e} {hexOfBytes s} {pos}"
    emit s!"v{k} {e} {hexOfBytes s} {pos}"
    let (bl, r6) := r.nat 14
    r := r6
    emit s!"bv {bl} {hexOfBytes s} {pos}"
    emit s!"vbv {bl} {hexOfBytes s} {pos}"

/-- non-trivial: a successful multi-byte decode or a short-buffer failure at a non-zero cursor -/
def nontrivial (line : String) : Bool :=
  match words line with
  | [k, _, hex, pos] => k != "u8" && (hex.length ≥ 4 || pos != "0")
  | _ => false

def driver : PropDriver := { gen, model, judge, nontrivial }
end Driver.C19
