import Driver.Common
import Parsley.Model.Bin
import Parsley.Spec.Bin
namespace Driver.C19
open Parsley Parsley.Bin Driver

def endianOf : String → Option Endian
  | "be" => some .big | "le" => some .little | _ => none

/-- case: `<kind> <be|le> <hexbuf> <pos>` with kind ∈ u8 u16 u32 u64 i8 i16 i32 i64,
    or `bv <len> <hexbuf> <pos>` (`len` decimal, the whole usize range 0 … 2^64-1).
    A kind prefixed with `v` runs on a restricted view (3 bytes before, 2 after); an optional fifth word
    `@l.t` or `@l₁.t₁/l₂.t₂/…` (outermost first) runs on a chain of nested RestrictViews whose innermost window is
    exactly `hexbuf`, view j cutting `l_j` bytes before and `t_j` bytes after its window. -/
def stripV (ws : List String) : List String :=
  match ws with
  | k :: rest => (if k.startsWith "v" then (k.drop 1).toString else k) :: rest
  | [] => []

def usizeMax : Nat := 2 ^ 64 - 1

/-- the fifth word: a non-empty chain of `lead.trail` pairs -/
def viewSpec (w : String) : Option (List (Nat × Nat)) :=
  if w.startsWith "@" then
    ((w.drop 1).toString.splitOn "/").mapM fun p =>
      match p.splitOn "." with
      | [a, b] => match a.toNat?, b.toNat? with
        | some a, some b => some (a, b)
        | _, _ => none
      | _ => none
  else none

/-- The property-level content of a case: where the buffer of the case sits inside a larger allocation is not an
    observable (C17: a view behaves like a copy of its window), so model and oracle read the first four words
    only, after checking that the view word is well formed. -/
def core (line : String) : List String :=
  match stripV (words line) with
  | [a, b, c, d, v] => if (viewSpec v).isSome then [a, b, c, d] else []
  | ws => ws

def lenOf (w : String) : Option Nat :=
  match w.toNat? with
  | some n => if n ≤ usizeMax then some n else none
  | none => none

def model (line : String) : String :=
  match core line with
  | ["bv", len, hex, pos] =>
    match lenOf len, bytesOfHex hex, pos.toNat? with
    | some len, some s, some i => showRes hexOfBytes (byteVecP len s i)
    | _, _, _ => "bad-case"
  | [kind, e, hex, pos] =>
    match endianOf e, bytesOfHex hex, pos.toNat? with
    | some e, some s, some i =>
      match kind with
      | "u8" => showRes (fun v => toString v.toNat) (uint8P s i)
      | "u16" => showRes (fun v => toString v.toNat) (uint16P e s i)
      | "u32" => showRes (fun v => toString v.toNat) (uint32P e s i)
      | "u64" => showRes (fun v => toString v.toNat) (uint64P e s i)
      | "i8" => showRes (fun v => toString v.toInt) (int8P s i)
      | "i16" => showRes (fun v => toString v.toInt) (int16P e s i)
      | "i32" => showRes (fun v => toString v.toInt) (int32P e s i)
      | "i64" => showRes (fun v => toString v.toInt) (int64P e s i)
      | _ => "bad-case"
    | _, _, _ => "bad-case"
  | _ => "bad-case"

/-- the oracle: the spec's denotation of the window, independent of the model -/
def expected (line : String) : String :=
  match core line with
  | ["bv", len, hex, pos] =>
    match lenOf len, bytesOfHex hex, pos.toNat? with
    | some len, some s, some i =>
      match BinSpec.window s i len with
      | some bs => s!"ok {hexOfBytes bs} {i} {i+len} {i+len}"
      | none => s!"err eob {i}"
    | _, _, _ => "bad-case"
  | [kind, e, hex, pos] =>
    match endianOf e, bytesOfHex hex, pos.toNat? with
    | some e, some s, some i =>
      let (w, sgn) := match kind with
        | "u8" => (1, false) | "u16" => (2, false) | "u32" => (4, false) | "u64" => (8, false)
        | "i8" => (1, true) | "i16" => (2, true) | "i32" => (4, true) | _ => (8, true)
      match BinSpec.window s i w with
      | some bs =>
        let n := match e with | .big => BinSpec.beVal bs | .little => BinSpec.leVal bs
        let v := if sgn then toString (BinSpec.signed (8*w) n) else toString n
        s!"ok {v} {i} {i+w} {i+w}"
      | none => s!"err eob {i}"
    | _, _, _ => "bad-case"
  | _ => "bad-case"

def judge (case impl : String) : String :=
  let e := expected case
  let got := impl.trimAscii.toString
  if e == got then "ok"
  else if got.startsWith "panic" || got.startsWith "crash" || got.startsWith "hang" then
    s!"bad panic expected={e}"      -- C19 promises a value or end-of-buffer, never a panic
  else s!"bad value expected={e}"

def kinds : List (String × Nat) :=
  [("u8",1),("u16",2),("u32",4),("u64",8),("i8",1),("i16",2),("i32",4),("i64",8)]

/-- the view word of a case (with its leading blank); `[]` = the plain buffer -/
def showView (v : List (Nat × Nat)) : String :=
  if v.isEmpty then "" else " @" ++ "/".intercalate (v.map fun (l, t) => s!"{l}.{t}")

/-- absolute offset of cursor 0 of the innermost window inside the allocation -/
def leadSum (v : List (Nat × Nat)) : Nat := (v.map (·.1)).foldl (· + ·) 0

/-- plain buffer, windows with start 0 / start > 0 / at the very end of the allocation, nested views -/
def views : List (List (Nat × Nat)) :=
  [[], [(1, 0)], [(3, 2)], [(0, 4)], [(7, 0)], [(0, 0)], [(2, 1), (1, 1)], [(0, 0), (5, 3)], [(1, 2), (2, 0), (3, 1)]]

/-- cursor 0, 1, mid, end-1, end of a buffer of `l` bytes -/
def positions (l : Nat) : List Nat := ([0, 1, l / 2, l - 1, l].filter (· ≤ l)).eraseDups

def patBuf (l : Nat) : Bytes := (List.range l).map fun j => UInt8.ofNat (0x81 + 17 * j)

def around (c : Nat) : List Nat := ([c - 2, c - 1, c, c + 1, c + 2].filter (· ≤ usizeMax)).eraseDups

/-- byte-vector lengths from the whole usize range, seen from absolute offset `abs` with `rem` bytes left:
    usize::MAX - k for k = 0..16 and k = abs ± 2 (abs + len wraps iff k < abs), 2^63 ± 2, 2^32 ± 2, 2^31 ± 2,
    rem - 1 … rem + 2, 0 -/
def hugeLens (abs rem : Nat) : List Nat :=
  ((List.range 17).map (usizeMax - ·) ++ (around abs).map (usizeMax - ·)
    ++ around (2 ^ 63) ++ around (2 ^ 32) ++ around (2 ^ 31)
    ++ [0, rem - 1, rem, rem + 1, rem + 2]).eraseDups

def gen (seed n : Nat) (tier : String) (emit : String → IO Unit) : IO Unit := do
  -- ByteVecP: lengths from the whole usize range at every cursor position, on plain buffers and inside
  -- (nested) restricted views with zero and non-zero start
  for v in views do
    for l in [0, 1, 2, 3, 8, 20] do
      for pos in positions l do
        for len in hugeLens (leadSum v + pos) (l - pos) do
          emit s!"bv {len} {hexOfBytes (patBuf l)} {pos}{showView v}"
  -- the fixed-width parsers at the same cursor positions inside the same windows
  for v in views do
    for (k, w) in kinds do
      for e in ["be", "le"] do
        for l in [0, 1, w - 1, w, w + 1, 2 * w + 1].eraseDups do
          for pos in positions l do
            emit s!"{k} {e} {hexOfBytes (patBuf l)} {pos}{showView v}"
  -- exhaustive 8-bit patterns, every remaining-length 0..1, both kinds
  for b in List.range 256 do
    for k in ["u8", "i8"] do
      emit s!"{k} be {hexOfBytes [0x55, UInt8.ofNat b]} 1"
  emit "u8 be - 0"; emit "i8 le 41 1"
  -- 16-bit patterns: exhaustive in thorough, stride in quick (boundaries always)
  let stride := if tier == "thorough" then 1 else 13
  let mut v := 0
  while v < 65536 do
    let hi := UInt8.ofNat (v / 256); let lo := UInt8.ofNat (v % 256)
    for k in ["u16", "i16"] do
      for e in ["be", "le"] do
        emit s!"{k} {e} {hexOfBytes [hi, lo]} 0"
    v := v + stride
  for bv in [0, 1, 0x7f, 0x80, 0xff, 0x100, 0x7fff, 0x8000, 0xffff, 0xff00, 0x00ff] do
    for k in ["u16", "i16"] do
      for e in ["be", "le"] do
        emit s!"{k} {e} {hexOfBytes [0xAA, UInt8.ofNat (bv / 256), UInt8.ofNat (bv % 256), 0xBB]} 1"
  -- every remaining-length from 0 to width (and one beyond) for every kind
  for (k, w) in kinds do
    for e in ["be", "le"] do
      for rem in List.range (w + 2) do
        for lead in [0, 3] do
          let s : Bytes := (List.range (lead + rem)).map fun j => UInt8.ofNat (0x81 + 17 * j)
          emit s!"{k} {e} {hexOfBytes s} {lead}"
          emit s!"v{k} {e} {hexOfBytes s} {lead}"
  -- boundary 32/64-bit patterns
  let pats : List Bytes := [
    [0,0,0,0,0,0,0,0], [0xff,0xff,0xff,0xff,0xff,0xff,0xff,0xff], [0x80,0,0,0,0,0,0,0],
    [0,0,0,0,0,0,0,0x80], [0x7f,0xff,0xff,0xff,0xff,0xff,0xff,0xff], [0xff,0xff,0xff,0x7f,0,0,0,0x80],
    [1,2,3,4,5,6,7,8], [0,0,0,0x80,0,0,0,0], [0x80,0,0,0,0x80,0,0,0]]
  for p in pats do
    for (k, _) in kinds do
      for e in ["be", "le"] do
        emit s!"{k} {e} {hexOfBytes p} 0"
  -- random
  let mut r := Rng.mk' seed
  for _ in List.range n do
    let (len, r1) := r.nat 12
    let (s, r2) := Rng.bytes len r1
    let (pos, r3) := r2.nat (len + 1)
    let ((k, _), r4) := r3.pick kinds
    let (e, r5) := r4.pick ["be", "le"]
    r := r5
    emit s!"{k} {e} {hexOfBytes s} {pos}"
    emit s!"v{k} {e} {hexOfBytes s} {pos}"
    let (bl, r6) := r.nat 14
    r := r6
    emit s!"bv {bl} {hexOfBytes s} {pos}"
    emit s!"vbv {bl} {hexOfBytes s} {pos}"
    -- a random chain of views, a random length from the far end of the usize range (around the wrap point
    -- usize::MAX - absolute offset), around a power of two, around `remaining`, or anywhere in 0 … 2^64-1
    let (depth, r7) := r.nat 4
    let mut vw : List (Nat × Nat) := []
    r := r7
    for _ in List.range depth do
      let (l, ra) := r.nat 6
      let (t, rb) := ra.nat 4
      r := rb
      vw := vw ++ [(l, t)]
    let abs := leadSum vw + pos
    let (cls, r8) := r.nat 5
    let (d, r9) := r8.nat 5
    let (x, r10) := r9.next
    let (pw, r11) := r10.pick [31, 32, 63, 64, 16, 8]
    r := r11
    let hl := match cls with
      | 0 => usizeMax - (abs + d - 2)
      | 1 => min usizeMax (2 ^ pw + d - 2)
      | 2 => len - pos + d - 1
      | 3 => usizeMax - x.toNat % 64
      | _ => x.toNat
    emit s!"bv {hl} {hexOfBytes s} {pos}{showView vw}"
    emit s!"{k} {e} {hexOfBytes s} {pos}{showView vw}"

/-- non-trivial: a successful multi-byte decode or a short-buffer failure at a non-zero cursor -/
def nontrivial (line : String) : Bool :=
  match words line with
  | [k, _, hex, pos] => k != "u8" && (hex.length ≥ 4 || pos != "0")
  | [k, _, hex, pos, _] => k != "u8" && (hex.length ≥ 4 || pos != "0")
  | _ => false

def driver : PropDriver := { gen, model, judge, nontrivial }
end Driver.C19
