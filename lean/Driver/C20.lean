import Driver.Common
import Parsley.Model.Rtps
import Parsley.Spec.Rtps
/-
  C20 line protocol.

  case lines
    raw <hex>                                   an arbitrary datagram
    enc <hex> <packet>                          a datagram produced by the spec encoder from <packet>
  <packet> ::= <version> <vendor> <prefix-hex> <n> { <id> <flags> <length> <payload-hex> }^n     (decimal / hex, "-" = empty)

  output lines (implementation and model)
    ok <cursor> <packet> | err | panic <text>
-/
namespace Driver.C20
open Parsley Parsley.Rtps Driver

def showSub (m : SubMsg) : String :=
  s!"{m.hdr.id.toNat} {m.hdr.flags.toNat} {m.hdr.length.toNat} {hexOfBytes m.payload}"

def showPacket (p : Packet) : String :=
  let head := s!"{p.hdr.version.toNat} {p.hdr.vendor.toNat} {hexOfBytes p.hdr.guidPrefix} {p.msgs.length}"
  p.msgs.foldl (fun acc m => acc ++ " " ++ showSub m) head

def readSubs : Nat → List String → Option (List SubMsg)
  | 0, [] => some []
  | 0, _ => none
  | n + 1, id :: fl :: len :: pl :: rest =>
    match id.toNat?, fl.toNat?, len.toNat?, bytesOfHex pl, readSubs n rest with
    | some id, some fl, some len, some pl, some ms =>
      if id < 256 ∧ fl < 256 ∧ len < 65536 then
        some (⟨⟨UInt8.ofNat id, UInt8.ofNat fl, UInt16.ofNat len⟩, pl⟩ :: ms)
      else none
    | _, _, _, _, _ => none
  | _ + 1, _ => none

def readPacket : List String → Option Packet
  | ver :: ven :: pre :: n :: rest =>
    match ver.toNat?, ven.toNat?, bytesOfHex pre, n.toNat? with
    | some ver, some ven, some pre, some n =>
      if ver < 65536 ∧ ven < 65536 then
        (readSubs n rest).map fun ms => ⟨⟨UInt16.ofNat ver, UInt16.ofNat ven, pre⟩, ms⟩
      else none
    | _, _, _, _ => none
  | _ => none

def datagramOf (line : String) : Option Bytes :=
  match words line with
  | "raw" :: hex :: _ => bytesOfHex hex
  | "enc" :: hex :: _ => bytesOfHex hex
  | _ => none

/-- the model: `PacketP::parse` on a fresh buffer -/
def model (line : String) : String :=
  match datagramOf line with
  | none => "bad-case"
  | some bs =>
    match packetP bs 0 with
    | (.ok p, c) => s!"ok {c} {showPacket p.val}"
    | (.err _, _) => "err"
    | (.panic st, _) => s!"panic {st}"

/-- The oracle.  Computed from `RtpsSpec` only (encoder, WF, reference decoder). -/
def judge (case impl : String) : String :=
  match words case with
  | kind :: hex :: pk =>
    match bytesOfHex hex with
    | none => "bad badcase hex"
    | some bs =>
      -- an `enc` case must be what it claims: the spec encoding of a well-formed packet
      let claimed : Option (Option Packet) :=
        if kind == "enc" then
          match readPacket pk with
          | some p => if RtpsSpec.encode p == bs ∧ RtpsSpec.WF p then some (some p) else none
          | none => none
        else if kind == "raw" then some none else none
      match claimed with
      | none => "bad badcase not-an-encoding"
      | some want =>
        match words impl with
        | ["err"] =>
          match want with
          | some _ => "bad roundtrip rejected-the-encoding-of-a-well-formed-packet"
          | none =>
            match RtpsSpec.refDecode bs with
            | some _ => "bad reject datagram-is-the-encoding-of-a-well-formed-packet"
            | none => "ok"
        | "ok" :: c :: got =>
          match readPacket got with
          | none => "bad unreadable implementation-output"
          | some p =>
            if RtpsSpec.encode p != bs then "bad reencode re-encoding-differs-from-datagram"
            else if ¬ RtpsSpec.WF p then "bad illformed returned-packet-is-not-the-reading-of-its-encoding"
            else if c.toNat? != some bs.length then "bad cursor datagram-not-consumed"
            else match want with
              | some q => if p == q then "ok" else "bad roundtrip decoded-packet-differs"
              | none => "ok"
        | _ => "bad panic " ++ (impl.take 60).toString
  | _ => "bad badcase"

/-! ### generators -/

def randBytes (n : Nat) (r : Rng) : Bytes × Rng := Id.run do
  let mut acc : Bytes := []
  let mut r := r
  for _ in List.range n do
    let (b, r') := r.byte
    acc := b :: acc
    r := r'
  return (acc, r)

def knownIds : List Nat := [0x01, 0x06, 0x07, 0x08, 0x09, 0x0c, 0x0d, 0x0e, 0x0f, 0x12, 0x13, 0x15, 0x16]

def genLen (r : Rng) : Nat × Rng :=
  let (c, r) := r.nat 1000
  if c < 350 then r.nat 9
  else if c < 700 then let (k, r) := r.nat 56; (9 + k, r)
  else if c < 850 then r.pick [255, 256, 257, 258, 511, 512, 513, 1023, 1024]
  else if c < 985 then let (k, r) := r.nat 1436; (65 + k, r)
  else if c < 997 then let (k, r) := r.nat 4000; (4000 + k, r)
  else r.pick [65535, 65534, 65483, 32768, 65280, 255 * 256 + 1]

/-- a sub-message; `zero` = write length field 0 (only well-formed in last position) -/
def genSub (r : Rng) (zero : Bool) : SubMsg × Rng :=
  let (k, r) := r.nat 10
  let (id, r) := if k < 7 then r.pick knownIds else r.nat 256
  let (fl, r) := r.nat 256
  let (n, r) := genLen r
  let n := if zero then n else if n == 0 then 1 else n
  let (pl, r) := randBytes n r
  (⟨⟨UInt8.ofNat id, UInt8.ofNat fl, if zero then 0 else UInt16.ofNat n⟩, pl⟩, r)

def genPacket (r : Rng) (maxSubs : Nat) : Packet × Rng := Id.run do
  let (ver, r) := r.nat 65536
  let (ven, r) := r.nat 65536
  let (pre, r) := randBytes 12 r
  let (k, r) := r.nat (maxSubs + 1)
  let mut r := r
  let mut ms : List SubMsg := []
  for j in List.range k do
    let (z, r1) := r.nat 3
    let (m, r2) := genSub r1 (j + 1 == k && z == 0)
    ms := ms ++ [m]
    r := r2
  return (⟨⟨UInt16.ofNat ver, UInt16.ofNat ven, pre⟩, ms⟩, r)

def encLine (p : Packet) : String :=
  s!"enc {hexOfBytes (RtpsSpec.encode p)} {showPacket p}"

/-- one random edit of a datagram -/
def mutate (bs : Bytes) (r : Rng) : Bytes × Rng :=
  let (k, r) := r.nat 8
  let n := bs.length
  match k with
  | 0 => let (i, r) := r.nat (n + 1); (bs.take i, r)                                  -- truncate
  | 1 => let (i, r) := r.nat (min n 28 + 1); (bs.take i, r)                           -- truncate in header / first sub-header
  | 2 => let (i, r) := r.nat n; let (b, r) := r.byte; (bs.set i b, r)                 -- overwrite a byte
  | 3 => let (i, r) := r.nat (min n 28); let (b, r) := r.byte; (bs.set i b, r)        -- overwrite a header byte
  | 4 => let (m, r) := r.nat 6; let (x, r) := randBytes (m + 1) r; (bs ++ x, r)       -- trailing bytes
  | 5 => let (i, r) := r.nat n; (bs.eraseIdx i, r)                                     -- delete a byte
  | 6 => let (i, r) := r.nat (n + 1); let (b, r) := r.byte; (bs.take i ++ b :: bs.drop i, r) -- insert a byte
  | _ => -- flip bit 0 of the flags / zero a length byte of the first sub-message
    let (w, r) := r.nat 3
    if n < 24 then (bs, r)
    else if w == 0 then (bs.set 21 ((bs.getD 21 0) ^^^ 1), r)
    else (bs.set (21 + w) 0, r)

/-- deterministic small packets for the exhaustive streams -/
def mkSub (id fl : Nat) (len : Nat) (pl : Bytes) : SubMsg := ⟨⟨UInt8.ofNat id, UInt8.ofNat fl, UInt16.ofNat len⟩, pl⟩
def seqBytes (n : Nat) : Bytes := (List.range n).map fun j => UInt8.ofNat (j * 7 + 1)
def hdr0 : Header := ⟨0x0302, 0x0f01, seqBytes 12⟩

def gen (seed n : Nat) (tier : String) (emit : String → IO Unit) : IO Unit := do
  -- (4) exhaustive small spaces ------------------------------------------------
  -- every flags byte x {short, 258-byte (asymmetric length bytes), zero-length} x {last, followed}
  for fl in List.range 256 do
    emit (encLine ⟨hdr0, [mkSub 0x15 fl 3 (seqBytes 3)]⟩)
    emit (encLine ⟨hdr0, [mkSub 0x15 fl 258 (seqBytes 258), mkSub 0x09 (255 - fl) 8 (seqBytes 8)]⟩)
    emit (encLine ⟨hdr0, [mkSub 0x07 fl 1 [0xaa], mkSub 0x06 fl 0 (seqBytes 5)]⟩)
    emit (encLine ⟨hdr0, [mkSub 0x07 fl 0 []]⟩)
  -- every sub-message id
  for id in List.range 256 do
    emit (encLine ⟨hdr0, [mkSub id 1 2 [1, 2], mkSub id 0 2 [3, 4]]⟩)
  -- every length-field value whose two bytes are 00/01/ff-ish, both byte orders, exact / one short / one long
  for len in [1, 2, 255, 256, 257, 0x0100, 0x00ff, 0xff00 / 64, 1000] do
    for fl in [0, 1] do
      let good := RtpsSpec.encode ⟨hdr0, [mkSub 0x15 fl len (seqBytes len)]⟩
      emit s!"raw {hexOfBytes good}"
      emit s!"raw {hexOfBytes good.dropLast}"
      emit s!"raw {hexOfBytes (good ++ [0x77])}"
      emit s!"raw {hexOfBytes (good ++ [0x01, 0x00, 0x00, 0x00])}"
  -- every prefix (truncation) of a three-sub-message datagram
  let d3 := RtpsSpec.encode ⟨hdr0, [mkSub 0x09 1 8 (seqBytes 8), mkSub 0x15 0 5 (seqBytes 5), mkSub 0x07 3 0 (seqBytes 6)]⟩
  for k in List.range (d3.length + 1) do
    emit s!"raw {hexOfBytes (d3.take k)}"
  -- every single-byte change (4 values) of its first 32 bytes
  for i in List.range 32 do
    for v in [0x00, 0x01, 0xff, 0x52] do
      emit s!"raw {hexOfBytes (d3.set i v)}"
  -- every byte string over {00,01,02} of length <= 6 (quick) / <= 8 (thorough) behind a valid header:
  -- all small combinations of id, flags bit 0, length bytes (0, 1, 2, 256, 257, 258, 512, ...) and payload
  let maxLen := if tier == "thorough" then 8 else 6
  let mut level : List Bytes := [[]]
  for _ in List.range (maxLen + 1) do
    for t in level do
      emit s!"raw {hexOfBytes (RtpsSpec.encodeHdr hdr0 ++ t)}"
    level := level.flatMap fun t => [0x00 :: t, 0x01 :: t, 0x02 :: t]
  -- non-well-formed packet values, encoded: a zero length field that is not last, lengths that lie
  emit s!"raw {hexOfBytes (RtpsSpec.encode ⟨hdr0, [mkSub 0x15 1 0 [], mkSub 0x09 1 2 [1, 2]]⟩)}"
  emit s!"raw {hexOfBytes (RtpsSpec.encode ⟨hdr0, [mkSub 0x15 1 0 [9, 9], mkSub 0x09 0 2 [1, 2]]⟩)}"
  emit s!"raw {hexOfBytes (RtpsSpec.encode ⟨hdr0, [mkSub 0x15 1 5 [1, 2], mkSub 0x09 0 2 [1, 2]]⟩)}"
  emit s!"raw {hexOfBytes (RtpsSpec.encode ⟨hdr0, [mkSub 0x15 0 1 [1, 2, 3, 4, 5, 6]]⟩)}"
  -- the size limits: largest length field, largest UDP payload (65507), beyond 65535 via zero length
  let bigs : List Packet := [
    ⟨hdr0, [mkSub 0x15 1 65535 (seqBytes 65535)]⟩,
    ⟨hdr0, [mkSub 0x15 0 65535 (seqBytes 65535), mkSub 0x09 1 8 (seqBytes 8)]⟩,
    ⟨hdr0, [mkSub 0x15 1 65483 (seqBytes 65483)]⟩,                      -- 20 + 4 + 65483 = 65507
    ⟨hdr0, [mkSub 0x15 1 0 (seqBytes 65483)]⟩,
    ⟨hdr0, [mkSub 0x16 0 0 (seqBytes 70000)]⟩,
    ⟨hdr0, [mkSub 0x15 1 0xff00 (seqBytes 0xff00), mkSub 0x15 0 0x00ff (seqBytes 0x00ff)]⟩]
  for p in bigs do
    emit (encLine p)
    emit s!"raw {hexOfBytes (RtpsSpec.encode p).dropLast}"
  -- (2)(3) random streams -------------------------------------------------------
  let mut r := Rng.mk' seed
  for _ in List.range n do
    -- structured, valid
    let (p, r1) := genPacket r 5
    r := r1
    emit (encLine p)
    -- malformed: one edit of a valid datagram (some stay valid; the oracle decides)
    let (q, r2) := genPacket r 3
    let (m, r3) := mutate (RtpsSpec.encode q) r2
    r := r3
    emit s!"raw {hexOfBytes m}"
  for _ in List.range (n / 4) do
    -- arbitrary packet values (not necessarily well-formed), encoded
    let (p, r1) := genPacket r 4
    let (j, r2) := r1.nat (p.msgs.length + 1)
    let (v, r3) := r2.pick [0, 1, 2, 255, 256, 65535]
    r := r3
    let ms := p.msgs.mapIdx fun idx m => if idx == j then { m with hdr := { m.hdr with length := UInt16.ofNat v } } else m
    emit s!"raw {hexOfBytes (RtpsSpec.encode ⟨p.hdr, ms⟩)}"
    -- arbitrary bytes, and arbitrary bytes behind a valid header
    let (len, r4) := r.nat 48
    let (x, r5) := randBytes len r4
    r := r5
    emit s!"raw {hexOfBytes x}"
    emit s!"raw {hexOfBytes (RtpsSpec.encodeHdr hdr0 ++ x)}"
  if tier == "thorough" then
    for _ in List.range 60 do
      let (k, r1) := r.nat 65508
      let (x, r2) := randBytes k r1
      r := r2
      emit s!"raw {hexOfBytes (RtpsSpec.encodeHdr hdr0 ++ x)}"

/-- non-trivial: the datagram gets past the 20-byte header into the sub-message loop
    (an `enc` case with at least one sub-message, or a `raw` case of ≥ 21 bytes starting with the magic) -/
def nontrivial (line : String) : Bool :=
  match words line with
  | "enc" :: _ :: _ :: _ :: _ :: n :: _ => n != "0"
  | "raw" :: hex :: _ => hex.length ≥ 42 && hex.startsWith "52545053"
  | _ => false

def driver : PropDriver := { gen, model, judge, nontrivial }
end Driver.C20
