import Driver.Common
import Driver.Views
import Parsley.Model.Rtps
import Parsley.Model.RtpsFast
import Parsley.Spec.Rtps
/-
  C20 line protocol.

  case lines
    raw <hex>                                   an arbitrary datagram
    enc <hex> <packet>                          a datagram produced by the spec encoder from <packet>
  <packet> ::= <version> <vendor> <prefix-hex> <n> { <id> <flags> <length> <payload-hex> }^n     (decimal / hex, "-" = empty)

  <hex> may be written in DESCRIPTOR form: segments joined by `+`, each `<hex>` or `<n>*<hex>` (n copies of <hex>), e.g.
    raw 52545053…+65537*15010100aa+0702000000     (a datagram of 65538 sub-messages in one short line)
  `bytesOfDesc` here and `expand` in harness/src/bin/c20.rs turn it into the same bytes; a word without `+`/`*` is plain
  hex.  The model of a datagram above 4 kB is evaluated by `Rtps.packetFast` (one walk over the unread input; the
  line-by-line model re-measures the whole buffer at every step, minutes for 65537 sub-messages), which is the model:
  `Parsley.C20.packetFast_eq : packetFast s = packetP s 0` (Props/C20Fast.lean).

  output lines (implementation and model)
    ok <cursor> <packet> | err | panic <text>

  view variant:  vw <steps> <prehex> <sufhex> <raw … | enc …>     the same case with the datagram as a window of the
    larger allocation <prehex> ++ <datagram> ++ <sufhex> (a capture buffer), selected by a chain of RestrictView /
    RestrictViewFrom steps (Driver/Views.lean); PacketP runs on that view.  The unchanged code reports <cursor> as a
    cursor of the view it was given (= the datagram's length when it accepts), a zero length field means "to the end
    of the VIEW", and nothing outside the window is read; so the expected output is that of the plain case.  Model and
    oracle see the window's bytes alone (justification: Parsley.C17.view_refines_copy).  Classes of rejected view
    cases are prefixed `view-`.
-/
namespace Driver.C20
open Parsley Parsley.Rtps Driver

def showSub (m : SubMsg) : String :=
  s!"{m.hdr.id.toNat} {m.hdr.flags.toNat} {m.hdr.length.toNat} {hexOfBytes m.payload}"

def showPacket (p : Packet) : String :=
  let head := s!"{p.hdr.version.toNat} {p.hdr.vendor.toNat} {hexOfBytes p.hdr.guidPrefix} {p.msgs.length}"
  p.msgs.foldl (fun acc m => acc ++ " " ++ showSub m) head

def readSubs : Nat → List String → Option (List SubMsg)
  | 0, [] => some []
  | 0, _ => none
  | n + 1, id :: fl :: len :: pl :: rest =>
    match id.toNat?, fl.toNat?, len.toNat?, bytesOfHex pl, readSubs n rest with
    | some id, some fl, some len, some pl, some ms =>
      if id < 256 ∧ fl < 256 ∧ len < 65536 then
        some (⟨⟨UInt8.ofNat id, UInt8.ofNat fl, UInt16.ofNat len⟩, pl⟩ :: ms)
      else none
    | _, _, _, _, _ => none
  | _ + 1, _ => none

def readPacket : List String → Option Packet
  | ver :: ven :: pre :: n :: rest =>
    match ver.toNat?, ven.toNat?, bytesOfHex pre, n.toNat? with
    | some ver, some ven, some pre, some n =>
      if ver < 65536 ∧ ven < 65536 then
        (readSubs n rest).map fun ms => ⟨⟨UInt16.ofNat ver, UInt16.ofNat ven, pre⟩, ms⟩
      else none
    | _, _, _, _ => none
  | _ => none

/-- one segment of a descriptor: `<hex>` or `<n>*<hex>` -/
def bytesOfSeg (seg : String) : Option Bytes :=
  match seg.splitOn "*" with
  | [h] => bytesOfHex h
  | [n, h] =>
    match n.toNat?, bytesOfHex h with
    | some n, some u => some (List.replicate n u).flatten
    | _, _ => none
  | _ => none

/-- the datagram word of a case: plain hex, or segments joined by `+` -/
def bytesOfDesc (w : String) : Option Bytes :=
  if !(w.contains '+' || w.contains '*') then bytesOfHex w else
  (w.splitOn "+").foldr (fun seg acc =>
    match bytesOfSeg seg, acc with
    | some b, some a => some (b ++ a)
    | _, _ => none) (some [])

def datagramOf (line : String) : Option Bytes :=
  match words line with
  | "raw" :: hex :: _ => bytesOfDesc hex
  | "enc" :: hex :: _ => bytesOfDesc hex
  | _ => none

/-- the model: `PacketP::parse` on a fresh buffer -/
def modelPlain (line : String) : String :=
  match datagramOf line with
  | none => "bad-case"
  | some bs =>
    -- above 4 kB: the linear-time evaluation, proved equal (`Parsley.C20.packetFast_eq`)
    match (if bs.length ≤ 4096 then packetP bs 0 else packetFast bs) with
    | (.ok p, c) => s!"ok {c} {showPacket p.val}"
    | (.err _, _) => "err"
    | (.panic st, _) => s!"panic {st}"

/-- the window of a case: its second word -/
def winOf : List String → Option Bytes
  | _ :: hex :: _ => bytesOfDesc hex
  | _ => none

def model (line : String) : String := Views.model winOf modelPlain line

/-- The oracle.  Computed from `RtpsSpec` only (encoder, WF, reference decoder). -/
def judgePlain (case impl : String) : String :=
  match words case with
  | kind :: hex :: pk =>
    match bytesOfDesc hex with
    | none => "bad badcase hex"
    | some bs =>
      -- an `enc` case must be what it claims: the spec encoding of a well-formed packet
      let claimed : Option (Option Packet) :=
        if kind == "enc" then
          match readPacket pk with
          | some p => if RtpsSpec.encode p == bs ∧ RtpsSpec.WF p then some (some p) else none
          | none => none
        else if kind == "raw" then some none else none
      match claimed with
      | none => "bad badcase not-an-encoding"
      | some want =>
        match words impl with
        | ["err"] =>
          match want with
          | some _ => "bad roundtrip rejected-the-encoding-of-a-well-formed-packet"
          | none =>
            match RtpsSpec.refDecode bs with
            | some _ => "bad reject datagram-is-the-encoding-of-a-well-formed-packet"
            | none => "ok"
        | "ok" :: c :: got =>
          match readPacket got with
          | none => "bad unreadable implementation-output"
          | some p =>
            if RtpsSpec.encode p != bs then
              -- a verdict of its own for "stopped early": the returned packet encodes a strict prefix of the datagram
              if (RtpsSpec.encode p).isPrefixOf bs then
                s!"bad unread returned-packet-encodes-only-the-first-{(RtpsSpec.encode p).length}-of-{bs.length}-bytes"
              else "bad reencode re-encoding-differs-from-datagram"
            else if ¬ RtpsSpec.WF p then "bad illformed returned-packet-is-not-the-reading-of-its-encoding"
            else if c.toNat? != some bs.length then "bad cursor datagram-not-consumed"
            else match want with
              | some q => if p == q then "ok" else "bad roundtrip decoded-packet-differs"
              | none => "ok"
        | _ => "bad panic " ++ (impl.take 60).toString
  | _ => "bad badcase"

def judge (case impl : String) : String := Views.judge winOf judgePlain case impl

/-! ### generators -/

def randBytes (n : Nat) (r : Rng) : Bytes × Rng := Id.run do
  let mut acc : Bytes := []
  let mut r := r
  for _ in List.range n do
    let (b, r') := r.byte
    acc := b :: acc
    r := r'
  return (acc, r)

def knownIds : List Nat := [0x01, 0x06, 0x07, 0x08, 0x09, 0x0c, 0x0d, 0x0e, 0x0f, 0x12, 0x13, 0x15, 0x16]

def genLen (r : Rng) : Nat × Rng :=
  let (c, r) := r.nat 1000
  if c < 350 then r.nat 9
  else if c < 700 then let (k, r) := r.nat 56; (9 + k, r)
  else if c < 850 then r.pick [255, 256, 257, 258, 511, 512, 513, 1023, 1024]
  else if c < 985 then let (k, r) := r.nat 1436; (65 + k, r)
  else if c < 997 then let (k, r) := r.nat 4000; (4000 + k, r)
  else r.pick [65535, 65534, 65483, 32768, 65280, 255 * 256 + 1]

/-- a sub-message; `zero` = write length field 0 (only well-formed in last position) -/
def genSub (r : Rng) (zero : Bool) : SubMsg × Rng :=
  let (k, r) := r.nat 10
  let (id, r) := if k < 7 then r.pick knownIds else r.nat 256
  let (fl, r) := r.nat 256
  let (n, r) := genLen r
  let n := if zero then n else if n == 0 then 1 else n
  let (pl, r) := randBytes n r
  (⟨⟨UInt8.ofNat id, UInt8.ofNat fl, if zero then 0 else UInt16.ofNat n⟩, pl⟩, r)

def genPacket (r : Rng) (maxSubs : Nat) : Packet × Rng := Id.run do
  let (ver, r) := r.nat 65536
  let (ven, r) := r.nat 65536
  let (pre, r) := randBytes 12 r
  let (k, r) := r.nat (maxSubs + 1)
  let mut r := r
  let mut ms : List SubMsg := []
  for j in List.range k do
    let (z, r1) := r.nat 3
    let (m, r2) := genSub r1 (j + 1 == k && z == 0)
    ms := ms ++ [m]
    r := r2
  return (⟨⟨UInt16.ofNat ver, UInt16.ofNat ven, pre⟩, ms⟩, r)

def encLine (p : Packet) : String :=
  s!"enc {hexOfBytes (RtpsSpec.encode p)} {showPacket p}"

/-- one random edit of a datagram -/
def mutate (bs : Bytes) (r : Rng) : Bytes × Rng :=
  let (k, r) := r.nat 8
  let n := bs.length
  match k with
  | 0 => let (i, r) := r.nat (n + 1); (bs.take i, r)                                  -- truncate
  | 1 => let (i, r) := r.nat (min n 28 + 1); (bs.take i, r)                           -- truncate in header / first sub-header
  | 2 => let (i, r) := r.nat n; let (b, r) := r.byte; (bs.set i b, r)                 -- overwrite a byte
  | 3 => let (i, r) := r.nat (min n 28); let (b, r) := r.byte; (bs.set i b, r)        -- overwrite a header byte
  | 4 => let (m, r) := r.nat 6; let (x, r) := randBytes (m + 1) r; (bs ++ x, r)       -- trailing bytes
  | 5 => let (i, r) := r.nat n; (bs.eraseIdx i, r)                                     -- delete a byte
  | 6 => let (i, r) := r.nat (n + 1); let (b, r) := r.byte; (bs.take i ++ b :: bs.drop i, r) -- insert a byte
  | _ => -- flip bit 0 of the flags / zero a length byte of the first sub-message
    let (w, r) := r.nat 3
    if n < 24 then (bs, r)
    else if w == 0 then (bs.set 21 ((bs.getD 21 0) ^^^ 1), r)
    else (bs.set (21 + w) 0, r)

/-- deterministic small packets for the exhaustive streams -/
def mkSub (id fl : Nat) (len : Nat) (pl : Bytes) : SubMsg := ⟨⟨UInt8.ofNat id, UInt8.ofNat fl, UInt16.ofNat len⟩, pl⟩
def seqBytes (n : Nat) : Bytes := (List.range n).map fun j => UInt8.ofNat (j * 7 + 1)
def hdr0 : Header := ⟨0x0302, 0x0f01, seqBytes 12⟩

/-! ### the fixed-value field family

  The only bytes of the format whose value the decoder checks are the four magic bytes `52 54 50 53`
  (every other byte - version, vendor, prefix, id, all eight flag bits, length, payload - is recorded in the
  packet value and written back by the encoder; there is no reserved/constant byte elsewhere).  A decoder that
  tolerates any other value there cannot re-encode to its input, because the packet value has no place for it. -/

def magic : Bytes := [0x52, 0x54, 0x50, 0x53]

/-- the well-formed remainders put behind a wrong magic: none, one sub-message (exact fit), three sub-messages
    with a zero-length tail, a zero-length sub-message with empty payload -/
def fixedTails : List (List SubMsg) :=
  [ [],
    [mkSub 0x15 1 3 (seqBytes 3)],
    [mkSub 0x09 1 8 (seqBytes 8), mkSub 0x15 0 5 (seqBytes 5), mkSub 0x07 3 0 (seqBytes 6)],
    [mkSub 0x07 2 0 []] ]

/-- the datagram `encode ⟨h, ms⟩` with its first four bytes replaced by `mg` -/
def withMagic (mg : Bytes) (h : Header) (ms : List SubMsg) : Bytes :=
  mg ++ (RtpsSpec.encode ⟨h, ms⟩).drop 4

/-- near-miss alternatives of one magic byte: itself, the other letter case, the neighbouring code points
    (distance 1, 2 and 5 - `X` is `S`+5 -, both directions), the other three magic letters and `X` -/
def nearBytes (b : UInt8) : List UInt8 :=
  ([b, b ^^^ 0x20, b + 1, b - 1, b + 2, b - 2, b + 5, b - 5, (b ^^^ 0x20) + 1, (b ^^^ 0x20) - 1,
    0x52, 0x54, 0x50, 0x53, 0x58, 0x4d, 0x43]).eraseDups

/-- well-known sibling / historical magics and transformations of the whole word -/
def siblingMagics : List Bytes :=
  [ [0x52, 0x54, 0x50, 0x58],   -- RTPX (RTI Connext)
    [0x52, 0x54, 0x4d, 0x50],   -- RTMP
    [0x52, 0x54, 0x53, 0x50],   -- RTSP
    [0x52, 0x54, 0x43, 0x50],   -- RTCP
    [0x52, 0x54, 0x50, 0x00], [0x52, 0x54, 0x50, 0x20], [0x52, 0x54, 0x50, 0x32],
    [0x53, 0x50, 0x54, 0x52],   -- byte-reversed
    [0x54, 0x52, 0x53, 0x50],   -- 16-bit swapped
    [0x50, 0x53, 0x52, 0x54],   -- halves swapped
    [0x54, 0x50, 0x53, 0x52], [0x53, 0x52, 0x54, 0x50],   -- rotations
    [0x00, 0x52, 0x54, 0x50], [0x54, 0x50, 0x53, 0x02],   -- shifted by one byte either way
    [0xd2, 0xd4, 0xd0, 0xd3], [0xad, 0xab, 0xaf, 0xac],   -- high bit set, complemented
    [0x44, 0x44, 0x53, 0x49], [0x00, 0x00, 0x00, 0x00], [0xff, 0xff, 0xff, 0xff] ]

def permutations4 (l : Bytes) : List Bytes :=
  match l with
  | [a, b, c, d] =>
    [[a,b,c,d],[a,b,d,c],[a,c,b,d],[a,c,d,b],[a,d,b,c],[a,d,c,b],
     [b,a,c,d],[b,a,d,c],[b,c,a,d],[b,c,d,a],[b,d,a,c],[b,d,c,a],
     [c,a,b,d],[c,a,d,b],[c,b,a,d],[c,b,d,a],[c,d,a,b],[c,d,b,a],
     [d,a,b,c],[d,a,c,b],[d,b,a,c],[d,b,c,a],[d,c,a,b],[d,c,b,a]]
  | _ => []

def asciiLetters : List UInt8 :=
  ((List.range 26).map fun j => UInt8.ofNat (0x41 + j)) ++ ((List.range 26).map fun j => UInt8.ofNat (0x61 + j))
def asciiAlnum : List UInt8 := asciiLetters ++ ((List.range 10).map fun j => UInt8.ofNat (0x30 + j))

def genFixedField (seed n : Nat) (tier : String) (emit : String → IO Unit) : IO Unit := do
  -- every other value 0..255 at each of the four magic bytes x every remainder: 4 x 255 x 4 datagrams
  for i in List.range 4 do
    for v in List.range 256 do
      let b := UInt8.ofNat v
      if magic.getD i 0 != b then
        for ms in fixedTails do
          emit s!"raw {hexOfBytes (withMagic (magic.set i b) hdr0 ms)}"
  -- near-miss words: the full product of the per-byte near-miss sets (case changes, neighbouring letters, letters of
  -- the word itself, X/M/C), i.e. every mixed-case spelling, every word at small letter distance, every word
  -- over {R,T,P,S,X,M,C}; header-only and one-sub-message remainders
  let mut words4 : List Bytes := []
  for a in nearBytes 0x52 do
    for b in nearBytes 0x54 do
      for c in nearBytes 0x50 do
        for d in nearBytes 0x53 do
          words4 := [a, b, c, d] :: words4
  -- quick: at most two bytes differ from the magic; thorough: the whole product
  let differs (w : Bytes) : Nat := ((w.zip magic).filter fun (x, y) => x != y).length
  for w in words4.reverse do
    let k := differs w
    if k != 0 ∧ (tier == "thorough" ∨ k ≤ 2) then
      emit s!"raw {hexOfBytes (withMagic w hdr0 [])}"
      emit s!"raw {hexOfBytes (withMagic w hdr0 [mkSub 0x15 1 3 (seqBytes 3)])}"
  for w in siblingMagics ++ (permutations4 magic).drop 1 do
    for ms in fixedTails do
      emit s!"raw {hexOfBytes (withMagic w hdr0 ms)}"
  -- two magic bytes replaced at once: every pair of positions x every pair of ASCII letters (quick: the six pairs
  -- over upper-case letters; thorough: letters and digits), one-sub-message remainder
  let alpha := if tier == "thorough" then asciiAlnum else asciiLetters.take 26
  for i in List.range 4 do
    for j in List.range 4 do
      if i < j then
        for x in alpha do
          for y in alpha do
            if magic.getD i 0 != x ∧ magic.getD j 0 != y then
              emit s!"raw {hexOfBytes (withMagic ((magic.set i x).set j y) hdr0 [mkSub 0x15 1 3 (seqBytes 3)])}"
  -- the magic itself in the wrong place: preceded by 1..4 bytes, doubled, one byte missing
  for ms in fixedTails do
    let good := RtpsSpec.encode ⟨hdr0, ms⟩
    for k in [1, 2, 3, 4] do
      emit s!"raw {hexOfBytes (List.replicate k 0x00 ++ good)}"
      emit s!"raw {hexOfBytes (magic.take k ++ good)}"
    for k in List.range 4 do
      emit s!"raw {hexOfBytes (good.eraseIdx k)}"
  -- random well-formed packets (own random stream, so the streams below are unchanged) with one magic byte replaced
  -- by a random other value, and with all four replaced by a near-miss word
  let mut r := Rng.mk' (seed + 0xC20F1)
  for _ in List.range (n / 4) do
    let (p, r1) := genPacket r 4
    let (i, r2) := r1.nat 4
    let (d, r3) := r2.nat 255
    let b := magic.getD i 0 + UInt8.ofNat (d + 1)
    emit s!"raw {hexOfBytes (withMagic (magic.set i b) p.hdr p.msgs)}"
    let (a0, r4) := r3.pick (nearBytes 0x52)
    let (a1, r5) := r4.pick (nearBytes 0x54)
    let (a2, r6) := r5.pick (nearBytes 0x50)
    let (a3, r7) := r6.pick (nearBytes 0x53)
    r := r7
    if [a0, a1, a2, a3] != magic then
      emit s!"raw {hexOfBytes (withMagic [a0, a1, a2, a3] p.hdr p.msgs)}"

/-! ### content-dependent boundaries and concatenations

  Nothing in the format makes a sub-message boundary depend on the *content* found there: whatever four bytes stand
  at a boundary are an id, a flags byte and a length in the byte order the flags byte says.  A reader that treats some
  byte pattern specially there (e.g. stops at the magic "because the next message starts") returns a packet whose
  encoding is a strict prefix of the datagram.  The family puts format-significant 4-byte patterns at every kind of
  boundary, in the reading the pattern itself denotes, and concatenates whole datagrams. -/

/-- the length a 4-byte sub-message header pattern denotes (byte order from bit 0 of its own flags byte) -/
def denotedLen (pat : Bytes) : Nat :=
  match pat with
  | [_, fl, a, b] => if fl.toNat % 2 == 1 then a.toNat + 256 * b.toNat else 256 * a.toNat + b.toNat
  | _ => 0

/-- the sub-message whose header bytes are `pat`, with payload `pl` -/
def patSub (pat : Bytes) (pl : Bytes) : SubMsg :=
  ⟨⟨pat.getD 0 0, pat.getD 1 0, UInt16.ofNat (denotedLen pat)⟩, pl⟩

/-- `enc` line when the packet is well-formed (the implementation must return exactly it), `raw` otherwise.
    Datagrams above 4 kB always go as `raw` (half the line length): the oracle is as strong there, since it rejects
    an `err` on anything the reference decoder reads and an `ok p` unless `encode p` is the datagram and `WF p`
    (and `encode` is injective on well-formed packets). -/
def encOrRaw (p : Packet) : String :=
  let d := RtpsSpec.encode p
  if d.length ≤ 4096 ∧ RtpsSpec.WF p then s!"enc {hexOfBytes d} {showPacket p}" else s!"raw {hexOfBytes d}"

/-- the sub-messages (explicit non-zero lengths, both byte orders) that precede the boundary under test -/
def preSubs : List SubMsg := [mkSub 0x09 1 8 (seqBytes 8), mkSub 0x15 0 5 (seqBytes 5), mkSub 0x07 3 2 [0xaa, 0xbb]]

/-- key patterns: the magic, its closest near misses, the magic with the byte-order bit set, header fields, constants -/
def dictKey : List Bytes :=
  ([ magic,
     [0x52, 0x54, 0x50, 0x58], [0x52, 0x55, 0x50, 0x53], [0x52, 0x54, 0x53, 0x50], [0x72, 0x74, 0x70, 0x73],
     [0x51, 0x54, 0x50, 0x53], [0x53, 0x54, 0x50, 0x53], [0x52, 0x54, 0x50, 0x52], [0x52, 0x54, 0x50, 0x54],
     [0x52, 0x54, 0x4f, 0x53], [0x52, 0x54, 0x51, 0x53], [0x53, 0x50, 0x54, 0x52],
     [0x52, 0x54, 0x00, 0x00], [0x52, 0x54, 0x00, 0x01], [0x52, 0x54, 0x00, 0x04], [0x52, 0x55, 0x04, 0x00],
     [0x52, 0x54, 0x00, 0x10], [0x52, 0x54, 0x00, 0x14],
     (RtpsSpec.encodeHdr hdr0).drop 4 |>.take 4,     -- version + vendor
     (RtpsSpec.encodeHdr hdr0).drop 8 |>.take 4,     -- first prefix bytes
     (RtpsSpec.encodeHdr hdr0).drop 16 |>.take 4,    -- last prefix bytes
     [0x00, 0x00, 0x00, 0x00], [0xff, 0xff, 0xff, 0xff], [0x00, 0x00, 0x00, 0x01], [0x00, 0x01, 0x00, 0x00],
     [0xff, 0xff, 0x00, 0x00], [0x00, 0x00, 0xff, 0xff], [0x01, 0x01, 0x01, 0x01] ] : List Bytes).eraseDups

/-- the full dictionary: key patterns, every single-byte near miss of the magic, the sibling words and permutations -/
def dictFull : List Bytes :=
  let near1 : List Bytes := (List.range 4).flatMap fun i =>
    (nearBytes (magic.getD i 0)).map fun b => magic.set i b
  (dictKey ++ near1 ++ siblingMagics ++ permutations4 magic).eraseDups

/-- all variants for pattern `pat` at the boundary behind `pre` (sub-messages with explicit lengths) -/
def emitBoundary (emit : String → IO Unit) (h : Header) (pre : List SubMsg) (pat : Bytes) (level : Nat) : IO Unit := do
  let len := denotedLen pat
  let base := RtpsSpec.encode ⟨h, pre⟩
  if len == 0 then
    -- a zero length field: the rest of the datagram is payload (empty, some bytes, bytes that look like sub-messages)
    emit (encOrRaw ⟨h, pre ++ [patSub pat []]⟩)
    emit (encOrRaw ⟨h, pre ++ [patSub pat (seqBytes 5)]⟩)
    emit (encOrRaw ⟨h, pre ++ [patSub pat (magic ++ pat ++ magic)]⟩)
  else
    let pl := seqBytes len
    -- exact fit, last
    emit (encOrRaw ⟨h, pre ++ [patSub pat pl]⟩)
    -- followed by further sub-messages: explicit, then zero-length tail; and by the same pattern again
    if level ≥ 1 then
      emit (encOrRaw ⟨h, pre ++ [patSub pat pl, mkSub 0x09 1 8 (seqBytes 8), mkSub 0x07 2 0 (seqBytes 6)]⟩)
    if level ≥ 2 then
      emit (encOrRaw ⟨h, pre ++ [patSub pat pl, patSub pat pl]⟩)
      -- the payload itself starts with the pattern / the magic
      emit (encOrRaw ⟨h, pre ++ [patSub pat ((magic ++ pat ++ pl).take len)]⟩)
    -- one byte short, one byte long (the oracle decides; the unchanged reader rejects both)
    emit s!"raw {hexOfBytes (base ++ pat ++ pl.dropLast)}"
    if level ≥ 1 then
      emit s!"raw {hexOfBytes (base ++ pat ++ pl ++ [0x77])}"
  -- the pattern alone at the end of the datagram, and followed by one more copy of itself only
  emit s!"raw {hexOfBytes (base ++ pat)}"
  emit s!"raw {hexOfBytes (base ++ pat ++ pat)}"
  emit s!"raw {hexOfBytes (base ++ pat.take 3)}"

def genBoundary (seed n : Nat) (tier : String) (emit : String → IO Unit) : IO Unit := do
  let thorough := tier == "thorough"
  -- (1) dictionary patterns at every kind of boundary: behind the header and behind 1, 2, 3 explicit-length sub-messages
  for k in List.range 4 do
    let pre := preSubs.take k
    -- thorough: the full dictionary, all variants, at every boundary.  quick: the key patterns at every boundary (all
    -- variants directly behind the header), the rest of the dictionary behind the header (exact fit / one short only)
    let dict := if thorough ∨ k == 0 then dictFull else dictKey
    -- the header bytes of the preceding sub-message are a pattern too
    let prev : List Bytes := match pre.getLast? with
      | some m => [(RtpsSpec.encodeSub m).take 4]
      | none => []
    for pat in dict ++ prev do
      let level := if thorough then 2 else if ¬ dictKey.contains pat ∧ ¬ prev.contains pat then 0 else if k == 0 then 2 else 1
      emitBoundary emit hdr0 pre pat level
  -- the magic at a boundary behind a zero-length sub-message is payload
  emit (encOrRaw ⟨hdr0, [mkSub 0x09 1 0 (magic ++ seqBytes 20)]⟩)
  emit (encOrRaw ⟨hdr0, [mkSub 0x09 1 8 (seqBytes 8), mkSub 0x15 0 0 (RtpsSpec.encode ⟨hdr0, preSubs⟩)]⟩)
  -- (2) concatenations of two and three well-formed datagrams (the later ones are sub-messages of the first, as far as
  -- the format goes: id 0x52, flags 0x54, big-endian length 0x5053 = 20563)
  let fit := 0x5053 - 16 - 4       -- payload size that makes a one-sub-message datagram exactly 4 + 20563 bytes
  let parts : List Packet := [
    ⟨hdr0, []⟩,
    ⟨hdr0, [mkSub 0x15 1 3 (seqBytes 3)]⟩,
    ⟨hdr0, preSubs⟩,
    ⟨hdr0, [mkSub 0x09 1 8 (seqBytes 8), mkSub 0x07 2 0 (seqBytes 6)]⟩,
    ⟨hdr0, [mkSub 0x15 1 fit (seqBytes fit)]⟩,          -- as a second datagram it is read as ONE well-formed sub-message
    ⟨hdr0, [mkSub 0x15 0 (fit - 12) (seqBytes (fit - 12)), mkSub 0x09 1 8 (seqBytes 8)]⟩ ]   -- the same, two sub-messages inside
  for a in parts do
    for b in parts do
      let ab := RtpsSpec.encode a ++ RtpsSpec.encode b
      emit s!"raw {hexOfBytes ab}"
      emit s!"raw {hexOfBytes (ab ++ RtpsSpec.encode ⟨hdr0, []⟩)}"
      if thorough then
        for c in parts do
          emit s!"raw {hexOfBytes (ab ++ RtpsSpec.encode c)}"
  -- a datagram followed by a second one that is padded to the size the magic denotes (accepted by the format)
  for a in parts.take 3 do
    for extra in [0, 1, 2] do
      let tailLen := 0x5053 - 16 + extra - 1
      emit s!"raw {hexOfBytes (RtpsSpec.encode a ++ RtpsSpec.encodeHdr hdr0 ++ seqBytes tailLen)}"
  -- (3) random streams (own random stream)
  let mut r := Rng.mk' (seed + 0xC20B0)
  for t in List.range (n / 4) do
    -- a random well-formed packet in which the header of one sub-message is overwritten by a dictionary pattern
    let (p, r1) := genPacket r 4
    let (pat, r2) := r1.pick dictFull
    let (j, r3) := r2.nat (max p.msgs.length 1)
    r := r3
    let d := RtpsSpec.encode p
    let off := 20 + ((p.msgs.take j).map fun m => 4 + m.payload.length).sum
    if off + 4 ≤ d.length then
      emit s!"raw {hexOfBytes (d.take off ++ pat ++ d.drop (off + 4))}"
    -- the same with the payload resized to what the pattern denotes (every 4th: these are ~20 kB each)
    if t % 4 == 0 then
      let len := denotedLen pat
      let ms := p.msgs.mapIdx fun idx m =>
        if idx == j then patSub pat (if len == 0 then m.payload else seqBytes len) else m
      emit (encOrRaw ⟨p.hdr, ms⟩)
    -- two or three random well-formed packets concatenated
    let (q1, r4) := genPacket r 2
    let (q2, r5) := genPacket r4 2
    let (q3, r6) := genPacket r5 1
    let (three, r7) := r6.nat 3
    r := r7
    emit s!"raw {hexOfBytes (RtpsSpec.encode q1 ++ RtpsSpec.encode q2 ++ (if three == 0 then RtpsSpec.encode q3 else []))}"

/-! ### the count / size family

  The format bounds neither the number of sub-messages of a datagram nor its size (only the length field of a
  sub-message that is not the last one has 16 bits): a datagram is read to its end.  A reader with a cap on the
  number of sub-messages, a counter or size that wraps at 2^8 / 2^16, a length compared in the wrong width, returns
  a packet whose encoding is a strict prefix of the datagram (`bad unread`), or rejects / panics on the encoding of a
  well-formed packet.  Datagrams are built from RUNS (a cycle of sub-messages repeated) and written in the
  descriptor form above 4 kB, so that 65537 sub-messages are one short case line. -/

/-- `unit` repeated `count` times -/
structure Seg where
  count : Nat
  unit : Bytes

def segsLen (l : List Seg) : Nat := (l.map fun s => s.count * s.unit.length).sum
def segsBytes (l : List Seg) : Bytes := l.foldr (fun s acc => (List.replicate s.count s.unit).flatten ++ acc) []
def segsDesc (l : List Seg) : String :=
  let parts := l.filterMap fun s =>
    if s.count == 0 || s.unit.isEmpty then none
    else if s.count == 1 then some (hexOfBytes s.unit) else some s!"{s.count}*{hexOfBytes s.unit}"
  if parts.isEmpty then "-" else "+".intercalate parts

/-- a run of sub-messages: `cycle` repeated `count` times -/
structure Run where
  count : Nat
  cycle : List SubMsg

def runsMsgs (rs : List Run) : List SubMsg := rs.flatMap fun r => (List.replicate r.count r.cycle).flatten
def runsSegs (h : Header) (rs : List Run) : List Seg :=
  ⟨1, RtpsSpec.encodeHdr h⟩ :: rs.map fun r => ⟨r.count, r.cycle.flatMap RtpsSpec.encodeSub⟩

/-- `raw` line of a byte string given in segments: plain hex up to 4 kB, the descriptor above -/
def rawSegs (l : List Seg) : String :=
  if segsLen l ≤ 4096 then s!"raw {hexOfBytes (segsBytes l)}" else s!"raw {segsDesc l}"

/-- line of a packet given in runs: up to 4 kB `enc` with the packet written out (the implementation must return
    exactly it), above that `raw` with the descriptor (see `encOrRaw` on the strength of the `raw` oracle) -/
def runsLine (h : Header) (rs : List Run) : String :=
  let segs := runsSegs h rs
  if segsLen segs ≤ 4096 then encOrRaw ⟨h, runsMsgs rs⟩ else s!"raw {segsDesc segs}"

/-- the same packet as an `enc` case whose datagram is written as descriptor (small packets: cross-checks the two
    expansions of the descriptor against the spec encoding of the packet written out) -/
def encDescLine (h : Header) (rs : List Run) : String :=
  s!"enc {segsDesc (runsSegs h rs)} {showPacket ⟨h, runsMsgs rs⟩}"

/-- minimal sub-messages (a non-final sub-message needs a non-zero length: 5 bytes), little- and big-endian -/
def cyMinLE : List SubMsg := [mkSub 0x15 1 1 [0xaa]]
def cyMinBE : List SubMsg := [mkSub 0x09 0 1 [0xbb]]
/-- 4-byte bodies, the two byte orders alternating -/
def cyFour : List SubMsg := [mkSub 0x15 1 4 (seqBytes 4), mkSub 0x09 2 4 [0xde, 0xad, 0xbe, 0xef]]
/-- seven kinds (period coprime to every power of two): known / unknown / vendor-specific ids, both byte orders,
    other flag bits set, body sizes 1-4, the magic and ff ff as bodies -/
def cyMixed : List SubMsg :=
  [ mkSub 0x15 1 1 [0xa1], mkSub 0x09 0 4 (seqBytes 4), mkSub 0x07 3 2 [0xb1, 0xb2], mkSub 0x0e 2 3 [0xc1, 0xc2, 0xc3],
    mkSub 0x06 0x81 4 [0x52, 0x54, 0x50, 0x53], mkSub 0x01 0 1 [0x00], mkSub 0x80 0xff 2 [0xff, 0xff] ]

def countCycles : List (List SubMsg) := [cyMinLE, cyMinBE, cyFour, cyMixed]

/-- `n` sub-messages: the cycle `cy` repeated and cut to length; `last` = 0: the n-th is the next of the cycle (explicit
    length), 1: a zero-length sub-message with empty payload, 2: a zero-length sub-message with a 6-byte payload -/
def countRuns (cy : List SubMsg) (n last : Nat) : List Run :=
  if n == 0 then [] else
  let k := max cy.length 1
  let body := if last == 0 then n else n - 1
  let tail : List SubMsg := match last with
    | 0 => []
    | 1 => [mkSub 0x07 2 0 []]
    | _ => [mkSub 0x15 1 0 (seqBytes 6)]
  [⟨body / k, cy⟩, ⟨1, cy.take (body % k)⟩, ⟨1, tail⟩]

/-- the datagram of `n` explicit-length sub-messages with its last byte missing -/
def countShort (cy : List SubMsg) (n : Nat) : List Seg :=
  let k := max cy.length 1
  let lastSub := cy.drop ((n - 1) % k) |>.take 1
  runsSegs hdr0 (countRuns cy (n - 1) 0) ++ [⟨1, (lastSub.flatMap RtpsSpec.encodeSub).dropLast⟩]

/-- `m` explicit sub-messages, a zero length field, and `m'` more well-formed-looking sub-messages behind it: by the
    format these are the PAYLOAD of sub-message m+1 (the packet has m+1 sub-messages, not m+1+m') -/
def countZeroMid (cy : List SubMsg) (m m' : Nat) : List Seg :=
  runsSegs hdr0 (countRuns cy m 0) ++ [⟨1, [0x07, 0x03, 0x00, 0x00]⟩] ++ (runsSegs hdr0 (countRuns cy m' 0)).drop 1

def pat256 : Bytes := (List.range 256).map fun j => UInt8.ofNat (j * 7 + 1)

/-- a sub-message header with length field `len` followed by `L` patterned payload bytes, in segments -/
def subSegs (id fl len L : Nat) : List Seg :=
  [⟨1, (RtpsSpec.encodeSub (mkSub id fl len [])).take 4⟩, ⟨L / 256, pat256⟩, ⟨1, pat256.take (L % 256)⟩]

def hdrSeg : Seg := ⟨1, RtpsSpec.encodeHdr hdr0⟩
def smallSeg : Seg := ⟨1, RtpsSpec.encodeSub (mkSub 0x09 1 8 (seqBytes 8))⟩

def countsSmall : List Nat := List.range 41
def countsEdge : List Nat := [63, 64, 65, 66, 127, 128, 129, 255, 256, 257, 1000, 1024, 1025]
def countsEdgeThorough : List Nat :=
  ((List.range 11).flatMap fun k => [2 ^ (k + 5) - 1, 2 ^ (k + 5), 2 ^ (k + 5) + 1]) ++
  [41, 50, 62, 67, 100, 200, 254, 258, 300, 500, 999, 1001, 1023, 1026, 1500, 4095, 4096, 4097, 10000, 20000, 50000]
def countsHuge : List Nat := [65535, 65536, 65537]
def countsHugeThorough : List Nat := [65534, 65535, 65536, 65537, 65538, 100000, 131071, 131072, 131073]

def genCount (seed n : Nat) (tier : String) (emit : String → IO Unit) : IO Unit := do
  let thorough := tier == "thorough"
  -- (1) COUNT sweep: every count 0..40 and the edge counts x 4 cycles x 3 kinds of last sub-message
  let edge := if thorough then (countsEdge ++ countsEdgeThorough).eraseDups else countsEdge ++ [4096]
  for c in countsSmall ++ edge do
    if c == 0 then emit (runsLine hdr0 [])
    else
      for cy in countCycles do
        for last in [0, 1, 2] do
          -- (quick, from 63 up: every cycle with an explicit last one, the minimal little-endian cycle with every last
          -- kind, the mixed cycle with an empty zero-length one)
          if thorough ∨ c ≤ 40 ∨ last == 0 ∨ cy.length == 1 && cy != cyMinBE ∨ cy.length == 7 && last == 1 then
            emit (runsLine hdr0 (countRuns cy c last))
  -- the same datagrams damaged: last byte missing, a stray byte behind the last sub-message (behind a zero-length one
  -- it is payload), a zero length field in the middle of the run (the rest is its payload)
  for c in [1, 2, 3, 8, 33] ++ edge do
    for cy in (if thorough then countCycles else if c ≥ 1000 then [cyMinLE] else [cyMinLE, cyMixed]) do
      -- (the two that must be REJECTED only up to 4097 sub-messages: the oracle's reference decoder, which decides
      -- whether a rejection is right, measures the rest of the datagram at every sub-message)
      if c ≤ 4097 then
        emit (rawSegs (countShort cy c))
        emit (rawSegs (runsSegs hdr0 (countRuns cy c 0) ++ [⟨1, [0x77]⟩]))
      emit (rawSegs (runsSegs hdr0 (countRuns cy c 1) ++ [⟨1, [0x77]⟩]))
      emit (rawSegs (countZeroMid cy (c / 2) (c - c / 2)))
      emit (rawSegs (countZeroMid cy (c - 1) 1))
  -- descriptor-form twins of small packets with the expected packet written out
  for c in [0, 1, 2, 3, 7, 64, 65] do
    for cy in [cyMinLE, cyMixed] do
      emit (encDescLine hdr0 (countRuns cy c (c % 3)))
  -- the huge counts (beyond a 16-bit counter; 65537 x 5 bytes = 320 kB)
  for c in (if thorough then countsHugeThorough else countsHuge) do
    emit (runsLine hdr0 (countRuns cyMinLE c 0))
    if thorough ∨ c == 65536 then emit (runsLine hdr0 (countRuns cyMinLE c 1))
    if thorough ∨ c == 65537 then emit (runsLine hdr0 (countRuns cyMixed c 0))
    if thorough then emit (runsLine hdr0 (countRuns cyFour c 2))
    if thorough then
      emit (runsLine hdr0 (countRuns cyMinBE c 2))
      emit (runsLine hdr0 (countRuns cyMixed c 1))
  -- (2) COUNT x SIZE: many sub-messages with large bodies
  let big1000 : List SubMsg := [mkSub 0x15 1 1000 (pat256 ++ pat256 ++ pat256 ++ pat256.take 232)]
  let big255 : List SubMsg := [mkSub 0x09 0 255 (pat256.take 255), mkSub 0x15 1 256 pat256, mkSub 0x07 3 257 (pat256 ++ [0x01])]
  for c in (if thorough then [63, 64, 65, 66, 127, 128, 129, 255, 256, 257, 1024, 1025] else [64, 65, 66]) do
    emit (runsLine hdr0 (countRuns big1000 c 0))
    if thorough ∨ c == 65 then emit (runsLine hdr0 (countRuns big1000 c 2))
  for c in (if thorough then [63, 64, 65, 66, 255, 256, 257, 258, 1023, 1024, 1025] else [65, 256, 257]) do
    emit (runsLine hdr0 (countRuns big255 c 0))
    if thorough ∨ c == 65 then emit (runsLine hdr0 (countRuns big255 c 1))
  -- (3) LONG bodies: length fields at the top of the 16-bit range, both byte orders, alone / followed / preceded /
  -- one byte short / one byte long / twice in a row
  let lens := if thorough then [0xfff0, 0xfff7, 0xfff8, 0xfff9, 0xfffa, 0xfffb, 0xfffc, 0xfffd, 0xfffe, 0xffff,
                                 0x7fff, 0x8000, 0x8001, 0xff00, 0xfeff, 0xff01, 0xfffc - 4]
              else [0xfffc, 0xfffd, 0xfffe, 0xffff]
  for len in lens do
    for fl in [1, 0] do
      emit (rawSegs (hdrSeg :: subSegs 0x15 fl len len))
      if thorough ∨ len == 0xffff then
        emit (rawSegs (hdrSeg :: subSegs 0x15 fl len len ++ [smallSeg]))
        emit (rawSegs (hdrSeg :: subSegs 0x15 fl len len ++ subSegs 0x16 (1 - fl) len len))
        if thorough ∨ fl == 1 then
          emit (rawSegs (hdrSeg :: smallSeg :: subSegs 0x15 fl len len))
          emit (rawSegs (hdrSeg :: subSegs 0x15 fl len (len - 1)))
          emit (rawSegs (hdrSeg :: subSegs 0x15 fl len (len + 1)))
          -- followed by a zero-length sub-message whose payload does not fit a 16-bit length
          emit (rawSegs (hdrSeg :: subSegs 0x15 fl len len ++ subSegs 0x16 fl 0 70001))
  -- a zero-length sub-message alone, payload sizes across 2^16 (and 2^17)
  for L in [65532, 65535, 65536, 65537] ++ (if thorough then [65531, 65534, 65538, 131071, 131072, 131073, 1048577] else []) do
    emit (rawSegs (hdrSeg :: subSegs 0x15 1 0 L))
    if thorough ∨ L == 65536 then emit (rawSegs (hdrSeg :: smallSeg :: subSegs 0x09 0 0 L))
  -- (4) DATAGRAM SIZES across 2^16 (the UDP maximum 65507 included): D bytes made of minimal sub-messages and one
  -- that fills up, explicit or zero-length; a sub-message header starting at offset 65533 … 65537
  for D in [65535, 65536, 65537] ++ (if thorough then [65506, 65507, 65508, 65534, 65538, 131071, 131072, 131073] else []) do
    for cy in (if thorough then countCycles else if D == 65536 then [cyMinLE, cyMixed] else [cyMinLE]) do
      let unitLen := (cy.flatMap RtpsSpec.encodeSub).length
      let m := (D - 20 - 4 - 1) / unitLen - 1      -- whole cycles
      let fill := D - 20 - m * unitLen - 4          -- payload of the filling sub-message (≥ 1)
      emit (rawSegs (runsSegs hdr0 [⟨m, cy⟩] ++ subSegs 0x15 1 fill fill))
      emit (rawSegs (runsSegs hdr0 [⟨m, cy⟩] ++ subSegs 0x09 0 0 fill))
      if thorough ∨ D == 65536 then emit (rawSegs (runsSegs hdr0 [⟨m, cy⟩] ++ subSegs 0x15 0 fill fill ++ [smallSeg]))
  for X in [65533, 65534, 65535, 65536, 65537] do
    for fl in (if thorough then [1, 0] else [X % 2]) do
      emit (rawSegs (hdrSeg :: subSegs 0x15 fl (X - 24) (X - 24) ++ (runsSegs hdr0 [⟨1, cyMixed.take 3⟩]).drop 1))
  -- (5) random: count from a distribution with mass at the edges, a random cycle of 1-4 small sub-messages, random last
  let mut r := Rng.mk' (seed + 0xC20C9)
  for _ in List.range (n / 16) do
    let (w, r1) := r.nat 6
    let (c, r2) := match w with
      | 0 => r1.nat 130
      | 1 => let (k, r) := r1.nat 10; (60 + k, r)
      | 2 => let (k, r) := r1.nat 16; (120 + k, r)
      | 3 => let (k, r) := r1.nat 12; (250 + k, r)
      | 4 => r1.nat 1100
      | _ => r1.pick [64, 65, 66, 128, 129, 256, 257, 512, 1024, 1025, 2048]
    let (k, r3) := r2.nat 4
    let mut rr := r3
    let mut cy : List SubMsg := []
    for _ in List.range (k + 1) do
      let (id, ra) := rr.nat 256
      let (fl, rb) := ra.nat 256
      let (len, rc) := rb.nat 8
      let (pl, rd) := randBytes (len + 1) rc
      cy := mkSub id fl (len + 1) pl :: cy
      rr := rd
    let (last, r4) := rr.nat 3
    let (ver, r5) := r4.nat 65536
    let (pre, r6) := randBytes 12 r5
    r := r6
    emit (runsLine ⟨UInt16.ofNat ver, 0x0f01, pre⟩ (countRuns cy c last))

/-! ### every case once more on a restricted view (Driver/Views.lean)

  Each case line is followed by its view twin: the datagram as a window of a capture buffer.  Axes, cycled by the
  running case counter `c` with pairwise coprime periods: bytes in front of the window (16: 1, 7, 11, 1000, ... of
  them - a pcap-like record header and complete RTPS datagrams, or random bytes), chain of restrictions (7: View, From,
  view of a view in four ways, three deep), bytes behind the window (5).  What lies behind the window CONTINUES the
  datagram: behind a truncated datagram the rest of it; otherwise the byte that completes a payload one byte short,
  further complete sub-messages, a zero-length tail sub-message, a whole second datagram, or plain bytes (which a zero
  length field - "to the end of the datagram" - would swallow if the end were the storage's) - so that a reader going
  beyond the view's end returns another packet or accepts what must be rejected. -/

def junkText : Bytes :=
  [0xa1, 0xb2, 0xc3, 0xd4, 0x00, 0x02, 0x00, 0x04, 0x5f, 0x00, 0x00, 0x01, 0x00, 0x00, 0x00, 0x2b, 0x00, 0x00, 0x00, 0x2b] ++
  RtpsSpec.encode ⟨hdr0, preSubs⟩ ++ RtpsSpec.encode ⟨hdr0, [mkSub 0x15 1 3 (seqBytes 3)]⟩ ++ magic ++ RtpsSpec.encode ⟨hdr0, []⟩

def sufPool : List Bytes :=
  [ [0x77],
    RtpsSpec.encodeSub (mkSub 0x15 1 3 (seqBytes 3)),
    RtpsSpec.encode ⟨hdr0, [mkSub 0x09 1 8 (seqBytes 8)]⟩,
    seqBytes 20,
    RtpsSpec.encodeSub (mkSub 0x07 2 0 (seqBytes 6)),
    [0x00, 0x00],
    RtpsSpec.encodeSub (mkSub 0x09 0 8 (seqBytes 8)) ++ RtpsSpec.encodeSub (mkSub 0x07 3 0 (seqBytes 6)),
    seqBytes 300,
    [0x15, 0x01, 0x02] ]

def viewTwin (c : Nat) (line : String) (cont : Option Bytes) : Option String :=
  match words line with
  | _ :: hex :: _ =>
    match bytesOfDesc hex with
    | none => none
    | some buf =>
      -- (tier budget: of the datagrams above 4 kB every fourth gets its twin)
      if buf.length > 4096 && c % 4 != 0 then none else
      let pool := sufPool[(c / 5) % sufPool.length]?.getD []
      let suf : Bytes := match c % 5 with
        | 1 => []
        | 3 => pool
        | _ => cont.getD pool
      some (Views.viewLine c line buf.length junkText suf)
  | _ => none

/-- windows that end inside a datagram: well-formed datagrams (both byte orders, explicit and zero length fields,
    a zero-length tail with and without payload) cut at every byte, the rest lying behind the window; the oracle of
    `raw` cases decides from the window's bytes (spec reference decoder) -/
def cutPackets : List Packet :=
  [ ⟨hdr0, [mkSub 0x15 1 3 (seqBytes 3), mkSub 0x09 0 8 (seqBytes 8), mkSub 0x07 3 0 (seqBytes 6)]⟩,
    ⟨hdr0, [mkSub 0x06 0 258 (seqBytes 258), mkSub 0x15 1 2 [1, 2]]⟩,
    ⟨hdr0, [mkSub 0x07 2 0 []]⟩,
    ⟨⟨0x0201, 0x0103, seqBytes 12⟩, [mkSub 0x15 1 5 (magic ++ [0x00]), mkSub 0x0e 1 0 (magic ++ seqBytes 8)]⟩ ]

def cutWindows (emit : String → IO Unit) : IO Unit := do
  let mut k := 0
  for p in cutPackets do
    let d := RtpsSpec.encode p
    for cut in List.range d.length do
      k := k + 1
      match viewTwin k s!"raw {hexOfBytes (d.take cut)}" (some (d.drop cut)) with
      | some l => emit l
      | none => pure ()

def gen (seed n : Nat) (tier : String) (emit0 : String → IO Unit) : IO Unit := do
  -- every case is emitted twice: as it is, and on a restricted view
  let ctr ← IO.mkRef 0
  let emitC (cont : Option Bytes) (line : String) : IO Unit := do
    emit0 line
    let c ← ctr.modifyGet fun c => (c, c + 1)
    match viewTwin c line cont with
    | some l => emit0 l
    | none => pure ()
  let emit := emitC none
  cutWindows emit0
  -- (5) the fixed-value field (magic) family -----------------------------------
  genFixedField seed n tier emit
  -- (6) content-dependent boundaries, concatenations ----------------------------
  genBoundary seed n tier emit
  -- (7) counts and sizes: many sub-messages, long bodies, datagram sizes across 2^16 ---
  genCount seed n tier emit
  -- (4) exhaustive small spaces ------------------------------------------------
  -- every flags byte x {short, 258-byte (asymmetric length bytes), zero-length} x {last, followed}
  for fl in List.range 256 do
    emit (encLine ⟨hdr0, [mkSub 0x15 fl 3 (seqBytes 3)]⟩)
    emit (encLine ⟨hdr0, [mkSub 0x15 fl 258 (seqBytes 258), mkSub 0x09 (255 - fl) 8 (seqBytes 8)]⟩)
    emit (encLine ⟨hdr0, [mkSub 0x07 fl 1 [0xaa], mkSub 0x06 fl 0 (seqBytes 5)]⟩)
    emit (encLine ⟨hdr0, [mkSub 0x07 fl 0 []]⟩)
  -- every sub-message id
  for id in List.range 256 do
    emit (encLine ⟨hdr0, [mkSub id 1 2 [1, 2], mkSub id 0 2 [3, 4]]⟩)
  -- every length-field value whose two bytes are 00/01/ff-ish, both byte orders, exact / one short / one long
  for len in [1, 2, 255, 256, 257, 0x0100, 0x00ff, 0xff00 / 64, 1000] do
    for fl in [0, 1] do
      let good := RtpsSpec.encode ⟨hdr0, [mkSub 0x15 fl len (seqBytes len)]⟩
      emit s!"raw {hexOfBytes good}"
      emit s!"raw {hexOfBytes good.dropLast}"
      emit s!"raw {hexOfBytes (good ++ [0x77])}"
      emit s!"raw {hexOfBytes (good ++ [0x01, 0x00, 0x00, 0x00])}"
  -- every prefix (truncation) of a three-sub-message datagram
  let d3 := RtpsSpec.encode ⟨hdr0, [mkSub 0x09 1 8 (seqBytes 8), mkSub 0x15 0 5 (seqBytes 5), mkSub 0x07 3 0 (seqBytes 6)]⟩
  for k in List.range (d3.length + 1) do
    emitC (some (d3.drop k)) s!"raw {hexOfBytes (d3.take k)}"
  -- every single-byte change (4 values) of its first 32 bytes
  for i in List.range 32 do
    for v in [0x00, 0x01, 0xff, 0x52] do
      emit s!"raw {hexOfBytes (d3.set i v)}"
  -- every byte string over {00,01,02} of length <= 6 (quick) / <= 8 (thorough) behind a valid header:
  -- all small combinations of id, flags bit 0, length bytes (0, 1, 2, 256, 257, 258, 512, ...) and payload
  let maxLen := if tier == "thorough" then 8 else 6
  let mut level : List Bytes := [[]]
  for _ in List.range (maxLen + 1) do
    for t in level do
      emit s!"raw {hexOfBytes (RtpsSpec.encodeHdr hdr0 ++ t)}"
    level := level.flatMap fun t => [0x00 :: t, 0x01 :: t, 0x02 :: t]
  -- non-well-formed packet values, encoded: a zero length field that is not last, lengths that lie
  emit s!"raw {hexOfBytes (RtpsSpec.encode ⟨hdr0, [mkSub 0x15 1 0 [], mkSub 0x09 1 2 [1, 2]]⟩)}"
  emit s!"raw {hexOfBytes (RtpsSpec.encode ⟨hdr0, [mkSub 0x15 1 0 [9, 9], mkSub 0x09 0 2 [1, 2]]⟩)}"
  emit s!"raw {hexOfBytes (RtpsSpec.encode ⟨hdr0, [mkSub 0x15 1 5 [1, 2], mkSub 0x09 0 2 [1, 2]]⟩)}"
  emit s!"raw {hexOfBytes (RtpsSpec.encode ⟨hdr0, [mkSub 0x15 0 1 [1, 2, 3, 4, 5, 6]]⟩)}"
  -- the size limits: largest length field, largest UDP payload (65507), beyond 65535 via zero length
  let bigs : List Packet := [
    ⟨hdr0, [mkSub 0x15 1 65535 (seqBytes 65535)]⟩,
    ⟨hdr0, [mkSub 0x15 0 65535 (seqBytes 65535), mkSub 0x09 1 8 (seqBytes 8)]⟩,
    ⟨hdr0, [mkSub 0x15 1 65483 (seqBytes 65483)]⟩,                      -- 20 + 4 + 65483 = 65507
    ⟨hdr0, [mkSub 0x15 1 0 (seqBytes 65483)]⟩,
    ⟨hdr0, [mkSub 0x16 0 0 (seqBytes 70000)]⟩,
    ⟨hdr0, [mkSub 0x15 1 0xff00 (seqBytes 0xff00), mkSub 0x15 0 0x00ff (seqBytes 0x00ff)]⟩]
  for p in bigs do
    emit (encLine p)
    emitC (some ((RtpsSpec.encode p).drop ((RtpsSpec.encode p).length - 1))) s!"raw {hexOfBytes (RtpsSpec.encode p).dropLast}"
  -- (2)(3) random streams -------------------------------------------------------
  let mut r := Rng.mk' seed
  for _ in List.range n do
    -- structured, valid
    let (p, r1) := genPacket r 5
    r := r1
    emit (encLine p)
    -- malformed: one edit of a valid datagram (some stay valid; the oracle decides)
    let (q, r2) := genPacket r 3
    let dq := RtpsSpec.encode q
    let (m, r3) := mutate dq r2
    r := r3
    -- (on a view: behind a truncated datagram lies the rest of it)
    emitC (if m.length < dq.length && dq.take m.length == m then some (dq.drop m.length) else none) s!"raw {hexOfBytes m}"
  for _ in List.range (n / 4) do
    -- arbitrary packet values (not necessarily well-formed), encoded
    let (p, r1) := genPacket r 4
    let (j, r2) := r1.nat (p.msgs.length + 1)
    let (v, r3) := r2.pick [0, 1, 2, 255, 256, 65535]
    r := r3
    let ms := p.msgs.mapIdx fun idx m => if idx == j then { m with hdr := { m.hdr with length := UInt16.ofNat v } } else m
    emit s!"raw {hexOfBytes (RtpsSpec.encode ⟨p.hdr, ms⟩)}"
    -- arbitrary bytes, and arbitrary bytes behind a valid header
    let (len, r4) := r.nat 48
    let (x, r5) := randBytes len r4
    r := r5
    emit s!"raw {hexOfBytes x}"
    emit s!"raw {hexOfBytes (RtpsSpec.encodeHdr hdr0 ++ x)}"
  if tier == "thorough" then
    for _ in List.range 60 do
      let (k, r1) := r.nat 65508
      let (x, r2) := randBytes k r1
      r := r2
      emit s!"raw {hexOfBytes (RtpsSpec.encodeHdr hdr0 ++ x)}"

/-- non-trivial: the datagram gets past the 20-byte header into the sub-message loop
    (an `enc` case with at least one sub-message, or a `raw` case of ≥ 21 bytes starting with the magic) -/
def nontrivialPlain (line : String) : Bool :=
  match words line with
  | "enc" :: _ :: _ :: _ :: _ :: n :: _ => n != "0"
  | "raw" :: hex :: _ => hex.length ≥ 42 && hex.startsWith "52545053"
  | _ => false

/-- a case on a view counts when the case does and the window lies inside a larger allocation -/
def nontrivial (line : String) : Bool := Views.nontrivial nontrivialPlain line

def driver : PropDriver := { gen, model, judge, nontrivial }
end Driver.C20
