import Parsley.Base.Basic
import Parsley.Base.Codec
namespace Driver
open Parsley

/-- One property's executable side of the line protocol. -/
structure PropDriver where
  /-- emit generated cases (seed, n, tier) -/
  gen : Nat → Nat → String → (String → IO Unit) → IO Unit
  /-- the model's canonical output line for a case -/
  model : String → String
  /-- the declarative oracle applied to the implementation's output:
      "ok" | "skip" | "bad <class> <detail>" -/
  judge : String → String → String
  /-- non-triviality rule for the evidence count -/
  nontrivial : String → Bool

def showRes {α : Type} (f : α → String) : Res (Located α) × Nat → String
  | (.ok v, c) => s!"ok {f v.val} {v.start} {v.stop} {c}"
  | (.err k, c) => s!"err {k} {c}"
  | (.panic st, c) => s!"panic {st} {c}"


partial def eachLine (h : IO.FS.Stream) (f : String → IO Unit) : IO Unit := do
  let line ← h.getLine
  if line.isEmpty then return ()
  f (line.dropEndWhile (· == '\n')).toString
  eachLine h f

/-- `parsley_model_Cxx gen <seed> <n> <tier> | model | judge | nontrivial` -/
def mainWith (d : PropDriver) (args : List String) : IO UInt32 := do
  let stdin ← IO.getStdin
  let stdout ← IO.getStdout
  match args with
  | ["gen", seed, n, tier] =>
    d.gen seed.toNat! n.toNat! tier (fun s => stdout.putStrLn s)
    return 0
  | ["model"] =>
    eachLine stdin fun l => stdout.putStrLn (d.model l)
    return 0
  | ["judge"] =>
    -- input lines: <case> TAB <impl output>
    eachLine stdin fun l =>
      match l.splitOn "\t" with
      | [c, o] => stdout.putStrLn (d.judge c o)
      | _ => stdout.putStrLn "bad-judge-line"
    return 0
  | ["nontrivial"] =>
    eachLine stdin fun l => stdout.putStrLn (if d.nontrivial l then "1" else "0")
    return 0
  | _ => IO.eprintln "usage: gen <seed> <n> <tier> | model | judge | nontrivial"; return 2

end Driver
