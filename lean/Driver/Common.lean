import Parsley.Base.Basic
import Parsley.Base.Codec
namespace Driver
open Parsley

/-- One property's executable side of the line protocol. -/
structure PropDriver where
  /-- emit generated cases (seed, n, tier) -/
  gen : Nat → Nat → String → (String → IO Unit) → IO Unit
  /-- the model's canonical output line for a case -/
  model : String → String
  /-- the declarative oracle applied to the implementation's output:
      "ok" | "skip" | "bad <class> <detail>" -/
  judge : String → String → String
  /-- non-triviality rule for the evidence count -/
  nontrivial : String → Bool

def showRes {α : Type} (f : α → String) : Res (Located α) × Nat → String
  | (.ok v, c) => s!"ok {f v.val} {v.start} {v.stop} {c}"
  | (.err k, c) => s!"err {k} {c}"
  | (.panic st, c) => s!"panic {st} {c}"

end Driver
