import Driver.Common
import Driver.C19
open Driver

def drivers : List (String × PropDriver) := [
  ("C19", Driver.C19.driver)
]

partial def eachLine (h : IO.FS.Stream) (f : String → IO Unit) : IO Unit := do
  let line ← h.getLine
  if line.isEmpty then return ()
  f (line.dropEndWhile (· == '\n')).toString
  eachLine h f

def main (args : List String) : IO UInt32 := do
  let stdin ← IO.getStdin
  let stdout ← IO.getStdout
  match args with
  | mode :: prop :: rest =>
    match drivers.lookup prop with
    | none => IO.eprintln s!"unknown property {prop}"; return 2
    | some d =>
      match mode, rest with
      | "gen", [seed, n, tier] =>
        d.gen seed.toNat! n.toNat! tier (fun s => stdout.putStrLn s)
        return 0
      | "model", [] =>
        eachLine stdin fun l => stdout.putStrLn (d.model l)
        return 0
      | "judge", [] =>
        -- input lines: <case> TAB <impl output>
        eachLine stdin fun l =>
          match l.splitOn "\t" with
          | [c, o] => stdout.putStrLn (d.judge c o)
          | _ => stdout.putStrLn "bad-judge-line"
        return 0
      | "nontrivial", [] =>
        eachLine stdin fun l => stdout.putStrLn (if d.nontrivial l then "1" else "0")
        return 0
      | _, _ => IO.eprintln "usage: parsley_model gen|model|judge|nontrivial <prop> ..."; return 2
  | _ => IO.eprintln "usage: parsley_model gen|model|judge|nontrivial <prop> ..."; return 2
