import Driver.C01
def main (args : List String) : IO UInt32 := Driver.mainWith Driver.C01.driver args
