import Driver.C02
def main (args : List String) : IO UInt32 := Driver.mainWith Driver.C02.driver args
