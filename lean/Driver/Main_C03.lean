import Driver.C03
def main (args : List String) : IO UInt32 := Driver.mainWith Driver.C03.driver args
