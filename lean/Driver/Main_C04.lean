import Driver.C04
def main (args : List String) : IO UInt32 := Driver.mainWith Driver.C04.driver args
