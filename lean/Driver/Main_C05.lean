import Driver.C05
def main (args : List String) : IO UInt32 := Driver.mainWith Driver.C05.driver args
