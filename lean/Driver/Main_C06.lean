import Driver.C06
def main (args : List String) : IO UInt32 := Driver.mainWith Driver.C06.driver args
