import Driver.C07
def main (args : List String) : IO UInt32 := Driver.mainWith Driver.C07.driver args
