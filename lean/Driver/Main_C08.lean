import Driver.C08
def main (args : List String) : IO UInt32 := Driver.mainWith Driver.C08.driver args
