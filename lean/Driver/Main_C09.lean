import Driver.C09
def main (args : List String) : IO UInt32 := Driver.mainWith Driver.C09.driver args
