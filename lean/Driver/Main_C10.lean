import Driver.C10
def main (args : List String) : IO UInt32 := Driver.mainWith Driver.C10.driver args
