import Driver.C11
def main (args : List String) : IO UInt32 := Driver.mainWith Driver.C11.driver args
