import Driver.C12
def main (args : List String) : IO UInt32 := Driver.mainWith Driver.C12.driver args
