import Driver.C13
def main (args : List String) : IO UInt32 := Driver.mainWith Driver.C13.driver args
