import Driver.C14
def main (args : List String) : IO UInt32 := Driver.mainWith Driver.C14.driver args
