import Driver.C15
def main (args : List String) : IO UInt32 := Driver.mainWith Driver.C15.driver args
