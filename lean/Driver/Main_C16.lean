import Driver.C16
def main (args : List String) : IO UInt32 := Driver.mainWith Driver.C16.driver args
