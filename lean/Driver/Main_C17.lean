import Driver.C17
def main (args : List String) : IO UInt32 := Driver.mainWith Driver.C17.driver args
