import Driver.C18
def main (args : List String) : IO UInt32 := Driver.mainWith Driver.C18.driver args
