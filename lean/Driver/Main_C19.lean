import Driver.C19
def main (args : List String) : IO UInt32 := Driver.mainWith Driver.C19.driver args
