import Driver.C20
def main (args : List String) : IO UInt32 := Driver.mainWith Driver.C20.driver args
