import Driver.Common
import Parsley.Model.Obj
namespace Driver
open Parsley Parsley.Obj

mutual
/-- canonical S-expression; must equal harness/src/objfmt.rs -/
def objSexp : Obj → String
  | .null => "null"
  | .bool b => if b then "true" else "false"
  | .int n => s!"(int {n})"
  | .real n d => s!"(real {n} {d})"
  | .str bs => s!"(str {hexOfBytes bs})"
  | .name bs => s!"(name {hexOfBytes bs})"
  | .ref n g => s!"(ref {n} {g})"
  | .comment bs => s!"(comment {hexOfBytes bs})"
  | .arr xs => "(arr" ++ listSexp xs ++ ")"
  | .dict kvs => "(dict" ++ kvsSexp kvs ++ ")"
  | .stream kvs sc => "(stream (dict" ++ kvsSexp kvs ++ s!") {sc.start} {sc.size} {hexOfBytes sc.content})"
def listSexp : List Obj → String
  | [] => ""
  | x :: t => " " ++ objSexp x ++ listSexp t
def kvsSexp : List (Bytes × Obj) → String
  | [] => ""
  | (k, v) :: t => " (" ++ hexOfBytes k ++ " " ++ objSexp v ++ ")" ++ kvsSexp t
end

/-- nesting depth read off a canonical S-expression: 1 + maximal number of enclosing
    `(arr` / `(dict` forms (independent of the model's `depth`) -/
def sexpDepth (s : String) : Nat :=
  let toks := (s.replace "(" " ( ").replace ")" " ) " |>.splitOn " " |>.filter (· ≠ "")
  let rec go : List String → List Bool → Nat → Nat
    | [], _, m => m
    | "(" :: hd :: t, st, m =>
      -- a node at level (#enclosing containers + 1)
      go t ((hd == "arr" || hd == "dict") :: st) (Nat.max m ((st.filter id).length + 1))
    | ")" :: t, st, m => go t st.tail m
    | _ :: t, st, m => go t st (Nat.max m ((st.filter id).length + 1))
  go toks [] 0

/-- does a canonical S-expression contain a dictionary entry whose value is null? -/
def sexpHasNullEntry (s : String) : Bool :=
  let toks := (s.splitOn " ").filter (· ≠ "")
  let isKey (t : String) : Bool :=
    t.startsWith "(" && (let k := (t.drop 1).toString; k == "-" || (k.length % 2 == 0 && k.all fun c => c.isDigit || ('a' ≤ c && c ≤ 'f')))
  let rec go : List String → Bool
    | a :: b :: t => (isKey a && b.startsWith "null)") || go (b :: t)
    | _ => false
  go toks

end Driver
