/-
  Line-protocol codec and case generators shared by the C08 and C09 drivers.
  Case line (prefix notation, blank-separated tokens; the Rust twin is harness/src/tc_common.rs):
    <tag> <ctx> <graph> <chk> <obj>
    ctx   := k (name rep)*k           graph := k (num gen obj)*k
    chk   := n name | rep             rep   := r pred ind typ
    pred  := - | pt | pf | pr | pc k obj*k | pn | pm keyhex | pd | pg id pred (C10: name tree, number tree, date, tagged; Lean side only)
    ind   := q | a | f
    typ   := any | p prim | arr size|- chk | het k chk*k | dict k (keyhex opt chk)*k (- | * opt chk)
           | strm k (keyhex opt chk)*k | dis k chk*k
    obj   := A k obj*k | D k (keyhex obj)*k | S k (keyhex obj)*k start hex | R num gen | B 0|1
           | Z hex | N hex | U | C hex | I int | F num den
  Tags: `c08`/`c09` = judged against the tree configuration `Fix.tree`; `c08o` = the model runs the
  ORIGINAL configuration `Fix.orig` (development aid for correspondence with an unpatched tree).
-/
import Driver.Common
import Parsley.Model.TypeCheck
import Parsley.Spec.Conforms
namespace Driver.TCCodec
open Parsley Parsley.TC

abbrev Toks := List String

def bytesLt : Bytes → Bytes → Bool
  | [], [] => false
  | [], _ :: _ => true
  | _ :: _, [] => false
  | a :: as, b :: bs => if a < b then true else if b < a then false else bytesLt as bs

/-- BTreeMap insert: sorted by key, a later duplicate replaces the earlier value -/
def insertKV (k : Bytes) (v : Obj) : List (Bytes × Obj) → List (Bytes × Obj)
  | [] => [(k, v)]
  | (k', v') :: t =>
    if k = k' then (k, v) :: t
    else if bytesLt k k' then (k, v) :: (k', v') :: t
    else (k', v') :: insertKV k v t

def objLOfList : List (Bytes × Obj) → ObjL
  | [] => .nil
  | (k, v) :: t => .cons k v (objLOfList t)

def chkLOfList : List (Bytes × KeySpec × Chk) → ChkL
  | [] => .nil
  | (k, o, c) :: t => .cons k o c (chkLOfList t)

def mkDict (kvs : List (Bytes × Obj)) : ObjL :=
  objLOfList (kvs.foldl (fun acc kv => insertKV kv.1 kv.2 acc) [])

def mkArr (xs : List Obj) : Obj := .arr (objLOfList (xs.map fun x => ([], x)))
def mkAlts (cs : List Chk) : ChkL := chkLOfList (cs.map fun c => ([], .required, c))

mutual
partial def pObj : Toks → Option (Obj × Toks)
  | "A" :: k :: t => do
    let (xs, t) ← pObjs k.toNat! t
    pure (mkArr xs, t)
  | "D" :: k :: t => do
    let (kvs, t) ← pKVs k.toNat! t
    pure (.dict (mkDict kvs), t)
  | "S" :: k :: t => do
    let (kvs, t) ← pKVs k.toNat! t
    match t with
    | st :: hex :: t => do
      let c ← bytesOfHex hex
      pure (.stream (mkDict kvs) st.toNat! c, t)
    | _ => none
  | "R" :: a :: b :: t => some (.ref a.toNat! b.toNat!, t)
  | "B" :: b :: t => some (.bool (b == "1"), t)
  | "Z" :: h :: t => do pure (.str (← bytesOfHex h), t)
  | "N" :: h :: t => do pure (.name (← bytesOfHex h), t)
  | "U" :: t => some (.null, t)
  | "C" :: h :: t => do pure (.comment (← bytesOfHex h), t)
  | "I" :: i :: t => do pure (.int (← i.toInt?), t)
  | "F" :: a :: b :: t => do pure (.real (← a.toInt?) (← b.toInt?), t)
  | _ => none
partial def pObjs : Nat → Toks → Option (List Obj × Toks)
  | 0, t => some ([], t)
  | n+1, t => do
    let (x, t) ← pObj t
    let (xs, t) ← pObjs n t
    pure (x :: xs, t)
partial def pKVs : Nat → Toks → Option (List (Bytes × Obj) × Toks)
  | 0, t => some ([], t)
  | n+1, k :: t => do
    let key ← bytesOfHex k
    let (x, t) ← pObj t
    let (xs, t) ← pKVs n t
    pure ((key, x) :: xs, t)
  | _, _ => none
end

partial def pPred : Toks → Option (Option Pred × Toks)
  | "-" :: t => some (none, t)
  | "pg" :: i :: t => do
    let (p, t) ← pPred t
    match p with
    | some p => pure (some (.tagged i.toNat! p), t)
    | none => none
  | "pt" :: t => some (some .always, t)
  | "pf" :: t => some (some .never, t)
  | "pr" :: t => some (some .refArray, t)
  | "pc" :: k :: t => do
    let (xs, t) ← pObjs k.toNat! t
    pure (some (.choice xs), t)
  | "pn" :: t => some (some .nameTree, t)
  | "pm" :: k :: t => do pure (some (.numTree (← bytesOfHex k)), t)
  | "pd" :: t => some (some .date, t)
  | _ => none

def pInd : String → Option Ind
  | "q" => some .required | "a" => some .allowed | "f" => some .forbidden | _ => none
def pOpt : String → Option KeySpec
  | "q" => some .required | "o" => some .optional | "f" => some .forbidden | _ => none
def pPrim : String → Option Prim
  | "b" => some .bool | "s" => some .string | "n" => some .name | "u" => some .null
  | "i" => some .integer | "f" => some .real | "c" => some .comment | _ => none

mutual
partial def pChk : Toks → Option (Chk × Toks)
  | "n" :: name :: t => some (.named name, t)
  | "r" :: t => do
    let (pred, t) ← pPred t
    match t with
    | i :: t => do
      let ind ← pInd i
      let a : Attr := ⟨pred, ind⟩
      match t with
      | "any" :: t => pure (.any a, t)
      | "p" :: p :: t => do pure (.prim a (← pPrim p), t)
      | "arr" :: s :: t => do
        let (e, t) ← pChk t
        pure (.array a e (if s == "-" then none else some s.toNat!), t)
      | "het" :: k :: t => do
        let (cs, t) ← pChks k.toNat! t
        pure (.het a (mkAlts cs), t)
      | "dict" :: k :: t => do
        let (es, t) ← pEnts k.toNat! t
        match t with
        | "-" :: t => pure (.dict a (chkLOfList es), t)
        | "*" :: o :: t => do
          let so ← pOpt o
          let (sc, t) ← pChk t
          pure (.dictStar a (chkLOfList es) so sc, t)
        | _ => none
      | "strm" :: k :: t => do
        let (es, t) ← pEnts k.toNat! t
        pure (.stream a (chkLOfList es), t)
      | "dis" :: k :: t => do
        let (cs, t) ← pChks k.toNat! t
        pure (.disj a (mkAlts cs), t)
      | _ => none
    | _ => none
  | _ => none
partial def pChks : Nat → Toks → Option (List Chk × Toks)
  | 0, t => some ([], t)
  | n+1, t => do
    let (x, t) ← pChk t
    let (xs, t) ← pChks n t
    pure (x :: xs, t)
partial def pEnts : Nat → Toks → Option (List (Bytes × KeySpec × Chk) × Toks)
  | 0, t => some ([], t)
  | n+1, k :: o :: t => do
    let key ← bytesOfHex k
    let opt ← pOpt o
    let (c, t) ← pChk t
    let (xs, t) ← pEnts n t
    pure ((key, opt, c) :: xs, t)
  | _, _ => none
end

partial def pCtx : Nat → Toks → Option (Ctx × Toks)
  | 0, t => some ([], t)
  | n+1, name :: t => do
    let (c, t) ← pChk t
    match c with
    | .named _ => none
    | _ =>
      let (xs, t) ← pCtx n t
      pure ((name, c) :: xs, t)
  | _, _ => none

/-- `register_obj`: a later definition of the same id replaces the earlier one -/
def insertDef (id : Nat × Nat) (o : Obj) : Graph → Graph
  | [] => [(id, o)]
  | (k, v) :: t => if k = id then (id, o) :: t else (k, v) :: insertDef id o t

partial def pGraph : Nat → Toks → Graph → Option (Graph × Toks)
  | 0, t, g => some (g, t)
  | n+1, a :: b :: t, g => do
    let (o, t) ← pObj t
    pGraph n t (insertDef (a.toNat!, b.toNat!) o g)
  | _, _, _ => none

structure Case where
  tag : String
  ctx : Ctx
  g : Graph
  chk : Chk
  obj : Obj

def parseCase (line : String) : Option Case :=
  match words line with
  | tag :: k :: t => do
    let (ctx, t) ← pCtx k.toNat! t
    match t with
    | k :: t => do
      let (g, t) ← pGraph k.toNat! t []
      let (c, t) ← pChk t
      let (o, t) ← pObj t
      if t.isEmpty then pure ⟨tag, ctx, g, c, o⟩ else none
    | _ => none
  | _ => none

/-! ### printer -/

mutual
partial def sObj : Obj → String
  | .arr xs => s!"A {xs.toList.length}{sVals xs.toList}"
  | .dict kvs => s!"D {kvs.toList.length}{sKVs kvs.toList}"
  | .stream kvs st c => s!"S {kvs.toList.length}{sKVs kvs.toList} {st} {hexOfBytes c}"
  | .ref a b => s!"R {a} {b}"
  | .bool b => if b then "B 1" else "B 0"
  | .str s => s!"Z {hexOfBytes s}"
  | .name s => s!"N {hexOfBytes s}"
  | .null => "U"
  | .comment s => s!"C {hexOfBytes s}"
  | .int i => s!"I {i}"
  | .real n d => s!"F {n} {d}"
partial def sVals : List (Bytes × Obj) → String
  | [] => ""
  | (_, v) :: t => " " ++ sObj v ++ sVals t
partial def sKVs : List (Bytes × Obj) → String
  | [] => ""
  | (k, v) :: t => s!" {hexOfBytes k} " ++ sObj v ++ sKVs t
end

partial def sPred : Option Pred → String
  | none => "-"
  | some (.tagged i p) => s!"pg {i} " ++ sPred (some p)
  | some .always => "pt"
  | some .never => "pf"
  | some .refArray => "pr"
  | some (.choice vs) => s!"pc {vs.length}" ++ String.join (vs.map fun v => " " ++ sObj v)
  | some .nameTree => "pn"
  | some (.numTree k) => s!"pm {hexOfBytes k}"
  | some .date => "pd"

def sInd : Ind → String
  | .required => "q" | .allowed => "a" | .forbidden => "f"
def sOpt : KeySpec → String
  | .required => "q" | .optional => "o" | .forbidden => "f"
def sPrim : Prim → String
  | .bool => "b" | .string => "s" | .name => "n" | .null => "u" | .integer => "i" | .real => "f"
  | .comment => "c"

def sAttr (a : Attr) : String := s!"r {sPred a.pred} {sInd a.ind}"

mutual
partial def sChk : Chk → String
  | .named n => s!"n {n}"
  | .any a => s!"{sAttr a} any"
  | .prim a p => s!"{sAttr a} p {sPrim p}"
  | .array a e s => s!"{sAttr a} arr {match s with | some n => toString n | none => "-"} {sChk e}"
  | .het a es => s!"{sAttr a} het {es.toList.length}{sAlts es.toList}"
  | .dict a es => s!"{sAttr a} dict {es.toList.length}{sEnts es.toList} -"
  | .dictStar a es so sc => s!"{sAttr a} dict {es.toList.length}{sEnts es.toList} * {sOpt so} {sChk sc}"
  | .stream a es => s!"{sAttr a} strm {es.toList.length}{sEnts es.toList}"
  | .disj a os => s!"{sAttr a} dis {os.toList.length}{sAlts os.toList}"
partial def sAlts : List (Bytes × KeySpec × Chk) → String
  | [] => ""
  | (_, _, c) :: t => " " ++ sChk c ++ sAlts t
partial def sEnts : List (Bytes × KeySpec × Chk) → String
  | [] => ""
  | (k, o, c) :: t => s!" {hexOfBytes k} {sOpt o} " ++ sChk c ++ sEnts t
end

def sCase (tag : String) (ctx : Ctx) (g : Graph) (c : Chk) (o : Obj) : String :=
  s!"{tag} {ctx.length}" ++ String.join (ctx.map fun e => s!" {e.1} {sChk e.2}")
    ++ s!" {g.length}" ++ String.join (g.map fun d => s!" {d.1.1} {d.1.2} {sObj d.2}")
    ++ " " ++ sChk c ++ " " ++ sObj o

/-! ### generators -/

def kA : Bytes := [0x41]
def kB : Bytes := [0x42]
def kC : Bytes := [0x43]
def nmA : Obj := .name [0x61]
def nmB : Obj := .name [0x62]
def strS : Obj := .str [0x73]
def dA : Attr := Attr.dflt

def atoms : List Obj := [.int 1, .int 2, nmA, nmB, strS, .null, .bool true, .real 1 2]

def genAtom (r : Rng) : Obj × Rng := r.pick atoms

/-- a random object of bounded depth over ids 1..4 (references may be undefined or cyclic) -/
partial def genObj : Nat → Rng → Obj × Rng
  | 0, r =>
    let (k, r) := r.nat 5
    if k == 0 then let (i, r) := r.nat 5; (.ref (i + 1) 0, r) else genAtom r
  | d+1, r =>
    let (k, r) := r.nat 9
    if k < 3 then genObj 0 r
    else if k < 5 then
      let (n, r) := r.nat 3
      let (xs, r) := (List.range n).foldl (fun (acc : List Obj × Rng) _ =>
        let (x, r) := genObj d acc.2; (x :: acc.1, r)) ([], r)
      (mkArr xs, r)
    else if k < 8 then
      let (n, r) := r.nat 3
      let (kvs, r) := (List.range n).foldl (fun (acc : List (Bytes × Obj) × Rng) _ =>
        let (key, r) := acc.2.pick [kA, kB, kC]
        let (x, r) := genObj d r; ((key, x) :: acc.1, r)) ([], r)
      (.dict (mkDict kvs), r)
    else
      let (x, r) := genObj d r
      (.stream (mkDict [(kA, x)]) 0 [], r)

def genAttr (r : Rng) : Attr × Rng :=
  let (k, r) := r.nat 12
  let pred : Option Pred :=
    if k == 0 then some (.choice [nmA]) else if k == 1 then some .never
    else if k == 2 then some .always else if k == 3 then some (.choice [.int 1, nmB])
    else if k == 4 then some .refArray else none
  let (j, r) := r.nat 10
  let ind : Ind := if j == 0 then .required else if j == 1 then .forbidden else .allowed
  (⟨pred, ind⟩, r)

def genOpt (r : Rng) : KeySpec × Rng :=
  let (k, r) := r.nat 6
  (if k < 3 then .required else if k < 5 then .optional else .forbidden, r)

/-- a random check of bounded depth; `names` are the names it may refer to -/
partial def genChk (names : List String) : Nat → Rng → Chk × Rng
  | 0, r =>
    let (a, r) := genAttr r
    let (k, r) := r.nat 8
    if k == 0 && !names.isEmpty then
      let (n, r) := r.pick names; (.named n, r)
    else if k < 3 then (.any a, r)
    else
      let (p, r) := r.pick [Prim.integer, .name, .string, .null, .bool]
      (.prim a p, r)
  | d+1, r =>
    let (a, r) := genAttr r
    let (k, r) := r.nat 12
    if k < 2 then genChk names 0 r
    else if k < 4 then
      let (e, r) := genChk names d r
      let (s, r) := r.nat 4
      (.array a e (if s == 0 then some 2 else none), r)
    else if k < 5 then
      let (n, r) := r.nat 3
      let (cs, r) := (List.range n).foldl (fun (acc : List Chk × Rng) _ =>
        let (x, r) := genChk names d acc.2; (x :: acc.1, r)) ([], r)
      (.het a (mkAlts cs), r)
    else if k < 8 then
      let (n, r) := r.nat 3
      let (es, r) := (List.range (n + 1)).foldl (fun (acc : List (Bytes × KeySpec × Chk) × Rng) i =>
        let key := [kA, kB, kC].getD i kA
        let (o, r) := genOpt acc.2
        let (x, r) := genChk names d r; ((key, o, x) :: acc.1, r)) ([], r)
      let (s, r) := r.nat 3
      if s == 0 then
        let (o, r) := genOpt r
        let (x, r) := genChk names d r
        (.dictStar a (chkLOfList es.reverse) o x, r)
      else (.dict a (chkLOfList es.reverse), r)
    else if k < 9 then
      let (x, r) := genChk names d r
      (.stream a (chkLOfList [(kA, .required, x)]), r)
    else
      let (n, r) := r.nat 3
      let (cs, r) := (List.range (n + 1)).foldl (fun (acc : List Chk × Rng) _ =>
        let (x, r) := genChk names d acc.2; (x :: acc.1, r)) ([], r)
      (.disj a (mkAlts cs), r)

/-- an object built to FIT the check (mostly conforming); may allocate indirect objects in the graph -/
partial def fit (ctx : Ctx) : Nat → Chk → Graph × Rng → Obj × (Graph × Rng)
  | 0, _, (g, r) => let (x, r) := genAtom r; (x, (g, r))
  | d+1, c, (g, r) =>
    match resolve ctx c with
    | none => let (x, r) := genAtom r; (x, (g, r))
    | some rc =>
      let (v, (g, r)) : Obj × (Graph × Rng) :=
        match rc with
        | .prim a p =>
          match a.pred with
          | some (.choice (v :: _)) => (v, (g, r))
          | _ =>
            (match p with
             | .integer => .int 1 | .name => nmA | .string => strS | .null => .null | .bool => .bool true
             | .real => .real 1 2 | .comment => .comment [], (g, r))
        | .any a =>
          match a.pred with
          | some (.choice (v :: _)) => (v, (g, r))
          | some .refArray => (mkArr [.ref 1 0], (g, r))
          | _ => let (x, r) := genObj 1 r; (x, (g, r))
        | .array _ e s =>
          -- a sized array is mostly fitted exactly; one time in four it is one element too long or too short
          let (n, r) := match s with
            | some k => let (m, r) := r.nat 8; ((if m == 0 then k + 1 else if m == 1 then k - 1 else k), r)
            | none => r.nat 3
          let (xs, st) := (List.range n).foldl (fun (acc : List Obj × (Graph × Rng)) _ =>
            let (x, st) := fit ctx d e acc.2; (x :: acc.1, st)) ([], (g, r))
          (mkArr xs.reverse, st)
        | .het _ es =>
          let (xs, st) := es.chks.foldl (fun (acc : List Obj × (Graph × Rng)) e =>
            let (x, st) := fit ctx d e acc.2; (x :: acc.1, st)) ([], (g, r))
          (mkArr xs.reverse, st)
        | .dict _ es | .stream _ es | .dictStar _ es _ _ =>
          let (kvs, (g, r)) := es.toList.foldl (fun (acc : List (Bytes × Obj) × (Graph × Rng)) e =>
            let (k, r) := acc.2.2.nat 4
            match e.2.1 with
            | .forbidden => acc
            | .optional => if k == 0 then (acc.1, (acc.2.1, r)) else
                let (x, st) := fit ctx d e.2.2 (acc.2.1, r); ((e.1, x) :: acc.1, st)
            | .required =>
                let (x, st) := fit ctx d e.2.2 (acc.2.1, r); ((e.1, x) :: acc.1, st)) ([], (g, r))
          match rc with
          | .stream _ _ => (.stream (mkDict kvs) 0 [], (g, r))
          | .dictStar _ _ so sc =>
            let (k, r) := r.nat 2
            if k == 0 || so == .forbidden then (.dict (mkDict kvs), (g, r))
            else
              let (x, st) := fit ctx d sc (g, r)
              (.dict (mkDict (([0x5a], x) :: kvs)), st)
          | _ => (.dict (mkDict kvs), (g, r))
        | .disj _ os =>
          let (alt, r) := r.pick os.chks
          fit ctx d alt (g, r)
        | .named _ => (.null, (g, r))
      -- wrap as an indirect object when required, sometimes when allowed
      let (k, r) := r.nat 5
      if rc.attr.ind == .required || (rc.attr.ind == .allowed && k == 0 && !rc.isDisj) then
        let id := g.length + 1
        (.ref id 0, (g ++ [((id, 0), v)], r))
      else (v, (g, r))

/-- one random case -/
def genCase (tag : String) (r : Rng) : String × Rng :=
  let (nn, r) := r.nat 3
  let names := (List.range nn).map fun i => s!"t{i}"
  let (ctx, r) := names.foldl (fun (acc : Ctx × Rng) n =>
    let (c, r) := genChk names 2 acc.2
    match c with
    | .named _ => ((n, .any dA) :: acc.1, r)
    | c => ((n, c) :: acc.1, r)) ([], r)
  let (d, r) := r.nat 3
  let (c, r) := genChk names (d + 1) r
  let (ng, r) := r.nat 4
  let (g, r) := (List.range ng).foldl (fun (acc : Graph × Rng) i =>
    let (o, r) := genObj 2 acc.2; (acc.1 ++ [((i + 1, 0), o)], r)) (([] : Graph), r)
  let (k, r) := r.nat 10
  if k < 6 then
    let (o, (g, r)) := fit ctx 4 c (g, r)
    (sCase tag ctx g c o, r)
  else
    let (o, r) := genObj 2 r
    (sCase tag ctx g c o, r)

/-- Cyclic graphs whose cycle passes through a DISJUNCTION-typed edge: container nodes (2-element arrays
    `[/Node [kids]]` or dictionaries `<< /Type /Pages /Kids [kids] >>`) whose kids are typed
    `leaf | node | tmpl` by name, in a random order, where the non-recursive alternatives are compound (so
    that they fail one level down, in a pushed child check, before the recursive alternative re-enters a
    node already being examined).  1..3 nodes; every node lists the next one, the last one lists a random
    node (possibly itself); some kids are leaves, some are malformed. -/
def genCycDisj (tag : String) (r : Rng) : String × Rng :=
  let nm (s : String) : Obj := .name s.toUTF8.toList
  let isName (s : String) : Chk := .prim ⟨some (.choice [nm s]), .allowed⟩ .name
  let kT : Bytes := "Type".toUTF8.toList
  let kK : Bytes := "Kids".toUTF8.toList
  let (shape, r) := r.nat 2
  let (nn, r) := r.nat 3
  let n := nn + 1
  let (pos, r) := r.nat 3
  let alts0 : List Chk := [.named "leaf", .named "tmpl"]
  let alts : List Chk := alts0.take pos ++ [.named "node"] ++ alts0.drop pos
  let kids : Chk := .array dA (.disj dA (mkAlts alts)) none
  let mkT (tyName : String) (rest : Option Chk) : Chk :=
    if shape == 0 then .het dA (mkAlts [isName tyName, rest.getD (.any dA)])
    else .dict dA (chkLOfList ([(kT, .required, isName tyName)] ++
            (match rest with | some k => [(kK, .required, k)] | none => [])))
  let mkO (tyName : String) (ks : List Obj) : Obj :=
    if shape == 0 then mkArr [nm tyName, mkArr ks]
    else .dict (mkDict [(kT, nm tyName), (kK, mkArr ks)])
  let ctx : Ctx := [("node", mkT "Node" (some kids)), ("leaf", mkT "Leaf" none), ("tmpl", mkT "Tmpl" none)]
  let (back, r) := r.nat n
  let (g, r) := (List.range n).foldl (fun (acc : Graph × Rng) j =>
    let i := j + 1
    let next : Obj := .ref (if i < n then i + 1 else back + 1) 0
    let (k, r) := acc.2.nat 6
    let extra : List Obj :=
      if k == 0 then [mkO "Leaf" []] else if k == 1 then [mkO "Tmpl" [], next]
      else if k == 2 then [mkO "Bad" []] else if k == 3 then [.ref i 0] else []
    let (front, r) := r.nat 2
    let ks := if front == 0 then next :: extra else extra ++ [next]
    (acc.1 ++ [((i, 0), mkO "Node" ks)], r)) (([] : Graph), r)
  (sCase tag ctx g (.named "node") (.ref 1 0), r)

/-- exhaustive small enumeration: every one- and two-level specification over a fixed menu of leaf
    checks x a fixed menu of objects over two small graphs (sharing, structurally equal duplicates,
    an undefined reference, a self reference) -/
def leafChks : List Chk :=
  [.any dA, .prim dA .integer, .prim dA .name, .prim ⟨some (.choice [nmA]), .allowed⟩ .name,
   .prim ⟨some (.choice [nmB]), .allowed⟩ .name, .prim ⟨none, .required⟩ .integer,
   .any ⟨some .never, .allowed⟩, .prim ⟨none, .forbidden⟩ .string, .prim dA .null]

/-- 3 -> 3 is a self reference; 5 -> 3 -> 3 and 8 -> 6 -> 7 -> 6 are LASSO chains of references (a tail
    leading into a cycle that does not contain the starting id: seed C09_3 only stopped on the start) -/
def smallGraph : Graph := [((1, 0), .int 1), ((2, 0), nmA), ((3, 0), .ref 3 0), ((4, 0), .ref 1 0),
  ((5, 0), .ref 3 0), ((6, 0), .ref 7 0), ((7, 0), .ref 6 0), ((8, 0), .ref 6 0)]

def leafObjs : List Obj := [.int 1, .int 2, nmA, nmB, strS, .null, .ref 1 0, .ref 2 0, .ref 3 0, .ref 4 0, .ref 9 0,
  .ref 5 0, .ref 8 0]

def smallObjs : List Obj :=
  leafObjs ++ (leafObjs.take 7).flatMap (fun x => [mkArr [x], .dict (mkDict [(kA, x)])])
    ++ ([(Obj.int 1, nmA), (nmA, nmA), (nmA, nmB), (strS, strS), (.int 1, .int 1), (.ref 1 0, .int 1),
         (nmB, .ref 2 0), (strS, .int 1)].flatMap fun p =>
        [mkArr [p.1, p.2], .dict (mkDict [(kA, p.1), (kB, p.2)])])

def smallChks (full : Bool) : List Chk :=
  let ls := leafChks
  let l5 := if full then ls else ls.take 5
  let one : List Chk :=
    ls.flatMap (fun l => [Chk.array dA l none, .dict dA (chkLOfList [(kA, .required, l)]),
      .dictStar dA (chkLOfList [(kA, .optional, l)]) .required (.prim dA .integer)])
  let two : List Chk :=
    l5.flatMap fun l1 => l5.flatMap fun l2 =>
      [Chk.disj dA (mkAlts [l1, l2]), .het dA (mkAlts [l1, l2]),
       .dict dA (chkLOfList [(kA, .required, l1), (kB, .optional, l2)]),
       .disj dA (mkAlts [.dict dA (chkLOfList [(kA, .required, l1), (kB, .required, l2)]),
                          .dict dA (chkLOfList [(kA, .required, l2)])]),
       .het dA (mkAlts [.disj dA (mkAlts [l1, l2]), .disj dA (mkAlts [l2, l1, .prim dA .string])]),
       .array dA (.disj ⟨none, .required⟩ (mkAlts [l1, l2])) none]
  ls ++ one ++ two

def genSmall (tag : String) (full : Bool) (emit : String → IO Unit) : IO Unit := do
  for c in smallChks full do
    for o in smallObjs do
      emit (sCase tag [] smallGraph c o)

/-! ### unwinding past not-yet-started disjunctions (mutation sweep, `State::unwind`)
  Pending sets in which a FAILING check is followed, at every distance, by disjunctions that have not been
  started: `unwind` then meets an unstarted disjunction at the front of the top set, above the in-progress
  disjunction (if any) it has to stop at.  The two mutants of `unwind` the sweep left alive are proved equivalent
  (Props/C08Unwind.lean); these families keep every OTHER change of the unwinding conditions visible. -/

def uI : Chk := .prim dA .integer
def uS : Chk := .prim dA .string
/-- Integer | Name -/
def uD : Chk := .disj dA (mkAlts [uI, .prim dA .name])
/-- the same disjunction behind a name (expanded by `push_disjunct`, as a pending set of its own) -/
def uND : Chk := .named "dj"
/-- a disjunction with a compound alternative, which fails one level down -/
def uDD : Chk := .disj dA (mkAlts [.dict dA (chkLOfList [(kA, .required, uI)]), uS])
/-- a disjunction that carries a predicate of its own (guard + bare disjunction) -/
def uDP : Chk := .disj ⟨some (.choice [.int 1, nmA]), .allowed⟩ (mkAlts [uI, .prim dA .name])

def uCtx : Ctx := [("dj", uD)]
def uVals : List Obj := [.int 1, strS, nmA]

/-- exhaustive: dictionaries {A, B, C} with every entry typed Integer / Integer|Name / the named disjunction,
    against every assignment of an integer, a string, a name to the three keys (729 cases); arrays of 1..3
    such values against element types that are disjunctions (plain, named, compound, guarded) -/
def genUnwindSmall (tag : String) (emit : String → IO Unit) : IO Unit := do
  let ts : List Chk := [uI, uD, uND]
  for t1 in ts do
    for t2 in ts do
      for t3 in ts do
        let c : Chk := .dict dA (chkLOfList [(kA, .required, t1), (kB, .required, t2), (kC, .required, t3)])
        for v1 in uVals do
          for v2 in uVals do
            for v3 in uVals do
              emit (sCase tag uCtx [] c (.dict (mkDict [(kA, v1), (kB, v2), (kC, v3)])))
  let vs := uVals ++ [.dict (mkDict [(kA, .int 1)]), .dict (mkDict [(kA, strS)])]
  for e in [uD, uND, uDD, uDP] do
    let c : Chk := .array dA e none
    for v1 in vs do
      emit (sCase tag uCtx [] c (mkArr [v1]))
      for v2 in vs do
        emit (sCase tag uCtx [] c (mkArr [v1, v2]))
        for v3 in uVals do
          emit (sCase tag uCtx [] c (mkArr [v1, v2, v3]))

/-- random: a container (dictionary, heterogeneous array) of 2..4 members typed from the menu above, with
    mostly fitting members and one or two wrong ones, WRAPPED so that the unwinding happens inside an
    alternative of an outer disjunction (first / later alternative, behind a name), inside an entry of an
    outer dictionary that has further (unstarted) entries behind it, or inside an element of an outer array -/
def genUnwindWrapped (tag : String) (r : Rng) : String × Rng :=
  let menu : List Chk := [uI, uS, uD, uND, uDD, uDP]
  let fitTo (c : Chk) (r : Rng) : Obj × Rng :=
    let (k, r) := r.nat 3
    if c == uI then (.int 1, r) else if c == uS then (strS, r)
    else if c == uDD then (if k == 0 then strS else .dict (mkDict [(kA, .int 1)]), r)
    else (if k == 0 then nmA else .int 1, r)
  let misfit (c : Chk) (r : Rng) : Obj × Rng :=
    let (k, r) := r.nat 2
    if c == uI then (if k == 0 then strS else nmA, r) else if c == uS then (.int 1, r)
    else if c == uDD then (if k == 0 then .dict (mkDict [(kA, strS)]) else .int 1, r)
    else if c == uDP then (if k == 0 then nmB else strS, r)
    else (strS, r)
  let (n, r) := r.nat 3
  let n := n + 2
  let (ts, r) := (List.range n).foldl (fun (acc : List Chk × Rng) _ =>
    let (t, r) := acc.2.pick menu; (t :: acc.1, r)) ([], r)
  -- which members are wrong: one position always, a second one half of the time
  let (bad1, r) := r.nat n
  let (bad2, r) := r.nat (2 * n)
  let (allGood, r) := r.nat 6
  let (vs, r) := ((List.range n).zip ts).foldl (fun (acc : List Obj × Rng) it =>
    let (v, r) := if allGood != 0 && (it.1 == bad1 || it.1 == bad2) then misfit it.2 acc.2 else fitTo it.2 acc.2
    (acc.1 ++ [v], r)) ([], r)
  let keys : List Bytes := [kA, kB, kC, [0x44]]
  let (shape, r) := r.nat 2
  let base : Chk :=
    if shape == 0 then .dict dA (chkLOfList ((keys.zip ts).map fun kt => (kt.1, .required, kt.2)))
    else .het dA (mkAlts ts)
  let bobj : Obj :=
    if shape == 0 then .dict (mkDict (keys.zip vs)) else mkArr vs
  let (w, r) := r.nat 6
  let kX : Bytes := [0x58]
  let kY : Bytes := [0x59]
  let ctx : Ctx := uCtx ++ [("base", base), ("outer", .disj dA (mkAlts [.named "base", uS]))]
  let (c, o) : Chk × Obj :=
    if w == 0 then (.disj dA (mkAlts [base, uS]), bobj)
    else if w == 1 then (.disj dA (mkAlts [uI, base, .any dA]), bobj)
    else if w == 2 then (.named "outer", bobj)
    else if w == 3 then
      -- an outer dictionary: the container is an entry, followed by an unstarted disjunction and a leaf
      (.dict dA (chkLOfList [(kX, .required, base), (kY, .required, uD), ([0x5a], .required, uI)]),
       .dict (mkDict [(kX, bobj), (kY, nmA), ([0x5a], .int 1)]))
    else if w == 4 then
      (.array dA (.disj dA (mkAlts [base, uI])) none, mkArr [.int 1, bobj, .int 2, bobj])
    else
      -- nested twice: alternative of a disjunction that is an entry of a dictionary that is an alternative
      (.disj dA (mkAlts [.dict dA (chkLOfList [(kX, .required, .disj dA (mkAlts [uS, base])), (kY, .required, uD)]),
                          .any ⟨some (.choice [.int 7]), .allowed⟩]),
       .dict (mkDict [(kX, bobj), (kY, .int 1)]))
  (sCase tag ctx [] c o, r)

/-! ### named types built by each of the four constructors, referenced BY NAME (mutation sweep, `register`)
  Client code builds a named type with `TypeCheck::new` (no predicate, indirect objects allowed), `new_refined`
  (a predicate), `new_indirect` (an indirect requirement) or `new_all` (both); the harness picks the constructor
  the same way (tc_common.rs `construct`).  A type is only found through `TypeCheck::Named` if its constructor
  registered it, so every kind of type is referenced by name from every position a check can occur in. -/

def kindAttrs : List Attr :=
  [dA, ⟨some .always, .allowed⟩, ⟨some (.choice [nmA, .int 1]), .allowed⟩, ⟨none, .required⟩, ⟨none, .forbidden⟩,
   ⟨some .always, .required⟩, ⟨some (.choice [nmA, .int 1]), .forbidden⟩]

def kindBodies (a : Attr) : List Chk :=
  [.prim a .name, .any a, .dict a (chkLOfList [(kA, .required, uI)]), .array a uI none,
   .disj a (mkAlts [uI, .prim dA .name])]

/-- the positions from which the type "tk" is referenced by name -/
def kindRefs : List Chk :=
  let t : Chk := .named "tk"
  [t, .dict dA (chkLOfList [(kB, .required, t)]), .array dA t none, .het dA (mkAlts [uS, t]),
   .disj dA (mkAlts [uS, t]), .dictStar dA (chkLOfList [(kA, .optional, uI)]) .optional t,
   .stream dA (chkLOfList [(kA, .required, t)]), .named "via"]

/-- every attribute kind x body x referencing position, with two objects fitted to the specification (the
    graph receives the indirect objects an indirect requirement needs) and one random object; one case in
    three registers a decoy under the same name FIRST (the later registration must win) -/
def genNamedKinds (tag : String) (seed : Nat) (emit : String → IO Unit) : IO Unit := do
  let mut r := Rng.mk' (seed + 4242)
  for a in kindAttrs do
    for body in kindBodies a do
      for ref in kindRefs do
        for j in [0, 1, 2] do
          let (dec, r1) := r.nat 3
          let ctx : Ctx := (if dec == 0 then [("tk", uS)] else []) ++
            [("t0", uI), ("tk", body), ("via", .dict dA (chkLOfList [(kC, .required, .named "tk")]))]
          if j < 2 then
            let (o, (g, r2)) := fit ctx 4 ref ([], r1)
            r := r2
            emit (sCase tag ctx g ref o)
          else
            let (o, r2) := genObj 2 r1
            r := r2
            emit (sCase tag ctx [((1, 0), nmA), ((2, 0), .int 1)] ref o)

end Driver.TCCodec
