import Driver.Common
/-!
  Restricted-view twins of case lines (shared by the drivers of C13 and C14; same design as the `vw`
  cases of Driver/C05.lean).

    vw <steps> <prehex> <sufhex> <original case>

  `<prehex> ++ window ++ <sufhex>` is ONE allocation; `<steps>` (comma-separated, each applied to the
  result of the previous one) restrict it to the window - the bytes the parser under test is to see:

    R<start>:<size>   RestrictView::new(start, size)         needs size ≤ |view| and start ≤ |view| - size
    F<start>          RestrictViewFrom::new(start)           needs start < |view|

  `<size>` is a number, or `n` / `n+<k>` where n is the window's length (for cases whose window only the
  harness knows: C13's `xz`, where the harness compresses the rows).

  The model of a case on a view is the model of the case on the window's bytes alone; that the
  ParseBuffer primitives on a view behave like those of a buffer holding a copy of the window is C17's
  theorem `Parsley.C17.view_refines_copy`.  Here only the bounds arithmetic of the two restrictions
  (transforms.rs) is evaluated, to make sure the steps select exactly the window.
-/
namespace Driver.ViewTwin
open Parsley

inductive VStep where
  | r (start size : Nat) (rel : Bool)   -- RestrictView::new(start, size [+ n])
  | f (start : Nat)                     -- RestrictViewFrom::new(start)

def showStep : VStep → String
  | .r a b false => s!"R{a}:{b}"
  | .r a 0 true => s!"R{a}:n"
  | .r a b true => s!"R{a}:n+{b}"
  | .f a => s!"F{a}"

def parseSize (s : String) : Option (Nat × Bool) :=
  if s == "n" then some (0, true)
  else if s.startsWith "n+" then (s.drop 2).toString.toNat?.map fun k => (k, true)
  else s.toNat?.map fun k => (k, false)

def parseStep (s : String) : Option VStep :=
  match s.toList with
  | 'R' :: t =>
    match (String.ofList t).splitOn ":" with
    | [a, b] => match a.toNat?, parseSize b with | some a, some (b, rel) => some (.r a b rel) | _, _ => none
    | _ => none
  | 'F' :: t => (String.ofList t).toNat?.map .f
  | _ => none

def parseSteps (s : String) : Option (List VStep) := (s.splitOn ",").mapM parseStep
def showSteps (l : List VStep) : String := ",".intercalate (l.map showStep)

/-- the window (start, size) of the allocation that a chain of restrictions selects (`n` = the window
    length the relative sizes refer to), `none` when a step is refused -/
def applySteps (n : Nat) : List VStep → Nat × Nat → Option (Nat × Nat)
  | [], w => some w
  | .r a b rel :: t, (st, sz) =>
    let b := if rel then b + n else b
    if b ≤ sz && a ≤ sz - b then applySteps n t (st + a, b) else none
  | .f a :: t, (st, sz) => if a < sz then applySteps n t (st + a, sz - a) else none

/-- `none`: the steps select exactly the window of length `n` behind `pre` bytes, `suf` bytes following -/
def viewFaultN (steps : List VStep) (pre n suf : Nat) : Option String :=
  match applySteps n steps (0, pre + n + suf) with
  | none => some "view-error"
  | some (st, sz) => if st == pre && sz == n then none else some "view-mismatch"

def viewFault (steps : List VStep) (pre buf suf : Bytes) : Option String :=
  viewFaultN steps pre.length buf.length suf.length

/-- bytes in front of the window, cycled with period 16 -/
def prefLens : List Nat := [1, 7, 11, 2, 7, 11, 1, 0, 13, 1000, 1, 7, 11, 64, 5, 3]

/-- `p` bytes of junk for case number `c`: a rotation of `text` or random bytes (alternating in such a way
    that every prefix length of the 16-cycle gets both) -/
def prefixJunk (text : Bytes) (p c : Nat) : Bytes :=
  if (c + c / 16) % 2 == 0 && !text.isEmpty then (List.range p).map fun i => text[(i + c / 2) % text.length]?.getD 37
  else (Rng.bytes p (Rng.mk' (c + 1))).1

/-- the chains of restrictions, cycled with period 7: RestrictView; RestrictViewFrom (nothing behind
    the window); From then View; View then View with junk on both sides of the inner window; View
    then From; a View starting at 0 then From; three deep.  `p` bytes in front, window `n` (0 and
    `rel` when only the harness knows it), `s` bytes behind. -/
def viewSteps (shape p n s : Nat) (rel : Bool := false) : List VStep :=
  let p1 := p / 2
  let s1 := s / 2
  match shape % 7 with
  | 0 => [.r p n rel]
  | 1 => [.f p]
  | 2 => [.f p1, .r (p - p1) n rel]
  | 3 => [.r p1 ((p - p1) + n + s1) rel, .r (p - p1) n rel]
  | 4 => [.r p1 ((p - p1) + n) rel, .f (p - p1)]
  | 5 => [.r 0 (p + n) rel, .f p]
  | _ => [.r (p / 3) ((p - p / 3) + n + s1) rel, .f (p / 3), .r (p - 2 * (p / 3)) n rel]

/-- shapes that end in a RestrictViewFrom select everything up to the end of the enclosing view:
    nothing may lie behind the window (shape 1), and an EMPTY window cannot be selected by them -/
def shapeNoSuffix (shape : Nat) : Bool := shape % 7 == 1

/-- the `vw` line of `line` whose window is `buf`: `p` = prefLens[c % 16], chain = c % 7; falls back to
    a single RestrictView when the chain would be refused (empty window behind a From) -/
def wrap (c : Nat) (junk : Bytes) (buf suf : Bytes) (line : String) : String :=
  let p := prefLens[c % 16]?.getD 1
  let shape := c % 7
  let suf := if shapeNoSuffix shape then [] else suf
  let pre := prefixJunk junk p c
  let steps := viewSteps shape p buf.length suf.length
  let steps := if (viewFault steps pre buf suf).isNone then steps else [.r p buf.length false]
  s!"vw {showSteps steps} {hexOfBytes pre} {hexOfBytes suf} {line}"

/-- the same for a window whose length (at least 1) only the harness knows -/
def wrapRel (c : Nat) (junk : Bytes) (suf : Bytes) (line : String) : String :=
  let p := prefLens[c % 16]?.getD 1
  let shape := c % 7
  let suf := if shapeNoSuffix shape then [] else suf
  let pre := prefixJunk junk p c
  s!"vw {showSteps (viewSteps shape p 0 suf.length true)} {hexOfBytes pre} {hexOfBytes suf} {line}"

/-- `vw <steps> <pre> <suf> <rest of the line>` (fields separated by single blanks) -/
def splitVw (line : String) : Option (String × String × String × String) :=
  match line.splitOn " " with
  | "vw" :: steps :: pre :: suf :: rest => some (steps, pre, suf, " ".intercalate rest)
  | _ => none

/-- class word of a verdict on a view: `bad <class> …` becomes `bad view-<class> …` -/
def viewVerdict (v : String) : String :=
  if v.startsWith "bad " then s!"bad view-{(v.drop 4).toString}" else v

end Driver.ViewTwin
