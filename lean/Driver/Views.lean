import Driver.Common
/-!
  Restricted views for the correspondence runs (shared by the drivers of C02, C06, C12, C20; C05 carries
  its own copy of the same design).

  view variant of a case:  `vw <steps> <prehex> <sufhex> <original case>`
    `<prehex> ++ <window> ++ <sufhex>` is ONE allocation; `<steps>` (comma-separated, applied in order,
    each to the result of the previous one: `R<start>:<size>` = RestrictView::new(start, size),
    `F<start>` = RestrictViewFrom::new(start)) restrict it to a view showing exactly the window (the
    bytes the original case would put into a plain `ParseBuffer::new`).  The parser under test runs on
    that view.  What is expected is what is expected of the window's bytes as a buffer of their own:
    every offset, span and cursor is a cursor of the view, nothing outside the window is read.  That a
    `ParseBuffer` view behaves like a buffer holding a copy of its window is C17's theorem
    `Parsley.C17.view_refines_copy`; so: model of a view = model of its window, and the oracle is
    computed from the window alone.
-/
namespace Driver.Views
open Parsley

inductive VStep where
  | r (start size : Nat)   -- RestrictView::new(start, size)
  | f (start : Nat)        -- RestrictViewFrom::new(start)

def showStep : VStep → String
  | .r a b => s!"R{a}:{b}"
  | .f a => s!"F{a}"

def parseStep (s : String) : Option VStep :=
  match s.toList with
  | 'R' :: t =>
    match (String.ofList t).splitOn ":" with
    | [a, b] => match a.toNat?, b.toNat? with | some a, some b => some (.r a b) | _, _ => none
    | _ => none
  | 'F' :: t => (String.ofList t).toNat?.map .f
  | _ => none

def parseSteps (s : String) : Option (List VStep) := (s.splitOn ",").mapM parseStep
def showSteps (l : List VStep) : String := ",".intercalate (l.map showStep)

/-- the window (start, size) of the allocation that a chain of restrictions selects, `none` when a
    step is refused: RestrictView(a, b) needs `a + b ≤ size`, RestrictViewFrom(a) needs `a < size` -/
def applySteps : List VStep → Nat × Nat → Option (Nat × Nat)
  | [], w => some w
  | .r a b :: t, (st, sz) => if b ≤ sz && a ≤ sz - b then applySteps t (st + a, b) else none
  | .f a :: t, (st, sz) => if a < sz then applySteps t (st + a, sz - a) else none

/-- `none`: the steps select exactly the window of `n` bytes behind `p` bytes, in front of `s` bytes -/
def viewFault (steps : List VStep) (p n s : Nat) : Option String :=
  match applySteps steps (0, p + n + s) with
  | none => some "view-error"
  | some (st, sz) => if st == p && sz == n then none else some "view-mismatch"

def hexOrDash (b : Bytes) : String := if b.isEmpty then "-" else hexOfBytes b

/-- numbers of bytes in front of the window, cycled with period 16 -/
def prefLens : List Nat := [1, 7, 11, 2, 7, 11, 1, 0, 13, 1000, 1, 7, 11, 64, 5, 3]

/-- the chains of restrictions, cycled with period 7: RestrictView; RestrictViewFrom (nothing behind the
    window); From then View; View then View with junk on both sides of the inner window; View then From;
    a View starting at 0 then From; three deep -/
def viewSteps (shape p n s : Nat) : List VStep :=
  let p1 := p / 2
  let s1 := s / 2
  match shape % 7 with
  | 0 => [.r p n]
  | 1 => [.f p]
  | 2 => [.f p1, .r (p - p1) n]
  | 3 => [.r p1 ((p - p1) + n + s1), .r (p - p1) n]
  | 4 => [.r p1 ((p - p1) + n), .f (p - p1)]
  | 5 => [.r 0 (p + n), .f p]
  | _ => [.r (p / 3) ((p - p / 3) + n + s1), .f (p / 3), .r (p - 2 * (p / 3)) n]

/-- bytes in front of the window: `text` cycled from a moving offset (even `c`), or random bytes -/
def prefixJunk (text : Bytes) (p c : Nat) : Bytes :=
  if c % 2 == 0 then (List.range p).map fun i => text[(i + c / 2) % text.length]?.getD 37
  else (Rng.bytes p (Rng.mk' (c + 1))).1

/-- the view variant number `c` of a case line whose window has `n` bytes: prefix length `c % 16`, chain
    `c % 7` (periods coprime to whatever the caller cycles its suffixes with, if that is odd and not 7) -/
def viewLine (c : Nat) (line : String) (n : Nat) (junk : Bytes) (suf : Bytes) : String :=
  let p := prefLens[c % 16]?.getD 1
  let shape := c % 7
  let suf : Bytes := if shape == 1 then [] else suf
  let pre := prefixJunk junk p c
  let steps := viewSteps shape p n suf.length
  let steps := if (viewFault steps p n suf.length).isNone then steps else [.r p n]
  s!"vw {showSteps steps} {hexOrDash pre} {hexOrDash suf} {line}"

/-- the three outcomes of reading a case line -/
inductive Split where
  | plain (line : String)
  | view (inner : String)
  | fault (msg : String)

/-- `win`: the window's bytes, read off the words of the inner case -/
def split (win : List String → Option Bytes) (line : String) : Split :=
  match words line with
  | "vw" :: steps :: pre :: suf :: rest =>
    match parseSteps steps, bytesOfHex pre, bytesOfHex suf, win rest with
    | some st, some pre, some suf, some buf =>
      match viewFault st pre.length buf.length suf.length with
      | some f => .fault f
      | none => .view (" ".intercalate rest)
    | _, _, _, _ => .fault "bad-case"
  | _ => .plain line

/-- a view is modelled by its window -/
def model (win : List String → Option Bytes) (plain : String → String) (line : String) : String :=
  match split win line with
  | .plain l => plain l
  | .view l => plain l
  | .fault f => f

/-- A case on a restricted view is judged as the case on the window's bytes; the bytes in front of the
    window and behind it, and where the window lies in the allocation, do not enter the expectation.
    Classes of rejected view cases carry the prefix `view-`. -/
def judge (win : List String → Option Bytes) (plain : String → String → String) (case impl : String) : String :=
  match split win case with
  | .plain l => plain l impl
  | .fault f => if f == "bad-case" then "bad-case" else s!"bad desc-mismatch the steps do not select the window ({f})"
  | .view l =>
    let t := impl.trimAscii.toString
    if t == "view-error" || t == "view-mismatch" then s!"bad view {t}: the restriction does not show the window's bytes"
    else
      match plain l impl with
      | "ok" => "ok"
      | v => if v.startsWith "bad " then s!"bad view-{(v.toList.drop 4 |> String.ofList)}" else v

/-- a case on a view is non-trivial when the case is, and there are bytes in front of the window or behind it -/
def nontrivial (plain : String → Bool) (line : String) : Bool :=
  match words line with
  | "vw" :: _ :: pre :: suf :: rest => plain (" ".intercalate rest) && (pre != "-" || suf != "-")
  | _ => plain line

end Driver.Views
