-- Root of the library: every property file (they import their models/specs).
import Parsley.Props.C19
