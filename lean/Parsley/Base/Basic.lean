/-
  Base definitions shared by every model: byte strings, the result type that
  mirrors `ParseResult` plus an explicit `panic` outcome for every Rust partial
  operation, located values, and the parser-model type.
  Import-free (core only) so that the driver links as a `lean_exe`.
-/
namespace Parsley

abbrev Bytes := List UInt8

/-- The constructors of the Rust `ErrorKind` (message payloads dropped). -/
inductive ErrK where
  | eob | ctx | bounds | prim | guard | transform
deriving DecidableEq, Repr, Inhabited

def ErrK.toString : ErrK → String
  | .eob => "eob" | .ctx => "ctx" | .bounds => "bounds"
  | .prim => "prim" | .guard => "guard" | .transform => "transform"

instance : ToString ErrK := ⟨ErrK.toString⟩

/-- Outcome of a modelled Rust computation.  `panic site` stands for an
    `assert!`, `unwrap`, index, arithmetic-overflow or `unreachable!` firing. -/
inductive Res (α : Type) where
  | ok (v : α)
  | err (k : ErrK)
  | panic (site : String)
deriving Repr, DecidableEq

instance [Inhabited α] : Inhabited (Res α) := ⟨.err .eob⟩

namespace Res
def map (f : α → β) : Res α → Res β
  | ok v => ok (f v) | err k => err k | panic s => panic s
def bind (r : Res α) (f : α → Res β) : Res β :=
  match r with | ok v => f v | err k => err k | panic s => panic s
def isOk : Res α → Bool | ok _ => true | _ => false
def isPanic : Res α → Bool | panic _ => true | _ => false
instance : Monad Res where
  pure := ok
  bind := bind
end Res

/-- `LocatedVal<T>`: a value with the span `[start, stop)` it was parsed from
    (view-relative offsets). -/
structure Located (α : Type) where
  val : α
  start : Nat
  stop : Nat
deriving Repr, DecidableEq

/-- A parser model: buffer contents, cursor ↦ result **and** cursor afterwards
    (also on failure – several properties are about exactly that). -/
abbrev P (α : Type) := Bytes → Nat → Res (Located α) × Nat

/-- `&buf[i..]` -/
def rest (s : Bytes) (i : Nat) : Bytes := s.drop i

end Parsley
