/-
  Text codecs for the line protocol (hex, decimal), a xorshift64* PRNG.
  Nothing here is property-relevant; it is exercised by the correspondence run.
-/
import Parsley.Base.Basic
namespace Parsley

def hexDigit (n : Nat) : Char :=
  if n < 10 then Char.ofNat (48 + n) else Char.ofNat (87 + n)

def hexOfBytes (bs : Bytes) : String :=
  if bs.isEmpty then "-" else
  String.ofList (bs.flatMap fun b => [hexDigit (b.toNat / 16), hexDigit (b.toNat % 16)])

def hexVal (c : Char) : Option Nat :=
  if '0' ≤ c ∧ c ≤ '9' then some (c.toNat - 48)
  else if 'a' ≤ c ∧ c ≤ 'f' then some (c.toNat - 87)
  else if 'A' ≤ c ∧ c ≤ 'F' then some (c.toNat - 55)
  else none

def bytesOfHexAux : List Char → Bytes → Option Bytes
  | [], acc => some acc.reverse
  | [_], _ => none
  | a :: b :: t, acc =>
    match hexVal a, hexVal b with
    | some x, some y => bytesOfHexAux t (UInt8.ofNat (x * 16 + y) :: acc)
    | _, _ => none

def bytesOfHex (s : String) : Option Bytes :=
  if s == "-" then some [] else bytesOfHexAux s.toList []

def strBytes (s : String) : Bytes := s.toUTF8.toList

/-- xorshift64* -/
structure Rng where
  s : UInt64
deriving Inhabited

def Rng.mk' (seed : Nat) : Rng :=
  let z := UInt64.ofNat (seed * 2654435761 + 88172645463325252)
  ⟨if z == 0 then 88172645463325252 else z⟩

def Rng.next (r : Rng) : UInt64 × Rng :=
  let x := r.s
  let x := x ^^^ (x >>> 12)
  let x := x ^^^ (x <<< 25)
  let x := x ^^^ (x >>> 27)
  (x * 2685821657736338717, ⟨x⟩)

def Rng.nat (r : Rng) (bound : Nat) : Nat × Rng :=
  let (v, r) := r.next
  (if bound == 0 then 0 else (v >>> 11).toNat % bound, r)

def Rng.byte (r : Rng) : UInt8 × Rng :=
  let (v, r) := r.nat 256
  (UInt8.ofNat v, r)

def Rng.bytes : Nat → Rng → Bytes × Rng
  | 0, r => ([], r)
  | n+1, r =>
    let (b, r) := r.byte
    let (bs, r) := Rng.bytes n r
    (b :: bs, r)

def Rng.pick [Inhabited α] (r : Rng) (l : List α) : α × Rng :=
  let (i, r) := r.nat l.length
  (l[i]?.getD default, r)

def words (line : String) : List String :=
  (line.trimAscii.toString.splitOn " ").filter (· ≠ "")

end Parsley
