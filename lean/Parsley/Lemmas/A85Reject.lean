/-
  C06, ASCII85 rejection side: what the model of the repaired `ASCII85Decode::transform`
  (staging loop + `ascii85::decode` under `catch_unwind`) REJECTS, for all inputs, and, stated just
  as exactly, where it is more lenient than ISO 32000-1 7.4.3.
  Helpers live in `Parsley.C06.A85R`; the results are in `Parsley.C06`:
  `a85Decode_cases`, `a85_illegal_char_any`, `a85_uniws_interior`, `a85Crate_leading_uniws`,
  `a85_stray_tilde`, `a85_z_inside_group`, `a85_z_inside_group_spec`, `a85_group_overflow`,
  `a85_single_digit_final`; bundled as `a85_corrupt_is_error` in Props/C06.lean.
  Leniencies of the real code stated exactly (the correspondence run has corpus cases for each):
  a lone final digit `!`..`r` is dropped silently (`s`,`t`,`u` rejected); VT / U+0085 / U+00A0 are
  trimmed at either end of the staged text and rejected inside; bytes after `~>` are still examined;
  a missing EOD, a leading `<~`, a repeated `~>` are accepted.  Core only: `omega`, `simp`, `decide`.
-/
import Parsley.Model.Filters
import Parsley.Spec.Filters
import Parsley.Lemmas.FiltersA85
namespace Parsley.C06.A85R
open Parsley Parsley.Filters Parsley.FiltersSpec Parsley.C06.A85

theorem forall_u8 (P : UInt8 → Prop) (h : ∀ n : Fin 256, P (UInt8.ofNat n.val)) : ∀ b, P b := by
  intro b; have := h ⟨b.toNat, b.toNat_lt⟩; simpa using this

/-- a result that is not `.ok` (an error or a panic) -/
def Bad {α : Type} (r : Res α) : Prop := ∀ v, r ≠ .ok v

theorem bad_err {α : Type} (k : ErrK) : Bad (Res.err k : Res α) := fun _ h => by cases h
theorem bad_panic {α : Type} (m : String) : Bad (Res.panic m : Res α) := fun _ h => by cases h

/-! ### L1, L2: the digit loop -/

theorem decodeDigit_no_err (d : UInt8) (s : A85St) (k : ErrK) : decodeDigit d s ≠ .err k := by
  unfold decodeDigit
  simp only
  split
  · simp
  · split
    · simp
    · split <;> simp

/-- a byte the digit loop rejects -/
def Illegal (d : UInt8) : Prop := d.toNat < 33 ∨ d.toNat > 117

theorem illegal_iff (d : UInt8) : Illegal d ↔ (d < 33 || d > 117) = true := by
  simp [Illegal, UInt8.lt_iff_toNat_lt]

/-- (L1) one illegal byte anywhere makes the loop fail, whatever the state -/
theorem loop_bad_mem : ∀ (s : Bytes) (st : A85St), (∃ d ∈ s, Illegal d) → Bad (a85Loop s st)
  | [], _, h => by simp at h
  | d :: t, st, h => by
    intro v
    rw [a85Loop]
    by_cases hz : (d == 0x7A) = true
    · simp [hz]
    · by_cases hr : (d < 33 || d > 117) = true
      · simp [hr]
      · simp only [hz, hr, Bool.false_eq_true, if_false]
        have ht : ∃ x ∈ t, Illegal x := by
          obtain ⟨x, hx, hi⟩ := h
          rcases List.mem_cons.mp hx with rfl | hx
          · exact absurd ((illegal_iff _).mp hi) hr
          · exact ⟨x, hx, hi⟩
        cases hd : decodeDigit d st with
        | ok s' => exact loop_bad_mem t s' ht v
        | err k => simp
        | panic m => simp

/-- (L2) the loop over a concatenation -/
theorem loop_append : ∀ (L R : Bytes) (st : A85St),
    a85Loop (L ++ R) st =
      match a85Loop L st with
      | .ok s => a85Loop R s
      | .err k => .err k
      | .panic m => .panic m
  | [], R, st => by simp [a85Loop]
  | d :: t, R, st => by
    rw [List.cons_append, a85Loop, a85Loop]
    by_cases hz : (d == 0x7A) = true
    · simp [hz]
    · by_cases hr : (d < 33 || d > 117) = true
      · simp [hr]
      · simp only [hz, hr, Bool.false_eq_true, if_false]
        cases hd : decodeDigit d st with
        | ok s' => exact loop_append t R s'
        | err k => rfl
        | panic m => rfl

theorem loop_bad_append (L R : Bytes) (st : A85St) (h : Bad (a85Loop L st)) : Bad (a85Loop (L ++ R) st) := by
  rw [loop_append]
  cases hl : a85Loop L st with
  | ok s => exact absurd hl (h s)
  | err k => exact bad_err k
  | panic m => exact bad_panic m

theorem loop_err_kind : ∀ (s : Bytes) (st : A85St) (k : ErrK), a85Loop s st = .err k → k = .transform
  | [], _, _, h => by simp [a85Loop] at h
  | d :: t, st, k, h => by
    rw [a85Loop] at h
    by_cases hz : (d == 0x7A) = true
    · simp [hz] at h; exact h.symm
    · by_cases hr : (d < 33 || d > 117) = true
      · simp [hr] at h; exact h.symm
      · simp only [hz, hr, Bool.false_eq_true, if_false] at h
        cases hd : decodeDigit d st with
        | ok s' => rw [hd] at h; exact loop_err_kind t s' k h
        | err k' => exact absurd hd (decodeDigit_no_err _ _ _)
        | panic m => rw [hd] at h; cases h

theorem pad_no_err : ∀ (f : Nat) (s : A85St) (rm : Nat) (k : ErrK), a85Pad f s rm ≠ .err k
  | 0, s, rm, k => by rw [a85Pad]; split <;> simp
  | f + 1, s, rm, k => by
    rw [a85Pad]
    split
    · simp
    · cases hd : decodeDigit 0x75 s with
      | ok s' => exact pad_no_err f s' (rm + 1) k
      | err k' => exact absurd hd (decodeDigit_no_err _ _ _)
      | panic m => simp

theorem run_err_kind (s : Bytes) (st : A85St) (k : ErrK) (h : run s st = .err k) : k = .transform := by
  unfold run at h
  cases hl : a85Loop s st with
  | err k' => rw [hl] at h; cases h; exact loop_err_kind _ _ _ hl
  | panic m => rw [hl] at h; cases h
  | ok st' =>
    rw [hl] at h
    simp only at h
    cases hp : a85Pad 5 st' 0 with
    | err k' => exact absurd hp (pad_no_err _ _ _ _)
    | panic m => rw [hp] at h; cases h
    | ok v =>
      rw [hp] at h
      obtain ⟨st'', rm⟩ := v
      simp only at h
      split at h <;> cases h

theorem run_bad_of_loop (s : Bytes) (st : A85St) (h : Bad (a85Loop s st)) : Bad (run s st) := by
  unfold run
  cases hl : a85Loop s st with
  | ok s' => exact absurd hl (h s')
  | err k => exact bad_err k
  | panic m => exact bad_panic m

theorem crate_err_kind (S : Bytes) (k : ErrK) (h : a85Crate S = .err k) : k = .transform := by
  rw [crate_run] at h; exact run_err_kind _ _ _ h

/-- what the glue makes of a crate result -/
theorem decode_of_stage {x S : Bytes} (hs : a85Stage x [] 0 = .ok S) :
    a85Decode x = match a85Crate S with
      | .ok out => .ok out
      | .err k => .err k
      | .panic _ => .err .transform := by
  unfold a85Decode; simp only [hs]; cases a85Crate S <;> rfl

theorem decode_bad {x S : Bytes} (hs : a85Stage x [] 0 = .ok S) (hb : Bad (a85Crate S)) :
    a85Decode x = .err .transform := by
  rw [decode_of_stage hs]
  cases hc : a85Crate S with
  | ok out => exact absurd hc (hb out)
  | err k => rw [crate_err_kind S k hc]
  | panic m => rfl

theorem decode_stage_err {x : Bytes} (hs : a85Stage x [] 0 = .err .transform) :
    a85Decode x = .err .transform := by
  unfold a85Decode; rw [hs]

end Parsley.C06.A85R

namespace Parsley.C06
open Parsley Parsley.Filters Parsley.FiltersSpec Parsley.C06.A85

/-- the group position the staging loop is in after `pre`, started at `g`: white space and `z`
    keep it, `~` resets it, any other byte advances it modulo 5 -/
def groupPos : Nat → Bytes → Nat
  | g, [] => g
  | g, b :: t =>
    if Filters.isWs b then groupPos g t
    else if b == 0x7A then groupPos g t
    else if b == 0x7E then groupPos 0 t
    else groupPos ((g + 1) % 5) t

/-- `A85Whole payload text`: complete groups only (`z` or five digits), no final partial group -/
inductive A85Whole : Bytes → Bytes → Prop
  | nil : A85Whole [] []
  | z {p s : Bytes} : A85Whole p s → A85Whole (0 :: 0 :: 0 :: 0 :: p) (0x7A :: s)
  | full {a b c d : UInt8} {p s : Bytes} :
      A85Whole p s → A85Whole (a :: b :: c :: d :: p) (digits5 (be32 a b c d) ++ s)

end Parsley.C06

namespace Parsley.C06.A85R
open Parsley Parsley.Filters Parsley.FiltersSpec Parsley.C06.A85

/-! ### L3: the staging loop -/

theorem expand_append (a b : Bytes) : expand (a ++ b) = expand a ++ expand b := by
  induction a with
  | nil => rfl
  | cons x t ih => simp only [List.cons_append, expand]; split <;> simp [ih]

theorem strip_append (a b : Bytes) : strip (a ++ b) = strip a ++ strip b := by
  simp [strip]

theorem strip_cons_ws {b : UInt8} (t : Bytes) (h : Filters.isWs b = true) : strip (b :: t) = strip t := by
  have h' : FiltersSpec.isWs b = true := h
  simp [strip, h']

theorem strip_cons_nws {b : UInt8} (t : Bytes) (h : Filters.isWs b = false) : strip (b :: t) = b :: strip t := by
  have h' : FiltersSpec.isWs b = false := h
  simp [strip, h']

theorem expand_cons_nz {b : UInt8} (t : Bytes) (h : (b == 0x7A) = false) : expand (b :: t) = b :: expand t := by
  simp [expand, h]

/-- (L3) staging fails only with a `TransformError` (a misaligned `z`), and otherwise delivers the
    white-space-free text with every `z` written out -/
theorem stage_cases : ∀ (c st : Bytes) (g : Nat),
    a85Stage c st g = .err .transform ∨ a85Stage c st g = .ok (st.reverse ++ expand (strip c))
  | [], st, g => by right; simp [a85Stage, strip, expand]
  | b :: t, st, g => by
    rw [a85Stage]
    cases hw : Filters.isWs b
    · simp only [Bool.false_eq_true, if_false]
      rw [strip_cons_nws t hw]
      cases hz : (b == 0x7A)
      · simp only [Bool.false_eq_true, if_false]
        rw [expand_cons_nz _ hz]
        cases ht : (b == 0x7E)
        · simp only [Bool.false_eq_true, if_false]
          rcases stage_cases t (b :: st) ((g + 1) % 5) with h | h
          · exact .inl h
          · right; rw [h]; simp
        · simp only [if_true]
          rcases stage_cases t (0x7E :: st) 0 with h | h
          · exact .inl h
          · right; rw [h]; simp at ht; simp [ht]
      · simp only [if_true]
        simp only [beq_iff_eq] at hz
        subst hz
        rw [expand_z]
        by_cases hg : (g != 0) = true
        · simp [hg]
        · simp only [hg, Bool.false_eq_true, if_false]
          rcases stage_cases t (0x21 :: 0x21 :: 0x21 :: 0x21 :: 0x21 :: st) g with h | h
          · exact .inl h
          · right; rw [h]; simp
    · simp only [if_true]
      rw [strip_cons_ws t hw]
      exact stage_cases t st g

/-- staging across a prefix: it fails, or arrives at the rest in the group position `groupPos` computes -/
theorem stage_pre : ∀ (pre t st : Bytes) (g : Nat),
    a85Stage (pre ++ t) st g = .err .transform ∨
      ∃ st', a85Stage (pre ++ t) st g = a85Stage t st' (groupPos g pre)
  | [], t, st, g => .inr ⟨st, rfl⟩
  | b :: pre, t, st, g => by
    rw [List.cons_append, a85Stage, groupPos]
    cases hw : Filters.isWs b
    · simp only [Bool.false_eq_true, if_false]
      cases hz : (b == 0x7A)
      · simp only [Bool.false_eq_true, if_false]
        cases ht : (b == 0x7E)
        · simp only [Bool.false_eq_true, if_false]
          exact stage_pre pre t _ _
        · simp only [if_true]
          exact stage_pre pre t _ _
      · simp only [if_true]
        by_cases hg : (g != 0) = true
        · simp [hg]
        · simp only [hg, Bool.false_eq_true, if_false]
          exact stage_pre pre t _ _
    · simp only [if_true]
      exact stage_pre pre t _ _

end Parsley.C06.A85R

namespace Parsley.C06
open Parsley Parsley.Filters Parsley.FiltersSpec Parsley.C06.A85 Parsley.C06.A85R

/-- (L4) the repaired glue never panics and never reports anything but a `TransformError` -/
theorem a85Decode_cases (x : Bytes) : (∃ out, a85Decode x = .ok out) ∨ a85Decode x = .err .transform := by
  rcases stage_cases x [] 0 with h | h
  · exact .inr (decode_stage_err h)
  · rw [decode_of_stage h]
    cases hc : a85Crate ([].reverse ++ expand (strip x)) with
    | ok out => exact .inl ⟨out, rfl⟩
    | err k => right; rw [crate_err_kind _ k hc]
    | panic m => exact .inr rfl

example : a85Decode [0x38, 0x37, 0x63, 0x55, 0x52, 0x7E, 0x3E] = .ok [0x48, 0x65, 0x6C, 0x6C] := by decide
example : a85Decode [0x75, 0x75, 0x75, 0x75, 0x75, 0x7E, 0x3E] = .err .transform := by decide

end Parsley.C06

namespace Parsley.C06.A85R
open Parsley Parsley.Filters Parsley.FiltersSpec Parsley.C06.A85

/-! ### the four trims of `ascii85::decode` keep a marked byte -/

theorem dw_keep (p : UInt8 → Bool) (c : UInt8) (B : Bytes) : ∀ (A : Bytes),
    (p c = false ∨ ∃ x ∈ A, p x = false) →
      ∃ A0 A', A = A0 ++ A' ∧ (A ++ c :: B).dropWhile p = A' ++ c :: B
  | [], h => by
    have hc : p c = false := by
      rcases h with h | ⟨x, hx, _⟩
      · exact h
      · simp at hx
    exact ⟨[], [], rfl, by simp [hc]⟩
  | a :: A, h => by
    cases ha : p a
    · exact ⟨[], a :: A, rfl, by simp [ha]⟩
    · have h' : p c = false ∨ ∃ x ∈ A, p x = false := by
        rcases h with h | ⟨x, hx, hp⟩
        · exact .inl h
        · rcases List.mem_cons.mp hx with rfl | hx
          · rw [ha] at hp; cases hp
          · exact .inr ⟨x, hx, hp⟩
      obtain ⟨A0, A', e, h2⟩ := dw_keep p c B A h'
      refine ⟨a :: A0, A', by rw [e]; rfl, ?_⟩
      rw [List.cons_append, List.dropWhile_cons, ha]
      simpa using h2

theorem trimLt_keep (c : UInt8) (B : Bytes) (hc : c ≠ 0x3C) : ∀ (A : Bytes),
    (c ≠ 0x7E ∨ A.getLast? ≠ some 0x3C) →
      ∃ A0 A', A = A0 ++ A' ∧ trimLt (A ++ c :: B) = A' ++ c :: B
  | [], _ => by
    refine ⟨[], [], rfl, ?_⟩
    cases B with
    | nil => rfl
    | cons b t => rw [List.nil_append, trimLt]; simp [hc]
  | [a], h => by
    refine ⟨[], [a], rfl, ?_⟩
    show trimLt (a :: c :: B) = _
    rw [trimLt]
    have : (a == 0x3C && c == 0x7E) = false := by
      rcases h with h | h
      · simp [h]
      · simp at h; simp [h]
    simp [this]
  | a :: b :: t, h => by
    show ∃ A0 A', _ ∧ trimLt (a :: b :: (t ++ c :: B)) = _
    rw [trimLt]
    by_cases hab : (a == 0x3C && b == 0x7E) = true
    · simp only [hab, if_true]
      have h' : c ≠ 0x7E ∨ t.getLast? ≠ some 0x3C := by
        rcases h with h | h
        · exact .inl h
        · right; intro ht; apply h
          cases t with
          | nil => simp at ht
          | cons x t' => simpa [List.getLast?_cons_cons] using ht
      obtain ⟨A0, A', e, h2⟩ := trimLt_keep c B hc t h'
      exact ⟨a :: b :: A0, A', by rw [e]; rfl, h2⟩
    · simp only [hab]; exact ⟨[], a :: b :: t, rfl, rfl⟩

theorem trimGtRev_keep (c : UInt8) (B : Bytes) (hc : c ≠ 0x3E) : ∀ (A : Bytes),
    (c ≠ 0x7E ∨ A.getLast? ≠ some 0x3E) →
      ∃ A0 A', A = A0 ++ A' ∧ trimGtRev (A ++ c :: B) = A' ++ c :: B
  | [], _ => by
    refine ⟨[], [], rfl, ?_⟩
    cases B with
    | nil => rfl
    | cons b t => rw [List.nil_append, trimGtRev]; simp [hc]
  | [a], h => by
    refine ⟨[], [a], rfl, ?_⟩
    show trimGtRev (a :: c :: B) = _
    rw [trimGtRev]
    have : (a == 0x3E && c == 0x7E) = false := by
      rcases h with h | h
      · simp [h]
      · simp at h; simp [h]
    simp [this]
  | a :: b :: t, h => by
    show ∃ A0 A', _ ∧ trimGtRev (a :: b :: (t ++ c :: B)) = _
    rw [trimGtRev]
    by_cases hab : (a == 0x3E && b == 0x7E) = true
    · simp only [hab, if_true]
      have h' : c ≠ 0x7E ∨ t.getLast? ≠ some 0x3E := by
        rcases h with h | h
        · exact .inl h
        · right; intro ht; apply h
          cases t with
          | nil => simp at ht
          | cons x t' => simpa [List.getLast?_cons_cons] using ht
      obtain ⟨A0, A', e, h2⟩ := trimGtRev_keep c B hc t h'
      exact ⟨a :: b :: A0, A', by rw [e]; rfl, h2⟩
    · simp only [hab]; exact ⟨[], a :: b :: t, rfl, rfl⟩

theorem getLast_suffix {A A0 A1 : Bytes} {y : UInt8} (e : A = A0 ++ A1) (h : A1.getLast? = some y) :
    A.getLast? = some y := by
  rw [e, List.getLast?_append, h]; rfl

theorem illegal_ne_lt {c : UInt8} (h : Illegal c) : c ≠ 0x3C := by
  rintro rfl; simp [Illegal] at h
theorem illegal_ne_gt {c : UInt8} (h : Illegal c) : c ≠ 0x3E := by
  rintro rfl; simp [Illegal] at h

/-- a byte the digit loop rejects, sitting in the stage where none of the four trims reaches it,
    makes `ascii85::decode` fail -/
theorem crate_keep (A B : Bytes) (c : UInt8) (hill : Illegal c)
    (hA : isUniWs c = false ∨ ∃ x ∈ A, isUniWs x = false)
    (hB : isUniWs c = false ∨ ∃ x ∈ B, isUniWs x = false)
    (hl : c ≠ 0x7E ∨ A.getLast? ≠ some 0x3C) (hr : c ≠ 0x7E ∨ B.head? ≠ some 0x3E)
    (hws : isAsciiWs c = false) : Bad (a85Crate (A ++ c :: B)) := by
  obtain ⟨A0, A1, eA, h1⟩ := dw_keep isUniWs c B A hA
  have hl1 : c ≠ 0x7E ∨ A1.getLast? ≠ some 0x3C := by
    rcases hl with h | h
    · exact .inl h
    · exact .inr fun h' => h (getLast_suffix eA h')
  obtain ⟨A0', A2, _, h2⟩ := trimLt_keep c B (illegal_ne_lt hill) A1 hl1
  have e3 : (A2 ++ c :: B).reverse = B.reverse ++ c :: A2.reverse := by simp
  have hB' : isUniWs c = false ∨ ∃ x ∈ B.reverse, isUniWs x = false := by
    rcases hB with h | ⟨x, hx, hu⟩
    · exact .inl h
    · exact .inr ⟨x, List.mem_reverse.mpr hx, hu⟩
  obtain ⟨X0, X1, eX, h3⟩ := dw_keep isUniWs c A2.reverse B.reverse hB'
  have hr1 : c ≠ 0x7E ∨ X1.getLast? ≠ some 0x3E := by
    rcases hr with h | h
    · exact .inl h
    · right; intro h'; apply h
      have := getLast_suffix eX h'
      rwa [List.getLast?_reverse] at this
  obtain ⟨X0', X2, _, h4⟩ := trimGtRev_keep c A2.reverse (illegal_ne_gt hill) X1 hr1
  rw [crate_run, h1, h2, e3, h3, h4]
  apply run_bad_of_loop
  apply loop_bad_mem
  exact ⟨c, by simp [hws], hill⟩

theorem ws_asciiws : ∀ b : UInt8, Filters.isWs b = false → isAsciiWs b = false :=
  forall_u8 _ (by decide +kernel)

theorem uniws_facts : ∀ b : UInt8, isUniWs b = true → Illegal b ∧ b ≠ 0x7A ∧ b ≠ 0x7E :=
  forall_u8 _ (by unfold Illegal; decide +kernel)

/-- a visible byte of the input leaves a byte that is not Unicode white space in the stage -/
theorem expand_strip_witness : ∀ (l : Bytes) (x : UInt8), x ∈ l → Filters.isWs x = false →
    isUniWs x = false → ∃ y ∈ expand (strip l), isUniWs y = false
  | [], _, hx, _, _ => by simp at hx
  | b :: t, x, hx, hw, hu => by
    rcases List.mem_cons.mp hx with rfl | hx
    · rw [strip_cons_nws _ hw]
      cases hz : (x == 0x7A)
      · rw [expand_cons_nz _ hz]; exact ⟨x, by simp, hu⟩
      · simp only [beq_iff_eq] at hz; subst hz; rw [expand_z]; exact ⟨0x21, by simp, by decide⟩
    · obtain ⟨y, hy, hyu⟩ := expand_strip_witness t x hx hw hu
      cases hb : Filters.isWs b
      · rw [strip_cons_nws _ hb]
        refine ⟨y, ?_, hyu⟩
        have : expand (b :: strip t) = expand [b] ++ expand (strip t) := expand_append [b] _
        rw [this]; exact List.mem_append_right _ hy
      · rw [strip_cons_ws _ hb]; exact ⟨y, hy, hyu⟩

theorem expand_getLast (l : Bytes) (h : (expand l).getLast? = some 0x3C) : l.getLast? = some 0x3C := by
  rcases List.eq_nil_or_concat l with rfl | ⟨q, y, rfl⟩
  · simp [expand] at h
  · rw [List.concat_eq_append] at h ⊢
    rw [expand_append] at h
    rw [List.getLast?_concat]
    cases hz : (y == 0x7A)
    · rw [expand_cons_nz _ hz] at h
      simpa [expand] using h
    · simp only [beq_iff_eq] at hz; subst hz
      rw [expand_z] at h
      simp [expand, List.getLast?_append] at h

theorem expand_head (l : Bytes) (h : (expand l).head? = some 0x3E) : l.head? = some 0x3E := by
  cases l with
  | nil => simp [expand] at h
  | cons y q =>
    cases hz : (y == 0x7A)
    · rw [expand_cons_nz _ hz] at h; simpa using h
    · simp only [beq_iff_eq] at hz; subst hz
      rw [expand_z] at h; simp at h

end Parsley.C06.A85R

namespace Parsley.C06
open Parsley Parsley.Filters Parsley.FiltersSpec Parsley.C06.A85 Parsley.C06.A85R

/-- (T1) a byte outside `!`..`u` that is neither white space (PDF's or the crate's), `z` nor `~`
    is an error wherever it stands — also after the EOD marker, where ISO 32000 would stop reading -/
theorem a85_illegal_char_any (pre rest : Bytes) (c : UInt8) (hill : c.toNat < 33 ∨ c.toNat > 117)
    (hz : c ≠ 0x7A) (hws : Filters.isWs c = false) (hu : isUniWs c = false) (ht : c ≠ 0x7E) :
    a85Decode (pre ++ c :: rest) = .err .transform := by
  rcases stage_cases (pre ++ c :: rest) [] 0 with h | h
  · exact decode_stage_err h
  · apply decode_bad h
    rw [strip_append, strip_cons_nws _ hws, expand_append, expand_cons_nz _ (by simpa using hz)]
    simp only [List.reverse_nil, List.nil_append]
    exact crate_keep _ _ c hill (.inl hu) (.inl hu) (.inl ht) (.inl ht) (ws_asciiws c hws)

-- non-vacuity: `{` (0x7B) and 0x01 satisfy the hypotheses; an instance after the EOD, executed
example : (0x7B : UInt8).toNat > 117 ∧ (0x7B : UInt8) ≠ 0x7A ∧ Filters.isWs 0x7B = false ∧
    isUniWs 0x7B = false ∧ (0x7B : UInt8) ≠ 0x7E := by decide
example : a85Decode [0x38, 0x37, 0x63, 0x55, 0x52, 0x7E, 0x3E, 0x7B] = .err .transform :=
  a85_illegal_char_any [0x38, 0x37, 0x63, 0x55, 0x52, 0x7E, 0x3E] [] 0x7B (by decide) (by decide) (by decide)
    (by decide) (by decide)
example : a85Decode [0x38, 0x37, 0x63, 0x55, 0x52, 0x7E, 0x3E, 0x7B] = .err .transform := by decide

/-- (T2) 0x0B, 0x85, 0xA0 — white space for the crate's `str::trim`, not for PDF — are skipped by
    nobody when they stand between two visible bytes: error -/
theorem a85_uniws_interior (pre rest : Bytes) (c : UInt8) (hu : isUniWs c = true) (hws : Filters.isWs c = false)
    (hpre : ∃ x ∈ pre, Filters.isWs x = false ∧ isUniWs x = false)
    (hrest : ∃ y ∈ rest, Filters.isWs y = false ∧ isUniWs y = false) :
    a85Decode (pre ++ c :: rest) = .err .transform := by
  obtain ⟨hill, hz, ht⟩ := uniws_facts c hu
  obtain ⟨x, hx, hxw, hxu⟩ := hpre
  obtain ⟨y, hy, hyw, hyu⟩ := hrest
  rcases stage_cases (pre ++ c :: rest) [] 0 with h | h
  · exact decode_stage_err h
  · apply decode_bad h
    rw [strip_append, strip_cons_nws _ hws, expand_append, expand_cons_nz _ (by simpa using hz)]
    simp only [List.reverse_nil, List.nil_append]
    exact crate_keep _ _ c hill (.inr (expand_strip_witness pre x hx hxw hxu))
      (.inr (expand_strip_witness rest y hy hyw hyu)) (.inl ht) (.inl ht) (ws_asciiws c hws)

-- non-vacuity: a vertical tab inside `87cUR~>`
example : a85Decode [0x38, 0x37, 0x0B, 0x63, 0x55, 0x52, 0x7E, 0x3E] = .err .transform :=
  a85_uniws_interior [0x38, 0x37] [0x63, 0x55, 0x52, 0x7E, 0x3E] 0x0B (by decide) (by decide)
    ⟨0x38, by decide, by decide⟩ ⟨0x63, by decide, by decide⟩

/-- the leniency, exactly: the crate drops any leading run of Unicode white space from the stage -/
theorem a85Crate_leading_uniws (u S : Bytes) (h : ∀ b ∈ u, isUniWs b = true) : a85Crate (u ++ S) = a85Crate S := by
  have e : (u ++ S).dropWhile isUniWs = S.dropWhile isUniWs := by
    induction u with
    | nil => rfl
    | cons a t ih =>
      rw [List.cons_append, List.dropWhile_cons, h a (by simp)]
      simpa using ih (fun b hb => h b (List.mem_cons_of_mem _ hb))
  rw [crate_run, crate_run, e]

example : a85Crate ([0x0B, 0x85, 0xA0] ++ [0x38, 0x37, 0x63, 0x55, 0x52, 0x7E, 0x3E]) =
    a85Crate [0x38, 0x37, 0x63, 0x55, 0x52, 0x7E, 0x3E] := a85Crate_leading_uniws _ _ (by decide)
-- leading and trailing vertical tab accepted (ISO 32000: not white space, not a digit)
example : a85Decode [0x0B, 0x38, 0x37, 0x63, 0x55, 0x52, 0x7E, 0x3E] = .ok [0x48, 0x65, 0x6C, 0x6C] := by decide
example : a85Decode [0x38, 0x37, 0x63, 0x55, 0x52, 0x7E, 0x3E, 0x0B] = .ok [0x48, 0x65, 0x6C, 0x6C] := by decide

/-- (T3) a `~` that neither follows a `<` nor precedes a `>` (white space looked through) is an error -/
theorem a85_stray_tilde (pre rest : Bytes) (hpre : (strip pre).getLast? ≠ some 0x3C)
    (hrest : (strip rest).head? ≠ some 0x3E) : a85Decode (pre ++ 0x7E :: rest) = .err .transform := by
  rcases stage_cases (pre ++ 0x7E :: rest) [] 0 with h | h
  · exact decode_stage_err h
  · apply decode_bad h
    rw [strip_append, strip_cons_nws _ (by decide), expand_append, expand_cons_nz _ (by decide)]
    simp only [List.reverse_nil, List.nil_append]
    exact crate_keep _ _ 0x7E (.inr (by decide)) (.inl (by decide)) (.inl (by decide))
      (.inr fun h' => hpre (expand_getLast _ h')) (.inr fun h' => hrest (expand_head _ h')) (by decide)

-- non-vacuity: `87~cUR~>`, and `87cUR~` (EOD cut short)
example : a85Decode [0x38, 0x37, 0x7E, 0x63, 0x55, 0x52, 0x7E, 0x3E] = .err .transform :=
  a85_stray_tilde [0x38, 0x37] [0x63, 0x55, 0x52, 0x7E, 0x3E] (by decide) (by decide)
example : a85Decode [0x38, 0x37, 0x63, 0x55, 0x52, 0x7E] = .err .transform :=
  a85_stray_tilde [0x38, 0x37, 0x63, 0x55, 0x52] [] (by decide) (by decide)
-- leniencies around the markers (executed): leading `<~` accepted, missing EOD accepted, `~>~>` accepted,
-- `<~` just before the EOD accepted (`87cUR<~>`: the `~>` is trimmed, `<` is a lone digit and dropped)
example : a85Decode [0x3C, 0x7E, 0x38, 0x37, 0x63, 0x55, 0x52, 0x7E, 0x3E] = .ok [0x48, 0x65, 0x6C, 0x6C] := by decide
example : a85Decode [0x38, 0x37, 0x63, 0x55, 0x52] = .ok [0x48, 0x65, 0x6C, 0x6C] := by decide
example : a85Decode [0x38, 0x37, 0x63, 0x55, 0x52, 0x7E, 0x3E, 0x7E, 0x3E] = .ok [0x48, 0x65, 0x6C, 0x6C] := by decide
example : a85Decode [0x38, 0x37, 0x63, 0x55, 0x52, 0x3C, 0x7E, 0x3E] = .ok [0x48, 0x65, 0x6C, 0x6C] := by decide

end Parsley.C06

namespace Parsley.C06.A85R
open Parsley Parsley.Filters Parsley.FiltersSpec Parsley.C06.A85

/-! ### the group position -/

theorem groupPos_ws {b : UInt8} (h : Filters.isWs b = true) (g : Nat) (t : Bytes) :
    groupPos g (b :: t) = groupPos g t := by
  rw [groupPos]; simp [h]

theorem groupPos_z (g : Nat) (t : Bytes) : groupPos g (0x7A :: t) = groupPos g t := by
  rw [groupPos]; simp [show Filters.isWs 0x7A = false by decide]

theorem groupPos_dig {d : UInt8} (h : IsDig d) (g : Nat) (t : Bytes) :
    groupPos g (d :: t) = groupPos ((g + 1) % 5) t := by
  rw [groupPos]; simp [dig_not_ws h, dig_ne_z h, dig_ne_tilde h]

theorem groupPos_strip : ∀ (l : Bytes) (g : Nat), groupPos g l = groupPos g (strip l)
  | [], _ => rfl
  | b :: t, g => by
    cases hw : Filters.isWs b
    · rw [strip_cons_nws _ hw, groupPos, groupPos]
      simp only [hw, Bool.false_eq_true, if_false]
      split
      · exact groupPos_strip t _
      · split <;> exact groupPos_strip t _
    · rw [strip_cons_ws _ hw, groupPos_ws hw]; exact groupPos_strip t g

theorem groupPos_append : ∀ (a b : Bytes) (g : Nat), groupPos g (a ++ b) = groupPos (groupPos g a) b
  | [], _, _ => rfl
  | x :: a, b, g => by
    rw [List.cons_append, groupPos, groupPos]
    split
    · exact groupPos_append a b _
    · split
      · exact groupPos_append a b _
      · split <;> exact groupPos_append a b _

theorem groupPos_digs : ∀ (ds : Bytes) (g : Nat), (∀ b ∈ ds, IsDig b) → g < 5 →
    groupPos g ds = (g + ds.length) % 5
  | [], g, _, hg => by simp [groupPos]; omega
  | d :: t, g, h, _ => by
    rw [groupPos_dig (h d (by simp)), groupPos_digs t _ (fun b hb => h b (List.mem_cons_of_mem _ hb))
      (Nat.mod_lt _ (by omega))]
    simp only [List.length_cons]; omega

theorem groupPos_whole {p s : Bytes} (h : A85Whole p s) : ∀ t : Bytes, groupPos 0 (s ++ t) = groupPos 0 t := by
  induction h with
  | nil => intro t; rfl
  | z _ ih => intro t; rw [List.cons_append, groupPos_z, ih]
  | @full a b c d p s _ ih =>
    intro t
    have e5 : (0 + (digits5 (be32 a b c d)).length) % 5 = 0 := by rw [digits5_eq]; simp
    rw [List.append_assoc, groupPos_append, groupPos_digs _ 0 (digits5_dig _) (by omega), e5]
    exact ih t

/-! ### whole groups -/

theorem stage_whole {p s : Bytes} (h : A85Whole p s) : ∀ t st : Bytes,
    a85Stage (s ++ t) st 0 = a85Stage t ((expand s).reverse ++ st) 0 := by
  induction h with
  | nil => intro t st; simp [expand]
  | z _ ih => intro t st; rw [List.cons_append, stage_z, ih, expand_z]; simp
  | @full a b c d p s _ ih =>
    intro t st
    rw [digits5_eq]
    simp only [List.cons_append, List.nil_append]
    rw [stage_dig (dg_dig _) _ _ 0 1 rfl, stage_dig (dg_dig _) _ _ 1 2 rfl, stage_dig (dg_dig _) _ _ 2 3 rfl,
      stage_dig (dg_dig _) _ _ 3 4 rfl, stage_dig (dg_dig _) _ _ 4 0 rfl, ih,
      expand_dig (dg_dig _), expand_dig (dg_dig _), expand_dig (dg_dig _), expand_dig (dg_dig _),
      expand_dig (dg_dig _)]
    simp

theorem run_whole {p s : Bytes} (h : A85Whole p s) : ∀ t res : Bytes,
    run (expand s ++ t) ⟨0, 0, res⟩ = run t ⟨0, 0, p.reverse ++ res⟩ := by
  induction h with
  | nil => intro t res; simp [expand]
  | z _ ih => intro t res; rw [expand_z]; simp only [List.cons_append]; rw [run_z, ih]; simp
  | full _ ih =>
    intro t res
    rw [expand_append_digs _ _ (digits5_dig _), List.append_assoc, run_full, ih]; simp

theorem expand_whole_dig {p s : Bytes} (h : A85Whole p s) : ∀ b ∈ expand s, IsDig b := by
  induction h with
  | nil => simp [expand]
  | z _ ih =>
    rw [expand_z]; simp only [List.forall_mem_cons]
    exact ⟨dig_33, dig_33, dig_33, dig_33, dig_33, ih⟩
  | full _ ih =>
    rw [expand_append_digs _ _ (digits5_dig _)]
    intro x hx
    rcases List.mem_append.mp hx with hx | hx
    · exact digits5_dig _ _ hx
    · exact ih _ hx

/-- nothing, or at least five staged digits -/
theorem expand_whole_len {p s : Bytes} (h : A85Whole p s) : (p = [] ∧ expand s = []) ∨ 5 ≤ (expand s).length := by
  cases h with
  | nil => left; simp [expand]
  | z _ => right; rw [expand_z]; simp
  | full _ => right; rw [expand_append_digs _ _ (digits5_dig _), digits5_eq]; simp

theorem whole_no_ws {p s : Bytes} (h : A85Whole p s) : ∀ b ∈ s, Filters.isWs b = false := by
  induction h with
  | nil => simp
  | z _ ih => rw [List.forall_mem_cons]; exact ⟨by decide, ih⟩
  | full _ ih =>
    intro x hx
    rcases List.mem_append.mp hx with hx | hx
    · exact dig_not_ws (digits5_dig _ _ hx)
    · exact ih _ hx

/-! ### overflow of a group -/

theorem decodeDigit_panic (d : UInt8) (k ch : Nat) (res : Bytes) (h : ch + dv d * a85Table k ≥ 2 ^ 32) :
    Bad (decodeDigit d ⟨k, ch, res⟩) := by
  simp only [dv] at h
  unfold decodeDigit
  simp only
  by_cases h1 : (d.toNat - 33) * a85Table k ≥ 2 ^ 32
  · simp only [h1, if_true]; exact bad_panic _
  · simp only [h1, h, if_true, if_false]; exact bad_panic _

theorem loop_dig_bad {d : UInt8} (hd : IsDig d) (t : Bytes) (s : A85St) (h : Bad (decodeDigit d s)) :
    Bad (a85Loop (d :: t) s) := by
  rw [a85Loop]
  simp only [dig_ne_z hd, dig_range hd, Bool.false_eq_true, if_false]
  cases hdd : decodeDigit d s with
  | ok s' => exact absurd hdd (h s')
  | err k => exact bad_err k
  | panic m => exact bad_panic m

/-- five digits worth 2^32 or more, read from a group boundary: one of the checked `u32`
    operations of `decode_digit` panics -/
theorem loop_overflow (x0 x1 x2 x3 x4 : UInt8) (t res : Bytes)
    (h0 : IsDig x0) (h1 : IsDig x1) (h2 : IsDig x2) (h3 : IsDig x3) (h4 : IsDig x4)
    (hov : dv x0 * 52200625 + dv x1 * 614125 + dv x2 * 7225 + dv x3 * 85 + dv x4 ≥ 2 ^ 32) :
    Bad (a85Loop (x0 :: x1 :: x2 :: x3 :: x4 :: t) ⟨0, 0, res⟩) := by
  by_cases c0 : dv x0 * 52200625 < 2 ^ 32
  · rw [loop_step h0 _ 0 0 res 1 (dv x0 * 52200625) (by omega) (by omega) (by simp only [a85Table] <;> omega) c0]
    by_cases c1 : dv x0 * 52200625 + dv x1 * 614125 < 2 ^ 32
    · rw [loop_step h1 _ 1 _ res 2 (dv x0 * 52200625 + dv x1 * 614125) (by omega) (by omega)
        (by simp only [a85Table] <;> omega) c1]
      by_cases c2 : dv x0 * 52200625 + dv x1 * 614125 + dv x2 * 7225 < 2 ^ 32
      · rw [loop_step h2 _ 2 _ res 3 (dv x0 * 52200625 + dv x1 * 614125 + dv x2 * 7225) (by omega) (by omega)
          (by simp only [a85Table] <;> omega) c2]
        by_cases c3 : dv x0 * 52200625 + dv x1 * 614125 + dv x2 * 7225 + dv x3 * 85 < 2 ^ 32
        · rw [loop_step h3 _ 3 _ res 4 (dv x0 * 52200625 + dv x1 * 614125 + dv x2 * 7225 + dv x3 * 85) (by omega)
            (by omega) (by simp only [a85Table]) c3]
          exact loop_dig_bad h4 _ _ (decodeDigit_panic _ _ _ _ (by simp only [a85Table]; omega))
        · exact loop_dig_bad h3 _ _ (decodeDigit_panic _ _ _ _ (by rw [show a85Table 3 = 85 from rfl]; exact Nat.le_of_not_lt c3))
      · exact loop_dig_bad h2 _ _ (decodeDigit_panic _ _ _ _ (by rw [show a85Table 2 = 7225 from rfl]; exact Nat.le_of_not_lt c2))
    · exact loop_dig_bad h1 _ _ (decodeDigit_panic _ _ _ _ (by rw [show a85Table 1 = 614125 from rfl]; exact Nat.le_of_not_lt c1))
  · exact loop_dig_bad h0 _ _ (decodeDigit_panic _ _ _ _ (by simp only [a85Table]; omega))

/-! ### the trims leave a leading run of digits alone -/

theorem dw_append (p : UInt8 → Bool) (Y : Bytes) (hY : ∀ y ∈ Y, p y = false) : ∀ X : Bytes,
    ∃ X', (X ++ Y).dropWhile p = X' ++ Y
  | [] => by
    refine ⟨[], ?_⟩
    cases Y with
    | nil => rfl
    | cons y t => simp [hY y (by simp)]
  | x :: X => by
    cases hx : p x
    · exact ⟨x :: X, by simp [hx]⟩
    · obtain ⟨X', h⟩ := dw_append p Y hY X
      exact ⟨X', by rw [List.cons_append, List.dropWhile_cons, hx]; simpa using h⟩

theorem trimGtRev_append (Y : Bytes) (hY : ∀ y ∈ Y, y ≠ 0x7E) : ∀ X : Bytes,
    ∃ X', trimGtRev (X ++ Y) = X' ++ Y
  | [] => by
    refine ⟨[], ?_⟩
    match Y, hY with
    | [], _ => rfl
    | [_], _ => rfl
    | a :: b :: t, hY =>
      show trimGtRev (a :: b :: t) = a :: b :: t
      rw [trimGtRev]
      have : b ≠ 0x7E := hY b (by simp)
      simp [this]
  | [a] => by
    refine ⟨[a], ?_⟩
    cases Y with
    | nil => rfl
    | cons y t =>
      show trimGtRev (a :: y :: t) = _
      rw [trimGtRev]
      have : y ≠ 0x7E := hY y (by simp)
      simp [this]
  | a :: b :: t => by
    show ∃ X', trimGtRev (a :: b :: (t ++ Y)) = _
    rw [trimGtRev]
    by_cases hab : (a == 0x3E && b == 0x7E) = true
    · simp only [hab, if_true]; exact trimGtRev_append Y hY t
    · simp only [hab]; exact ⟨a :: b :: t, rfl⟩

/-- at least two digits at the head of the stage survive all four trims and the filter; what
    follows them may shrink -/
theorem crate_shape (D R : Bytes) (hD : ∀ b ∈ D, IsDig b) (hl : 2 ≤ D.length) :
    ∃ R', a85Crate (D ++ R) = run (D ++ R') ⟨0, 0, []⟩ := by
  match D, hD, hl with
  | a :: b :: D', hD, _ =>
    have ha : IsDig a := hD a (by simp)
    have hb : IsDig b := hD b (by simp)
    have e1 : (a :: b :: D' ++ R).dropWhile isUniWs = a :: b :: D' ++ R := by
      rw [List.cons_append, List.dropWhile_cons]; simp [dig_not_uniws ha]
    have e2 : trimLt (a :: b :: D' ++ R) = a :: b :: D' ++ R := by
      rw [List.cons_append, List.cons_append, trimLt]; simp [dig_ne_tilde hb]
    have e3 : (a :: b :: D' ++ R).reverse = R.reverse ++ (a :: b :: D').reverse := by simp
    have hr : ∀ y ∈ (a :: b :: D').reverse, IsDig y := fun y hy => hD y (List.mem_reverse.mp hy)
    obtain ⟨X1, h3⟩ := dw_append isUniWs (a :: b :: D').reverse (fun y hy => dig_not_uniws (hr y hy)) R.reverse
    obtain ⟨X2, h4⟩ := trimGtRev_append (a :: b :: D').reverse
      (fun y hy => by have := dig_ne_tilde (hr y hy); simpa using this) X1
    have hf : (a :: b :: D').filter (fun c => !isAsciiWs c) = a :: b :: D' :=
      List.filter_eq_self.mpr fun x hx => by simp [dig_not_asciiws (hD x hx)]
    refine ⟨X2.reverse.filter (fun c => !isAsciiWs c), ?_⟩
    rw [crate_run, e1, e2, e3, h3, h4, List.reverse_append, List.reverse_reverse, List.filter_append, hf]

/-! ### a final group of one digit -/

theorem run_single_ok (d : UInt8) (res : Bytes) (hd : IsDig d) (h : d.toNat ≤ 114) :
    run [d] ⟨0, 0, res⟩ = .ok res.reverse := by
  have hv : dv d ≤ 81 := by simp only [dv]; omega
  have e : a85Loop [d] ⟨0, 0, res⟩ = .ok ⟨1, dv d * 52200625, res⟩ := by
    rw [loop_step hd _ 0 0 res 1 (dv d * 52200625) (by omega) (by omega) (by simp only [a85Table] <;> omega)
      (by omega), loop_nil]
  have p : a85Pad 5 ⟨1, dv d * 52200625, res⟩ 0 =
      .ok (⟨0, 0, UInt8.ofNat ((dv d * 52200625 + 84 * 614125 + 84 * 7225 + 84 * 85 + 84) % 256)
        :: UInt8.ofNat ((dv d * 52200625 + 84 * 614125 + 84 * 7225 + 84 * 85 + 84) / 256 % 256)
        :: UInt8.ofNat ((dv d * 52200625 + 84 * 614125 + 84 * 7225 + 84 * 85 + 84) / 65536 % 256)
        :: UInt8.ofNat ((dv d * 52200625 + 84 * 614125 + 84 * 7225 + 84 * 85 + 84) / 16777216) :: res⟩, 4) := by
    rw [pad_step 4 5 1 _ res 0 2 (dv d * 52200625 + 84 * 614125) 1 (by omega) (by omega) (by omega) (by omega)
        (by simp only [a85Table]) (by omega) (by omega),
      pad_step 3 4 2 _ res 1 3 (dv d * 52200625 + 84 * 614125 + 84 * 7225) 2 (by omega) (by omega) (by omega)
        (by omega) (by simp only [a85Table]) (by omega) (by omega),
      pad_step 2 3 3 _ res 2 4 (dv d * 52200625 + 84 * 614125 + 84 * 7225 + 84 * 85) 3 (by omega) (by omega)
        (by omega) (by omega) (by simp only [a85Table]) (by omega) (by omega),
      pad_last 1 2 _ res 3 (dv d * 52200625 + 84 * 614125 + 84 * 7225 + 84 * 85 + 84) 4 (by omega) (by omega)
        (by omega) (by omega)]
  rw [run_of _ _ _ _ _ e p (by simp)]
  simp

theorem run_single_bad (d : UInt8) (res : Bytes) (hd : IsDig d) (h : 114 < d.toNat) :
    Bad (run [d] ⟨0, 0, res⟩) := by
  obtain ⟨_, h2⟩ := hd
  have : d = 115 ∨ d = 116 ∨ d = 117 := by
    simp only [← UInt8.toNat_inj]
    have e1 : (115 : UInt8).toNat = 115 := by decide
    have e2 : (116 : UInt8).toNat = 116 := by decide
    have e3 : (117 : UInt8).toNat = 117 := by decide
    omega
  intro v hv
  rcases this with rfl | rfl | rfl <;>
    simp [run, a85Loop, decodeDigit, a85Table, a85Pad] at hv

theorem crate_single (d : UInt8) (hd : IsDig d) (hlt : d ≠ 0x3C) :
    a85Crate [d, 0x7E, 0x3E] = run [d] ⟨0, 0, []⟩ := by
  rw [crate_run]
  simp [trimLt, trimGtRev, hlt, dig_not_uniws hd, dig_not_asciiws hd,
    show isUniWs 0x3E = false by decide]

end Parsley.C06.A85R

namespace Parsley.C06
open Parsley Parsley.Filters Parsley.FiltersSpec Parsley.C06.A85 Parsley.C06.A85R

instance (b : UInt8) : Decidable (IsDig b) := by unfold IsDig; exact inferInstance

/-- (T4) a `z` met while the staging loop is inside a group is an error, whatever precedes and
    follows it.  `groupPos 0 pre` is the loop's own counter: white space and `z` keep it, `~` resets
    it, every other byte (legal digit or not) advances it modulo 5. -/
theorem a85_z_inside_group (pre rest : Bytes) (h : groupPos 0 pre ≠ 0) :
    a85Decode (pre ++ 0x7A :: rest) = .err .transform := by
  rcases stage_pre pre (0x7A :: rest) [] 0 with h1 | ⟨st', h1⟩
  · exact decode_stage_err h1
  · apply decode_stage_err
    rw [h1, a85Stage]
    have hg : (groupPos 0 pre != 0) = true := by simpa using h
    simp [show Filters.isWs 0x7A = false by decide, hg]

/-- (T4, in the terms of ISO 32000-1 7.4.3) after any number of complete groups (`z` or five
    digits) and one to four digits of the next group — white space anywhere — a `z` is an error -/
theorem a85_z_inside_group_spec (pre rest p s ds : Bytes) (hw : A85Whole p s) (hd : ∀ b ∈ ds, IsDig b)
    (hl : 1 ≤ ds.length ∧ ds.length ≤ 4) (hs : strip pre = s ++ ds) :
    a85Decode (pre ++ 0x7A :: rest) = .err .transform := by
  apply a85_z_inside_group
  rw [groupPos_strip, hs, groupPos_whole hw, groupPos_digs _ 0 hd (by omega)]
  omega

-- non-vacuity: `87cUR z 9jz~>`: one whole group, a `z`, two digits, then the offending `z`
example : a85Decode ([0x38, 0x37, 0x63, 0x55, 0x52, 0x20, 0x7A, 0x20, 0x39, 0x6A] ++ 0x7A :: [0x7E, 0x3E])
    = .err .transform :=
  a85_z_inside_group_spec _ _ [0x48, 0x65, 0x6C, 0x6C, 0, 0, 0, 0]
    (digits5 (be32 0x48 0x65 0x6C 0x6C) ++ 0x7A :: []) [0x39, 0x6A] (.full (.z .nil))
    (by decide) (by decide) (by decide)

/-- (T5) a group of five digits whose value is 2^32 or more is an error, in whichever group it
    stands (after any complete groups) and whatever follows it: one of the overflow-checked `u32`
    operations of `decode_digit` panics and `catch_unwind` reports a `TransformError`.  (This rests
    on the dev-profile overflow checks: see the trusted base.) -/
theorem a85_group_overflow (content p s rest : Bytes) (x0 x1 x2 x3 x4 : UInt8) (hw : A85Whole p s)
    (h0 : IsDig x0) (h1 : IsDig x1) (h2 : IsDig x2) (h3 : IsDig x3) (h4 : IsDig x4)
    (hov : (x0.toNat - 33) * 52200625 + (x1.toNat - 33) * 614125 + (x2.toNat - 33) * 7225
      + (x3.toNat - 33) * 85 + (x4.toNat - 33) ≥ 2 ^ 32)
    (hs : strip content = s ++ x0 :: x1 :: x2 :: x3 :: x4 :: rest) :
    a85Decode content = .err .transform := by
  rcases stage_cases content [] 0 with h | h
  · exact decode_stage_err h
  · apply decode_bad h
    simp only [List.reverse_nil, List.nil_append]
    rw [hs, expand_append, expand_dig h0, expand_dig h1, expand_dig h2, expand_dig h3, expand_dig h4]
    have hD : ∀ b ∈ expand s ++ [x0, x1, x2, x3, x4], IsDig b := by
      intro b hb
      rcases List.mem_append.mp hb with hb | hb
      · exact expand_whole_dig hw b hb
      · simp only [List.mem_cons, List.not_mem_nil, or_false] at hb
        rcases hb with rfl | rfl | rfl | rfl | rfl <;> assumption
    obtain ⟨R', hR⟩ := crate_shape (expand s ++ [x0, x1, x2, x3, x4]) (expand rest) hD (by simp)
    have e1 : expand s ++ x0 :: x1 :: x2 :: x3 :: x4 :: expand rest =
        (expand s ++ [x0, x1, x2, x3, x4]) ++ expand rest := by simp
    have e2 : (expand s ++ [x0, x1, x2, x3, x4]) ++ R' = expand s ++ (x0 :: x1 :: x2 :: x3 :: x4 :: R') := by simp
    rw [e1, hR, e2, run_whole hw]
    apply run_bad_of_loop
    exact loop_overflow x0 x1 x2 x3 x4 R' _ h0 h1 h2 h3 h4 hov

-- non-vacuity: `87cUR s8W-" 87cUR~>`: the second group is worth exactly 2^32
example : a85Decode [0x38, 0x37, 0x63, 0x55, 0x52, 0x20, 0x73, 0x38, 0x57, 0x2D, 0x22, 0x20,
    0x38, 0x37, 0x63, 0x55, 0x52, 0x7E, 0x3E] = .err .transform :=
  a85_group_overflow _ [0x48, 0x65, 0x6C, 0x6C] (digits5 (be32 0x48 0x65 0x6C 0x6C) ++ [])
    [0x38, 0x37, 0x63, 0x55, 0x52, 0x7E, 0x3E] 0x73 0x38 0x57 0x2D 0x22 (.full .nil)
    (by decide) (by decide) (by decide) (by decide) (by decide) (by decide) (by decide)
-- ... and one less is accepted
example : a85Decode [0x73, 0x38, 0x57, 0x2D, 0x21, 0x7E, 0x3E] = .ok [0xFF, 0xFF, 0xFF, 0xFF] := by decide

/-- (T6) a final group of ONE digit (ISO 32000-1 7.4.3: "a final partial group contains only one
    character" is an error).  The real code — and therefore the model — is more lenient, exactly so:
    after complete groups spelling `p`, a lone digit `!`..`r` before the EOD is silently dropped and
    the decode succeeds with `p`; a lone `s`, `t` or `u` is rejected (padded with `uuuu` its value
    exceeds 2^32 - 1 and the checked multiplication / addition panics). -/
theorem a85_single_digit_final (content p s : Bytes) (d : UInt8) (hw : A85Whole p s) (hd : IsDig d)
    (hs : strip content = s ++ [d, 0x7E, 0x3E]) :
    a85Decode content = if d.toNat ≤ 114 then .ok p else .err .transform := by
  have hst : a85Stage content [] 0 = .ok (expand s ++ [d] ++ [0x7E, 0x3E]) := by
    have hs' : content.filter (fun b => !Filters.isWs b) = s ++ [d, 0x7E, 0x3E] := hs
    rw [stage_filter, hs', stage_whole hw]
    rw [stage_dig hd _ _ 0 1 rfl, stage_end]
    simp
  have hrun : a85Crate (expand s ++ [d] ++ [0x7E, 0x3E]) = run [d] ⟨0, 0, p.reverse⟩ := by
    rcases expand_whole_len hw with ⟨hp, he⟩ | hlen
    · subst hp
      rw [he]
      by_cases hlt : d = 0x3C
      · subst hlt; decide
      · exact crate_single d hd hlt
    · have hD : ∀ b ∈ expand s ++ [d], IsDig b := by
        intro b hb
        rcases List.mem_append.mp hb with hb | hb
        · exact expand_whole_dig hw b hb
        · simp only [List.mem_cons, List.not_mem_nil, or_false] at hb; subst hb; exact hd
      rw [crate_eq _ hD (by simp only [List.length_append, List.length_singleton]; omega)]
      have := run_whole hw [d] []
      simpa using this
  by_cases h114 : d.toNat ≤ 114
  · rw [if_pos h114]
    rw [decode_of_stage hst, hrun, run_single_ok d _ hd h114]
    simp
  · rw [if_neg h114]
    apply decode_bad hst
    rw [hrun]
    exact run_single_bad d _ hd (by omega)

-- non-vacuity: `87cUR r~>` is accepted as `Hell`, `87cUR s~>` is rejected (both also executed)
example : a85Decode [0x38, 0x37, 0x63, 0x55, 0x52, 0x20, 0x72, 0x7E, 0x3E] = .ok [0x48, 0x65, 0x6C, 0x6C] :=
  a85_single_digit_final _ [0x48, 0x65, 0x6C, 0x6C] (digits5 (be32 0x48 0x65 0x6C 0x6C) ++ []) 0x72
    (.full .nil) (by decide) (by decide)
example : a85Decode [0x38, 0x37, 0x63, 0x55, 0x52, 0x20, 0x73, 0x7E, 0x3E] = .err .transform :=
  a85_single_digit_final _ [0x48, 0x65, 0x6C, 0x6C] (digits5 (be32 0x48 0x65 0x6C 0x6C) ++ []) 0x73
    (.full .nil) (by decide) (by decide)
example : a85Decode [0x38, 0x37, 0x63, 0x55, 0x52, 0x20, 0x72, 0x7E, 0x3E] = .ok [0x48, 0x65, 0x6C, 0x6C] := by decide
example : a85Decode [0x38, 0x37, 0x63, 0x55, 0x52, 0x20, 0x73, 0x7E, 0x3E] = .err .transform := by decide

/-! ### the group-position bookkeeping is only observed through `in_group != 0`

  Mutation sweep: `in_group = (in_group + 1) % 5` -> `(in_group + 2) % 5` and -> `(in_group - 1) % 5`
  (src/pdf_lib/pdf_filters.rs:517) survive every check.  They must: the counter is an `i32` (integer
  literal fallback), it is read only by `if in_group != 0`, and both replacements count the digits
  of a group in another representation of Z/5 (`2k mod 5`; `-(k mod 5)` with Rust's truncating `%`)
  that is zero exactly when `k mod 5` is.  The staging loop over ANY counter that simulates the
  original one computes the same function; the two mutants are instances.  No input distinguishes
  them, so no case family can (or should) report a violation on them. -/

/-- the staging loop of `ASCII85Decode::transform` over an arbitrary group-position counter -/
def a85StageC {γ : Type} (step : γ → γ) (zero : γ) (isZero : γ → Bool) : Bytes → Bytes → γ → Res Bytes
  | [], st, _ => .ok st.reverse
  | b :: t, st, g =>
    if Filters.isWs b then a85StageC step zero isZero t st g
    else if b == 0x7A then
      if !isZero g then .err .transform
      else a85StageC step zero isZero t (0x21 :: 0x21 :: 0x21 :: 0x21 :: 0x21 :: st) g
    else if b == 0x7E then a85StageC step zero isZero t (0x7E :: st) zero
    else a85StageC step zero isZero t (b :: st) (step g)

/-- the model's loop is the instance `k ↦ (k + 1) % 5` -/
theorem a85Stage_eq_C (input st : Bytes) (g : Nat) :
    a85Stage input st g = a85StageC (fun k => (k + 1) % 5) 0 (fun k => k == 0) input st g := by
  induction input generalizing st g with
  | nil => rfl
  | cons b t ih =>
    unfold a85Stage a85StageC
    simp only [ih, bne]

/-- two counters related by a simulation that preserves the zero test stage the same text -/
theorem a85StageC_sim {γ δ : Type} (R : γ → δ → Prop)
    (step : γ → γ) (zero : γ) (isZero : γ → Bool) (step' : δ → δ) (zero' : δ) (isZero' : δ → Bool)
    (hz : R zero zero') (hs : ∀ g g', R g g' → R (step g) (step' g'))
    (hi : ∀ g g', R g g' → isZero g = isZero' g') (input st : Bytes) (g : γ) (g' : δ) (h : R g g') :
    a85StageC step zero isZero input st g = a85StageC step' zero' isZero' input st g' := by
  induction input generalizing st g g' with
  | nil => rfl
  | cons b t ih =>
    unfold a85StageC
    rw [hi g g' h, ih _ g g' h, ih _ g g' h, ih _ zero zero' hz, ih _ (step g) (step' g') (hs g g' h)]

/-- **mutant `(in_group + 2) % 5` is equivalent**: counting a group's digits in steps of two modulo 5
    stages exactly what the original loop stages, on every input -/
theorem a85_counter_plus2_equiv (input : Bytes) :
    a85StageC (fun k : Nat => (k + 2) % 5) 0 (fun k => k == 0) input [] 0 = a85Stage input [] 0 := by
  rw [a85Stage_eq_C]
  apply a85StageC_sim (fun (g' g : Nat) => g < 5 ∧ g' = 2 * g % 5)
  · exact ⟨by omega, rfl⟩
  · intro g' g ⟨h1, h2⟩
    exact ⟨Nat.mod_lt _ (by omega), by subst h2; omega⟩
  · intro g' g ⟨h1, h2⟩
    subst h2
    show ((2 * g % 5 == 0) = (g == 0))
    rw [Bool.eq_iff_iff]
    simp only [beq_iff_eq]
    omega
  · exact ⟨by omega, rfl⟩

/-- **mutant `(in_group - 1) % 5` is equivalent**: `in_group` is an `i32`, Rust's `%` truncates towards
    zero (`Int.tmod`), so the counter runs 0, -1, -2, -3, -4, 0, … and is zero exactly when the original is -/
theorem a85_counter_minus1_equiv (input : Bytes) :
    a85StageC (fun k : Int => (k - 1).tmod 5) 0 (fun k => k == 0) input [] 0 = a85Stage input [] 0 := by
  rw [a85Stage_eq_C]
  apply a85StageC_sim (fun (g' : Int) (g : Nat) => g < 5 ∧ g' = -(g : Int))
  · exact ⟨by omega, rfl⟩
  · intro g' g ⟨h1, h2⟩
    refine ⟨Nat.mod_lt _ (by omega), ?_⟩
    subst h2
    have : g = 0 ∨ g = 1 ∨ g = 2 ∨ g = 3 ∨ g = 4 := by omega
    rcases this with rfl | rfl | rfl | rfl | rfl <;> decide
  · intro g' g ⟨h1, h2⟩
    subst h2
    by_cases hg : g = 0
    · subst hg; rfl
    · have h3 : (-(g : Int) == 0) = false := by simp; omega
      have h4 : (g == 0) = false := by simp [hg]
      rw [h3, h4]
  · exact ⟨by omega, rfl⟩

-- the counters do differ as numbers (after three digits: 3, 1, -3), only their zero test agrees
example : ((fun k : Nat => (k + 2) % 5) ((fun k : Nat => (k + 2) % 5) ((fun k : Nat => (k + 2) % 5) 0)) = 1) ∧
    ((fun k : Int => (k - 1).tmod 5) ((fun k : Int => (k - 1).tmod 5) ((fun k : Int => (k - 1).tmod 5) 0)) = -3) := by
  decide

end Parsley.C06
