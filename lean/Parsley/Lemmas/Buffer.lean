/-
  C17 — helper lemmas: list facts, the loops of the model against the list functions of the
  spec, and the single-buffer refinement `run_refines` (every `ParseBufferT` method on a
  well-formed `PB` over storage `b` = the same method on the copy `absV b p`).
  Core Lean only.
-/
import Parsley.Model.Buffer
import Parsley.Spec.Buffer
namespace Parsley.C17
open Parsley Parsley.Buffer Parsley.BufferSpec

/-- `start ≤ ofs ≤ end ≤ |storage|` -/
def WFV (b : Bytes) (p : PB) : Prop := p.start ≤ p.ofs ∧ p.ofs ≤ p.stop ∧ p.stop ≤ b.length

/-- the window of `p` in storage `b` -/
def win (b : Bytes) (p : PB) : Bytes := (b.drop p.start).take (p.stop - p.start)

/-- abstraction: the copy of the window, the relative cursor, the allocation as group -/
def absV (b : Bytes) (p : PB) : AView := ⟨win b p, p.ofs - p.start, p.store⟩

theorem win_length {b : Bytes} {p : PB} (h : WFV b p) : (win b p).length = p.stop - p.start := by
  obtain ⟨h1, h2, h3⟩ := h
  simp [win, List.length_take, List.length_drop]; omega

/-- `buf[ofs..end]` is the rest of the window after the relative cursor -/
theorem rest_eq {b : Bytes} {p : PB} (h : WFV b p) :
    (b.drop p.ofs).take (p.stop - p.ofs) = (win b p).drop (p.ofs - p.start) := by
  obtain ⟨h1, h2, h3⟩ := h
  unfold win
  rw [List.drop_take, List.drop_drop]
  have e1 : p.start + (p.ofs - p.start) = p.ofs := by omega
  have e2 : p.stop - p.start - (p.ofs - p.start) = p.stop - p.ofs := by omega
  rw [e1, e2]

/-- `buf[start..ofs]` is the part of the window before the relative cursor -/
theorem before_eq {b : Bytes} {p : PB} (h : WFV b p) :
    (b.drop p.start).take (p.ofs - p.start) = (win b p).take (p.ofs - p.start) := by
  obtain ⟨h1, h2, h3⟩ := h
  unfold win
  rw [List.take_take]
  have : min (p.ofs - p.start) (p.stop - p.start) = p.ofs - p.start := by omega
  rw [this]

theorem win_getElem? {b : Bytes} {p : PB} (h : WFV b p) (hlt : p.ofs < p.stop) :
    (win b p)[p.ofs - p.start]? = b[p.ofs]? := by
  obtain ⟨h1, h2, h3⟩ := h
  unfold win
  rw [List.getElem?_take, List.getElem?_drop]
  have : p.ofs - p.start < p.stop - p.start := by omega
  simp only [this, if_true]
  congr 1; omega

theorem slice_ok {b : Bytes} {lo hi : Nat} (h1 : lo ≤ hi) (h2 : hi ≤ b.length) :
    slice b lo hi = .ok ((b.drop lo).take (hi - lo)) := by
  simp [slice, h1, h2]

theorem collect_true (t : Bytes) (l : Bytes) :
    collect t true l = l.takeWhile (fun x => t.contains x) := by
  induction l with
  | nil => rfl
  | cons x xs ih =>
    simp only [collect, List.takeWhile_cons, ih]
    cases h : t.contains x <;> simp

theorem collect_false (t : Bytes) (l : Bytes) :
    collect t false l = l.takeWhile (fun x => !t.contains x) := by
  induction l with
  | nil => rfl
  | cons x xs ih =>
    simp only [collect, List.takeWhile_cons, ih]
    cases h : t.contains x <;> simp

theorem takeWhile_length_le {α : Type} (f : α → Bool) (l : List α) : (l.takeWhile f).length ≤ l.length := by
  induction l with
  | nil => simp
  | cons x xs ih => simp only [List.takeWhile_cons]; split <;> simp <;> omega

/-- `w.starts_with(tag)` on the window of length `|tag|` = the tag is a prefix of the rest -/
theorem isPrefixOf_take (t l : Bytes) : t.isPrefixOf (l.take t.length) = t.isPrefixOf l := by
  induction t generalizing l with
  | nil => simp [List.isPrefixOf]
  | cons x xs ih =>
    cases l with
    | nil => simp [List.isPrefixOf]
    | cons y ys => simp [List.isPrefixOf, ih]

theorem isPrefixOf_length_le {t l : Bytes} (h : t.isPrefixOf l = true) : t.length ≤ l.length := by
  induction t generalizing l with
  | nil => simp
  | cons x xs ih =>
    cases l with
    | nil => simp [List.isPrefixOf] at h
    | cons y ys =>
      simp only [List.isPrefixOf, Bool.and_eq_true] at h
      have := ih h.2
      simp; omega

theorem scanLoop_eq (t sl : Bytes) (k skip : Nat) :
    scanLoop t sl k skip = (List.range' skip k).find? (fun j => t.isPrefixOf (sl.drop j)) := by
  induction k generalizing skip with
  | zero => simp [scanLoop]
  | succ k ih =>
    simp only [scanLoop, List.range'_succ, List.find?_cons, isPrefixOf_take, ih]
    cases h : t.isPrefixOf (sl.drop skip) <;> simp

theorem bscanLoop_eq (t sl : Bytes) (k skip : Nat) :
    bscanLoop t sl k skip =
      ((List.range k).reverse.find? (fun j => t.isPrefixOf (sl.drop j))).map
        (fun j => skip + (k - 1 - j) + t.length - 1) := by
  induction k generalizing skip with
  | zero => simp [bscanLoop]
  | succ k ih =>
    simp only [bscanLoop, List.range_succ, List.reverse_append, List.reverse_cons, List.reverse_nil,
      List.nil_append, List.cons_append, List.find?_cons, isPrefixOf_take, ih]
    cases h : t.isPrefixOf (sl.drop k)
    · simp only [Option.map]
      cases hf : (List.range k).reverse.find? (fun j => t.isPrefixOf (sl.drop j)) with
      | none => rfl
      | some j =>
        have hj := List.mem_of_find?_eq_some hf
        simp only [List.mem_reverse, List.mem_range] at hj
        show some _ = some _
        congr 1
        omega
    · simp

theorem find?_some_lt {n : Nat} {f : Nat → Bool} {j : Nat}
    (h : (List.range n).find? f = some j) : j < n := by
  have := List.mem_of_find?_eq_some h
  simpa using this

theorem find?_rev_some_lt {n : Nat} {f : Nat → Bool} {j : Nat}
    (h : (List.range n).reverse.find? f = some j) : j < n := by
  have := List.mem_of_find?_eq_some h
  simpa using this

/-! ### the single-buffer refinement -/

/-- What `run_refines` states about one method call. -/
structure Refines (m : Meth) (b : Bytes) (p : PB) : Prop where
  out : (run m b p).1 = (arun m (absV b p)).1
  abs : absV b (run m b p).2 = (arun m (absV b p)).2
  wf : WFV b (run m b p).2
  store : (run m b p).2.store = p.store
  start : (run m b p).2.start = p.start
  stop : (run m b p).2.stop = p.stop

theorem size_ok {b : Bytes} {p : PB} (h : WFV b p) : size p = .ok (p.stop - p.start) := by
  obtain ⟨h1, h2, h3⟩ := h
  have : p.start ≤ p.stop := by omega
  simp [size, this]

theorem getCursor_ok {b : Bytes} {p : PB} (h : WFV b p) : getCursor p = .ok (p.ofs - p.start) := by
  simp [getCursor, h.1]

theorem remaining_ok {b : Bytes} {p : PB} (h : WFV b p) : remaining p = .ok (p.stop - p.ofs) := by
  simp [remaining, h.2.1]

theorem absV_ofs (b : Bytes) (p : PB) (o : Nat) :
    absV b { p with ofs := o } = { absV b p with cur := o - p.start } := by
  simp [absV, win]

/-- A method that returns `r` and moves the absolute cursor to `o` refines the copy's method
    that returns `r` and moves the relative cursor to `o - start`. -/
theorem Refines.of_eq {m : Meth} {b : Bytes} {p : PB} (h : WFV b p) (r : Res Out) (o : Nat)
    (e1 : run m b p = (r, { p with ofs := o }))
    (e2 : arun m (absV b p) = (r, { absV b p with cur := o - p.start }))
    (ho : p.start ≤ o ∧ o ≤ p.stop) : Refines m b p := by
  constructor
  · rw [e1, e2]
  · rw [e1, e2]; exact absV_ofs b p o
  · rw [e1]; exact ⟨ho.1, ho.2, h.2.2⟩
  · rw [e1]
  · rw [e1]
  · rw [e1]

/-- the same when nothing moves -/
theorem Refines.of_eq_same {m : Meth} {b : Bytes} {p : PB} (h : WFV b p) (r : Res Out)
    (e1 : run m b p = (r, p)) (e2 : arun m (absV b p) = (r, absV b p)) : Refines m b p :=
  Refines.of_eq h r p.ofs e1 e2 ⟨h.1, h.2.1⟩

theorem refines_simple (b : Bytes) (p : PB) (h : WFV b p) (m : Meth)
    (hm : m = .size ∨ m = .remaining ∨ m = .getCursor ∨ m = .peek ∨ m = .buf) : Refines m b p := by
  have hw := win_length h
  obtain ⟨h1, h2, h3⟩ := h
  have h' : WFV b p := ⟨h1, h2, h3⟩
  rcases hm with rfl | rfl | rfl | rfl | rfl
  · exact Refines.of_eq_same h' (.ok (.nat (p.stop - p.start)))
      (by simp [run, size_ok h', Res.map]) (by simp [arun, absV, hw])
  · exact Refines.of_eq_same h' (.ok (.nat (p.stop - p.ofs)))
      (by simp [run, remaining_ok h', Res.map]) (by simp [arun, absV, hw]; omega)
  · exact Refines.of_eq_same h' (.ok (.nat (p.ofs - p.start)))
      (by simp [run, getCursor_ok h', Res.map]) (by simp [arun, absV])
  · by_cases hlt : p.ofs < p.stop
    · have hb : p.ofs < b.length := by omega
      have e := win_getElem? h' hlt
      rw [List.getElem?_eq_getElem hb] at e
      exact Refines.of_eq_same h' (.ok (.obyte (some b[p.ofs])))
        (by simp [run, hlt, List.getElem?_eq_getElem hb]) (by simp [arun, absV, e])
    · have hn : (win b p)[p.ofs - p.start]? = none := by
        apply List.getElem?_eq_none; rw [hw]; omega
      exact Refines.of_eq_same h' (.ok (.obyte none))
        (by simp [run, hlt]) (by simp [arun, absV, hn])
  · have e := rest_eq h'
    exact Refines.of_eq_same h' (.ok (.bytes ((b.drop p.ofs).take (p.stop - p.ofs))))
      (by simp [run, slice_ok h2 h3, Res.map]) (by simp [arun, absV, e])

theorem refines_cursor (b : Bytes) (p : PB) (h : WFV b p) (m : Meth)
    (hm : (∃ k, m = .setCursor k) ∨ m = .incr ∨ m = .decr ∨ (∃ k, m = .checkCursor k)
      ∨ (∃ k, m = .setCursorU k) ∨ m = .incrU ∨ m = .decrU) : Refines m b p := by
  have hw := win_length h
  obtain ⟨h1, h2, h3⟩ := h
  have h' : WFV b p := ⟨h1, h2, h3⟩
  rcases hm with ⟨k, rfl⟩ | rfl | rfl | ⟨k, rfl⟩ | ⟨k, rfl⟩ | rfl | rfl
  · by_cases hk : k ≤ p.stop - p.start
    · exact Refines.of_eq h' (.ok .unit) (p.start + k)
        (by simp [run, size_ok h', hk]) (by simp [arun, absV, hw, hk]) (by omega)
    · exact Refines.of_eq_same h' (.err .eob)
        (by simp [run, size_ok h', hk]) (by simp [arun, absV, hw, hk])
  · by_cases hk : p.ofs < p.stop
    · have hk' : p.ofs - p.start < p.stop - p.start := by omega
      exact Refines.of_eq h' (.ok .unit) (p.ofs + 1)
        (by simp [run, hk]) (by simp [arun, absV, hw, hk']; omega) (by omega)
    · have hk' : ¬ (p.ofs - p.start < p.stop - p.start) := by omega
      exact Refines.of_eq_same h' (.err .eob) (by simp [run, hk]) (by simp [arun, absV, hw, hk'])
  · by_cases hk : p.ofs > p.start
    · have hk' : 0 < p.ofs - p.start := by omega
      exact Refines.of_eq h' (.ok .unit) (p.ofs - 1)
        (by simp [run, hk]) (by simp [arun, absV, hk']; omega) (by omega)
    · have hk' : ¬ (0 < p.ofs - p.start) := by omega
      exact Refines.of_eq_same h' (.err .eob) (by simp [run, hk]) (by simp [arun, absV, hk'])
  · exact Refines.of_eq_same h' (.ok (.bool (decide (k < p.stop - p.start))))
      (by simp [run, size_ok h']) (by simp [arun, absV, hw])
  · by_cases hk : k ≤ p.stop - p.start
    · exact Refines.of_eq h' (.ok .unit) (p.start + k)
        (by simp [run, size_ok h', hk]) (by simp [arun, absV, hw, hk]) (by omega)
    · exact Refines.of_eq_same h' (.panic "assert")
        (by simp [run, size_ok h', hk]) (by simp [arun, absV, hw, hk])
  · by_cases hk : p.ofs < p.stop
    · have hk' : p.ofs - p.start < p.stop - p.start := by omega
      exact Refines.of_eq h' (.ok .unit) (p.ofs + 1)
        (by simp [run, hk]) (by simp [arun, absV, hw, hk']; omega) (by omega)
    · have hk' : ¬ (p.ofs - p.start < p.stop - p.start) := by omega
      exact Refines.of_eq_same h' (.panic "assert") (by simp [run, hk]) (by simp [arun, absV, hw, hk'])
  · by_cases hk : p.ofs > p.start
    · have hk' : 0 < p.ofs - p.start := by omega
      exact Refines.of_eq h' (.ok .unit) (p.ofs - 1)
        (by simp [run, hk]) (by simp [arun, absV, hk']; omega) (by omega)
    · have hk' : ¬ (0 < p.ofs - p.start) := by omega
      exact Refines.of_eq_same h' (.panic "assert") (by simp [run, hk]) (by simp [arun, absV, hk'])

theorem rest_length {b : Bytes} {p : PB} (h : WFV b p) :
    ((win b p).drop (p.ofs - p.start)).length = p.stop - p.ofs := by
  rw [List.length_drop, win_length h]; have := h.1; have := h.2.1; omega

theorem refines_parse (b : Bytes) (p : PB) (h : WFV b p) (m : Meth)
    (hm : (∃ t, m = .checkPrefix t) ∨ (∃ t, m = .allowed t) ∨ (∃ t, m = .until_ t)
      ∨ (∃ t, m = .exact t) ∨ (∃ n, m = .extract n)) : Refines m b p := by
  have hw := win_length h
  have hr := rest_eq h
  have hrl := rest_length h
  obtain ⟨h1, h2, h3⟩ := h
  have h' : WFV b p := ⟨h1, h2, h3⟩
  rcases hm with ⟨t, rfl⟩ | ⟨t, rfl⟩ | ⟨t, rfl⟩ | ⟨t, rfl⟩ | ⟨n, rfl⟩
  · exact Refines.of_eq_same h' (.ok (.bool (t.isPrefixOf ((win b p).drop (p.ofs - p.start)))))
      (by simp [run, slice_ok h2 h3, hr]) (by simp [arun, absV])
  · have hl := takeWhile_length_le (fun x => t.contains x) ((win b p).drop (p.ofs - p.start))
    rw [hrl] at hl
    exact Refines.of_eq h' (.ok (.bytes (((win b p).drop (p.ofs - p.start)).takeWhile (fun x => t.contains x))))
      (p.ofs + (((win b p).drop (p.ofs - p.start)).takeWhile (fun x => t.contains x)).length)
      (by simp [run, slice_ok h2 h3, hr, collect_true])
      (by simp [arun, absV]; omega) (by omega)
  · have hl := takeWhile_length_le (fun x => !t.contains x) ((win b p).drop (p.ofs - p.start))
    rw [hrl] at hl
    exact Refines.of_eq h' (.ok (.bytes (((win b p).drop (p.ofs - p.start)).takeWhile (fun x => !t.contains x))))
      (p.ofs + (((win b p).drop (p.ofs - p.start)).takeWhile (fun x => !t.contains x)).length)
      (by simp [run, slice_ok h2 h3, hr, collect_false])
      (by simp [arun, absV]; omega) (by omega)
  · by_cases hp : t.isPrefixOf ((win b p).drop (p.ofs - p.start)) = true
    · have hl := isPrefixOf_length_le hp
      rw [hrl] at hl
      exact Refines.of_eq h' (.ok (.bool true)) (p.ofs + t.length)
        (by simp [run, getCursor_ok h', slice_ok h2 h3, hr, hp])
        (by simp [arun, absV, hp]; omega) (by omega)
    · exact Refines.of_eq_same h' (.err .guard)
        (by simp [run, getCursor_ok h', slice_ok h2 h3, hr, hp])
        (by simp [arun, absV, hp])
  · by_cases hn : p.stop - p.ofs < n
    · have hn' : p.stop - p.start - (p.ofs - p.start) < n := by omega
      exact Refines.of_eq_same h' (.err .eob)
        (by simp [run, remaining_ok h', getCursor_ok h', hn])
        (by simp [arun, absV, hw, hn'])
    · have hn' : ¬ (p.stop - p.start - (p.ofs - p.start) < n) := by omega
      have hs : slice b p.ofs (p.ofs + n) = .ok ((b.drop p.ofs).take n) := by
        rw [slice_ok (by omega) (by omega)]; congr 2; omega
      have e : (b.drop p.ofs).take n = ((win b p).drop (p.ofs - p.start)).take n := by
        rw [← hr, List.take_take]; congr 1; omega
      exact Refines.of_eq h' (.ok (.bytes (((win b p).drop (p.ofs - p.start)).take n))) (p.ofs + n)
        (by simp [run, remaining_ok h', hn, hs, e])
        (by simp [arun, absV, hw, hn']; omega) (by omega)

theorem nWindows_eq (len n : Nat) : nWindows len n = len + 1 - n := by
  unfold nWindows; split <;> omega

theorem refines_scan (b : Bytes) (p : PB) (h : WFV b p) (t : Bytes) : Refines (.scan t) b p := by
  have hw := win_length h
  have hr := rest_eq h
  have hrl := rest_length h
  obtain ⟨h1, h2, h3⟩ := h
  have h' : WFV b p := ⟨h1, h2, h3⟩
  by_cases ht : t.length = 0
  · exact Refines.of_eq_same h' (.panic "windows(0)")
      (by simp [run, getCursor_ok h', slice_ok h2 h3, ht]) (by simp [arun, ht])
  · have hloop : scanLoop t ((win b p).drop (p.ofs - p.start))
          (nWindows ((win b p).drop (p.ofs - p.start)).length t.length) 0
        = (List.range (((win b p).drop (p.ofs - p.start)).length + 1 - t.length)).find?
            (fun k => t.isPrefixOf (((win b p).drop (p.ofs - p.start)).drop k)) := by
      rw [scanLoop_eq, nWindows_eq, List.range_eq_range']
    cases hf : (List.range (((win b p).drop (p.ofs - p.start)).length + 1 - t.length)).find?
            (fun k => t.isPrefixOf (((win b p).drop (p.ofs - p.start)).drop k)) with
    | none =>
      exact Refines.of_eq_same h' (.err .eob)
        (by simp only [run, getCursor_ok h', slice_ok h2 h3, hr, ht, if_false, hloop, hf])
        (by simp only [arun, absV, ht, if_false, hf])
    | some k =>
      have hk := find?_some_lt hf
      rw [hrl] at hk
      have e : p.ofs - p.start + k = p.ofs + k - p.start := by omega
      exact Refines.of_eq h' (.ok (.nat k)) (p.ofs + k)
        (by simp only [run, getCursor_ok h', slice_ok h2 h3, hr, ht, if_false, hloop, hf])
        (by simp only [arun, absV, ht, if_false, hf, e]) (by omega)

theorem refines_bscan (b : Bytes) (p : PB) (h : WFV b p) (t : Bytes) : Refines (.bscan t) b p := by
  have hw := win_length h
  have hbf := before_eq h
  obtain ⟨h1, h2, h3⟩ := h
  have h' : WFV b p := ⟨h1, h2, h3⟩
  have hsl : slice b p.start p.ofs = .ok ((win b p).take (p.ofs - p.start)) := by
    rw [slice_ok h1 (by omega), hbf]
  have hlen : ((win b p).take (p.ofs - p.start)).length = p.ofs - p.start := by
    rw [List.length_take, hw]; omega
  by_cases ht : t.length = 0
  · exact Refines.of_eq_same h' (.panic "windows(0)")
      (by simp [run, getCursor_ok h', hsl, ht]) (by simp [arun, ht])
  · cases hf : (List.range (p.ofs - p.start + 1 - t.length)).reverse.find?
            (fun j => t.isPrefixOf (((win b p).take (p.ofs - p.start)).drop j)) with
    | none =>
      exact Refines.of_eq_same h' (.err .eob)
        (by simp only [run, getCursor_ok h', hsl, ht, if_false, bscanLoop_eq, nWindows_eq, hlen, hf, Option.map])
        (by simp only [arun, absV, ht, if_false, hf])
    | some j =>
      have hj := find?_rev_some_lt hf
      have e : 1 + (p.ofs - p.start + 1 - t.length - 1 - j) + t.length - 1 = p.ofs - p.start - j := by omega
      have hle : p.ofs - p.start - j ≤ p.ofs := by omega
      exact Refines.of_eq h' (.ok (.nat (p.ofs - p.start - j))) (p.ofs - (p.ofs - p.start - j))
        (by simp only [run, getCursor_ok h', hsl, ht, if_false, bscanLoop_eq, nWindows_eq, hlen, hf, Option.map, e, hle, if_true])
        (by simp only [arun, absV, ht, if_false, hf]; congr 2; omega) (by omega)

/-- Every `ParseBufferT` method on a well-formed buffer behaves like the same method on the
    copy of its window (same result, commuting abstraction), keeps the buffer well-formed and
    moves nothing but the cursor. -/
theorem run_refines (m : Meth) (b : Bytes) (p : PB) (h : WFV b p) : Refines m b p := by
  cases m with
  | size => exact refines_simple b p h _ (by simp)
  | remaining => exact refines_simple b p h _ (by simp)
  | getCursor => exact refines_simple b p h _ (by simp)
  | peek => exact refines_simple b p h _ (by simp)
  | buf => exact refines_simple b p h _ (by simp)
  | setCursor k => exact refines_cursor b p h _ (by simp)
  | incr => exact refines_cursor b p h _ (by simp)
  | decr => exact refines_cursor b p h _ (by simp)
  | checkCursor k => exact refines_cursor b p h _ (by simp)
  | setCursorU k => exact refines_cursor b p h _ (by simp)
  | incrU => exact refines_cursor b p h _ (by simp)
  | decrU => exact refines_cursor b p h _ (by simp)
  | checkPrefix t => exact refines_parse b p h _ (by simp)
  | allowed t => exact refines_parse b p h _ (by simp)
  | until_ t => exact refines_parse b p h _ (by simp)
  | scan t => exact refines_scan b p h t
  | bscan t => exact refines_bscan b p h t
  | exact t => exact refines_parse b p h _ (by simp)
  | extract n => exact refines_parse b p h _ (by simp)

end Parsley.C17
